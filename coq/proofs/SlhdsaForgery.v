(* "Any modification of a signature is rejected", in the form hash laws allow.

   SLH-DSA verification recomputes PK.root from the signature by a fixed
   pattern of tweakable-hash calls F, H, T_l whose addresses depend only on
   the selectors the message digest yields (FORS indices, idx_tree, idx_leaf).
   Two signature bodies (SIG_FORS || SIG_HT) accepted for the same selectors
   under the same public key are therefore either equal, or the two
   verifications contain
     - a same-tweak collision: one of F, H, T_l called with the same PK.seed
       and the same ADRS on two DIFFERENT inputs of EQUAL (positive) length
       with equal outputs (`th_collision`), or
     - a LOCATED WOTS+ switch (`sig_switch ... = true`, a boolean computed from
       the two signatures): at some hypertree layer the two verifications
       recompute the SAME WOTS+ public key from their WOTS+ parts although the
       base-w digit strings (message digits and checksum) of the values they
       sign there DIFFER.  Then (switch_at_walk) some chain value of one
       signature is a STRICT forward chain image of the other's, and, by the
       checksum, also the other way round at another chain (or a collision):
       whoever derived one signature from the other needed a chain preimage.
       The event is about the two given signatures; an unlocated "there exist
       two WOTS+ signatures on different messages with the same public key"
       would hold for every hash family (unlocated_switch_is_free: the holder
       of the secret values can always make them).
   The proofs are constructive (closed under the global context): they are
   the reduction that extracts the collision / switch from the two signatures.
   What is NOT claimed here: a modification that changes R or the message changes
   the digest.  When the new digest keeps (idx_tree, idx_leaf) and changes only the
   FORS indices, proofs/SlhdsaTargetSubset.v reduces acceptance to the explicit
   target-subset event (crossing openings in every FORS tree); when it selects
   another hypertree leaf nothing is proved (target-subset resilience of H_msg and
   PRF secrecy are not hash laws of this development). *)
From Coq Require Import List NArith Bool Arith Lia ZifyN ZifyNat ZifyBool.
From Tink Require Import Bytes SlhdsaSupport SlhdsaAddr SlhdsaBase SlhdsaWots SlhdsaXmss SlhdsaFors SlhdsaHt Slhdsa
  SlhdsaSpec SlhdsaListProofs SlhdsaSupportProofs SlhdsaWotsProofs SlhdsaXmssProofs SlhdsaForsProofs SlhdsaHtProofs
  SlhdsaProofs.
Import ListNotations.
Open Scope nat_scope.

Definition th_collision (HS : hashes) (pk : bytes) : Prop :=
  exists ad x y, x <> y /\ length x = length y /\ 0 < length x /\
    (hF HS pk ad x = hF HS pk ad y \/ hH HS pk ad x = hH HS pk ad y \/ hTl HS pk ad x = hTl HS pk ad y).

(* hash outputs are byte strings (needed to go from equal digit strings to equal messages) *)
Record hashes_wfb (HS : hashes) : Prop := {
  hH_wfb : forall pk ad x, wfb (hH HS pk ad x);
  hTl_wfb : forall pk ad x, wfb (hTl HS pk ad x)
}.

(* the len1 message digits cover exactly the 8n bits of an n-byte message (lg_w divides 8n;
   lg_w = 4 in all twelve sets), so base_2b is injective on n-byte strings *)
Definition digits_wf (P : params) : Prop :=
  p_len1 P * p_lgw P = 8 * p_n P /\ 1 <= p_lgw P <= 25 /\ p_len2 P * p_lgw P <= 32.

Definition bytes_eq_dec : forall x y : bytes, {x = y} + {x <> y} := list_eq_dec N.eq_dec.

Lemma neq_len_pos (x y : bytes) : x <> y -> length x = length y -> 0 < length x.
Proof. destruct x, y; simpl; intros; try lia. contradiction. Qed.

Lemma bounded_dec (A : nat -> Prop) (dec : forall i, {A i} + {~ A i}) : forall cnt,
  (forall i, i < cnt -> A i) \/ (exists i, i < cnt /\ ~ A i).
Proof.
  induction cnt as [|cnt [IH|[i [Hi Hn]]]].
  - left. intros; lia.
  - destruct (dec cnt) as [Y|Nn].
    + left. intros i Hi. destruct (Nat.eq_dec i cnt); [subst; auto|apply IH; lia].
    + right. exists cnt. split; [lia|auto].
  - right. exists i. split; [lia|auto].
Qed.

(* m-byte blocks *)
Definition gchunk (m i : nat) (s : bytes) : bytes := firstn m (skipn (i * m) s).

Lemma gchunk_length m i s : (i + 1) * m <= length s -> length (gchunk m i s) = m.
Proof. intros H. unfold gchunk. rewrite firstn_length, skipn_length. lia. Qed.

Lemma gchunks_eq m : forall cnt a b, length a = cnt * m -> length b = cnt * m ->
  (forall i, i < cnt -> gchunk m i a = gchunk m i b) -> a = b.
Proof.
  induction cnt as [|cnt IH]; intros a b Ha Hb Hc.
  - destruct a, b; simpl in *; try lia. reflexivity.
  - rewrite <- (firstn_skipn m a), <- (firstn_skipn m b). f_equal.
    + exact (Hc 0 ltac:(lia)).
    + apply IH; try (rewrite skipn_length; lia).
      intros i Hi. specialize (Hc (S i) ltac:(lia)). unfold gchunk in *.
      rewrite !skipn_add. replace (i * m + m) with (S i * m) by lia. exact Hc.
Qed.

Lemma gchunks_diff m cnt a b : length a = cnt * m -> length b = cnt * m -> a <> b ->
  exists i, i < cnt /\ gchunk m i a <> gchunk m i b.
Proof.
  intros Ha Hb Hne.
  destruct (bounded_dec (fun i => gchunk m i a = gchunk m i b) (fun i => bytes_eq_dec _ _) cnt) as [All|Ex]; [|exact Ex].
  exfalso. apply Hne. exact (gchunks_eq m cnt a b Ha Hb All).
Qed.

(* block j of the sub-block starting at block o *)
Lemma gchunk_sub m o len j s : j < len ->
  gchunk m j (firstn (len * m) (skipn (o * m) s)) = gchunk m (o + j) s.
Proof.
  intros Hj. unfold gchunk. rewrite skipn_firstn_comm, firstn_firstn, skipn_add.
  replace (Nat.min m (len * m - j * m)) with m by nia. f_equal. f_equal. lia.
Qed.

Lemma app_inv_length {A} : forall (a b c d : list A), a ++ b = c ++ d -> length a = length c -> a = c /\ b = d.
Proof.
  induction a as [|x a IH]; intros b c d E L; destruct c as [|y c]; simpl in *; try lia; [auto|].
  inversion E; subst. destruct (IH b c d H1 ltac:(lia)) as [-> ->]. auto.
Qed.

Lemma flat_map_seq_inj {B} (f g : nat -> list B) (m : nat) : forall cnt s,
  (forall i, s <= i < s + cnt -> length (f i) = m) -> (forall i, s <= i < s + cnt -> length (g i) = m) ->
  flat_map f (seq s cnt) = flat_map g (seq s cnt) -> forall i, s <= i < s + cnt -> f i = g i.
Proof.
  induction cnt as [|cnt IH]; intros s Hf Hg E i Hi; [lia|].
  cbn [seq flat_map] in E.
  apply app_inv_length in E as [E1 E2]; [|rewrite Hf, Hg by lia; reflexivity].
  destruct (Nat.eq_dec i s) as [->|Hne]; [exact E1|].
  apply (IH (S s)); auto; try lia; intros; [apply Hf|apply Hg]; lia.
Qed.

(* ---------- base_2b is injective when it reads all the bits ---------- *)
Lemma le_val_inj : forall a b, wfb a -> wfb b -> length a = length b -> le_val a = le_val b -> a = b.
Proof.
  induction a as [|x a IH]; intros b Wa Wb L E; destruct b as [|y b]; simpl in L; try lia; [reflexivity|].
  inversion Wa; subst. inversion Wb; subst. cbn [le_val] in E.
  assert (x = y /\ le_val a = le_val b) as [-> E2] by lia.
  f_equal. apply IH; auto.
Qed.

Lemma be_val_inj a b : wfb a -> wfb b -> length a = length b -> be_val a = be_val b -> a = b.
Proof.
  intros Wa Wb L E. unfold be_val in E.
  apply le_val_inj in E; try (apply Forall_rev; assumption); [|rewrite !rev_length; exact L].
  rewrite <- (rev_involutive a), <- (rev_involutive b), E. reflexivity.
Qed.

Lemma base2b_inj x y b out : wfb x -> wfb y -> length x = length y -> out * b = 8 * length x -> b <= 25 ->
  base2b x b out = base2b y b out -> x = y.
Proof.
  intros Wx Wy L Hb H25 E.
  destruct (base2b_value x b out Wx H25 ltac:(lia)) as [Vx _].
  destruct (base2b_value y b out Wy H25 ltac:(lia)) as [Vy _].
  rewrite E in Vx. rewrite Vx in Vy.
  replace (8 * length x - out * b) with 0 in Vy by lia. replace (8 * length y - out * b) with 0 in Vy by lia.
  change (2 ^ N.of_nat 0)%N with 1%N in Vy. rewrite !N.div_1_r in Vy. apply be_val_inj; auto.
Qed.

Lemma list_diff_nth : forall (a b : list N), length a = length b -> a <> b -> exists i, i < length a /\ nth i a 0%N <> nth i b 0%N.
Proof.
  induction a as [|x a IH]; intros b L Hne; destruct b as [|y b]; simpl in L; try lia; [contradiction|].
  destruct (N.eq_dec x y) as [->|Hxy].
  - destruct (IH b ltac:(lia) ltac:(intros ->; apply Hne; reflexivity)) as (i & Hi & Hd).
    exists (S i). split; [simpl; lia|exact Hd].
  - exists 0. split; [simpl; lia|exact Hxy].
Qed.

(* ---------- the WOTS+ checksum: digit strings are an antichain ----------
   two different digit strings (message digits ++ checksum digits) of the same
   length: some digit of the first is smaller AND some digit of the first is larger *)
Section ANTICHAIN.
  Variable P : params.
  Hypothesis DW : digits_wf P.

  Lemma nth_le_Forall2 : forall (l l' : list N), length l = length l' ->
    (forall i, i < length l -> (nth i l' 0 <= nth i l 0)%N) -> Forall2 N.le l' l.
  Proof.
    induction l as [|x l IH]; intros l' L H; destruct l' as [|y l']; simpl in L; try lia; [constructor|].
    constructor; [exact (H 0 ltac:(simpl; lia))|].
    apply IH; [lia|]. intros i Hi. exact (H (S i) ltac:(simpl; lia)).
  Qed.

  Lemma digits_val_mono b : forall l' l, Forall2 N.le l' l -> forall acc' acc, (acc' <= acc)%N ->
    (fold_left (fun a d => a * pw b + d) l' acc' <= fold_left (fun a d => a * pw b + d) l acc)%N.
  Proof.
    induction 1 as [|x' x l' l Hx _ IH]; intros acc' acc Ha; cbn [fold_left]; [exact Ha|].
    apply IH. pose proof (pw_pos b). nia.
  Qed.

  Lemma csum_strict (W : N) : forall l' l, Forall2 N.le l' l -> Forall (fun d => d <= W - 1)%N l ->
    forall acc acc', (acc <= acc')%N ->
    (fold_left (fun c d => c + (W - 1 - d)) l acc <= fold_left (fun c d => c + (W - 1 - d)) l' acc')%N /\
    ((fold_left (fun c d => c + (W - 1 - d)) l' acc' <= fold_left (fun c d => c + (W - 1 - d)) l acc)%N ->
     acc = acc' /\ l = l').
  Proof.
    induction 1 as [|x' x l' l Hx _ IH]; intros Hl acc acc' Ha; cbn [fold_left].
    - split; [exact Ha|]. intros; split; [lia|reflexivity].
    - inversion Hl as [|? ? Hxw Hl2]; subst.
      destruct (IH Hl2 (acc + (W - 1 - x))%N (acc' + (W - 1 - x'))%N ltac:(lia)) as [I1 I2].
      split; [exact I1|]. intros Hle. destruct (I2 Hle) as [Ea El].
      assert (acc = acc' /\ x = x') as [-> ->] by lia. subst l'. auto.
  Qed.

  (* if no digit of d = digits(M) is below the digit of d' = digits(M') then d = d' *)
  Lemma checksum_no_dominance M M' :
    (forall i, i < p_len P -> (nth i (wotsChecksum P M') 0 <= nth i (wotsChecksum P M) 0)%N) ->
    wotsChecksum P M = wotsChecksum P M'.
  Proof.
    intros Hdom. destruct DW as (D1 & D2 & D3).
    destruct (wotsChecksum_value P D2 D3 M) as (cs & E & Lc & Fc & Vc).
    destruct (wotsChecksum_value P D2 D3 M') as (cs' & E' & Lc' & Fc' & Vc').
    set (mb := base2b M (p_lgw P) (p_len1 P)) in *. set (mb' := base2b M' (p_lgw P) (p_len1 P)) in *.
    assert (Lm : length mb = p_len1 P) by apply base2b_length.
    assert (Lm' : length mb' = p_len1 P) by apply base2b_length.
    assert (Hmb : Forall2 N.le mb' mb).
    { apply nth_le_Forall2; [lia|]. intros i Hi. specialize (Hdom i ltac:(unfold p_len; lia)).
      rewrite E, E', !app_nth1 in Hdom by lia. exact Hdom. }
    assert (Hcs : Forall2 N.le cs' cs).
    { apply nth_le_Forall2; [lia|]. intros i Hi. specialize (Hdom (p_len1 P + i) ltac:(unfold p_len; lia)).
      rewrite E, E', !app_nth2 in Hdom by lia. rewrite Lm, Lm' in Hdom.
      replace (p_len1 P + i - p_len1 P) with i in Hdom by lia. exact Hdom. }
    assert (Hw : Forall (fun d => d <= N.of_nat (p_w P) - 1)%N mb).
    { pose proof (base2b_lt M (p_lgw P) (p_len1 P)) as Hl. fold mb in Hl. rewrite p_w_N.
      eapply Forall_impl; [|exact Hl]. cbv beta. intros; lia. }
    pose proof (digits_val_mono (p_lgw P) cs' cs Hcs 0%N 0%N ltac:(lia)) as Hv.
    fold (digits_val (p_lgw P) cs') in Hv. fold (digits_val (p_lgw P) cs) in Hv. rewrite Vc, Vc' in Hv.
    unfold csum_spec in Hv.
    destruct (csum_strict (N.of_nat (p_w P)) mb' mb Hmb Hw 0%N 0%N ltac:(lia)) as [_ I2].
    destruct (I2 Hv) as [_ Em].
    (* equal message digits: the checksum digits are a function of them *)
    unfold wotsChecksum. fold mb mb'. rewrite Em. reflexivity.
  Qed.

  Lemma N_le_dec (a b : N) : {(a <= b)%N} + {~ (a <= b)%N}.
  Proof. destruct (N.leb a b) eqn:E; [left; apply N.leb_le; exact E|right; intros H; apply N.leb_le in H; congruence]. Qed.

  Theorem checksum_antichain M M' : wotsChecksum P M <> wotsChecksum P M' ->
    (exists i, i < p_len P /\ (nth i (wotsChecksum P M) 0 < nth i (wotsChecksum P M') 0)%N) /\
    (exists i, i < p_len P /\ (nth i (wotsChecksum P M') 0 < nth i (wotsChecksum P M) 0)%N).
  Proof.
    intros Hne. split.
    - destruct (bounded_dec (fun i => (nth i (wotsChecksum P M') 0 <= nth i (wotsChecksum P M) 0)%N)
                  (fun i => N_le_dec _ _) (p_len P)) as [All|(i & Hi & Hn)].
      + exfalso. apply Hne. apply checksum_no_dominance. exact All.
      + exists i. split; [exact Hi|lia].
    - destruct (bounded_dec (fun i => (nth i (wotsChecksum P M) 0 <= nth i (wotsChecksum P M') 0)%N)
                  (fun i => N_le_dec _ _) (p_len P)) as [All|(i & Hi & Hn)].
      + exfalso. apply Hne. symmetry. apply checksum_no_dominance. exact All.
      + exists i. split; [exact Hi|lia].
  Qed.
End ANTICHAIN.

Section FORGERY.
  Variable P : params.
  Variable HS : hashes.
  Hypothesis OK : hashes_ok P HS.
  Notation n := (p_n P).
  Variable pk : bytes.
  Notation COLL := (th_collision HS pk).

  (* ---------- one call ---------- *)
  Lemma hF_inj ad x y : hF HS pk ad x = hF HS pk ad y -> length x = length y -> x = y \/ COLL.
  Proof.
    intros E L. destruct (bytes_eq_dec x y) as [e|ne]; [left; exact e|right].
    exists ad, x, y. split; [exact ne|]. split; [exact L|]. split; [exact (neq_len_pos x y ne L)|]. tauto.
  Qed.
  Lemma hH_inj ad x y : hH HS pk ad x = hH HS pk ad y -> length x = length y -> x = y \/ COLL.
  Proof.
    intros E L. destruct (bytes_eq_dec x y) as [e|ne]; [left; exact e|right].
    exists ad, x, y. split; [exact ne|]. split; [exact L|]. split; [exact (neq_len_pos x y ne L)|]. tauto.
  Qed.
  Lemma hTl_inj ad x y : hTl HS pk ad x = hTl HS pk ad y -> length x = length y -> x = y \/ COLL.
  Proof.
    intros E L. destruct (bytes_eq_dec x y) as [e|ne]; [left; exact e|right].
    exists ad, x, y. split; [exact ne|]. split; [exact L|]. split; [exact (neq_len_pos x y ne L)|]. tauto.
  Qed.

  (* ---------- chains ---------- *)
  Lemma chainS_inj : forall s l t kp c x y i, length x = n -> length y = n ->
    chainS HS l t kp c pk x i s = chainS HS l t kp c pk y i s -> x = y \/ COLL.
  Proof.
    induction s as [|s IH]; intros l t kp c x y i Hx Hy E; [left; exact E|].
    cbn [chainS] in E. apply IH in E; try apply (hF_len _ _ OK).
    destruct E as [E|C]; [|right; exact C]. apply hF_inj in E; [exact E|lia].
  Qed.

  (* ---------- WOTS+ public key from signature, same message digits ---------- *)
  Lemma wots_inj l t kp msgw s s' : length s = p_len P * n -> length s' = p_len P * n ->
    wotsPkFromSigS P HS l t kp msgw s pk = wotsPkFromSigS P HS l t kp msgw s' pk -> s = s' \/ COLL.
  Proof.
    intros Hs Hs' E. destruct (bytes_eq_dec s s') as [e|ne]; [left; exact e|right].
    destruct (gchunks_diff n (p_len P) s s' Hs Hs' ne) as (i & Hi & Hd).
    set (f := fun (z : bytes) (j : nat) => let mi := nth j msgw 0%N in
                chainS HS l t kp (N.of_nat j) pk (chunk P j z) mi (N.to_nat (N.of_nat (p_w P) - 1 - mi))).
    assert (Lc : forall z, length z = p_len P * n -> forall j, 0 <= j < 0 + p_len P -> length (f z j) = n).
    { intros z Hz j Hj. unfold f. cbv zeta. apply chainS_length; [apply (hF_len _ _ OK)|].
      apply gchunk_length. nia. }
    unfold wotsPkFromSigS in E.
    change (hTl HS pk (mkA l t T_WOTSPK kp 0 0) (flat_map (f s) (seq 0 (p_len P)))
            = hTl HS pk (mkA l t T_WOTSPK kp 0 0) (flat_map (f s') (seq 0 (p_len P)))) in E.
    apply hTl_inj in E.
    2:{ rewrite !(flat_map_seq_length _ 0 (p_len P) n); auto. }
    destruct E as [E|C]; [|exact C].
    pose proof (flat_map_seq_inj (f s) (f s') n (p_len P) 0 (Lc s Hs) (Lc s' Hs') E i ltac:(lia)) as Ei.
    unfold f in Ei.
    cbv zeta in Ei. apply chainS_inj in Ei; try (apply gchunk_length; nia).
    destruct Ei as [Ei|C]; [|exact C]. exfalso. apply Hd. exact Ei.
  Qed.


  (* ---------- what a WOTS+ message switch is: chain walking ----------
     two WOTS+ signatures on (possibly different) digit strings leading to the same
     public key: each value of one is the forward chain image of the corresponding
     value of the other, from the smaller digit to the larger one (or a collision).
     With the checksum (some digit goes down when another goes up) a forger
     holding one of them needed a chain PREIMAGE for the other. *)
  Lemma chain_ends l t kp c x y (m m' : N) (W : N) : length x = n -> length y = n -> (m <= m')%N -> (m' <= W)%N ->
    chainS HS l t kp c pk x m (N.to_nat (W - m)) = chainS HS l t kp c pk y m' (N.to_nat (W - m')) ->
    y = chainS HS l t kp c pk x m (N.to_nat (m' - m)) \/ COLL.
  Proof.
    intros Hx Hy Hm HW E.
    replace (N.to_nat (W - m)) with (N.to_nat (m' - m) + N.to_nat (W - m')) in E by lia.
    rewrite <- chainS_compose in E. replace (m + N.of_nat (N.to_nat (m' - m)))%N with m' in E by lia.
    apply chainS_inj in E; auto.
    - destruct E as [E|C]; [left; symmetry; exact E|right; exact C].
    - apply chainS_length; [apply (hF_len _ _ OK)|exact Hx].
  Qed.

  Lemma wots_switch_chains l t kp msgw msgw' s s' :
    length s = p_len P * n -> length s' = p_len P * n ->
    (forall i, (nth i msgw 0 <= N.of_nat (p_w P) - 1)%N) -> (forall i, (nth i msgw' 0 <= N.of_nat (p_w P) - 1)%N) ->
    wotsPkFromSigS P HS l t kp msgw s pk = wotsPkFromSigS P HS l t kp msgw' s' pk ->
    COLL \/ forall i, i < p_len P ->
      let m := nth i msgw 0%N in let m' := nth i msgw' 0%N in
      ((m <= m')%N -> chunk P i s' = chainS HS l t kp (N.of_nat i) pk (chunk P i s) m (N.to_nat (m' - m))) /\
      ((m' <= m)%N -> chunk P i s = chainS HS l t kp (N.of_nat i) pk (chunk P i s') m' (N.to_nat (m - m'))).
  Proof.
    intros Hs Hs' Hd Hd' E.
    set (f := fun (mw : list N) (z : bytes) (j : nat) => let mi := nth j mw 0%N in
                chainS HS l t kp (N.of_nat j) pk (chunk P j z) mi (N.to_nat (N.of_nat (p_w P) - 1 - mi))).
    assert (Lc : forall mw z, length z = p_len P * n -> forall j, 0 <= j < 0 + p_len P -> length (f mw z j) = n).
    { intros mw z Hz j Hj. unfold f. cbv zeta. apply chainS_length; [apply (hF_len _ _ OK)|].
      apply gchunk_length. nia. }
    unfold wotsPkFromSigS in E.
    change (hTl HS pk (mkA l t T_WOTSPK kp 0 0) (flat_map (f msgw s) (seq 0 (p_len P)))
            = hTl HS pk (mkA l t T_WOTSPK kp 0 0) (flat_map (f msgw' s') (seq 0 (p_len P)))) in E.
    apply hTl_inj in E.
    2:{ rewrite !(flat_map_seq_length _ 0 (p_len P) n); auto. }
    destruct E as [E|C]; [|left; exact C].
    pose proof (flat_map_seq_inj (f msgw s) (f msgw' s') n (p_len P) 0 (Lc msgw s Hs) (Lc msgw' s' Hs') E) as Ei.
    assert (G : forall cnt, cnt <= p_len P -> COLL \/ forall i, i < cnt ->
      let m := nth i msgw 0%N in let m' := nth i msgw' 0%N in
      ((m <= m')%N -> chunk P i s' = chainS HS l t kp (N.of_nat i) pk (chunk P i s) m (N.to_nat (m' - m))) /\
      ((m' <= m)%N -> chunk P i s = chainS HS l t kp (N.of_nat i) pk (chunk P i s') m' (N.to_nat (m - m')))).
    { induction cnt as [|cnt IH]; intros Hc; [right; intros; lia|].
      destruct (IH ltac:(lia)) as [C|IHa]; [left; exact C|].
      specialize (Ei cnt ltac:(lia)). unfold f in Ei. cbv zeta in Ei.
      assert (Lx : length (chunk P cnt s) = n) by (apply gchunk_length; nia).
      assert (Lx' : length (chunk P cnt s') = n) by (apply gchunk_length; nia).
      assert (A1 : COLL \/ ((nth cnt msgw 0%N <= nth cnt msgw' 0%N)%N ->
                 chunk P cnt s' = chainS HS l t kp (N.of_nat cnt) pk (chunk P cnt s) (nth cnt msgw 0%N)
                                    (N.to_nat (nth cnt msgw' 0%N - nth cnt msgw 0%N)))).
      { destruct (N.le_gt_cases (nth cnt msgw 0%N) (nth cnt msgw' 0%N)) as [Le|Gt]; [|right; intros; lia].
        destruct (chain_ends l t kp (N.of_nat cnt) _ _ _ _ (N.of_nat (p_w P) - 1)%N Lx Lx' Le (Hd' cnt) Ei) as [R|C];
          [right; intros _; exact R|left; exact C]. }
      assert (A2 : COLL \/ ((nth cnt msgw' 0%N <= nth cnt msgw 0%N)%N ->
                 chunk P cnt s = chainS HS l t kp (N.of_nat cnt) pk (chunk P cnt s') (nth cnt msgw' 0%N)
                                    (N.to_nat (nth cnt msgw 0%N - nth cnt msgw' 0%N)))).
      { destruct (N.le_gt_cases (nth cnt msgw' 0%N) (nth cnt msgw 0%N)) as [Le|Gt]; [|right; intros; lia].
        destruct (chain_ends l t kp (N.of_nat cnt) _ _ _ _ (N.of_nat (p_w P) - 1)%N Lx' Lx Le (Hd cnt) (eq_sym Ei)) as [R|C];
          [right; intros _; exact R|left; exact C]. }
      destruct A1 as [C|A1]; [left; exact C|]. destruct A2 as [C|A2]; [left; exact C|].
      right. intros i Hi. destruct (Nat.eq_dec i cnt) as [->|Hne]; [cbv zeta; split; assumption|apply IHa; lia]. }
    exact (G (p_len P) (le_n _)).
  Qed.

  (* ---------- the climb of Algorithms 11 and 17 ---------- *)
  Lemma climbS_length mkad : forall cnt k tidx idx auth node, length node = n ->
    length (climbS P HS mkad cnt k tidx idx auth pk node) = n.
  Proof.
    induction cnt as [|cnt IH]; intros; [assumption|]. cbn [climbS]. apply IH.
    destruct (N.eqb _ 0); apply (hH_len _ _ OK).
  Qed.

  Lemma climb_inj mkad tidx idx auth auth' : forall cnt k node node',
    length node = n -> length node' = n ->
    (forall j, k <= j < k + cnt -> length (chunk P j auth) = n /\ length (chunk P j auth') = n) ->
    climbS P HS mkad cnt k tidx idx auth pk node = climbS P HS mkad cnt k tidx idx auth' pk node' ->
    (node = node' /\ forall j, k <= j < k + cnt -> chunk P j auth = chunk P j auth') \/ COLL.
  Proof.
    induction cnt as [|cnt IH]; intros k node node' Hn Hn' Hc E.
    - left. split; [exact E|intros; lia].
    - cbn [climbS] in E. destruct (Hc k ltac:(lia)) as [Lk Lk'].
      apply IH in E.
      2,3: destruct (N.eqb _ 0); apply (hH_len _ _ OK).
      2: intros j Hj; apply Hc; lia.
      destruct E as [[E Rest]|C]; [|right; exact C].
      assert (X : (node = node' /\ chunk P k auth = chunk P k auth') \/ COLL).
      { destruct (N.eqb (N.land (N.shiftr idx (N.of_nat k)) 1) 0).
        - apply hH_inj in E; [|rewrite !app_length; lia]. destruct E as [E|C]; [left|right; exact C].
          apply app_inv_length in E; [exact E|lia].
        - apply hH_inj in E; [|rewrite !app_length; lia]. destruct E as [E|C]; [left|right; exact C].
          apply app_inv_length in E; [tauto|lia]. }
      destruct X as [[X1 X2]|C]; [left|right; exact C].
      split; [exact X1|]. intros j Hj. destruct (Nat.eq_dec j k) as [->|Hne]; [exact X2|apply Rest; lia].
  Qed.

  Lemma climbS_wfb (WB : hashes_wfb HS) mkad : forall cnt k tidx idx auth node, wfb node ->
    wfb (climbS P HS mkad cnt k tidx idx auth pk node).
  Proof.
    induction cnt as [|cnt IH]; intros; [assumption|]. cbn [climbS]. apply IH.
    destruct (N.eqb _ 0); apply (hH_wfb _ WB).
  Qed.

  (* ---------- one XMSS layer ---------- *)
  Notation sz := (xmssSigSize P).
  Hypothesis WB : hashes_wfb HS.
  Hypothesis DW : digits_wf P.

  Lemma xmss_out_len l t idx X M : length (xmssPkFromSigS P HS l t idx X M pk) = n.
  Proof. unfold xmssPkFromSigS. apply climbS_length. apply (hTl_len _ _ OK). Qed.
  Lemma xmss_out_wfb l t idx X M : wfb (xmssPkFromSigS P HS l t idx X M pk).
  Proof. unfold xmssPkFromSigS. apply climbS_wfb; [exact WB|]. apply (hTl_wfb _ WB). Qed.

  (* equal digit strings (message digits and checksum) of two n-byte strings: equal strings *)
  Lemma digits_inj M M' : wfb M -> wfb M' -> length M = n -> length M' = n ->
    wotsChecksum P M = wotsChecksum P M' -> M = M'.
  Proof.
    intros W W' L L' E. destruct DW as (D1 & D2 & _). unfold wotsChecksum in E. cbv zeta in E.
    apply app_inv_length in E; [|rewrite !base2b_length; reflexivity].
    destruct E as [E _]. apply (base2b_inj M M' (p_lgw P) (p_len1 P)); auto; lia.
  Qed.

  (* THE LOCATED EVENT at one layer: the WOTS+ parts of X and X' lead to the same WOTS+ public
     key at address (l, t, kp) although the digit strings of the signed values M, M' differ *)
  Definition switch_at (l t kp : N) (M M' X X' : bytes) : bool :=
    negb (beq (wotsChecksum P M) (wotsChecksum P M')) &&
    beq (wotsPkFromSigS P HS l t kp (wotsChecksum P M) (firstn (p_len P * n) X) pk)
        (wotsPkFromSigS P HS l t kp (wotsChecksum P M') (firstn (p_len P * n) X') pk).

  Lemma xmss_layer l t idx X X' M M' : length X = sz -> length X' = sz ->
    wfb M -> wfb M' -> length M = n -> length M' = n ->
    xmssPkFromSigS P HS l t idx X M pk = xmssPkFromSigS P HS l t idx X' M' pk ->
    (M = M' /\ X = X') \/ switch_at l t idx M M' X X' = true \/ COLL.
  Proof.
    intros HX HX' WM WM' LM LM' E. unfold xmssPkFromSigS in E. unfold xmssSigSize in HX, HX'.
    assert (La : forall Z, length Z = (p_hp P + p_len P) * n -> forall j, 0 <= j < 0 + p_hp P ->
              length (chunk P j (skipn (p_len P * n) Z)) = n).
    { intros Z HZ j Hj. apply gchunk_length. rewrite skipn_length. nia. }
    apply climb_inj in E; try apply (hTl_len _ _ OK).
    2:{ intros j Hj. split; [apply (La X)|apply (La X')]; auto. }
    destruct E as [[Ew Ea]|C]; [|right; right; exact C].
    assert (Eauth : skipn (p_len P * n) X = skipn (p_len P * n) X').
    { apply (gchunks_eq n (p_hp P)); try (rewrite skipn_length; lia). intros i Hi. apply Ea. lia. }
    destruct (beq (wotsChecksum P M) (wotsChecksum P M')) eqn:Eb.
    - apply beq_eq in Eb. apply digits_inj in Eb; auto. subst M'.
      apply wots_inj in Ew; try (rewrite firstn_length; lia).
      destruct Ew as [Ew|C]; [left|right; right; exact C].
      split; [reflexivity|]. rewrite <- (firstn_skipn (p_len P * n) X), <- (firstn_skipn (p_len P * n) X'). congruence.
    - right. left. unfold switch_at. rewrite Eb, Ew, beq_refl. reflexivity.
  Qed.

  (* ---------- the hypertree: layers j .. j+cnt-1 (mirrors htVerifyS_loop) ---------- *)
  Fixpoint switch_in_loop (cnt j : nat) (sH sH' : bytes) (it : N) (node node' : bytes) : bool :=
    match cnt with
    | O => false
    | S c =>
      let X := gchunk sz j sH in
      let X' := gchunk sz j sH' in
      switch_at (N.of_nat j) (htUp P it) (htLeaf P it) node node' X X' ||
      switch_in_loop c (S j) sH sH' (htUp P it)
        (xmssPkFromSigS P HS (N.of_nat j) (htUp P it) (htLeaf P it) X node pk)
        (xmssPkFromSigS P HS (N.of_nat j) (htUp P it) (htLeaf P it) X' node' pk)
    end.

  Lemma ht_loop_inj sigHT sigHT' D : length sigHT = D * sz -> length sigHT' = D * sz ->
    forall cnt j it node node', j + cnt <= D ->
    wfb node -> wfb node' -> length node = n -> length node' = n ->
    htVerifyS_loop P HS cnt j sigHT pk it node = htVerifyS_loop P HS cnt j sigHT' pk it node' ->
    (node = node' /\ forall i, j <= i < j + cnt -> gchunk sz i sigHT = gchunk sz i sigHT')
    \/ switch_in_loop cnt j sigHT sigHT' it node node' = true \/ COLL.
  Proof.
    intros HL HL'. induction cnt as [|cnt IH]; intros j it node node' Hj W W' L L' E.
    - left. split; [exact E|intros; lia].
    - cbn [htVerifyS_loop] in E. cbn [switch_in_loop].
      apply IH in E; try lia; try apply xmss_out_wfb; try apply xmss_out_len.
      destruct E as [[E Rest]|[Sw|C]]; [|right; left|right; right; exact C].
      + apply xmss_layer in E; auto; try (apply gchunk_length; nia).
        destruct E as [[E1 E2]|[Sw|C]]; [left|right; left|right; right; exact C].
        * split; [exact E1|]. intros i Hi. destruct (Nat.eq_dec i j) as [->|Hne]; [exact E2|apply Rest; lia].
        * unfold gchunk. rewrite Sw. reflexivity.
      + unfold gchunk in *. rewrite Sw. apply orb_true_r.
  Qed.

  (* the whole hypertree part, layer 0 first *)
  Definition ht_switch (sH sH' : bytes) (it il : N) (M0 M0' : bytes) : bool :=
    switch_at 0 it il M0 M0' (gchunk sz 0 sH) (gchunk sz 0 sH') ||
    switch_in_loop (p_d P - 1) 1 sH sH' it
      (xmssPkFromSigS P HS 0 it il (gchunk sz 0 sH) M0 pk) (xmssPkFromSigS P HS 0 it il (gchunk sz 0 sH') M0' pk).

  (* ---------- a located switch is chain walking, in BOTH directions ----------
     at some chain i the value in X' is the image of the value in X under m'_i - m_i >= 1 chain
     steps, and at some chain i' the value in X is the image of the value in X' under
     m_i' - m'_i' >= 1 steps (the checksum digits make the digit strings an antichain):
     neither WOTS+ signature can be derived from the other by walking chains forward only *)
  Lemma switch_at_walk l t kp M M' X X' : length X = sz -> length X' = sz ->
    switch_at l t kp M M' X X' = true ->
    COLL \/
    ((exists i, i < p_len P /\
        let m := nth i (wotsChecksum P M) 0%N in let m' := nth i (wotsChecksum P M') 0%N in
        (m < m')%N /\ chunk P i X' = chainS HS l t kp (N.of_nat i) pk (chunk P i X) m (N.to_nat (m' - m))) /\
     (exists i, i < p_len P /\
        let m := nth i (wotsChecksum P M) 0%N in let m' := nth i (wotsChecksum P M') 0%N in
        (m' < m)%N /\ chunk P i X = chainS HS l t kp (N.of_nat i) pk (chunk P i X') m' (N.to_nat (m - m')))).
  Proof.
    intros HX HX' Sw. unfold switch_at in Sw. apply andb_prop in Sw. destruct Sw as [Sd Se].
    apply beq_eq in Se. unfold xmssSigSize in HX, HX'.
    assert (Hne : wotsChecksum P M <> wotsChecksum P M').
    { intros E. rewrite E, beq_refl in Sd. discriminate. }
    destruct (checksum_antichain P DW M M' Hne) as [(i & Hi & Lt) (i' & Hi' & Gt)].
    apply wots_switch_chains in Se; try (rewrite firstn_length; lia); try (intros; apply wotsChecksum_digit).
    destruct Se as [C|Wk]; [left; exact C|right].
    assert (Ec : forall c Z, c < p_len P -> length Z = (p_hp P + p_len P) * n ->
              chunk P c (firstn (p_len P * n) Z) = chunk P c Z).
    { intros c Z Hc HZ. unfold chunk. rewrite skipn_firstn_comm, firstn_firstn. f_equal. nia. }
    split.
    - exists i. split; [exact Hi|]. cbv zeta. split; [exact Lt|].
      destruct (Wk i Hi) as [W1 _]. cbv zeta in W1. rewrite !Ec in W1 by assumption. apply W1. lia.
    - exists i'. split; [exact Hi'|]. cbv zeta. split; [exact Gt|].
      destruct (Wk i' Hi') as [_ W2]. cbv zeta in W2. rewrite !Ec in W2 by assumption. apply W2. lia.
  Qed.

  (* a switch found by the layered boolean is a switch_at on one pair of XMSS blocks *)
  Lemma switch_in_loop_located sH sH' : forall cnt j it node node',
    switch_in_loop cnt j sH sH' it node node' = true ->
    exists i l t kp M M', j <= i < j + cnt /\ switch_at l t kp M M' (gchunk sz i sH) (gchunk sz i sH') = true.
  Proof.
    induction cnt as [|cnt IH]; intros j it node node' H; [discriminate|].
    cbn [switch_in_loop] in H. apply orb_prop in H. destruct H as [H|H].
    - exists j, (N.of_nat j), (htUp P it), (htLeaf P it), node, node'. split; [lia|exact H].
    - apply IH in H. destruct H as (i & l & t & kp & M & M' & Hi & H).
      exists i, l, t, kp, M, M'. split; [lia|exact H].
  Qed.

  Lemma ht_switch_walk sH sH' it il M0 M0' : length sH = p_d P * sz -> length sH' = p_d P * sz -> 1 <= p_d P ->
    ht_switch sH sH' it il M0 M0' = true ->
    COLL \/ exists j l t kp M M', j < p_d P /\
      let X := gchunk sz j sH in let X' := gchunk sz j sH' in
      (exists i, i < p_len P /\
         let m := nth i (wotsChecksum P M) 0%N in let m' := nth i (wotsChecksum P M') 0%N in
         (m < m')%N /\ chunk P i X' = chainS HS l t kp (N.of_nat i) pk (chunk P i X) m (N.to_nat (m' - m))) /\
      (exists i, i < p_len P /\
         let m := nth i (wotsChecksum P M) 0%N in let m' := nth i (wotsChecksum P M') 0%N in
         (m' < m)%N /\ chunk P i X = chainS HS l t kp (N.of_nat i) pk (chunk P i X') m' (N.to_nat (m - m'))).
  Proof.
    intros L L' Hd H. unfold ht_switch in H. apply orb_prop in H.
    assert (Loc : exists j l t kp M M', j < p_d P /\ switch_at l t kp M M' (gchunk sz j sH) (gchunk sz j sH') = true).
    { destruct H as [H|H].
      - exists 0, 0%N, it, il, M0, M0'. split; [lia|exact H].
      - apply switch_in_loop_located in H. destruct H as (i & l & t & kp & M & M' & Hi & H).
        exists i, l, t, kp, M, M'. split; [lia|exact H]. }
    destruct Loc as (j & l & t & kp & M & M' & Hj & Sw).
    apply switch_at_walk in Sw; try (apply gchunk_length; nia).
    destruct Sw as [C|Wk]; [left; exact C|right]. exists j, l, t, kp, M, M'. split; [exact Hj|exact Wk].
  Qed.

  (* ---------- FORS public key from signature, same indices ---------- *)
  Lemma fors_inj l t kp indices s s' :
    length s = p_k P * ((p_a P + 1) * n) -> length s' = p_k P * ((p_a P + 1) * n) ->
    forsPkFromSigS P HS l t kp indices s pk = forsPkFromSigS P HS l t kp indices s' pk -> s = s' \/ COLL.
  Proof.
    intros Hs Hs' E. destruct (bytes_eq_dec s s') as [e|ne]; [left; exact e|right].
    set (a := p_a P) in *.
    destruct (gchunks_diff n (p_k P * (a + 1)) s s' ltac:(lia) ltac:(lia) ne) as (c & Hc & Hd).
    (* the tree and the position inside its block *)
    pose proof (Nat.div_mod c (a + 1) ltac:(lia)) as Dm. pose proof (Nat.mod_upper_bound c (a + 1) ltac:(lia)) as Um.
    set (i := c / (a + 1)) in *. set (r := c mod (a + 1)) in *.
    assert (Hi : i < p_k P) by nia.
    unfold forsPkFromSigS in E. fold a in E.
    set (G := fun z i => let ind := nth i indices 0%N in
         let skv := firstn n (skipn (i * (a + 1) * n) z) in
         let auth := firstn ((i + 1) * (a + 1) * n - (i * (a + 1) + 1) * n) (skipn ((i * (a + 1) + 1) * n) z) in
         climbS P HS (fun h x => mkA l t T_FORSTREE kp h x) a 0 (forsLeafIdx P i ind) ind auth pk
                (hF HS pk (mkA l t T_FORSTREE kp 0 (forsLeafIdx P i ind)) skv)).
    change (hTl HS pk (mkA l t T_FORSROOTS kp 0 0) (flat_map (G s) (seq 0 (p_k P)))
            = hTl HS pk (mkA l t T_FORSROOTS kp 0 0) (flat_map (G s') (seq 0 (p_k P)))) in E.
    assert (LG : forall z j, length (G z j) = n).
    { intros z j. unfold G. cbv zeta. apply climbS_length. apply (hF_len _ _ OK). }
    apply hTl_inj in E; [|rewrite !(flat_map_seq_length _ 0 (p_k P) n); auto].
    destruct E as [E|C]; [|exact C].
    pose proof (flat_map_seq_inj _ _ n (p_k P) 0 ltac:(intros; apply LG) ltac:(intros; apply LG) E i ltac:(lia)) as Ei.
    unfold G in Ei. cbv zeta in Ei.
    replace ((i + 1) * (a + 1) * n - (i * (a + 1) + 1) * n) with (a * n) in Ei by nia.
    assert (Lau : forall z, length z = p_k P * ((a + 1) * n) -> forall j, 0 <= j < 0 + a ->
              length (chunk P j (firstn (a * n) (skipn ((i * (a + 1) + 1) * n) z))) = n).
    { intros z Hz j Hj. unfold chunk. fold (gchunk n j (firstn (a * n) (skipn ((i * (a + 1) + 1) * n) z))).
      rewrite gchunk_sub by lia. apply gchunk_length. nia. }
    apply climb_inj in Ei; try apply (hF_len _ _ OK).
    2:{ intros j Hj. split; [apply (Lau s)|apply (Lau s')]; auto. }
    destruct Ei as [[El Ea]|C]; [|exact C].
    destruct (Nat.eq_dec r 0) as [Hr|Hr].
    - (* the revealed secret value *)
      apply hF_inj in El.
      2:{ rewrite !firstn_length, !skipn_length. nia. }
      destruct El as [El|C]; [|exact C]. exfalso. apply Hd. unfold gchunk.
      replace (c * n) with (i * (a + 1) * n) by nia. exact El.
    - (* an authentication path node *)
      exfalso. apply Hd. specialize (Ea (r - 1) ltac:(lia)). unfold chunk in Ea.
      fold (gchunk n (r - 1) (firstn (a * n) (skipn ((i * (a + 1) + 1) * n) s))) in Ea.
      fold (gchunk n (r - 1) (firstn (a * n) (skipn ((i * (a + 1) + 1) * n) s'))) in Ea.
      rewrite !gchunk_sub in Ea by lia.
      replace (i * (a + 1) + 1 + (r - 1)) with c in Ea by lia. exact Ea.
  Qed.
End FORGERY.

(* ---------- why the event has to be located ----------
   "there exist two WOTS+ signatures on values with different digit strings that lead to the
   same WOTS+ public key" holds for EVERY hash family and every pair of values: whoever holds
   the chain start values signs both (this is wotsS_complete twice). *)
Lemma unlocated_switch_is_free P HS pk : hashes_ok P HS -> forall l t kp M M' sk,
  wotsPkFromSigS P HS l t kp (wotsChecksum P M) (wotsSignS P HS l t kp (wotsChecksum P M) sk pk) pk
  = wotsPkFromSigS P HS l t kp (wotsChecksum P M') (wotsSignS P HS l t kp (wotsChecksum P M') sk pk) pk.
Proof.
  intros OK l t kp M M' sk. rewrite !(wotsS_complete P HS OK) by (intros; apply wotsChecksum_digit). reflexivity.
Qed.

(* ---------- the whole verification ---------- *)
Section TOP.
  Variable P : params.
  Variable HS : hashes.
  Hypothesis OK : hashes_ok P HS.
  Hypothesis WF : params_wf P.
  Hypothesis WB : hashes_wfb HS.
  Hypothesis DW : digits_wf P.
  Notation n := (p_n P).

  (* what the digest contributes to the computation: FORS indices, tree, leaf *)
  Definition selectors (pkSeed pkRoot msg sig : bytes) : list N * N * N :=
    let '(md, it, il) := split_digest P (hHMsg HS (firstn n sig) pkSeed pkRoot msg) in
    (base2b md (p_a P) (p_k P), it, il).

  (* R || body *)
  Definition sig_body (sig : bytes) : bytes := skipn n sig.

  (* the parts of a signature as verifyInternal takes them *)
  Definition sig_fors (sig : bytes) : bytes := firstn ((1 + p_k P * (1 + p_a P)) * n - n) (skipn n sig).
  Definition sig_ht (sig : bytes) : bytes := skipn ((1 + p_k P * (1 + p_a P)) * n) sig.

  (* THE LOCATED EVENT for two signatures verified for (msg, sig)'s selectors: a boolean
     computed from the two signatures (the FORS public keys each yields, then layer by layer) *)
  Definition sig_switch (pkSeed pkRoot msg sig sig' : bytes) : bool :=
    let '(ind, it, il) := selectors pkSeed pkRoot msg sig in
    ht_switch P HS pkSeed (sig_ht sig) (sig_ht sig') it il
      (forsPkFromSigS P HS 0 it il ind (sig_fors sig) pkSeed) (forsPkFromSigS P HS 0 it il ind (sig_fors sig') pkSeed).

  Theorem two_accepted_signatures : forall pkSeed pkRoot msg sig msg' sig',
    verifyInternal P HS pkSeed pkRoot msg sig = true ->
    verifyInternal P HS pkSeed pkRoot msg' sig' = true ->
    selectors pkSeed pkRoot msg sig = selectors pkSeed pkRoot msg' sig' ->
    sig_body sig = sig_body sig' \/ sig_switch pkSeed pkRoot msg sig sig' = true \/ th_collision HS pkSeed.
  Proof.
    intros pkSeed pkRoot msg sig msg' sig' V V' Sel.
    rewrite verifyInternal_fips in V, V'. unfold verifyInternalS in V, V'.
    unfold sig_switch. unfold selectors in *.
    destruct (Nat.eqb_spec (length sig) (sig_len P)) as [L|L]; [cbn [negb] in V|discriminate].
    destruct (Nat.eqb_spec (length sig') (sig_len P)) as [L'|L']; [cbn [negb] in V'|discriminate].
    destruct (split_digest P (hHMsg HS (firstn n sig) pkSeed pkRoot msg)) as [[md it] il].
    destruct (split_digest P (hHMsg HS (firstn n sig') pkSeed pkRoot msg')) as [[md' it'] il'].
    inversion Sel as [[Ei Et El]]. subst it' il'. rewrite <- Ei in V'. clear Ei Sel.
    set (ind := base2b md (p_a P) (p_k P)) in *.
    destruct WF as [Hh Hd].
    fold (sig_fors sig) in V. fold (sig_fors sig') in V'. fold (sig_ht sig) in V. fold (sig_ht sig') in V'.
    set (sF := sig_fors sig) in *. set (sF' := sig_fors sig') in *.
    set (sH := sig_ht sig) in *. set (sH' := sig_ht sig') in *.
    assert (LsF : length sF = p_k P * ((p_a P + 1) * n) /\ length sF' = p_k P * ((p_a P + 1) * n)).
    { unfold sF, sF', sig_fors. rewrite !firstn_length, !skipn_length, L, L'. unfold sig_len. nia. }
    assert (LsH : length sH = p_d P * xmssSigSize P /\ length sH' = p_d P * xmssSigSize P).
    { unfold sH, sH', sig_ht. rewrite !skipn_length, L, L'. unfold sig_len, xmssSigSize. rewrite Hh. nia. }
    destruct LsF as [LF LF']. destruct LsH as [LH LH'].
    set (M0 := forsPkFromSigS P HS 0 it il ind sF pkSeed) in *.
    set (M0' := forsPkFromSigS P HS 0 it il ind sF' pkSeed) in *.
    assert (WM : wfb M0 /\ wfb M0' /\ length M0 = n /\ length M0' = n).
    { unfold M0, M0', forsPkFromSigS. repeat split; try apply (hTl_wfb _ WB); apply (hTl_len _ _ OK). }
    destruct WM as (WM & WM' & LM & LM').
    unfold htVerifyS in V, V'. apply beq_eq in V, V'. rewrite <- V' in V. clear V'.
    unfold ht_switch.
    change (firstn (xmssSigSize P) sH) with (gchunk (xmssSigSize P) 0 sH) in V.
    change (firstn (xmssSigSize P) sH') with (gchunk (xmssSigSize P) 0 sH') in V.
    apply (ht_loop_inj P HS OK pkSeed WB DW sH sH' (p_d P) LH LH') in V;
      try lia; try apply xmss_out_wfb; try apply xmss_out_len; auto.
    destruct V as [[V Rest]|[Sw|C]]; [|right; left; rewrite Sw; apply orb_true_r|right; right; exact C].
    apply (xmss_layer P HS OK pkSeed DW) in V; auto; try (apply gchunk_length; nia).
    destruct V as [[V0 B0]|[Sw|C]]; [|right; left; rewrite Sw; reflexivity|right; right; exact C].
    apply (fors_inj P HS OK) in V0; auto.
    destruct V0 as [V0|C]; [left|right; right; exact C].
    assert (EH : sH = sH').
    { apply (gchunks_eq (xmssSigSize P) (p_d P)); auto. intros i Hi.
      destruct (Nat.eq_dec i 0) as [->|Hne]; [exact B0|apply Rest; lia]. }
    unfold sig_body.
    set (fi := 1 + p_k P * (1 + p_a P)) in *.
    rewrite <- (firstn_skipn (fi * n - n) (skipn n sig)), <- (firstn_skipn (fi * n - n) (skipn n sig')).
    rewrite !skipn_add.
    replace (fi * n - n + n) with (fi * n) by (unfold fi; nia).
    change (sF ++ sH = sF' ++ sH'). congruence.
  Qed.

  (* the signature-modification clause: same message, same R, same key *)
  Corollary modified_signature_accepted : forall pkSeed pkRoot msg sig sig',
    verifyInternal P HS pkSeed pkRoot msg sig = true ->
    verifyInternal P HS pkSeed pkRoot msg sig' = true ->
    firstn n sig = firstn n sig' -> sig <> sig' ->
    sig_switch pkSeed pkRoot msg sig sig' = true \/ th_collision HS pkSeed.
  Proof.
    intros pkSeed pkRoot msg sig sig' V V' ER Hne.
    destruct (two_accepted_signatures pkSeed pkRoot msg sig msg sig' V V') as [E|R]; [|exfalso|exact R].
    - unfold selectors. rewrite ER. reflexivity.
    - apply Hne. rewrite <- (firstn_skipn n sig), <- (firstn_skipn n sig'). unfold sig_body in E. congruence.
  Qed.

  (* what a located switch between two signatures of the right length means *)
  Theorem sig_switch_walk : forall pkSeed pkRoot msg sig sig',
    length sig = sig_len P -> length sig' = sig_len P ->
    sig_switch pkSeed pkRoot msg sig sig' = true ->
    th_collision HS pkSeed \/ exists j l t kp M M', j < p_d P /\
      let X := gchunk (xmssSigSize P) j (sig_ht sig) in let X' := gchunk (xmssSigSize P) j (sig_ht sig') in
      (exists i, i < p_len P /\
         let m := nth i (wotsChecksum P M) 0%N in let m' := nth i (wotsChecksum P M') 0%N in
         (m < m')%N /\ chunk P i X' = chainS HS l t kp (N.of_nat i) pkSeed (chunk P i X) m (N.to_nat (m' - m))) /\
      (exists i, i < p_len P /\
         let m := nth i (wotsChecksum P M) 0%N in let m' := nth i (wotsChecksum P M') 0%N in
         (m' < m)%N /\ chunk P i X = chainS HS l t kp (N.of_nat i) pkSeed (chunk P i X') m' (N.to_nat (m - m'))).
  Proof.
    intros pkSeed pkRoot msg sig sig' L L' Sw. unfold sig_switch in Sw.
    destruct (selectors pkSeed pkRoot msg sig) as [[ind it] il]. destruct WF as [Hh Hd].
    apply (ht_switch_walk P HS OK pkSeed DW) in Sw; auto;
      unfold sig_ht; rewrite skipn_length; [rewrite L|rewrite L']; unfold sig_len, xmssSigSize; rewrite Hh; nia.
  Qed.

  (* the key-modification clause (same PK.seed): one signature cannot verify under two roots
     unless the digests select differently *)
  Corollary two_roots : forall pkSeed pkRoot pkRoot' msg sig,
    verifyInternal P HS pkSeed pkRoot msg sig = true ->
    verifyInternal P HS pkSeed pkRoot' msg sig = true ->
    (let '(md, it, il) := split_digest P (hHMsg HS (firstn n sig) pkSeed pkRoot msg) in (base2b md (p_a P) (p_k P), it, il))
    = (let '(md, it, il) := split_digest P (hHMsg HS (firstn n sig) pkSeed pkRoot' msg) in (base2b md (p_a P) (p_k P), it, il)) ->
    pkRoot = pkRoot'.
  Proof.
    intros pkSeed pkRoot pkRoot' msg sig V V' Sel.
    rewrite verifyInternal_fips in V, V'. unfold verifyInternalS in V, V'.
    destruct (negb (Nat.eqb (length sig) (sig_len P))); [discriminate|].
    destruct (split_digest P (hHMsg HS (firstn n sig) pkSeed pkRoot msg)) as [[md it] il].
    destruct (split_digest P (hHMsg HS (firstn n sig) pkSeed pkRoot' msg)) as [[md' it'] il'].
    inversion Sel as [[Ei Et El]]. subst it' il'. rewrite <- Ei in V'.
    unfold htVerifyS in V, V'. apply beq_eq in V, V'. congruence.
  Qed.
End TOP.
