(* "Any modification of a signature is rejected", in the form hash laws allow.

   SLH-DSA verification recomputes PK.root from the signature by a fixed
   pattern of tweakable-hash calls F, H, T_l whose addresses depend only on
   the selectors the message digest yields (FORS indices, idx_tree, idx_leaf).
   Two signature bodies (SIG_FORS || SIG_HT) accepted for the same selectors
   under the same public key are therefore either equal, or the two
   verifications contain
     - a LOCATED same-tweak collision (`located_collision ... = true`, a boolean
       computed from the two signatures): the traces (function, ADRS, input) of
       the two verifications contain two calls of the same function among F, H,
       T_l with the same ADRS on DIFFERENT inputs of EQUAL length and equal
       outputs.  (An unlocated "there exist x <> y with ..." is free by
       pigeonhole under the output-length and byte-string laws; third audit.)
     - a LOCATED WOTS+ switch (`sig_switch ... = true`, a boolean computed from
       the two signatures): at some hypertree layer the two verifications
       recompute the SAME WOTS+ public key from their WOTS+ parts although the
       base-w digit strings (message digits and checksum) of the values they
       sign there DIFFER.  Then (switch_at_walk) some chain value of one
       signature is a STRICT forward chain image of the other's, and, by the
       checksum, also the other way round at another chain (or a collision):
       whoever derived one signature from the other needed a chain preimage.
       The event is about the two given signatures; an unlocated "there exist
       two WOTS+ signatures on different messages with the same public key"
       would hold for every hash family (unlocated_switch_is_free: the holder
       of the secret values can always make them).
   The proofs are constructive (closed under the global context): they are
   the reduction that extracts the collision / switch from the two signatures.
   Digest-changing modifications (message or R changed): proofs/SlhdsaTargetSubset.v
   compares ANY accepted signature with the key holder's signature for the same
   (R, message) and so reduces acceptance to the explicit target-subset event (the
   signature reveals the PRF secrets at all k FORS leaves its digest selects), or
   the located switch / collision.  That the event is infeasible (target-subset
   resilience of H_msg, PRF secrecy) is not a hash law of this development. *)
From Coq Require Import List NArith Bool Arith Lia ZifyN ZifyNat ZifyBool.
From Tink Require Import Bytes SlhdsaSupport SlhdsaAddr SlhdsaBase SlhdsaWots SlhdsaXmss SlhdsaFors SlhdsaHt Slhdsa
  SlhdsaSpec SlhdsaListProofs SlhdsaSupportProofs SlhdsaWotsProofs SlhdsaXmssProofs SlhdsaForsProofs SlhdsaHtProofs
  SlhdsaProofs.
Import ListNotations.
Open Scope nat_scope.

Definition th_collision (HS : hashes) (pk : bytes) : Prop :=
  exists ad x y, x <> y /\ length x = length y /\ 0 < length x /\
    (hF HS pk ad x = hF HS pk ad y \/ hH HS pk ad x = hH HS pk ad y \/ hTl HS pk ad x = hTl HS pk ad y).

(* hash outputs are byte strings (needed to go from equal digit strings to equal messages) *)
Record hashes_wfb (HS : hashes) : Prop := {
  hH_wfb : forall pk ad x, wfb (hH HS pk ad x);
  hTl_wfb : forall pk ad x, wfb (hTl HS pk ad x)
}.

(* the len1 message digits cover exactly the 8n bits of an n-byte message (lg_w divides 8n;
   lg_w = 4 in all twelve sets), so base_2b is injective on n-byte strings *)
Definition digits_wf (P : params) : Prop :=
  p_len1 P * p_lgw P = 8 * p_n P /\ 1 <= p_lgw P <= 25 /\ p_len2 P * p_lgw P <= 32.

Definition bytes_eq_dec : forall x y : bytes, {x = y} + {x <> y} := list_eq_dec N.eq_dec.

Lemma neq_len_pos (x y : bytes) : x <> y -> length x = length y -> 0 < length x.
Proof. destruct x, y; simpl; intros; try lia. contradiction. Qed.

Lemma bounded_dec (A : nat -> Prop) (dec : forall i, {A i} + {~ A i}) : forall cnt,
  (forall i, i < cnt -> A i) \/ (exists i, i < cnt /\ ~ A i).
Proof.
  induction cnt as [|cnt [IH|[i [Hi Hn]]]].
  - left. intros; lia.
  - destruct (dec cnt) as [Y|Nn].
    + left. intros i Hi. destruct (Nat.eq_dec i cnt); [subst; auto|apply IH; lia].
    + right. exists cnt. split; [lia|auto].
  - right. exists i. split; [lia|auto].
Qed.

(* m-byte blocks *)
Definition gchunk (m i : nat) (s : bytes) : bytes := firstn m (skipn (i * m) s).

Lemma gchunk_length m i s : (i + 1) * m <= length s -> length (gchunk m i s) = m.
Proof. intros H. unfold gchunk. rewrite firstn_length, skipn_length. lia. Qed.

Lemma gchunks_eq m : forall cnt a b, length a = cnt * m -> length b = cnt * m ->
  (forall i, i < cnt -> gchunk m i a = gchunk m i b) -> a = b.
Proof.
  induction cnt as [|cnt IH]; intros a b Ha Hb Hc.
  - destruct a, b; simpl in *; try lia. reflexivity.
  - rewrite <- (firstn_skipn m a), <- (firstn_skipn m b). f_equal.
    + exact (Hc 0 ltac:(lia)).
    + apply IH; try (rewrite skipn_length; lia).
      intros i Hi. specialize (Hc (S i) ltac:(lia)). unfold gchunk in *.
      rewrite !skipn_add. replace (i * m + m) with (S i * m) by lia. exact Hc.
Qed.

Lemma gchunks_diff m cnt a b : length a = cnt * m -> length b = cnt * m -> a <> b ->
  exists i, i < cnt /\ gchunk m i a <> gchunk m i b.
Proof.
  intros Ha Hb Hne.
  destruct (bounded_dec (fun i => gchunk m i a = gchunk m i b) (fun i => bytes_eq_dec _ _) cnt) as [All|Ex]; [|exact Ex].
  exfalso. apply Hne. exact (gchunks_eq m cnt a b Ha Hb All).
Qed.

(* block j of the sub-block starting at block o *)
Lemma gchunk_sub m o len j s : j < len ->
  gchunk m j (firstn (len * m) (skipn (o * m) s)) = gchunk m (o + j) s.
Proof.
  intros Hj. unfold gchunk. rewrite skipn_firstn_comm, firstn_firstn, skipn_add.
  replace (Nat.min m (len * m - j * m)) with m by nia. f_equal. f_equal. lia.
Qed.

Lemma app_inv_length {A} : forall (a b c d : list A), a ++ b = c ++ d -> length a = length c -> a = c /\ b = d.
Proof.
  induction a as [|x a IH]; intros b c d E L; destruct c as [|y c]; simpl in *; try lia; [auto|].
  inversion E; subst. destruct (IH b c d H1 ltac:(lia)) as [-> ->]. auto.
Qed.

Lemma flat_map_seq_inj {B} (f g : nat -> list B) (m : nat) : forall cnt s,
  (forall i, s <= i < s + cnt -> length (f i) = m) -> (forall i, s <= i < s + cnt -> length (g i) = m) ->
  flat_map f (seq s cnt) = flat_map g (seq s cnt) -> forall i, s <= i < s + cnt -> f i = g i.
Proof.
  induction cnt as [|cnt IH]; intros s Hf Hg E i Hi; [lia|].
  cbn [seq flat_map] in E.
  apply app_inv_length in E as [E1 E2]; [|rewrite Hf, Hg by lia; reflexivity].
  destruct (Nat.eq_dec i s) as [->|Hne]; [exact E1|].
  apply (IH (S s)); auto; try lia; intros; [apply Hf|apply Hg]; lia.
Qed.

(* ---------- base_2b is injective when it reads all the bits ---------- *)
Lemma le_val_inj : forall a b, wfb a -> wfb b -> length a = length b -> le_val a = le_val b -> a = b.
Proof.
  induction a as [|x a IH]; intros b Wa Wb L E; destruct b as [|y b]; simpl in L; try lia; [reflexivity|].
  inversion Wa; subst. inversion Wb; subst. cbn [le_val] in E.
  assert (x = y /\ le_val a = le_val b) as [-> E2] by lia.
  f_equal. apply IH; auto.
Qed.

Lemma be_val_inj a b : wfb a -> wfb b -> length a = length b -> be_val a = be_val b -> a = b.
Proof.
  intros Wa Wb L E. unfold be_val in E.
  apply le_val_inj in E; try (apply Forall_rev; assumption); [|rewrite !rev_length; exact L].
  rewrite <- (rev_involutive a), <- (rev_involutive b), E. reflexivity.
Qed.

Lemma base2b_inj x y b out : wfb x -> wfb y -> length x = length y -> out * b = 8 * length x -> b <= 25 ->
  base2b x b out = base2b y b out -> x = y.
Proof.
  intros Wx Wy L Hb H25 E.
  destruct (base2b_value x b out Wx H25 ltac:(lia)) as [Vx _].
  destruct (base2b_value y b out Wy H25 ltac:(lia)) as [Vy _].
  rewrite E in Vx. rewrite Vx in Vy.
  replace (8 * length x - out * b) with 0 in Vy by lia. replace (8 * length y - out * b) with 0 in Vy by lia.
  change (2 ^ N.of_nat 0)%N with 1%N in Vy. rewrite !N.div_1_r in Vy. apply be_val_inj; auto.
Qed.

Lemma list_diff_nth : forall (a b : list N), length a = length b -> a <> b -> exists i, i < length a /\ nth i a 0%N <> nth i b 0%N.
Proof.
  induction a as [|x a IH]; intros b L Hne; destruct b as [|y b]; simpl in L; try lia; [contradiction|].
  destruct (N.eq_dec x y) as [->|Hxy].
  - destruct (IH b ltac:(lia) ltac:(intros ->; apply Hne; reflexivity)) as (i & Hi & Hd).
    exists (S i). split; [simpl; lia|exact Hd].
  - exists 0. split; [simpl; lia|exact Hxy].
Qed.

(* ---------- the WOTS+ checksum: digit strings are an antichain ----------
   two different digit strings (message digits ++ checksum digits) of the same
   length: some digit of the first is smaller AND some digit of the first is larger *)
Section ANTICHAIN.
  Variable P : params.
  Hypothesis DW : digits_wf P.

  Lemma nth_le_Forall2 : forall (l l' : list N), length l = length l' ->
    (forall i, i < length l -> (nth i l' 0 <= nth i l 0)%N) -> Forall2 N.le l' l.
  Proof.
    induction l as [|x l IH]; intros l' L H; destruct l' as [|y l']; simpl in L; try lia; [constructor|].
    constructor; [exact (H 0 ltac:(simpl; lia))|].
    apply IH; [lia|]. intros i Hi. exact (H (S i) ltac:(simpl; lia)).
  Qed.

  Lemma digits_val_mono b : forall l' l, Forall2 N.le l' l -> forall acc' acc, (acc' <= acc)%N ->
    (fold_left (fun a d => a * pw b + d) l' acc' <= fold_left (fun a d => a * pw b + d) l acc)%N.
  Proof.
    induction 1 as [|x' x l' l Hx _ IH]; intros acc' acc Ha; cbn [fold_left]; [exact Ha|].
    apply IH. pose proof (pw_pos b). nia.
  Qed.

  Lemma csum_strict (W : N) : forall l' l, Forall2 N.le l' l -> Forall (fun d => d <= W - 1)%N l ->
    forall acc acc', (acc <= acc')%N ->
    (fold_left (fun c d => c + (W - 1 - d)) l acc <= fold_left (fun c d => c + (W - 1 - d)) l' acc')%N /\
    ((fold_left (fun c d => c + (W - 1 - d)) l' acc' <= fold_left (fun c d => c + (W - 1 - d)) l acc)%N ->
     acc = acc' /\ l = l').
  Proof.
    induction 1 as [|x' x l' l Hx _ IH]; intros Hl acc acc' Ha; cbn [fold_left].
    - split; [exact Ha|]. intros; split; [lia|reflexivity].
    - inversion Hl as [|? ? Hxw Hl2]; subst.
      destruct (IH Hl2 (acc + (W - 1 - x))%N (acc' + (W - 1 - x'))%N ltac:(lia)) as [I1 I2].
      split; [exact I1|]. intros Hle. destruct (I2 Hle) as [Ea El].
      assert (acc = acc' /\ x = x') as [-> ->] by lia. subst l'. auto.
  Qed.

  (* if no digit of d = digits(M) is below the digit of d' = digits(M') then d = d' *)
  Lemma checksum_no_dominance M M' :
    (forall i, i < p_len P -> (nth i (wotsChecksum P M') 0 <= nth i (wotsChecksum P M) 0)%N) ->
    wotsChecksum P M = wotsChecksum P M'.
  Proof.
    intros Hdom. destruct DW as (D1 & D2 & D3).
    destruct (wotsChecksum_value P D2 D3 M) as (cs & E & Lc & Fc & Vc).
    destruct (wotsChecksum_value P D2 D3 M') as (cs' & E' & Lc' & Fc' & Vc').
    set (mb := base2b M (p_lgw P) (p_len1 P)) in *. set (mb' := base2b M' (p_lgw P) (p_len1 P)) in *.
    assert (Lm : length mb = p_len1 P) by apply base2b_length.
    assert (Lm' : length mb' = p_len1 P) by apply base2b_length.
    assert (Hmb : Forall2 N.le mb' mb).
    { apply nth_le_Forall2; [lia|]. intros i Hi. specialize (Hdom i ltac:(unfold p_len; lia)).
      rewrite E, E', !app_nth1 in Hdom by lia. exact Hdom. }
    assert (Hcs : Forall2 N.le cs' cs).
    { apply nth_le_Forall2; [lia|]. intros i Hi. specialize (Hdom (p_len1 P + i) ltac:(unfold p_len; lia)).
      rewrite E, E', !app_nth2 in Hdom by lia. rewrite Lm, Lm' in Hdom.
      replace (p_len1 P + i - p_len1 P) with i in Hdom by lia. exact Hdom. }
    assert (Hw : Forall (fun d => d <= N.of_nat (p_w P) - 1)%N mb).
    { pose proof (base2b_lt M (p_lgw P) (p_len1 P)) as Hl. fold mb in Hl. rewrite p_w_N.
      eapply Forall_impl; [|exact Hl]. cbv beta. intros; lia. }
    pose proof (digits_val_mono (p_lgw P) cs' cs Hcs 0%N 0%N ltac:(lia)) as Hv.
    fold (digits_val (p_lgw P) cs') in Hv. fold (digits_val (p_lgw P) cs) in Hv. rewrite Vc, Vc' in Hv.
    unfold csum_spec in Hv.
    destruct (csum_strict (N.of_nat (p_w P)) mb' mb Hmb Hw 0%N 0%N ltac:(lia)) as [_ I2].
    destruct (I2 Hv) as [_ Em].
    (* equal message digits: the checksum digits are a function of them *)
    unfold wotsChecksum. fold mb mb'. rewrite Em. reflexivity.
  Qed.

  Lemma N_le_dec (a b : N) : {(a <= b)%N} + {~ (a <= b)%N}.
  Proof. destruct (N.leb a b) eqn:E; [left; apply N.leb_le; exact E|right; intros H; apply N.leb_le in H; congruence]. Qed.

  Theorem checksum_antichain M M' : wotsChecksum P M <> wotsChecksum P M' ->
    (exists i, i < p_len P /\ (nth i (wotsChecksum P M) 0 < nth i (wotsChecksum P M') 0)%N) /\
    (exists i, i < p_len P /\ (nth i (wotsChecksum P M') 0 < nth i (wotsChecksum P M) 0)%N).
  Proof.
    intros Hne. split.
    - destruct (bounded_dec (fun i => (nth i (wotsChecksum P M') 0 <= nth i (wotsChecksum P M) 0)%N)
                  (fun i => N_le_dec _ _) (p_len P)) as [All|(i & Hi & Hn)].
      + exfalso. apply Hne. apply checksum_no_dominance. exact All.
      + exists i. split; [exact Hi|lia].
    - destruct (bounded_dec (fun i => (nth i (wotsChecksum P M) 0 <= nth i (wotsChecksum P M') 0)%N)
                  (fun i => N_le_dec _ _) (p_len P)) as [All|(i & Hi & Hn)].
      + exfalso. apply Hne. symmetry. apply checksum_no_dominance. exact All.
      + exists i. split; [exact Hi|lia].
  Qed.
End ANTICHAIN.

(* ---------- hash calls, traces, LOCATED collisions ----------
   A call is (which function, ADRS, input).  A located collision between two traces: an
   entry of the first and an entry of the second with the same function and ADRS,
   DIFFERENT inputs of EQUAL length, and equal outputs -- a boolean computed from the
   two traces.  (The unlocated `th_collision` above is free by pigeonhole under
   hashes_ok + hashes_wfb; it is kept only to state that a located one implies it.) *)
Inductive kind := KF | KH | KT.
Definition call : Type := kind * address * bytes.

Definition kind_eqb (a b : kind) : bool :=
  match a, b with KF, KF | KH, KH | KT, KT => true | _, _ => false end.
Definition addr_eqb (a b : address) : bool :=
  N.eqb (a_layer a) (a_layer b) && N.eqb (a_tree a) (a_tree b) && N.eqb (a_typ a) (a_typ b)
  && N.eqb (a_kp a) (a_kp b) && N.eqb (a_w2 a) (a_w2 b) && N.eqb (a_w3 a) (a_w3 b).

Lemma kind_eqb_eq a b : kind_eqb a b = true <-> a = b.
Proof. destruct a, b; simpl; split; intros; try discriminate; reflexivity. Qed.
Lemma addr_eqb_eq a b : addr_eqb a b = true <-> a = b.
Proof.
  destruct a as [l1 t1 y1 k1 u1 v1], b as [l2 t2 y2 k2 u2 v2]. unfold addr_eqb. cbn [a_layer a_tree a_typ a_kp a_w2 a_w3]. split.
  - intros H. repeat (apply andb_prop in H; destruct H as [H ?]).
    repeat match goal with X : N.eqb _ _ = true |- _ => apply N.eqb_eq in X end. congruence.
  - intros E. inversion E; subst. rewrite !N.eqb_refl. reflexivity.
Qed.

Section CALLS.
  Variable HS : hashes.
  Variable pk : bytes.

  Definition call_out (c : call) : bytes :=
    let '(k, ad, x) := c in
    match k with KF => hF HS pk ad x | KH => hH HS pk ad x | KT => hTl HS pk ad x end.

  Definition collideb (c1 c2 : call) : bool :=
    let '(k1, a1, x1) := c1 in let '(k2, a2, x2) := c2 in
    kind_eqb k1 k2 && addr_eqb a1 a2 && negb (beq x1 x2) && Nat.eqb (length x1) (length x2)
    && beq (call_out c1) (call_out c2).

  (* THE LOCATED COLLISION between two traces *)
  Definition cb (T1 T2 : list call) : bool := existsb (fun c1 => existsb (collideb c1) T2) T1.

  Lemma cb_intro k ad x y T1 T2 : In (k, ad, x) T1 -> In (k, ad, y) T2 -> x <> y -> length x = length y ->
    call_out (k, ad, x) = call_out (k, ad, y) -> cb T1 T2 = true.
  Proof.
    intros I1 I2 Hne L E. unfold cb. apply existsb_exists. exists (k, ad, x). split; [exact I1|].
    apply existsb_exists. exists (k, ad, y). split; [exact I2|]. unfold collideb.
    rewrite (proj2 (kind_eqb_eq k k) eq_refl), (proj2 (addr_eqb_eq ad ad) eq_refl), L, Nat.eqb_refl, E, beq_refl.
    destruct (beq x y) eqn:B; [apply beq_eq in B; contradiction|reflexivity].
  Qed.

  Lemma cb_mono T1 T2 T1' T2' : incl T1 T1' -> incl T2 T2' -> cb T1 T2 = true -> cb T1' T2' = true.
  Proof.
    intros I1 I2 H. unfold cb in *. apply existsb_exists in H. destruct H as (c1 & H1 & H).
    apply existsb_exists in H. destruct H as (c2 & H2 & H).
    apply existsb_exists. exists c1. split; [apply I1; exact H1|].
    apply existsb_exists. exists c2. split; [apply I2; exact H2|exact H].
  Qed.

  Lemma call_inj k ad x y T1 T2 : In (k, ad, x) T1 -> In (k, ad, y) T2 ->
    call_out (k, ad, x) = call_out (k, ad, y) -> length x = length y -> x = y \/ cb T1 T2 = true.
  Proof.
    intros I1 I2 E L. destruct (bytes_eq_dec x y) as [e|ne]; [left; exact e|right].
    exact (cb_intro k ad x y T1 T2 I1 I2 ne L E).
  Qed.

  (* what a located collision is, spelled out *)
  Lemma cb_sound T1 T2 : cb T1 T2 = true ->
    exists k ad x y, In (k, ad, x) T1 /\ In (k, ad, y) T2 /\ x <> y /\ length x = length y /\ 0 < length x /\
      call_out (k, ad, x) = call_out (k, ad, y).
  Proof.
    unfold cb. intros H. apply existsb_exists in H. destruct H as ([[k1 a1] x1] & H1 & H).
    apply existsb_exists in H. destruct H as ([[k2 a2] x2] & H2 & H). unfold collideb in H.
    repeat (apply andb_prop in H; destruct H as [H ?]).
    apply kind_eqb_eq in H. apply addr_eqb_eq in H5. subst k2 a2.
    apply Nat.eqb_eq in H3. apply beq_eq in H0.
    assert (Hne : x1 <> x2) by (intros ->; rewrite beq_refl in H4; discriminate).
    exists k1, a1, x1, x2. repeat split; auto. exact (neq_len_pos x1 x2 Hne H3).
  Qed.

  Lemma cb_th_collision T1 T2 : cb T1 T2 = true -> th_collision HS pk.
  Proof.
    intros H. destruct (cb_sound _ _ H) as (k & ad & x & y & _ & _ & Hne & L & Lp & E).
    exists ad, x, y. repeat split; auto. destruct k; cbn in E; tauto.
  Qed.
End CALLS.

Lemma incl_flat_map_seq {B} (f : nat -> list B) s cnt i : s <= i < s + cnt -> incl (f i) (flat_map f (seq s cnt)).
Proof. intros Hi x Hx. apply in_flat_map. exists i. split; [apply in_seq; lia|exact Hx]. Qed.

Section FORGERY.
  Variable P : params.
  Variable HS : hashes.
  Hypothesis OK : hashes_ok P HS.
  Notation n := (p_n P).
  Variable pk : bytes.
  Notation CB := (cb HS pk).

  (* ---------- chains ---------- *)
  Fixpoint tr_chain (l t kp c : N) (x : bytes) (i : N) (s : nat) : list call :=
    match s with
    | O => []
    | S s' => (KF, mkA l t T_WOTSHASH kp c i, x)
              :: tr_chain l t kp c (hF HS pk (mkA l t T_WOTSHASH kp c i) x) (i + 1) s'
    end.

  Lemma chainS_inj : forall s l t kp c x y i, length x = n -> length y = n ->
    chainS HS l t kp c pk x i s = chainS HS l t kp c pk y i s ->
    x = y \/ CB (tr_chain l t kp c x i s) (tr_chain l t kp c y i s) = true.
  Proof.
    induction s as [|s IH]; intros l t kp c x y i Hx Hy E; [left; exact E|].
    cbn [chainS tr_chain] in *. apply IH in E; try apply (hF_len _ _ OK).
    destruct E as [E|C].
    - apply (call_inj HS pk KF (mkA l t T_WOTSHASH kp c i) x y); [left; reflexivity|left; reflexivity|exact E|lia].
    - right. eapply cb_mono; [| |exact C]; apply incl_tl, incl_refl.
  Qed.

  Lemma tr_chain_app : forall a b l t kp c x i,
    tr_chain l t kp c x i (a + b)
    = tr_chain l t kp c x i a ++ tr_chain l t kp c (chainS HS l t kp c pk x i a) (i + N.of_nat a) b.
  Proof.
    induction a as [|a IH]; intros; cbn [Nat.add tr_chain chainS app].
    - rewrite N.add_0_r. reflexivity.
    - replace (i + N.of_nat (S a))%N with (i + 1 + N.of_nat a)%N by lia. rewrite IH. reflexivity.
  Qed.

  (* ---------- WOTS+ public key from signature ---------- *)
  Definition wots_chain (l t kp : N) (msgw : list N) (sig : bytes) (i : nat) : bytes :=
    let mi := nth i msgw 0%N in
    chainS HS l t kp (N.of_nat i) pk (chunk P i sig) mi (N.to_nat (N.of_nat (p_w P) - 1 - mi)).
  Definition tr_wots_chain (l t kp : N) (msgw : list N) (sig : bytes) (i : nat) : list call :=
    let mi := nth i msgw 0%N in
    tr_chain l t kp (N.of_nat i) (chunk P i sig) mi (N.to_nat (N.of_nat (p_w P) - 1 - mi)).
  Definition tr_wots (l t kp : N) (msgw : list N) (sig : bytes) : list call :=
    flat_map (tr_wots_chain l t kp msgw sig) (seq 0 (p_len P))
    ++ [(KT, mkA l t T_WOTSPK kp 0 0, flat_map (wots_chain l t kp msgw sig) (seq 0 (p_len P)))].

  Lemma wots_pk_call l t kp msgw sig :
    wotsPkFromSigS P HS l t kp msgw sig pk
    = call_out HS pk (KT, mkA l t T_WOTSPK kp 0 0, flat_map (wots_chain l t kp msgw sig) (seq 0 (p_len P))).
  Proof. reflexivity. Qed.

  Lemma wots_chain_len l t kp msgw z : length z = p_len P * n -> forall j, 0 <= j < 0 + p_len P ->
    length (wots_chain l t kp msgw z j) = n.
  Proof.
    intros Hz j Hj. unfold wots_chain. cbv zeta. apply chainS_length; [apply (hF_len _ _ OK)|].
    apply gchunk_length. nia.
  Qed.

  Lemma tr_wots_last l t kp msgw sig :
    In (KT, mkA l t T_WOTSPK kp 0 0, flat_map (wots_chain l t kp msgw sig) (seq 0 (p_len P))) (tr_wots l t kp msgw sig).
  Proof. unfold tr_wots. apply in_or_app. right. left. reflexivity. Qed.

  Lemma tr_wots_chain_incl l t kp msgw sig i : i < p_len P -> incl (tr_wots_chain l t kp msgw sig i) (tr_wots l t kp msgw sig).
  Proof. intros Hi. unfold tr_wots. apply incl_appl. apply incl_flat_map_seq. lia. Qed.

  (* equal WOTS+ public keys: equal T_len inputs (all chain ends) or a located collision *)
  Lemma wots_ends l t kp msgw msgw' s s' : length s = p_len P * n -> length s' = p_len P * n ->
    wotsPkFromSigS P HS l t kp msgw s pk = wotsPkFromSigS P HS l t kp msgw' s' pk ->
    (forall i, i < p_len P -> wots_chain l t kp msgw s i = wots_chain l t kp msgw' s' i)
    \/ CB (tr_wots l t kp msgw s) (tr_wots l t kp msgw' s') = true.
  Proof.
    intros Hs Hs' E. rewrite !wots_pk_call in E.
    apply (call_inj HS pk KT _ _ _ (tr_wots l t kp msgw s) (tr_wots l t kp msgw' s')) in E;
      try apply tr_wots_last.
    2:{ rewrite !(flat_map_seq_length _ 0 (p_len P) n); auto using wots_chain_len. }
    destruct E as [E|C]; [left|right; exact C].
    intros i Hi. exact (flat_map_seq_inj _ _ n (p_len P) 0 (wots_chain_len l t kp msgw s Hs)
                          (wots_chain_len l t kp msgw' s' Hs') E i ltac:(lia)).
  Qed.

  Lemma wots_inj l t kp msgw s s' : length s = p_len P * n -> length s' = p_len P * n ->
    wotsPkFromSigS P HS l t kp msgw s pk = wotsPkFromSigS P HS l t kp msgw s' pk ->
    s = s' \/ CB (tr_wots l t kp msgw s) (tr_wots l t kp msgw s') = true.
  Proof.
    intros Hs Hs' E. destruct (bytes_eq_dec s s') as [e|ne]; [left; exact e|right].
    destruct (gchunks_diff n (p_len P) s s' Hs Hs' ne) as (i & Hi & Hd).
    destruct (wots_ends l t kp msgw msgw s s' Hs Hs' E) as [Ends|C]; [|exact C].
    specialize (Ends i Hi). unfold wots_chain in Ends. cbv zeta in Ends.
    apply chainS_inj in Ends; try (apply gchunk_length; nia).
    destruct Ends as [Ei|C]; [exfalso; apply Hd; exact Ei|].
    eapply cb_mono; [| |exact C]; apply tr_wots_chain_incl; exact Hi.
  Qed.

  (* ---------- chain walking ---------- *)
  Lemma chain_ends l t kp c x y (m m' : N) (W : N) : length x = n -> length y = n -> (m <= m')%N -> (m' <= W)%N ->
    chainS HS l t kp c pk x m (N.to_nat (W - m)) = chainS HS l t kp c pk y m' (N.to_nat (W - m')) ->
    y = chainS HS l t kp c pk x m (N.to_nat (m' - m))
    \/ CB (tr_chain l t kp c x m (N.to_nat (W - m))) (tr_chain l t kp c y m' (N.to_nat (W - m'))) = true.
  Proof.
    intros Hx Hy Hm HW E.
    replace (N.to_nat (W - m)) with (N.to_nat (m' - m) + N.to_nat (W - m')) in * by lia.
    rewrite <- chainS_compose in E. rewrite tr_chain_app.
    replace (m + N.of_nat (N.to_nat (m' - m)))%N with m' in * by lia.
    apply chainS_inj in E; auto.
    - destruct E as [E|C]; [left; symmetry; exact E|right].
      eapply cb_mono; [| |exact C]; [apply incl_appr, incl_refl|apply incl_refl].
    - apply chainS_length; [apply (hF_len _ _ OK)|exact Hx].
  Qed.

  Lemma wots_switch_chains l t kp msgw msgw' s s' :
    length s = p_len P * n -> length s' = p_len P * n ->
    (forall i, (nth i msgw 0 <= N.of_nat (p_w P) - 1)%N) -> (forall i, (nth i msgw' 0 <= N.of_nat (p_w P) - 1)%N) ->
    wotsPkFromSigS P HS l t kp msgw s pk = wotsPkFromSigS P HS l t kp msgw' s' pk ->
    CB (tr_wots l t kp msgw s) (tr_wots l t kp msgw' s') = true \/ forall i, i < p_len P ->
      let m := nth i msgw 0%N in let m' := nth i msgw' 0%N in
      ((m <= m')%N -> chunk P i s' = chainS HS l t kp (N.of_nat i) pk (chunk P i s) m (N.to_nat (m' - m))) /\
      ((m' <= m)%N -> chunk P i s = chainS HS l t kp (N.of_nat i) pk (chunk P i s') m' (N.to_nat (m - m'))).
  Proof.
    intros Hs Hs' Hd Hd' E.
    destruct (wots_ends l t kp msgw msgw' s s' Hs Hs' E) as [Ends|C]; [|left; exact C].
    assert (Sym : forall T1 T2, cb HS pk T2 T1 = true -> cb HS pk T1 T2 = true).
    { intros T1 T2 H. destruct (cb_sound HS pk _ _ H) as (k & ad & x & y & I1 & I2 & Hne & L & _ & Eo).
      apply (cb_intro HS pk k ad y x); auto. }
    assert (G : forall cnt, cnt <= p_len P -> CB (tr_wots l t kp msgw s) (tr_wots l t kp msgw' s') = true \/ forall i, i < cnt ->
      let m := nth i msgw 0%N in let m' := nth i msgw' 0%N in
      ((m <= m')%N -> chunk P i s' = chainS HS l t kp (N.of_nat i) pk (chunk P i s) m (N.to_nat (m' - m))) /\
      ((m' <= m)%N -> chunk P i s = chainS HS l t kp (N.of_nat i) pk (chunk P i s') m' (N.to_nat (m - m')))).
    { induction cnt as [|cnt IH]; intros Hc; [right; intros; lia|].
      destruct (IH ltac:(lia)) as [C|IHa]; [left; exact C|].
      pose proof (Ends cnt ltac:(lia)) as Ei. unfold wots_chain in Ei. cbv zeta in Ei.
      assert (Lx : length (chunk P cnt s) = n) by (apply gchunk_length; nia).
      assert (Lx' : length (chunk P cnt s') = n) by (apply gchunk_length; nia).
      assert (A1 : CB (tr_wots l t kp msgw s) (tr_wots l t kp msgw' s') = true \/ ((nth cnt msgw 0%N <= nth cnt msgw' 0%N)%N ->
                 chunk P cnt s' = chainS HS l t kp (N.of_nat cnt) pk (chunk P cnt s) (nth cnt msgw 0%N)
                                    (N.to_nat (nth cnt msgw' 0%N - nth cnt msgw 0%N)))).
      { destruct (N.le_gt_cases (nth cnt msgw 0%N) (nth cnt msgw' 0%N)) as [Le|Gt]; [|right; intros; lia].
        destruct (chain_ends l t kp (N.of_nat cnt) _ _ _ _ (N.of_nat (p_w P) - 1)%N Lx Lx' Le (Hd' cnt) Ei) as [R|C];
          [right; intros _; exact R|left].
        eapply cb_mono; [| |exact C]; apply tr_wots_chain_incl; lia. }
      assert (A2 : CB (tr_wots l t kp msgw s) (tr_wots l t kp msgw' s') = true \/ ((nth cnt msgw' 0%N <= nth cnt msgw 0%N)%N ->
                 chunk P cnt s = chainS HS l t kp (N.of_nat cnt) pk (chunk P cnt s') (nth cnt msgw' 0%N)
                                    (N.to_nat (nth cnt msgw 0%N - nth cnt msgw' 0%N)))).
      { destruct (N.le_gt_cases (nth cnt msgw' 0%N) (nth cnt msgw 0%N)) as [Le|Gt]; [|right; intros; lia].
        destruct (chain_ends l t kp (N.of_nat cnt) _ _ _ _ (N.of_nat (p_w P) - 1)%N Lx' Lx Le (Hd cnt) (eq_sym Ei)) as [R|C];
          [right; intros _; exact R|left].
        apply Sym. eapply cb_mono; [| |exact C]; apply tr_wots_chain_incl; lia. }
      destruct A1 as [C|A1]; [left; exact C|]. destruct A2 as [C|A2]; [left; exact C|].
      right. intros i Hi. destruct (Nat.eq_dec i cnt) as [->|Hne]; [cbv zeta; split; assumption|apply IHa; lia]. }
    exact (G (p_len P) (le_n _)).
  Qed.

  (* ---------- the climb of Algorithms 11 and 17 ---------- *)
  Lemma climbS_length mkad : forall cnt k tidx idx auth node, length node = n ->
    length (climbS P HS mkad cnt k tidx idx auth pk node) = n.
  Proof.
    induction cnt as [|cnt IH]; intros; [assumption|]. cbn [climbS]. apply IH.
    destruct (N.eqb _ 0); apply (hH_len _ _ OK).
  Qed.

  Lemma climbS_wfb (WB : hashes_wfb HS) mkad : forall cnt k tidx idx auth node, wfb node ->
    wfb (climbS P HS mkad cnt k tidx idx auth pk node).
  Proof.
    induction cnt as [|cnt IH]; intros; [assumption|]. cbn [climbS]. apply IH.
    destruct (N.eqb _ 0); apply (hH_wfb _ WB).
  Qed.

  (* the H call of one climb step: its address and its input *)
  Definition climb_ad (mkad : N -> N -> address) (tidx : N) (k : nat) : address :=
    mkad (N.of_nat k + 1)%N (N.shiftr tidx (N.of_nat k + 1)).
  Definition climb_in (idx : N) (auth : bytes) (k : nat) (node : bytes) : bytes :=
    if N.eqb (N.land (N.shiftr idx (N.of_nat k)) 1) 0 then node ++ chunk P k auth else chunk P k auth ++ node.

  Lemma climbS_step mkad c k tidx idx auth node :
    climbS P HS mkad (S c) k tidx idx auth pk node
    = climbS P HS mkad c (S k) tidx idx auth pk (hH HS pk (climb_ad mkad tidx k) (climb_in idx auth k node)).
  Proof. cbn [climbS]. unfold climb_ad, climb_in. destruct (N.eqb _ 0); reflexivity. Qed.

  Fixpoint tr_climb (mkad : N -> N -> address) (cnt k : nat) (tidx idx : N) (auth node : bytes) : list call :=
    match cnt with
    | O => []
    | S c => (KH, climb_ad mkad tidx k, climb_in idx auth k node)
             :: tr_climb mkad c (S k) tidx idx auth (hH HS pk (climb_ad mkad tidx k) (climb_in idx auth k node))
    end.

  Lemma climb_in_inj idx auth auth' k node node' : length node = length node' ->
    length (chunk P k auth) = length (chunk P k auth') ->
    climb_in idx auth k node = climb_in idx auth' k node' -> node = node' /\ chunk P k auth = chunk P k auth'.
  Proof.
    intros L Lc E. unfold climb_in in E. destruct (N.eqb _ 0).
    - apply app_inv_length in E; [exact E|exact L].
    - apply app_inv_length in E; [tauto|exact Lc].
  Qed.

  Lemma climb_in_len idx auth k node : length (climb_in idx auth k node) = length node + length (chunk P k auth).
  Proof. unfold climb_in. destruct (N.eqb _ 0); rewrite app_length; lia. Qed.

  Lemma climb_inj mkad tidx idx auth auth' : forall cnt k node node',
    length node = n -> length node' = n ->
    (forall j, k <= j < k + cnt -> length (chunk P j auth) = n /\ length (chunk P j auth') = n) ->
    climbS P HS mkad cnt k tidx idx auth pk node = climbS P HS mkad cnt k tidx idx auth' pk node' ->
    (node = node' /\ forall j, k <= j < k + cnt -> chunk P j auth = chunk P j auth')
    \/ CB (tr_climb mkad cnt k tidx idx auth node) (tr_climb mkad cnt k tidx idx auth' node') = true.
  Proof.
    induction cnt as [|cnt IH]; intros k node node' Hn Hn' Hc E.
    - left. split; [exact E|intros; lia].
    - rewrite !climbS_step in E. cbn [tr_climb]. destruct (Hc k ltac:(lia)) as [Lk Lk'].
      apply IH in E; try apply (hH_len _ _ OK); [|intros j Hj; apply Hc; lia].
      destruct E as [[E Rest]|C]; [|right; eapply cb_mono; [| |exact C]; apply incl_tl, incl_refl].
      destruct (call_inj HS pk KH (climb_ad mkad tidx k) (climb_in idx auth k node) (climb_in idx auth' k node')
                  (tr_climb mkad (S cnt) k tidx idx auth node) (tr_climb mkad (S cnt) k tidx idx auth' node')
                  ltac:(left; reflexivity) ltac:(left; reflexivity) E ltac:(rewrite !climb_in_len; lia)) as [E2|C];
        [left|right; exact C]. clear E. rename E2 into E.
      apply climb_in_inj in E; try lia. destruct E as [X1 X2].
      split; [exact X1|]. intros j Hj. destruct (Nat.eq_dec j k) as [->|Hne]; [exact X2|apply Rest; lia].
  Qed.

  (* top-down view of a climb *)
  Lemma climbS_snoc mkad tidx idx auth : forall c k node,
    climbS P HS mkad (S c) k tidx idx auth pk node
    = hH HS pk (climb_ad mkad tidx (k + c)) (climb_in idx auth (k + c) (climbS P HS mkad c k tidx idx auth pk node)).
  Proof.
    induction c as [|c IH]; intros k node.
    - rewrite climbS_step. cbn [climbS]. rewrite Nat.add_0_r. reflexivity.
    - rewrite climbS_step, IH. replace (S k + c) with (k + S c) by lia. rewrite <- climbS_step. reflexivity.
  Qed.

  Lemma tr_climb_snoc mkad tidx idx auth : forall c k node,
    tr_climb mkad (S c) k tidx idx auth node
    = tr_climb mkad c k tidx idx auth node
      ++ [(KH, climb_ad mkad tidx (k + c), climb_in idx auth (k + c) (climbS P HS mkad c k tidx idx auth pk node))].
  Proof.
    induction c as [|c IH]; intros k node.
    - cbn [tr_climb climbS app]. rewrite Nat.add_0_r. reflexivity.
    - change (tr_climb mkad (S (S c)) k tidx idx auth node)
        with ((KH, climb_ad mkad tidx k, climb_in idx auth k node)
              :: tr_climb mkad (S c) (S k) tidx idx auth (hH HS pk (climb_ad mkad tidx k) (climb_in idx auth k node))).
      rewrite IH. replace (S k + c) with (k + S c) by lia. rewrite <- climbS_step. reflexivity.
  Qed.

  Lemma shiftr_split x c : N.shiftr x (N.of_nat c) = (2 * N.shiftr x (N.of_nat c + 1) + N.land (N.shiftr x (N.of_nat c)) 1)%N.
  Proof. rewrite shiftr_succ, shiftr1_div, land1_mod. apply N.div_mod. discriminate. Qed.

  (* two openings of one Merkle tree (cnt levels) at different leaves, same root: they cross *)
  Lemma merge mkad : forall cnt tidx1 idx1 auth1 node1 tidx2 idx2 auth2 node2,
    length node1 = n -> length node2 = n ->
    (forall j, j < cnt -> length (chunk P j auth1) = n /\ length (chunk P j auth2) = n) ->
    (forall j, j < cnt -> N.land (N.shiftr idx1 (N.of_nat j)) 1 = N.land (N.shiftr tidx1 (N.of_nat j)) 1) ->
    (forall j, j < cnt -> N.land (N.shiftr idx2 (N.of_nat j)) 1 = N.land (N.shiftr tidx2 (N.of_nat j)) 1) ->
    N.shiftr tidx1 (N.of_nat cnt) = N.shiftr tidx2 (N.of_nat cnt) -> tidx1 <> tidx2 ->
    climbS P HS mkad cnt 0 tidx1 idx1 auth1 pk node1 = climbS P HS mkad cnt 0 tidx2 idx2 auth2 pk node2 ->
    CB (tr_climb mkad cnt 0 tidx1 idx1 auth1 node1) (tr_climb mkad cnt 0 tidx2 idx2 auth2 node2) = true
    \/ exists kk, kk < cnt /\
      N.land (N.shiftr tidx1 (N.of_nat kk)) 1 <> N.land (N.shiftr tidx2 (N.of_nat kk)) 1 /\
      climbS P HS mkad kk 0 tidx1 idx1 auth1 pk node1 = chunk P kk auth2 /\
      climbS P HS mkad kk 0 tidx2 idx2 auth2 pk node2 = chunk P kk auth1 /\
      forall j, kk < j < cnt -> chunk P j auth1 = chunk P j auth2.
  Proof.
    induction cnt as [|cnt IH]; intros tidx1 idx1 auth1 node1 tidx2 idx2 auth2 node2 L1 L2 Lc B1 B2 Hs Hne E.
    - exfalso. apply Hne. change (N.of_nat 0) with 0%N in Hs. rewrite !N.shiftr_0_r in Hs. exact Hs.
    - rewrite !climbS_snoc in E. rewrite !tr_climb_snoc. cbn [Nat.add] in *.
      set (m1 := climbS P HS mkad cnt 0 tidx1 idx1 auth1 pk node1) in *.
      set (m2 := climbS P HS mkad cnt 0 tidx2 idx2 auth2 pk node2) in *.
      assert (Lm1 : length m1 = n) by (apply climbS_length; exact L1).
      assert (Lm2 : length m2 = n) by (apply climbS_length; exact L2).
      destruct (Lc cnt ltac:(lia)) as [Lc1 Lc2].
      assert (Ead : climb_ad mkad tidx2 cnt = climb_ad mkad tidx1 cnt).
      { unfold climb_ad. replace (N.of_nat (S cnt)) with (N.of_nat cnt + 1)%N in Hs by lia. rewrite Hs. reflexivity. }
      rewrite Ead in *.
      match goal with |- cb HS pk ?T1 ?T2 = true \/ _ =>
        destruct (call_inj HS pk KH (climb_ad mkad tidx1 cnt) (climb_in idx1 auth1 cnt m1) (climb_in idx2 auth2 cnt m2) T1 T2
                    ltac:(apply in_or_app; right; left; reflexivity) ltac:(apply in_or_app; right; left; reflexivity)
                    E ltac:(rewrite !climb_in_len; lia)) as [E2|C]; [|left; exact C] end.
      clear E. rename E2 into E.
      unfold climb_in in E. rewrite (B1 cnt ltac:(lia)), (B2 cnt ltac:(lia)) in E.
      set (b1 := N.land (N.shiftr tidx1 (N.of_nat cnt)) 1) in *.
      set (b2 := N.land (N.shiftr tidx2 (N.of_nat cnt)) 1) in *.
      destruct (N.eq_dec b1 b2) as [Eb|Nb].
      + assert (Same : m1 = m2 /\ chunk P cnt auth1 = chunk P cnt auth2).
        { rewrite <- Eb in E. destruct (N.eqb b1 0).
          - apply app_inv_length in E; [exact E|lia].
          - apply app_inv_length in E; [tauto|lia]. }
        destruct Same as [Em Ec].
        assert (Hs' : N.shiftr tidx1 (N.of_nat cnt) = N.shiftr tidx2 (N.of_nat cnt)).
        { rewrite (shiftr_split tidx1 cnt), (shiftr_split tidx2 cnt). fold b1 b2.
          replace (N.of_nat (S cnt)) with (N.of_nat cnt + 1)%N in Hs by lia. rewrite Hs, Eb. reflexivity. }
        destruct (IH tidx1 idx1 auth1 node1 tidx2 idx2 auth2 node2 L1 L2
                    ltac:(intros; apply Lc; lia) ltac:(intros; apply B1; lia) ltac:(intros; apply B2; lia) Hs' Hne Em)
          as [C|(kk & Hk & Hb & X1 & X2 & Up)].
        * left. eapply cb_mono; [| |exact C]; apply incl_appl, incl_refl.
        * right. exists kk. split; [lia|]. split; [exact Hb|]. split; [exact X1|]. split; [exact X2|].
          intros j Hj. destruct (Nat.eq_dec j cnt) as [->|Hn]; [exact Ec|apply Up; lia].
      + right. assert (Cross : m1 = chunk P cnt auth2 /\ m2 = chunk P cnt auth1).
        { destruct (N.eqb_spec b1 0) as [Z1|Z1]; destruct (N.eqb_spec b2 0) as [Z2|Z2]; try (exfalso; apply Nb; congruence).
          - apply app_inv_length in E; [|lia]. destruct E as [E1 E2]. split; [exact E1|symmetry; exact E2].
          - apply app_inv_length in E; [|lia]. destruct E as [E1 E2]. split; [exact E2|symmetry; exact E1].
          - exfalso. apply Nb. unfold b1, b2 in *. rewrite !land1_mod in *.
            pose proof (N.mod_lt (N.shiftr tidx1 (N.of_nat cnt)) 2 ltac:(discriminate)).
            pose proof (N.mod_lt (N.shiftr tidx2 (N.of_nat cnt)) 2 ltac:(discriminate)). lia. }
        destruct Cross as [X1 X2].
        exists cnt. split; [lia|]. split; [exact Nb|]. split; [exact X1|]. split; [exact X2|]. intros; lia.
  Qed.

  (* ---------- one XMSS layer ---------- *)
  Notation sz := (xmssSigSize P).
  Hypothesis WB : hashes_wfb HS.
  Hypothesis DW : digits_wf P.

  Definition tr_xmss (l t idx : N) (X M : bytes) : list call :=
    tr_wots l t idx (wotsChecksum P M) (firstn (p_len P * n) X)
    ++ tr_climb (fun h i => mkA l t T_TREE 0 h i) (p_hp P) 0 idx idx (skipn (p_len P * n) X)
         (wotsPkFromSigS P HS l t idx (wotsChecksum P M) (firstn (p_len P * n) X) pk).

  Lemma xmss_out_len l t idx X M : length (xmssPkFromSigS P HS l t idx X M pk) = n.
  Proof. unfold xmssPkFromSigS. apply climbS_length. apply (hTl_len _ _ OK). Qed.
  Lemma xmss_out_wfb l t idx X M : wfb (xmssPkFromSigS P HS l t idx X M pk).
  Proof. unfold xmssPkFromSigS. apply climbS_wfb; [exact WB|]. apply (hTl_wfb _ WB). Qed.

  (* equal digit strings (message digits and checksum) of two n-byte strings: equal strings *)
  Lemma digits_inj M M' : wfb M -> wfb M' -> length M = n -> length M' = n ->
    wotsChecksum P M = wotsChecksum P M' -> M = M'.
  Proof.
    intros W W' L L' E. destruct DW as (D1 & D2 & _). unfold wotsChecksum in E. cbv zeta in E.
    apply app_inv_length in E; [|rewrite !base2b_length; reflexivity].
    destruct E as [E _]. apply (base2b_inj M M' (p_lgw P) (p_len1 P)); auto; lia.
  Qed.

  (* THE LOCATED SWITCH at one layer: the WOTS+ parts of X and X' lead to the same WOTS+ public
     key at address (l, t, kp) although the digit strings of the signed values M, M' differ *)
  Definition switch_at (l t kp : N) (M M' X X' : bytes) : bool :=
    negb (beq (wotsChecksum P M) (wotsChecksum P M')) &&
    beq (wotsPkFromSigS P HS l t kp (wotsChecksum P M) (firstn (p_len P * n) X) pk)
        (wotsPkFromSigS P HS l t kp (wotsChecksum P M') (firstn (p_len P * n) X') pk).

  Lemma xmss_layer l t idx X X' M M' : length X = sz -> length X' = sz ->
    wfb M -> wfb M' -> length M = n -> length M' = n ->
    xmssPkFromSigS P HS l t idx X M pk = xmssPkFromSigS P HS l t idx X' M' pk ->
    (M = M' /\ X = X') \/ switch_at l t idx M M' X X' = true
    \/ CB (tr_xmss l t idx X M) (tr_xmss l t idx X' M') = true.
  Proof.
    intros HX HX' WM WM' LM LM' E. unfold xmssPkFromSigS in E. unfold xmssSigSize in HX, HX'.
    assert (La : forall Z, length Z = (p_hp P + p_len P) * n -> forall j, 0 <= j < 0 + p_hp P ->
              length (chunk P j (skipn (p_len P * n) Z)) = n).
    { intros Z HZ j Hj. apply gchunk_length. rewrite skipn_length. nia. }
    apply climb_inj in E; try apply (hTl_len _ _ OK).
    2:{ intros j Hj. split; [apply (La X)|apply (La X')]; auto. }
    destruct E as [[Ew Ea]|C].
    2:{ right; right. unfold tr_xmss. eapply cb_mono; [| |exact C]; apply incl_appr, incl_refl. }
    assert (Eauth : skipn (p_len P * n) X = skipn (p_len P * n) X').
    { apply (gchunks_eq n (p_hp P)); try (rewrite skipn_length; lia). intros i Hi. apply Ea. lia. }
    destruct (beq (wotsChecksum P M) (wotsChecksum P M')) eqn:Eb.
    - apply beq_eq in Eb. apply digits_inj in Eb; auto. subst M'.
      apply wots_inj in Ew; try (rewrite firstn_length; lia).
      destruct Ew as [Ew|C].
      + left. split; [reflexivity|].
        rewrite <- (firstn_skipn (p_len P * n) X), <- (firstn_skipn (p_len P * n) X'). congruence.
      + right; right. unfold tr_xmss. eapply cb_mono; [| |exact C]; apply incl_appl, incl_refl.
    - right. left. unfold switch_at. rewrite Eb, Ew, beq_refl. reflexivity.
  Qed.

  (* ---------- the hypertree: layers j .. j+cnt-1 (mirrors htVerifyS_loop) ---------- *)
  Fixpoint tr_loop (cnt j : nat) (sH : bytes) (it : N) (node : bytes) : list call :=
    match cnt with
    | O => []
    | S c =>
      let X := gchunk sz j sH in
      tr_xmss (N.of_nat j) (htUp P it) (htLeaf P it) X node
      ++ tr_loop c (S j) sH (htUp P it) (xmssPkFromSigS P HS (N.of_nat j) (htUp P it) (htLeaf P it) X node pk)
    end.

  Fixpoint switch_in_loop (cnt j : nat) (sH sH' : bytes) (it : N) (node node' : bytes) : bool :=
    match cnt with
    | O => false
    | S c =>
      let X := gchunk sz j sH in
      let X' := gchunk sz j sH' in
      switch_at (N.of_nat j) (htUp P it) (htLeaf P it) node node' X X' ||
      switch_in_loop c (S j) sH sH' (htUp P it)
        (xmssPkFromSigS P HS (N.of_nat j) (htUp P it) (htLeaf P it) X node pk)
        (xmssPkFromSigS P HS (N.of_nat j) (htUp P it) (htLeaf P it) X' node' pk)
    end.

  Lemma ht_loop_inj sigHT sigHT' D : length sigHT = D * sz -> length sigHT' = D * sz ->
    forall cnt j it node node', j + cnt <= D ->
    wfb node -> wfb node' -> length node = n -> length node' = n ->
    htVerifyS_loop P HS cnt j sigHT pk it node = htVerifyS_loop P HS cnt j sigHT' pk it node' ->
    (node = node' /\ forall i, j <= i < j + cnt -> gchunk sz i sigHT = gchunk sz i sigHT')
    \/ switch_in_loop cnt j sigHT sigHT' it node node' = true
    \/ CB (tr_loop cnt j sigHT it node) (tr_loop cnt j sigHT' it node') = true.
  Proof.
    intros HL HL'. induction cnt as [|cnt IH]; intros j it node node' Hj W W' L L' E.
    - left. split; [exact E|intros; lia].
    - cbn [htVerifyS_loop] in E. cbn [switch_in_loop tr_loop].
      apply IH in E; try lia; try apply xmss_out_wfb; try apply xmss_out_len.
      destruct E as [[E Rest]|[Sw|C]].
      + apply xmss_layer in E; auto; try (apply gchunk_length; nia).
        destruct E as [[E1 E2]|[Sw|C]]; [left|right; left|right; right].
        * split; [exact E1|]. intros i Hi. destruct (Nat.eq_dec i j) as [->|Hne]; [exact E2|apply Rest; lia].
        * unfold gchunk. rewrite Sw. reflexivity.
        * eapply cb_mono; [| |exact C]; apply incl_appl, incl_refl.
      + right; left. unfold gchunk in *. rewrite Sw. apply orb_true_r.
      + right; right. eapply cb_mono; [| |exact C]; apply incl_appr, incl_refl.
  Qed.

  (* the whole hypertree part, layer 0 first *)
  Definition ht_switch (sH sH' : bytes) (it il : N) (M0 M0' : bytes) : bool :=
    switch_at 0 it il M0 M0' (gchunk sz 0 sH) (gchunk sz 0 sH') ||
    switch_in_loop (p_d P - 1) 1 sH sH' it
      (xmssPkFromSigS P HS 0 it il (gchunk sz 0 sH) M0 pk) (xmssPkFromSigS P HS 0 it il (gchunk sz 0 sH') M0' pk).

  Definition tr_ht (sH : bytes) (it il : N) (M0 : bytes) : list call :=
    tr_xmss 0 it il (gchunk sz 0 sH) M0
    ++ tr_loop (p_d P - 1) 1 sH it (xmssPkFromSigS P HS 0 it il (gchunk sz 0 sH) M0 pk).

  (* the hypertree part of two accepted signatures *)
  Lemma ht_inj sH sH' it il M0 M0' root : length sH = p_d P * sz -> length sH' = p_d P * sz -> 1 <= p_d P ->
    wfb M0 -> wfb M0' -> length M0 = n -> length M0' = n ->
    htVerifyS P HS M0 sH pk it il root = true -> htVerifyS P HS M0' sH' pk it il root = true ->
    (M0 = M0' /\ sH = sH') \/ ht_switch sH sH' it il M0 M0' = true
    \/ CB (tr_ht sH it il M0) (tr_ht sH' it il M0') = true.
  Proof.
    intros LH LH' Hd WM WM' LM LM' V V'. unfold htVerifyS in V, V'. apply beq_eq in V, V'. rewrite <- V' in V. clear V'.
    unfold ht_switch, tr_ht.
    change (firstn sz sH) with (gchunk sz 0 sH) in V. change (firstn sz sH') with (gchunk sz 0 sH') in V.
    apply (ht_loop_inj sH sH' (p_d P) LH LH') in V; try lia; try apply xmss_out_wfb; try apply xmss_out_len.
    destruct V as [[V Rest]|[Sw|C]].
    - apply xmss_layer in V; auto; try (apply gchunk_length; nia).
      destruct V as [[V0 B0]|[Sw|C]]; [left|right; left; rewrite Sw; reflexivity|right; right].
      + split; [exact V0|]. apply (gchunks_eq sz (p_d P)); auto. intros i Hi.
        destruct (Nat.eq_dec i 0) as [->|Hne]; [exact B0|apply Rest; lia].
      + eapply cb_mono; [| |exact C]; apply incl_appl, incl_refl.
    - right; left. rewrite Sw. apply orb_true_r.
    - right; right. eapply cb_mono; [| |exact C]; apply incl_appr, incl_refl.
  Qed.

  (* ---------- locating the switch: the layer and the values signed there ---------- *)
  Fixpoint switch_find_loop (cnt j : nat) (sH sH' : bytes) (it : N) (node node' : bytes)
    : option (nat * N * N * N * bytes * bytes) :=
    match cnt with
    | O => None
    | S c =>
      let X := gchunk sz j sH in
      let X' := gchunk sz j sH' in
      if switch_at (N.of_nat j) (htUp P it) (htLeaf P it) node node' X X'
      then Some (j, N.of_nat j, htUp P it, htLeaf P it, node, node')
      else switch_find_loop c (S j) sH sH' (htUp P it)
             (xmssPkFromSigS P HS (N.of_nat j) (htUp P it) (htLeaf P it) X node pk)
             (xmssPkFromSigS P HS (N.of_nat j) (htUp P it) (htLeaf P it) X' node' pk)
    end.

  Definition ht_switch_find (sH sH' : bytes) (it il : N) (M0 M0' : bytes) : option (nat * N * N * N * bytes * bytes) :=
    if switch_at 0 it il M0 M0' (gchunk sz 0 sH) (gchunk sz 0 sH') then Some (0, 0%N, it, il, M0, M0')
    else switch_find_loop (p_d P - 1) 1 sH sH' it
           (xmssPkFromSigS P HS 0 it il (gchunk sz 0 sH) M0 pk) (xmssPkFromSigS P HS 0 it il (gchunk sz 0 sH') M0' pk).

  Lemma switch_find_loop_spec sH sH' : forall cnt j it node node',
    match switch_find_loop cnt j sH sH' it node node' with
    | None => switch_in_loop cnt j sH sH' it node node' = false
    | Some (i, l, t, kp, M, M') =>
      switch_in_loop cnt j sH sH' it node node' = true /\ j <= i < j + cnt /\
      switch_at l t kp M M' (gchunk sz i sH) (gchunk sz i sH') = true /\
      incl (tr_xmss l t kp (gchunk sz i sH) M) (tr_loop cnt j sH it node) /\
      incl (tr_xmss l t kp (gchunk sz i sH') M') (tr_loop cnt j sH' it node')
    end.
  Proof.
    induction cnt as [|cnt IH]; intros j it node node'; cbn [switch_find_loop switch_in_loop tr_loop]; [reflexivity|].
    destruct (switch_at (N.of_nat j) (htUp P it) (htLeaf P it) node node' (gchunk sz j sH) (gchunk sz j sH')) eqn:Sw.
    - cbn [orb]. repeat split; try lia; try exact Sw; apply incl_appl, incl_refl.
    - cbn [orb]. specialize (IH (S j) (htUp P it)
        (xmssPkFromSigS P HS (N.of_nat j) (htUp P it) (htLeaf P it) (gchunk sz j sH) node pk)
        (xmssPkFromSigS P HS (N.of_nat j) (htUp P it) (htLeaf P it) (gchunk sz j sH') node' pk)).
      destruct (switch_find_loop cnt (S j) sH sH' (htUp P it) _ _) as [[[[[[i l] t] kp] M] M']|]; [|exact IH].
      destruct IH as (A & B & C & D1 & D2). repeat split; auto; try lia; apply incl_appr; assumption.
  Qed.

  Lemma ht_switch_find_spec sH sH' it il M0 M0' :
    match ht_switch_find sH sH' it il M0 M0' with
    | None => ht_switch sH sH' it il M0 M0' = false
    | Some (i, l, t, kp, M, M') =>
      ht_switch sH sH' it il M0 M0' = true /\ i < 1 + (p_d P - 1) /\
      switch_at l t kp M M' (gchunk sz i sH) (gchunk sz i sH') = true /\
      incl (tr_xmss l t kp (gchunk sz i sH) M) (tr_ht sH it il M0) /\
      incl (tr_xmss l t kp (gchunk sz i sH') M') (tr_ht sH' it il M0')
    end.
  Proof.
    unfold ht_switch_find, ht_switch, tr_ht.
    destruct (switch_at 0 it il M0 M0' (gchunk sz 0 sH) (gchunk sz 0 sH')) eqn:Sw.
    - cbn [orb]. repeat split; try lia; try exact Sw; apply incl_appl, incl_refl.
    - cbn [orb]. pose proof (switch_find_loop_spec sH sH' (p_d P - 1) 1 it
        (xmssPkFromSigS P HS 0 it il (gchunk sz 0 sH) M0 pk) (xmssPkFromSigS P HS 0 it il (gchunk sz 0 sH') M0' pk)) as S.
      destruct (switch_find_loop (p_d P - 1) 1 sH sH' it _ _) as [[[[[[i l] t] kp] M] M']|]; [|exact S].
      destruct S as (A & B & C & D1 & D2). repeat split; auto; try lia; apply incl_appr; assumption.
  Qed.

  (* the first chain where the first digit string is below the second *)
  Fixpoint first_lt (d d' : list N) : option nat :=
    match d, d' with
    | x :: r, y :: r' => if N.ltb x y then Some 0 else option_map S (first_lt r r')
    | _, _ => None
    end.

  Lemma first_lt_some : forall d d' i, first_lt d d' = Some i -> i < length d /\ i < length d' /\ (nth i d 0 < nth i d' 0)%N.
  Proof.
    induction d as [|x r IH]; intros d' i H; destruct d' as [|y r']; try discriminate. cbn [first_lt] in H.
    destruct (N.ltb_spec x y) as [L|L].
    - inversion H; subst. simpl. split; [lia|split; [lia|exact L]].
    - destruct (first_lt r r') as [k|] eqn:E; [|discriminate]. inversion H; subst.
      destruct (IH r' k E) as (A & B & C). simpl. split; [lia|split; [lia|exact C]].
  Qed.

  Lemma first_lt_exists : forall d d' i, i < length d -> i < length d' -> (nth i d 0 < nth i d' 0)%N ->
    exists k, first_lt d d' = Some k.
  Proof.
    induction d as [|x r IH]; intros d' i H H' L; destruct d' as [|y r']; simpl in H, H'; try lia. cbn [first_lt].
    destruct (N.ltb_spec x y) as [Lt|Ge]; [eexists; reflexivity|].
    destruct i as [|i]; [simpl in L; lia|].
    destruct (IH r' i ltac:(lia) ltac:(lia) L) as [k E]. rewrite E. eexists; reflexivity.
  Qed.

  (* a located switch is chain walking IN BOTH DIRECTIONS, at the chains first_lt computes:
     at chain i the value in X' is the image of the value in X under m'_i - m_i >= 1 chain steps,
     at chain i' the value in X is the image of the value in X' under m_i' - m'_i' >= 1 steps
     (the digit strings form an antichain), or the two WOTS+ verifications collide *)
  Definition walks (l t kp : N) (M M' X X' : bytes) (i i' : nat) : Prop :=
    let d := wotsChecksum P M in let d' := wotsChecksum P M' in
    (nth i d 0 < nth i d' 0)%N /\
    chunk P i X' = chainS HS l t kp (N.of_nat i) pk (chunk P i X) (nth i d 0%N) (N.to_nat (nth i d' 0%N - nth i d 0%N)) /\
    (nth i' d' 0 < nth i' d 0)%N /\
    chunk P i' X = chainS HS l t kp (N.of_nat i') pk (chunk P i' X') (nth i' d' 0%N) (N.to_nat (nth i' d 0%N - nth i' d' 0%N)).

  Lemma switch_at_walk l t kp M M' X X' : length X = sz -> length X' = sz ->
    switch_at l t kp M M' X X' = true ->
    exists i i', first_lt (wotsChecksum P M) (wotsChecksum P M') = Some i /\
                 first_lt (wotsChecksum P M') (wotsChecksum P M) = Some i' /\ i < p_len P /\ i' < p_len P /\
      (walks l t kp M M' X X' i i' \/ CB (tr_xmss l t kp X M) (tr_xmss l t kp X' M') = true).
  Proof.
    intros HX HX' Sw. unfold switch_at in Sw. apply andb_prop in Sw. destruct Sw as [Sd Se].
    apply beq_eq in Se. unfold xmssSigSize in HX, HX'.
    assert (Hne : wotsChecksum P M <> wotsChecksum P M').
    { intros E. rewrite E, beq_refl in Sd. discriminate. }
    assert (Ll : forall Z, length (wotsChecksum P Z) = p_len P).
    { intros Z. unfold wotsChecksum. cbv zeta. rewrite app_length, !base2b_length. reflexivity. }
    destruct (checksum_antichain P DW M M' Hne) as [(i0 & Hi0 & Lt0) (i0' & Hi0' & Gt0)].
    destruct (first_lt_exists _ _ i0 ltac:(rewrite Ll; lia) ltac:(rewrite Ll; lia) Lt0) as [i Fi].
    destruct (first_lt_exists _ _ i0' ltac:(rewrite Ll; lia) ltac:(rewrite Ll; lia) Gt0) as [i' Fi'].
    destruct (first_lt_some _ _ _ Fi) as (Hi & _ & Lt). destruct (first_lt_some _ _ _ Fi') as (Hi' & _ & Gt).
    rewrite Ll in Hi, Hi'.
    exists i, i'. split; [exact Fi|]. split; [exact Fi'|]. split; [exact Hi|]. split; [exact Hi'|].
    apply wots_switch_chains in Se; try (rewrite firstn_length; lia); try (intros; apply wotsChecksum_digit).
    destruct Se as [C|Wk].
    - right. unfold tr_xmss. eapply cb_mono; [| |exact C]; apply incl_appl, incl_refl.
    - left.
      assert (Ec : forall c Z, c < p_len P -> length Z = (p_hp P + p_len P) * n ->
                chunk P c (firstn (p_len P * n) Z) = chunk P c Z).
      { intros c Z Hc HZ. unfold chunk. rewrite skipn_firstn_comm, firstn_firstn. f_equal. nia. }
      unfold walks. cbv zeta.
      destruct (Wk i Hi) as [W1 _]. destruct (Wk i' Hi') as [_ W2]. cbv zeta in W1, W2.
      rewrite !Ec in W1, W2 by assumption.
      split; [exact Lt|]. split; [apply W1; lia|]. split; [exact Gt|apply W2; lia].
  Qed.

  (* ---------- FORS public key from signature ---------- *)
  Notation a := (p_a P).
  (* the pieces of FORS tree i in a FORS signature, as Algorithm 17 takes them *)
  Definition fors_sk (i : nat) (s : bytes) : bytes := firstn n (skipn (i * (a + 1) * n) s).
  Definition fors_auth (i : nat) (s : bytes) : bytes :=
    firstn ((i + 1) * (a + 1) * n - (i * (a + 1) + 1) * n) (skipn ((i * (a + 1) + 1) * n) s).
  Definition fors_leaf_ad (l t kp : N) (i : nat) (x : N) : address := mkA l t T_FORSTREE kp 0 (forsLeafIdx P i x).
  Definition fors_leaf (l t kp : N) (i : nat) (x : N) (s : bytes) : bytes := hF HS pk (fors_leaf_ad l t kp i x) (fors_sk i s).
  (* the node at height kk that the signature s computes in tree i from its revealed leaf at index x *)
  Definition fors_partial (l t kp : N) (i : nat) (x : N) (s : bytes) (kk : nat) : bytes :=
    climbS P HS (fun h y => mkA l t T_FORSTREE kp h y) kk 0 (forsLeafIdx P i x) x (fors_auth i s) pk (fors_leaf l t kp i x s).
  Definition tr_fors_tree (l t kp : N) (ind : list N) (s : bytes) (i : nat) : list call :=
    let x := nth i ind 0%N in
    (KF, fors_leaf_ad l t kp i x, fors_sk i s)
    :: tr_climb (fun h y => mkA l t T_FORSTREE kp h y) a 0 (forsLeafIdx P i x) x (fors_auth i s) (fors_leaf l t kp i x s).
  Definition fors_roots (l t kp : N) (ind : list N) (s : bytes) : bytes :=
    flat_map (fun i => fors_partial l t kp i (nth i ind 0%N) s a) (seq 0 (p_k P)).
  Definition tr_fors (l t kp : N) (ind : list N) (s : bytes) : list call :=
    flat_map (tr_fors_tree l t kp ind s) (seq 0 (p_k P)) ++ [(KT, mkA l t T_FORSROOTS kp 0 0, fors_roots l t kp ind s)].

  Lemma fors_pk_call l t kp ind s :
    forsPkFromSigS P HS l t kp ind s pk = call_out HS pk (KT, mkA l t T_FORSROOTS kp 0 0, fors_roots l t kp ind s).
  Proof. reflexivity. Qed.

  Lemma fors_partial_len l t kp i x s kk : length (fors_partial l t kp i x s kk) = n.
  Proof. unfold fors_partial. apply climbS_length. apply (hF_len _ _ OK). Qed.

  Lemma tr_fors_tree_incl l t kp ind s i : i < p_k P -> incl (tr_fors_tree l t kp ind s i) (tr_fors l t kp ind s).
  Proof. intros Hi. unfold tr_fors. apply incl_appl. apply incl_flat_map_seq. lia. Qed.

  (* equal FORS public keys: equal roots in every tree, or a located collision *)
  Lemma fors_roots_eq l t kp ind ind' s s' :
    forsPkFromSigS P HS l t kp ind s pk = forsPkFromSigS P HS l t kp ind' s' pk ->
    (forall i, i < p_k P -> fors_partial l t kp i (nth i ind 0%N) s a = fors_partial l t kp i (nth i ind' 0%N) s' a)
    \/ CB (tr_fors l t kp ind s) (tr_fors l t kp ind' s') = true.
  Proof.
    intros E. rewrite !fors_pk_call in E.
    destruct (call_inj HS pk KT _ _ _ (tr_fors l t kp ind s) (tr_fors l t kp ind' s')
                ltac:(unfold tr_fors; apply in_or_app; right; left; reflexivity)
                ltac:(unfold tr_fors; apply in_or_app; right; left; reflexivity) E
                ltac:(unfold fors_roots; rewrite !(flat_map_seq_length _ 0 (p_k P) n); auto using fors_partial_len))
      as [E2|C]; [left|right; exact C].
    intros i Hi. unfold fors_roots in E2.
    exact (flat_map_seq_inj _ _ n (p_k P) 0 ltac:(intros; apply fors_partial_len) ltac:(intros; apply fors_partial_len) E2 i ltac:(lia)).
  Qed.

  Lemma fors_auth_len i z : i < p_k P -> length z = p_k P * ((a + 1) * n) -> length (fors_auth i z) = a * n.
  Proof. intros Hi Hz. unfold fors_auth. rewrite firstn_length, skipn_length. nia. Qed.

  Lemma fors_auth_chunk_len i z j : i < p_k P -> length z = p_k P * ((a + 1) * n) -> j < a ->
    length (chunk P j (fors_auth i z)) = n.
  Proof. intros Hi Hz Hj. apply gchunk_length. rewrite fors_auth_len by assumption. nia. Qed.

  (* one tree, same index: same opening or a located collision *)
  Lemma fors_tree_same l t kp ind ind' i s s' : i < p_k P -> nth i ind 0%N = nth i ind' 0%N ->
    length s = p_k P * ((a + 1) * n) -> length s' = p_k P * ((a + 1) * n) ->
    fors_partial l t kp i (nth i ind 0%N) s a = fors_partial l t kp i (nth i ind' 0%N) s' a ->
    (fors_sk i s = fors_sk i s' /\ fors_auth i s = fors_auth i s')
    \/ CB (tr_fors l t kp ind s) (tr_fors l t kp ind' s') = true.
  Proof.
    intros Hi Ex Ls Ls' E. unfold fors_partial in E.
    assert (Mono : forall T1 T2, incl T1 (tr_fors_tree l t kp ind s i) -> incl T2 (tr_fors_tree l t kp ind' s' i) ->
              CB T1 T2 = true -> CB (tr_fors l t kp ind s) (tr_fors l t kp ind' s') = true).
    { intros T1 T2 I1 I2 C. eapply cb_mono; [| |exact C]; eapply incl_tran; eauto using tr_fors_tree_incl. }
    rewrite <- Ex in E.
    apply climb_inj in E; try apply (hF_len _ _ OK).
    2:{ intros j Hj. split; apply fors_auth_chunk_len; auto; lia. }
    destruct E as [[El Ec]|C].
    2:{ right. eapply Mono; [| |exact C]; unfold tr_fors_tree; cbv zeta; rewrite <- ?Ex; apply incl_tl, incl_refl. }
    unfold fors_leaf in El.
    destruct (call_inj HS pk KF _ _ _ (tr_fors_tree l t kp ind s i) (tr_fors_tree l t kp ind' s' i)
                ltac:(left; reflexivity) ltac:(unfold tr_fors_tree; cbv zeta; rewrite <- Ex; left; reflexivity) El
                ltac:(unfold fors_sk; rewrite !firstn_length, !skipn_length; nia)) as [Es|C].
    - left. split; [exact Es|]. apply (gchunks_eq n a); try (apply fors_auth_len; assumption).
      intros j Hj. apply Ec. lia.
    - right. eapply Mono; [| |exact C]; apply incl_refl.
  Qed.

  Lemma fors_inj l t kp indices s s' :
    length s = p_k P * ((a + 1) * n) -> length s' = p_k P * ((a + 1) * n) ->
    forsPkFromSigS P HS l t kp indices s pk = forsPkFromSigS P HS l t kp indices s' pk ->
    s = s' \/ CB (tr_fors l t kp indices s) (tr_fors l t kp indices s') = true.
  Proof.
    intros Hs Hs' E. destruct (bytes_eq_dec s s') as [e|ne]; [left; exact e|right].
    destruct (gchunks_diff n (p_k P * (a + 1)) s s' ltac:(lia) ltac:(lia) ne) as (c & Hc & Hd).
    pose proof (Nat.div_mod c (a + 1) ltac:(lia)) as Dm. pose proof (Nat.mod_upper_bound c (a + 1) ltac:(lia)) as Um.
    set (i := c / (a + 1)) in *. set (r := c mod (a + 1)) in *.
    assert (Hi : i < p_k P) by nia.
    destruct (fors_roots_eq l t kp indices indices s s' E) as [Roots|C]; [|exact C].
    destruct (fors_tree_same l t kp indices indices i s s' Hi eq_refl Hs Hs' (Roots i Hi)) as [[Es Ea]|C]; [|exact C].
    exfalso. apply Hd. destruct (Nat.eq_dec r 0) as [Hr|Hr].
    - unfold gchunk. replace (c * n) with (i * (a + 1) * n) by nia. exact Es.
    - assert (Ej : gchunk n (r - 1) (fors_auth i s) = gchunk n (r - 1) (fors_auth i s')) by (rewrite Ea; reflexivity).
      unfold fors_auth in Ej. replace ((i + 1) * (a + 1) * n - (i * (a + 1) + 1) * n) with (a * n) in Ej by nia.
      rewrite !gchunk_sub in Ej by lia. replace (i * (a + 1) + 1 + (r - 1)) with c in Ej by lia. exact Ej.
  Qed.

  (* ---------- two FORS openings with arbitrary indices ---------- *)
  Definition tree_consistent (l t kp : N) (i : nat) (x x' : N) (s s' : bytes) : Prop :=
    (x = x' /\ fors_sk i s = fors_sk i s' /\ fors_auth i s = fors_auth i s') \/
    (x <> x' /\ exists kk, kk < a /\
       fors_partial l t kp i x' s' kk = chunk P kk (fors_auth i s) /\
       fors_partial l t kp i x s kk = chunk P kk (fors_auth i s') /\
       forall j, kk < j < a -> chunk P j (fors_auth i s) = chunk P j (fors_auth i s')).

  Lemma leaf_parity (i : nat) (x : N) : forall j, j < a ->
    N.land (N.shiftr x (N.of_nat j)) 1 = N.land (N.shiftr (forsLeafIdx P i x) (N.of_nat j)) 1.
  Proof.
    intros j Hj. unfold forsLeafIdx. rewrite (leaf_shiftr (N.of_nat i) x a j) by lia.
    destruct (shiftl_even (N.of_nat i) (a - j) ltac:(lia)) as [X EX]. rewrite EX.
    symmetry. apply even_add_land1.
  Qed.

  Lemma leaf_top (i : nat) (x : N) : (x < 2 ^ N.of_nat a)%N -> N.shiftr (forsLeafIdx P i x) (N.of_nat a) = N.of_nat i.
  Proof.
    intros H. unfold forsLeafIdx. rewrite (leaf_shiftr (N.of_nat i) x a a) by lia.
    rewrite Nat.sub_diag. change (N.of_nat 0) with 0%N. rewrite N.shiftl_0_r.
    rewrite N.shiftr_div_pow2, N.div_small by exact H. lia.
  Qed.

  Definition fors_consistent (l t kp : N) (ind ind' : list N) (s s' : bytes) : Prop :=
    forall i, i < p_k P -> tree_consistent l t kp i (nth i ind 0%N) (nth i ind' 0%N) s s'.

  Lemma fors_two_openings l t kp ind ind' s s' :
    length s = p_k P * ((a + 1) * n) -> length s' = p_k P * ((a + 1) * n) ->
    (forall i, i < p_k P -> (nth i ind 0 < 2 ^ N.of_nat a)%N) -> (forall i, i < p_k P -> (nth i ind' 0 < 2 ^ N.of_nat a)%N) ->
    forsPkFromSigS P HS l t kp ind s pk = forsPkFromSigS P HS l t kp ind' s' pk ->
    fors_consistent l t kp ind ind' s s' \/ CB (tr_fors l t kp ind s) (tr_fors l t kp ind' s') = true.
  Proof.
    intros Ls Ls' Hb Hb' E.
    destruct (fors_roots_eq l t kp ind ind' s s' E) as [Roots|C]; [|right; exact C].
    assert (G : forall cnt, cnt <= p_k P ->
              (forall i, i < cnt -> tree_consistent l t kp i (nth i ind 0%N) (nth i ind' 0%N) s s')
              \/ CB (tr_fors l t kp ind s) (tr_fors l t kp ind' s') = true).
    { induction cnt as [|cnt IH]; intros Hc; [left; intros; lia|].
      destruct (IH ltac:(lia)) as [IHa|C]; [|right; exact C].
      assert (T : tree_consistent l t kp cnt (nth cnt ind 0%N) (nth cnt ind' 0%N) s s'
                  \/ CB (tr_fors l t kp ind s) (tr_fors l t kp ind' s') = true).
      { destruct (N.eq_dec (nth cnt ind 0%N) (nth cnt ind' 0%N)) as [Ex|Hne].
        - destruct (fors_tree_same l t kp ind ind' cnt s s' ltac:(lia) Ex Ls Ls' (Roots cnt ltac:(lia))) as [[A B]|C];
            [left; left; auto|right; exact C].
        - pose proof (Roots cnt ltac:(lia)) as Er. unfold fors_partial in Er.
          assert (Hl : forsLeafIdx P cnt (nth cnt ind 0%N) <> forsLeafIdx P cnt (nth cnt ind' 0%N)) by (unfold forsLeafIdx; lia).
          destruct (merge (fun h y => mkA l t T_FORSTREE kp h y) a
                      (forsLeafIdx P cnt (nth cnt ind 0%N)) (nth cnt ind 0%N) (fors_auth cnt s) (fors_leaf l t kp cnt (nth cnt ind 0%N) s)
                      (forsLeafIdx P cnt (nth cnt ind' 0%N)) (nth cnt ind' 0%N) (fors_auth cnt s') (fors_leaf l t kp cnt (nth cnt ind' 0%N) s')
                      (hF_len _ _ OK _ _ _) (hF_len _ _ OK _ _ _)
                      ltac:(intros j Hj; split; apply fors_auth_chunk_len; auto; lia)
                      (leaf_parity cnt (nth cnt ind 0%N)) (leaf_parity cnt (nth cnt ind' 0%N))
                      ltac:(rewrite (leaf_top cnt _ (Hb cnt Hc)), (leaf_top cnt _ (Hb' cnt Hc)); reflexivity) Hl Er)
            as [C|(kk & Hk & _ & X1 & X2 & Up)].
          + right. eapply cb_mono; [| |exact C].
            * apply incl_tran with (tr_fors_tree l t kp ind s cnt); [|apply tr_fors_tree_incl; lia].
              unfold tr_fors_tree; cbv zeta; apply incl_tl, incl_refl.
            * apply incl_tran with (tr_fors_tree l t kp ind' s' cnt); [|apply tr_fors_tree_incl; lia].
              unfold tr_fors_tree; cbv zeta; apply incl_tl, incl_refl.
          + left. right. split; [exact Hne|]. exists kk. split; [exact Hk|]. split; [exact X2|]. split; [exact X1|exact Up]. }
      destruct T as [T|C]; [left|right; exact C].
      intros i Hi. destruct (Nat.eq_dec i cnt) as [->|Hn]; [exact T|apply IHa; lia]. }
    exact (G (p_k P) (le_n _)).
  Qed.
End FORGERY.

(* ---------- why the switch event has to be located ----------
   "there exist two WOTS+ signatures on values with different digit strings that lead to the
   same WOTS+ public key" holds for EVERY hash family and every pair of values: whoever holds
   the chain start values signs both (this is wotsS_complete twice). *)
Lemma unlocated_switch_is_free P HS pk : hashes_ok P HS -> forall l t kp M M' sk,
  wotsPkFromSigS P HS l t kp (wotsChecksum P M) (wotsSignS P HS l t kp (wotsChecksum P M) sk pk) pk
  = wotsPkFromSigS P HS l t kp (wotsChecksum P M') (wotsSignS P HS l t kp (wotsChecksum P M') sk pk) pk.
Proof.
  intros OK l t kp M M' sk. rewrite !(wotsS_complete P HS OK) by (intros; apply wotsChecksum_digit). reflexivity.
Qed.

(* ---------- the whole verification ---------- *)
Section TOP.
  Variable P : params.
  Variable HS : hashes.
  Hypothesis OK : hashes_ok P HS.
  Hypothesis WF : params_wf P.
  Hypothesis WB : hashes_wfb HS.
  Hypothesis DW : digits_wf P.
  Notation n := (p_n P).

  (* what the digest contributes to the computation: FORS indices, tree, leaf *)
  Definition selectors (pkSeed pkRoot msg sig : bytes) : list N * N * N :=
    let '(md, it, il) := split_digest P (hHMsg HS (firstn n sig) pkSeed pkRoot msg) in
    (base2b md (p_a P) (p_k P), it, il).

  (* R || body *)
  Definition sig_body (sig : bytes) : bytes := skipn n sig.

  (* the parts of a signature as verifyInternal takes them *)
  Definition sig_fors (sig : bytes) : bytes := firstn ((1 + p_k P * (1 + p_a P)) * n - n) (skipn n sig).
  Definition sig_ht (sig : bytes) : bytes := skipn ((1 + p_k P * (1 + p_a P)) * n) sig.

  (* the hash calls (function, ADRS, input) the verification of a signature makes for given selectors *)
  Definition sig_trace (pkSeed : bytes) (sel : list N * N * N) (sig : bytes) : list call :=
    let '(ind, it, il) := sel in
    tr_fors P HS pkSeed 0 it il ind (sig_fors sig)
    ++ tr_ht P HS pkSeed (sig_ht sig) it il (forsPkFromSigS P HS 0 it il ind (sig_fors sig) pkSeed).

  (* THE LOCATED COLLISION of two signatures verified for (msg, sig)'s selectors: two calls, one in
     each verification, of the same function with the same ADRS on DIFFERENT inputs of EQUAL length
     with equal outputs -- a boolean computed from the two signatures *)
  Definition located_collision (pkSeed pkRoot msg sig sig' : bytes) : bool :=
    let sel := selectors pkSeed pkRoot msg sig in
    cb HS pkSeed (sig_trace pkSeed sel sig) (sig_trace pkSeed sel sig').

  (* THE LOCATED SWITCH of two signatures verified for (msg, sig)'s selectors *)
  Definition sig_switch (pkSeed pkRoot msg sig sig' : bytes) : bool :=
    let '(ind, it, il) := selectors pkSeed pkRoot msg sig in
    ht_switch P HS pkSeed (sig_ht sig) (sig_ht sig') it il
      (forsPkFromSigS P HS 0 it il ind (sig_fors sig) pkSeed) (forsPkFromSigS P HS 0 it il ind (sig_fors sig') pkSeed).

  (* ... and where it is: layer, WOTS+ address (layer, tree, key pair), the two values signed there *)
  Definition sig_switch_find (pkSeed pkRoot msg sig sig' : bytes) : option (nat * N * N * N * bytes * bytes) :=
    let '(ind, it, il) := selectors pkSeed pkRoot msg sig in
    ht_switch_find P HS pkSeed (sig_ht sig) (sig_ht sig') it il
      (forsPkFromSigS P HS 0 it il ind (sig_fors sig) pkSeed) (forsPkFromSigS P HS 0 it il ind (sig_fors sig') pkSeed).

  Lemma sig_parts_len sig : length sig = sig_len P ->
    length (sig_fors sig) = p_k P * ((p_a P + 1) * n) /\ length (sig_ht sig) = p_d P * xmssSigSize P.
  Proof.
    intros L. destruct WF as [Hh Hd]. unfold sig_fors, sig_ht. rewrite firstn_length, !skipn_length, L.
    unfold sig_len, xmssSigSize. rewrite Hh. split; nia.
  Qed.

  Lemma sig_body_parts sig : sig_body sig = sig_fors sig ++ sig_ht sig.
  Proof.
    unfold sig_body, sig_fors, sig_ht. set (fi := 1 + p_k P * (1 + p_a P)).
    rewrite <- (firstn_skipn (fi * n - n) (skipn n sig)) at 1. f_equal.
    rewrite skipn_add. f_equal. unfold fi. nia.
  Qed.

  Lemma fors_pk_ok l t kp ind s pk : wfb (forsPkFromSigS P HS l t kp ind s pk) /\ length (forsPkFromSigS P HS l t kp ind s pk) = n.
  Proof. unfold forsPkFromSigS. split; [apply (hTl_wfb _ WB)|apply (hTl_len _ _ OK)]. Qed.

  Theorem two_accepted_signatures : forall pkSeed pkRoot msg sig msg' sig',
    verifyInternal P HS pkSeed pkRoot msg sig = true ->
    verifyInternal P HS pkSeed pkRoot msg' sig' = true ->
    selectors pkSeed pkRoot msg sig = selectors pkSeed pkRoot msg' sig' ->
    sig_body sig = sig_body sig' \/ sig_switch pkSeed pkRoot msg sig sig' = true
    \/ located_collision pkSeed pkRoot msg sig sig' = true.
  Proof.
    intros pkSeed pkRoot msg sig msg' sig' V V' Sel.
    rewrite verifyInternal_fips in V, V'. unfold verifyInternalS in V, V'.
    unfold sig_switch, located_collision. unfold selectors in *.
    destruct (Nat.eqb_spec (length sig) (sig_len P)) as [L|L]; [cbn [negb] in V|discriminate].
    destruct (Nat.eqb_spec (length sig') (sig_len P)) as [L'|L']; [cbn [negb] in V'|discriminate].
    destruct (split_digest P (hHMsg HS (firstn n sig) pkSeed pkRoot msg)) as [[md it] il].
    destruct (split_digest P (hHMsg HS (firstn n sig') pkSeed pkRoot msg')) as [[md' it'] il'].
    inversion Sel as [[Ei Et El]]. subst it' il'. rewrite <- Ei in V'. clear Ei Sel.
    set (ind := base2b md (p_a P) (p_k P)) in *.
    fold (sig_fors sig) in V. fold (sig_fors sig') in V'. fold (sig_ht sig) in V. fold (sig_ht sig') in V'.
    destruct (sig_parts_len sig L) as [LF LH]. destruct (sig_parts_len sig' L') as [LF' LH'].
    destruct WF as [Hh Hd]. unfold sig_trace.
    destruct (fors_pk_ok 0 it il ind (sig_fors sig) pkSeed) as [WM LM].
    destruct (fors_pk_ok 0 it il ind (sig_fors sig') pkSeed) as [WM' LM'].
    destruct (ht_inj P HS OK pkSeed WB DW _ _ it il _ _ pkRoot LH LH' Hd WM WM' LM LM' V V') as [[V0 EH]|[Sw|C]].
    - apply (fors_inj P HS OK) in V0; auto. destruct V0 as [V0|C].
      + left. rewrite !sig_body_parts. congruence.
      + right; right. eapply cb_mono; [| |exact C]; apply incl_appl, incl_refl.
    - right; left. exact Sw.
    - right; right. eapply cb_mono; [| |exact C]; apply incl_appr, incl_refl.
  Qed.

  (* the signature-modification clause: same message, same R, same key *)
  Corollary modified_signature_accepted : forall pkSeed pkRoot msg sig sig',
    verifyInternal P HS pkSeed pkRoot msg sig = true ->
    verifyInternal P HS pkSeed pkRoot msg sig' = true ->
    firstn n sig = firstn n sig' -> sig <> sig' ->
    sig_switch pkSeed pkRoot msg sig sig' = true \/ located_collision pkSeed pkRoot msg sig sig' = true.
  Proof.
    intros pkSeed pkRoot msg sig sig' V V' ER Hne.
    destruct (two_accepted_signatures pkSeed pkRoot msg sig msg sig' V V') as [E|R]; [|exfalso|exact R].
    - unfold selectors. rewrite ER. reflexivity.
    - apply Hne. rewrite <- (firstn_skipn n sig), <- (firstn_skipn n sig'). unfold sig_body in E. congruence.
  Qed.

  (* what a located switch between two signatures of the right length means, at the layer and
     the chains that sig_switch_find / first_lt COMPUTE *)
  Theorem sig_switch_walk : forall pkSeed pkRoot msg sig sig',
    length sig = sig_len P -> length sig' = sig_len P ->
    match sig_switch_find pkSeed pkRoot msg sig sig' with
    | None => sig_switch pkSeed pkRoot msg sig sig' = false
    | Some (j, l, t, kp, M, M') =>
      sig_switch pkSeed pkRoot msg sig sig' = true /\ j < p_d P /\
      let X := gchunk (xmssSigSize P) j (sig_ht sig) in let X' := gchunk (xmssSigSize P) j (sig_ht sig') in
      exists i i', first_lt (wotsChecksum P M) (wotsChecksum P M') = Some i /\
                   first_lt (wotsChecksum P M') (wotsChecksum P M) = Some i' /\ i < p_len P /\ i' < p_len P /\
        (walks P HS pkSeed l t kp M M' X X' i i' \/ located_collision pkSeed pkRoot msg sig sig' = true)
    end.
  Proof.
    intros pkSeed pkRoot msg sig sig' L L'. unfold sig_switch_find, sig_switch, located_collision, sig_trace.
    destruct (selectors pkSeed pkRoot msg sig) as [[ind it] il].
    destruct (sig_parts_len sig L) as [_ LH]. destruct (sig_parts_len sig' L') as [_ LH']. destruct WF as [Hh Hd].
    pose proof (ht_switch_find_spec P HS pkSeed (sig_ht sig) (sig_ht sig') it il
                  (forsPkFromSigS P HS 0 it il ind (sig_fors sig) pkSeed) (forsPkFromSigS P HS 0 it il ind (sig_fors sig') pkSeed)) as S.
    destruct (ht_switch_find P HS pkSeed (sig_ht sig) (sig_ht sig') it il _ _) as [[[[[[j l] t] kp] M] M']|]; [|exact S].
    destruct S as (A & B & C & D1 & D2). split; [exact A|]. split; [lia|]. cbv zeta.
    destruct (switch_at_walk P HS OK pkSeed DW l t kp M M' (gchunk (xmssSigSize P) j (sig_ht sig)) (gchunk (xmssSigSize P) j (sig_ht sig'))
                ltac:(apply gchunk_length; nia) ltac:(apply gchunk_length; nia) C)
      as (i & i' & F1 & F2 & Hi & Hi' & [Wk|Cb]).
    - exists i, i'. repeat split; auto.
    - exists i, i'. repeat split; auto. right.
      eapply cb_mono; [| |exact Cb]; apply incl_appr; assumption.
  Qed.

  (* the key-modification clause (same PK.seed): one signature cannot verify under two roots
     unless the digests select differently *)
  Corollary two_roots : forall pkSeed pkRoot pkRoot' msg sig,
    verifyInternal P HS pkSeed pkRoot msg sig = true ->
    verifyInternal P HS pkSeed pkRoot' msg sig = true ->
    (let '(md, it, il) := split_digest P (hHMsg HS (firstn n sig) pkSeed pkRoot msg) in (base2b md (p_a P) (p_k P), it, il))
    = (let '(md, it, il) := split_digest P (hHMsg HS (firstn n sig) pkSeed pkRoot' msg) in (base2b md (p_a P) (p_k P), it, il)) ->
    pkRoot = pkRoot'.
  Proof.
    intros pkSeed pkRoot pkRoot' msg sig V V' Sel.
    rewrite verifyInternal_fips in V, V'. unfold verifyInternalS in V, V'.
    destruct (negb (Nat.eqb (length sig) (sig_len P))); [discriminate|].
    destruct (split_digest P (hHMsg HS (firstn n sig) pkSeed pkRoot msg)) as [[md it] il].
    destruct (split_digest P (hHMsg HS (firstn n sig) pkSeed pkRoot' msg)) as [[md' it'] il'].
    inversion Sel as [[Ei Et El]]. subst it' il'. rewrite <- Ei in V'.
    unfold htVerifyS in V, V'. apply beq_eq in V, V'. congruence.
  Qed.
End TOP.
