(* Witnesses that the premises of the theorems of props/C10.v are inhabited
   (evaluated once here, so that props/C10.v stays cheap to re-check). *)
From Coq Require Import List ZArith NArith Bool Lia.
From Tink Require Import Bytes Wrap MldsaScalar MldsaScalarProofs MldsaScalarProofs2
  MldsaKernels MldsaPoly Mldsa MldsaPackProofs MldsaHintProofs MldsaProofs MldsaAlgebraProofs.
Import ListNotations.
Local Open Scope Z_scope.

Lemma ex_useHint_makeHint_inhabited :
  valid_gamma2 95232 /\ 0 <= 8380416 < q /\ 0 <= 190464 < q /\ Z.abs (cmod 8380416 q) <= 95232 /\
  mldsa_rZq_makeHint 8380416 95232 190464 = Some 0.
Proof. repeat split; try (vm_compute; congruence); left; reflexivity. Qed.

Local Open Scope nat_scope.

Lemma ex_bitUnpack_bitPack_inhabited :
  let p := repeat (q - 2)%Z degree in
  0 < 3 /\ length p = degree /\ (0 <= 2 < q)%Z /\
  Forall (fun c => 0 <= c < q /\ (2 - c) mod q < 2 ^ Z.of_nat 3)%Z p.
Proof.
  cbv zeta. repeat split; try lia; try reflexivity.
  apply Forall_forall. intros c Hc. apply repeat_spec in Hc. subst. vm_compute. repeat split; congruence.
Qed.

Lemma ex_hint_inhabited :
  let h := [upd 3 1%Z (upd 200 1%Z zero_poly); zero_poly] in
  hintBitUnpack 5 2 (hintBitPack 5 h) = Ok h /\ hintBitPack 5 h = [3; 200; 0; 0; 0; 2; 2]%N /\
  hintBitUnpack 5 2 [200; 3; 0; 0; 0; 2; 2]%N = Err /\    (* indices not increasing *)
  hintBitUnpack 5 2 [3; 3; 0; 0; 0; 2; 2]%N = Err /\      (* repeated index *)
  hintBitUnpack 5 2 [3; 200; 0; 0; 1; 2; 2]%N = Err /\    (* non-zero padding *)
  hintBitUnpack 5 2 [3; 200; 0; 0; 0; 2; 1]%N = Err /\    (* counts decrease *)
  hintBitUnpack 5 2 [3; 200; 0; 0; 0; 2; 6]%N = Err.       (* count beyond omega *)
Proof. vm_compute. repeat split; reflexivity. Qed.

Lemma ex_sigDecode_sigEncode_inhabited :
  let P := MLDSA44 in
  let c := zeros 32 in let z := repeat zero_poly 4 in let h := repeat zero_poly 4 in
  p_omega P <= 255 /\ (0 <= gamma1 P < q)%Z /\ length c = ctLen P /\ polys (p_l P) z /\
  length h = p_k P /\ weight h <= p_omega P /\ sigDecode P (sigEncode P c z h) = Some (c, z, h).
Proof. vm_compute. repeat split; try congruence; try lia; repeat constructor. Qed.

Lemma ex_algebra_inhabited : cmat 1 1 [[zero_poly]] /\ cvec 1 [zero_poly] /\ cpoly zero_poly.
Proof.
  assert (V : cvec 1 [zero_poly]).
  { split; [reflexivity|]. constructor; [apply cpoly_zero | constructor]. }
  split; [|split; [exact V | apply cpoly_zero]].
  split; [reflexivity|]. constructor; [exact V | constructor].
Qed.
