(* Proofs about model/SlhdsaXmss.v: threaded = FIPS-shaped; the Merkle climb
   lemma (shared with FORS); XMSS completeness for every leaf index. *)
From Coq Require Import List NArith Bool Arith Lia ZifyN ZifyNat.
From Tink Require Import Bytes SlhdsaSupport SlhdsaAddr SlhdsaBase SlhdsaWots SlhdsaXmss SlhdsaSpec
  SlhdsaListProofs SlhdsaSupportProofs SlhdsaWotsProofs.
Import ListNotations.
Open Scope N_scope.

(* ---------- bit facts ---------- *)
Lemma lxor1_even q : N.lxor (2 * q) 1 = 2 * q + 1.
Proof. destruct q; reflexivity. Qed.
Lemma lxor1_odd q : N.lxor (2 * q + 1) 1 = 2 * q.
Proof. destruct q; reflexivity. Qed.
Lemma land1_mod x : N.land x 1 = x mod 2.
Proof. change 1 with (N.ones 1). rewrite N.land_ones. reflexivity. Qed.
Lemma shiftr1_div x : N.shiftr x 1 = x / 2.
Proof. rewrite N.shiftr_div_pow2. reflexivity. Qed.
Lemma shiftr_succ x k : N.shiftr x (N.of_nat k + 1) = N.shiftr (N.shiftr x (N.of_nat k)) 1.
Proof. rewrite N.shiftr_shiftr. reflexivity. Qed.

Section CLIMB.
  Variable P : params.
  Variable HS : hashes.
  Notation n := (p_n P).

  (* Climbing from node (k, tidx>>k) through the authentication path of a
     tree whose nodes satisfy the Merkle law reaches node (k+cnt, tidx>>(k+cnt)). *)
  Lemma climbS_node (mkad : N -> N -> address) (node : nat -> N -> bytes) (pk : bytes) (h : nat)
        (tidx idx : N) (auth : bytes) :
    (forall z i, node (S z) i = hH HS pk (mkad (N.of_nat (S z)) i) (node z (2 * i) ++ node z (2 * i + 1))) ->
    (forall j, (j < h)%nat -> chunk P j auth = node j (N.lxor (N.shiftr tidx (N.of_nat j)) 1)) ->
    (forall j, (j < h)%nat -> N.land (N.shiftr idx (N.of_nat j)) 1 = N.land (N.shiftr tidx (N.of_nat j)) 1) ->
    forall cnt k, (k + cnt <= h)%nat ->
      climbS P HS mkad cnt k tidx idx auth pk (node k (N.shiftr tidx (N.of_nat k)))
      = node (k + cnt)%nat (N.shiftr tidx (N.of_nat (k + cnt))).
  Proof.
    intros Hlaw Hauth Hbits. induction cnt as [|cnt IH]; intros k Hk.
    - simpl. rewrite Nat.add_0_r. reflexivity.
    - cbn [climbS]. rewrite Hauth, Hbits by lia.
      replace (k + S cnt)%nat with (S k + cnt)%nat by lia.
      rewrite <- IH by lia. f_equal.
      rewrite Hlaw. replace (N.of_nat (S k)) with (N.of_nat k + 1) by lia.
      rewrite shiftr_succ. set (x := N.shiftr tidx (N.of_nat k)).
      rewrite land1_mod, shiftr1_div.
      pose proof (N.div_mod x 2 ltac:(lia)) as D.
      pose proof (N.mod_lt x 2 ltac:(lia)) as L.
      clearbody x. remember (x / 2) as q eqn:Eq. clear Eq.
      destruct (N.eqb_spec (x mod 2) 0) as [E|E].
      + assert (X : x = 2 * q) by lia. subst x. rewrite lxor1_even. reflexivity.
      + assert (X : x = 2 * q + 1) by lia. subst x. rewrite lxor1_odd. reflexivity.
  Qed.
End CLIMB.

Section XMSS.
  Variable P : params.
  Variable HS : hashes.
  Notation n := (p_n P).

  (* ---------- threaded = FIPS-shaped ---------- *)
  Lemma xmssNode_spec : forall z sk i pk ad,
    fst (xmssNode P HS z sk i pk ad) = xmssNodeS P HS (a_layer ad) (a_tree ad) sk pk z i
    /\ eqlt (snd (xmssNode P HS z sk i pk ad)) ad.
  Proof.
    induction z as [|z IH]; intros sk i pk ad.
    - cbn [xmssNode xmssNodeS].
      destruct (wotsPkGen_spec P HS sk pk (setKeyPairAddress i (setTypeAndClear T_WOTSHASH ad)) eq_refl) as [A B].
      split; [exact A|]. apply eq23_eqlt in B. unfold eqlt in *; simpl in *; tauto.
    - cbn [xmssNode xmssNodeS].
      destruct (IH sk (2 * i) pk ad) as [A1 B1].
      destruct (xmssNode P HS z sk (2 * i) pk ad) as [lnode ad1]. simpl in A1, B1.
      destruct (IH sk (2 * i + 1) pk ad1) as [A2 B2].
      destruct (xmssNode P HS z sk (2 * i + 1) pk ad1) as [rnode ad2]. simpl in A2, B2.
      unfold eqlt in *. destruct B1 as [b1 b1'], B2 as [b2 b2'].
      simpl. split; [|split; congruence].
      rewrite A1, A2. unfold setTreeIndex, setTreeHeight, setTypeAndClear; simpl.
      rewrite b2, b2', b1, b1'. reflexivity.
  Qed.

  Lemma xmssAuth_loop_spec : forall cnt j sk idx pk ad auth,
    fst (xmssAuth_loop P HS cnt j sk idx pk ad auth)
    = auth ++ flat_map (fun j => xmssNodeS P HS (a_layer ad) (a_tree ad) sk pk j
                                   (N.lxor (N.shiftr idx (N.of_nat j)) 1)) (seq j cnt)
    /\ eqlt (snd (xmssAuth_loop P HS cnt j sk idx pk ad auth)) ad.
  Proof.
    induction cnt as [|cnt IH]; intros j sk idx pk ad auth.
    - simpl. rewrite app_nil_r. split; [reflexivity|apply eqlt_refl].
    - cbn [xmssAuth_loop seq flat_map].
      destruct (xmssNode_spec j sk (N.lxor (N.shiftr idx (N.of_nat j)) 1) pk ad) as [A B].
      destruct (xmssNode P HS j sk _ pk ad) as [v ad1]. simpl in A, B.
      destruct (IH (S j) sk idx pk ad1 (auth ++ v)) as [A' B'].
      split; [|eapply eqlt_trans; eauto].
      rewrite A', <- app_assoc, A. destruct B as [b b']. rewrite b, b'. reflexivity.
  Qed.

  Lemma xmssSign_spec : forall msg sk idx pk ad,
    fst (xmssSign P HS msg sk idx pk ad) = xmssSignS P HS (a_layer ad) (a_tree ad) msg sk idx pk
    /\ eqlt (snd (xmssSign P HS msg sk idx pk ad)) ad.
  Proof.
    intros msg sk idx pk ad. unfold xmssSign, xmssSignS.
    destruct (xmssAuth_loop_spec (p_hp P) 0 sk idx pk ad []) as [A B].
    destruct (xmssAuth_loop P HS (p_hp P) 0 sk idx pk ad []) as [auth ad1]. simpl in A, B.
    destruct (wotsSign_spec P HS msg sk pk (setKeyPairAddress idx (setTypeAndClear T_WOTSHASH ad1)) eq_refl) as [A' B'].
    destruct (wotsSign P HS msg sk pk _) as [sig ad3]. simpl in A', B'.
    apply eq23_eqlt in B'. destruct B as [b b'], B' as [c c']. simpl in *.
    split; [|split; congruence].
    rewrite A', A, b, b'. reflexivity.
  Qed.

  Lemma xmssClimb_loop_spec : forall cnt k tidx idx auth pk ad node,
    a_typ ad = T_TREE -> a_kp ad = 0 -> a_w3 ad = N.shiftr tidx (N.of_nat k) ->
    fst (xmssClimb_loop P HS cnt k idx auth pk ad node)
    = climbS P HS (fun h i => mkA (a_layer ad) (a_tree ad) T_TREE 0 h i) cnt k tidx idx auth pk node
    /\ eqlt (snd (xmssClimb_loop P HS cnt k idx auth pk ad node)) ad.
  Proof.
    induction cnt as [|cnt IH]; intros k tidx idx auth pk ad node Ht Hk Hw.
    - simpl. split; [reflexivity|apply eqlt_refl].
    - cbn [xmssClimb_loop climbS].
      assert (E2 : setTreeIndex (N.shiftr (treeIndex (setTreeHeight (N.of_nat k + 1) ad)) 1)
                     (setTreeHeight (N.of_nat k + 1) ad)
                   = mkA (a_layer ad) (a_tree ad) T_TREE 0 (N.of_nat k + 1) (N.shiftr tidx (N.of_nat k + 1))).
      { unfold setTreeIndex, setTreeHeight, treeIndex. simpl. rewrite Ht, Hk, Hw, shiftr_succ. reflexivity. }
      rewrite E2.
      match goal with |- context [xmssClimb_loop P HS cnt (S k) idx auth pk ?a ?nd] =>
        destruct (IH (S k) tidx idx auth pk a nd) as [A B] end.
      + reflexivity.
      + reflexivity.
      + cbn [a_w3]. f_equal. lia.
      + split.
        * rewrite A. reflexivity.
        * eapply eqlt_trans; eauto. unfold eqlt; simpl; tauto.
  Qed.

  Lemma xmssPkFromSig_spec : forall idx sig msg pk ad,
    fst (xmssPkFromSig P HS idx sig msg pk ad) = xmssPkFromSigS P HS (a_layer ad) (a_tree ad) idx sig msg pk
    /\ eqlt (snd (xmssPkFromSig P HS idx sig msg pk ad)) ad.
  Proof.
    intros idx sig msg pk ad. unfold xmssPkFromSig, xmssPkFromSigS.
    destruct (wotsPkFromSig_spec P HS (firstn (p_len P * n) sig) msg pk
                (setKeyPairAddress idx (setTypeAndClear T_WOTSHASH ad)) eq_refl) as [A B].
    destruct (wotsPkFromSig P HS _ msg pk _) as [node ad2]. simpl in A, B.
    apply eq23_eqlt in B. destruct B as [b b']. simpl in b, b'.
    destruct (xmssClimb_loop_spec (p_hp P) 0 idx idx (skipn (p_len P * n) sig) pk
                (setTreeIndex idx (setTypeAndClear T_TREE ad2)) node eq_refl eq_refl eq_refl) as [A' B'].
    split.
    - rewrite A', A. simpl. rewrite b, b'. reflexivity.
    - eapply eqlt_trans; eauto. unfold eqlt; simpl; split; congruence.
  Qed.

  (* ---------- lengths ---------- *)
  Lemma wotsPkGenS_length : hashes_ok P HS -> forall l t kp sk pk, length (wotsPkGenS P HS l t kp sk pk) = n.
  Proof. intros OK *. apply (hTl_len _ _ OK). Qed.

  Lemma xmssNodeS_length : hashes_ok P HS -> forall z l t sk pk i, length (xmssNodeS P HS l t sk pk z i) = n.
  Proof. intros OK z; destruct z; intros; simpl; [apply wotsPkGenS_length; auto|apply (hH_len _ _ OK)]. Qed.

  Lemma xmssSignS_length : hashes_ok P HS -> forall l t msg sk idx pk,
    length (xmssSignS P HS l t msg sk idx pk) = ((p_hp P + p_len P) * n)%nat.
  Proof.
    intros OK *. unfold xmssSignS. rewrite app_length, wotsSignS_length by auto.
    rewrite (flat_map_seq_length _ 0 (p_hp P) n) by (intros; apply xmssNodeS_length; auto). lia.
  Qed.

  (* ---------- XMSS completeness ---------- *)
  Theorem xmssS_complete : hashes_ok P HS -> forall l t msg sk idx pk,
    xmssPkFromSigS P HS l t idx (xmssSignS P HS l t msg sk idx pk) msg pk
    = xmssNodeS P HS l t sk pk (p_hp P) (N.shiftr idx (N.of_nat (p_hp P))).
  Proof.
    intros OK l t msg sk idx pk. unfold xmssPkFromSigS, xmssSignS.
    rewrite firstn_app_exact, skipn_app_exact by (rewrite wotsSignS_length; auto).
    rewrite wotsS_complete by (auto; apply wotsChecksum_digit).
    pose proof (climbS_node P HS (fun h i => mkA l t T_TREE 0 h i) (xmssNodeS P HS l t sk pk) pk (p_hp P) idx idx
                  (flat_map (fun j => xmssNodeS P HS l t sk pk j (N.lxor (N.shiftr idx (N.of_nat j)) 1))
                            (seq 0 (p_hp P)))) as C.
    specialize (C ltac:(intros; reflexivity)).
    assert (Hauth : forall j, (j < p_hp P)%nat ->
              chunk P j (flat_map (fun j => xmssNodeS P HS l t sk pk j (N.lxor (N.shiftr idx (N.of_nat j)) 1))
                                  (seq 0 (p_hp P)))
              = xmssNodeS P HS l t sk pk j (N.lxor (N.shiftr idx (N.of_nat j)) 1)).
    { intros j Hj. unfold chunk. rewrite <- (app_nil_r (flat_map _ _)).
      rewrite chunk_flat_map_seq; [reflexivity| |lia]. intros; apply xmssNodeS_length; auto. }
    specialize (C Hauth ltac:(intros; reflexivity) (p_hp P) 0%nat ltac:(lia)).
    exact C.
  Qed.

  Lemma shiftr_small idx h : idx < 2 ^ h -> N.shiftr idx h = 0.
  Proof. intros H. rewrite N.shiftr_div_pow2. apply N.div_small. exact H. Qed.

  (* as coded: the signature xmssSign makes for leaf idx leads xmssPkFromSig
     to the node xmssNode computes at height hp — the tree root for idx < 2^hp —
     whatever addresses (of the same layer and tree) the three calls start from *)
  Theorem xmss_complete : hashes_ok P HS -> forall msg sk idx pk ad ad1 ad2,
    eqlt ad1 ad -> eqlt ad2 ad -> idx < 2 ^ N.of_nat (p_hp P) ->
    fst (xmssPkFromSig P HS idx (fst (xmssSign P HS msg sk idx pk ad)) msg pk ad1)
    = fst (xmssNode P HS (p_hp P) sk 0 pk ad2).
  Proof.
    intros OK msg sk idx pk ad ad1 ad2 [a a'] [b b'] Hidx.
    rewrite (proj1 (xmssPkFromSig_spec _ _ _ _ _)), (proj1 (xmssSign_spec _ _ _ _ _)), (proj1 (xmssNode_spec _ _ _ _ _)).
    rewrite a, a', b, b', xmssS_complete, shiftr_small by auto. reflexivity.
  Qed.
End XMSS.
