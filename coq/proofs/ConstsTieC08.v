(* Ties between the constants REGENERATED from the Go source (gen/RepoConsts.v)
   and the hand-written constants the C08 model is stated over.  A source edit that
   changes a minimum or limit changes the regenerated definition and one of these
   lemmas stops checking. *)
From Coq Require Import NArith ZArith List String.
From Tink Require Import RepoConsts Kwp.
Open Scope N_scope.

Lemma consts_all_translated : consts_untranslatable = nil.
Proof. reflexivity. Qed.

(* C08: KWP size limits *)
Lemma tie_kwp_max_wrap : gen_kwp_max_wrap = Kwp.MaxWrapSize. Proof. reflexivity. Qed.

Lemma tie_kwp_min_wrap : gen_kwp_min_wrap = Kwp.MinWrapSize. Proof. reflexivity. Qed.
