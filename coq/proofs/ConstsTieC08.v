(* Ties between the constants REGENERATED from the Go source (gen/RepoConsts.v)
   and the hand-written constants the C08 model is stated over.  A source edit that
   changes a minimum or limit changes the regenerated definition and one of these
   lemmas stops checking. *)
From Coq Require Import NArith ZArith List String.
From Tink Require Import RepoConsts Kwp.
Open Scope N_scope.

(* every regenerated constant this file needs is named in a lemma below: if the translator
   cannot find one in the source its definition is missing and that lemma stops checking;
   constants of other properties do not matter here *)

(* C08: KWP size limits *)
Lemma tie_kwp_max_wrap : gen_kwp_max_wrap = Kwp.MaxWrapSize. Proof. reflexivity. Qed.

Lemma tie_kwp_min_wrap : gen_kwp_min_wrap = Kwp.MinWrapSize. Proof. reflexivity. Qed.
