(* C14 — the functions that contain a panic site, written as FUNCTIONALS of a
   GUARD SWITCH and of the panicking operation, for the coverage column of the
   table of panic sites (model/UntrustedPanicSites.v: CModel op F necessary f
   same pf, CLemma raw F necessary pf).  For each functional G:
     G true op    the function with the test(s) the Go code puts in front of the
                  expression; G false op the same statements with those tests
                  deleted (a test `if c { return error }` becomes `if g && c`)
     G_same       G true over the real operation IS the function of the model
                  (by reflexivity: it is that body with the operation and the
                  switch abstracted)
     G_necessary  with the tests deleted the REAL operation panics on some input
                  of the function: the guard is needed, and the input reaches
                  the operation
     G_np         with the tests in place the function never panics *)
From Coq Require Import String List NArith ZArith Bool Lia.
From Tink Require Import Bytes UntrustedConsts Untrusted UntrustedSpec UntrustedProofs.
From Tink Require Import UntrustedSites UntrustedSitesProofs UntrustedParams UntrustedParamsProofs.
Import ListNotations.
Open Scope list_scope.


(* ------------------------------------------------------------------ *)
(* operations of the model, uncurried                                  *)
(* ------------------------------------------------------------------ *)
Definition slice3 (q : nat * nat * bytes) : outcome bytes := slice (fst (fst q)) (snd (fst q)) (snd q).
Definition encode_point3 (q : bytes * bytes * nat) : outcome bytes := encode_point (fst (fst q)) (snd (fst q)) (snd q).
Definition from_seed2 (q : stdlib * bytes) : outcome bytes := ed25519_from_seed (fst q) (snd q).


Definition std_none : stdlib :=
  mkStd (fun _ _ => false) (fun _ _ => None) (fun _ => []) (fun _ _ => None) (fun _ _ => [])
        (fun _ _ _ _ _ => None) (fun _ _ _ _ _ _ _ _ => false) (fun _ _ => []).
(* accepts every point; the Ed25519 public key of a seed is the seed (to exhibit accepted keys) *)
Definition std_yes : stdlib :=
  mkStd (fun _ _ => true) (fun _ _ => None) (fun seed => seed) (fun _ _ => None) (fun _ _ => [])
        (fun _ _ _ _ _ => None) (fun _ _ _ _ _ _ _ _ => false) (fun _ _ => []).


Section ModelFunctionals.
Open Scope N_scope.

(* ---- signature/ecdsa newPublicKeyFromProto: encodePoint(x, y, c) ---- *)
(* guard: both coordinates go through BigIntBytesToFixedSizeBuffer(., c) - exactly c bytes each *)
Definition ecdsa_pub_of_F (g : bool) (ep : bytes * bytes * nat -> outcome bytes) (a : stdlib * list field * N * N)
  : outcome (N * N * N * bytes) :=
  let L := fst (fst (fst a)) in
  let fs := snd (fst (fst a)) in
  let prefix := snd (fst a) in
  let idreq := snd a in
  let params := get_sub 2 fs in
  let hash := get_u32 1 params in
  let curve := get_u32 2 params in
  let enc := get_u32 3 params in
  if negb (get_u32 1 fs =? 0) then Err
  else if negb (ecdsa_params_ok curve hash enc prefix) then Err
  else match coord_size curve with
       | None => Err
       | Some c =>
           bind (if g then fixed_size (get_len 3 fs) c else Ok (get_len 3 fs)) (fun x =>
           bind (if g then fixed_size (get_len 4 fs) c else Ok (get_len 4 fs)) (fun y =>
           bind (ep (x, y, c)) (fun pt =>
           if negb (negb (prefix =? pt_raw) || (idreq =? 0)) then Err
           else if ec_point_ok L curve pt then Ok (curve, hash, enc, pt) else Err)))
       end.
Definition ecdsa_pub_of4 (a : stdlib * list field * N * N) :=
  ecdsa_pub_of (fst (fst (fst a))) (snd (fst (fst a))) (snd (fst a)) (snd a).

Lemma ecdsa_pub_of_F_same a : ecdsa_pub_of_F true encode_point3 a = ecdsa_pub_of4 a.
Proof. reflexivity. Qed.
(* a 40-byte x coordinate for P-256, not normalised: encodePoint's xStartPos is negative *)
Lemma ecdsa_pub_of_F_necessary : exists a, ecdsa_pub_of_F false encode_point3 a = Panic.
Proof.
  exists (std_none, [(2, FLen [8; 3; 16; 2; 24; 2]); (3, FLen (repeat 1 40%nat)); (4, FLen (repeat 1 32%nat))], 1, 0).
  vm_compute. reflexivity.
Qed.
Lemma ecdsa_pub_of4_np a : ecdsa_pub_of4 a <> Panic.
Proof. apply ecdsa_pub_of_np. Qed.

(* ---- signature/ed25519 NewPrivateKeyWithPublicKey: ed25519.NewKeyFromSeed(seed) ---- *)
(* guard: if privateKeyBytes.Len() != 32 { return error } *)
Definition parse_ed25519_priv_F (g : bool) (fromseed : stdlib * bytes -> outcome bytes) (a : stdlib * keydata * N * N) : outcome pkd :=
  let L := fst (fst (fst a)) in
  let kd := snd (fst (fst a)) in
  let prefix := snd (fst a) in
  let idreq := snd a in
  let v := kd_value kd in
  let fs := fields_or_nil v in
  if negb (kd_mat kd =? km_private) then Err else
  if negb (wire_ok sch_params3 v) then Err else
  let pub := get_sub 3 fs in
  let seed := get_len 2 fs in
  if negb ((get_u32 1 fs =? 0) && (get_u32 1 pub =? 0) && variant_ok prefix idreq
           && (blen (get_len 2 pub) =? ed25519_pub_size)) then Err
  else if g && negb (blen seed =? ed25519_seed_size) then Err
  else bind (fromseed (L, seed)) (fun pk =>
       if beq pk (get_len 2 pub) then Ok (PEd25519Priv seed) else Err).
Definition parse_ed25519_priv4 (a : stdlib * keydata * N * N) :=
  parse_ed25519_priv (fst (fst (fst a))) (snd (fst (fst a))) (snd (fst a)) (snd a).

Definition ed_kd (seed pub : bytes) : keydata :=
  mkKD u_ed25519_priv ([18; blen seed] ++ seed ++ [26; 34; 18; 32] ++ pub) km_private.

Lemma parse_ed25519_priv_F_same a : parse_ed25519_priv_F true from_seed2 a = parse_ed25519_priv4 a.
Proof. reflexivity. Qed.
(* a 31-byte seed: ed25519.NewKeyFromSeed panics *)
Lemma parse_ed25519_priv_F_necessary : exists a, parse_ed25519_priv_F false from_seed2 a = Panic.
Proof. exists (std_none, ed_kd (repeat 9 31%nat) (repeat 9 32%nat), 1, 5). vm_compute. reflexivity. Qed.
Lemma parse_ed25519_priv4_np a : parse_ed25519_priv4 a <> Panic.
Proof. apply parse_ed25519_priv_np. Qed.

(* ---- signature/ed25519 NewSigner: NewKeyFromSeed on the seed of a parsed key ---- *)
(* guard: a *PrivateKey exists only through the parser / constructors, which checked the seed length;
   guard off: a key object holding the key data's bytes as seed, unchecked *)
Definition ed25519_signer_F (g : bool) (fromseed : stdlib * bytes -> outcome bytes) (a : stdlib * keydata * N * N) : outcome bool :=
  let L := fst (fst (fst a)) in
  bind (if g then parse_ed25519_priv L (snd (fst (fst a))) (snd (fst a)) (snd a)
        else Ok (PEd25519Priv (kd_value (snd (fst (fst a)))))) (fun d =>
    match d with
    | PEd25519Priv seed => bind (fromseed (L, seed)) (fun _ => Ok true)
    | d' => prim_ok L d'
    end).
Definition ed25519_signer4 (a : stdlib * keydata * N * N) : outcome bool :=
  bind (parse_ed25519_priv (fst (fst (fst a))) (snd (fst (fst a))) (snd (fst a)) (snd a)) (prim_ok (fst (fst (fst a)))).

Lemma ed25519_signer_F_same a : ed25519_signer_F true from_seed2 a = ed25519_signer4 a.
Proof.
  unfold ed25519_signer_F, ed25519_signer4. cbv zeta.
  destruct (parse_ed25519_priv _ _ _ _) as [d| |]; cbn [bind]; try reflexivity. destruct d; reflexivity.
Qed.
Lemma ed25519_signer_F_necessary : exists a, ed25519_signer_F false from_seed2 a = Panic.
Proof. exists (std_none, mkKD [] [1; 2; 3] 0, 1, 5). vm_compute. reflexivity. Qed.
Lemma ed25519_signer4_np a : ed25519_signer4 a <> Panic.
Proof.
  unfold ed25519_signer4. destruct (parse_ed25519_priv _ _ _ _) as [d| |] eqn:E; cbn [bind]; try discriminate.
  - apply prim_ok_np. eapply parse_ed25519_priv_point. exact E.
  - exfalso. eapply parse_ed25519_priv_np. exact E.
Qed.

(* ---- signature/ecdsa NewSigner / NewVerifier (and the JWT ECDSA forms): publicPoint[1:], xy[:n/2], xy[n/2:] ---- *)
(* guard: NewPublicKey validated the point (crypto/ecdh: 1 + 2c bytes); guard off: a key object
   holding the key data's bytes as point, unchecked *)
Definition ecdsa_prim_F (g : bool) (slices : bytes -> outcome bool) (a : stdlib * keydata * N * N) : outcome bool :=
  let L := fst (fst (fst a)) in
  bind (if g then parse_key L (snd (fst (fst a))) (snd (fst a)) (snd a)
        else Ok (PEcdsaPub 0 0 0 (kd_value (snd (fst (fst a)))))) (fun d =>
    match d with
    | PEcdsaPub _ _ _ pt | PEcdsaPriv _ _ _ pt _ | PJwtEcdsa _ _ pt => slices pt
    | d' => prim_ok L d'
    end).
Definition parse_then_prim4 (a : stdlib * keydata * N * N) : outcome bool :=
  bind (parse_key (fst (fst (fst a))) (snd (fst (fst a))) (snd (fst a)) (snd a)) (prim_ok (fst (fst (fst a)))).

Lemma ecdsa_prim_F_same a : ecdsa_prim_F true ecdsa_point_slices a = parse_then_prim4 a.
Proof.
  unfold ecdsa_prim_F, parse_then_prim4. cbv zeta.
  destruct (parse_key _ _ _ _) as [d| |]; cbn [bind]; try reflexivity. destruct d; reflexivity.
Qed.
Lemma ecdsa_prim_F_necessary : exists a, ecdsa_prim_F false ecdsa_point_slices a = Panic.
Proof. exists (std_none, mkKD [] [] 0, 1, 5). vm_compute. reflexivity. Qed.
Lemma parse_then_prim4_np a : parse_then_prim4 a <> Panic.
Proof.
  unfold parse_then_prim4. destruct (parse_key _ _ _ _) as [d| |] eqn:E; cbn [bind]; try discriminate.
  - eapply parse_then_prim_np. exact E.
  - exfalso. eapply parse_key_np. exact E.
Qed.

(* ---- internal/signature/slhdsa DecodeSecretKey: skEnc[2n:3n], skEnc[3n:4n] ---- *)
(* guard: checkPrivateKeyLengthForParameters / if len(skEnc) != p.SecretKeyLength() { return error } *)
Definition parse_slhdsa_priv_F (g : bool) (sl : nat * nat * bytes -> outcome bytes) (a : keydata * N * N) : outcome pkd :=
  let kd := fst (fst a) in
  let prefix := snd (fst a) in
  let idreq := snd a in
  let v := kd_value kd in
  let fs := fields_or_nil v in
  if negb (kd_mat kd =? km_private) then Err else
  if negb (wire_ok sch_slhdsa_priv v) then Err else
  if negb (get_u32 1 fs =? 0) then Err else
  match slhdsa_pub_of (get_sub 3 fs) prefix idreq with
  | None => Err
  | Some ks =>
      let sk := get_len 2 fs in
      if g && negb (blen sk =? ks) then Err
      else
        let n := N.to_nat (ks / 4) in
        bind (sl ((2 * n)%nat, (3 * n)%nat, sk)) (fun pk_seed =>
        bind (sl ((3 * n)%nat, (4 * n)%nat, sk)) (fun pk_root =>
        if beq (pk_seed ++ pk_root) (get_len 2 (get_sub 3 fs)) then Ok (PSlhDsa true) else Err))
  end.
Definition parse_slhdsa_priv3 (a : keydata * N * N) := parse_slhdsa_priv (fst (fst a)) (snd (fst a)) (snd a).

Lemma parse_slhdsa_priv_F_same a : parse_slhdsa_priv_F true slice3 a = parse_slhdsa_priv3 a.
Proof. reflexivity. Qed.
(* a 10-byte private key with parameters that want 64: skEnc[2n:3n] is out of range *)
Definition slh_kd : keydata :=
  mkKD u_slhdsa_priv ([18; 10] ++ repeat 3 10%nat ++ [26; 42; 18; 32] ++ repeat 3 32%nat ++ [26; 6; 8; 64; 16; 1; 24; 1]) km_private.
Lemma parse_slhdsa_priv_F_necessary : exists a, parse_slhdsa_priv_F false slice3 a = Panic.
Proof. exists (slh_kd, 1, 5). vm_compute. reflexivity. Qed.
Lemma parse_slhdsa_priv3_np a : parse_slhdsa_priv3 a <> Panic.
Proof. apply parse_slhdsa_priv_np. Qed.

(* ---- hybrid/ecies parseParameters: demTemplate.OutputPrefixType = RAW on the cloned AEAD DEM template ---- *)
(* guard: if protoParams.GetDemParams().GetAeadDem() == nil { return error } *)
Definition ecies_params_F (g : bool) (spr : option template -> outcome template) (a : list field * N) : outcome params :=
  let ps := fst a in
  let prefix := snd a in
  let kem := get_sub 1 ps in
  let curve := get_u32 1 kem in
  let hash := get_u32 2 kem in
  let fmt := get_u32 3 ps in
  if negb (ecies_curve_ok curve && is_some (digest_size hash) && is_some (aead_variant prefix)
           && ecies_format_ok fmt) then Err
  else if negb (has_sub 2 ps) then Err
  else if g && negb (is_some (aead_dem_ptr ps)) then Err
  else
    bind (spr (aead_dem_ptr ps)) (fun tm =>
    bind (parse_params_full tm) (fun dp =>
    if (curve =? c_x25519) && negb (fmt =? pf_compressed) then Err
    else match dem_code dp, aead_variant prefix with
         | Some dem, Some var =>
             Ok (QEcies curve hash (if curve =? c_x25519 then pf_unspecified else fmt) dem var (get_len 11 kem))
         | _, _ => Err
         end)).
Definition ecies_params2 (a : list field * N) : outcome params := ecies_params_of parse_params_full (fst a) (snd a).

Lemma ecies_params_F_same a : ecies_params_F true set_prefix_raw a = ecies_params2 a.
Proof. reflexivity. Qed.
(* DEM params present, AEAD DEM template absent: the assignment goes through a nil pointer *)
Lemma ecies_params_F_necessary : exists a, ecies_params_F false set_prefix_raw a = Panic.
Proof. exists ([(1, FLen [8; 2; 16; 3]); (2, FLen []); (3, FVar 1)], 1). vm_compute. reflexivity. Qed.
Lemma ecies_params2_np a : ecies_params2 a <> Panic.
Proof. apply ecies_params_of_np. exact parse_params_full_np. Qed.

End ModelFunctionals.

(* ------------------------------------------------------------------ *)
(* as-written bodies (model/UntrustedSites.v) over the raw operations  *)
(* ------------------------------------------------------------------ *)
Section AsWritten.
Open Scope Z_scope.

Definition make2 (p : Z * Z) : outcome bytes := make_z (fst p) (snd p).
Definition index2 (p : bytes * Z) : outcome N := index_z (fst p) (snd p).
Definition slice3z (p : bytes * Z * Z) : outcome bytes := slice_z (fst (fst p)) (snd (fst p)) (snd p).


(* ---- internal/ec/ec.go BigIntBytesToFixedSizeBuffer ---- *)
Fixpoint strip_loop_F (ix : bytes * Z -> outcome N) (fuel : nat) (b : bytes) (i limit : Z) : outcome bool :=
  match fuel with
  | O => Ok true
  | S f =>
      if i <? limit then
        bind (ix (b, i)) (fun x => if (x =? 0)%N then strip_loop_F ix f b (i + 1) limit else Ok false)
      else Ok true
  end.

(* gm: the test in front of make (len < size); gs: the tests in front of the final slice (len == size returns,
   len < size pads: the slice is reached only when len > size) *)
Definition fixed_size_go_F (gm gs : bool) (mk : Z * Z -> outcome bytes) (ix : bytes * Z -> outcome N) (sl : bytes * Z * Z -> outcome bytes)
           (b : bytes) (size : Z) : outcome bytes :=
  if gs && (zlen b =? size) then Ok b
  else if (gs && (zlen b <? size)) || (negb gm && negb (zlen b <? size)) then
    bind (mk (size - zlen b, size)) (fun buf => Ok (buf ++ b))
  else
    bind (strip_loop_F ix (length b) b 0 (zlen b - size)) (fun allzero =>
      if allzero then sl (b, zlen b - size, zlen b) else Err).

Lemma strip_loop_F_same fuel : forall b i limit, strip_loop_F index2 fuel b i limit = strip_loop fuel b i limit.
Proof.
  induction fuel as [|f IH]; intros b i limit; cbn [strip_loop_F strip_loop]; [reflexivity|].
  destruct (i <? limit); [|reflexivity]. unfold index2. cbn [fst snd].
  destruct (index_z b i) as [x| |]; cbn [bind]; try reflexivity. destruct (x =? 0)%N; [apply IH|reflexivity].
Qed.

Lemma fixed_size_go_F_same b size : fixed_size_go_F true true make2 index2 slice3z b size = fixed_size_go b size.
Proof.
  unfold fixed_size_go_F, fixed_size_go. rewrite strip_loop_F_same. cbn [andb negb orb].
  destruct (zlen b =? size); [reflexivity|]. rewrite orb_false_r. reflexivity.
Qed.

(* the caller passes a coordinate size: a non-negative constant (nat here) *)
Definition bigint_make_F (g : bool) (mk : Z * Z -> outcome bytes) (a : bytes * nat) : outcome bytes :=
  fixed_size_go_F g true mk index2 slice3z (fst a) (Z.of_nat (snd a)).
Definition bigint_slice_F (g : bool) (sl : bytes * Z * Z -> outcome bytes) (a : bytes * nat) : outcome bytes :=
  fixed_size_go_F true g make2 index2 sl (fst a) (Z.of_nat (snd a)).

(* two bytes for size 1 and no test: make([]byte, -1, 1) *)
Lemma bigint_make_F_necessary : exists a, bigint_make_F false make2 a = Panic.
Proof. exists ([1; 2]%N, 1%nat). reflexivity. Qed.
(* one byte for size 2 and no tests: bigIntBytes[-1:] *)
Lemma bigint_slice_F_necessary : exists a, bigint_slice_F false slice3z a = Panic.
Proof. exists ([1]%N, 2%nat). reflexivity. Qed.
Lemma bigint_make_F_np a : bigint_make_F true make2 a <> Panic.
Proof. unfold bigint_make_F. rewrite fixed_size_go_F_same. apply fixed_size_go_np. lia. Qed.
Lemma bigint_slice_F_np a : bigint_slice_F true slice3z a <> Panic.
Proof. unfold bigint_slice_F. rewrite fixed_size_go_F_same. apply fixed_size_go_np. lia. Qed.

(* ---- signature/ecdsa/protoserialization.go: two BigIntBytesToFixedSizeBuffer(., c), then encodePoint ---- *)
Definition encode_point_go_F (mk : Z * Z -> outcome bytes) (ix : bytes * Z -> outcome N) (sl : bytes * Z * Z -> outcome bytes)
           (x y : bytes) (c : Z) : outcome bytes :=
  bind (mk (1 + 2 * c, 1 + 2 * c)) (fun buf =>
  bind (ix (buf, 0)) (fun _ =>
  let xs := 1 + c - zlen x in
  bind (sl (buf, xs, zlen buf)) (fun _ =>
  let ys := 1 + c + c - zlen y in
  bind (sl (buf, ys, zlen buf)) (fun _ =>
  Ok (4%N :: zeros (Z.to_nat (c - zlen x)) ++ x ++ zeros (Z.to_nat (c - zlen y)) ++ y))))).

Lemma encode_point_go_F_same x y c : encode_point_go_F make2 index2 slice3z x y c = encode_point_go x y c.
Proof. reflexivity. Qed.

(* guard: x and y are results of BigIntBytesToFixedSizeBuffer(., c) *)
Definition new_point_slice_F (g : bool) (sl : bytes * Z * Z -> outcome bytes) (a : bytes * bytes * nat) : outcome bytes :=
  let c := Z.of_nat (snd a) in
  bind (if g then fixed_size_go (fst (fst a)) c else Ok (fst (fst a))) (fun x =>
  bind (if g then fixed_size_go (snd (fst a)) c else Ok (snd (fst a))) (fun y =>
  encode_point_go_F make2 index2 sl x y c)).

(* a 3-byte x for c = 1: encodedPoint[1+1-3:] *)
Lemma new_point_slice_F_necessary : exists a, new_point_slice_F false slice3z a = Panic.
Proof. exists ([1; 2; 3]%N, [1]%N, 1%nat). reflexivity. Qed.
Lemma new_point_slice_F_np a : new_point_slice_F true slice3z a <> Panic.
Proof.
  unfold new_point_slice_F. cbv zeta.
  destruct (fixed_size_go (fst (fst a)) (Z.of_nat (snd a))) as [x| |] eqn:X; cbn [bind]; try discriminate.
  2:{ exfalso. eapply fixed_size_go_np; [|exact X]. lia. }
  destruct (fixed_size_go (snd (fst a)) (Z.of_nat (snd a))) as [y| |] eqn:Y; cbn [bind]; try discriminate.
  2:{ exfalso. eapply fixed_size_go_np; [|exact Y]. lia. }
  rewrite encode_point_go_F_same. rewrite (encode_point_after_fixed_size_np _ _ _ _ _ X Y). discriminate.
Qed.

(* ---- serializers: if len(publicPoint) != 2*coordinateSize+1 { error }; publicPoint[0]; publicPoint[1:], xy[:c], xy[c:] ---- *)
Definition serializer_first_byte_F (g : bool) (ix : bytes * Z -> outcome N) (a : bytes * nat) : outcome N :=
  let pt := fst a in
  let c := Z.of_nat (snd a) in
  if g && negb (zlen pt =? 2 * c + 1) then Err else ix (pt, 0).

Definition point_coords_go_F (sl : bytes * Z * Z -> outcome bytes) (pt : bytes) (c : Z) : outcome (bytes * bytes) :=
  bind (sl (pt, 1, zlen pt)) (fun xy =>
  bind (sl (xy, 0, c)) (fun x => bind (sl (xy, c, zlen xy)) (fun y => Ok (x, y)))).
Definition serializer_coords_F (g : bool) (sl : bytes * Z * Z -> outcome bytes) (a : bytes * nat) : outcome (bytes * bytes) :=
  let pt := fst a in
  let c := Z.of_nat (snd a) in
  if g && negb (zlen pt =? 2 * c + 1) then Err else point_coords_go_F sl pt c.

(* the empty point *)
Lemma serializer_first_byte_F_necessary : exists a, serializer_first_byte_F false index2 a = Panic.
Proof. exists ([], 1%nat). reflexivity. Qed.
Lemma serializer_coords_F_necessary : exists a, serializer_coords_F false slice3z a = Panic.
Proof. exists ([], 1%nat). reflexivity. Qed.
Lemma serializer_first_byte_F_np a : serializer_first_byte_F true index2 a <> Panic.
Proof.
  unfold serializer_first_byte_F. cbv zeta. cbn [andb]. destruct (zlen (fst a) =? 2 * Z.of_nat (snd a) + 1) eqn:E; cbn [negb]; [|discriminate].
  apply Z.eqb_eq in E. apply (first_byte_np _ (Z.of_nat (snd a))); [lia|exact E].
Qed.
Lemma serializer_coords_F_np a : serializer_coords_F true slice3z a <> Panic.
Proof.
  unfold serializer_coords_F. cbv zeta. cbn [andb]. destruct (zlen (fst a) =? 2 * Z.of_nat (snd a) + 1) eqn:E; cbn [negb]; [|discriminate].
  apply Z.eqb_eq in E. change (point_coords_go (fst a) (Z.of_nat (snd a)) <> Panic). apply point_coords_go_np; lia.
Qed.

(* ---- internal/signature/slhdsa DecodePublicKey: if len(pkEnc) != 2n { error }; pkEnc[0:n], pkEnc[n:2n] ---- *)
Definition slh_decode_pk_F (g : bool) (sl : bytes * Z * Z -> outcome bytes) (a : nat * bytes) : outcome (bytes * bytes) :=
  let n := Z.of_nat (fst a) in
  let pk := snd a in
  if g && negb (zlen pk =? 2 * n) then Err
  else bind (sl (pk, 0, n)) (fun seed => bind (sl (pk, n, 2 * n)) (fun root => Ok (seed, root))).

Lemma slh_decode_pk_F_necessary : exists a, slh_decode_pk_F false slice3z a = Panic.
Proof. exists (1%nat, []). reflexivity. Qed.
Lemma slh_decode_pk_F_np a : slh_decode_pk_F true slice3z a <> Panic.
Proof.
  change (slh_decode_pk_go (Z.of_nat (fst a)) (snd a) <> Panic). apply slh_decode_go_np. lia.
Qed.

(* ---- keyset/handle.go Handle.Entry: if i < 0 || i >= h.Len() { error }; h.entries[i] ---- *)
Definition entry_raw2 (p : list unit * Z) : outcome unit := entry_raw (fst p) (snd p).
Definition entry_F (g : bool) (ix : list unit * Z -> outcome unit) (a : list unit * Z) : outcome unit :=
  if g && ((snd a <? 0) || (Z.of_nat (length (fst a)) <=? snd a)) then Err else ix a.

(* Entry(0) on an empty handle, Entry(-1) *)
Lemma entry_F_necessary : exists a, entry_F false entry_raw2 a = Panic.
Proof. exists ([], 0). reflexivity. Qed.
Lemma entry_F_np a : entry_F true entry_raw2 a <> Panic.
Proof.
  unfold entry_F. cbn [andb]. destruct ((snd a <? 0) || (Z.of_nat (length (fst a)) <=? snd a)) eqn:E; [discriminate|].
  apply orb_false_iff in E. destruct E as [E1 E2]. apply Z.ltb_ge in E1. apply Z.leb_gt in E2.
  apply entry_raw_np. lia.
Qed.

End AsWritten.
