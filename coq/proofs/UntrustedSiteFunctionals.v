(* C14 — the functions that contain a panic site, written as FUNCTIONALS of the
   panicking operation, for the coverage column of the table of panic sites
   (model/UntrustedPanicSites.v: CModel op w F reach f same pf, CLemma raw w F
   reach pf).  For each functional F:
     F_same   F over the real operation IS the function of the model / the
              as-written body of model/UntrustedSites.v (mostly by reflexivity:
              F is that body with the operation abstracted)
     F_reach  with an always-panicking operation in its place, F panics on
              some input: the operation is really reached
     F_np     over the real operation F never panics *)
From Coq Require Import String List NArith ZArith Bool Lia.
From Tink Require Import Bytes UntrustedConsts Untrusted UntrustedSpec UntrustedProofs.
From Tink Require Import UntrustedSites UntrustedSitesProofs UntrustedParams UntrustedParamsProofs.
Import ListNotations.
Open Scope list_scope.

Definition always_panic {X Y} : X -> outcome Y := fun _ => Panic.

(* ------------------------------------------------------------------ *)
(* operations of the model, uncurried                                  *)
(* ------------------------------------------------------------------ *)
Definition slice3 (q : nat * nat * bytes) : outcome bytes := slice (fst (fst q)) (snd (fst q)) (snd q).
Definition encode_point3 (q : bytes * bytes * nat) : outcome bytes := encode_point (fst (fst q)) (snd (fst q)) (snd q).
Definition from_seed2 (q : stdlib * bytes) : outcome bytes := ed25519_from_seed (fst q) (snd q).

Lemma slice3_panics : exists q, slice3 q = Panic.
Proof. exists (1%nat, 0%nat, []). reflexivity. Qed.
Lemma encode_point3_panics : exists q, encode_point3 q = Panic.
Proof. exists ([1; 2; 3; 4]%N, [5%N], 2%nat). reflexivity. Qed.

Definition std_none : stdlib :=
  mkStd (fun _ _ => false) (fun _ _ => None) (fun _ => []) (fun _ _ => None) (fun _ _ => [])
        (fun _ _ _ _ _ => None) (fun _ _ _ _ _ _ _ _ => false) (fun _ _ => []).
(* accepts every point; the Ed25519 public key of a seed is the seed (to exhibit accepted keys) *)
Definition std_yes : stdlib :=
  mkStd (fun _ _ => true) (fun _ _ => None) (fun seed => seed) (fun _ _ => None) (fun _ _ => [])
        (fun _ _ _ _ _ => None) (fun _ _ _ _ _ _ _ _ => false) (fun _ _ => []).

Lemma from_seed2_panics : exists q, from_seed2 q = Panic.
Proof. exists (std_none, []). reflexivity. Qed.
Lemma ecdsa_point_slices_panics : exists pt, ecdsa_point_slices pt = Panic.
Proof. exists []. reflexivity. Qed.
Lemma set_prefix_raw_panics : exists o, set_prefix_raw o = Panic.
Proof. exists None. reflexivity. Qed.

Section ModelFunctionals.
Open Scope N_scope.

(* ---- internal/ec BigIntBytesToFixedSizeBuffer: bigIntBytes[len-size:] ---- *)
Definition fixed_size_F (sl : nat * nat * bytes -> outcome bytes) (p : bytes * nat) : outcome bytes :=
  let b := fst p in
  let size := snd p in
  if Nat.eqb (length b) size then Ok b
  else if Nat.ltb (length b) size then Ok (zeros (size - length b) ++ b)
  else if all_zero (firstn (length b - size) b)
       then sl ((length b - size)%nat, length b, b)
       else Err.
Definition fixed_size2 (p : bytes * nat) : outcome bytes := fixed_size (fst p) (snd p).

Lemma fixed_size_F_same p : fixed_size_F slice3 p = fixed_size2 p.
Proof. reflexivity. Qed.
Lemma fixed_size_F_reach : exists p, fixed_size_F always_panic p = Panic.
Proof. exists ([0; 1], 1%nat). reflexivity. Qed.
Lemma fixed_size2_np p : fixed_size2 p <> Panic.
Proof. apply fixed_size_np. Qed.

(* ---- signature/ecdsa newPublicKeyFromProto: encodePoint(x, y, c) ---- *)
Definition ecdsa_pub_of_F (ep : bytes * bytes * nat -> outcome bytes) (a : stdlib * list field * N * N)
  : outcome (N * N * N * bytes) :=
  let L := fst (fst (fst a)) in
  let fs := snd (fst (fst a)) in
  let prefix := snd (fst a) in
  let idreq := snd a in
  let params := get_sub 2 fs in
  let hash := get_u32 1 params in
  let curve := get_u32 2 params in
  let enc := get_u32 3 params in
  if negb (get_u32 1 fs =? 0) then Err
  else if negb (ecdsa_params_ok curve hash enc prefix) then Err
  else match coord_size curve with
       | None => Err
       | Some c =>
           bind (fixed_size (get_len 3 fs) c) (fun x =>
           bind (fixed_size (get_len 4 fs) c) (fun y =>
           bind (ep (x, y, c)) (fun pt =>
           if negb (negb (prefix =? pt_raw) || (idreq =? 0)) then Err
           else if ec_point_ok L curve pt then Ok (curve, hash, enc, pt) else Err)))
       end.
Definition ecdsa_pub_of4 (a : stdlib * list field * N * N) :=
  ecdsa_pub_of (fst (fst (fst a))) (snd (fst (fst a))) (snd (fst a)) (snd a).

Lemma ecdsa_pub_of_F_same a : ecdsa_pub_of_F encode_point3 a = ecdsa_pub_of4 a.
Proof. reflexivity. Qed.
Lemma ecdsa_pub_of_F_reach : exists a, ecdsa_pub_of_F always_panic a = Panic.
Proof.
  exists (std_none, [(2, FLen [8; 3; 16; 2; 24; 2]); (3, FLen (repeat 1 32%nat)); (4, FLen (repeat 1 32%nat))], 1, 0).
  vm_compute. reflexivity.
Qed.
Lemma ecdsa_pub_of4_np a : ecdsa_pub_of4 a <> Panic.
Proof. apply ecdsa_pub_of_np. Qed.

(* ---- signature/ed25519 NewPrivateKeyWithPublicKey: ed25519.NewKeyFromSeed(seed) ---- *)
Definition parse_ed25519_priv_F (fromseed : stdlib * bytes -> outcome bytes) (a : stdlib * keydata * N * N) : outcome pkd :=
  let L := fst (fst (fst a)) in
  let kd := snd (fst (fst a)) in
  let prefix := snd (fst a) in
  let idreq := snd a in
  let v := kd_value kd in
  let fs := fields_or_nil v in
  if negb (kd_mat kd =? km_private) then Err else
  if negb (wire_ok sch_params3 v) then Err else
  let pub := get_sub 3 fs in
  let seed := get_len 2 fs in
  if negb ((get_u32 1 fs =? 0) && (get_u32 1 pub =? 0) && variant_ok prefix idreq
           && (blen (get_len 2 pub) =? ed25519_pub_size)) then Err
  else if negb (blen seed =? ed25519_seed_size) then Err
  else bind (fromseed (L, seed)) (fun pk =>
       if beq pk (get_len 2 pub) then Ok (PEd25519Priv seed) else Err).
Definition parse_ed25519_priv4 (a : stdlib * keydata * N * N) :=
  parse_ed25519_priv (fst (fst (fst a))) (snd (fst (fst a))) (snd (fst a)) (snd a).

Definition ed_kd (seed pub : bytes) : keydata :=
  mkKD u_ed25519_priv ([18; 32] ++ seed ++ [26; 34; 18; 32] ++ pub) km_private.

Lemma parse_ed25519_priv_F_same a : parse_ed25519_priv_F from_seed2 a = parse_ed25519_priv4 a.
Proof. reflexivity. Qed.
Lemma parse_ed25519_priv_F_reach : exists a, parse_ed25519_priv_F always_panic a = Panic.
Proof. exists (std_none, ed_kd (repeat 9 32%nat) (repeat 9 32%nat), 1, 5). vm_compute. reflexivity. Qed.
Lemma parse_ed25519_priv4_np a : parse_ed25519_priv4 a <> Panic.
Proof. apply parse_ed25519_priv_np. Qed.

(* ---- signature/ed25519 NewSigner: NewKeyFromSeed on the seed of a parsed key ---- *)
Definition ed25519_signer_F (fromseed : stdlib * bytes -> outcome bytes) (a : stdlib * keydata * N * N) : outcome bool :=
  let L := fst (fst (fst a)) in
  bind (parse_ed25519_priv L (snd (fst (fst a))) (snd (fst a)) (snd a)) (fun d =>
    match d with
    | PEd25519Priv seed => bind (fromseed (L, seed)) (fun _ => Ok true)
    | d' => prim_ok L d'
    end).
Definition ed25519_signer4 (a : stdlib * keydata * N * N) : outcome bool :=
  bind (parse_ed25519_priv (fst (fst (fst a))) (snd (fst (fst a))) (snd (fst a)) (snd a)) (prim_ok (fst (fst (fst a)))).

Lemma ed25519_signer_F_same a : ed25519_signer_F from_seed2 a = ed25519_signer4 a.
Proof.
  unfold ed25519_signer_F, ed25519_signer4. cbv zeta.
  destruct (parse_ed25519_priv _ _ _ _) as [d| |]; cbn [bind]; try reflexivity. destruct d; reflexivity.
Qed.
Lemma ed25519_signer_F_reach : exists a, ed25519_signer_F always_panic a = Panic.
Proof. exists (std_yes, ed_kd (repeat 9 32%nat) (repeat 9 32%nat), 1, 5). vm_compute. reflexivity. Qed.
Lemma ed25519_signer4_np a : ed25519_signer4 a <> Panic.
Proof.
  unfold ed25519_signer4. destruct (parse_ed25519_priv _ _ _ _) as [d| |] eqn:E; cbn [bind]; try discriminate.
  - apply prim_ok_np. eapply parse_ed25519_priv_point. exact E.
  - exfalso. eapply parse_ed25519_priv_np. exact E.
Qed.

(* ---- signature/ecdsa NewSigner / NewVerifier (and the JWT ECDSA forms): publicPoint[1:], xy[:n/2], xy[n/2:] ---- *)
Definition ecdsa_prim_F (slices : bytes -> outcome bool) (a : stdlib * keydata * N * N) : outcome bool :=
  let L := fst (fst (fst a)) in
  bind (parse_key L (snd (fst (fst a))) (snd (fst a)) (snd a)) (fun d =>
    match d with
    | PEcdsaPub _ _ _ pt | PEcdsaPriv _ _ _ pt _ | PJwtEcdsa _ _ pt => slices pt
    | d' => prim_ok L d'
    end).
Definition parse_then_prim4 (a : stdlib * keydata * N * N) : outcome bool :=
  bind (parse_key (fst (fst (fst a))) (snd (fst (fst a))) (snd (fst a)) (snd a)) (prim_ok (fst (fst (fst a)))).

Lemma ecdsa_prim_F_same a : ecdsa_prim_F ecdsa_point_slices a = parse_then_prim4 a.
Proof.
  unfold ecdsa_prim_F, parse_then_prim4. cbv zeta.
  destruct (parse_key _ _ _ _) as [d| |]; cbn [bind]; try reflexivity. destruct d; reflexivity.
Qed.
Definition ecdsa_pub_kd : keydata :=
  mkKD u_ecdsa_pub ([18; 6; 8; 3; 16; 2; 24; 2; 26; 32] ++ repeat 1 32%nat ++ [34; 32] ++ repeat 1 32%nat) km_public.
Lemma ecdsa_prim_F_reach : exists a, ecdsa_prim_F always_panic a = Panic.
Proof. exists (std_yes, ecdsa_pub_kd, 1, 5). vm_compute. reflexivity. Qed.
Lemma parse_then_prim4_np a : parse_then_prim4 a <> Panic.
Proof.
  unfold parse_then_prim4. destruct (parse_key _ _ _ _) as [d| |] eqn:E; cbn [bind]; try discriminate.
  - eapply parse_then_prim_np. exact E.
  - exfalso. eapply parse_key_np. exact E.
Qed.

(* ---- internal/signature/slhdsa DecodeSecretKey: skEnc[2n:3n], skEnc[3n:4n] ---- *)
Definition parse_slhdsa_priv_F (sl : nat * nat * bytes -> outcome bytes) (a : keydata * N * N) : outcome pkd :=
  let kd := fst (fst a) in
  let prefix := snd (fst a) in
  let idreq := snd a in
  let v := kd_value kd in
  let fs := fields_or_nil v in
  if negb (kd_mat kd =? km_private) then Err else
  if negb (wire_ok sch_slhdsa_priv v) then Err else
  if negb (get_u32 1 fs =? 0) then Err else
  match slhdsa_pub_of (get_sub 3 fs) prefix idreq with
  | None => Err
  | Some ks =>
      let sk := get_len 2 fs in
      if negb (blen sk =? ks) then Err
      else
        let n := N.to_nat (ks / 4) in
        bind (sl ((2 * n)%nat, (3 * n)%nat, sk)) (fun pk_seed =>
        bind (sl ((3 * n)%nat, (4 * n)%nat, sk)) (fun pk_root =>
        if beq (pk_seed ++ pk_root) (get_len 2 (get_sub 3 fs)) then Ok (PSlhDsa true) else Err))
  end.
Definition parse_slhdsa_priv3 (a : keydata * N * N) := parse_slhdsa_priv (fst (fst a)) (snd (fst a)) (snd a).

Lemma parse_slhdsa_priv_F_same a : parse_slhdsa_priv_F slice3 a = parse_slhdsa_priv3 a.
Proof. reflexivity. Qed.
Definition slh_kd : keydata :=
  mkKD u_slhdsa_priv ([18; 64] ++ repeat 3 64%nat ++ [26; 42; 18; 32] ++ repeat 3 32%nat ++ [26; 6; 8; 64; 16; 1; 24; 1]) km_private.
Lemma parse_slhdsa_priv_F_reach : exists a, parse_slhdsa_priv_F always_panic a = Panic.
Proof. exists (slh_kd, 1, 5). vm_compute. reflexivity. Qed.
Lemma parse_slhdsa_priv3_np a : parse_slhdsa_priv3 a <> Panic.
Proof. apply parse_slhdsa_priv_np. Qed.

(* ---- hybrid/ecies parseParameters: demTemplate.OutputPrefixType = RAW on the cloned AEAD DEM template ---- *)
Definition ecies_params_F (spr : option template -> outcome template) (a : list field * N) : outcome params :=
  let ps := fst a in
  let prefix := snd a in
  let kem := get_sub 1 ps in
  let curve := get_u32 1 kem in
  let hash := get_u32 2 kem in
  let fmt := get_u32 3 ps in
  if negb (ecies_curve_ok curve && is_some (digest_size hash) && is_some (aead_variant prefix)
           && ecies_format_ok fmt) then Err
  else if negb (has_sub 2 ps) then Err
  else if negb (is_some (aead_dem_ptr ps)) then Err
  else
    bind (spr (aead_dem_ptr ps)) (fun tm =>
    bind (parse_params_full tm) (fun dp =>
    if (curve =? c_x25519) && negb (fmt =? pf_compressed) then Err
    else match dem_code dp, aead_variant prefix with
         | Some dem, Some var =>
             Ok (QEcies curve hash (if curve =? c_x25519 then pf_unspecified else fmt) dem var (get_len 11 kem))
         | _, _ => Err
         end)).
Definition ecies_params2 (a : list field * N) : outcome params := ecies_params_of parse_params_full (fst a) (snd a).

Lemma ecies_params_F_same a : ecies_params_F set_prefix_raw a = ecies_params2 a.
Proof. reflexivity. Qed.
Lemma ecies_params_F_reach : exists a, ecies_params_F always_panic a = Panic.
Proof. exists ([(1, FLen [8; 2; 16; 3]); (2, FLen [18; 0]); (3, FVar 1)], 1). vm_compute. reflexivity. Qed.
Lemma ecies_params2_np a : ecies_params2 a <> Panic.
Proof. apply ecies_params_of_np. exact parse_params_full_np. Qed.

End ModelFunctionals.

(* ------------------------------------------------------------------ *)
(* as-written bodies (model/UntrustedSites.v) over the raw operations  *)
(* ------------------------------------------------------------------ *)
Section AsWritten.
Open Scope Z_scope.

Definition make2 (p : Z * Z) : outcome bytes := make_z (fst p) (snd p).
Definition index2 (p : bytes * Z) : outcome N := index_z (fst p) (snd p).
Definition slice3z (p : bytes * Z * Z) : outcome bytes := slice_z (fst (fst p)) (snd (fst p)) (snd p).

Lemma make2_panics : exists p, make2 p = Panic.
Proof. exists (-1, 0). reflexivity. Qed.
Lemma index2_panics : exists p, index2 p = Panic.
Proof. exists ([], 0). reflexivity. Qed.
Lemma slice3z_panics : exists p, slice3z p = Panic.
Proof. exists ([], 0, 1). reflexivity. Qed.

(* ---- internal/ec/ec.go BigIntBytesToFixedSizeBuffer ---- *)
Fixpoint strip_loop_F (ix : bytes * Z -> outcome N) (fuel : nat) (b : bytes) (i limit : Z) : outcome bool :=
  match fuel with
  | O => Ok true
  | S f =>
      if i <? limit then
        bind (ix (b, i)) (fun x => if (x =? 0)%N then strip_loop_F ix f b (i + 1) limit else Ok false)
      else Ok true
  end.

Definition fixed_size_go_F (mk : Z * Z -> outcome bytes) (ix : bytes * Z -> outcome N) (sl : bytes * Z * Z -> outcome bytes)
           (b : bytes) (size : Z) : outcome bytes :=
  if zlen b =? size then Ok b
  else if zlen b <? size then
    bind (mk (size - zlen b, size)) (fun buf => Ok (buf ++ b))
  else
    bind (strip_loop_F ix (length b) b 0 (zlen b - size)) (fun allzero =>
      if allzero then sl (b, zlen b - size, zlen b) else Err).

Lemma strip_loop_F_same fuel : forall b i limit, strip_loop_F index2 fuel b i limit = strip_loop fuel b i limit.
Proof.
  induction fuel as [|f IH]; intros b i limit; cbn [strip_loop_F strip_loop]; [reflexivity|].
  destruct (i <? limit); [|reflexivity]. unfold index2. cbn [fst snd].
  destruct (index_z b i) as [x| |]; cbn [bind]; try reflexivity. destruct (x =? 0)%N; [apply IH|reflexivity].
Qed.

Lemma fixed_size_go_F_same b size : fixed_size_go_F make2 index2 slice3z b size = fixed_size_go b size.
Proof. unfold fixed_size_go_F, fixed_size_go. rewrite strip_loop_F_same. reflexivity. Qed.

(* the caller passes a coordinate size: a non-negative constant (nat here) *)
Definition bigint_make_F (mk : Z * Z -> outcome bytes) (a : bytes * nat) : outcome bytes :=
  fixed_size_go_F mk index2 slice3z (fst a) (Z.of_nat (snd a)).
Definition bigint_index_F (ix : bytes * Z -> outcome N) (a : bytes * nat) : outcome bytes :=
  fixed_size_go_F make2 ix slice3z (fst a) (Z.of_nat (snd a)).

Lemma bigint_make_F_reach : exists a, bigint_make_F always_panic a = Panic.
Proof. exists ([], 1%nat). reflexivity. Qed.
Lemma bigint_index_F_reach : exists a, bigint_index_F always_panic a = Panic.
Proof. exists ([0; 0]%N, 1%nat). reflexivity. Qed.
Lemma bigint_make_F_np a : bigint_make_F make2 a <> Panic.
Proof. unfold bigint_make_F. rewrite fixed_size_go_F_same. apply fixed_size_go_np. lia. Qed.
Lemma bigint_index_F_np a : bigint_index_F index2 a <> Panic.
Proof. unfold bigint_index_F. rewrite fixed_size_go_F_same. apply fixed_size_go_np. lia. Qed.

(* ---- signature/ecdsa/protoserialization.go: two BigIntBytesToFixedSizeBuffer(., c), then encodePoint ---- *)
Definition encode_point_go_F (mk : Z * Z -> outcome bytes) (ix : bytes * Z -> outcome N) (sl : bytes * Z * Z -> outcome bytes)
           (x y : bytes) (c : Z) : outcome bytes :=
  bind (mk (1 + 2 * c, 1 + 2 * c)) (fun buf =>
  bind (ix (buf, 0)) (fun _ =>
  let xs := 1 + c - zlen x in
  bind (sl (buf, xs, zlen buf)) (fun _ =>
  let ys := 1 + c + c - zlen y in
  bind (sl (buf, ys, zlen buf)) (fun _ =>
  Ok (4%N :: zeros (Z.to_nat (c - zlen x)) ++ x ++ zeros (Z.to_nat (c - zlen y)) ++ y))))).

Lemma encode_point_go_F_same x y c : encode_point_go_F make2 index2 slice3z x y c = encode_point_go x y c.
Proof. reflexivity. Qed.

Definition new_point_F (mk : Z * Z -> outcome bytes) (sl : bytes * Z * Z -> outcome bytes) (a : bytes * bytes * nat) : outcome bytes :=
  let c := Z.of_nat (snd a) in
  bind (fixed_size_go (fst (fst a)) c) (fun x =>
  bind (fixed_size_go (snd (fst a)) c) (fun y =>
  encode_point_go_F mk index2 sl x y c)).
Definition new_point_make_F mk := new_point_F mk slice3z.
Definition new_point_slice_F sl := new_point_F make2 sl.

Lemma new_point_make_F_reach : exists a, new_point_make_F always_panic a = Panic.
Proof. exists ([], [], 1%nat). reflexivity. Qed.
Lemma new_point_slice_F_reach : exists a, new_point_slice_F always_panic a = Panic.
Proof. exists ([], [], 1%nat). reflexivity. Qed.
Lemma new_point_F_np a : new_point_F make2 slice3z a <> Panic.
Proof.
  unfold new_point_F. cbv zeta.
  destruct (fixed_size_go (fst (fst a)) (Z.of_nat (snd a))) as [x| |] eqn:X; cbn [bind]; try discriminate.
  2:{ exfalso. eapply fixed_size_go_np; [|exact X]. lia. }
  destruct (fixed_size_go (snd (fst a)) (Z.of_nat (snd a))) as [y| |] eqn:Y; cbn [bind]; try discriminate.
  2:{ exfalso. eapply fixed_size_go_np; [|exact Y]. lia. }
  rewrite encode_point_go_F_same. rewrite (encode_point_after_fixed_size_np _ _ _ _ _ X Y). discriminate.
Qed.

(* ---- serializers: if len(publicPoint) != 2*coordinateSize+1 { error }; publicPoint[0]; publicPoint[1:], xy[:c], xy[c:] ---- *)
Definition serializer_first_byte_F (ix : bytes * Z -> outcome N) (a : bytes * nat) : outcome N :=
  let pt := fst a in
  let c := Z.of_nat (snd a) in
  if negb (zlen pt =? 2 * c + 1) then Err else ix (pt, 0).

Definition point_coords_go_F (sl : bytes * Z * Z -> outcome bytes) (pt : bytes) (c : Z) : outcome (bytes * bytes) :=
  bind (sl (pt, 1, zlen pt)) (fun xy =>
  bind (sl (xy, 0, c)) (fun x => bind (sl (xy, c, zlen xy)) (fun y => Ok (x, y)))).
Definition serializer_coords_F (sl : bytes * Z * Z -> outcome bytes) (a : bytes * nat) : outcome (bytes * bytes) :=
  let pt := fst a in
  let c := Z.of_nat (snd a) in
  if negb (zlen pt =? 2 * c + 1) then Err else point_coords_go_F sl pt c.

Lemma serializer_first_byte_F_reach : exists a, serializer_first_byte_F always_panic a = Panic.
Proof. exists ([4; 0; 0]%N, 1%nat). reflexivity. Qed.
Lemma serializer_coords_F_reach : exists a, serializer_coords_F always_panic a = Panic.
Proof. exists ([4; 0; 0]%N, 1%nat). reflexivity. Qed.
Lemma serializer_first_byte_F_np a : serializer_first_byte_F index2 a <> Panic.
Proof.
  unfold serializer_first_byte_F. cbv zeta. destruct (zlen (fst a) =? 2 * Z.of_nat (snd a) + 1) eqn:E; cbn [negb]; [|discriminate].
  apply Z.eqb_eq in E. apply (first_byte_np _ (Z.of_nat (snd a))); [lia|exact E].
Qed.
Lemma serializer_coords_F_np a : serializer_coords_F slice3z a <> Panic.
Proof.
  unfold serializer_coords_F. cbv zeta. destruct (zlen (fst a) =? 2 * Z.of_nat (snd a) + 1) eqn:E; cbn [negb]; [|discriminate].
  apply Z.eqb_eq in E. change (point_coords_go (fst a) (Z.of_nat (snd a)) <> Panic). apply point_coords_go_np; lia.
Qed.

(* ---- internal/signature/slhdsa DecodePublicKey: if len(pkEnc) != 2n { error }; pkEnc[0:n], pkEnc[n:2n] ---- *)
Definition slh_decode_pk_F (sl : bytes * Z * Z -> outcome bytes) (a : nat * bytes) : outcome (bytes * bytes) :=
  let n := Z.of_nat (fst a) in
  let pk := snd a in
  if negb (zlen pk =? 2 * n) then Err
  else bind (sl (pk, 0, n)) (fun seed => bind (sl (pk, n, 2 * n)) (fun root => Ok (seed, root))).

Lemma slh_decode_pk_F_reach : exists a, slh_decode_pk_F always_panic a = Panic.
Proof. exists (1%nat, [1; 2]%N). reflexivity. Qed.
Lemma slh_decode_pk_F_np a : slh_decode_pk_F slice3z a <> Panic.
Proof.
  change (slh_decode_pk_go (Z.of_nat (fst a)) (snd a) <> Panic). apply slh_decode_go_np. lia.
Qed.

(* ---- keyset/handle.go Handle.Entry: if i < 0 || i >= h.Len() { error }; h.entries[i] ---- *)
Definition entry_raw2 (p : list unit * Z) : outcome unit := entry_raw (fst p) (snd p).
Definition entry_F (ix : list unit * Z -> outcome unit) (a : list unit * Z) : outcome unit :=
  if (snd a <? 0) || (Z.of_nat (length (fst a)) <=? snd a) then Err else ix a.

Lemma entry_raw2_panics : exists p, entry_raw2 p = Panic.
Proof. exists ([], 0). reflexivity. Qed.
Lemma entry_F_reach : exists a, entry_F always_panic a = Panic.
Proof. exists ([tt], 0). reflexivity. Qed.
Lemma entry_F_np a : entry_F entry_raw2 a <> Panic.
Proof.
  unfold entry_F. destruct ((snd a <? 0) || (Z.of_nat (length (fst a)) <=? snd a)) eqn:E; [discriminate|].
  apply orb_false_iff in E. destruct E as [E1 E2]. apply Z.ltb_ge in E1. apply Z.leb_gt in E2.
  apply entry_raw_np. lia.
Qed.

End AsWritten.
