(* Proofs about model/JsonKeyset.v (the JSON text of keysets, properties C12
   and C14): print-then-read gives the message back; what an object must look
   like to be read against a field table (exactly); the refusals. *)
From Coq Require Import List NArith ZArith Bool Lia ZifyN ZifyNat ZifyBool Arith.
From Coq Require String.
From Tink Require Import Bytes Base64url Jwt JwtProofs JwkProofs Json JsonLexProofs JsonProofs JsonPjProofs JsonKeyset.
Import ListNotations.
Open Scope N_scope.

(* ================= base64 ================= *)
Lemma gval_b64_val url c : (url = true \/ (c <> 45 /\ c <> 95)) -> b64_val c <> None -> gval url c = b64_val c.
Proof.
  intros U A. unfold gval, b64_val in *.
  destruct ((65 <=? c) && (c <=? 90)); [reflexivity|].
  destruct ((97 <=? c) && (c <=? 122)); [reflexivity|].
  destruct ((48 <=? c) && (c <=? 57)); [reflexivity|].
  destruct url.
  - reflexivity.
  - destruct U as [U|[U1 U2]]; [discriminate|].
    replace (c =? 45) with false in A by lia. replace (c =? 95) with false in A by lia. congruence.
Qed.

Lemma gscan_alphabet url s : forall vs, map_opt b64_val s = Some vs ->
  (forall c, In c s -> gval url c = b64_val c) -> gscan url s = Some (vs, []).
Proof.
  induction s as [|c t IH]; intros vs M G.
  - inversion M. reflexivity.
  - cbn [map_opt] in M. destruct (b64_val c) as [v|] eqn:Bc; [|discriminate].
    destruct (map_opt b64_val t) as [vt|] eqn:Mt; [|discriminate]. inversion M; subst vs.
    cbn [gscan].
    assert (NL : is_nl c = false).
    { unfold is_nl. unfold b64_val in Bc.
      destruct (c =? 10) eqn:A; [replace c with 10 in Bc by lia; discriminate|].
      destruct (c =? 13) eqn:B; [replace c with 13 in Bc by lia; discriminate|]. reflexivity. }
    rewrite NL, (G c (or_introl eq_refl)), Bc.
    rewrite (IH vt eq_refl) by (intros c' H; apply G; right; exact H). reflexivity.
Qed.

Lemma map_opt_length {A B} (f : A -> option B) l : forall r, map_opt f l = Some r -> length r = length l.
Proof.
  induction l as [|x t IH]; intros r H; cbn [map_opt] in H.
  - inversion H. reflexivity.
  - destruct (f x); [|discriminate]. destruct (map_opt f t) as [rt|]; [|discriminate].
    inversion H. cbn [length]. rewrite (IH rt eq_refl). reflexivity.
Qed.

(* the printer's base64 (URL alphabet, no padding) is read back by protojson's rule *)
Theorem pj_bytes_encode v : wfb v -> pj_bytes (b64_encode v) = Some v.
Proof.
  intros W. pose proof (b64_decode_encode v W) as D. unfold b64_decode in D.
  destruct (map_opt b64_val (b64_encode v)) as [vs|] eqn:M; [|discriminate].
  unfold pj_bytes, go_b64.
  set (url := existsb (fun c => (c =? 45) || (c =? 95)) (b64_encode v)).
  assert (G : forall c, In c (b64_encode v) -> gval url c = b64_val c).
  { intros c Hc. apply gval_b64_val.
    - destruct url eqn:U; [left; reflexivity|right].
      unfold url in U. rewrite <- not_true_iff_false, existsb_exists in U.
      split; intros E; apply U; exists c; (split; [exact Hc|lia]).
    - pose proof (b64_encode_alphabet v) as A. rewrite Forall_forall in A. apply A. exact Hc. }
  rewrite (gscan_alphabet url _ vs M G).
  rewrite (map_opt_length _ _ _ M).
  assert (NO : (length (b64_encode v) mod 4 <> 1)%nat).
  { rewrite <- (map_opt_length _ _ _ M). apply b64_decode_vals_ok. congruence. }
  destruct (Nat.eqb (length (b64_encode v) mod 4) 0) eqn:P.
  - cbn [orb]. exact D.
  - cbn [negb orb andb]. replace (Nat.eqb (length (b64_encode v) mod 4) 1) with false
      by (symmetry; apply Nat.eqb_neq; exact NO). cbn [negb]. exact D.
Qed.

(* a byte outside the chosen alphabet that is not CR, LF or '=' : refused *)
Lemma gscan_bad_char url s1 c s2 :
  gval url c = None -> is_nl c = false -> c <> 61 -> (forall x, In x s1 -> x <> 61) ->
  gscan url (s1 ++ c :: s2) = None.
Proof.
  intros G NL NE. induction s1 as [|x t IH]; intros P.
  - cbn [app gscan]. rewrite NL, G. replace (c =? 61) with false by lia. reflexivity.
  - cbn [app gscan]. rewrite IH by (intros y H; apply P; right; exact H).
    destruct (is_nl x); [reflexivity|]. destruct (gval url x); [reflexivity|].
    replace (x =? 61) with false by (specialize (P x (or_introl eq_refl)); lia). reflexivity.
Qed.

Theorem pj_bytes_bad_char s1 c s2 :
  gval (existsb (fun c => (c =? 45) || (c =? 95)) (s1 ++ c :: s2)) c = None ->
  is_nl c = false -> c <> 61 -> (forall x, In x s1 -> x <> 61) ->
  pj_bytes (s1 ++ c :: s2) = None.
Proof.
  intros G NL NE P. unfold pj_bytes, go_b64. rewrite (gscan_bad_char _ s1 c s2 G NL NE P). reflexivity.
Qed.

(* ================= numbers ================= *)
Lemma u32_of_num n : n < two32 -> u32_of_json (u32_num n) = Some n.
Proof.
  intros H. unfold u32_of_json, u32_num, int_of_json, int_of_jnum.
  replace ((0 <=? Z.of_N n)%Z && (Z.of_N n <? Z.of_N two32)%Z) with true by lia.
  rewrite N2Z.id. reflexivity.
Qed.

Lemma enum_of_num names e : e < two32 -> enum_of_json names (enum_num e) = Some e.
Proof.
  intros H. unfold enum_of_json, enum_num, int_of_jnum. unfold two32, two31 in *.
  destruct (e <? 2147483648) eqn:L.
  - replace ((- Z.of_N 2147483648 <=? Z.of_N e)%Z && (Z.of_N e <? Z.of_N 2147483648)%Z) with true by lia.
    replace (Z.of_N e <? 0)%Z with false by lia. rewrite N2Z.id. reflexivity.
  - replace ((- Z.of_N 2147483648 <=? Z.of_N e - Z.of_N 4294967296)%Z
             && (Z.of_N e - Z.of_N 4294967296 <? Z.of_N 2147483648)%Z) with true by lia.
    replace (Z.of_N e - Z.of_N 4294967296 <? 0)%Z with true by lia. f_equal. lia.
Qed.

(* wrong JSON types, and numbers out of range *)
Lemma u32_of_json_wrong_type j :
  match j with JNull | JBool _ | JArr _ | JObj _ => True | _ => False end -> u32_of_json j = None.
Proof. destruct j; intros H; try contradiction; reflexivity. Qed.

Lemma u32_of_json_out_of_range t : (t < 0 \/ 4294967296 <= t)%Z -> u32_of_json (JNum t []) = None.
Proof.
  intros H. unfold u32_of_json, int_of_json, int_of_jnum, two32.
  replace ((0 <=? t)%Z && (t <? Z.of_N 4294967296)%Z) with false by lia. reflexivity.
Qed.

Lemma enum_of_json_unknown_name names s : name_lookup names s = None -> enum_of_json names (JStr s) = None.
Proof. intros H. exact H. Qed.

Lemma enum_of_json_wrong_type names j :
  match j with JNull | JBool _ | JArr _ | JObj _ => True | _ => False end -> enum_of_json names j = None.
Proof. destruct j; intros H; try contradiction; reflexivity. Qed.

(* ================= one object against a field table ================= *)
Definition member_numbers (tab : list (bytes * N)) (f : fields) : option (list N) :=
  map_opt (fun kv => field_number tab (fst kv)) f.
Fixpoint set_members (nums : list N) (f : fields) : list (N * json) :=
  match nums, f with
  | n :: nr, (_, v) :: fr => match v with JNull => set_members nr fr | _ => (n, v) :: set_members nr fr end
  | _, _ => []
  end.
Fixpoint distinct_from (seen : list N) (nums : list N) : bool :=
  match nums with
  | [] => true
  | n :: r => negb (memN n seen) && distinct_from (n :: seen) r
  end.

(* EXACTLY: every member names a field of the table, and no field is named
   twice (a null member counts); the fields that are set are the non-null members *)
Theorem resolve_spec tab f : forall seen l,
  resolve tab f seen = Some l <->
  exists nums, member_numbers tab f = Some nums /\ distinct_from seen nums = true /\ l = set_members nums f.
Proof.
  unfold member_numbers. induction f as [|[k v] r IH]; intros seen l.
  - cbn. split; [intros H; inversion H; exists []; auto|intros [nums [E [_ ->]]]; inversion E; reflexivity].
  - cbn [resolve map_opt fst]. destruct (field_number tab k) as [n|]; [|split; [discriminate|intros [? [? _]]; discriminate]].
    split.
    + destruct (memN n seen) eqn:M; [discriminate|].
      destruct (resolve tab r (n :: seen)) as [l'|] eqn:R; [|discriminate].
      intros H. inversion H; subst l. apply IH in R. destruct R as [nums [E [D ->]]].
      exists (n :: nums). rewrite E. split; [reflexivity|]. split; [cbn [distinct_from]; rewrite M, D; reflexivity|].
      destruct v; reflexivity.
    + intros [nums [E [D ->]]].
      destruct (map_opt (fun kv => field_number tab (fst kv)) r) as [nr|] eqn:Er; [|discriminate].
      inversion E; subst nums. cbn [distinct_from] in D. apply andb_true_iff in D. destruct D as [M D].
      apply negb_true_iff in M. rewrite M.
      rewrite (proj2 (IH (n :: seen) (set_members nr r))) by (exists nr; auto).
      destruct v; reflexivity.
Qed.

Lemma resolve_unknown_field tab f k v : In (k, v) f -> field_number tab k = None ->
  forall seen, resolve tab f seen = None.
Proof.
  induction f as [|[k' v'] r IH]; intros I U seen; [contradiction|].
  cbn [resolve]. destruct I as [E|I].
  - inversion E; subst. rewrite U. reflexivity.
  - destruct (field_number tab k'); [|reflexivity]. destruct (memN n seen); [reflexivity|].
    rewrite (IH I U). reflexivity.
Qed.

Lemma resolve_seen tab f : forall seen n k v, In (k, v) f -> field_number tab k = Some n -> memN n seen = true ->
  resolve tab f seen = None.
Proof.
  induction f as [|[k' v'] r IH]; intros seen n k v I F M; [contradiction|].
  cbn [resolve]. destruct I as [E|I].
  - inversion E; subst. rewrite F, M. reflexivity.
  - destruct (field_number tab k') as [n'|]; [|reflexivity]. destruct (memN n' seen); [reflexivity|].
    rewrite (IH (n' :: seen) n k v I F); [reflexivity|]. unfold memN in *. cbn [existsb]. rewrite M. apply orb_true_r.
Qed.

(* two members for one field - the same spelling or the JSON name and the proto name - : refused *)
Lemma resolve_duplicate_field tab f1 k1 v1 f2 k2 v2 f3 n :
  field_number tab k1 = Some n -> field_number tab k2 = Some n ->
  forall seen, resolve tab (f1 ++ (k1, v1) :: f2 ++ (k2, v2) :: f3) seen = None.
Proof.
  intros F1 F2. induction f1 as [|[k v] r IH]; intros seen.
  - cbn [app resolve]. rewrite F1. destruct (memN n seen); [reflexivity|].
    rewrite (resolve_seen tab (f2 ++ (k2, v2) :: f3) (n :: seen) n k2 v2); [reflexivity| |exact F2|].
    + apply in_or_app. right. left. reflexivity.
    + unfold memN. cbn [existsb]. rewrite N.eqb_refl. reflexivity.
  - cbn [app resolve]. destruct (field_number tab k); [|reflexivity]. destruct (memN n0 seen); [reflexivity|].
    rewrite IH. reflexivity.
Qed.

(* ================= print, then read ================= *)
Lemma bytes_okb_wfb b : bytes_okb b = true -> wfb b.
Proof. unfold bytes_okb, wfb. rewrite forallb_forall, Forall_forall. intros H x Hx. specialize (H x Hx). lia. Qed.

Lemma resolve_keydata u v m :
  resolve tab_keydata [(n_typeUrl, JStr u); (n_value, JStr v); (n_keyMaterialType, JNum m [])] []
  = Some [(1, JStr u); (2, JStr v); (3, JNum m [])].
Proof. reflexivity. Qed.
Lemma resolve_key_some x a b c :
  resolve tab_key [(n_keyData, JObj x); (n_status, JNum a []); (n_keyId, JNum b []); (n_outputPrefixType, JNum c [])] []
  = Some [(1, JObj x); (2, JNum a []); (3, JNum b []); (4, JNum c [])].
Proof. reflexivity. Qed.
Lemma resolve_key_none a b c :
  resolve tab_key [(n_status, JNum a []); (n_keyId, JNum b []); (n_outputPrefixType, JNum c [])] []
  = Some [(2, JNum a []); (3, JNum b []); (4, JNum c [])].
Proof. reflexivity. Qed.
Lemma resolve_keyset p l :
  resolve tab_keyset [(n_primaryKeyId, JNum p []); (n_key, JArr l)] [] = Some [(1, JNum p []); (2, JArr l)].
Proof. reflexivity. Qed.
Lemma resolve_keyinfo u a b c :
  resolve tab_keyinfo [(n_typeUrl, JStr u); (n_status, JNum a []); (n_keyId, JNum b []); (n_outputPrefixType, JNum c [])] []
  = Some [(1, JStr u); (2, JNum a []); (3, JNum b []); (4, JNum c [])].
Proof. reflexivity. Qed.
Lemma resolve_info p l :
  resolve tab_info [(n_primaryKeyId, JNum p []); (n_keyInfo, JArr l)] [] = Some [(1, JNum p []); (2, JArr l)].
Proof. reflexivity. Qed.
Lemma resolve_encrypted_some c x :
  resolve tab_encrypted [(n_encryptedKeyset, JStr c); (n_keysetInfo, JObj x)] [] = Some [(2, JStr c); (3, JObj x)].
Proof. reflexivity. Qed.
Lemma resolve_encrypted_none c :
  resolve tab_encrypted [(n_encryptedKeyset, JStr c)] [] = Some [(2, JStr c)].
Proof. reflexivity. Qed.

Lemma keydata_fields_inv d : keydata_ok d = true -> keydata_of_fields (fields_of_keydata d) = Some d.
Proof.
  unfold keydata_ok. intros H. apply andb_true_iff in H. destruct H as [H M]. apply andb_true_iff in H. destruct H as [U V].
  unfold keydata_of_fields, fields_of_keydata, enum_num. rewrite resolve_keydata.
  change (getf 1 [(1, JStr (jd_url d)); (2, JStr (b64_encode (jd_value d))); (3, ?x)]) with (Some (JStr (jd_url d))).
  cbn [getf N.eqb Pos.eqb f_str f_bytes].
  rewrite (pj_bytes_encode _ (bytes_okb_wfb _ V)).
  fold (enum_num (jd_mat d)). unfold f_enum. rewrite enum_of_num by lia. destruct d; reflexivity.
Qed.

Lemma key_fields_inv k : key_ok k = true -> key_of_fields (fields_of_key k) = Some k.
Proof.
  unfold key_ok. intros H. apply andb_true_iff in H. destruct H as [H P]. apply andb_true_iff in H. destruct H as [H I].
  apply andb_true_iff in H. destruct H as [D S].
  unfold key_of_fields, fields_of_key. destruct k as [[d|] st id p]; cbn [jk_data jk_status jk_id jk_prefix app] in *.
  - unfold enum_num at 1 2, u32_num. rewrite resolve_key_some. cbn [getf N.eqb Pos.eqb f_msg].
    rewrite (keydata_fields_inv d D).
    fold (enum_num st) (enum_num p) (u32_num id). unfold f_enum, f_u32.
    rewrite !enum_of_num, u32_of_num by lia. reflexivity.
  - unfold enum_num, u32_num. rewrite resolve_key_none. cbn [getf N.eqb Pos.eqb f_msg].
    fold (enum_num st) (enum_num p) (u32_num id). unfold f_enum, f_u32.
    rewrite !enum_of_num, u32_of_num by lia. reflexivity.
Qed.

Lemma f_rep_inv {A} (dec : fields -> option A) (enc : A -> fields) (l : list A) :
  (forall a, In a l -> dec (enc a) = Some a) ->
  f_rep dec (Some (JArr (map (fun a => JObj (enc a)) l))) = Some l.
Proof.
  intros H. cbn [f_rep]. induction l as [|a r IH]; [reflexivity|].
  cbn [map map_opt]. rewrite (H a (or_introl eq_refl)), IH by (intros b Hb; apply H; right; exact Hb). reflexivity.
Qed.

Theorem keyset_fields_inv ks : keyset_ok ks = true -> keyset_of_fields (fields_of_keyset ks) = Some ks.
Proof.
  unfold keyset_ok. intros H. apply andb_true_iff in H. destruct H as [P K].
  unfold keyset_of_fields, fields_of_keyset, u32_num. rewrite resolve_keyset. cbn [getf N.eqb Pos.eqb].
  fold (u32_num (jks_primary ks)). unfold f_u32. rewrite u32_of_num by lia.
  rewrite (f_rep_inv key_of_fields fields_of_key).
  - destruct ks; reflexivity.
  - intros k Hk. apply key_fields_inv. rewrite forallb_forall in K. apply K. exact Hk.
Qed.

Lemma keyinfo_fields_inv k : keyinfo_ok k = true -> keyinfo_of_fields (fields_of_keyinfo k) = Some k.
Proof.
  unfold keyinfo_ok. intros H. apply andb_true_iff in H. destruct H as [H P]. apply andb_true_iff in H. destruct H as [H I].
  apply andb_true_iff in H. destruct H as [U S].
  unfold keyinfo_of_fields, fields_of_keyinfo. destruct k as [u st id p]; cbn [ji_url ji_status ji_id ji_prefix] in *.
  unfold enum_num, u32_num. rewrite resolve_keyinfo. cbn [getf N.eqb Pos.eqb f_str].
  fold (enum_num st) (enum_num p) (u32_num id). unfold f_enum, f_u32.
  rewrite !enum_of_num, u32_of_num by lia. reflexivity.
Qed.

Lemma info_fields_inv i : info_ok i = true -> info_of_fields (fields_of_info i) = Some i.
Proof.
  unfold info_ok. intros H. apply andb_true_iff in H. destruct H as [P K].
  unfold info_of_fields, fields_of_info, u32_num. rewrite resolve_info. cbn [getf N.eqb Pos.eqb].
  fold (u32_num (jn_primary i)). unfold f_u32. rewrite u32_of_num by lia.
  rewrite (f_rep_inv keyinfo_of_fields fields_of_keyinfo).
  - destruct i; reflexivity.
  - intros k Hk. apply keyinfo_fields_inv. rewrite forallb_forall in K. apply K. exact Hk.
Qed.

Theorem encrypted_fields_inv e : encrypted_ok e = true -> encrypted_of_fields (fields_of_encrypted e) = Some e.
Proof.
  unfold encrypted_ok. intros H. apply andb_true_iff in H. destruct H as [C I].
  unfold encrypted_of_fields, fields_of_encrypted. destruct e as [ct [i|]]; cbn [je_ct je_info app] in *.
  - rewrite resolve_encrypted_some. cbn [getf N.eqb Pos.eqb f_bytes f_msg].
    rewrite (pj_bytes_encode _ (bytes_okb_wfb _ C)), (info_fields_inv i I). reflexivity.
  - rewrite resolve_encrypted_none. cbn [getf N.eqb Pos.eqb f_bytes f_msg].
    rewrite (pj_bytes_encode _ (bytes_okb_wfb _ C)). reflexivity.
Qed.

(* ---- the printed value trees are in the domain of the text printer ---- *)
Ltac names_utf8 :=
  repeat first
    [ change (utf8_valid n_primaryKeyId) with true | change (utf8_valid n_key) with true
    | change (utf8_valid n_keyData) with true | change (utf8_valid n_status) with true
    | change (utf8_valid n_keyId) with true | change (utf8_valid n_outputPrefixType) with true
    | change (utf8_valid n_typeUrl) with true | change (utf8_valid n_value) with true
    | change (utf8_valid n_keyMaterialType) with true | change (utf8_valid n_encryptedKeyset) with true
    | change (utf8_valid n_keysetInfo) with true | change (utf8_valid n_keyInfo) with true ].

Lemma enum_num_exact e : e < two32 -> nums_exact (enum_num e) = true.
Proof. intros H. unfold enum_num, nums_exact, two32, two31, Json.two53 in *. destruct (e <? 2147483648) eqn:L; lia. Qed.
Lemma u32_num_exact n : n < two32 -> nums_exact (u32_num n) = true.
Proof. intros H. unfold u32_num, nums_exact, two32, Json.two53 in *. lia. Qed.

Definition tree_ok (v : json) (d : nat) : Prop :=
  json_utf8 v = true /\ nodup_names v = true /\ nums_exact v = true /\ (jdepth v <= d)%nat.

Lemma keydata_tree_ok d : keydata_ok d = true -> tree_ok (JObj (fields_of_keydata d)) 2.
Proof.
  unfold keydata_ok. intros H. apply andb_true_iff in H. destruct H as [H M]. apply andb_true_iff in H. destruct H as [U V].
  unfold tree_ok, fields_of_keydata. split; [|split; [|split]].
  - cbn [json_utf8 forallb]. names_utf8. rewrite U, b64_encode_utf8. reflexivity.
  - reflexivity.
  - cbn [nums_exact forallb snd]. fold (nums_exact (enum_num (jd_mat d))). rewrite enum_num_exact by lia. reflexivity.
  - cbn. lia.
Qed.

Lemma key_tree_ok k : key_ok k = true -> tree_ok (JObj (fields_of_key k)) 3.
Proof.
  unfold key_ok. intros H. apply andb_true_iff in H. destruct H as [H P]. apply andb_true_iff in H. destruct H as [H I].
  apply andb_true_iff in H. destruct H as [D S].
  assert (E1 := enum_num_exact _ (proj1 (N.ltb_lt _ _) S)).
  assert (E2 := enum_num_exact _ (proj1 (N.ltb_lt _ _) P)).
  assert (E3 := u32_num_exact _ (proj1 (N.ltb_lt _ _) I)).
  unfold tree_ok, fields_of_key. destruct (jk_data k) as [d|]; cbn [app].
  - destruct (keydata_tree_ok d D) as [A [B [C Dp]]]. split; [|split; [|split]].
    + cbn [json_utf8 forallb] in *. names_utf8. rewrite A. reflexivity.
    + cbn [nodup_names forallb snd] in *. rewrite B. reflexivity.
    + cbn [nums_exact forallb snd] in *. rewrite C, E1, E2, E3. reflexivity.
    + cbn [jdepth map snd list_max fold_right] in *. unfold enum_num, u32_num. cbn [jdepth]. lia.
  - split; [|split; [|split]].
    + reflexivity.
    + reflexivity.
    + cbn [nums_exact forallb snd]. rewrite E1, E2, E3. reflexivity.
    + cbn. lia.
Qed.

Lemma list_max_map_le {A} (f : A -> nat) (l : list A) b : (forall a, In a l -> (f a <= b)%nat) -> (list_max (map f l) <= b)%nat.
Proof. intros H. apply list_max_le. apply Forall_forall. intros x Hx. apply in_map_iff in Hx. destruct Hx as [a [<- Ha]]. auto. Qed.

Lemma arr_tree_ok {A} (enc : A -> fields) (l : list A) d :
  (forall a, In a l -> tree_ok (JObj (enc a)) d) -> tree_ok (JArr (map (fun a => JObj (enc a)) l)) (S d).
Proof.
  intros H. unfold tree_ok. split; [|split; [|split]].
  - cbn [json_utf8]. apply forallb_forall. intros v Hv. apply in_map_iff in Hv. destruct Hv as [a [<- Ha]]. apply (H a Ha).
  - cbn [nodup_names]. apply forallb_forall. intros v Hv. apply in_map_iff in Hv. destruct Hv as [a [<- Ha]]. apply (H a Ha).
  - cbn [nums_exact]. apply forallb_forall. intros v Hv. apply in_map_iff in Hv. destruct Hv as [a [<- Ha]]. apply (H a Ha).
  - cbn [jdepth]. apply le_n_S. rewrite map_map. apply list_max_map_le. intros a Ha. apply (H a Ha).
Qed.

Lemma keyset_tree_ok ks : keyset_ok ks = true -> tree_ok (JObj (fields_of_keyset ks)) 5.
Proof.
  unfold keyset_ok. intros H. apply andb_true_iff in H. destruct H as [P K].
  assert (E := u32_num_exact _ (proj1 (N.ltb_lt _ _) P)).
  destruct (arr_tree_ok fields_of_key (jks_keys ks) 3) as [A [B [C D]]].
  { intros k Hk. apply key_tree_ok. rewrite forallb_forall in K. apply K. exact Hk. }
  unfold tree_ok, fields_of_keyset. split; [|split; [|split]].
  - cbn [json_utf8 forallb] in *. names_utf8. rewrite A. reflexivity.
  - cbn [nodup_names forallb snd] in *. rewrite B. reflexivity.
  - cbn [nums_exact forallb snd] in *. rewrite C, E. reflexivity.
  - cbn [jdepth map snd list_max fold_right] in *. unfold u32_num. cbn [jdepth]. lia.
Qed.

Lemma keyinfo_tree_ok k : keyinfo_ok k = true -> tree_ok (JObj (fields_of_keyinfo k)) 2.
Proof.
  unfold keyinfo_ok. intros H. apply andb_true_iff in H. destruct H as [H P]. apply andb_true_iff in H. destruct H as [H I].
  apply andb_true_iff in H. destruct H as [U S].
  assert (E1 := enum_num_exact _ (proj1 (N.ltb_lt _ _) S)).
  assert (E2 := enum_num_exact _ (proj1 (N.ltb_lt _ _) P)).
  assert (E3 := u32_num_exact _ (proj1 (N.ltb_lt _ _) I)).
  unfold tree_ok, fields_of_keyinfo. split; [|split; [|split]].
  - cbn [json_utf8 forallb]. names_utf8. rewrite U. reflexivity.
  - reflexivity.
  - cbn [nums_exact forallb snd]. rewrite E1, E2, E3. reflexivity.
  - cbn. lia.
Qed.

Lemma info_tree_ok i : info_ok i = true -> tree_ok (JObj (fields_of_info i)) 4.
Proof.
  unfold info_ok. intros H. apply andb_true_iff in H. destruct H as [P K].
  assert (E := u32_num_exact _ (proj1 (N.ltb_lt _ _) P)).
  destruct (arr_tree_ok fields_of_keyinfo (jn_keys i) 2) as [A [B [C D]]].
  { intros k Hk. apply keyinfo_tree_ok. rewrite forallb_forall in K. apply K. exact Hk. }
  unfold tree_ok, fields_of_info. split; [|split; [|split]].
  - cbn [json_utf8 forallb] in *. names_utf8. rewrite A. reflexivity.
  - cbn [nodup_names forallb snd] in *. rewrite B. reflexivity.
  - cbn [nums_exact forallb snd] in *. rewrite C, E. reflexivity.
  - cbn [jdepth map snd list_max fold_right] in *. unfold u32_num. cbn [jdepth]. lia.
Qed.

Lemma encrypted_tree_ok e : encrypted_ok e = true -> tree_ok (JObj (fields_of_encrypted e)) 5.
Proof.
  unfold encrypted_ok. intros H. apply andb_true_iff in H. destruct H as [C I].
  unfold tree_ok, fields_of_encrypted. destruct (je_info e) as [i|]; cbn [app].
  - destruct (info_tree_ok i I) as [A [B [Cx D]]]. split; [|split; [|split]].
    + cbn [json_utf8 forallb] in *. names_utf8. rewrite b64_encode_utf8, A. reflexivity.
    + cbn [nodup_names forallb snd] in *. rewrite B. reflexivity.
    + cbn [nums_exact forallb snd] in *. rewrite Cx. reflexivity.
    + cbn [jdepth map snd list_max fold_right] in *. lia.
  - split; [|split; [|split]].
    + cbn [json_utf8 forallb]. names_utf8. rewrite b64_encode_utf8. reflexivity.
    + reflexivity.
    + reflexivity.
    + cbn. lia.
Qed.

Lemma tree_ok_printable v d : tree_ok v d -> (d <= 5)%nat -> printable v = true.
Proof.
  intros [A [B [C D]]] L. unfold printable. rewrite A, B, C. cbn [andb]. apply Nat.leb_le.
  apply Nat.le_trans with 5%nat; [lia|]. unfold recursion_limit. lia.
Qed.

(* (a) the reader on the printer's text: every message of the printer's domain comes back *)
Theorem keyset_text_roundtrip ks :
  keyset_ok ks = true -> keyset_of_json_text (json_text_of_keyset ks) = Some ks.
Proof.
  intros H. unfold keyset_of_json_text, json_text_of_keyset.
  rewrite (json_parse_pj_extends num_keep _ (fields_of_keyset ks))
    by (apply json_print_parse_roundtrip; apply (tree_ok_printable _ 5); [apply keyset_tree_ok; exact H|lia]).
  apply keyset_fields_inv. exact H.
Qed.

Theorem encrypted_text_roundtrip e :
  encrypted_ok e = true -> encrypted_of_json_text (json_text_of_encrypted e) = Some e.
Proof.
  intros H. unfold encrypted_of_json_text, json_text_of_encrypted.
  rewrite (json_parse_pj_extends num_keep _ (fields_of_encrypted e))
    by (apply json_print_parse_roundtrip; apply (tree_ok_printable _ 5); [apply encrypted_tree_ok; exact H|lia]).
  apply encrypted_fields_inv. exact H.
Qed.

(* ================= refusals, for ALL texts ================= *)
(* the reader is the generic text parser followed by the schema *)
Lemma keyset_text_inv s ks : keyset_of_json_text s = Some ks ->
  exists f, json_parse_text_pj num_keep s = Some f /\ keyset_of_fields f = Some ks.
Proof. unfold keyset_of_json_text. destruct (json_parse_text_pj num_keep s) as [f|]; [eauto|discriminate]. Qed.

(* whatever the generic JSON layer refuses is refused: text that is not valid
   UTF-8, the empty or blank text, a top level that is not an object, a
   repeated member name at any depth *)
Theorem keyset_text_json_refusals s :
  (utf8_valid s = false -> keyset_of_json_text s = None /\ encrypted_of_json_text s = None)
  /\ (all_ws s = true -> keyset_of_json_text s = None /\ encrypted_of_json_text s = None)
  /\ (forall c t, skip_ws s = c :: t -> c <> 123 -> keyset_of_json_text s = None /\ encrypted_of_json_text s = None)
  /\ (forall v, lex_pj num_keep s = Some (toks v) -> nodup_names v = false ->
        keyset_of_json_text s = None /\ encrypted_of_json_text s = None).
Proof.
  unfold keyset_of_json_text, encrypted_of_json_text.
  split; [intros H; rewrite (json_pj_invalid_utf8_rejected _ _ H); auto|].
  split; [intros H; rewrite (json_pj_blank_rejected _ _ H); auto|].
  split; [intros c t H N; rewrite (json_pj_first_byte_rejected _ _ _ _ H N); auto|].
  intros v L D. rewrite (json_pj_duplicate_name_rejected _ _ _ L D). auto.
Qed.

(* trailing data after an accepted text *)
Theorem keyset_text_trailing_data s ks c t :
  keyset_of_json_text s = Some ks -> is_ws c = false -> keyset_of_json_text (s ++ c :: t) = None.
Proof.
  intros H W. apply keyset_text_inv in H. destruct H as [f [P _]].
  unfold keyset_of_json_text. rewrite (json_pj_trailing_data_rejected _ _ _ _ _ P W). reflexivity.
Qed.

Theorem encrypted_text_trailing_data s e c t :
  encrypted_of_json_text s = Some e -> is_ws c = false -> encrypted_of_json_text (s ++ c :: t) = None.
Proof.
  unfold encrypted_of_json_text. destruct (json_parse_text_pj num_keep s) as [f|] eqn:P; [|discriminate].
  intros _ W. rewrite (json_pj_trailing_data_rejected _ _ _ _ _ P W). reflexivity.
Qed.

(* JSON whitespace around the text changes nothing *)
Theorem keyset_text_whitespace w s : all_ws w = true ->
  keyset_of_json_text (w ++ s) = keyset_of_json_text s /\ keyset_of_json_text (s ++ w) = keyset_of_json_text s.
Proof.
  intros H. unfold keyset_of_json_text. rewrite json_pj_leading_ws, json_pj_trailing_ws by exact H. auto.
Qed.

Theorem encrypted_text_whitespace w s : all_ws w = true ->
  encrypted_of_json_text (w ++ s) = encrypted_of_json_text s /\ encrypted_of_json_text (s ++ w) = encrypted_of_json_text s.
Proof.
  intros H. unfold encrypted_of_json_text. rewrite json_pj_leading_ws, json_pj_trailing_ws by exact H. auto.
Qed.

(* the reader against the C09 text parser: whatever that parser accepts is read
   through the same value; the reader accepts more only through a dangling
   exponent marker (then the C09 tokenizer fails on the text) *)
Theorem keyset_text_vs_c09_parser s :
  (forall f, json_parse_text num_keep s = Some f ->
     keyset_of_json_text s = keyset_of_fields f /\ encrypted_of_json_text s = encrypted_of_fields f)
  /\ (json_parse_text num_keep s = None ->
      keyset_of_json_text s <> None \/ encrypted_of_json_text s <> None -> lex num_keep s = None).
Proof.
  unfold keyset_of_json_text, encrypted_of_json_text. split.
  - intros f P. rewrite (json_parse_pj_extends num_keep s f P). auto.
  - intros Q H. destruct (json_parse_text_pj num_keep s) as [f|] eqn:P; [|destruct H as [H|H]; congruence].
    exact (json_parse_pj_differs num_keep s f P Q).
Qed.

(* unknown member name / two members for one field, in the keyset object ... *)
Theorem keyset_unknown_or_duplicate_field f :
  (forall k v, In (k, v) f -> field_number tab_keyset k = None -> keyset_of_fields f = None)
  /\ (forall f1 k1 v1 f2 k2 v2 f3 n, f = f1 ++ (k1, v1) :: f2 ++ (k2, v2) :: f3 ->
        field_number tab_keyset k1 = Some n -> field_number tab_keyset k2 = Some n -> keyset_of_fields f = None).
Proof.
  unfold keyset_of_fields. split.
  - intros k v I U. rewrite (resolve_unknown_field _ _ _ _ I U). reflexivity.
  - intros f1 k1 v1 f2 k2 v2 f3 n -> F1 F2. rewrite (resolve_duplicate_field _ _ _ _ _ _ _ _ _ F1 F2). reflexivity.
Qed.

(* ... in a key object, in a key data object ... *)
Theorem key_unknown_or_duplicate_field f :
  (forall k v, In (k, v) f -> field_number tab_key k = None -> key_of_fields f = None)
  /\ (forall f1 k1 v1 f2 k2 v2 f3 n, f = f1 ++ (k1, v1) :: f2 ++ (k2, v2) :: f3 ->
        field_number tab_key k1 = Some n -> field_number tab_key k2 = Some n -> key_of_fields f = None).
Proof.
  unfold key_of_fields. split.
  - intros k v I U. rewrite (resolve_unknown_field _ _ _ _ I U). reflexivity.
  - intros f1 k1 v1 f2 k2 v2 f3 n -> F1 F2. rewrite (resolve_duplicate_field _ _ _ _ _ _ _ _ _ F1 F2). reflexivity.
Qed.

Theorem keydata_unknown_or_duplicate_field f :
  (forall k v, In (k, v) f -> field_number tab_keydata k = None -> keydata_of_fields f = None)
  /\ (forall f1 k1 v1 f2 k2 v2 f3 n, f = f1 ++ (k1, v1) :: f2 ++ (k2, v2) :: f3 ->
        field_number tab_keydata k1 = Some n -> field_number tab_keydata k2 = Some n -> keydata_of_fields f = None).
Proof.
  unfold keydata_of_fields. split.
  - intros k v I U. rewrite (resolve_unknown_field _ _ _ _ I U). reflexivity.
  - intros f1 k1 v1 f2 k2 v2 f3 n -> F1 F2. rewrite (resolve_duplicate_field _ _ _ _ _ _ _ _ _ F1 F2). reflexivity.
Qed.

(* ... and in the three objects of the encrypted form *)
Theorem encrypted_unknown_or_duplicate_field f :
  (forall k v, In (k, v) f -> field_number tab_encrypted k = None -> encrypted_of_fields f = None)
  /\ (forall f1 k1 v1 f2 k2 v2 f3 n, f = f1 ++ (k1, v1) :: f2 ++ (k2, v2) :: f3 ->
        field_number tab_encrypted k1 = Some n -> field_number tab_encrypted k2 = Some n -> encrypted_of_fields f = None).
Proof.
  unfold encrypted_of_fields. split.
  - intros k v I U. rewrite (resolve_unknown_field _ _ _ _ I U). reflexivity.
  - intros f1 k1 v1 f2 k2 v2 f3 n -> F1 F2. rewrite (resolve_duplicate_field _ _ _ _ _ _ _ _ _ F1 F2). reflexivity.
Qed.

Theorem info_unknown_or_duplicate_field f :
  (forall k v, In (k, v) f -> field_number tab_info k = None -> info_of_fields f = None)
  /\ (forall f1 k1 v1 f2 k2 v2 f3 n, f = f1 ++ (k1, v1) :: f2 ++ (k2, v2) :: f3 ->
        field_number tab_info k1 = Some n -> field_number tab_info k2 = Some n -> info_of_fields f = None).
Proof.
  unfold info_of_fields. split.
  - intros k v I U. rewrite (resolve_unknown_field _ _ _ _ I U). reflexivity.
  - intros f1 k1 v1 f2 k2 v2 f3 n -> F1 F2. rewrite (resolve_duplicate_field _ _ _ _ _ _ _ _ _ F1 F2). reflexivity.
Qed.

Theorem keyinfo_unknown_or_duplicate_field f :
  (forall k v, In (k, v) f -> field_number tab_keyinfo k = None -> keyinfo_of_fields f = None)
  /\ (forall f1 k1 v1 f2 k2 v2 f3 n, f = f1 ++ (k1, v1) :: f2 ++ (k2, v2) :: f3 ->
        field_number tab_keyinfo k1 = Some n -> field_number tab_keyinfo k2 = Some n -> keyinfo_of_fields f = None).
Proof.
  unfold keyinfo_of_fields. split.
  - intros k v I U. rewrite (resolve_unknown_field _ _ _ _ I U). reflexivity.
  - intros f1 k1 v1 f2 k2 v2 f3 n -> F1 F2. rewrite (resolve_duplicate_field _ _ _ _ _ _ _ _ _ F1 F2). reflexivity.
Qed.

(* ... and a refusal inside refuses the whole: an element of "key" that is not
   an accepted key object; a "keyData" that is not an accepted key data object *)
Lemma f_rep_bad_element {A} (dec : fields -> option A) l e :
  In e l -> match e with JObj f => dec f = None | _ => True end -> f_rep dec (Some (JArr l)) = None.
Proof.
  intros I B. cbn [f_rep]. induction l as [|x r IH]; [contradiction|].
  cbn [map_opt]. destruct I as [->|I].
  - destruct e; try reflexivity. rewrite B. reflexivity.
  - rewrite (IH I). destruct (match x with JObj f => dec f | _ => None end); reflexivity.
Qed.

Theorem keyset_bad_key_refused f l es e :
  resolve tab_keyset f [] = Some l -> getf 2 l = Some (JArr es) -> In e es ->
  match e with JObj kf => key_of_fields kf = None | _ => True end -> keyset_of_fields f = None.
Proof.
  intros R G I B. unfold keyset_of_fields. rewrite R, G, (f_rep_bad_element key_of_fields es e I B).
  destruct (f_u32 (getf 1 l)); reflexivity.
Qed.

Theorem key_bad_keydata_refused f l j :
  resolve tab_key f [] = Some l -> getf 1 l = Some j ->
  match j with JObj df => keydata_of_fields df = None | _ => True end -> key_of_fields f = None.
Proof.
  intros R G B. unfold key_of_fields. rewrite R, G. destruct j; try reflexivity.
  cbn [f_msg]. rewrite B. reflexivity.
Qed.

(* a field whose value has the wrong JSON type, a uint32 out of range, an
   unknown enum name, base64 that does not decode: the object is refused *)
Theorem keyset_bad_primary_refused f l j :
  resolve tab_keyset f [] = Some l -> getf 1 l = Some j -> u32_of_json j = None -> keyset_of_fields f = None.
Proof. intros R G B. unfold keyset_of_fields. rewrite R, G. cbn [f_u32]. rewrite B. reflexivity. Qed.

Theorem key_bad_scalar_refused f l :
  resolve tab_key f [] = Some l ->
  (exists j, getf 3 l = Some j /\ u32_of_json j = None)
  \/ (exists j, getf 2 l = Some j /\ enum_of_json status_names j = None)
  \/ (exists j, getf 4 l = Some j /\ enum_of_json prefix_names j = None) ->
  key_of_fields f = None.
Proof.
  intros R H. unfold key_of_fields. rewrite R.
  destruct (f_msg keydata_of_fields (getf 1 l)); [|reflexivity].
  destruct H as [[j [G B]]|[[j [G B]]|[j [G B]]]]; rewrite G; cbn [f_u32 f_enum]; rewrite B.
  - destruct (f_enum status_names (getf 2 l)); reflexivity.
  - reflexivity.
  - destruct (f_enum status_names (getf 2 l)); [|reflexivity]. destruct (f_u32 (getf 3 l)); reflexivity.
Qed.

Theorem keydata_bad_scalar_refused f l :
  resolve tab_keydata f [] = Some l ->
  (exists j, getf 1 l = Some j /\ forall s, j <> JStr s)
  \/ (exists j, getf 2 l = Some j /\ forall s, j = JStr s -> pj_bytes s = None)
  \/ (exists j, getf 3 l = Some j /\ enum_of_json material_names j = None) ->
  keydata_of_fields f = None.
Proof.
  intros R H. unfold keydata_of_fields. rewrite R.
  destruct H as [[j [G B]]|[[j [G B]]|[j [G B]]]]; rewrite G.
  - destruct j; try reflexivity. exfalso. apply (B s). reflexivity.
  - destruct (f_str (getf 1 l)); [|reflexivity]. destruct j; try reflexivity. cbn [f_bytes]. rewrite (B s eq_refl). reflexivity.
  - destruct (f_str (getf 1 l)); [|reflexivity]. destruct (f_bytes (getf 2 l)); [|reflexivity]. cbn [f_enum]. rewrite B. reflexivity.
Qed.

(* ======================================================================== *)
(* THE PRINTER IN PROTOJSON'S STYLE (enum NAMES, standard padded base64,     *)
(* every field present, unset key data as null): its text is read back.      *)
(* This is what exercises name_lookup, the name tables and the padded /      *)
(* standard branch of go_b64.                                                *)
(* ======================================================================== *)

(* ---- standard alphabet, with padding ---- *)
Lemma std_char_val c : b64_val c <> None ->
  gval false (std_char c) = b64_val c /\ is_nl (std_char c) = false
  /\ std_char c <> 61 /\ std_char c <> 45 /\ std_char c <> 95 /\ std_char c < 128.
Proof.
  intros H. unfold std_char.
  destruct (c =? 45) eqn:A; [apply N.eqb_eq in A; subst c; repeat split; try reflexivity; try discriminate; lia|].
  destruct (c =? 95) eqn:B; [apply N.eqb_eq in B; subst c; repeat split; try reflexivity; try discriminate; lia|].
  unfold gval, b64_val, is_nl in *. rewrite A, B in H.
  destruct ((65 <=? c) && (c <=? 90)) eqn:R1; [repeat split; try reflexivity; lia|].
  destruct ((97 <=? c) && (c <=? 122)) eqn:R2; [repeat split; try reflexivity; lia|].
  destruct ((48 <=? c) && (c <=? 57)) eqn:R3; [repeat split; try reflexivity; lia|].
  congruence.
Qed.

Lemma gscan_std s : forall vs tail, map_opt b64_val s = Some vs ->
  (tail = [] \/ exists t, tail = 61 :: t) -> gscan false (map std_char s ++ tail) = Some (vs, tail).
Proof.
  induction s as [|c t IH]; intros vs tail M T.
  - inversion M. cbn [map app]. destruct T as [->|[t ->]]; reflexivity.
  - cbn [map_opt] in M. destruct (b64_val c) as [v|] eqn:Bc; [|discriminate].
    destruct (map_opt b64_val t) as [vt|] eqn:Mt; [|discriminate]. inversion M; subst vs.
    destruct (std_char_val c) as [G [NL _]]; [congruence|].
    cbn [map app gscan]. rewrite NL, G, Bc, (IH vt tail eq_refl T). reflexivity.
Qed.

Lemma std_no_url_chars s tail :
  Forall (fun c => b64_val c <> None) s -> Forall (fun c => c = 61) tail ->
  existsb (fun c => (c =? 45) || (c =? 95)) (map std_char s ++ tail) = false.
Proof.
  intros A T. rewrite existsb_app. apply orb_false_iff. split.
  - induction A as [|c t Hc _ IH]; [reflexivity|]. cbn [map existsb]. rewrite IH.
    destruct (std_char_val c Hc) as [_ [_ [_ [N1 [N2 _]]]]].
    replace (std_char c =? 45) with false by lia. replace (std_char c =? 95) with false by lia. reflexivity.
  - induction T as [|c t -> _ IH]; [reflexivity|]. cbn [existsb]. rewrite IH. reflexivity.
Qed.

Lemma b64_std_encode_ascii v : Forall (fun c => c < 128) (b64_std_encode v).
Proof.
  assert (S : Forall (fun c => c < 128) (map std_char (b64_encode v))).
  { pose proof (b64_encode_alphabet v) as A. apply Forall_forall. intros c Hc. apply in_map_iff in Hc.
    destruct Hc as [x [<- Hx]]. rewrite Forall_forall in A. apply (std_char_val x (A x Hx)). }
  unfold b64_std_encode, b64_pad.
  destruct (length (map std_char (b64_encode v)) mod 4)%nat as [|[|[|[|k]]]]; try exact S;
    apply Forall_app; (split; [exact S|repeat constructor; lia]).
Qed.

Lemma b64_std_encode_utf8 v : utf8_valid (b64_std_encode v) = true.
Proof. apply utf8_ascii. apply b64_std_encode_ascii. Qed.

(* base64.StdEncoding text is read back by protojson's rule (standard
   alphabet chosen by content, padding required because the length is a
   multiple of 4) *)
Lemma pj_bytes_std_tail s vs tail v :
  Forall (fun c => b64_val c <> None) s -> map_opt b64_val s = Some vs -> b64_decode_vals vs = Some v ->
  ((length vs mod 4 = 0)%nat /\ tail = []) \/ ((length vs mod 4 = 2)%nat /\ tail = [61; 61])
  \/ ((length vs mod 4 = 3)%nat /\ tail = [61]) ->
  pj_bytes (map std_char s ++ tail) = Some v.
Proof.
  intros A M D T.
  assert (Lv : length (map std_char s) = length vs) by (rewrite map_length; symmetry; apply (map_opt_length _ _ _ M)).
  unfold pj_bytes, go_b64. rewrite app_length, Lv.
  destruct T as [[J ->]|[[J ->]|[J ->]]].
  - rewrite (std_no_url_chars s [] A) by constructor.
    rewrite (gscan_std s vs [] M) by (left; reflexivity). cbn [length]. rewrite Nat.add_0_r, J. cbn [Nat.eqb orb]. exact D.
  - rewrite (std_no_url_chars s [61; 61] A) by (repeat constructor).
    rewrite (gscan_std s vs [61; 61] M) by (right; eexists; reflexivity).
    cbn [length]. rewrite Nat.add_mod, J by lia. cbn. exact D.
  - rewrite (std_no_url_chars s [61] A) by (repeat constructor).
    rewrite (gscan_std s vs [61] M) by (right; eexists; reflexivity).
    cbn [length]. rewrite Nat.add_mod, J by lia. cbn. exact D.
Qed.

Theorem pj_bytes_std_encode v : wfb v -> pj_bytes (b64_std_encode v) = Some v.
Proof.
  intros W. pose proof (b64_decode_encode v W) as D. unfold b64_decode in D.
  destruct (map_opt b64_val (b64_encode v)) as [vs|] eqn:M; [|discriminate].
  pose proof (b64_encode_alphabet v) as A.
  assert (Lv : length (map std_char (b64_encode v)) = length vs) by (rewrite map_length; symmetry; apply (map_opt_length _ _ _ M)).
  assert (NO : (length vs mod 4 <> 1)%nat) by (apply b64_decode_vals_ok; congruence).
  assert (UB : (length vs mod 4 < 4)%nat) by (apply Nat.mod_upper_bound; lia).
  unfold b64_std_encode, b64_pad. rewrite Lv.
  destruct (length vs mod 4)%nat as [|[|[|[|k]]]] eqn:J; try lia.
  - rewrite <- (app_nil_r (map std_char (b64_encode v))). apply (pj_bytes_std_tail _ vs [] v A M D). auto.
  - apply (pj_bytes_std_tail _ vs _ v A M D). auto.
  - apply (pj_bytes_std_tail _ vs _ v A M D). auto.
Qed.

(* ---- enum names ---- *)
(* every entry is found under its name, and the names are valid UTF-8 *)
Definition names_ok (names : list (bytes * N)) : bool :=
  forallb (fun p => match name_lookup names (fst p) with Some v => v =? snd p | None => false end) names
  && forallb (fun p => utf8_valid (fst p)) names.

Lemma name_of_in names e n : name_of names e = Some n -> In (n, e) names.
Proof.
  induction names as [|[m x] r IH]; cbn [name_of]; [discriminate|].
  destruct (x =? e) eqn:E.
  - intros H. inversion H; subst. apply N.eqb_eq in E. subst. left. reflexivity.
  - intros H. right. apply IH. exact H.
Qed.

Lemma enum_pj_form names e : (exists n, name_of names e = Some n /\ enum_pj names e = JStr n) \/ enum_pj names e = enum_num e.
Proof. unfold enum_pj. destruct (name_of names e) as [n|]; [left; eauto|right; reflexivity]. Qed.

Lemma enum_of_pj names e : names_ok names = true -> e < two32 -> enum_of_json names (enum_pj names e) = Some e.
Proof.
  intros OK L. destruct (enum_pj_form names e) as [[n [N E]]| E]; rewrite E; [|apply enum_of_num; exact L].
  cbn [enum_of_json]. apply name_of_in in N.
  unfold names_ok in OK. apply andb_true_iff in OK. destruct OK as [OK _]. rewrite forallb_forall in OK.
  specialize (OK _ N). cbn [fst snd] in OK. destruct (name_lookup names n) as [v|]; [|discriminate].
  apply N.eqb_eq in OK. subst. reflexivity.
Qed.

Lemma enum_pj_tree names e : names_ok names = true -> e < two32 ->
  json_utf8 (enum_pj names e) = true /\ nodup_names (enum_pj names e) = true
  /\ nums_exact (enum_pj names e) = true /\ jdepth (enum_pj names e) = 1%nat.
Proof.
  intros OK L. destruct (enum_pj_form names e) as [[n [N E]]| E]; rewrite E.
  - apply name_of_in in N. unfold names_ok in OK. apply andb_true_iff in OK. destruct OK as [_ OK].
    rewrite forallb_forall in OK. specialize (OK _ N). repeat split; try reflexivity. exact OK.
  - repeat split; try reflexivity. apply enum_num_exact. exact L.
Qed.

Lemma status_names_ok : names_ok status_names = true. Proof. vm_compute. reflexivity. Qed.
Lemma prefix_names_ok : names_ok prefix_names = true. Proof. vm_compute. reflexivity. Qed.
Lemma material_names_ok : names_ok material_names = true. Proof. vm_compute. reflexivity. Qed.

(* ---- objects ---- *)
Lemma resolve_members tab f nums :
  member_numbers tab f = Some nums -> distinct_from [] nums = true -> resolve tab f [] = Some (set_members nums f).
Proof. intros M D. apply resolve_spec. exists nums. auto. Qed.

Lemma enum_pj_not_null names e : enum_pj names e <> JNull.
Proof. destruct (enum_pj_form names e) as [[n [_ E]]|E]; rewrite E; discriminate. Qed.

(* an enum value is never null: the null test of set_members falls through *)
Lemma match_enum_pj {A} names e (x y : A) :
  match enum_pj names e with JNull => x | _ => y end = y.
Proof. destruct (enum_pj_form names e) as [[m [_ E]]|E]; rewrite E; reflexivity. Qed.

Lemma keydata_pj_inv d : keydata_ok d = true -> keydata_of_fields (fields_pj_of_keydata d) = Some d.
Proof.
  unfold keydata_ok. intros H. apply andb_true_iff in H. destruct H as [H M]. apply andb_true_iff in H. destruct H as [U V].
  unfold keydata_of_fields, fields_pj_of_keydata.
  rewrite (resolve_members tab_keydata [(n_typeUrl, _); (n_value, _); (n_keyMaterialType, _)] [1; 2; 3] eq_refl eq_refl).
  cbn [set_members]. rewrite !match_enum_pj. cbn [getf N.eqb Pos.eqb f_str f_bytes].
  rewrite (pj_bytes_std_encode _ (bytes_okb_wfb _ V)).
  unfold f_enum. rewrite (enum_of_pj _ _ material_names_ok) by lia. destruct d; reflexivity.
Qed.

Lemma key_pj_inv k : key_ok k = true -> key_of_fields (fields_pj_of_key k) = Some k.
Proof.
  unfold key_ok. intros H. apply andb_true_iff in H. destruct H as [H P]. apply andb_true_iff in H. destruct H as [H I].
  apply andb_true_iff in H. destruct H as [D S].
  unfold key_of_fields, fields_pj_of_key.
  rewrite (resolve_members tab_key [(n_keyData, _); (n_status, _); (n_keyId, _); (n_outputPrefixType, _)] [1; 2; 3; 4] eq_refl eq_refl).
  destruct k as [[d|] st id p]; cbn [jk_data jk_status jk_id jk_prefix] in *;
    unfold u32_num; cbn [set_members]; rewrite !match_enum_pj; cbn [getf N.eqb Pos.eqb f_msg].
  - rewrite (keydata_pj_inv d D). fold (u32_num id). unfold f_enum, f_u32.
    rewrite (enum_of_pj _ _ status_names_ok), (enum_of_pj _ _ prefix_names_ok), u32_of_num by lia. reflexivity.
  - fold (u32_num id). unfold f_enum, f_u32.
    rewrite (enum_of_pj _ _ status_names_ok), (enum_of_pj _ _ prefix_names_ok), u32_of_num by lia. reflexivity.
Qed.

Theorem keyset_pj_inv ks : keyset_ok ks = true -> keyset_of_fields (fields_pj_of_keyset ks) = Some ks.
Proof.
  unfold keyset_ok. intros H. apply andb_true_iff in H. destruct H as [P K].
  unfold keyset_of_fields, fields_pj_of_keyset, u32_num. rewrite resolve_keyset. cbn [getf N.eqb Pos.eqb].
  fold (u32_num (jks_primary ks)). unfold f_u32. rewrite u32_of_num by lia.
  rewrite (f_rep_inv key_of_fields fields_pj_of_key).
  - destruct ks; reflexivity.
  - intros k Hk. apply key_pj_inv. rewrite forallb_forall in K. apply K. exact Hk.
Qed.

Lemma keyinfo_pj_inv k : keyinfo_ok k = true -> keyinfo_of_fields (fields_pj_of_keyinfo k) = Some k.
Proof.
  unfold keyinfo_ok. intros H. apply andb_true_iff in H. destruct H as [H P]. apply andb_true_iff in H. destruct H as [H I].
  apply andb_true_iff in H. destruct H as [U S].
  unfold keyinfo_of_fields, fields_pj_of_keyinfo. destruct k as [u st id p]; cbn [ji_url ji_status ji_id ji_prefix] in *.
  rewrite (resolve_members tab_keyinfo [(n_typeUrl, _); (n_status, _); (n_keyId, _); (n_outputPrefixType, _)] [1; 2; 3; 4] eq_refl eq_refl).
  unfold u32_num. cbn [set_members]. rewrite !match_enum_pj. cbn [getf N.eqb Pos.eqb f_str]. fold (u32_num id). unfold f_enum, f_u32.
  rewrite (enum_of_pj _ _ status_names_ok), (enum_of_pj _ _ prefix_names_ok), u32_of_num by lia. reflexivity.
Qed.

Lemma info_pj_inv i : info_ok i = true -> info_of_fields (fields_pj_of_info i) = Some i.
Proof.
  unfold info_ok. intros H. apply andb_true_iff in H. destruct H as [P K].
  unfold info_of_fields, fields_pj_of_info, u32_num. rewrite resolve_info. cbn [getf N.eqb Pos.eqb].
  fold (u32_num (jn_primary i)). unfold f_u32. rewrite u32_of_num by lia.
  rewrite (f_rep_inv keyinfo_of_fields fields_pj_of_keyinfo).
  - destruct i; reflexivity.
  - intros k Hk. apply keyinfo_pj_inv. rewrite forallb_forall in K. apply K. exact Hk.
Qed.

Theorem encrypted_pj_inv e : encrypted_ok e = true -> encrypted_of_fields (fields_pj_of_encrypted e) = Some e.
Proof.
  unfold encrypted_ok. intros H. apply andb_true_iff in H. destruct H as [C I].
  unfold encrypted_of_fields, fields_pj_of_encrypted.
  rewrite (resolve_members tab_encrypted [(n_encryptedKeyset, _); (n_keysetInfo, _)] [2; 3] eq_refl eq_refl).
  destruct e as [ct [i|]]; cbn [je_ct je_info] in *; cbn [set_members getf N.eqb Pos.eqb f_bytes f_msg].
  - rewrite (pj_bytes_std_encode _ (bytes_okb_wfb _ C)), (info_pj_inv i I). reflexivity.
  - rewrite (pj_bytes_std_encode _ (bytes_okb_wfb _ C)). reflexivity.
Qed.

(* ---- the value trees are in the domain of the text printer ---- *)
Lemma keydata_pj_tree_ok d : keydata_ok d = true -> tree_ok (JObj (fields_pj_of_keydata d)) 2.
Proof.
  unfold keydata_ok. intros H. apply andb_true_iff in H. destruct H as [H M]. apply andb_true_iff in H. destruct H as [U V].
  destruct (enum_pj_tree _ _ material_names_ok (proj1 (N.ltb_lt _ _) M)) as [A [B [C D]]].
  unfold tree_ok, fields_pj_of_keydata. split; [|split; [|split]].
  - cbn [json_utf8 forallb fst snd]. names_utf8. rewrite U, b64_std_encode_utf8, A. reflexivity.
  - cbn [nodup_names names_unique has forallb snd]. rewrite B. reflexivity.
  - cbn [nums_exact forallb snd]. rewrite C. reflexivity.
  - cbn [jdepth map snd list_max fold_right]. rewrite D. cbn. lia.
Qed.

Lemma key_pj_tree_ok k : key_ok k = true -> tree_ok (JObj (fields_pj_of_key k)) 3.
Proof.
  unfold key_ok. intros H. apply andb_true_iff in H. destruct H as [H P]. apply andb_true_iff in H. destruct H as [H I].
  apply andb_true_iff in H. destruct H as [D S].
  destruct (enum_pj_tree _ _ status_names_ok (proj1 (N.ltb_lt _ _) S)) as [A1 [B1 [C1 D1]]].
  destruct (enum_pj_tree _ _ prefix_names_ok (proj1 (N.ltb_lt _ _) P)) as [A2 [B2 [C2 D2]]].
  assert (E3 := u32_num_exact _ (proj1 (N.ltb_lt _ _) I)).
  unfold tree_ok, fields_pj_of_key. destruct (jk_data k) as [d|].
  - destruct (keydata_pj_tree_ok d D) as [A [B [C Dp]]]. split; [|split; [|split]].
    + cbn [json_utf8 forallb fst snd] in *. names_utf8. rewrite A, A1, A2. reflexivity.
    + cbn [nodup_names names_unique has forallb snd] in *. rewrite B, B1, B2. reflexivity.
    + cbn [nums_exact forallb snd] in *. rewrite C, C1, C2, E3. reflexivity.
    + cbn [jdepth map snd list_max fold_right] in *. rewrite D1, D2. unfold u32_num. cbn [jdepth]. lia.
  - split; [|split; [|split]].
    + cbn [json_utf8 forallb fst snd]. names_utf8. rewrite A1, A2. reflexivity.
    + cbn [nodup_names names_unique has forallb snd]. rewrite B1, B2. reflexivity.
    + cbn [nums_exact forallb snd]. rewrite C1, C2, E3. reflexivity.
    + cbn [jdepth map snd list_max fold_right]. rewrite D1, D2. unfold u32_num. cbn [jdepth]. lia.
Qed.

Lemma keyset_pj_tree_ok ks : keyset_ok ks = true -> tree_ok (JObj (fields_pj_of_keyset ks)) 5.
Proof.
  unfold keyset_ok. intros H. apply andb_true_iff in H. destruct H as [P K].
  assert (E := u32_num_exact _ (proj1 (N.ltb_lt _ _) P)).
  destruct (arr_tree_ok fields_pj_of_key (jks_keys ks) 3) as [A [B [C D]]].
  { intros k Hk. apply key_pj_tree_ok. rewrite forallb_forall in K. apply K. exact Hk. }
  unfold tree_ok, fields_pj_of_keyset. split; [|split; [|split]].
  - cbn [json_utf8 forallb] in *. names_utf8. rewrite A. reflexivity.
  - cbn [nodup_names forallb snd] in *. rewrite B. reflexivity.
  - cbn [nums_exact forallb snd] in *. rewrite C, E. reflexivity.
  - cbn [jdepth map snd list_max fold_right] in *. unfold u32_num. cbn [jdepth]. lia.
Qed.

Lemma keyinfo_pj_tree_ok k : keyinfo_ok k = true -> tree_ok (JObj (fields_pj_of_keyinfo k)) 2.
Proof.
  unfold keyinfo_ok. intros H. apply andb_true_iff in H. destruct H as [H P]. apply andb_true_iff in H. destruct H as [H I].
  apply andb_true_iff in H. destruct H as [U S].
  destruct (enum_pj_tree _ _ status_names_ok (proj1 (N.ltb_lt _ _) S)) as [A1 [B1 [C1 D1]]].
  destruct (enum_pj_tree _ _ prefix_names_ok (proj1 (N.ltb_lt _ _) P)) as [A2 [B2 [C2 D2]]].
  assert (E3 := u32_num_exact _ (proj1 (N.ltb_lt _ _) I)).
  unfold tree_ok, fields_pj_of_keyinfo. split; [|split; [|split]].
  - cbn [json_utf8 forallb fst snd]. names_utf8. rewrite U, A1, A2. reflexivity.
  - cbn [nodup_names names_unique has forallb snd]. rewrite B1, B2. reflexivity.
  - cbn [nums_exact forallb snd]. rewrite C1, C2, E3. reflexivity.
  - cbn [jdepth map snd list_max fold_right]. rewrite D1, D2. unfold u32_num. cbn [jdepth]. lia.
Qed.

Lemma info_pj_tree_ok i : info_ok i = true -> tree_ok (JObj (fields_pj_of_info i)) 4.
Proof.
  unfold info_ok. intros H. apply andb_true_iff in H. destruct H as [P K].
  assert (E := u32_num_exact _ (proj1 (N.ltb_lt _ _) P)).
  destruct (arr_tree_ok fields_pj_of_keyinfo (jn_keys i) 2) as [A [B [C D]]].
  { intros k Hk. apply keyinfo_pj_tree_ok. rewrite forallb_forall in K. apply K. exact Hk. }
  unfold tree_ok, fields_pj_of_info. split; [|split; [|split]].
  - cbn [json_utf8 forallb] in *. names_utf8. rewrite A. reflexivity.
  - cbn [nodup_names forallb snd] in *. rewrite B. reflexivity.
  - cbn [nums_exact forallb snd] in *. rewrite C, E. reflexivity.
  - cbn [jdepth map snd list_max fold_right] in *. unfold u32_num. cbn [jdepth]. lia.
Qed.

Lemma encrypted_pj_tree_ok e : encrypted_ok e = true -> tree_ok (JObj (fields_pj_of_encrypted e)) 5.
Proof.
  unfold encrypted_ok. intros H. apply andb_true_iff in H. destruct H as [C I].
  unfold tree_ok, fields_pj_of_encrypted. destruct (je_info e) as [i|].
  - destruct (info_pj_tree_ok i I) as [A [B [Cx D]]]. split; [|split; [|split]].
    + cbn [json_utf8 forallb] in *. names_utf8. rewrite b64_std_encode_utf8, A. reflexivity.
    + cbn [nodup_names forallb snd] in *. rewrite B. reflexivity.
    + cbn [nums_exact forallb snd] in *. rewrite Cx. reflexivity.
    + cbn [jdepth map snd list_max fold_right] in *. lia.
  - split; [|split; [|split]].
    + cbn [json_utf8 forallb]. names_utf8. rewrite b64_std_encode_utf8. reflexivity.
    + reflexivity.
    + reflexivity.
    + cbn. lia.
Qed.

(* (a') the reader on the text of the protojson-style printer *)
Theorem keyset_pj_text_roundtrip ks :
  keyset_ok ks = true -> keyset_of_json_text (json_text_pj_of_keyset ks) = Some ks.
Proof.
  intros H. unfold keyset_of_json_text, json_text_pj_of_keyset.
  rewrite (json_parse_pj_extends num_keep _ (fields_pj_of_keyset ks))
    by (apply json_print_parse_roundtrip; apply (tree_ok_printable _ 5); [apply keyset_pj_tree_ok; exact H|lia]).
  apply keyset_pj_inv. exact H.
Qed.

Theorem encrypted_pj_text_roundtrip e :
  encrypted_ok e = true -> encrypted_of_json_text (json_text_pj_of_encrypted e) = Some e.
Proof.
  intros H. unfold encrypted_of_json_text, json_text_pj_of_encrypted.
  rewrite (json_parse_pj_extends num_keep _ (fields_pj_of_encrypted e))
    by (apply json_print_parse_roundtrip; apply (tree_ok_printable _ 5); [apply encrypted_pj_tree_ok; exact H|lia]).
  apply encrypted_pj_inv. exact H.
Qed.

(* ---- every enum NAME of the three tables, in a text of protojson's form ---- *)
Module EnumNamesExample.
  Import String JsonStrings.
  (* six keys: the 4 status names, the 6 prefix names, the 5 key material names,
     an unset key data (null), numbers without a name (7, -1 = 4294967295) *)
  Definition ks : jkeyset :=
    mkJKS 4294967295
      [mkJK (Some (mkJD (bs "t") [0; 255] 0)) 0 1 0;
       mkJK (Some (mkJD (bs "t") [1] 1)) 1 2 1;
       mkJK (Some (mkJD (bs "t") [1; 2] 2)) 2 3 2;
       mkJK (Some (mkJD (bs "t") [251; 255; 254] 3)) 3 4 3;
       mkJK (Some (mkJD (bs "t") [] 4)) 7 5 4;
       mkJK None 4294967295 0 5].
  Definition text : bytes :=
    bs "{""primaryKeyId"":4294967295,""key"":["
    ++ bs "{""keyData"":{""typeUrl"":""t"",""value"":""AP8="",""keyMaterialType"":""UNKNOWN_KEYMATERIAL""},""status"":""UNKNOWN_STATUS"",""keyId"":1,""outputPrefixType"":""UNKNOWN_PREFIX""},"
    ++ bs "{""keyData"":{""typeUrl"":""t"",""value"":""AQ=="",""keyMaterialType"":""SYMMETRIC""},""status"":""ENABLED"",""keyId"":2,""outputPrefixType"":""TINK""},"
    ++ bs "{""keyData"":{""typeUrl"":""t"",""value"":""AQI="",""keyMaterialType"":""ASYMMETRIC_PRIVATE""},""status"":""DISABLED"",""keyId"":3,""outputPrefixType"":""LEGACY""},"
    ++ bs "{""keyData"":{""typeUrl"":""t"",""value"":""+//+"",""keyMaterialType"":""ASYMMETRIC_PUBLIC""},""status"":""DESTROYED"",""keyId"":4,""outputPrefixType"":""RAW""},"
    ++ bs "{""keyData"":{""typeUrl"":""t"",""value"":"""",""keyMaterialType"":""REMOTE""},""status"":7,""keyId"":5,""outputPrefixType"":""CRUNCHY""},"
    ++ bs "{""keyData"":null,""status"":-1,""keyId"":0,""outputPrefixType"":""WITH_ID_REQUIREMENT""}]}".
  Definition info : jencrypted :=
    mkJE [1; 2; 3; 4] (Some (mkJInfo 2 [mkJI (bs "t") 1 2 5; mkJI [] 3 0 4294967295])).
  Definition info_text : bytes :=
    bs "{""encryptedKeyset"":""AQIDBA=="",""keysetInfo"":{""primaryKeyId"":2,""keyInfo"":["
    ++ bs "{""typeUrl"":""t"",""status"":""ENABLED"",""keyId"":2,""outputPrefixType"":""WITH_ID_REQUIREMENT""},"
    ++ bs "{""typeUrl"":"""",""status"":""DESTROYED"",""keyId"":0,""outputPrefixType"":-1}]}}".

  Lemma facts :
    keyset_ok ks = true /\ json_text_pj_of_keyset ks = text /\ keyset_of_json_text text = Some ks
    /\ encrypted_ok info = true /\ json_text_pj_of_encrypted info = info_text
    /\ encrypted_of_json_text info_text = Some info
    (* every name of every table occurs in the text and is read through name_lookup *)
    /\ map (fun k => jk_status k) (jks_keys ks) = [0; 1; 2; 3; 7; 4294967295]
    /\ map (fun k => jk_prefix k) (jks_keys ks) = [0; 1; 2; 3; 4; 5]
    /\ map (fun p => name_lookup status_names (fst p)) status_names = map (fun p => Some (snd p)) status_names
    /\ map (fun p => name_lookup prefix_names (fst p)) prefix_names = map (fun p => Some (snd p)) prefix_names
    /\ map (fun p => name_lookup material_names (fst p)) material_names = map (fun p => Some (snd p)) material_names
    /\ map fst status_names = [bs "UNKNOWN_STATUS"; bs "ENABLED"; bs "DISABLED"; bs "DESTROYED"]
    /\ map fst prefix_names = [bs "UNKNOWN_PREFIX"; bs "TINK"; bs "LEGACY"; bs "RAW"; bs "CRUNCHY"; bs "WITH_ID_REQUIREMENT"]
    /\ map fst material_names = [bs "UNKNOWN_KEYMATERIAL"; bs "SYMMETRIC"; bs "ASYMMETRIC_PRIVATE"; bs "ASYMMETRIC_PUBLIC"; bs "REMOTE"]
    (* the dangling exponent marker: read as the number, bare and in the string form *)
    /\ keyset_of_json_text (bs "{""primaryKeyId"":1e}") = Some (mkJKS 1 [])
    /\ keyset_of_json_text (bs "{""primaryKeyId"":""5e x"",""key"":[{""status"":2E ,""keyId"":1.0e}]}") = Some (mkJKS 5 [mkJK None 2 1 0])
    /\ keyset_of_json_text (bs "{""primaryKeyId"":""1e""}") = None
    /\ keyset_of_json_text (bs "{""primaryKeyId"":1e+}") = None
    /\ json_parse_text num_keep (bs "{""primaryKeyId"":1e}") = None
    /\ json_parse_text_pj num_keep (bs "{""primaryKeyId"":1e}") = Some [(n_primaryKeyId, JNum 1 [])].
  Proof. repeat split; vm_compute; reflexivity. Qed.
End EnumNamesExample.
