(* The inverse NTT of the model inverts the NTT (model/MldsaPoly.v, loops of
   algebra.go ntt/intt over the regenerated kernels and the regenerated zetas
   table): intt (ntt p) = p for every polynomial with canonical coefficients.
   Layer by layer: the Gentleman-Sande block with twiddle -zetas[m'] undoes the
   Cooley-Tukey block with twiddle zetas[m] up to a factor 2, because
   zetas[m] * (-zetas[m']) = 1 (mod q) for the mirrored index m' (checked on
   the regenerated table); eight layers give 256, removed by inv256. *)
From Coq Require Import List ZArith NArith Bool Arith Lia Setoid Morphisms.
From Tink Require Import Bytes Wrap MldsaScalar MldsaScalarProofs MldsaTableProofs
  MldsaKernels MldsaKernelsProofs MldsaPoly MldsaHintProofs.
Import ListNotations.
Local Open Scope Z_scope.

Definition canon (p : list Z) : Prop := Forall (fun c => 0 <= c < q) p.
Definition scale (c : Z) (p : list Z) : list Z := map (fun x => (c * x) mod q) p.

Lemma q_pos : 0 < q. Proof. reflexivity. Qed.
Lemma mod_q_range x : 0 <= x mod q < q. Proof. apply Z.mod_pos_bound. exact q_pos. Qed.

(* ---- congruence modulo q as a setoid ---- *)
Definition cong (a b : Z) : Prop := a mod q = b mod q.
#[global] Instance cong_equiv : Equivalence cong.
Proof. split; unfold cong; [intros x; reflexivity | intros x y H; symmetry; exact H | intros x y z H1 H2; congruence]. Qed.
#[global] Instance cong_add : Proper (cong ==> cong ==> cong) Z.add.
Proof. intros a b H c d H'. unfold cong in *. rewrite Zplus_mod, H, H', <- Zplus_mod. reflexivity. Qed.
#[global] Instance cong_sub : Proper (cong ==> cong ==> cong) Z.sub.
Proof. intros a b H c d H'. unfold cong in *. rewrite Zminus_mod, H, H', <- Zminus_mod. reflexivity. Qed.
#[global] Instance cong_mul : Proper (cong ==> cong ==> cong) Z.mul.
Proof. intros a b H c d H'. unfold cong in *. rewrite Zmult_mod, H, H', <- Zmult_mod. reflexivity. Qed.
Lemma cong_mod a : cong (a mod q) a.
Proof. unfold cong. apply Z.mod_mod. unfold q. lia. Qed.
Lemma cong_eq a b : a = b -> cong a b. Proof. intros ->. reflexivity. Qed.
Ltac strip_mods := rewrite_strat (topdown (repeat cong_mod)).

(* ---- the butterfly pair on scalars ---- *)
Lemma butterfly_lo a b c z : 0 <= a < q -> 0 <= b < q -> 0 <= c < q -> 0 <= z < q ->
  k_add ((c * k_add a (k_mul z b)) mod q) ((c * k_sub a (k_mul z b)) mod q) = ((2 * c) mod q * a) mod q.
Proof.
  intros Ha Hb Hc Hz.
  rewrite (k_mul_spec z b) by auto.
  rewrite (k_add_spec a) by (auto using mod_q_range).
  rewrite (k_sub_spec a) by (auto using mod_q_range).
  rewrite k_add_spec by (auto using mod_q_range).
  match goal with |- ?x mod q = ?y mod q => change (cong x y) end.
  strip_mods. apply cong_eq. ring.
Qed.

Lemma butterfly_hi a b c z z' : 0 <= a < q -> 0 <= b < q -> 0 <= c < q -> 0 <= z < q -> 0 <= z' < q ->
  (z * z') mod q = 1 ->
  k_mul z' (k_sub ((c * k_add a (k_mul z b)) mod q) ((c * k_sub a (k_mul z b)) mod q)) = ((2 * c) mod q * b) mod q.
Proof.
  intros Ha Hb Hc Hz Hz' Hzz.
  rewrite (k_mul_spec z b) by auto.
  rewrite (k_add_spec a) by (auto using mod_q_range).
  rewrite (k_sub_spec a) by (auto using mod_q_range).
  rewrite k_sub_spec by (auto using mod_q_range).
  rewrite k_mul_spec by (auto using mod_q_range).
  match goal with |- ?x mod q = ?y mod q => change (cong x y) end.
  strip_mods.
  assert (C : cong (z * z') 1) by (unfold cong; rewrite Hzz; reflexivity).
  transitivity ((2 * c * b) * (z * z')); [apply cong_eq; ring|].
  rewrite C. apply cong_eq. ring.
Qed.

(* ---- one block on lists ---- *)
Lemma map2_length {A B C} (f : A -> B -> C) a b : length a = length b -> length (map2 f a b) = length a.
Proof. revert b; induction a as [|x a IH]; destruct b; simpl; intros H; try discriminate; auto. Qed.

Lemma block_pair lo hi c z z' : length lo = length hi -> canon lo -> canon hi ->
  0 <= c < q -> 0 <= z < q -> 0 <= z' < q -> (z * z') mod q = 1 ->
  let t := map (k_mul z) hi in
  let A := scale c (map2 k_add lo t) in
  let B := scale c (map2 k_sub lo t) in
  map2 k_add A B = scale ((2 * c) mod q) lo /\
  map (k_mul z') (map2 k_sub A B) = scale ((2 * c) mod q) hi.
Proof.
  intros Hl Hlo Hhi Hc Hz Hz' Hzz. cbv zeta. revert hi Hl Hhi.
  induction Hlo as [|a lo Ha Hlo IH]; intros hi Hl Hhi; destruct hi as [|b hi]; try discriminate; [split; reflexivity|].
  inversion Hhi as [|? ? Hb Hhi']. subst. simpl in Hl. injection Hl as Hl.
  destruct (IH hi Hl Hhi') as [I1 I2]. cbn [map map2 scale]. split.
  - f_equal; [apply butterfly_lo; auto | exact I1].
  - f_equal; [apply butterfly_hi; auto | exact I2].
Qed.

Lemma scale_app c a b : scale c (a ++ b) = scale c a ++ scale c b.
Proof. apply map_app. Qed.
Lemma scale_length c a : length (scale c a) = length a.
Proof. apply map_length. Qed.

Lemma canon_app a b : canon (a ++ b) <-> canon a /\ canon b.
Proof. apply Forall_app. Qed.
Lemma canon_firstn n a : canon a -> canon (firstn n a).
Proof. intros H. rewrite <- (firstn_skipn n a) in H. apply canon_app in H. tauto. Qed.
Lemma canon_skipn n a : canon a -> canon (skipn n a).
Proof. intros H. rewrite <- (firstn_skipn n a) in H. apply canon_app in H. tauto. Qed.

Lemma canon_map2_add a b : canon a -> canon b -> canon (map2 k_add a b).
Proof.
  intros Ha. revert b. induction Ha as [|x a Hx Ha IH]; intros b Hb; destruct b as [|y b]; try constructor.
  - inversion Hb; subst. rewrite k_add_spec by auto. apply mod_q_range.
  - inversion Hb; subst. apply IH; auto.
Qed.
Lemma canon_map2_sub a b : canon a -> canon b -> canon (map2 k_sub a b).
Proof.
  intros Ha. revert b. induction Ha as [|x a Hx Ha IH]; intros b Hb; destruct b as [|y b]; try constructor.
  - inversion Hb; subst. rewrite k_sub_spec by auto. apply mod_q_range.
  - inversion Hb; subst. apply IH; auto.
Qed.
Lemma canon_map_mul z a : 0 <= z < q -> canon a -> canon (map (k_mul z) a).
Proof.
  intros Hz Ha. apply Forall_map. eapply Forall_impl; [|exact Ha]. intros x Hx. cbv beta.
  rewrite k_mul_spec by auto. apply mod_q_range.
Qed.
Lemma canon_scale c a : canon (scale c a).
Proof. apply Forall_map. apply Forall_forall. intros x _. apply mod_q_range. Qed.

(* ---- the zetas table ---- *)
Lemma zeta_at_range m : 0 <= zeta_at m < q.
Proof.
  unfold zeta_at. destruct (Nat.lt_ge_cases m 256) as [H|H].
  - pose proof zetas_in_range as R. rewrite forallb_forall in R.
    specialize (R (nth m mldsa_zetas 0)).
    assert (I : In (nth m mldsa_zetas 0) mldsa_zetas) by (apply nth_In; rewrite zetas_length; exact H).
    apply R in I. apply andb_true_iff in I. destruct I as [I1 I2].
    apply Z.leb_le in I1. apply Z.ltb_lt in I2. unfold q. change mldsa_q with 8380417 in I2. lia.
  - rewrite nth_overflow by (rewrite zetas_length; exact H). unfold q. lia.
Qed.

Lemma k_neg_range a : 0 <= a < q -> 0 <= k_neg a < q.
Proof. intros H. rewrite k_neg_spec by auto. apply mod_q_range. Qed.

(* twiddles of the forward block b of a layer (Go variable m before the layer)
   and of the inverse block b (Go variable m' before the layer) are inverse *)
Definition pair_ok (m m' nb : nat) : bool :=
  forallb (fun b => (zeta_at (S m + b) * k_neg (zeta_at (m' - 1 - b))) mod q =? 1) (seq 0 nb).

Lemma pair_ok_spec m m' nb : pair_ok m m' nb = true ->
  forall b, (b < nb)%nat -> (zeta_at (S m + b) * k_neg (zeta_at (m' - 1 - b))) mod q = 1.
Proof.
  intros H b Hb. unfold pair_ok in H. rewrite forallb_forall in H.
  apply Z.eqb_eq. apply H. apply in_seq. lia.
Qed.

(* ---- one layer ---- *)
Lemma ntt_blocks_props nb : forall len m p, length p = (nb * (2 * len))%nat -> canon p ->
  length (ntt_blocks nb len m p) = length p /\ canon (ntt_blocks nb len m p).
Proof.
  induction nb as [|nb IH]; intros len m p Hl Hc.
  - destruct p; [split; [reflexivity|constructor] | simpl in Hl; discriminate].
  - cbn [ntt_blocks].
    set (lo := firstn len p). set (hi := firstn len (skipn len p)).
    assert (Llo : length lo = len) by (unfold lo; rewrite firstn_length; lia).
    assert (Lhi : length hi = len) by (unfold hi; rewrite firstn_length, skipn_length; lia).
    assert (Clo : canon lo) by (apply canon_firstn; auto).
    assert (Chi : canon hi) by (apply canon_firstn, canon_skipn; auto).
    assert (Ct : canon (map (k_mul (zeta_at (S m))) hi)) by (apply canon_map_mul; auto using zeta_at_range).
    destruct (IH len (S m) (skipn (2 * len) p)) as [L C];
      [rewrite skipn_length; lia | apply canon_skipn; auto |].
    split.
    + rewrite !app_length, !map2_length, L, skipn_length by (rewrite ?map_length; lia). lia.
    + apply canon_app. split; [apply canon_map2_add; auto|].
      apply canon_app. split; [apply canon_map2_sub; auto | exact C].
Qed.

Lemma layer_inverse nb : forall len m m' p c,
  length p = (nb * (2 * len))%nat -> canon p -> 0 <= c < q ->
  (forall b, (b < nb)%nat -> (zeta_at (S m + b) * k_neg (zeta_at (m' - 1 - b))) mod q = 1) ->
  intt_blocks nb len m' (scale c (ntt_blocks nb len m p)) = scale ((2 * c) mod q) p.
Proof.
  induction nb as [|nb IH]; intros len m m' p c Hl Hc Hcc Hp.
  - destruct p; [reflexivity | simpl in Hl; discriminate].
  - cbn [ntt_blocks].
    set (lo := firstn len p). set (hi := firstn len (skipn len p)). set (rest := skipn (2 * len) p).
    assert (Ep : p = lo ++ hi ++ rest).
    { unfold lo, hi, rest. rewrite <- (firstn_skipn len p) at 1. f_equal.
      rewrite <- (firstn_skipn len (skipn len p)) at 1. f_equal.
      rewrite skipn_add. f_equal. lia. }
    assert (Llo : length lo = len) by (unfold lo; rewrite firstn_length; lia).
    assert (Lhi : length hi = len) by (unfold hi; rewrite firstn_length, skipn_length; lia).
    assert (Clo : canon lo) by (apply canon_firstn; auto).
    assert (Chi : canon hi) by (apply canon_firstn, canon_skipn; auto).
    assert (Crest : canon rest) by (apply canon_skipn; auto).
    assert (Lrest : length rest = (nb * (2 * len))%nat) by (unfold rest; rewrite skipn_length; lia).
    set (z := zeta_at (S m)). set (t := map (k_mul z) hi).
    rewrite !scale_app.
    set (A := scale c (map2 k_add lo t)). set (B := scale c (map2 k_sub lo t)).
    assert (LA : length A = len) by (unfold A; rewrite scale_length, map2_length; unfold t; rewrite ?map_length; lia).
    assert (LB : length B = len) by (unfold B; rewrite scale_length, map2_length; unfold t; rewrite ?map_length; lia).
    cbn [intt_blocks].
    replace (firstn len (A ++ B ++ scale c (ntt_blocks nb len (S m) rest))) with A
      by (rewrite firstn_app, LA, Nat.sub_diag, firstn_O, app_nil_r, <- LA, firstn_all; reflexivity).
    replace (skipn len (A ++ B ++ scale c (ntt_blocks nb len (S m) rest)))
      with (B ++ scale c (ntt_blocks nb len (S m) rest))
      by (rewrite skipn_app, LA, Nat.sub_diag, <- LA, skipn_all; reflexivity).
    replace (firstn len (B ++ scale c (ntt_blocks nb len (S m) rest))) with B
      by (rewrite firstn_app, LB, Nat.sub_diag, firstn_O, app_nil_r, <- LB, firstn_all; reflexivity).
    replace (skipn (2 * len) (A ++ B ++ scale c (ntt_blocks nb len (S m) rest)))
      with (scale c (ntt_blocks nb len (S m) rest)).
    2:{ rewrite app_assoc, skipn_app, app_length, LA, LB.
        replace (2 * len - (len + len))%nat with 0%nat by lia.
        rewrite skipn_all2 by (rewrite app_length; lia). reflexivity. }
    set (z' := k_neg (zeta_at (Nat.pred m'))).
    assert (Hzz : (z * z') mod q = 1).
    { specialize (Hp 0%nat ltac:(lia)). rewrite Nat.add_0_r, Nat.sub_0_r in Hp.
      replace (m' - 1)%nat with (Nat.pred m') in Hp by lia. exact Hp. }
    destruct (block_pair lo hi c z z') as [P1 P2]; auto; try lia.
    { apply zeta_at_range. } { apply k_neg_range, zeta_at_range. }
    cbv zeta in P1, P2. fold t A B in P1, P2. rewrite P1, P2.
    rewrite (IH len (S m) (Nat.pred m') rest c); auto.
    + rewrite <- !scale_app, <- Ep. reflexivity.
    + intros b Hb. specialize (Hp (S b) ltac:(lia)).
      replace (S (S m) + b)%nat with (S m + S b)%nat by lia.
      replace (Nat.pred m' - 1 - b)%nat with (m' - 1 - S b)%nat by lia. exact Hp.
Qed.

(* ---- the eight layers ---- *)
Lemma ntt_unfold p : ntt p =
  ntt_blocks 128 1 127 (ntt_blocks 64 2 63 (ntt_blocks 32 4 31 (ntt_blocks 16 8 15
  (ntt_blocks 8 16 7 (ntt_blocks 4 32 3 (ntt_blocks 2 64 1 (ntt_blocks 1 128 0 p))))))).
Proof. reflexivity. Qed.

Lemma intt_unfold p : intt p = map (k_mul mldsa_inv256)
  (intt_blocks 1 128 2 (intt_blocks 2 64 4 (intt_blocks 4 32 8 (intt_blocks 8 16 16
  (intt_blocks 16 8 32 (intt_blocks 32 4 64 (intt_blocks 64 2 128 (intt_blocks 128 1 256 p)))))))).
Proof. reflexivity. Qed.

Lemma pairs_all :
  pair_ok 127 256 128 = true /\ pair_ok 63 128 64 = true /\ pair_ok 31 64 32 = true /\
  pair_ok 15 32 16 = true /\ pair_ok 7 16 8 = true /\ pair_ok 3 8 4 = true /\
  pair_ok 1 4 2 = true /\ pair_ok 0 2 1 = true.
Proof. repeat split; vm_compute; reflexivity. Qed.

Lemma scale_1 p : canon p -> scale 1 p = p.
Proof.
  intros H. unfold scale. rewrite <- (map_id p) at 2. apply map_ext_in. intros x Hx.
  unfold canon in H. rewrite Forall_forall in H. rewrite Z.mul_1_l. apply Z.mod_small. auto.
Qed.

Lemma unscale_256 p : canon p -> map (k_mul mldsa_inv256) (scale 256 p) = p.
Proof.
  intros H. unfold scale. rewrite map_map. rewrite <- (map_id p) at 2. apply map_ext_in. intros x Hx.
  unfold canon in H. rewrite Forall_forall in H. specialize (H x Hx).
  rewrite k_mul_spec by (auto using mod_q_range; unfold q; vm_compute; split; congruence).
  rewrite Zmult_mod_idemp_r. replace (mldsa_inv256 * (256 * x)) with ((mldsa_inv256 * 256) * x) by ring.
  rewrite Zmult_mod. change ((mldsa_inv256 * 256) mod q) with 1. rewrite Z.mul_1_l, Z.mod_mod by (unfold q; lia).
  apply Z.mod_small. exact H.
Qed.

(* Algorithm 42 inverts Algorithm 41 *)
Theorem intt_ntt p : length p = 256%nat -> canon p -> intt (ntt p) = p.
Proof.
  intros Hl Hc. rewrite intt_unfold, ntt_unfold.
  destruct pairs_all as (K1 & K2 & K3 & K4 & K5 & K6 & K7 & K8).
  (* lengths and canonicity of the intermediate stages *)
  destruct (ntt_blocks_props 1 128 0 p) as [L1 C1]; [rewrite Hl; reflexivity | exact Hc |].
  set (p1 := ntt_blocks 1 128 0 p) in *.
  destruct (ntt_blocks_props 2 64 1 p1) as [L2 C2]; [rewrite L1, Hl; reflexivity | exact C1 |].
  set (p2 := ntt_blocks 2 64 1 p1) in *.
  destruct (ntt_blocks_props 4 32 3 p2) as [L3 C3]; [rewrite L2, L1, Hl; reflexivity | exact C2 |].
  set (p3 := ntt_blocks 4 32 3 p2) in *.
  destruct (ntt_blocks_props 8 16 7 p3) as [L4 C4]; [rewrite L3, L2, L1, Hl; reflexivity | exact C3 |].
  set (p4 := ntt_blocks 8 16 7 p3) in *.
  destruct (ntt_blocks_props 16 8 15 p4) as [L5 C5]; [rewrite L4, L3, L2, L1, Hl; reflexivity | exact C4 |].
  set (p5 := ntt_blocks 16 8 15 p4) in *.
  destruct (ntt_blocks_props 32 4 31 p5) as [L6 C6]; [rewrite L5, L4, L3, L2, L1, Hl; reflexivity | exact C5 |].
  set (p6 := ntt_blocks 32 4 31 p5) in *.
  destruct (ntt_blocks_props 64 2 63 p6) as [L7 C7]; [rewrite L6, L5, L4, L3, L2, L1, Hl; reflexivity | exact C6 |].
  set (p7 := ntt_blocks 64 2 63 p6) in *.
  destruct (ntt_blocks_props 128 1 127 p7) as [L8 C8]; [rewrite L7, L6, L5, L4, L3, L2, L1, Hl; reflexivity | exact C7 |].
  rewrite <- (scale_1 (ntt_blocks 128 1 127 p7)) by exact C8.
  rewrite (layer_inverse 128 1 127 256 p7 1); [| rewrite L7, L6, L5, L4, L3, L2, L1, Hl; reflexivity | auto | unfold q; lia | apply pair_ok_spec; exact K1].
  change ((2 * 1) mod q) with 2. unfold p7.
  rewrite (layer_inverse 64 2 63 128 p6 2); [| rewrite L6, L5, L4, L3, L2, L1, Hl; reflexivity | auto | unfold q; lia | apply pair_ok_spec; exact K2].
  change ((2 * 2) mod q) with 4. unfold p6.
  rewrite (layer_inverse 32 4 31 64 p5 4); [| rewrite L5, L4, L3, L2, L1, Hl; reflexivity | auto | unfold q; lia | apply pair_ok_spec; exact K3].
  change ((2 * 4) mod q) with 8. unfold p5.
  rewrite (layer_inverse 16 8 15 32 p4 8); [| rewrite L4, L3, L2, L1, Hl; reflexivity | auto | unfold q; lia | apply pair_ok_spec; exact K4].
  change ((2 * 8) mod q) with 16. unfold p4.
  rewrite (layer_inverse 8 16 7 16 p3 16); [| rewrite L3, L2, L1, Hl; reflexivity | auto | unfold q; lia | apply pair_ok_spec; exact K5].
  change ((2 * 16) mod q) with 32. unfold p3.
  rewrite (layer_inverse 4 32 3 8 p2 32); [| rewrite L2, L1, Hl; reflexivity | auto | unfold q; lia | apply pair_ok_spec; exact K6].
  change ((2 * 32) mod q) with 64. unfold p2.
  rewrite (layer_inverse 2 64 1 4 p1 64); [| rewrite L1, Hl; reflexivity | auto | unfold q; lia | apply pair_ok_spec; exact K7].
  change ((2 * 64) mod q) with 128. unfold p1.
  rewrite (layer_inverse 1 128 0 2 p 128); [| rewrite Hl; reflexivity | auto | unfold q; lia | apply pair_ok_spec; exact K8].
  change ((2 * 128) mod q) with 256.
  apply unscale_256. exact Hc.
Qed.

(* ================================================================== *)
(* the other direction: ntt (intt p) = p                               *)
(* ================================================================== *)
Lemma butterfly_rev_lo a b c z z' : 0 <= a < q -> 0 <= b < q -> 0 <= c < q -> 0 <= z < q -> 0 <= z' < q ->
  (z * z') mod q = 1 ->
  k_add ((c * k_add a b) mod q) (k_mul z ((c * k_mul z' (k_sub a b)) mod q)) = ((2 * c) mod q * a) mod q.
Proof.
  intros Ha Hb Hc Hz Hz' Hzz.
  rewrite (k_sub_spec a b) by auto.
  rewrite (k_mul_spec z') by (auto using mod_q_range).
  rewrite (k_add_spec a b) by auto.
  rewrite (k_mul_spec z) by (auto using mod_q_range).
  rewrite k_add_spec by (auto using mod_q_range).
  match goal with |- ?x mod q = ?y mod q => change (cong x y) end.
  strip_mods.
  assert (C : cong (z * z') 1) by (unfold cong; rewrite Hzz; reflexivity).
  transitivity (c * (a + b) + (c * (a - b)) * (z * z')); [apply cong_eq; ring|].
  rewrite C. apply cong_eq. ring.
Qed.

Lemma butterfly_rev_hi a b c z z' : 0 <= a < q -> 0 <= b < q -> 0 <= c < q -> 0 <= z < q -> 0 <= z' < q ->
  (z * z') mod q = 1 ->
  k_sub ((c * k_add a b) mod q) (k_mul z ((c * k_mul z' (k_sub a b)) mod q)) = ((2 * c) mod q * b) mod q.
Proof.
  intros Ha Hb Hc Hz Hz' Hzz.
  rewrite (k_sub_spec a b) by auto.
  rewrite (k_mul_spec z') by (auto using mod_q_range).
  rewrite (k_add_spec a b) by auto.
  rewrite (k_mul_spec z) by (auto using mod_q_range).
  rewrite k_sub_spec by (auto using mod_q_range).
  match goal with |- ?x mod q = ?y mod q => change (cong x y) end.
  strip_mods.
  assert (C : cong (z * z') 1) by (unfold cong; rewrite Hzz; reflexivity).
  transitivity (c * (a + b) - (c * (a - b)) * (z * z')); [apply cong_eq; ring|].
  rewrite C. apply cong_eq. ring.
Qed.

Lemma block_pair_rev lo hi c z z' : length lo = length hi -> canon lo -> canon hi ->
  0 <= c < q -> 0 <= z < q -> 0 <= z' < q -> (z * z') mod q = 1 ->
  let A := scale c (map2 k_add lo hi) in
  let B := scale c (map (k_mul z') (map2 k_sub lo hi)) in
  let t := map (k_mul z) B in
  map2 k_add A t = scale ((2 * c) mod q) lo /\
  map2 k_sub A t = scale ((2 * c) mod q) hi.
Proof.
  intros Hl Hlo Hhi Hc Hz Hz' Hzz. cbv zeta. revert hi Hl Hhi.
  induction Hlo as [|a lo Ha Hlo IH]; intros hi Hl Hhi; destruct hi as [|b hi]; try discriminate; [split; reflexivity|].
  inversion Hhi as [|? ? Hb Hhi']. subst. simpl in Hl. injection Hl as Hl.
  destruct (IH hi Hl Hhi') as [I1 I2]. cbn [map map2 scale]. split.
  - f_equal; [apply butterfly_rev_lo; auto | exact I1].
  - f_equal; [apply butterfly_rev_hi; auto | exact I2].
Qed.

Lemma intt_blocks_props nb : forall len m p, length p = (nb * (2 * len))%nat -> canon p ->
  length (intt_blocks nb len m p) = length p /\ canon (intt_blocks nb len m p).
Proof.
  induction nb as [|nb IH]; intros len m p Hl Hc.
  - destruct p; [split; [reflexivity|constructor] | simpl in Hl; discriminate].
  - cbn [intt_blocks].
    set (lo := firstn len p). set (hi := firstn len (skipn len p)).
    assert (Llo : length lo = len) by (unfold lo; rewrite firstn_length; lia).
    assert (Lhi : length hi = len) by (unfold hi; rewrite firstn_length, skipn_length; lia).
    assert (Clo : canon lo) by (apply canon_firstn; auto).
    assert (Chi : canon hi) by (apply canon_firstn, canon_skipn; auto).
    destruct (IH len (Nat.pred m) (skipn (2 * len) p)) as [L C];
      [rewrite skipn_length; lia | apply canon_skipn; auto |].
    split.
    + rewrite !app_length, map_length, !map2_length, L, skipn_length by lia. lia.
    + apply canon_app. split; [apply canon_map2_add; auto|].
      apply canon_app. split; [|exact C].
      apply canon_map_mul; [apply k_neg_range, zeta_at_range | apply canon_map2_sub; auto].
Qed.

Lemma layer_inverse_rev nb : forall len m m' p c,
  length p = (nb * (2 * len))%nat -> canon p -> 0 <= c < q ->
  (forall b, (b < nb)%nat -> (zeta_at (S m + b) * k_neg (zeta_at (m' - 1 - b))) mod q = 1) ->
  ntt_blocks nb len m (scale c (intt_blocks nb len m' p)) = scale ((2 * c) mod q) p.
Proof.
  induction nb as [|nb IH]; intros len m m' p c Hl Hc Hcc Hp.
  - destruct p; [reflexivity | simpl in Hl; discriminate].
  - cbn [intt_blocks].
    set (lo := firstn len p). set (hi := firstn len (skipn len p)). set (rest := skipn (2 * len) p).
    assert (Ep : p = lo ++ hi ++ rest).
    { unfold lo, hi, rest. rewrite <- (firstn_skipn len p) at 1. f_equal.
      rewrite <- (firstn_skipn len (skipn len p)) at 1. f_equal.
      rewrite skipn_add. f_equal. lia. }
    assert (Llo : length lo = len) by (unfold lo; rewrite firstn_length; lia).
    assert (Lhi : length hi = len) by (unfold hi; rewrite firstn_length, skipn_length; lia).
    assert (Clo : canon lo) by (apply canon_firstn; auto).
    assert (Chi : canon hi) by (apply canon_firstn, canon_skipn; auto).
    assert (Crest : canon rest) by (apply canon_skipn; auto).
    assert (Lrest : length rest = (nb * (2 * len))%nat) by (unfold rest; rewrite skipn_length; lia).
    set (z' := k_neg (zeta_at (Nat.pred m'))).
    rewrite !scale_app.
    set (A := scale c (map2 k_add lo hi)). set (B := scale c (map (k_mul z') (map2 k_sub lo hi))).
    assert (LA : length A = len) by (unfold A; rewrite scale_length, map2_length; lia).
    assert (LB : length B = len) by (unfold B; rewrite scale_length, map_length, map2_length; lia).
    cbn [ntt_blocks].
    replace (firstn len (A ++ B ++ scale c (intt_blocks nb len (Nat.pred m') rest))) with A
      by (rewrite firstn_app, LA, Nat.sub_diag, firstn_O, app_nil_r, <- LA, firstn_all; reflexivity).
    replace (skipn len (A ++ B ++ scale c (intt_blocks nb len (Nat.pred m') rest)))
      with (B ++ scale c (intt_blocks nb len (Nat.pred m') rest))
      by (rewrite skipn_app, LA, Nat.sub_diag, <- LA, skipn_all; reflexivity).
    replace (firstn len (B ++ scale c (intt_blocks nb len (Nat.pred m') rest))) with B
      by (rewrite firstn_app, LB, Nat.sub_diag, firstn_O, app_nil_r, <- LB, firstn_all; reflexivity).
    replace (skipn (2 * len) (A ++ B ++ scale c (intt_blocks nb len (Nat.pred m') rest)))
      with (scale c (intt_blocks nb len (Nat.pred m') rest)).
    2:{ rewrite app_assoc, skipn_app, app_length, LA, LB.
        replace (2 * len - (len + len))%nat with 0%nat by lia.
        rewrite skipn_all2 by (rewrite app_length; lia). reflexivity. }
    set (z := zeta_at (S m)).
    assert (Hzz : (z * z') mod q = 1).
    { specialize (Hp 0%nat ltac:(lia)). rewrite Nat.add_0_r, Nat.sub_0_r in Hp.
      replace (m' - 1)%nat with (Nat.pred m') in Hp by lia. exact Hp. }
    destruct (block_pair_rev lo hi c z z') as [P1 P2]; auto; try lia.
    { apply zeta_at_range. } { apply k_neg_range, zeta_at_range. }
    cbv zeta in P1, P2. fold A B in P1, P2. rewrite P1, P2.
    rewrite (IH len (S m) (Nat.pred m') rest c); auto.
    + rewrite <- !scale_app, <- Ep. reflexivity.
    + intros b Hb. specialize (Hp (S b) ltac:(lia)).
      replace (S (S m) + b)%nat with (S m + S b)%nat by lia.
      replace (Nat.pred m' - 1 - b)%nat with (m' - 1 - S b)%nat by lia. exact Hp.
Qed.

Lemma scale_inv256 p : canon p -> map (k_mul mldsa_inv256) p = scale mldsa_inv256 p.
Proof.
  intros H. unfold scale. apply map_ext_in. intros x Hx.
  unfold canon in H. rewrite Forall_forall in H.
  apply k_mul_spec; auto. unfold q. vm_compute. split; congruence.
Qed.

Ltac fold_c :=
  match goal with |- context [scale ((2 * ?c) mod q)] =>
    let c' := eval vm_compute in ((2 * c) mod q) in change ((2 * c) mod q) with c' end.

Theorem ntt_intt p : length p = 256%nat -> canon p -> ntt (intt p) = p.
Proof.
  intros Hl Hc. rewrite intt_unfold, ntt_unfold.
  destruct pairs_all as (K1 & K2 & K3 & K4 & K5 & K6 & K7 & K8).
  destruct (intt_blocks_props 128 1 256 p) as [L1 C1]; [rewrite Hl; reflexivity | exact Hc |].
  set (p1 := intt_blocks 128 1 256 p) in *.
  destruct (intt_blocks_props 64 2 128 p1) as [L2 C2]; [rewrite L1, Hl; reflexivity | exact C1 |].
  set (p2 := intt_blocks 64 2 128 p1) in *.
  destruct (intt_blocks_props 32 4 64 p2) as [L3 C3]; [rewrite L2, L1, Hl; reflexivity | exact C2 |].
  set (p3 := intt_blocks 32 4 64 p2) in *.
  destruct (intt_blocks_props 16 8 32 p3) as [L4 C4]; [rewrite L3, L2, L1, Hl; reflexivity | exact C3 |].
  set (p4 := intt_blocks 16 8 32 p3) in *.
  destruct (intt_blocks_props 8 16 16 p4) as [L5 C5]; [rewrite L4, L3, L2, L1, Hl; reflexivity | exact C4 |].
  set (p5 := intt_blocks 8 16 16 p4) in *.
  destruct (intt_blocks_props 4 32 8 p5) as [L6 C6]; [rewrite L5, L4, L3, L2, L1, Hl; reflexivity | exact C5 |].
  set (p6 := intt_blocks 4 32 8 p5) in *.
  destruct (intt_blocks_props 2 64 4 p6) as [L7 C7]; [rewrite L6, L5, L4, L3, L2, L1, Hl; reflexivity | exact C6 |].
  set (p7 := intt_blocks 2 64 4 p6) in *.
  destruct (intt_blocks_props 1 128 2 p7) as [L8 C8]; [rewrite L7, L6, L5, L4, L3, L2, L1, Hl; reflexivity | exact C7 |].
  rewrite scale_inv256 by exact C8.
  assert (Hi : 0 <= mldsa_inv256 < q) by (unfold q; vm_compute; split; congruence).
  rewrite (layer_inverse_rev 1 128 0 2 p7); [| rewrite L7, L6, L5, L4, L3, L2, L1, Hl; reflexivity | auto | exact Hi | apply pair_ok_spec; exact K8].
  fold_c. unfold p7.
  rewrite (layer_inverse_rev 2 64 1 4 p6); [| rewrite L6, L5, L4, L3, L2, L1, Hl; reflexivity | auto | unfold q; lia | apply pair_ok_spec; exact K7].
  fold_c. unfold p6.
  rewrite (layer_inverse_rev 4 32 3 8 p5); [| rewrite L5, L4, L3, L2, L1, Hl; reflexivity | auto | unfold q; lia | apply pair_ok_spec; exact K6].
  fold_c. unfold p5.
  rewrite (layer_inverse_rev 8 16 7 16 p4); [| rewrite L4, L3, L2, L1, Hl; reflexivity | auto | unfold q; lia | apply pair_ok_spec; exact K5].
  fold_c. unfold p4.
  rewrite (layer_inverse_rev 16 8 15 32 p3); [| rewrite L3, L2, L1, Hl; reflexivity | auto | unfold q; lia | apply pair_ok_spec; exact K4].
  fold_c. unfold p3.
  rewrite (layer_inverse_rev 32 4 31 64 p2); [| rewrite L2, L1, Hl; reflexivity | auto | unfold q; lia | apply pair_ok_spec; exact K3].
  fold_c. unfold p2.
  rewrite (layer_inverse_rev 64 2 63 128 p1); [| rewrite L1, Hl; reflexivity | auto | unfold q; lia | apply pair_ok_spec; exact K2].
  fold_c. unfold p1.
  rewrite (layer_inverse_rev 128 1 127 256 p); [| rewrite Hl; reflexivity | auto | unfold q; lia | apply pair_ok_spec; exact K1].
  fold_c. apply scale_1. exact Hc.
Qed.

(* ================================================================== *)
(* linearity: ntt (a + b) = ntt a + ntt b, ntt (a - b) = ntt a - ntt b, *)
(* intt likewise                                                        *)
(* ================================================================== *)
Ltac kspec :=
  repeat match goal with
  | |- context [k_mul ?a ?b] => rewrite (k_mul_spec a b) by (auto using mod_q_range)
  | |- context [k_add ?a ?b] => rewrite (k_add_spec a b) by (auto using mod_q_range)
  | |- context [k_sub ?a ?b] => rewrite (k_sub_spec a b) by (auto using mod_q_range)
  end.
Ltac cong_ring :=
  match goal with |- ?x mod q = ?y mod q => change (cong x y) end;
  strip_mods; apply cong_eq; ring.

Ltac inv_canon :=
  repeat match goal with H : canon (_ :: _) |- _ => inversion H; clear H; subst end;
  repeat match goal with H : Forall _ (_ :: _) |- _ => inversion H; clear H; subst end.

Lemma firstn_map2 {A B C} (f : A -> B -> C) n a b : firstn n (map2 f a b) = map2 f (firstn n a) (firstn n b).
Proof. revert a b; induction n as [|n IH]; intros a b; [reflexivity|]. destruct a, b; try reflexivity. cbn [firstn map2]. f_equal. apply IH. Qed.
Lemma skipn_map2 {A B C} (f : A -> B -> C) n a b : skipn n (map2 f a b) = map2 f (skipn n a) (skipn n b).
Proof.
  revert a b; induction n as [|n IH]; intros a b; [reflexivity|].
  destruct a as [|x a], b as [|y b]; cbn [skipn map2]; try reflexivity.
  - destruct (skipn n a); reflexivity.
  - apply IH.
Qed.
Lemma map2_app {A B C} (f : A -> B -> C) a1 a2 b1 b2 : length a1 = length b1 ->
  map2 f (a1 ++ a2) (b1 ++ b2) = map2 f a1 b1 ++ map2 f a2 b2.
Proof. revert b1; induction a1 as [|x a1 IH]; intros b1 H; destruct b1; simpl in *; try discriminate; auto. f_equal. apply IH. lia. Qed.

Definition lin_ok (f : Z -> Z -> Z) : Prop :=
  (forall x y, 0 <= x < q -> 0 <= y < q -> 0 <= f x y < q) /\
  (forall la lb ha hb z, 0 <= la < q -> 0 <= lb < q -> 0 <= ha < q -> 0 <= hb < q -> 0 <= z < q ->
    k_add (f la lb) (k_mul z (f ha hb)) = f (k_add la (k_mul z ha)) (k_add lb (k_mul z hb))) /\
  (forall la lb ha hb z, 0 <= la < q -> 0 <= lb < q -> 0 <= ha < q -> 0 <= hb < q -> 0 <= z < q ->
    k_sub (f la lb) (k_mul z (f ha hb)) = f (k_sub la (k_mul z ha)) (k_sub lb (k_mul z hb))) /\
  (forall la lb ha hb, 0 <= la < q -> 0 <= lb < q -> 0 <= ha < q -> 0 <= hb < q ->
    k_add (f la lb) (f ha hb) = f (k_add la ha) (k_add lb hb)) /\
  (forall la lb ha hb z, 0 <= la < q -> 0 <= lb < q -> 0 <= ha < q -> 0 <= hb < q -> 0 <= z < q ->
    k_mul z (k_sub (f la lb) (f ha hb)) = f (k_mul z (k_sub la ha)) (k_mul z (k_sub lb hb))) /\
  (forall x y z, 0 <= x < q -> 0 <= y < q -> 0 <= z < q ->
    k_mul z (f x y) = f (k_mul z x) (k_mul z y)).

Section Linear.
  (* f is k_add or k_sub; the hypothesis is kept folded so that lia does not look into it *)
  Variable f : Z -> Z -> Z.
  Hypothesis HF : lin_ok f.
  Ltac open_HF := destruct HF as (f_range & f_ct_lo & f_ct_hi & f_gs_lo & f_gs_hi & f_mul).

  Lemma canon_map2_f a b : canon a -> canon b -> canon (map2 f a b).
  Proof.
    open_HF.
    intros Ha. revert b. induction Ha as [|x a Hx Ha IH]; intros b Hb; destruct b as [|y b]; try constructor.
    - inversion Hb; subst. apply f_range; auto.
    - inversion Hb; subst. apply IH; auto.
  Qed.

  Lemma block_lin_ct z : 0 <= z < q -> forall la lb ha hb,
    length la = length lb -> length la = length ha -> length la = length hb ->
    canon la -> canon lb -> canon ha -> canon hb ->
    map2 k_add (map2 f la lb) (map (k_mul z) (map2 f ha hb)) =
      map2 f (map2 k_add la (map (k_mul z) ha)) (map2 k_add lb (map (k_mul z) hb)) /\
    map2 k_sub (map2 f la lb) (map (k_mul z) (map2 f ha hb)) =
      map2 f (map2 k_sub la (map (k_mul z) ha)) (map2 k_sub lb (map (k_mul z) hb)).
  Proof.
    intros Hz. induction la as [|a la IH]; intros lb ha hb L1 L2 L3 C1 C2 C3 C4;
      destruct lb, ha, hb; simpl in L1, L2, L3; try discriminate; [split; reflexivity|].
    inv_canon. destruct (IH lb ha hb) as [I1 I2]; try lia; auto.
    open_HF. cbn [map map2]. split; f_equal; auto.
  Qed.

  Lemma block_lin_gs z : 0 <= z < q -> forall la lb ha hb,
    length la = length lb -> length la = length ha -> length la = length hb ->
    canon la -> canon lb -> canon ha -> canon hb ->
    map2 k_add (map2 f la lb) (map2 f ha hb) = map2 f (map2 k_add la ha) (map2 k_add lb hb) /\
    map (k_mul z) (map2 k_sub (map2 f la lb) (map2 f ha hb)) =
      map2 f (map (k_mul z) (map2 k_sub la ha)) (map (k_mul z) (map2 k_sub lb hb)).
  Proof.
    intros Hz. induction la as [|a la IH]; intros lb ha hb L1 L2 L3 C1 C2 C3 C4;
      destruct lb, ha, hb; simpl in L1, L2, L3; try discriminate; [split; reflexivity|].
    inv_canon. destruct (IH lb ha hb) as [I1 I2]; try lia; auto.
    open_HF. cbn [map map2]. split; f_equal; auto.
  Qed.

  Lemma ntt_blocks_lin nb : forall len m a b,
    length a = (nb * (2 * len))%nat -> length b = (nb * (2 * len))%nat -> canon a -> canon b ->
    ntt_blocks nb len m (map2 f a b) = map2 f (ntt_blocks nb len m a) (ntt_blocks nb len m b).
  Proof.
    induction nb as [|nb IH]; intros len m a b La Lb Ca Cb; [reflexivity|].
    cbn [ntt_blocks]. rewrite !firstn_map2, !skipn_map2, firstn_map2.
    set (la := firstn len a). set (ha := firstn len (skipn len a)).
    set (lb := firstn len b). set (hb := firstn len (skipn len b)).
    assert (L1 : length la = len) by (unfold la; rewrite firstn_length; lia).
    assert (L2 : length ha = len) by (unfold ha; rewrite firstn_length, skipn_length; lia).
    assert (L3 : length lb = len) by (unfold lb; rewrite firstn_length; lia).
    assert (L4 : length hb = len) by (unfold hb; rewrite firstn_length, skipn_length; lia).
    assert (K1 : canon la) by (unfold la; auto using canon_firstn).
    assert (K2 : canon lb) by (unfold lb; auto using canon_firstn).
    assert (K3 : canon ha) by (unfold ha; auto using canon_firstn, canon_skipn).
    assert (K4 : canon hb) by (unfold hb; auto using canon_firstn, canon_skipn).
    destruct (block_lin_ct (zeta_at (S m)) (zeta_at_range _) la lb ha hb) as [P1 P2]; try lia; auto.
    rewrite P1, P2.
    rewrite IH by (rewrite ?skipn_length; auto using canon_skipn; lia).
    rewrite !map2_app; [reflexivity | | ]; rewrite !map2_length; rewrite ?map_length; lia.
  Qed.

  Lemma intt_blocks_lin nb : forall len m a b,
    length a = (nb * (2 * len))%nat -> length b = (nb * (2 * len))%nat -> canon a -> canon b ->
    intt_blocks nb len m (map2 f a b) = map2 f (intt_blocks nb len m a) (intt_blocks nb len m b).
  Proof.
    induction nb as [|nb IH]; intros len m a b La Lb Ca Cb; [reflexivity|].
    cbn [intt_blocks]. rewrite !firstn_map2, !skipn_map2, firstn_map2.
    set (la := firstn len a). set (ha := firstn len (skipn len a)).
    set (lb := firstn len b). set (hb := firstn len (skipn len b)).
    assert (L1 : length la = len) by (unfold la; rewrite firstn_length; lia).
    assert (L2 : length ha = len) by (unfold ha; rewrite firstn_length, skipn_length; lia).
    assert (L3 : length lb = len) by (unfold lb; rewrite firstn_length; lia).
    assert (L4 : length hb = len) by (unfold hb; rewrite firstn_length, skipn_length; lia).
    assert (K1 : canon la) by (unfold la; auto using canon_firstn).
    assert (K2 : canon lb) by (unfold lb; auto using canon_firstn).
    assert (K3 : canon ha) by (unfold ha; auto using canon_firstn, canon_skipn).
    assert (K4 : canon hb) by (unfold hb; auto using canon_firstn, canon_skipn).
    destruct (block_lin_gs (k_neg (zeta_at (Nat.pred m))) (k_neg_range _ (zeta_at_range _)) la lb ha hb) as [P1 P2]; try lia; auto.
    rewrite P1, P2.
    rewrite IH by (rewrite ?skipn_length; auto using canon_skipn; lia).
    rewrite !map2_app; [reflexivity | | ]; rewrite ?map_length, !map2_length; rewrite ?map_length; lia.
  Qed.

  Lemma map_mul_lin z : 0 <= z < q -> forall a b, length a = length b -> canon a -> canon b ->
    map (k_mul z) (map2 f a b) = map2 f (map (k_mul z) a) (map (k_mul z) b).
  Proof.
    intros Hz. induction a as [|x a IH]; intros b L Ca Cb; destruct b; simpl in L; try discriminate; [reflexivity|].
    inv_canon. cbn [map map2]. f_equal; [open_HF; apply f_mul; auto | apply IH; auto].
  Qed.

  Theorem ntt_lin a b : length a = 256%nat -> length b = 256%nat -> canon a -> canon b ->
    ntt (map2 f a b) = map2 f (ntt a) (ntt b).
  Proof.
    intros La Lb Ca Cb. rewrite !ntt_unfold.
    set (a0 := a) in *. set (b0 := b) in *.
    assert (A0 : length a0 = 256%nat) by exact La. assert (B0 : length b0 = 256%nat) by exact Lb.
    assert (A0c : canon a0) by exact Ca. assert (B0c : canon b0) by exact Cb.
    rewrite (ntt_blocks_lin 1 128 0 a0 b0) by (auto; rewrite ?A0, ?B0; reflexivity).
    destruct (ntt_blocks_props 1 128 0 a0) as [A1' A1c]; [rewrite A0; reflexivity | auto |].
    destruct (ntt_blocks_props 1 128 0 b0) as [B1' B1c]; [rewrite B0; reflexivity | auto |].
    set (a1 := ntt_blocks 1 128 0 a0) in *. set (b1 := ntt_blocks 1 128 0 b0) in *.
    assert (A1 : length a1 = 256%nat) by (rewrite A1'; exact A0).
    assert (B1 : length b1 = 256%nat) by (rewrite B1'; exact B0).
    rewrite (ntt_blocks_lin 2 64 1 a1 b1) by (auto; rewrite ?A1, ?B1; reflexivity).
    destruct (ntt_blocks_props 2 64 1 a1) as [A2' A2c]; [rewrite A1; reflexivity | auto |].
    destruct (ntt_blocks_props 2 64 1 b1) as [B2' B2c]; [rewrite B1; reflexivity | auto |].
    set (a2 := ntt_blocks 2 64 1 a1) in *. set (b2 := ntt_blocks 2 64 1 b1) in *.
    assert (A2 : length a2 = 256%nat) by (rewrite A2'; exact A1).
    assert (B2 : length b2 = 256%nat) by (rewrite B2'; exact B1).
    rewrite (ntt_blocks_lin 4 32 3 a2 b2) by (auto; rewrite ?A2, ?B2; reflexivity).
    destruct (ntt_blocks_props 4 32 3 a2) as [A3' A3c]; [rewrite A2; reflexivity | auto |].
    destruct (ntt_blocks_props 4 32 3 b2) as [B3' B3c]; [rewrite B2; reflexivity | auto |].
    set (a3 := ntt_blocks 4 32 3 a2) in *. set (b3 := ntt_blocks 4 32 3 b2) in *.
    assert (A3 : length a3 = 256%nat) by (rewrite A3'; exact A2).
    assert (B3 : length b3 = 256%nat) by (rewrite B3'; exact B2).
    rewrite (ntt_blocks_lin 8 16 7 a3 b3) by (auto; rewrite ?A3, ?B3; reflexivity).
    destruct (ntt_blocks_props 8 16 7 a3) as [A4' A4c]; [rewrite A3; reflexivity | auto |].
    destruct (ntt_blocks_props 8 16 7 b3) as [B4' B4c]; [rewrite B3; reflexivity | auto |].
    set (a4 := ntt_blocks 8 16 7 a3) in *. set (b4 := ntt_blocks 8 16 7 b3) in *.
    assert (A4 : length a4 = 256%nat) by (rewrite A4'; exact A3).
    assert (B4 : length b4 = 256%nat) by (rewrite B4'; exact B3).
    rewrite (ntt_blocks_lin 16 8 15 a4 b4) by (auto; rewrite ?A4, ?B4; reflexivity).
    destruct (ntt_blocks_props 16 8 15 a4) as [A5' A5c]; [rewrite A4; reflexivity | auto |].
    destruct (ntt_blocks_props 16 8 15 b4) as [B5' B5c]; [rewrite B4; reflexivity | auto |].
    set (a5 := ntt_blocks 16 8 15 a4) in *. set (b5 := ntt_blocks 16 8 15 b4) in *.
    assert (A5 : length a5 = 256%nat) by (rewrite A5'; exact A4).
    assert (B5 : length b5 = 256%nat) by (rewrite B5'; exact B4).
    rewrite (ntt_blocks_lin 32 4 31 a5 b5) by (auto; rewrite ?A5, ?B5; reflexivity).
    destruct (ntt_blocks_props 32 4 31 a5) as [A6' A6c]; [rewrite A5; reflexivity | auto |].
    destruct (ntt_blocks_props 32 4 31 b5) as [B6' B6c]; [rewrite B5; reflexivity | auto |].
    set (a6 := ntt_blocks 32 4 31 a5) in *. set (b6 := ntt_blocks 32 4 31 b5) in *.
    assert (A6 : length a6 = 256%nat) by (rewrite A6'; exact A5).
    assert (B6 : length b6 = 256%nat) by (rewrite B6'; exact B5).
    rewrite (ntt_blocks_lin 64 2 63 a6 b6) by (auto; rewrite ?A6, ?B6; reflexivity).
    destruct (ntt_blocks_props 64 2 63 a6) as [A7' A7c]; [rewrite A6; reflexivity | auto |].
    destruct (ntt_blocks_props 64 2 63 b6) as [B7' B7c]; [rewrite B6; reflexivity | auto |].
    set (a7 := ntt_blocks 64 2 63 a6) in *. set (b7 := ntt_blocks 64 2 63 b6) in *.
    assert (A7 : length a7 = 256%nat) by (rewrite A7'; exact A6).
    assert (B7 : length b7 = 256%nat) by (rewrite B7'; exact B6).
    rewrite (ntt_blocks_lin 128 1 127 a7 b7) by (auto; rewrite ?A7, ?B7; reflexivity).
    destruct (ntt_blocks_props 128 1 127 a7) as [A8' A8c]; [rewrite A7; reflexivity | auto |].
    destruct (ntt_blocks_props 128 1 127 b7) as [B8' B8c]; [rewrite B7; reflexivity | auto |].
    set (a8 := ntt_blocks 128 1 127 a7) in *. set (b8 := ntt_blocks 128 1 127 b7) in *.
    assert (A8 : length a8 = 256%nat) by (rewrite A8'; exact A7).
    assert (B8 : length b8 = 256%nat) by (rewrite B8'; exact B7).
    reflexivity.
  Qed.

  Theorem intt_lin a b : length a = 256%nat -> length b = 256%nat -> canon a -> canon b ->
    intt (map2 f a b) = map2 f (intt a) (intt b).
  Proof.
    intros La Lb Ca Cb. rewrite !intt_unfold.
    set (a0 := a) in *. set (b0 := b) in *.
    assert (A0 : length a0 = 256%nat) by exact La. assert (B0 : length b0 = 256%nat) by exact Lb.
    assert (A0c : canon a0) by exact Ca. assert (B0c : canon b0) by exact Cb.
    rewrite (intt_blocks_lin 128 1 256 a0 b0) by (auto; rewrite ?A0, ?B0; reflexivity).
    destruct (intt_blocks_props 128 1 256 a0) as [A1' A1c]; [rewrite A0; reflexivity | auto |].
    destruct (intt_blocks_props 128 1 256 b0) as [B1' B1c]; [rewrite B0; reflexivity | auto |].
    set (a1 := intt_blocks 128 1 256 a0) in *. set (b1 := intt_blocks 128 1 256 b0) in *.
    assert (A1 : length a1 = 256%nat) by (rewrite A1'; exact A0).
    assert (B1 : length b1 = 256%nat) by (rewrite B1'; exact B0).
    rewrite (intt_blocks_lin 64 2 128 a1 b1) by (auto; rewrite ?A1, ?B1; reflexivity).
    destruct (intt_blocks_props 64 2 128 a1) as [A2' A2c]; [rewrite A1; reflexivity | auto |].
    destruct (intt_blocks_props 64 2 128 b1) as [B2' B2c]; [rewrite B1; reflexivity | auto |].
    set (a2 := intt_blocks 64 2 128 a1) in *. set (b2 := intt_blocks 64 2 128 b1) in *.
    assert (A2 : length a2 = 256%nat) by (rewrite A2'; exact A1).
    assert (B2 : length b2 = 256%nat) by (rewrite B2'; exact B1).
    rewrite (intt_blocks_lin 32 4 64 a2 b2) by (auto; rewrite ?A2, ?B2; reflexivity).
    destruct (intt_blocks_props 32 4 64 a2) as [A3' A3c]; [rewrite A2; reflexivity | auto |].
    destruct (intt_blocks_props 32 4 64 b2) as [B3' B3c]; [rewrite B2; reflexivity | auto |].
    set (a3 := intt_blocks 32 4 64 a2) in *. set (b3 := intt_blocks 32 4 64 b2) in *.
    assert (A3 : length a3 = 256%nat) by (rewrite A3'; exact A2).
    assert (B3 : length b3 = 256%nat) by (rewrite B3'; exact B2).
    rewrite (intt_blocks_lin 16 8 32 a3 b3) by (auto; rewrite ?A3, ?B3; reflexivity).
    destruct (intt_blocks_props 16 8 32 a3) as [A4' A4c]; [rewrite A3; reflexivity | auto |].
    destruct (intt_blocks_props 16 8 32 b3) as [B4' B4c]; [rewrite B3; reflexivity | auto |].
    set (a4 := intt_blocks 16 8 32 a3) in *. set (b4 := intt_blocks 16 8 32 b3) in *.
    assert (A4 : length a4 = 256%nat) by (rewrite A4'; exact A3).
    assert (B4 : length b4 = 256%nat) by (rewrite B4'; exact B3).
    rewrite (intt_blocks_lin 8 16 16 a4 b4) by (auto; rewrite ?A4, ?B4; reflexivity).
    destruct (intt_blocks_props 8 16 16 a4) as [A5' A5c]; [rewrite A4; reflexivity | auto |].
    destruct (intt_blocks_props 8 16 16 b4) as [B5' B5c]; [rewrite B4; reflexivity | auto |].
    set (a5 := intt_blocks 8 16 16 a4) in *. set (b5 := intt_blocks 8 16 16 b4) in *.
    assert (A5 : length a5 = 256%nat) by (rewrite A5'; exact A4).
    assert (B5 : length b5 = 256%nat) by (rewrite B5'; exact B4).
    rewrite (intt_blocks_lin 4 32 8 a5 b5) by (auto; rewrite ?A5, ?B5; reflexivity).
    destruct (intt_blocks_props 4 32 8 a5) as [A6' A6c]; [rewrite A5; reflexivity | auto |].
    destruct (intt_blocks_props 4 32 8 b5) as [B6' B6c]; [rewrite B5; reflexivity | auto |].
    set (a6 := intt_blocks 4 32 8 a5) in *. set (b6 := intt_blocks 4 32 8 b5) in *.
    assert (A6 : length a6 = 256%nat) by (rewrite A6'; exact A5).
    assert (B6 : length b6 = 256%nat) by (rewrite B6'; exact B5).
    rewrite (intt_blocks_lin 2 64 4 a6 b6) by (auto; rewrite ?A6, ?B6; reflexivity).
    destruct (intt_blocks_props 2 64 4 a6) as [A7' A7c]; [rewrite A6; reflexivity | auto |].
    destruct (intt_blocks_props 2 64 4 b6) as [B7' B7c]; [rewrite B6; reflexivity | auto |].
    set (a7 := intt_blocks 2 64 4 a6) in *. set (b7 := intt_blocks 2 64 4 b6) in *.
    assert (A7 : length a7 = 256%nat) by (rewrite A7'; exact A6).
    assert (B7 : length b7 = 256%nat) by (rewrite B7'; exact B6).
    rewrite (intt_blocks_lin 1 128 2 a7 b7) by (auto; rewrite ?A7, ?B7; reflexivity).
    destruct (intt_blocks_props 1 128 2 a7) as [A8' A8c]; [rewrite A7; reflexivity | auto |].
    destruct (intt_blocks_props 1 128 2 b7) as [B8' B8c]; [rewrite B7; reflexivity | auto |].
    set (a8 := intt_blocks 1 128 2 a7) in *. set (b8 := intt_blocks 1 128 2 b7) in *.
    assert (A8 : length a8 = 256%nat) by (rewrite A8'; exact A7).
    assert (B8 : length b8 = 256%nat) by (rewrite B8'; exact B7).
    apply map_mul_lin; auto; [unfold q; vm_compute; split; congruence | rewrite A8, B8; reflexivity].
  Qed.
End Linear.

Lemma k_add_range x y : 0 <= x < q -> 0 <= y < q -> 0 <= k_add x y < q.
Proof. intros. rewrite k_add_spec by auto. apply mod_q_range. Qed.
Lemma k_sub_range x y : 0 <= x < q -> 0 <= y < q -> 0 <= k_sub x y < q.
Proof. intros. rewrite k_sub_spec by auto. apply mod_q_range. Qed.
Lemma k_mul_range x y : 0 <= x < q -> 0 <= y < q -> 0 <= k_mul x y < q.
Proof. intros. rewrite k_mul_spec by auto. apply mod_q_range. Qed.

Lemma lin_ok_add : lin_ok k_add.
Proof. unfold lin_ok. repeat apply conj; intros; try (apply k_add_range; auto); kspec; cong_ring. Qed.
Lemma lin_ok_sub : lin_ok k_sub.
Proof. unfold lin_ok. repeat apply conj; intros; try (apply k_sub_range; auto); kspec; cong_ring. Qed.

Theorem ntt_add a b : length a = 256%nat -> length b = 256%nat -> canon a -> canon b ->
  ntt (padd a b) = padd (ntt a) (ntt b).
Proof. apply (ntt_lin k_add). exact lin_ok_add. Qed.
Theorem intt_add a b : length a = 256%nat -> length b = 256%nat -> canon a -> canon b ->
  intt (padd a b) = padd (intt a) (intt b).
Proof. apply (intt_lin k_add). exact lin_ok_add. Qed.
Theorem ntt_sub a b : length a = 256%nat -> length b = 256%nat -> canon a -> canon b ->
  ntt (psub a b) = psub (ntt a) (ntt b).
Proof. apply (ntt_lin k_sub). exact lin_ok_sub. Qed.
Theorem intt_sub a b : length a = 256%nat -> length b = 256%nat -> canon a -> canon b ->
  intt (psub a b) = psub (intt a) (intt b).
Proof. apply (intt_lin k_sub). exact lin_ok_sub. Qed.

(* lengths and canonicity of the transforms *)
Lemma ntt_props p : length p = 256%nat -> canon p -> length (ntt p) = 256%nat /\ canon (ntt p).
Proof.
  intros Hl Hc. rewrite ntt_unfold.
  set (a0 := p) in *. assert (A0 : length a0 = 256%nat) by exact Hl. assert (A0c : canon a0) by exact Hc.
  destruct (ntt_blocks_props 1 128 0 a0) as [A1' A1c]; [rewrite A0; reflexivity | auto |].
  set (a1 := ntt_blocks 1 128 0 a0) in *.
  assert (A1 : length a1 = 256%nat) by (rewrite A1'; exact A0).
  destruct (ntt_blocks_props 2 64 1 a1) as [A2' A2c]; [rewrite A1; reflexivity | auto |].
  set (a2 := ntt_blocks 2 64 1 a1) in *.
  assert (A2 : length a2 = 256%nat) by (rewrite A2'; exact A1).
  destruct (ntt_blocks_props 4 32 3 a2) as [A3' A3c]; [rewrite A2; reflexivity | auto |].
  set (a3 := ntt_blocks 4 32 3 a2) in *.
  assert (A3 : length a3 = 256%nat) by (rewrite A3'; exact A2).
  destruct (ntt_blocks_props 8 16 7 a3) as [A4' A4c]; [rewrite A3; reflexivity | auto |].
  set (a4 := ntt_blocks 8 16 7 a3) in *.
  assert (A4 : length a4 = 256%nat) by (rewrite A4'; exact A3).
  destruct (ntt_blocks_props 16 8 15 a4) as [A5' A5c]; [rewrite A4; reflexivity | auto |].
  set (a5 := ntt_blocks 16 8 15 a4) in *.
  assert (A5 : length a5 = 256%nat) by (rewrite A5'; exact A4).
  destruct (ntt_blocks_props 32 4 31 a5) as [A6' A6c]; [rewrite A5; reflexivity | auto |].
  set (a6 := ntt_blocks 32 4 31 a5) in *.
  assert (A6 : length a6 = 256%nat) by (rewrite A6'; exact A5).
  destruct (ntt_blocks_props 64 2 63 a6) as [A7' A7c]; [rewrite A6; reflexivity | auto |].
  set (a7 := ntt_blocks 64 2 63 a6) in *.
  assert (A7 : length a7 = 256%nat) by (rewrite A7'; exact A6).
  destruct (ntt_blocks_props 128 1 127 a7) as [A8' A8c]; [rewrite A7; reflexivity | auto |].
  set (a8 := ntt_blocks 128 1 127 a7) in *.
  assert (A8 : length a8 = 256%nat) by (rewrite A8'; exact A7).
  split; auto.
Qed.

Lemma intt_props p : length p = 256%nat -> canon p -> length (intt p) = 256%nat /\ canon (intt p).
Proof.
  intros Hl Hc. rewrite intt_unfold.
  set (a0 := p) in *. assert (A0 : length a0 = 256%nat) by exact Hl. assert (A0c : canon a0) by exact Hc.
  destruct (intt_blocks_props 128 1 256 a0) as [A1' A1c]; [rewrite A0; reflexivity | auto |].
  set (a1 := intt_blocks 128 1 256 a0) in *.
  assert (A1 : length a1 = 256%nat) by (rewrite A1'; exact A0).
  destruct (intt_blocks_props 64 2 128 a1) as [A2' A2c]; [rewrite A1; reflexivity | auto |].
  set (a2 := intt_blocks 64 2 128 a1) in *.
  assert (A2 : length a2 = 256%nat) by (rewrite A2'; exact A1).
  destruct (intt_blocks_props 32 4 64 a2) as [A3' A3c]; [rewrite A2; reflexivity | auto |].
  set (a3 := intt_blocks 32 4 64 a2) in *.
  assert (A3 : length a3 = 256%nat) by (rewrite A3'; exact A2).
  destruct (intt_blocks_props 16 8 32 a3) as [A4' A4c]; [rewrite A3; reflexivity | auto |].
  set (a4 := intt_blocks 16 8 32 a3) in *.
  assert (A4 : length a4 = 256%nat) by (rewrite A4'; exact A3).
  destruct (intt_blocks_props 8 16 16 a4) as [A5' A5c]; [rewrite A4; reflexivity | auto |].
  set (a5 := intt_blocks 8 16 16 a4) in *.
  assert (A5 : length a5 = 256%nat) by (rewrite A5'; exact A4).
  destruct (intt_blocks_props 4 32 8 a5) as [A6' A6c]; [rewrite A5; reflexivity | auto |].
  set (a6 := intt_blocks 4 32 8 a5) in *.
  assert (A6 : length a6 = 256%nat) by (rewrite A6'; exact A5).
  destruct (intt_blocks_props 2 64 4 a6) as [A7' A7c]; [rewrite A6; reflexivity | auto |].
  set (a7 := intt_blocks 2 64 4 a6) in *.
  assert (A7 : length a7 = 256%nat) by (rewrite A7'; exact A6).
  destruct (intt_blocks_props 1 128 2 a7) as [A8' A8c]; [rewrite A7; reflexivity | auto |].
  set (a8 := intt_blocks 1 128 2 a7) in *.
  assert (A8 : length a8 = 256%nat) by (rewrite A8'; exact A7).
  split; [rewrite map_length; exact A8|].
  apply canon_map_mul; auto. unfold q. vm_compute. split; congruence.
Qed.
