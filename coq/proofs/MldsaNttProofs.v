(* The inverse NTT of the model inverts the NTT (model/MldsaPoly.v, loops of
   algebra.go ntt/intt over the regenerated kernels and the regenerated zetas
   table): intt (ntt p) = p for every polynomial with canonical coefficients.
   Layer by layer: the Gentleman-Sande block with twiddle -zetas[m'] undoes the
   Cooley-Tukey block with twiddle zetas[m] up to a factor 2, because
   zetas[m] * (-zetas[m']) = 1 (mod q) for the mirrored index m' (checked on
   the regenerated table); eight layers give 256, removed by inv256. *)
From Coq Require Import List ZArith NArith Bool Arith Lia Setoid Morphisms.
From Tink Require Import Bytes Wrap MldsaScalar MldsaScalarProofs MldsaTableProofs
  MldsaKernels MldsaKernelsProofs MldsaPoly MldsaHintProofs.
Import ListNotations.
Local Open Scope Z_scope.

Definition canon (p : list Z) : Prop := Forall (fun c => 0 <= c < q) p.
Definition scale (c : Z) (p : list Z) : list Z := map (fun x => (c * x) mod q) p.

Lemma q_pos : 0 < q. Proof. reflexivity. Qed.
Lemma mod_q_range x : 0 <= x mod q < q. Proof. apply Z.mod_pos_bound. exact q_pos. Qed.

(* ---- congruence modulo q as a setoid ---- *)
Definition cong (a b : Z) : Prop := a mod q = b mod q.
#[global] Instance cong_equiv : Equivalence cong.
Proof. split; unfold cong; [intros x; reflexivity | intros x y H; symmetry; exact H | intros x y z H1 H2; congruence]. Qed.
#[global] Instance cong_add : Proper (cong ==> cong ==> cong) Z.add.
Proof. intros a b H c d H'. unfold cong in *. rewrite Zplus_mod, H, H', <- Zplus_mod. reflexivity. Qed.
#[global] Instance cong_sub : Proper (cong ==> cong ==> cong) Z.sub.
Proof. intros a b H c d H'. unfold cong in *. rewrite Zminus_mod, H, H', <- Zminus_mod. reflexivity. Qed.
#[global] Instance cong_mul : Proper (cong ==> cong ==> cong) Z.mul.
Proof. intros a b H c d H'. unfold cong in *. rewrite Zmult_mod, H, H', <- Zmult_mod. reflexivity. Qed.
Lemma cong_mod a : cong (a mod q) a.
Proof. unfold cong. apply Z.mod_mod. unfold q. lia. Qed.
Lemma cong_eq a b : a = b -> cong a b. Proof. intros ->. reflexivity. Qed.
Ltac strip_mods := rewrite_strat (topdown (repeat cong_mod)).

(* ---- the butterfly pair on scalars ---- *)
Lemma butterfly_lo a b c z : 0 <= a < q -> 0 <= b < q -> 0 <= c < q -> 0 <= z < q ->
  k_add ((c * k_add a (k_mul z b)) mod q) ((c * k_sub a (k_mul z b)) mod q) = ((2 * c) mod q * a) mod q.
Proof.
  intros Ha Hb Hc Hz.
  rewrite (k_mul_spec z b) by auto.
  rewrite (k_add_spec a) by (auto using mod_q_range).
  rewrite (k_sub_spec a) by (auto using mod_q_range).
  rewrite k_add_spec by (auto using mod_q_range).
  match goal with |- ?x mod q = ?y mod q => change (cong x y) end.
  strip_mods. apply cong_eq. ring.
Qed.

Lemma butterfly_hi a b c z z' : 0 <= a < q -> 0 <= b < q -> 0 <= c < q -> 0 <= z < q -> 0 <= z' < q ->
  (z * z') mod q = 1 ->
  k_mul z' (k_sub ((c * k_add a (k_mul z b)) mod q) ((c * k_sub a (k_mul z b)) mod q)) = ((2 * c) mod q * b) mod q.
Proof.
  intros Ha Hb Hc Hz Hz' Hzz.
  rewrite (k_mul_spec z b) by auto.
  rewrite (k_add_spec a) by (auto using mod_q_range).
  rewrite (k_sub_spec a) by (auto using mod_q_range).
  rewrite k_sub_spec by (auto using mod_q_range).
  rewrite k_mul_spec by (auto using mod_q_range).
  match goal with |- ?x mod q = ?y mod q => change (cong x y) end.
  strip_mods.
  assert (C : cong (z * z') 1) by (unfold cong; rewrite Hzz; reflexivity).
  transitivity ((2 * c * b) * (z * z')); [apply cong_eq; ring|].
  rewrite C. apply cong_eq. ring.
Qed.

(* ---- one block on lists ---- *)
Lemma map2_length {A B C} (f : A -> B -> C) a b : length a = length b -> length (map2 f a b) = length a.
Proof. revert b; induction a as [|x a IH]; destruct b; simpl; intros H; try discriminate; auto. Qed.

Lemma block_pair lo hi c z z' : length lo = length hi -> canon lo -> canon hi ->
  0 <= c < q -> 0 <= z < q -> 0 <= z' < q -> (z * z') mod q = 1 ->
  let t := map (k_mul z) hi in
  let A := scale c (map2 k_add lo t) in
  let B := scale c (map2 k_sub lo t) in
  map2 k_add A B = scale ((2 * c) mod q) lo /\
  map (k_mul z') (map2 k_sub A B) = scale ((2 * c) mod q) hi.
Proof.
  intros Hl Hlo Hhi Hc Hz Hz' Hzz. cbv zeta. revert hi Hl Hhi.
  induction Hlo as [|a lo Ha Hlo IH]; intros hi Hl Hhi; destruct hi as [|b hi]; try discriminate; [split; reflexivity|].
  inversion Hhi as [|? ? Hb Hhi']. subst. simpl in Hl. injection Hl as Hl.
  destruct (IH hi Hl Hhi') as [I1 I2]. cbn [map map2 scale]. split.
  - f_equal; [apply butterfly_lo; auto | exact I1].
  - f_equal; [apply butterfly_hi; auto | exact I2].
Qed.

Lemma scale_app c a b : scale c (a ++ b) = scale c a ++ scale c b.
Proof. apply map_app. Qed.
Lemma scale_length c a : length (scale c a) = length a.
Proof. apply map_length. Qed.

Lemma canon_app a b : canon (a ++ b) <-> canon a /\ canon b.
Proof. apply Forall_app. Qed.
Lemma canon_firstn n a : canon a -> canon (firstn n a).
Proof. intros H. rewrite <- (firstn_skipn n a) in H. apply canon_app in H. tauto. Qed.
Lemma canon_skipn n a : canon a -> canon (skipn n a).
Proof. intros H. rewrite <- (firstn_skipn n a) in H. apply canon_app in H. tauto. Qed.

Lemma canon_map2_add a b : canon a -> canon b -> canon (map2 k_add a b).
Proof.
  intros Ha. revert b. induction Ha as [|x a Hx Ha IH]; intros b Hb; destruct b as [|y b]; try constructor.
  - inversion Hb; subst. rewrite k_add_spec by auto. apply mod_q_range.
  - inversion Hb; subst. apply IH; auto.
Qed.
Lemma canon_map2_sub a b : canon a -> canon b -> canon (map2 k_sub a b).
Proof.
  intros Ha. revert b. induction Ha as [|x a Hx Ha IH]; intros b Hb; destruct b as [|y b]; try constructor.
  - inversion Hb; subst. rewrite k_sub_spec by auto. apply mod_q_range.
  - inversion Hb; subst. apply IH; auto.
Qed.
Lemma canon_map_mul z a : 0 <= z < q -> canon a -> canon (map (k_mul z) a).
Proof.
  intros Hz Ha. apply Forall_map. eapply Forall_impl; [|exact Ha]. intros x Hx. cbv beta.
  rewrite k_mul_spec by auto. apply mod_q_range.
Qed.
Lemma canon_scale c a : canon (scale c a).
Proof. apply Forall_map. apply Forall_forall. intros x _. apply mod_q_range. Qed.

(* ---- the zetas table ---- *)
Lemma zeta_at_range m : 0 <= zeta_at m < q.
Proof.
  unfold zeta_at. destruct (Nat.lt_ge_cases m 256) as [H|H].
  - pose proof zetas_in_range as R. rewrite forallb_forall in R.
    specialize (R (nth m mldsa_zetas 0)).
    assert (I : In (nth m mldsa_zetas 0) mldsa_zetas) by (apply nth_In; rewrite zetas_length; exact H).
    apply R in I. apply andb_true_iff in I. destruct I as [I1 I2].
    apply Z.leb_le in I1. apply Z.ltb_lt in I2. unfold q. change mldsa_q with 8380417 in I2. lia.
  - rewrite nth_overflow by (rewrite zetas_length; exact H). unfold q. lia.
Qed.

Lemma k_neg_range a : 0 <= a < q -> 0 <= k_neg a < q.
Proof. intros H. rewrite k_neg_spec by auto. apply mod_q_range. Qed.

(* twiddles of the forward block b of a layer (Go variable m before the layer)
   and of the inverse block b (Go variable m' before the layer) are inverse *)
Definition pair_ok (m m' nb : nat) : bool :=
  forallb (fun b => (zeta_at (S m + b) * k_neg (zeta_at (m' - 1 - b))) mod q =? 1) (seq 0 nb).

Lemma pair_ok_spec m m' nb : pair_ok m m' nb = true ->
  forall b, (b < nb)%nat -> (zeta_at (S m + b) * k_neg (zeta_at (m' - 1 - b))) mod q = 1.
Proof.
  intros H b Hb. unfold pair_ok in H. rewrite forallb_forall in H.
  apply Z.eqb_eq. apply H. apply in_seq. lia.
Qed.

(* ---- one layer ---- *)
Lemma ntt_blocks_props nb : forall len m p, length p = (nb * (2 * len))%nat -> canon p ->
  length (ntt_blocks nb len m p) = length p /\ canon (ntt_blocks nb len m p).
Proof.
  induction nb as [|nb IH]; intros len m p Hl Hc.
  - destruct p; [split; [reflexivity|constructor] | simpl in Hl; discriminate].
  - cbn [ntt_blocks].
    set (lo := firstn len p). set (hi := firstn len (skipn len p)).
    assert (Llo : length lo = len) by (unfold lo; rewrite firstn_length; lia).
    assert (Lhi : length hi = len) by (unfold hi; rewrite firstn_length, skipn_length; lia).
    assert (Clo : canon lo) by (apply canon_firstn; auto).
    assert (Chi : canon hi) by (apply canon_firstn, canon_skipn; auto).
    assert (Ct : canon (map (k_mul (zeta_at (S m))) hi)) by (apply canon_map_mul; auto using zeta_at_range).
    destruct (IH len (S m) (skipn (2 * len) p)) as [L C];
      [rewrite skipn_length; lia | apply canon_skipn; auto |].
    split.
    + rewrite !app_length, !map2_length, L, skipn_length by (rewrite ?map_length; lia). lia.
    + apply canon_app. split; [apply canon_map2_add; auto|].
      apply canon_app. split; [apply canon_map2_sub; auto | exact C].
Qed.

Lemma layer_inverse nb : forall len m m' p c,
  length p = (nb * (2 * len))%nat -> canon p -> 0 <= c < q ->
  (forall b, (b < nb)%nat -> (zeta_at (S m + b) * k_neg (zeta_at (m' - 1 - b))) mod q = 1) ->
  intt_blocks nb len m' (scale c (ntt_blocks nb len m p)) = scale ((2 * c) mod q) p.
Proof.
  induction nb as [|nb IH]; intros len m m' p c Hl Hc Hcc Hp.
  - destruct p; [reflexivity | simpl in Hl; discriminate].
  - cbn [ntt_blocks].
    set (lo := firstn len p). set (hi := firstn len (skipn len p)). set (rest := skipn (2 * len) p).
    assert (Ep : p = lo ++ hi ++ rest).
    { unfold lo, hi, rest. rewrite <- (firstn_skipn len p) at 1. f_equal.
      rewrite <- (firstn_skipn len (skipn len p)) at 1. f_equal.
      rewrite skipn_add. f_equal. lia. }
    assert (Llo : length lo = len) by (unfold lo; rewrite firstn_length; lia).
    assert (Lhi : length hi = len) by (unfold hi; rewrite firstn_length, skipn_length; lia).
    assert (Clo : canon lo) by (apply canon_firstn; auto).
    assert (Chi : canon hi) by (apply canon_firstn, canon_skipn; auto).
    assert (Crest : canon rest) by (apply canon_skipn; auto).
    assert (Lrest : length rest = (nb * (2 * len))%nat) by (unfold rest; rewrite skipn_length; lia).
    set (z := zeta_at (S m)). set (t := map (k_mul z) hi).
    rewrite !scale_app.
    set (A := scale c (map2 k_add lo t)). set (B := scale c (map2 k_sub lo t)).
    assert (LA : length A = len) by (unfold A; rewrite scale_length, map2_length; unfold t; rewrite ?map_length; lia).
    assert (LB : length B = len) by (unfold B; rewrite scale_length, map2_length; unfold t; rewrite ?map_length; lia).
    cbn [intt_blocks].
    replace (firstn len (A ++ B ++ scale c (ntt_blocks nb len (S m) rest))) with A
      by (rewrite firstn_app, LA, Nat.sub_diag, firstn_O, app_nil_r, <- LA, firstn_all; reflexivity).
    replace (skipn len (A ++ B ++ scale c (ntt_blocks nb len (S m) rest)))
      with (B ++ scale c (ntt_blocks nb len (S m) rest))
      by (rewrite skipn_app, LA, Nat.sub_diag, <- LA, skipn_all; reflexivity).
    replace (firstn len (B ++ scale c (ntt_blocks nb len (S m) rest))) with B
      by (rewrite firstn_app, LB, Nat.sub_diag, firstn_O, app_nil_r, <- LB, firstn_all; reflexivity).
    replace (skipn (2 * len) (A ++ B ++ scale c (ntt_blocks nb len (S m) rest)))
      with (scale c (ntt_blocks nb len (S m) rest)).
    2:{ rewrite app_assoc, skipn_app, app_length, LA, LB.
        replace (2 * len - (len + len))%nat with 0%nat by lia.
        rewrite skipn_all2 by (rewrite app_length; lia). reflexivity. }
    set (z' := k_neg (zeta_at (Nat.pred m'))).
    assert (Hzz : (z * z') mod q = 1).
    { specialize (Hp 0%nat ltac:(lia)). rewrite Nat.add_0_r, Nat.sub_0_r in Hp.
      replace (m' - 1)%nat with (Nat.pred m') in Hp by lia. exact Hp. }
    destruct (block_pair lo hi c z z') as [P1 P2]; auto; try lia.
    { apply zeta_at_range. } { apply k_neg_range, zeta_at_range. }
    cbv zeta in P1, P2. fold t A B in P1, P2. rewrite P1, P2.
    rewrite (IH len (S m) (Nat.pred m') rest c); auto.
    + rewrite <- !scale_app, <- Ep. reflexivity.
    + intros b Hb. specialize (Hp (S b) ltac:(lia)).
      replace (S (S m) + b)%nat with (S m + S b)%nat by lia.
      replace (Nat.pred m' - 1 - b)%nat with (m' - 1 - S b)%nat by lia. exact Hp.
Qed.

(* ---- the eight layers ---- *)
Lemma ntt_unfold p : ntt p =
  ntt_blocks 128 1 127 (ntt_blocks 64 2 63 (ntt_blocks 32 4 31 (ntt_blocks 16 8 15
  (ntt_blocks 8 16 7 (ntt_blocks 4 32 3 (ntt_blocks 2 64 1 (ntt_blocks 1 128 0 p))))))).
Proof. reflexivity. Qed.

Lemma intt_unfold p : intt p = map (k_mul mldsa_inv256)
  (intt_blocks 1 128 2 (intt_blocks 2 64 4 (intt_blocks 4 32 8 (intt_blocks 8 16 16
  (intt_blocks 16 8 32 (intt_blocks 32 4 64 (intt_blocks 64 2 128 (intt_blocks 128 1 256 p)))))))).
Proof. reflexivity. Qed.

Lemma pairs_all :
  pair_ok 127 256 128 = true /\ pair_ok 63 128 64 = true /\ pair_ok 31 64 32 = true /\
  pair_ok 15 32 16 = true /\ pair_ok 7 16 8 = true /\ pair_ok 3 8 4 = true /\
  pair_ok 1 4 2 = true /\ pair_ok 0 2 1 = true.
Proof. repeat split; vm_compute; reflexivity. Qed.

Lemma scale_1 p : canon p -> scale 1 p = p.
Proof.
  intros H. unfold scale. rewrite <- (map_id p) at 2. apply map_ext_in. intros x Hx.
  unfold canon in H. rewrite Forall_forall in H. rewrite Z.mul_1_l. apply Z.mod_small. auto.
Qed.

Lemma unscale_256 p : canon p -> map (k_mul mldsa_inv256) (scale 256 p) = p.
Proof.
  intros H. unfold scale. rewrite map_map. rewrite <- (map_id p) at 2. apply map_ext_in. intros x Hx.
  unfold canon in H. rewrite Forall_forall in H. specialize (H x Hx).
  rewrite k_mul_spec by (auto using mod_q_range; unfold q; vm_compute; split; congruence).
  rewrite Zmult_mod_idemp_r. replace (mldsa_inv256 * (256 * x)) with ((mldsa_inv256 * 256) * x) by ring.
  rewrite Zmult_mod. change ((mldsa_inv256 * 256) mod q) with 1. rewrite Z.mul_1_l, Z.mod_mod by (unfold q; lia).
  apply Z.mod_small. exact H.
Qed.

(* Algorithm 42 inverts Algorithm 41 *)
Theorem intt_ntt p : length p = 256%nat -> canon p -> intt (ntt p) = p.
Proof.
  intros Hl Hc. rewrite intt_unfold, ntt_unfold.
  destruct pairs_all as (K1 & K2 & K3 & K4 & K5 & K6 & K7 & K8).
  (* lengths and canonicity of the intermediate stages *)
  destruct (ntt_blocks_props 1 128 0 p) as [L1 C1]; [rewrite Hl; reflexivity | exact Hc |].
  set (p1 := ntt_blocks 1 128 0 p) in *.
  destruct (ntt_blocks_props 2 64 1 p1) as [L2 C2]; [rewrite L1, Hl; reflexivity | exact C1 |].
  set (p2 := ntt_blocks 2 64 1 p1) in *.
  destruct (ntt_blocks_props 4 32 3 p2) as [L3 C3]; [rewrite L2, L1, Hl; reflexivity | exact C2 |].
  set (p3 := ntt_blocks 4 32 3 p2) in *.
  destruct (ntt_blocks_props 8 16 7 p3) as [L4 C4]; [rewrite L3, L2, L1, Hl; reflexivity | exact C3 |].
  set (p4 := ntt_blocks 8 16 7 p3) in *.
  destruct (ntt_blocks_props 16 8 15 p4) as [L5 C5]; [rewrite L4, L3, L2, L1, Hl; reflexivity | exact C4 |].
  set (p5 := ntt_blocks 16 8 15 p4) in *.
  destruct (ntt_blocks_props 32 4 31 p5) as [L6 C6]; [rewrite L5, L4, L3, L2, L1, Hl; reflexivity | exact C5 |].
  set (p6 := ntt_blocks 32 4 31 p5) in *.
  destruct (ntt_blocks_props 64 2 63 p6) as [L7 C7]; [rewrite L6, L5, L4, L3, L2, L1, Hl; reflexivity | exact C6 |].
  set (p7 := ntt_blocks 64 2 63 p6) in *.
  destruct (ntt_blocks_props 128 1 127 p7) as [L8 C8]; [rewrite L7, L6, L5, L4, L3, L2, L1, Hl; reflexivity | exact C7 |].
  rewrite <- (scale_1 (ntt_blocks 128 1 127 p7)) by exact C8.
  rewrite (layer_inverse 128 1 127 256 p7 1); [| rewrite L7, L6, L5, L4, L3, L2, L1, Hl; reflexivity | auto | unfold q; lia | apply pair_ok_spec; exact K1].
  change ((2 * 1) mod q) with 2. unfold p7.
  rewrite (layer_inverse 64 2 63 128 p6 2); [| rewrite L6, L5, L4, L3, L2, L1, Hl; reflexivity | auto | unfold q; lia | apply pair_ok_spec; exact K2].
  change ((2 * 2) mod q) with 4. unfold p6.
  rewrite (layer_inverse 32 4 31 64 p5 4); [| rewrite L5, L4, L3, L2, L1, Hl; reflexivity | auto | unfold q; lia | apply pair_ok_spec; exact K3].
  change ((2 * 4) mod q) with 8. unfold p5.
  rewrite (layer_inverse 16 8 15 32 p4 8); [| rewrite L4, L3, L2, L1, Hl; reflexivity | auto | unfold q; lia | apply pair_ok_spec; exact K4].
  change ((2 * 8) mod q) with 16. unfold p4.
  rewrite (layer_inverse 8 16 7 16 p3 16); [| rewrite L3, L2, L1, Hl; reflexivity | auto | unfold q; lia | apply pair_ok_spec; exact K5].
  change ((2 * 16) mod q) with 32. unfold p3.
  rewrite (layer_inverse 4 32 3 8 p2 32); [| rewrite L2, L1, Hl; reflexivity | auto | unfold q; lia | apply pair_ok_spec; exact K6].
  change ((2 * 32) mod q) with 64. unfold p2.
  rewrite (layer_inverse 2 64 1 4 p1 64); [| rewrite L1, Hl; reflexivity | auto | unfold q; lia | apply pair_ok_spec; exact K7].
  change ((2 * 64) mod q) with 128. unfold p1.
  rewrite (layer_inverse 1 128 0 2 p 128); [| rewrite Hl; reflexivity | auto | unfold q; lia | apply pair_ok_spec; exact K8].
  change ((2 * 128) mod q) with 256.
  apply unscale_256. exact Hc.
Qed.
