(* C17, strengthening round:
   (b) the HKDF of model/Derive.v (a private transcription over an HMAC oracle)
       IS the RFC 5869 function model/Hkdf.v that C15 is about, when the oracle
       is RFC 2104 HMAC over a hash -- and hence the x/crypto reader as coded;
   (c) salt separation and PRF-key separation of derive_key as REDUCTIONS to an
       exhibited truncated-HMAC collision; the literal "different PRF keys give
       different keys" is refuted (HKDF's nil-salt convention, HMAC key padding);
       derived keys are usable as ordinary keys. *)
From Coq Require Import List NArith Bool Arith Lia.
From Tink Require Import Bytes Hmac Hkdf HmacProofs HkdfProofs HmacCode HkdfCode HmacCodeProofs HkdfCodeProofs.
From Tink Require Import Manager ManagerProofs Derive DeriveProofs.
Import ListNotations.
Open Scope N_scope.

(* the obvious instantiation of the hash parameters *)
Definition alg_of (h : Derive.hash) : Hmac.hash_alg :=
  match h with
  | Derive.SHA1 => Hmac.SHA1 | Derive.SHA224 => Hmac.SHA224 | Derive.SHA256 => Hmac.SHA256
  | Derive.SHA384 => Hmac.SHA384 | Derive.SHA512 => Hmac.SHA512
  end.

Lemma hash_len_digest h : hash_len h = digest_size (alg_of h).
Proof. destruct h; reflexivity. Qed.

Lemma digest_le_block' a : (digest_size a <= block_size a)%nat.
Proof. destruct a; cbn; lia. Qed.

Lemma digest_pos' a : (0 < digest_size a)%nat.
Proof. destruct a; cbn; lia. Qed.

(* the HMAC oracle of Derive.v instantiated with RFC 2104 HMAC over hash functions *)
Definition std_hmac (Hash : hash_alg -> bytes -> bytes) (h : Derive.hash) (k m : bytes) : bytes :=
  Hmac.hmac (Hash (alg_of h)) (block_size (alg_of h)) k m.

Section OneHkdf.
  Variable Hash : hash_alg -> bytes -> bytes.
  Hypothesis Hash_len : forall a x, length (Hash a x) = digest_size a.

  Lemma std_hmac_len h k m : length (std_hmac Hash h k m) = hash_len h.
  Proof. unfold std_hmac, hmac. rewrite Hash_len. symmetry. apply hash_len_digest. Qed.

  Lemma hkdf_t_is_blocks h prk info : forall n i prev,
    hkdf_t (std_hmac Hash) h prk info n i prev
    = hkdf_blocks (Hash (alg_of h)) (block_size (alg_of h)) prk info prev i n.
  Proof.
    clear Hash_len. induction n as [|n IH]; intros i prev; [reflexivity|].
    cbn [hkdf_t hkdf_blocks]. rewrite IH. reflexivity.
  Qed.

  Lemma extract_is_extract h salt ikm :
    Derive.hkdf_extract (std_hmac Hash) h salt ikm
    = Hkdf.hkdf_extract (Hash (alg_of h)) (block_size (alg_of h)) salt ikm.
  Proof.
    clear Hash_len.
    unfold Derive.hkdf_extract, Hkdf.hkdf_extract, std_hmac. destruct salt as [|x salt]; [|reflexivity].
    rewrite hash_len_digest. symmetry. apply hmac_empty_key. apply digest_le_block'.
  Qed.

  (* ONE HKDF: Derive.hkdf = Hkdf.hkdf *)
  Theorem derive_hkdf_is_hkdf h ikm salt info len :
    Derive.hkdf (std_hmac Hash) h ikm salt info len
    = Hkdf.hkdf (Hash (alg_of h)) (block_size (alg_of h)) (digest_size (alg_of h)) salt ikm info len.
  Proof.
    clear Hash_len.
    unfold Derive.hkdf, Hkdf.hkdf, hkdf_expand.
    assert (Hb : blocks_for h len = hkdf_nblocks (digest_size (alg_of h)) len).
    { unfold blocks_for, hkdf_nblocks. rewrite hash_len_digest. reflexivity. }
    rewrite Hb, extract_is_extract, hkdf_t_is_blocks.
    pose proof (digest_pos' (alg_of h)) as Hp.
    destruct (Nat.ltb_spec (255 * digest_size (alg_of h)) len) as [Hbig|Hok].
    - destruct (Nat.ltb_spec 255 (hkdf_nblocks (digest_size (alg_of h)) len)) as [_|Hle]; [reflexivity|].
      exfalso. pose proof (nblocks_covers (digest_size (alg_of h)) Hp len). nia.
    - pose proof (nblocks_max (digest_size (alg_of h)) Hp len Hok).
      destruct (Nat.ltb_spec 255 (hkdf_nblocks (digest_size (alg_of h)) len)); [lia|reflexivity].
  Qed.

  (* ... and it is what the code's reader delivers: streamingprf.Compute(salt) = hkdf.New(h, key,
     prf salt, salt) as coded, followed by the key deriver's io.ReadFull of n bytes *)
  Section Coded.
    Variable St : Type.
    Variable h_init : St.
    Variable h_write : St -> bytes -> St.
    Variable h_sum : St -> bytes.
    Variable marshalable : bool.
    Variable h : Derive.hash.
    Hypothesis stream_law :
      forall chunks, h_sum (fold_left h_write chunks h_init) = Hash (alg_of h) (concat chunks).

    Theorem derive_bytes_code_is_derive_hkdf key prfsalt salt n :
      tink_derive_bytes_code St h_init h_write h_sum (block_size (alg_of h)) marshalable
        (digest_size (alg_of h)) key
        (match prfsalt with [] => None | _ => Some prfsalt end) salt n
      = Derive.hkdf (std_hmac Hash) h key prfsalt salt n
      /\
      tink_derive_bytes_code St h_init h_write h_sum (block_size (alg_of h)) marshalable
        (digest_size (alg_of h)) key (Some prfsalt) salt n
      = Derive.hkdf (std_hmac Hash) h key prfsalt salt n.
    Proof.
      pose proof (digest_pos' (alg_of h)) as Hp.
      rewrite derive_hkdf_is_hkdf.
      rewrite !(tink_derive_bytes_code_spec St h_init h_write h_sum (block_size (alg_of h)) marshalable
                 (Hash (alg_of h)) (digest_size (alg_of h)) stream_law (Hash_len (alg_of h)) Hp).
      split; [|reflexivity].
      destruct prfsalt as [|x s]; [|reflexivity]. cbn [salt_of].
      symmetry. apply hkdf_empty_salt. apply digest_le_block'.
    Qed.
  End Coded.
End OneHkdf.

(* ---- (c) separation as reductions, for ANY HMAC oracle of the right output length ---- *)
Section Separation.
  Variable hmac : hash -> bytes -> bytes -> bytes.
  Variable edpub : bytes -> bytes.
  Hypothesis hmac_len : forall h k m, length (hmac h k m) = hash_len h.

  (* the leading min(n, HashLen) bytes of an HKDF output are the truncated first block *)
  Lemma hkdf_head h ikm salt info n okm :
    (0 < n)%nat -> Derive.hkdf hmac h ikm salt info n = Some okm ->
    firstn (Nat.min n (hash_len h)) okm
    = firstn (Nat.min n (hash_len h)) (hmac h (Derive.hkdf_extract hmac h salt ikm) (info ++ [1])).
  Proof.
    intros Hn Hk. pose proof (hash_len_pos h) as Hp.
    pose proof (hkdf_prefix hmac hmac_len h ikm salt info (Nat.min n (hash_len h)) n okm ltac:(lia) Hk) as H1.
    rewrite (hkdf_first_block hmac) in H1 by lia. inversion H1. reflexivity.
  Qed.

  (* the effective HMAC key of Extract: a missing (empty) PRF salt is HashLen zero bytes *)
  Definition eff_salt (h : hash) (salt : bytes) : bytes :=
    match salt with [] => zeros (hash_len h) | _ => salt end.

  Lemma extract_eff h salt ikm : Derive.hkdf_extract hmac h salt ikm = hmac h (eff_salt h salt) ikm.
  Proof. reflexivity. Qed.

  (* SALT SEPARATION.  Two derivations from one deriver key with different caller salts that give
     the same key material of positive length exhibit a collision of HMAC truncated to
     n = min(key length, HashLen) > 0 bytes, under the key PRK, on the two different messages
     salt || 0x01 and salt' || 0x01. *)
  Theorem salt_separation_reduction k id id' salt salt' dk dk' :
    salt <> salt' -> (0 < consumption (k_type k))%nat ->
    derive_key hmac edpub k id salt = Some dk ->
    derive_key hmac edpub k id' salt' = Some dk' ->
    r_material dk = r_material dk' ->
    let prk := Derive.hkdf_extract hmac (k_hash k) (k_salt k) (k_ikm k) in
    let n := Nat.min (consumption (k_type k)) (hash_len (k_hash k)) in
    (0 < n <= hash_len (k_hash k))%nat /\
    salt ++ [1] <> salt' ++ [1] /\
    length (firstn n (hmac (k_hash k) prk (salt ++ [1]))) = n /\
    firstn n (hmac (k_hash k) prk (salt ++ [1])) = firstn n (hmac (k_hash k) prk (salt' ++ [1])).
  Proof.
    intros Hne Hpos Hd Hd' Hm prk n.
    apply (derive_key_spec hmac edpub hmac_len) in Hd. apply (derive_key_spec hmac edpub hmac_len) in Hd'.
    destruct Hd as [Hk _]. destruct Hd' as [Hk' _].
    pose proof (hash_len_pos (k_hash k)) as Hp.
    split; [subst n; lia|]. split; [intros E; apply Hne; eapply app_inv_tail; exact E|]. split.
    - rewrite firstn_length, hmac_len. subst n. lia.
    - pose proof (hkdf_head _ _ _ _ _ _ Hpos Hk) as A. pose proof (hkdf_head _ _ _ _ _ _ Hpos Hk') as A'.
      subst n prk. rewrite <- A, <- A', Hm. reflexivity.
  Qed.

  (* PRF-KEY SEPARATION.  Two deriver keys of the same hash and derived type whose PRF keys differ
     -- in the key bytes or in the EFFECTIVE salt -- and that derive the same material of positive
     length for one caller salt exhibit
       either a full-length HMAC collision in Extract (keys = effective salts, messages = key bytes), on
              different (key, message) pairs,
       or     a collision of HMAC truncated to n = min(key length, HashLen) > 0 bytes on the message
              salt || 0x01 under two different keys PRK <> PRK'. *)
  Theorem prf_key_separation_reduction k k' id id' salt dk dk' :
    k_hash k = k_hash k' -> k_type k = k_type k' ->
    (eff_salt (k_hash k) (k_salt k), k_ikm k) <> (eff_salt (k_hash k') (k_salt k'), k_ikm k') ->
    (0 < consumption (k_type k))%nat ->
    derive_key hmac edpub k id salt = Some dk ->
    derive_key hmac edpub k' id' salt = Some dk' ->
    r_material dk = r_material dk' ->
    let h := k_hash k in
    let prk := Derive.hkdf_extract hmac h (k_salt k) (k_ikm k) in
    let prk' := Derive.hkdf_extract hmac h (k_salt k') (k_ikm k') in
    let n := Nat.min (consumption (k_type k)) (hash_len h) in
    (0 < n <= hash_len h)%nat /\
    ((length (hmac h (eff_salt h (k_salt k)) (k_ikm k)) = hash_len h /\
      hmac h (eff_salt h (k_salt k)) (k_ikm k) = hmac h (eff_salt h (k_salt k')) (k_ikm k'))
     \/
     (prk <> prk' /\
      length (firstn n (hmac h prk (salt ++ [1]))) = n /\
      firstn n (hmac h prk (salt ++ [1])) = firstn n (hmac h prk' (salt ++ [1])))).
  Proof.
    intros Hh Ht Hne Hpos Hd Hd' Hm h prk prk' n.
    apply (derive_key_spec hmac edpub hmac_len) in Hd. apply (derive_key_spec hmac edpub hmac_len) in Hd'.
    destruct Hd as [Hk _]. destruct Hd' as [Hk' _].
    pose proof (hash_len_pos h) as Hp. rewrite <- Hh, <- Ht in Hk'. fold h in Hk, Hk'.
    split; [subst n; lia|].
    destruct (list_eq_dec N.eq_dec prk prk') as [E|NE].
    - left. split; [apply hmac_len|]. exact E.
    - right. split; [exact NE|]. split.
      + rewrite firstn_length, hmac_len. subst n. lia.
      + pose proof (hkdf_head _ _ _ _ _ _ Hpos Hk) as A. pose proof (hkdf_head _ _ _ _ _ _ Hpos Hk') as A'.
        subst n prk prk' h. rewrite <- A, <- A', Hm. reflexivity.
  Qed.

  (* the literal reading "different PRF keys give different keys" is FALSE: a PRF key with no salt
     and the PRF key with HashLen zero bytes as salt are different keys and derive, for every
     HMAC, every caller salt, every derived type, the same key *)
  Theorem prf_key_separation_refuted_nil_salt :
    forall h ikm t v id salt,
      let k := mkDKey h ikm [] t v in
      let k' := mkDKey h ikm (zeros (hash_len h)) t v in
      k <> k' /\ derive_key hmac edpub k id salt = derive_key hmac edpub k' id salt.
  Proof.
    intros h ikm t v id salt k k'. split.
    - intros E. inversion E as [E1]. destruct h; discriminate E1.
    - unfold derive_key, Derive.hkdf, Derive.hkdf_extract. cbn [k_hash k_ikm k_salt k_type k_variant k k'].
      destruct h; reflexivity.
  Qed.

  (* derived keys are usable as ordinary keys: the keyset entry carries the key's own id requirement,
     a required id is the entry's id, RAW variant iff no requirement, material of the type's length *)
  Theorem derived_keys_usable ks salt hd keys :
    wf_deriver ks ->
    derive_keyset hmac edpub ks salt = DOk hd keys ->
    wf_handle hd /\
    Forall2 (fun x dk =>
               est x = Enabled /\ ereq x = r_req dk /\
               (forall r, r_req dk = Some r -> r = eid x) /\
               (r_req dk = None <-> r_variant dk = VRaw) /\
               length (r_material dk) = consumption (r_type dk) /\
               r_public dk = (match r_type dk with DEd25519 => edpub (r_material dk) | _ => [] end))
            hd keys /\
    map ekey hd = map N.of_nat (seq 0 (length keys)).
  Proof.
    intros Hwf Hd.
    pose proof (derive_keyset_wellformed hmac edpub _ _ _ _ Hd) as Hw.
    destruct (derive_keyset_shape hmac edpub hmac_len _ _ _ _ Hwf Hd) as [F1 [F2 Hk]].
    split; [exact Hw|]. split; [|exact Hk].
    clear Hd Hw Hk Hwf. revert hd F2.
    induction F1 as [|e dk es dks Hdk F1 IH]; intros hd F2; inversion F2; subst.
    - constructor.
    - constructor; [|apply IH; assumption].
      destruct H1 as (Hid & Hst & _ & Hreq).
      apply (derive_key_spec hmac edpub hmac_len) in Hdk.
      destruct Hdk as (_ & Hl & Hty & Hrq & Hvar & Hpub).
      split; [exact Hst|]. split; [rewrite Hreq, Hrq; reflexivity|]. split.
      + intros r Hr. rewrite Hrq in Hr. destruct (has_id_req _ _); inversion Hr. symmetry. exact Hid.
      + split.
        * rewrite Hrq, Hvar. destruct (has_id_req (k_type (d_key e)) (k_variant (d_key e))) eqn:Eh.
          -- split; [discriminate|]. intros Ev. unfold has_id_req in Eh.
             destruct (k_type (d_key e)); try discriminate Eh; rewrite Ev in Eh; discriminate Eh.
          -- split; reflexivity.
        * split; [rewrite Hty; exact Hl|]. rewrite Hty. exact Hpub.
  Qed.
End Separation.

(* with real HMAC the separation also fails for trailing zero bytes of the salt (HMAC pads its key
   with zeros to the block size): salt s and s || 0x00 are the same Extract key *)
Theorem prf_key_separation_refuted_zero_padded_salt :
  forall (Hash : hash_alg -> bytes -> bytes) edpub h ikm s t v id salt,
    (0 < length s)%nat -> (length s < block_size (alg_of h))%nat ->
    let k := mkDKey h ikm s t v in
    let k' := mkDKey h ikm (s ++ [0]) t v in
    k <> k' /\ derive_key (std_hmac Hash) edpub k id salt = derive_key (std_hmac Hash) edpub k' id salt.
Proof.
  intros Hash edpub h ikm s t v id salt Hs Hl k k'. split.
  - intros E. inversion E as [E1]. apply (f_equal (@length N)) in E1. rewrite app_length in E1. cbn in E1. lia.
  - unfold derive_key, Derive.hkdf. cbn [k_hash k_ikm k_salt k_type k_variant k k'].
    assert (E : Derive.hkdf_extract (std_hmac Hash) h s ikm = Derive.hkdf_extract (std_hmac Hash) h (s ++ [0]) ikm).
    { unfold Derive.hkdf_extract, std_hmac. destruct s as [|x s]; [cbn in Hs; lia|]. cbn [app].
      change (x :: s ++ [0]) with ((x :: s) ++ zeros 1). symmetry. apply hmac_pad. cbn [length] in *. lia. }
    rewrite E. reflexivity.
Qed.

(* ---- PRF-key separation MODULO HMAC key normalisation (second audit, item 8) ----
   With the abstract oracle above, the first disjunct of prf_key_separation_reduction compares the
   Extract keys as byte strings.  Once the oracle is RFC 2104 HMAC, two different byte strings can be
   the same HMAC key (zero padding to the block size, hashing of long keys): for such twins
   HMAC agrees by an IDENTITY and the disjunct is free.  The statement below therefore is about
   RFC 2104 HMAC over an arbitrary hash and compares keys after normalisation
   (Hmac.hmac_key: hash if longer than the block, then zero-pad to the block size); the twins are
   excluded by the premise (they are the refuted class, the two prf_key_separation_refuted theorems). *)
Lemma app_eq_len1 {A} (a b c d : list A) :
  a ++ b = c ++ d -> length a = length c -> a = c /\ b = d.
Proof.
  revert c. induction a as [|x a IH]; intros c E Hl; destruct c as [|y c]; try discriminate Hl.
  - auto.
  - cbn in E. inversion E; subst. cbn in Hl. destruct (IH c H1 ltac:(lia)) as [-> ->]. auto.
Qed.

Section NormSeparation.
  Variable Hash : hash_alg -> bytes -> bytes.
  Hypothesis Hash_len : forall a x, length (Hash a x) = digest_size a.
  Variable edpub : bytes -> bytes.

  (* an HMAC collision on inputs whose normalised keys or messages differ is a collision of the
     HASH on two different inputs, exhibited: the outer inputs, or (same normalised key) the inner ones *)
  Lemma hmac_collision_is_hash_collision a k m k' m' :
    let H := Hash a in let B := block_size a in
    (hmac_key H B k <> hmac_key H B k' \/ m <> m') ->
    hmac H B k m = hmac H B k' m' ->
    let k0 := hmac_key H B k in let k0' := hmac_key H B k' in
    let inner := xorb k0 (ipad B) ++ m in let inner' := xorb k0' (ipad B) ++ m' in
    let outer := xorb k0 (opad B) ++ H inner in let outer' := xorb k0' (opad B) ++ H inner' in
    (outer <> outer' /\ H outer = H outer') \/
    (k0 = k0' /\ inner <> inner' /\ H inner = H inner').
  Proof.
    clear edpub. intros H B Hd Hc k0 k0' inner inner' outer outer'.
    destruct (list_eq_dec N.eq_dec outer outer') as [E|NE]; [right|left; split; [exact NE|exact Hc]].
    assert (Hl : forall x, length (hmac_key H B x) = B).
    { intros x. apply hmac_key_length. subst H B. rewrite Hash_len. apply digest_le_block'. }
    assert (Hp : forall c x, length x = B -> length (xorb x (repeat c B)) = B).
    { intros c x Hx. rewrite xorb_length, Hx, repeat_length. lia. }
    subst outer outer'.
    apply app_eq_len1 in E; [|unfold opad; rewrite !Hp by (apply Hl); reflexivity].
    destruct E as [Ek Ei].
    assert (E0 : k0 = k0').
    { rewrite <- (xorb_cancel k0 (opad B)), <- (xorb_cancel k0' (opad B));
        try (unfold opad; rewrite repeat_length; apply Hl).
      rewrite Ek. reflexivity. }
    split; [exact E0|]. split; [|exact Ei].
    destruct Hd as [Hd|Hd]; [contradiction|].
    subst inner inner'. rewrite E0. intros E. apply app_inv_head in E. contradiction.
  Qed.

  Theorem prf_key_separation_reduction_norm k k' id id' salt dk dk' :
    k_hash k = k_hash k' -> k_type k = k_type k' ->
    let h := k_hash k in
    let H := Hash (alg_of h) in let B := block_size (alg_of h) in
    (hmac_key H B (eff_salt h (k_salt k)), k_ikm k)
      <> (hmac_key H B (eff_salt h (k_salt k')), k_ikm k') ->
    (0 < consumption (k_type k))%nat ->
    derive_key (std_hmac Hash) edpub k id salt = Some dk ->
    derive_key (std_hmac Hash) edpub k' id' salt = Some dk' ->
    r_material dk = r_material dk' ->
    let prk := hmac H B (eff_salt h (k_salt k)) (k_ikm k) in
    let prk' := hmac H B (eff_salt h (k_salt k')) (k_ikm k') in
    let n := Nat.min (consumption (k_type k)) (hash_len h) in
    (0 < n <= hash_len h)%nat /\
    (((hmac_key H B (eff_salt h (k_salt k)) <> hmac_key H B (eff_salt h (k_salt k')) \/ k_ikm k <> k_ikm k') /\
      length prk = hash_len h /\ prk = prk')
     \/
     (hmac_key H B prk <> hmac_key H B prk' /\
      length (firstn n (hmac H B prk (salt ++ [1]))) = n /\
      firstn n (hmac H B prk (salt ++ [1])) = firstn n (hmac H B prk' (salt ++ [1])))).
  Proof.
    intros Hh Ht h H B Hne Hpos Hd Hd' Hm prk prk' n.
    assert (Hraw : (eff_salt (k_hash k) (k_salt k), k_ikm k) <> (eff_salt (k_hash k') (k_salt k'), k_ikm k')).
    { intros E. apply Hne. inversion E as [[E1 E2]]. subst h. rewrite <- Hh in E1. rewrite E1, E2. reflexivity. }
    destruct (prf_key_separation_reduction (std_hmac Hash) edpub (std_hmac_len Hash Hash_len)
                k k' id id' salt dk dk' Hh Ht Hraw Hpos Hd Hd' Hm) as [Hn [[Hl E]|[NE [Hl E]]]].
    - split; [exact Hn|]. left. split; [|split; [exact Hl|exact E]].
      destruct (list_eq_dec N.eq_dec (hmac_key H B (eff_salt h (k_salt k))) (hmac_key H B (eff_salt h (k_salt k'))))
        as [Ek|NEk]; [|left; exact NEk].
      right. intros Ei. apply Hne. rewrite Ek, Ei. reflexivity.
    - split; [exact Hn|]. right. split; [|split; [exact Hl|exact E]].
      (* PRKs are HashLen <= B bytes: their normalisation only appends the same zeros *)
      change (Derive.hkdf_extract (std_hmac Hash) (k_hash k) (k_salt k) (k_ikm k)) with prk in NE.
      change (Derive.hkdf_extract (std_hmac Hash) (k_hash k) (k_salt k') (k_ikm k')) with prk' in NE.
      assert (Hlen : forall x y, length (hmac H B x y) = digest_size (alg_of h)).
      { intros x y. unfold hmac. subst H. apply Hash_len. }
      pose proof (digest_le_block' (alg_of h)) as Hle. fold B in Hle.
      assert (Hp1 : length prk = digest_size (alg_of h)) by apply Hlen.
      assert (Hp2 : length prk' = digest_size (alg_of h)) by apply Hlen.
      intros Ek. apply NE. unfold hmac_key in Ek. rewrite Hp1, Hp2 in Ek.
      destruct (Nat.ltb_spec B (digest_size (alg_of h))); [lia|].
      rewrite Hp1, Hp2 in Ek. apply app_inv_tail in Ek. exact Ek.
  Qed.
End NormSeparation.

(* ---- when are two byte strings the same HMAC key?  (third audit, item 9) ----
   hmac_key k = hmac_key k' has exactly three causes: zero padding inside the block, the
   hash-of-a-long-key rule (both identities of RFC 2104), or two different long keys with the same
   hash -- a located collision of the hash, which must be reported as an event and not be hidden in
   the premise "normalised keys differ". *)
Definition pad_twins (a a' : bytes) : Prop :=
  a' = a ++ zeros (length a' - length a) \/ a = a' ++ zeros (length a - length a').

Lemma firstn_zeros n m : (n <= m)%nat -> firstn n (zeros m) = zeros n.
Proof.
  revert m. induction n as [|n IH]; intros m Hle; [reflexivity|].
  destruct m as [|m]; [lia|]. cbn. f_equal. apply IH. lia.
Qed.

Lemma pad_eq_iff a a' B : (length a <= B)%nat -> (length a' <= B)%nat ->
  (a ++ zeros (B - length a) = a' ++ zeros (B - length a') <-> pad_twins a a').
Proof.
  intros Ha Ha'. split.
  - intros E. destruct (Nat.le_gt_cases (length a) (length a')) as [Hle|Hgt].
    + left. apply (f_equal (firstn (length a'))) in E.
      rewrite firstn_app, (firstn_all2 (n := length a') a) in E by lia.
      rewrite firstn_zeros in E by lia.
      rewrite firstn_app, firstn_all, Nat.sub_diag in E. cbn [firstn] in E. rewrite app_nil_r in E.
      symmetry. exact E.
    + right. apply (f_equal (firstn (length a))) in E.
      rewrite firstn_app, firstn_all, Nat.sub_diag in E. cbn [firstn] in E. rewrite app_nil_r in E.
      rewrite firstn_app, (firstn_all2 (n := length a) a') in E by lia.
      rewrite firstn_zeros in E by lia. exact E.
  - intros [E|E].
    + assert (Hl : (length a <= length a')%nat).
      { apply (f_equal (@length N)) in E. rewrite app_length, zeros_length in E. lia. }
      rewrite E at 1. rewrite <- app_assoc, zeros_app. f_equal. f_equal. lia.
    + assert (Hl : (length a' <= length a)%nat).
      { apply (f_equal (@length N)) in E. rewrite app_length, zeros_length in E. lia. }
      rewrite E at 1. rewrite <- app_assoc, zeros_app. f_equal. f_equal. lia.
Qed.

Section HmacKeyEq.
  Variable H : bytes -> bytes.
  Variables B HL : nat.
  Hypothesis H_len : forall x, length (H x) = HL.
  Hypothesis HL_le : (HL <= B)%nat.

  Theorem hmac_key_eq_cases k k' :
    hmac_key H B k = hmac_key H B k' <->
    ((length k <= B)%nat /\ (length k' <= B)%nat /\ pad_twins k k') \/       (* zero padding *)
    ((B < length k)%nat /\ (length k' <= B)%nat /\ pad_twins (H k) k') \/    (* k' is the hashed long key k *)
    ((length k <= B)%nat /\ (B < length k')%nat /\ pad_twins k (H k')) \/
    ((B < length k)%nat /\ (B < length k')%nat /\ H k = H k').               (* k <> k': a hash collision *)
  Proof.
    unfold hmac_key.
    destruct (Nat.ltb_spec B (length k)) as [Hk|Hk]; destruct (Nat.ltb_spec B (length k')) as [Hk'|Hk'].
    - rewrite pad_eq_iff by (rewrite H_len; exact HL_le). split.
      + intros [E|E]; rewrite !H_len, Nat.sub_diag in E; cbn [zeros repeat] in E; rewrite app_nil_r in E;
          right; right; right; auto.
      + intros [[? _]|[[_ [? _]]|[[? _]|[_ [_ E]]]]]; try lia. left. rewrite E, Nat.sub_diag. cbn. rewrite app_nil_r. reflexivity.
    - rewrite pad_eq_iff by (rewrite ?H_len; lia). split.
      + intros E. right; left. auto.
      + intros [[? _]|[[_ [_ E]]|[[? _]|[_ [? _]]]]]; try lia. exact E.
    - rewrite pad_eq_iff by (rewrite ?H_len; lia). split.
      + intros E. right; right; left. auto.
      + intros [[_ [? _]]|[[? _]|[[_ [_ E]]|[? _]]]]; try lia. exact E.
    - rewrite pad_eq_iff by lia. split.
      + intros E. left. auto.
      + intros [[_ [_ E]]|[[? _]|[[_ [? _]]|[? _]]]]; try lia. exact E.
  Qed.
End HmacKeyEq.

Section Exhaustive.
  Variable Hash : hash_alg -> bytes -> bytes.
  Hypothesis Hash_len : forall a x, length (Hash a x) = digest_size a.
  Variable edpub : bytes -> bytes.

  (* the nil-salt rule of Extract is itself zero padding: eff_salt does not change the HMAC key *)
  Lemma eff_salt_norm h s :
    hmac_key (Hash (alg_of h)) (block_size (alg_of h)) (eff_salt h s)
    = hmac_key (Hash (alg_of h)) (block_size (alg_of h)) s.
  Proof.
    clear edpub. destruct s as [|x s]; [|reflexivity]. cbn [eff_salt]. rewrite hash_len_digest.
    pose proof (digest_le_block' (alg_of h)) as Hle. unfold hmac_key. rewrite zeros_length.
    destruct (Nat.ltb_spec (block_size (alg_of h)) (digest_size (alg_of h))); [lia|].
    cbn [length]. destruct (Nat.ltb_spec (block_size (alg_of h)) 0); [lia|].
    rewrite zeros_app. cbn [app]. f_equal. rewrite ?zeros_length. cbn [length]. lia.
  Qed.

  (* PRF keys with the same key bytes and the same NORMALISED salt derive the same key for every
     caller salt: the general form of the two refuted theorems (an identity, not an event) *)
  Theorem norm_equal_salts_derive_equal h ikm s s' t v id salt :
    hmac_key (Hash (alg_of h)) (block_size (alg_of h)) s
      = hmac_key (Hash (alg_of h)) (block_size (alg_of h)) s' ->
    derive_key (std_hmac Hash) edpub (mkDKey h ikm s t v) id salt
    = derive_key (std_hmac Hash) edpub (mkDKey h ikm s' t v) id salt.
  Proof.
    clear Hash_len. intros E. unfold derive_key, Derive.hkdf. cbn [k_hash k_ikm k_salt k_type k_variant].
    assert (Ex : Derive.hkdf_extract (std_hmac Hash) h s ikm = Derive.hkdf_extract (std_hmac Hash) h s' ikm).
    { unfold Derive.hkdf_extract. fold (eff_salt h s). fold (eff_salt h s').
      unfold std_hmac, hmac. rewrite !eff_salt_norm, E. reflexivity. }
    rewrite Ex. reflexivity.
  Qed.

  (* EXHAUSTIVE case split for two literally different PRF keys (same hash, same derived type) that
     derive the same material of positive length for one caller salt:
       (I)   same key bytes and salts that are the same HMAC key BY AN RFC IDENTITY: zero padding
             within the block (incl. absent salt = HashLen zeros), or one salt longer than the block and
             the other its hash (up to zero padding) -- the refuted class, no event;
       (II)  same key bytes and two different salts longer than the block with the same hash: a located
             COLLISION OF THE HASH at (salt, salt');
       (III) normalised-different: the reduction (Extract collision on normalised-different inputs, or
             truncated HMAC collision under PRKs with different normalisations). *)
  Theorem prf_key_separation_exhaustive k k' id id' salt dk dk' :
    k_hash k = k_hash k' -> k_type k = k_type k' ->
    (k_salt k, k_ikm k) <> (k_salt k', k_ikm k') ->
    (0 < consumption (k_type k))%nat ->
    derive_key (std_hmac Hash) edpub k id salt = Some dk ->
    derive_key (std_hmac Hash) edpub k' id' salt = Some dk' ->
    r_material dk = r_material dk' ->
    let h := k_hash k in
    let H := Hash (alg_of h) in let B := block_size (alg_of h) in
    let s := k_salt k in let s' := k_salt k' in
    let prk := hmac H B (eff_salt h s) (k_ikm k) in
    let prk' := hmac H B (eff_salt h s') (k_ikm k') in
    let n := Nat.min (consumption (k_type k)) (hash_len h) in
    (* (I) *)
    (k_ikm k = k_ikm k' /\ s <> s' /\
       (((length s <= B)%nat /\ (length s' <= B)%nat /\ pad_twins s s') \/
        ((B < length s)%nat /\ (length s' <= B)%nat /\ pad_twins (H s) s') \/
        ((length s <= B)%nat /\ (B < length s')%nat /\ pad_twins s (H s')))) \/
    (* (II) *)
    (k_ikm k = k_ikm k' /\ (B < length s)%nat /\ (B < length s')%nat /\ s <> s' /\ H s = H s') \/
    (* (III) *)
    ((0 < n <= hash_len h)%nat /\
     (((hmac_key H B s <> hmac_key H B s' \/ k_ikm k <> k_ikm k') /\ length prk = hash_len h /\ prk = prk')
      \/
      (hmac_key H B prk <> hmac_key H B prk' /\
       length (firstn n (hmac H B prk (salt ++ [1]))) = n /\
       firstn n (hmac H B prk (salt ++ [1])) = firstn n (hmac H B prk' (salt ++ [1]))))).
  Proof.
    intros Hh Ht Hne Hpos Hd Hd' Hm h H B s s' prk prk' n.
    destruct (list_eq_dec N.eq_dec (hmac_key H B s) (hmac_key H B s')) as [Ek|NEk].
    - destruct (list_eq_dec N.eq_dec (k_ikm k) (k_ikm k')) as [Ei|NEi].
      + assert (Hs : s <> s') by (intros E; apply Hne; subst s s'; rewrite E, Ei; reflexivity).
        apply (hmac_key_eq_cases H B (digest_size (alg_of h)) (Hash_len (alg_of h)) (digest_le_block' (alg_of h))) in Ek.
        destruct Ek as [C|[C|[C|[Hl [Hl' E]]]]].
        * left. split; [exact Ei|]. split; [exact Hs|]. left. exact C.
        * left. split; [exact Ei|]. split; [exact Hs|]. right; left. exact C.
        * left. split; [exact Ei|]. split; [exact Hs|]. right; right. exact C.
        * right; left. repeat split; assumption.
      + right; right.
        destruct (prf_key_separation_reduction_norm Hash Hash_len edpub k k' id id' salt dk dk' Hh Ht) as [Hn Hev];
          try assumption.
        { intros E. inversion E. contradiction. }
        split; [exact Hn|]. destruct Hev as [[Hdiff Hx]|Hx]; [left|right; exact Hx].
        split; [|exact Hx]. right. exact NEi.
    - right; right.
      destruct (prf_key_separation_reduction_norm Hash Hash_len edpub k k' id id' salt dk dk' Hh Ht) as [Hn Hev];
        try assumption.
      { intros E. inversion E as [[E1 E2]]. apply NEk. subst h H B s s'.
        rewrite !eff_salt_norm in E1. exact E1. }
      split; [exact Hn|]. destruct Hev as [[Hdiff Hx]|Hx]; [left|right; exact Hx].
      split; [|exact Hx]. left. exact NEk.
  Qed.
End Exhaustive.
