(* Facts about the regenerated ML-DSA constants and zetas table
   (gen/MldsaScalar.v), each decided by evaluation over the finite table. *)
From Coq Require Import ZArith Lia Bool List.
From Tink Require Import MldsaScalar.
Import ListNotations.
Open Scope Z_scope.

Fixpoint powmod (b : Z) (e : nat) (m : Z) : Z :=
  match e with O => 1 mod m | S e' => (b * powmod b e' m) mod m end.

(* 8-bit bit reversal *)
Definition brv8 (k : Z) : Z :=
  fold_left (fun acc i => acc + (if Z.testbit k i then 2 ^ (7 - i) else 0)) [0;1;2;3;4;5;6;7] 0.

Definition zetas_spec : list Z :=
  0 :: map (fun k => powmod mldsa_zeta (Z.to_nat (brv8 k)) mldsa_q) (map Z.of_nat (seq 1 255)).

Theorem zetas_table_ok : mldsa_zetas = zetas_spec.
Proof. vm_compute. reflexivity. Qed.

Theorem zetas_length : length mldsa_zetas = 256%nat.
Proof. reflexivity. Qed.

Theorem zeta_primitive_512th_root :
  powmod mldsa_zeta 256 mldsa_q = mldsa_q - 1 /\ powmod mldsa_zeta 512 mldsa_q = 1.
Proof. split; vm_compute; reflexivity. Qed.

Theorem inv256_ok : (mldsa_inv256 * 256) mod mldsa_q = 1.
Proof. reflexivity. Qed.

Theorem consts_ok : mldsa_q = 2 ^ 23 - 2 ^ 13 + 1 /\ mldsa_d = 13 /\ mldsa_degree = 256 /\ mldsa_qBits = 23.
Proof. repeat split; reflexivity. Qed.

Theorem zetas_in_range : forallb (fun z => (0 <=? z) && (z <? mldsa_q)) mldsa_zetas = true.
Proof. vm_compute. reflexivity. Qed.

(* the pairing that makes the inverse NTT invert the NTT layer by layer:
   intt uses -zetas[m] with m counting down; for the butterfly at index m the
   inverse twiddle is zetas[m]^-1, and zetas[m]*zetas[m] inverse pairs satisfy
   zetas[m] * (-zetas[m']) = 1 where m' is the mirrored index within its layer *)
Definition layer_mirror (m : nat) : nat :=
  (* layer with 2^j butterflies occupies indices 2^j .. 2^(j+1)-1; mirror inside it *)
  let j := Nat.log2 m in (3 * 2 ^ j - 1 - m)%nat.

Theorem zetas_inverse_pairs :
  forallb (fun m => ((nth m mldsa_zetas 0 * (mldsa_q - nth (layer_mirror m) mldsa_zetas 0)) mod mldsa_q =? 1))
          (seq 1 255) = true.
Proof. vm_compute. reflexivity. Qed.
