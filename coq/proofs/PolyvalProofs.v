(* Stretch (C01): the POLYVAL kernels of internal/aead/polyval.go compute the
   RFC 8452 dot product for ALL field elements.
   Part 1: "multiplication with holes" — mul32 is GF(2)-bilinear (no carries
   between the base-16 digits because at most 8 partial products meet). *)
From Coq Require Import List NArith ZArith Bool Arith Lia ZifyN ZifyNat ZifyBool Btauto.
From Tink Require Import Bytes Polyval.
Import ListNotations.
Open Scope N_scope.

Ltac Zify.zify_post_hook ::= Z.div_mod_to_equations.

(* ---------- AND distributes over XOR ---------- *)
Lemma land_lxor_l a b c : N.land (N.lxor a b) c = N.lxor (N.land a c) (N.land b c).
Proof. apply N.bits_inj. intros n. rewrite !N.lxor_spec, !N.land_spec, N.lxor_spec. btauto. Qed.

Lemma land_lxor_r a b c : N.land c (N.lxor a b) = N.lxor (N.land c a) (N.land c b).
Proof. rewrite !(N.land_comm c). apply land_lxor_l. Qed.

(* ---------- bits of small numbers, nibble decomposition ---------- *)
Lemma small_bits r k n : r < 2 ^ k -> k <= n -> N.testbit r n = false.
Proof.
  intros Hr Hn. rewrite <- (N.mod_small r (2 ^ k)) by exact Hr. apply N.mod_pow2_bits_high. exact Hn.
Qed.

Lemma nib_lor r x : r < 16 -> r + 16 * x = N.lor r (N.shiftl x 4).
Proof.
  intros Hr. rewrite N.shiftl_mul_pow2. change (2 ^ 4) with 16. rewrite (N.mul_comm x 16).
  assert (H0 : N.land r (16 * x) = 0).
  { apply N.bits_inj. intros n. rewrite N.land_spec, N.bits_0.
    destruct (N.lt_ge_cases n 4) as [Hn|Hn].
    - replace (16 * x) with (N.shiftl x 4) by (rewrite N.shiftl_mul_pow2; change (2 ^ 4) with 16; lia).
      rewrite N.shiftl_spec_low by exact Hn. apply andb_false_r.
    - rewrite (small_bits r 4 n) by (try exact Hn; change (2 ^ 4) with 16; exact Hr). reflexivity. }
  rewrite N.add_nocarry_lxor by exact H0. apply N.lxor_lor. exact H0.
Qed.

Lemma nib_bits r x n : r < 16 ->
  N.testbit (r + 16 * x) n = if n <? 4 then N.testbit r n else N.testbit x (n - 4).
Proof.
  intros Hr. rewrite nib_lor by exact Hr. rewrite N.lor_spec.
  destruct (N.ltb_spec n 4) as [Hn|Hn].
  - rewrite N.shiftl_spec_low by exact Hn. apply orb_false_r.
  - rewrite (small_bits r 4 n) by (try exact Hn; change (2 ^ 4) with 16; exact Hr).
    rewrite N.shiftl_spec_high' by exact Hn. reflexivity.
Qed.

Lemma land_lt16 r r' : r < 16 -> N.land r r' < 16.
Proof.
  intros Hr. rewrite <- (N.mod_small r 16) by exact Hr. change 16 with (2 ^ 4) at 1.
  rewrite <- N.land_ones, <- N.land_assoc, (N.land_comm (N.ones 4)), N.land_assoc, N.land_ones.
  apply N.mod_lt. discriminate.
Qed.

Lemma lxor_lt16 r r' : r < 16 -> r' < 16 -> N.lxor r r' < 16.
Proof.
  intros Hr Hr'. rewrite <- (N.mod_small r 16), <- (N.mod_small r' 16) by assumption.
  change 16 with (2 ^ 4) at 1 2. rewrite <- !N.land_ones, <- land_lxor_l, N.land_ones.
  apply N.mod_lt. discriminate.
Qed.

Lemma nib_land r x r' y : r < 16 -> r' < 16 ->
  N.land (r + 16 * x) (r' + 16 * y) = N.land r r' + 16 * N.land x y.
Proof.
  intros Hr Hr'. apply N.bits_inj. intros n.
  rewrite N.land_spec, !nib_bits by (try assumption; apply land_lt16; assumption).
  destruct (n <? 4); rewrite N.land_spec; reflexivity.
Qed.

Lemma nib_lxor r x r' y : r < 16 -> r' < 16 ->
  N.lxor (r + 16 * x) (r' + 16 * y) = N.lxor r r' + 16 * N.lxor x y.
Proof.
  intros Hr Hr'. apply N.bits_inj. intros n.
  rewrite N.lxor_spec, !nib_bits by (try assumption; apply lxor_lt16; assumption).
  destruct (n <? 4); rewrite N.lxor_spec; reflexivity.
Qed.

(* ---------- the mask 0x..1111 with n ones ---------- *)
Fixpoint S_ (n : nat) : N := match n with O => 0 | S k => 1 + 16 * S_ k end.

Lemma land_S_step z n : N.land z (S_ (S n)) = z mod 2 + 16 * N.land (z / 16) (S_ n).
Proof.
  cbn [S_]. rewrite (N.div_mod z 16) at 1 by discriminate. rewrite (N.add_comm (16 * (z / 16))).
  rewrite nib_land by (try apply N.mod_lt; try discriminate; lia). f_equal.
  change 1 with (N.ones 1). rewrite N.land_ones. change (2 ^ 1) with 2.
  assert (H := N.mod_lt z 16). lia.
Qed.

Lemma add_mod2_lxor x y : (x + y) mod 2 = N.lxor (x mod 2) (y mod 2).
Proof.
  assert (Hx := N.mod_lt x 2). assert (Hy := N.mod_lt y 2).
  assert (E : (x + y) mod 2 = (x mod 2 + y mod 2) mod 2) by lia. rewrite E.
  assert (Cx : x mod 2 = 0 \/ x mod 2 = 1) by lia. assert (Cy : y mod 2 = 0 \/ y mod 2 = 1) by lia.
  destruct Cx as [-> | ->], Cy as [-> | ->]; reflexivity.
Qed.

(* ---------- base-16 digits bounded by d ---------- *)
Fixpoint dle (d : N) (n : nat) (x : N) : Prop :=
  match n with O => x = 0 | S k => x mod 16 <= d /\ dle d k (x / 16) end.

Lemma dle_0 d n : dle d n 0.
Proof. induction n; simpl; [reflexivity|]. split; [lia|exact IHn]. Qed.

Lemma dle_weaken d e n x : d <= e -> dle d n x -> dle e n x.
Proof. revert x; induction n; simpl; intros x H Hx; [exact Hx|]. destruct Hx. split; [lia|auto]. Qed.

Lemma dle_extend d n x : dle d n x -> dle d (S n) x.
Proof.
  revert x; induction n; intros x H.
  - simpl in H. subst. apply dle_0.
  - destruct H as [H1 H2]. split; [exact H1|]. apply IHn. exact H2.
Qed.

Lemma dle_extend_k d n k x : dle d n x -> dle d (n + k) x.
Proof.
  induction k; intros H; [rewrite Nat.add_0_r; exact H|].
  rewrite Nat.add_succ_r. apply dle_extend. auto.
Qed.

Lemma dle_shift d n x : dle d n x -> dle d (S n) (16 * x).
Proof.
  intros H. split.
  - replace ((16 * x) mod 16) with 0 by lia. lia.
  - replace (16 * x / 16) with x by lia. exact H.
Qed.

Lemma dle_bound d n x : dle d n x -> x < 16 ^ N.of_nat n.
Proof.
  revert x; induction n; intros x H.
  - simpl in H. subst. reflexivity.
  - destruct H as [_ H]. apply IHn in H. rewrite Nnat.Nat2N.inj_succ, N.pow_succ_r'. lia.
Qed.

Lemma dle_land_S z n : dle 1 n (N.land z (S_ n)).
Proof.
  revert z; induction n; intros z.
  - simpl. apply N.land_0_r.
  - rewrite land_S_step. assert (H := N.mod_lt z 2). split.
    + replace ((z mod 2 + 16 * N.land (z / 16) (S_ n)) mod 16) with (z mod 2) by lia. lia.
    + replace ((z mod 2 + 16 * N.land (z / 16) (S_ n)) / 16) with (N.land (z / 16) (S_ n)) by lia. apply IHn.
Qed.

Lemma holes_land_id n x : dle 1 n x -> N.land x (S_ n) = x.
Proof.
  revert x; induction n; intros x H.
  - simpl in *. subst. reflexivity.
  - destruct H as [H1 H2]. rewrite land_S_step, IHn by exact H2. lia.
Qed.

(* adding numbers whose digit sums stay below 16: no carries, and the low bits
   of the digits of the sum are the XOR of the low bits *)
Lemma add_nocarry d e n : d + e <= 15 -> forall x y, dle d n x -> dle e n y ->
  dle (d + e) n (x + y) /\ N.land (x + y) (S_ n) = N.lxor (N.land x (S_ n)) (N.land y (S_ n)).
Proof.
  intros Hde. induction n; intros x y Hx Hy.
  - simpl in *. subst. split; reflexivity.
  - destruct Hx as [Hx1 Hx2], Hy as [Hy1 Hy2].
    destruct (IHn _ _ Hx2 Hy2) as [IH1 IH2].
    assert (Em : (x + y) mod 16 = x mod 16 + y mod 16) by lia.
    assert (Ed : (x + y) / 16 = x / 16 + y / 16) by lia.
    split.
    + split; [lia|]. rewrite Ed. exact IH1.
    + rewrite !land_S_step, Ed, IH2.
      assert (H2x := N.mod_lt x 2). assert (H2y := N.mod_lt y 2).
      rewrite nib_lxor by lia. f_equal. apply add_mod2_lxor.
Qed.

(* ---------- carry-less product of two numbers with holes ---------- *)
Fixpoint xorprod (m : nat) (U V : N) : N :=
  match m with
  | O => 0
  | S k => N.lxor (if N.odd V then U else 0) (16 * xorprod k U (V / 16))
  end.

Lemma mul16_lxor a b : 16 * N.lxor a b = N.lxor (16 * a) (16 * b).
Proof.
  rewrite !(N.mul_comm 16). change 16 with (2 ^ 4). rewrite <- !N.shiftl_mul_pow2. apply N.shiftl_lxor.
Qed.

Lemma xorprod_lxor_l m : forall U U' V,
  xorprod m (N.lxor U U') V = N.lxor (xorprod m U V) (xorprod m U' V).
Proof.
  induction m; intros U U' V; cbn [xorprod]; [reflexivity|].
  rewrite IHm, mul16_lxor. destruct (N.odd V).
  - apply N.bits_inj. intros n. rewrite !N.lxor_spec. btauto.
  - rewrite !N.lxor_0_l. reflexivity.
Qed.

Lemma mul16_land_S z n : N.land (16 * z) (S_ (S n)) = 16 * N.land z (S_ n).
Proof.
  rewrite land_S_step. replace ((16 * z) mod 2) with 0 by lia. replace (16 * z / 16) with z by lia. lia.
Qed.

(* U, V with base-16 digits in {0,1}: the product has digits <= m (no carries) and its
   digit-wise low bits are the carry-less product *)
Lemma prod_holes n m : (m <= 15)%nat -> forall U V, dle 1 n U -> dle 1 m V ->
  dle (N.of_nat m) (n + m) (U * V) /\ N.land (U * V) (S_ (n + m)) = xorprod m U V.
Proof.
  induction m; intros Hm U V HU HV.
  - simpl in HV. subst V. rewrite N.mul_0_r. split; [apply dle_0|apply N.land_0_l].
  - destruct HV as [Hv HV']. specialize (IHm ltac:(lia) U (V / 16) HU HV'). destruct IHm as [IH1 IH2].
    assert (EV : V = V mod 16 + 16 * (V / 16)) by lia.
    assert (Eprod : U * V = (V mod 16) * U + 16 * (U * (V / 16))) by lia.
    assert (Hodd : (if N.odd V then U else 0) = (V mod 16) * U).
    { destruct (N.odd V) eqn:Eo.
      - apply N.odd_spec in Eo. destruct Eo as [k Ek]. assert (V mod 16 = 1) by lia. lia.
      - assert (Ee : N.even V = true) by (rewrite <- N.negb_odd, Eo; reflexivity).
        apply N.even_spec in Ee. destruct Ee as [k Ek]. assert (V mod 16 = 0) by lia. lia. }
    assert (HvU : dle 1 (n + S m) ((V mod 16) * U)).
    { apply dle_extend_k. assert (C : V mod 16 = 0 \/ V mod 16 = 1) by lia.
      destruct C as [-> | ->]; [rewrite N.mul_0_l; apply dle_0|rewrite N.mul_1_l; exact HU]. }
    assert (Hsh : dle (N.of_nat m) (n + S m) (16 * (U * (V / 16)))).
    { rewrite Nat.add_succ_r. apply dle_shift. exact IH1. }
    destruct (add_nocarry 1 (N.of_nat m) (n + S m) ltac:(lia) _ _ HvU Hsh) as [A1 A2].
    rewrite Eprod. split.
    + replace (N.of_nat (S m)) with (1 + N.of_nat m) by lia. exact A1.
    + rewrite A2. cbn [xorprod]. rewrite Hodd. rewrite holes_land_id by exact HvU. f_equal.
      rewrite Nat.add_succ_r, mul16_land_S, IH2. reflexivity.
Qed.

Lemma dle_le_S n x : dle 1 n x -> x <= S_ n.
Proof.
  revert x; induction n; intros x H.
  - simpl in *. lia.
  - destruct H as [H1 H2]. apply IHn in H2. cbn [S_]. lia.
Qed.

Lemma land_S_small n : forall z, z < 16 ^ N.of_nat n -> N.land z (S_ (S n)) = N.land z (S_ n).
Proof.
  induction n; intros z Hz.
  - simpl in Hz. assert (z = 0) by lia. subst. reflexivity.
  - rewrite (land_S_step z (S n)), (land_S_step z n). rewrite IHn; [reflexivity|].
    rewrite Nnat.Nat2N.inj_succ, N.pow_succ_r' in Hz. lia.
Qed.

(* ---------- one masked partial product of mul32 ---------- *)
Lemma land_shifted_mask a m i : N.land a (N.shiftl m i) = N.shiftl (N.land (N.shiftr a i) m) i.
Proof.
  apply N.bits_inj. intros n. rewrite N.land_spec.
  destruct (N.lt_ge_cases n i) as [Hn|Hn].
  - rewrite !N.shiftl_spec_low by exact Hn. apply andb_false_r.
  - rewrite !N.shiftl_spec_high' by exact Hn. rewrite N.land_spec, N.shiftr_spec'.
    replace (n - i + i) with n by lia. reflexivity.
Qed.

Definition Uof (i a : N) : N := N.land (N.shiftr a i) (S_ 8).

Lemma Uof_lxor i a a' : Uof i (N.lxor a a') = N.lxor (Uof i a) (Uof i a').
Proof. unfold Uof. rewrite N.shiftr_lxor. apply land_lxor_l. Qed.

Definition pieceF (i j a b : N) : N :=
  N.shiftl (if i + j <? 4 then xorprod 8 (Uof i a) (Uof j b) else 16 * xorprod 8 (Uof i a) (Uof j b))
           ((i + j) mod 4).

Lemma pieceF_lxor_l i j a a' b : pieceF i j (N.lxor a a') b = N.lxor (pieceF i j a b) (pieceF i j a' b).
Proof.
  unfold pieceF. rewrite Uof_lxor, xorprod_lxor_l. destruct (i + j <? 4).
  - apply N.shiftl_lxor.
  - rewrite mul16_lxor. apply N.shiftl_lxor.
Qed.

Lemma S8_val : S_ 8 = 0x11111111. Proof. reflexivity. Qed.
Lemma S16_val : S_ 16 = 0x1111111111111111. Proof. reflexivity. Qed.

Lemma piece_eq i j a b : i < 4 -> j < 4 ->
  N.land (mulw (N.land a (N.shiftl (S_ 8) i)) (N.land b (N.shiftl (S_ 8) j)))
         (N.shiftl (S_ 16) ((i + j) mod 4)) = pieceF i j a b.
Proof.
  intros Hi Hj. rewrite (land_shifted_mask a), (land_shifted_mask b). fold (Uof i a) (Uof j b).
  set (U := Uof i a). set (V := Uof j b).
  assert (HU : dle 1 8 U) by apply dle_land_S. assert (HV : dle 1 8 V) by apply dle_land_S.
  assert (BU : U <= 0x11111111) by (rewrite <- S8_val; apply dle_le_S; exact HU).
  assert (BV : V <= 0x11111111) by (rewrite <- S8_val; apply dle_le_S; exact HV).
  destruct (prod_holes 8 8 ltac:(lia) U V HU HV) as [_ HP]. change (8 + 8)%nat with 16%nat in HP.
  assert (BUV : U * V <= 0x11111111 * 0x11111111) by (apply N.mul_le_mono; assumption).
  assert (Pi : 2 ^ i <= 8) by (change 8 with (2 ^ 3); apply N.pow_le_mono_r; lia).
  assert (Pj : 2 ^ j <= 8) by (change 8 with (2 ^ 3); apply N.pow_le_mono_r; lia).
  assert (Em : mulw (N.shiftl U i) (N.shiftl V j) = N.shiftl (U * V) (i + j)).
  { unfold mulw, M64. rewrite !N.shiftl_mul_pow2, N.pow_add_r.
    replace (U * 2 ^ i * (V * 2 ^ j)) with (U * V * (2 ^ i * 2 ^ j)) by lia.
    apply N.mod_small.
    assert (U * V * (2 ^ i * 2 ^ j) <= 0x11111111 * 0x11111111 * (8 * 8)).
    { apply N.mul_le_mono; [exact BUV|apply N.mul_le_mono; assumption]. }
    assert (0x11111111 * 0x11111111 * (8 * 8) < 2 ^ 64) by (vm_compute; reflexivity). lia. }
  rewrite Em. unfold pieceF. fold U V.
  destruct (N.ltb_spec (i + j) 4) as [Hs|Hs].
  - rewrite N.mod_small by exact Hs. rewrite <- N.shiftl_land, HP. reflexivity.
  - replace ((i + j) mod 4) with (i + j - 4) by lia.
    replace (i + j) with (4 + (i + j - 4)) at 1 by lia.
    rewrite <- N.shiftl_shiftl, <- N.shiftl_land. f_equal.
    rewrite N.shiftl_mul_pow2. change (2 ^ 4) with 16. rewrite (N.mul_comm (U * V) 16).
    change 16%nat with (S 15). rewrite mul16_land_S. f_equal.
    rewrite <- HP. symmetry. apply land_S_small.
    assert (0x11111111 * 0x11111111 < 16 ^ N.of_nat 15) by (vm_compute; reflexivity). lia.
Qed.

(* ---------- mul32 as an XOR of sixteen bilinear pieces ---------- *)
Lemma sel_disjoint (m m' : N) n : N.land m m' = 0 -> N.testbit m n && N.testbit m' n = false.
Proof. intros H. rewrite <- N.land_spec, H. apply N.bits_0. Qed.

Lemma lor4_masked A B C D :
  N.lor (N.lor (N.lor (N.land A u64Sel0) (N.land B u64Sel1)) (N.land C u64Sel2)) (N.land D u64Sel3)
  = x4 (N.land A u64Sel0) (N.land B u64Sel1) (N.land C u64Sel2) (N.land D u64Sel3).
Proof.
  apply N.bits_inj. intros n. unfold x4. rewrite !N.lor_spec, !N.lxor_spec, !N.land_spec.
  pose proof (sel_disjoint u64Sel0 u64Sel1 n eq_refl) as H01.
  pose proof (sel_disjoint u64Sel0 u64Sel2 n eq_refl) as H02.
  pose proof (sel_disjoint u64Sel0 u64Sel3 n eq_refl) as H03.
  pose proof (sel_disjoint u64Sel1 u64Sel2 n eq_refl) as H12.
  pose proof (sel_disjoint u64Sel1 u64Sel3 n eq_refl) as H13.
  pose proof (sel_disjoint u64Sel2 u64Sel3 n eq_refl) as H23.
  destruct (N.testbit u64Sel0 n), (N.testbit u64Sel1 n), (N.testbit u64Sel2 n), (N.testbit u64Sel3 n);
    try discriminate; btauto.
Qed.

Lemma land_x4 p q r s m : N.land (x4 p q r s) m = x4 (N.land p m) (N.land q m) (N.land r m) (N.land s m).
Proof. unfold x4. rewrite !land_lxor_l. reflexivity. Qed.

Ltac usepiece i j si sj sk a b :=
  let P := fresh "P" in
  pose proof (piece_eq i j a b eq_refl eq_refl) as P;
  change (N.shiftl (S_ 8) i) with si in P; change (N.shiftl (S_ 8) j) with sj in P;
  change (N.shiftl (S_ 16) ((i + j) mod 4)) with sk in P; rewrite P; clear P.

Definition mul32_pieces (a b : N) : N :=
  x4 (x4 (pieceF 0 0 a b) (pieceF 1 3 a b) (pieceF 2 2 a b) (pieceF 3 1 a b))
     (x4 (pieceF 0 1 a b) (pieceF 1 0 a b) (pieceF 2 3 a b) (pieceF 3 2 a b))
     (x4 (pieceF 0 2 a b) (pieceF 1 1 a b) (pieceF 2 0 a b) (pieceF 3 3 a b))
     (x4 (pieceF 0 3 a b) (pieceF 1 2 a b) (pieceF 2 1 a b) (pieceF 3 0 a b)).

Lemma mul32_eq_pieces a b : mul32 a b = mul32_pieces a b.
Proof.
  unfold mul32. cbv zeta. rewrite lor4_masked, !land_x4. unfold mul32_pieces.
  usepiece 0 0 u32Sel0 u32Sel0 u64Sel0 a b. usepiece 1 3 u32Sel1 u32Sel3 u64Sel0 a b.
  usepiece 2 2 u32Sel2 u32Sel2 u64Sel0 a b. usepiece 3 1 u32Sel3 u32Sel1 u64Sel0 a b.
  usepiece 0 1 u32Sel0 u32Sel1 u64Sel1 a b. usepiece 1 0 u32Sel1 u32Sel0 u64Sel1 a b.
  usepiece 2 3 u32Sel2 u32Sel3 u64Sel1 a b. usepiece 3 2 u32Sel3 u32Sel2 u64Sel1 a b.
  usepiece 0 2 u32Sel0 u32Sel2 u64Sel2 a b. usepiece 1 1 u32Sel1 u32Sel1 u64Sel2 a b.
  usepiece 2 0 u32Sel2 u32Sel0 u64Sel2 a b. usepiece 3 3 u32Sel3 u32Sel3 u64Sel2 a b.
  usepiece 0 3 u32Sel0 u32Sel3 u64Sel3 a b. usepiece 1 2 u32Sel1 u32Sel2 u64Sel3 a b.
  usepiece 2 1 u32Sel2 u32Sel1 u64Sel3 a b. usepiece 3 0 u32Sel3 u32Sel0 u64Sel3 a b.
  reflexivity.
Qed.

Lemma x4_lxor p q r s p' q' r' s' :
  x4 (N.lxor p p') (N.lxor q q') (N.lxor r r') (N.lxor s s') = N.lxor (x4 p q r s) (x4 p' q' r' s').
Proof. unfold x4. apply N.bits_inj. intros n. rewrite !N.lxor_spec. btauto. Qed.

(* mul32 is linear in its first argument (for all naturals: the masks cut to 32 bits) *)
Lemma mul32_lxor_l a a' b : mul32 (N.lxor a a') b = N.lxor (mul32 a b) (mul32 a' b).
Proof.
  rewrite !mul32_eq_pieces. unfold mul32_pieces. rewrite !pieceF_lxor_l, !x4_lxor. reflexivity.
Qed.

Lemma mulw_comm a b : mulw a b = mulw b a.
Proof. unfold mulw. rewrite N.mul_comm. reflexivity. Qed.

Lemma mul32_comm a b : mul32 a b = mul32 b a.
Proof.
  unfold mul32. cbv zeta.
  rewrite !(mulw_comm (N.land b _) (N.land a _)).
  repeat (f_equal; try (unfold x4; apply N.bits_inj; intros n; rewrite !N.lxor_spec; btauto)).
Qed.

Lemma mul32_lxor_r a b b' : mul32 a (N.lxor b b') = N.lxor (mul32 a b) (mul32 a b').
Proof. rewrite !(mul32_comm a). apply mul32_lxor_l. Qed.

Lemma mul32_0_l b : mul32 0 b = 0.
Proof. pose proof (mul32_lxor_l 0 0 b) as H. rewrite N.lxor_0_l in H. rewrite H at 1. apply N.lxor_nilpotent. Qed.

(* ---------- Part 2: mul64 and the Karatsuba step are bilinear ---------- *)
Lemma shlw_lxor a b s : shlw (N.lxor a b) s = N.lxor (shlw a s) (shlw b s).
Proof.
  unfold shlw, M64. change (2 ^ 64) with (2 ^ 64). rewrite <- !N.land_ones, N.shiftl_lxor. apply land_lxor_l.
Qed.

Lemma fe_xor_pair a b c d : fe_xor (a, b) (c, d) = (N.lxor a c, N.lxor b d).
Proof. reflexivity. Qed.

Ltac xor_ac := apply N.bits_inj; intros ?n; rewrite !N.lxor_spec; btauto.

Lemma mul64_lxor_l a a' b : mul64 (N.lxor a a') b = fe_xor (mul64 a b) (mul64 a' b).
Proof.
  unfold mul64. cbv zeta. rewrite fe_xor_pair.
  rewrite !land_lxor_l, !N.shiftr_lxor.
  set (a0 := N.land a 4294967295). set (a1 := N.shiftr a 32).
  set (c0 := N.land a' 4294967295). set (c1 := N.shiftr a' 32).
  set (b0 := N.land b 4294967295). set (b1 := N.shiftr b 32).
  replace (N.lxor (N.lxor a0 c0) (N.lxor a1 c1)) with (N.lxor (N.lxor a0 a1) (N.lxor c0 c1)) by xor_ac.
  rewrite !mul32_lxor_l. rewrite !shlw_lxor, !N.shiftr_lxor.
  f_equal; xor_ac.
Qed.

Lemma mul64_comm a b : mul64 a b = mul64 b a.
Proof.
  unfold mul64. cbv zeta.
  rewrite (mul32_comm (N.land a _) (N.land b _)), (mul32_comm (N.shiftr a _) (N.shiftr b _)),
          (mul32_comm (N.lxor (N.land a _) _) (N.lxor (N.land b _) _)). reflexivity.
Qed.

Lemma mul64_lxor_r a b b' : mul64 a (N.lxor b b') = fe_xor (mul64 a b) (mul64 a b').
Proof. rewrite !(mul64_comm a). apply mul64_lxor_l. Qed.

(* polyvalDot = pv_reduce (pv_karatsuba ...) by definition *)
Notation kara := pv_karatsuba.
Notation reduce := pv_reduce.
Lemma polyvalDot_eq a b : polyvalDot a b = reduce (fst (kara a b)) (snd (kara a b)).
Proof. reflexivity. Qed.

Definition fe2_xor (x y : fe * fe) : fe * fe := (fe_xor (fst x) (fst y), fe_xor (snd x) (snd y)).

Lemma kara_lxor_l a a' b : kara (fe_xor a a') b = fe2_xor (kara a b) (kara a' b).
Proof.
  destruct a as [alo ahi], a' as [clo chi], b as [blo bhi]. rewrite fe_xor_pair.
  unfold pv_karatsuba, fe2_xor. cbn [fst snd].
  replace (N.lxor (N.lxor alo clo) (N.lxor ahi chi)) with (N.lxor (N.lxor alo ahi) (N.lxor clo chi)) by xor_ac.
  set (am := N.lxor alo ahi). set (cm := N.lxor clo chi). set (bm := N.lxor blo bhi).
  rewrite !mul64_lxor_l.
  destruct (mul64 alo blo), (mul64 ahi bhi), (mul64 clo blo), (mul64 chi bhi),
           (mul64 am bm), (mul64 cm bm).
  unfold fe_xor. cbn [fst snd]. f_equal; f_equal; xor_ac.
Qed.

Lemma kara_comm a b : kara a b = kara b a.
Proof.
  unfold pv_karatsuba. rewrite (mul64_comm (fst a)), (mul64_comm (snd a)), (mul64_comm (N.lxor (fst a) (snd a))). reflexivity.
Qed.

Lemma kara_lxor_r a b b' : kara a (fe_xor b b') = fe2_xor (kara a b) (kara a b').
Proof. rewrite !(kara_comm a). apply kara_lxor_l. Qed.

Lemma reduce_lxor r0 r1 s0 s1 :
  reduce (fe_xor r0 s0) (fe_xor r1 s1) = fe_xor (reduce r0 r1) (reduce s0 s1).
Proof.
  destruct r0, r1, s0, s1. unfold pv_reduce, fe_xor. cbn [fst snd].
  repeat (rewrite shlw_lxor || rewrite N.shiftr_lxor). f_equal; xor_ac.
Qed.

Lemma polyvalDot_lxor_l a a' b : polyvalDot (fe_xor a a') b = fe_xor (polyvalDot a b) (polyvalDot a' b).
Proof. rewrite !polyvalDot_eq, kara_lxor_l. unfold fe2_xor. cbn [fst snd]. apply reduce_lxor. Qed.

Lemma polyvalDot_lxor_r a b b' : polyvalDot a (fe_xor b b') = fe_xor (polyvalDot a b) (polyvalDot a b').
Proof. rewrite !polyvalDot_eq, kara_lxor_r. unfold fe2_xor. cbn [fst snd]. apply reduce_lxor. Qed.

(* ---------- Part 3: the RFC 8452 specification is bilinear ---------- *)
Lemma double_lxor a b : N.double (N.lxor a b) = N.lxor (N.double a) (N.double b).
Proof. destruct a, b; simpl; try reflexivity; try (destruct (Pos.lxor p p0); reflexivity). Qed.

Lemma clmul_pos_lxor_l p : forall a a', clmul_pos (N.lxor a a') p = N.lxor (clmul_pos a p) (clmul_pos a' p).
Proof.
  induction p; intros a a'; cbn [clmul_pos].
  - rewrite IHp, double_lxor. xor_ac.
  - rewrite IHp. apply double_lxor.
  - reflexivity.
Qed.

Lemma clmul_lxor_l a a' b : clmul (N.lxor a a') b = N.lxor (clmul a b) (clmul a' b).
Proof. destruct b; simpl; [reflexivity|apply clmul_pos_lxor_l]. Qed.

Lemma clmul_double a b : clmul a (N.double b) = N.double (clmul a b).
Proof. destruct b; reflexivity. Qed.

Lemma clmul_succ_double a b : clmul a (N.succ_double b) = N.lxor a (N.double (clmul a b)).
Proof. destruct b; simpl; [rewrite N.lxor_0_r|]; reflexivity. Qed.

Lemma lxor_dd a b : N.lxor (N.double a) (N.double b) = N.double (N.lxor a b).
Proof. symmetry. apply double_lxor. Qed.
Lemma lxor_sd a b : N.lxor (N.succ_double a) (N.double b) = N.succ_double (N.lxor a b).
Proof. destruct a, b; simpl; try reflexivity; try (destruct (Pos.lxor p p0); reflexivity). Qed.
Lemma lxor_ds a b : N.lxor (N.double a) (N.succ_double b) = N.succ_double (N.lxor a b).
Proof. destruct a, b; simpl; try reflexivity; try (destruct (Pos.lxor p p0); reflexivity). Qed.
Lemma lxor_ss a b : N.lxor (N.succ_double a) (N.succ_double b) = N.double (N.lxor a b).
Proof. destruct a, b; simpl; try reflexivity; try (destruct (Pos.lxor p p0); reflexivity). Qed.

Lemma clmul_lxor_r a : forall b b', clmul a (N.lxor b b') = N.lxor (clmul a b) (clmul a b').
Proof.
  intros b. induction b using N.binary_ind; intros b'.
  - rewrite N.lxor_0_l. simpl. rewrite ?N.lxor_0_l. reflexivity.
  - destruct b' using N.binary_ind.
    + rewrite !N.lxor_0_r. simpl. rewrite ?N.lxor_0_r. reflexivity.
    + rewrite lxor_dd, !clmul_double, IHb. apply double_lxor.
    + rewrite lxor_ds, clmul_double, !clmul_succ_double, IHb, double_lxor. xor_ac.
  - destruct b' using N.binary_ind.
    + rewrite !N.lxor_0_r. simpl. rewrite ?N.lxor_0_r. reflexivity.
    + rewrite lxor_sd, clmul_double, !clmul_succ_double, IHb, double_lxor. xor_ac.
    + rewrite lxor_ss, clmul_double, !clmul_succ_double, IHb, double_lxor. xor_ac.
Qed.

Lemma pmod_fuel_lxor n : forall a b, pmod_fuel n (N.lxor a b) = N.lxor (pmod_fuel n a) (pmod_fuel n b).
Proof.
  induction n; intros a b; cbn [pmod_fuel]; [reflexivity|].
  rewrite N.lxor_spec.
  destruct (N.testbit a (128 + N.of_nat n)), (N.testbit b (128 + N.of_nat n)); cbv [Datatypes.xorb];
    rewrite <- IHn; f_equal; xor_ac.
Qed.

Lemma gf_mul_lxor_l a a' b : gf_mul (N.lxor a a') b = N.lxor (gf_mul a b) (gf_mul a' b).
Proof. unfold gf_mul. rewrite clmul_lxor_l. apply pmod_fuel_lxor. Qed.
Lemma gf_mul_lxor_r a b b' : gf_mul a (N.lxor b b') = N.lxor (gf_mul a b) (gf_mul a b').
Proof. unfold gf_mul. rewrite clmul_lxor_r. apply pmod_fuel_lxor. Qed.

Lemma dot_spec_lxor_l a a' b : dot_spec (N.lxor a a') b = N.lxor (dot_spec a b) (dot_spec a' b).
Proof. unfold dot_spec. rewrite gf_mul_lxor_l. apply gf_mul_lxor_l. Qed.
Lemma dot_spec_lxor_r a b b' : dot_spec a (N.lxor b b') = N.lxor (dot_spec a b) (dot_spec a b').
Proof. unfold dot_spec. rewrite gf_mul_lxor_r. apply gf_mul_lxor_l. Qed.

(* ---------- Part 4: two XOR-linear functions that agree on the powers of two agree ---------- *)
Definition linear (f : N -> N) : Prop := forall x y, f (N.lxor x y) = N.lxor (f x) (f y).

Lemma linear_0 f : linear f -> f 0 = 0.
Proof. intros H. pose proof (H 0 0) as E. rewrite N.lxor_0_l in E. rewrite E at 1. apply N.lxor_nilpotent. Qed.

Lemma pos_shift_ext f g (n : N) : linear f -> linear g -> (forall k, k < n -> f (2 ^ k) = g (2 ^ k)) ->
  forall p k, N.shiftl (N.pos p) k < 2 ^ n -> f (N.shiftl (N.pos p) k) = g (N.shiftl (N.pos p) k).
Proof.
  intros Hf Hg Hb. induction p; intros k Hlt.
  - assert (E : N.pos p~1 = N.lxor (N.pos p~0) 1) by reflexivity.
    rewrite E, N.shiftl_lxor, Hf, Hg.
    assert (E2 : N.shiftl (N.pos p~0) k = N.shiftl (N.pos p) (N.succ k)).
    { rewrite !N.shiftl_mul_pow2, N.pow_succ_r'. lia. }
    assert (Hle : N.shiftl (N.pos p~0) k <= N.shiftl (N.pos p~1) k /\ N.shiftl 1 k <= N.shiftl (N.pos p~1) k).
    { rewrite !N.shiftl_mul_pow2. split; apply N.mul_le_mono_r; lia. }
    f_equal.
    + rewrite E2. apply IHp. rewrite <- E2. lia.
    + rewrite N.shiftl_1_l. apply Hb. apply (N.pow_lt_mono_r_iff 2); [lia|]. rewrite <- N.shiftl_1_l. lia.
  - assert (E2 : N.shiftl (N.pos p~0) k = N.shiftl (N.pos p) (N.succ k)).
    { rewrite !N.shiftl_mul_pow2, N.pow_succ_r'. lia. }
    rewrite E2. apply IHp. rewrite <- E2. exact Hlt.
  - rewrite N.shiftl_1_l in *. apply Hb. apply (N.pow_lt_mono_r_iff 2); [lia|exact Hlt].
Qed.

Lemma linear_ext f g n : linear f -> linear g -> (forall k, k < n -> f (2 ^ k) = g (2 ^ k)) ->
  forall x, x < 2 ^ n -> f x = g x.
Proof.
  intros Hf Hg Hb x Hx. destruct x as [|p]; [rewrite (linear_0 f Hf), (linear_0 g Hg); reflexivity|].
  rewrite <- (N.shiftl_0_r (N.pos p)). apply (pos_shift_ext f g n Hf Hg Hb). rewrite N.shiftl_0_r. exact Hx.
Qed.

Lemma bilinear_ext (f g : N -> N -> N) n :
  (forall b, linear (fun a => f a b)) -> (forall a, linear (f a)) ->
  (forall b, linear (fun a => g a b)) -> (forall a, linear (g a)) ->
  (forall i j, i < n -> j < n -> f (2 ^ i) (2 ^ j) = g (2 ^ i) (2 ^ j)) ->
  forall a b, a < 2 ^ n -> b < 2 ^ n -> f a b = g a b.
Proof.
  intros Hf1 Hf2 Hg1 Hg2 Hb a b Ha Hbb.
  apply (linear_ext (f a) (g a) n (Hf2 a) (Hg2 a)); [|exact Hbb].
  intros j Hj. apply (linear_ext (fun a => f a (2 ^ j)) (fun a => g a (2 ^ j)) n (Hf1 _) (Hg1 _)); [|exact Ha].
  intros i Hi. apply Hb; assumption.
Qed.

(* ---------- Part 5: polyvalDot = dot of RFC 8452 on all 128-bit field elements ---------- *)
Definition fe_of_n (a : N) : fe := (N.land a (N.ones 64), N.land (N.shiftr a 64) (N.ones 64)).
Definition n_of_fe' (x : fe) : N := N.lxor (fst x) (N.shiftl (snd x) 64).
Definition dot_impl (a b : N) : N := n_of_fe' (polyvalDot (fe_of_n a) (fe_of_n b)).

Lemma fe_of_n_lxor a b : fe_of_n (N.lxor a b) = fe_xor (fe_of_n a) (fe_of_n b).
Proof. unfold fe_of_n, fe_xor. cbn [fst snd]. rewrite N.shiftr_lxor, !land_lxor_l. reflexivity. Qed.

Lemma n_of_fe'_lxor x y : n_of_fe' (fe_xor x y) = N.lxor (n_of_fe' x) (n_of_fe' y).
Proof. unfold n_of_fe', fe_xor. cbn [fst snd]. rewrite N.shiftl_lxor. xor_ac. Qed.

Lemma dot_impl_lin_l b : linear (fun a => dot_impl a b).
Proof. intros x y. unfold dot_impl. rewrite fe_of_n_lxor, polyvalDot_lxor_l. apply n_of_fe'_lxor. Qed.
Lemma dot_impl_lin_r a : linear (dot_impl a).
Proof. intros x y. unfold dot_impl. rewrite fe_of_n_lxor, polyvalDot_lxor_r. apply n_of_fe'_lxor. Qed.

Definition range128 : list N := map N.of_nat (seq 0 128).

Lemma range128_In i : i < 128 -> In i range128.
Proof.
  intros H. unfold range128. rewrite <- (Nnat.N2Nat.id i). apply in_map. apply in_seq. lia.
Qed.


(* the specification on monomials depends only on the sum of the exponents *)
Lemma clmul_pow2 a j : clmul a (2 ^ j) = N.shiftl a j.
Proof.
  induction j using N.peano_ind.
  - simpl. rewrite N.shiftl_0_r. reflexivity.
  - rewrite N.pow_succ_r', <- N.double_spec, clmul_double, IHj, N.double_spec.
    rewrite <- N.add_1_r, <- N.shiftl_shiftl, (N.shiftl_mul_pow2 _ 1). change (2 ^ 1) with 2. lia.
Qed.

Definition spec_mono (s : N) : N := gf_mul (pmod_fuel 128 (2 ^ s)) xinv128.

Lemma dot_spec_mono i j : dot_spec (2 ^ i) (2 ^ j) = spec_mono (i + j).
Proof.
  unfold dot_spec, spec_mono, gf_mul at 2. rewrite clmul_pow2, N.shiftl_mul_pow2, <- N.pow_add_r. reflexivity.
Qed.

Definition mono_table : list N := map (fun s => spec_mono (N.of_nat s)) (seq 0 255).

Definition basis_check_with (t : list N) : bool :=
  forallb (fun i => forallb (fun j => N.eqb (dot_impl (2 ^ i) (2 ^ j)) (nth (N.to_nat (i + j)) t 0)) range128) range128.

(* 128 x 128 monomial pairs, evaluated by the VM (the table is computed once) *)
Lemma basis_ok : basis_check_with mono_table = true.
Proof. vm_compute. reflexivity. Qed.

Lemma mono_table_nth s : s < 255 -> nth (N.to_nat s) mono_table 0 = spec_mono s.
Proof.
  intros H. unfold mono_table.
  transitivity (nth (N.to_nat s) (map (fun s0 => spec_mono (N.of_nat s0)) (seq 0 255))
                    ((fun s0 => spec_mono (N.of_nat s0)) 0%nat)).
  - apply nth_indep. rewrite map_length, seq_length. lia.
  - rewrite (map_nth (fun s0 => spec_mono (N.of_nat s0))). rewrite seq_nth by lia.
    rewrite Nat.add_0_l, Nnat.N2Nat.id. reflexivity.
Qed.

Lemma basis_forall t : basis_check_with t = true -> forall i, In i range128 -> forall j, In j range128 ->
  N.eqb (dot_impl (2 ^ i) (2 ^ j)) (nth (N.to_nat (i + j)) t 0) = true.
Proof.
  unfold basis_check_with. intros H i Hi j Hj.
  rewrite forallb_forall in H. specialize (H i Hi). cbv beta in H.
  rewrite forallb_forall in H. exact (H j Hj).
Qed.

Lemma basis_pair i j : i < 128 -> j < 128 -> dot_impl (2 ^ i) (2 ^ j) = dot_spec (2 ^ i) (2 ^ j).
Proof.
  intros Hi Hj. pose proof (basis_forall mono_table basis_ok i (range128_In i Hi) j (range128_In j Hj)) as H.
  apply N.eqb_eq in H. rewrite H. rewrite mono_table_nth by lia. symmetry. apply dot_spec_mono.
Qed.

(* for every pair of 128-bit field elements the kernels compute dot(a, b) = a*b*x^-128 of RFC 8452 *)
Theorem dot_impl_spec : forall a b, a < 2 ^ 128 -> b < 2 ^ 128 -> dot_impl a b = dot_spec a b.
Proof.
  apply (bilinear_ext dot_impl dot_spec 128).
  - exact dot_impl_lin_l.
  - exact dot_impl_lin_r.
  - intros b x y. apply dot_spec_lxor_l.
  - intros a x y. apply dot_spec_lxor_r.
  - exact basis_pair.
Qed.

(* ---------- Part 6: the kernels stay within 64 bits ---------- *)
Definition b64 (x : N) : Prop := N.land x (N.ones 64) = x.

Lemma b64_iff x : b64 x <-> x < 2 ^ 64.
Proof.
  unfold b64. rewrite N.land_ones. split; intros H.
  - rewrite <- H. apply N.mod_lt. discriminate.
  - apply N.mod_small. exact H.
Qed.

Lemma b64_lxor x y : b64 x -> b64 y -> b64 (N.lxor x y).
Proof. unfold b64. intros Hx Hy. rewrite land_lxor_l, Hx, Hy. reflexivity. Qed.

Lemma b64_lor x y : b64 x -> b64 y -> b64 (N.lor x y).
Proof. unfold b64. intros Hx Hy. rewrite N.land_lor_distr_l, Hx, Hy. reflexivity. Qed.

Lemma b64_shiftr x k : b64 x -> b64 (N.shiftr x k).
Proof.
  rewrite !b64_iff. intros H. rewrite N.shiftr_div_pow2.
  apply N.le_lt_trans with x; [|exact H]. apply N.div_le_upper_bound; [apply N.pow_nonzero; discriminate|].
  assert (2 ^ k <> 0) by (apply N.pow_nonzero; discriminate). nia.
Qed.

Lemma b64_shlw x s : b64 (shlw x s).
Proof. apply b64_iff. unfold shlw, M64. apply N.mod_lt. discriminate. Qed.

Lemma b64_masked c m : b64 m -> b64 (N.land c m).
Proof. unfold b64. intros H. rewrite <- N.land_assoc, H. reflexivity. Qed.

Lemma b64_mul32 a b : b64 (mul32 a b).
Proof. unfold mul32. cbv zeta. repeat apply b64_lor; apply b64_masked; reflexivity. Qed.

Lemma b64_mul64 a b : b64 (fst (mul64 a b)) /\ b64 (snd (mul64 a b)).
Proof.
  unfold mul64. cbv zeta. cbn [fst snd]. split.
  - apply b64_lxor; [apply b64_mul32|apply b64_shlw].
  - apply b64_lxor; [apply b64_mul32|]. apply b64_shiftr. repeat apply b64_lxor; apply b64_mul32.
Qed.

Lemma b64_reduce r0 r1 : b64 (fst r0) -> b64 (snd r0) -> b64 (fst r1) -> b64 (snd r1) ->
  b64 (fst (pv_reduce r0 r1)) /\ b64 (snd (pv_reduce r0 r1)).
Proof.
  destruct r0, r1. unfold pv_reduce. cbv zeta. cbn [fst snd]. intros.
  split; repeat (apply b64_lxor || apply b64_shiftr || apply b64_shlw || assumption).
Qed.

Lemma b64_kara a b :
  b64 (fst (fst (pv_karatsuba a b))) /\ b64 (snd (fst (pv_karatsuba a b))) /\
  b64 (fst (snd (pv_karatsuba a b))) /\ b64 (snd (snd (pv_karatsuba a b))).
Proof.
  unfold pv_karatsuba. cbv zeta.
  pose proof (b64_mul64 (fst a) (fst b)) as [A1 A2]. pose proof (b64_mul64 (snd a) (snd b)) as [B1 B2].
  pose proof (b64_mul64 (N.lxor (fst a) (snd a)) (N.lxor (fst b) (snd b))) as [C1 C2].
  destruct (mul64 (fst a) (fst b)), (mul64 (snd a) (snd b)), (mul64 (N.lxor (fst a) (snd a)) (N.lxor (fst b) (snd b))).
  cbn [fst snd] in *. repeat split; repeat (apply b64_lxor || assumption).
Qed.

Lemma b64_polyvalDot a b : b64 (fst (polyvalDot a b)) /\ b64 (snd (polyvalDot a b)).
Proof.
  unfold polyvalDot. cbv zeta. pose proof (b64_kara a b) as [H1 [H2 [H3 H4]]].
  apply b64_reduce; assumption.
Qed.

