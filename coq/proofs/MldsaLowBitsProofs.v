(* The second rounding lemma of FIPS 204 signing, for the REGENERATED kernels:
   if |s mod± q| <= b and |LowBits(r)| < gamma2 - b then
        HighBits(r + s) = HighBits(r).
   Signing checks ||LowBits(w - c*s2)|| < gamma2 - beta so that the verifier's
   HighBits(w - c*s2) equals the signer's HighBits(w) whenever ||c*s2|| <= beta. *)
From Coq Require Import ZArith Lia Bool.
From Tink Require Import Wrap MldsaScalar MldsaScalarProofs MldsaScalarProofs2.
Open Scope Z_scope.
Ltac Zify.zify_post_hook ::= Z.div_mod_to_equations.

Ltac low_tac G g m :=
  intros r s b Hr Hs Hb Hsb Hlow;
  unfold decompose_spec, cmod, q in *;
  change (2 * g) with G in *; change (G / 2) with g in *;
  change (8380417 - 1) with 8380416 in *; change (8380417 / 2) with 4190208 in *;
  rewrite (Z.mod_small s) in Hsb by lia;
  set (v := (r + s) mod 8380417) in *;
  assert (Hv : 0 <= v < 8380417) by (unfold v; lia);
  assert (Hvz : v = r + s \/ v = r + s - 8380417) by (unfold v; lia);
  clearbody v;
  pose proof (Z.div_mod r G ltac:(lia)) as Dr; pose proof (Z.mod_pos_bound r G ltac:(lia)) as Br;
  pose proof (Z.div_mod v G ltac:(lia)) as Dv; pose proof (Z.mod_pos_bound v G ltac:(lia)) as Bv;
  set (rm := r mod G) in *; set (rq := r / G) in *;
  set (vm := v mod G) in *; set (vq := v / G) in *;
  assert (Q1 : (r - rm) / G = rq) by (symmetry; apply Z.div_unique with 0; lia);
  assert (Q2 : (r - (rm - G)) / G = rq + 1) by (symmetry; apply Z.div_unique with 0; lia);
  assert (Q3 : (v - vm) / G = vq) by (symmetry; apply Z.div_unique with 0; lia);
  assert (Q4 : (v - (vm - G)) / G = vq + 1) by (symmetry; apply Z.div_unique with 0; lia);
  assert (Rq : 0 <= rq <= m) by lia; assert (Vq : 0 <= vq <= m) by lia;
  (destruct (s <=? 4190208) eqn:Ez; [apply Z.leb_le in Ez | apply Z.leb_gt in Ez]);
  (destruct (rm <=? g) eqn:E1; [apply Z.leb_le in E1 | apply Z.leb_gt in E1]);
  (destruct (vm <=? g) eqn:E2; [apply Z.leb_le in E2 | apply Z.leb_gt in E2]);
  rewrite ?Q1, ?Q2, ?Q3, ?Q4 in *; clearbody rm rq vm vq; clear Q1 Q2 Q3 Q4;
  repeat match goal with
    | |- context [if ?x =? ?y then (_, _) else _] => let E := fresh "E" in destruct (x =? y) eqn:E; [apply Z.eqb_eq in E | apply Z.eqb_neq in E]
    | H : context [if ?x =? ?y then (_, _) else _] |- _ => let E := fresh "E" in destruct (x =? y) eqn:E; [apply Z.eqb_eq in E | apply Z.eqb_neq in E]
    end;
  cbn [fst snd] in *;
  repeat match goal with
    | H : context [?x mod 8380417] |- _ =>
        let E := fresh "M" in
        assert (E : x mod 8380417 = x \/ x mod 8380417 = x + 8380417) by lia;
        generalize dependent (x mod 8380417); intros
    end;
  repeat match goal with H : context [if ?x <=? ?y then _ else _] |- _ => let E := fresh "E" in destruct (x <=? y) eqn:E; [apply Z.leb_le in E | apply Z.leb_gt in E] end;
  try lia.

(* FIPS 204 (Lemma used for the r0 check): if |s| <= b and |LowBits(r)| < gamma2 - b then HighBits(r + s) = HighBits(r) *)
Lemma low_spec_88 : forall r s b, 0 <= r < q -> 0 <= s < q -> 0 <= b ->
  Z.abs (cmod s q) <= b -> Z.abs (cmod (snd (decompose_spec r 95232)) q) < 95232 - b ->
  fst (decompose_spec ((r + s) mod q) 95232) = fst (decompose_spec r 95232).
Proof. low_tac 190464 95232 44. Qed.

Lemma low_spec_32 : forall r s b, 0 <= r < q -> 0 <= s < q -> 0 <= b ->
  Z.abs (cmod s q) <= b -> Z.abs (cmod (snd (decompose_spec r 261888)) q) < 261888 - b ->
  fst (decompose_spec ((r + s) mod q) 261888) = fst (decompose_spec r 261888).
Proof. low_tac 523776 261888 16. Qed.

Theorem highBits_stable_spec r s g b : valid_gamma2 g -> 0 <= r < q -> 0 <= s < q -> 0 <= b ->
  Z.abs (cmod s q) <= b -> Z.abs (cmod (snd (decompose_spec r g)) q) < g - b ->
  fst (decompose_spec ((r + s) mod q) g) = fst (decompose_spec r g).
Proof. intros [-> | ->]; [apply low_spec_88 | apply low_spec_32]. Qed.

(* on the generated Go kernels *)
Theorem highBits_stable r s g b r0 : valid_gamma2 g -> 0 <= r < q -> 0 <= s < q -> 0 <= b ->
  Z.abs (cmod s q) <= b ->
  mldsa_rZq_lowBits r g = Some r0 -> mldsa_rZq_centeredAbs r0 < g - b ->
  mldsa_rZq_highBits (mldsa_rZq_add r s) g = mldsa_rZq_highBits r g.
Proof.
  intros Hg Hr Hs Hb Hsb Hl Hn. rewrite lowBits_ok in Hl by auto. inversion Hl; subst r0.
  rewrite centeredAbs_spec in Hn by (apply decompose_spec_range; auto).
  rewrite add_spec by auto. rewrite !highBits_ok by (auto; unfold q in *; lia).
  f_equal. eapply highBits_stable_spec; eauto.
Qed.
