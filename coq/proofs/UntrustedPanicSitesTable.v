(* C14 (stretch) — THE TABLE OF PANIC SITES (types and legend:
   model/UntrustedPanicSites.v).  Every CModel / CLemma entry carries the
   proposition that covers the site and its proof term: the table type-checks
   only if the theorem exists and states what is written here.  CArgued,
   CStdlib and CHarnessOnly entries carry NO theorem (prose only) and are
   counted as such by panic_site_coverage_counts.  The list of sites is
   hand-made; Coq checks the coverage column, not the completeness of the list. *)
From Coq Require Import String List NArith ZArith.
From Tink Require Import Bytes UntrustedConsts Untrusted UntrustedSpec UntrustedProofs.
From Tink Require Import UntrustedSites UntrustedSitesProofs UntrustedPanicSites.
Import ListNotations.
Open Scope string_scope.

Definition panic_sites : list site := [
  (* ---------------- keyset layer ---------------- *)
  mkSite "keyset/validation.go" "Validate" "keyset.Key, keyset.PrimaryKeyId (direct field access)" KNilDeref
    "if keyset == nil { return error } (first statement)"
    (CModel (validate None = false /\ (forall L, read_proto L None = Err) /\ forall L ks, read_proto L ks <> Panic)
            (conj eq_refl (conj (fun _ => eq_refl) read_proto_np)));
  mkSite "keyset/validation.go" "Validate" "key.KeyId, key.Status in the loop over keyset.Key" KNilDeref
    "validateKey(key) returns an error for key == nil before any field is read"
    (CModel (forall ks, (In None (ks_keys ks) \/ exists pk, In (Some pk) (ks_keys ks) /\ k_data pk = None) ->
                        validate (Some ks) = false) nil_parts_rejected);
  mkSite "keyset/validation.go" "validateKey" "key.KeyData, key.OutputPrefixType, key.Status" KNilDeref
    "if key == nil { return error }"
    (CModel (forall ks, validate (Some ks) = true <-> wf_keyset ks) validate_iff);
  mkSite "keyset/validation.go" "Validate" "keyIDs[key.KeyId] = true (map write)" KNilDeref
    "keyIDs := make(map[uint32]bool) four lines above"
    (CArgued "the map is allocated unconditionally");
  mkSite "keyset/handle.go" "keysetToEntries" "entries := make([]*Entry, len(ks.GetKey())); entries[i] = ..." KMake
    "Validate(ks) succeeded (ks non-nil); i ranges over the same slice"
    (CModel (forall L primary keys, to_entries L primary keys <> Panic) to_entries_np);
  mkSite "keyset/handle.go" "keysetToEntries" "protoKey.GetKeyData(), GetKeyId(), GetOutputPrefixType(), GetStatus()" KNilDeref
    "generated getters are nil safe; Validate already rejected nil keys and nil key data"
    (CModel (forall L primary k, to_entry L primary k <> Panic) to_entry_np);
  mkSite "keyset/handle.go" "hasSecrets" "protoKey.GetKeyData().GetKeyMaterialType() inside slices.ContainsFunc(ks.GetKey(), ...)" KNilDeref
    "getters only (ks, protoKey and KeyData may all be nil)"
    (CModel ((forall L ks, handle_no_secrets L ks <> Panic) /\ forall L b, read_no_secrets L b <> Panic)
            (conj handle_no_secrets_np read_no_secrets_np));
  mkSite "keyset/handle.go" "newFromEntries" "entry.IsPrimary(), entry.KeyStatus(), entry.KeyID() on each entry" KNilDeref
    "entries come from keysetToEntries: every element was assigned newUnmonitoredEntry(...)"
    (CModel (forall es, new_from_entries es <> Panic) new_from_entries_np);
  mkSite "keyset/handle.go" "decrypt / decryptWithContext" "encryptedKeyset.GetEncryptedKeyset(); keyEncryptionAEAD.Decrypt(...)" KNilDeref
    "if encryptedKeyset == nil || keyEncryptionAEAD == nil { return error }"
    (CModel (forall L kek b ad, read_encrypted L kek b ad <> Panic) read_encrypted_np);
  mkSite "keyset/handle.go" "Handle.Entry" "h.entries[i]" KIndex
    "if h == nil { error }; if i < 0 || i >= h.Len() { error }"
    (CLemma (forall (entries : list entry) i, entry_go entries i <> Panic) (@entry_go_np entry));
  mkSite "keyset/handle.go" "Handle.Primary / Len / Public" "h.primaryKeyEntry, h.entries" KNilDeref
    "if h == nil { return error / 0 }"
    (CArgued "a handle returned by a reader is non-nil whenever err == nil");
  mkSite "keyset/handle.go" "Handle.Public" "entries[i] = ... (make([]*Entry, h.Len()))" KIndex
    "i ranges over h.entries, whose length is h.Len()"
    (CArgued "range loop over the allocated length");
  mkSite "keyset/handle.go" "Handle.KeysetInfo" "panic(err) when entriesToKeysetInfo fails" KExplicitPanic
    "entries non-empty (newFromEntries found a primary); keyStatusToProto fails only for Unknown, rejected by newFromEntries; protoserialization.SerializeKey(entry.Key()) must succeed for every key a parser accepted"
    (CHarnessOnly "c14.go calls h.KeysetInfo() and h.Public() on EVERY accepted handle of every case; no model of the 37 serializers on this path");
  mkSite "keyset/handle.go" "getKeysetInfo / getKeyInfo" "panic(nil keyset); key.KeyData.TypeUrl (direct)" KExplicitPanic
    "only called from encrypt() with the keyset built by entriesToProtoKeyset from a live handle"
    (CArgued "write path: the keyset is produced by tink-go, not read from input");
  mkSite "insecurecleartextkeyset/insecurecleartextkeyset.go" "Read" "len(ks.Key)" KNilDeref
    "if r == nil { error }; err != nil || ks == nil || len(ks.Key) == 0 (short-circuit order)"
    (CModel ((forall L, read_proto L None = Err) /\ forall L ks, read_proto L ks <> Panic)
            (conj (fun _ => eq_refl) read_proto_np));
  mkSite "keyset/binary_io.go, keyset/json_io.go" "BinaryReader.Read / JSONReader.Read" "proto.Unmarshal / protojson.Unmarshal on arbitrary bytes" KStdlib
    "none needed: the libraries return errors"
    (CStdlib "protobuf-go wire decoder and protojson do not panic on any input (transcribed as fields / wire_ok / utf8_valid and compared on every case; length prefixes of 2^31-1 in gen6.go)");
  (* ---------------- internal/protoserialization ---------------- *)
  mkSite "internal/protoserialization/protoserialization.go" "ParseKey" "keySerialization.KeyData().GetTypeUrl() / GetKeyMaterialType()" KNilDeref
    "keySerialization is the non-nil result of NewKeySerialization; KeyData() getters are nil safe"
    (CModel (forall L kd prefix idreq, parse_key L kd prefix idreq <> Panic) parse_key_np);
  mkSite "internal/protoserialization/protoserialization.go" "KeySerialization.clone" "proto.Clone(k.keyData).(*tinkpb.KeyData)" KTypeAssert
    "proto.Clone returns a message of the dynamic type of its argument (also for a typed nil pointer)"
    (CArgued "the asserted type is the static type of the argument");
  mkSite "internal/protoserialization/protoserialization.go" "FallbackProtoPrivateKey.PublicKey" "keyManager.(registry.PrivateKeyManager) with ', ok'" KTypeAssert
    "two-value form" (CArgued "checked assertion");
  mkSite "internal/protoserialization/protoserialization.go" "NewFallbackProtoKey" "calculateOutputPrefix(outputPrefixType, id)" KStdlib
    "default: return error for an unknown prefix type (Validate rejected it before)"
    (CModel (forall L kd prefix idreq, parse_key L kd prefix idreq <> Panic) parse_key_np);
  (* ---------------- helpers ---------------- *)
  mkSite "internal/ec/ec.go" "BigIntBytesToFixedSizeBuffer" "make([]byte, size-len(bigIntBytes), size)" KMake
    "if len(bigIntBytes) < size (so 0 < size-len <= size); callers pass size = 32/48/66 or +1"
    (CLemma (forall b size, (0 <= size)%Z -> fixed_size_go b size <> Panic) fixed_size_go_np);
  mkSite "internal/ec/ec.go" "BigIntBytesToFixedSizeBuffer" "bigIntBytes[i] for i < len(bigIntBytes)-size" KIndex
    "reached only when len(bigIntBytes) > size >= 0, so 0 <= i < len"
    (CLemma ((forall b size, (0 <= size)%Z -> fixed_size_go b size <> Panic) /\
             forall b n, fixed_size_go b (Z.of_nat n) = fixed_size b n)
            (conj fixed_size_go_np fixed_size_go_is_model));
  mkSite "internal/ec/ec.go" "BigIntBytesToFixedSizeBuffer" "bigIntBytes[len(bigIntBytes)-size:]" KSlice
    "len(bigIntBytes) > size >= 0"
    (CModel (forall b n, fixed_size b n <> Panic) fixed_size_np);
  mkSite "internal/outputprefix/outputprefix.go" "Tink / Legacy" "binary.BigEndian.PutUint32(prefix[1:], id)" KSlice
    "prefix := make([]byte, 5): constant size" (CArgued "constant bounds");
  mkSite "internal/signature/rsa.go" "ValidateRSAPublicKeyParams" "int(e.Int64())" KIntConv
    "if !e.IsInt64() { return error } (commit 067e856)"
    (CLemma (forall e v, rsa_exponent e = Some v -> v = be_val e /\ (v < 9223372036854775808)%N) rsa_exponent_fits_int64);
  mkSite "internal/signature/rsa.go" "Pad" "make([]byte, encodingLength); padded[encodingLength-len(toPad):]" KSlice
    "if len(toPad) > encodingLength { error }; == returns early"
    (CArgued "serialisation path of an accepted key; encodingLength is a byte length of the modulus");
  (* ---------------- ECDSA ---------------- *)
  mkSite "signature/ecdsa/protoserialization.go" "encodePoint" "make([]byte, 1+2*coordinateSize); encodedPoint[0] = 0x04" KMake
    "coordinateSize in {32, 48, 66} (coordinateSizeForCurve errors otherwise)"
    (CLemma (forall x y c, zlen x = c -> zlen y = c -> encode_point_go x y c = Ok (4%N :: x ++ y)) encode_point_go_ok);
  mkSite "signature/ecdsa/protoserialization.go" "encodePoint" "encodedPoint[xStartPos:], encodedPoint[yStartPos:] with xStartPos = 1+c-len(x)" KSlice
    "x, y are results of BigIntBytesToFixedSizeBuffer(., c): exactly c bytes"
    (CLemma (forall bx by_ (c : nat) x y,
               fixed_size_go bx (Z.of_nat c) = Ok x -> fixed_size_go by_ (Z.of_nat c) = Ok y ->
               encode_point_go x y (Z.of_nat c) = Ok (4%N :: x ++ y)) encode_point_after_fixed_size_np);
  mkSite "signature/ecdsa/protoserialization.go" "newPublicKeyFromProto" "the whole body: version, params getters, two fixed-size buffers, encodePoint, NewPublicKey" KSlice
    "as above"
    (CModel (forall L fs prefix idreq, ecdsa_pub_of L fs prefix idreq <> Panic) ecdsa_pub_of_np);
  mkSite "signature/ecdsa/protoserialization.go" "newPublicKeyFromProto" "protoECDSAKey.GetParams().GetCurve() etc. (nil params sub-message)" KNilDeref
    "getters"
    (CModel (forall n k, get_u32 k (get_sub n []) = 0%N /\ get_len k (get_sub n []) = [] /\
                         get_sub k (get_sub n []) = [] /\ has_sub k (get_sub n []) = false)
            absent_submessage_reads_as_defaults);
  mkSite "signature/ecdsa/protoserialization.go" "createProtoECDSAPublicKey (serializer)" "publicPoint[1:], xy[:coordinateSize], xy[coordinateSize:]" KSlice
    "the key was built by NewPublicKey, which validated the point with crypto/ecdh: len = 1+2c"
    (CLemma (forall pt c, (0 <= c)%Z -> zlen pt = (1 + 2 * c)%Z -> point_coords_go pt c <> Panic) point_coords_go_np);
  mkSite "signature/ecdsa/signer.go, verifier.go" "NewSigner / NewVerifier" "publicPoint[1:], xy[:len(xy)/2], xy[len(xy)/2:]" KSlice
    "NewPublicKey validated the point (len >= 1)"
    (CModel (forall L kd prefix idreq d, parse_key L kd prefix idreq = Ok d -> prim_ok L d <> Panic) parse_then_prim_np);
  mkSite "signature/ecdsa/key.go" "NewPublicKey / NewPrivateKeyFromPublicKey" "ecdh curve.NewPublicKey(point), curve.NewPrivateKey(scalar)" KStdlib
    "none needed: crypto/ecdh returns errors for wrong lengths, off-curve points, the point at infinity, out-of-range scalars"
    (CStdlib "ec_point_ok / ec_pub_of_priv of the record stdlib (oracle ops c14_ecdh_point, c14_ecdh_pub)");
  (* ---------------- Ed25519 ---------------- *)
  mkSite "signature/ed25519/key.go" "NewPrivateKey / NewPrivateKeyWithPublicKey" "ed25519.NewKeyFromSeed(seed) (panics unless len(seed) == 32)" KStdlib
    "if privateKeyBytes.Len() != 32 { return error }; if pubKey == nil { return error }"
    (CModel (forall L kd prefix idreq, parse_ed25519_priv L kd prefix idreq <> Panic) parse_ed25519_priv_np);
  mkSite "signature/ed25519/key.go" "NewPrivateKey" "privKey.Public().(ed25519.PublicKey)" KTypeAssert
    "ed25519.PrivateKey.Public always returns ed25519.PublicKey" (CArgued "documented dynamic type");
  mkSite "signature/ed25519/signer.go" "NewSigner" "ed25519.NewKeyFromSeed(privateKey.PrivateKeyBytes())" KStdlib
    "a *PrivateKey only exists with a 32-byte seed (constructors above)"
    (CModel (forall L kd prefix idreq d, parse_key L kd prefix idreq = Ok d -> prim_ok L d <> Panic) parse_then_prim_np);
  (* ---------------- RSA ---------------- *)
  mkSite "signature/rsassapkcs1, rsassapss, jwt/jwtrsassapkcs1, jwt/jwtrsassapss protoserialization.go" "parsePublicKey / ParseKey" "int(exponent.Int64())" KIntConv
    "if !exponent.IsInt64() { return error }"
    (CModel (forall L, ~ strength_ok rsa_trunc_kd /\ parse_key L rsa_trunc_kd pt_tink 7 = Err) rsa_exponent_truncation_rejected);
  mkSite "signature/rsassapss/protoserialization.go" "ParseKey" "int(protoKey.GetParams().GetSaltLength()) (int32 field, may be negative)" KIntConv
    "NewParameters: SaltLengthBytes < 0 is an error"
    (CLemma (forall v, (0 <= v <= u32_max)%Z -> (0 <? int_of_i32field v)%Z = int32_positive (Z.to_N v)) int32_positive_is_go);
  mkSite "signature/rsassa*/key.go, jwt/jwtrsassa*/key.go" "NewPublicKey" "new(big.Int).SetBytes(modulus).BitLen()" KBigInt
    "SetBytes / BitLen are total" (CArgued "total functions of math/big");
  mkSite "signature/rsassa*/key.go, jwt/jwtrsassa*/key.go" "NewPrivateKey" "publicKey.parameters (publicKey may be nil for API callers)" KNilDeref
    "on the parse path publicKey is the non-nil result of NewPublicKey (err checked)"
    (CArgued "parser passes a checked value");
  mkSite "signature/rsassa*/key.go, jwt/jwtrsassa*/key.go" "NewPrivateKey" "privateKey.Validate(); privateKey.Precompute() with attacker P, Q, D (zero, one, even, non-prime)" KStdlib
    "Validate() error is returned before Precompute"
    (CStdlib "rsa_crt: crypto/rsa Validate returns an error (never panics) on any big integers; oracle op c14_rsa_crt; gen2.go rsaTweak and gen6.go (P, Q, D empty / ff / 300 zeros)");
  mkSite "signature/rsassa*/key.go" "PrivateKey.DP / DQ / QInv" "k.privateKey.Precomputed.Dp.Bytes() (nil if Precompute left the key unmodified)" KNilDeref
    "NewPrivateKey returned only after Validate() == nil, and in Go >= 1.24 Validate runs the same precompute and returns its error"
    (CStdlib "rsa_crt = Some (dp, dq, qinv) exactly when Validate succeeds");
  mkSite "signature/rsassa*/key.go" "privateKeySelfCheck" "signer.Sign / verifier.Verify on the fresh key" KStdlib
    "errors are returned" (CStdlib "rsa_selfcheck (oracle op c14_rsa_selfcheck)");
  (* ---------------- SLH-DSA / ML-DSA ---------------- *)
  mkSite "signature/slhdsa/protoserialization.go" "ParseKey" "int(protoKey.GetParams().GetKeySize()) (int32 field)" KIntConv
    "NewParameters accepts only the listed (hash, key size, sig type) combinations"
    (CModel (forall kd prefix idreq, parse_slhdsa_pub kd prefix idreq <> Panic) parse_slhdsa_pub_np);
  mkSite "internal/signature/slhdsa/slhdsa.go" "DecodePublicKey" "pkEnc[0:p.n], pkEnc[p.n:2*p.n]" KSlice
    "if len(pkEnc) != p.PublicKeyLength() { return error }"
    (CLemma (forall n b, (0 <= n)%Z -> slh_decode_pk_go n b <> Panic /\ slh_decode_sk_go n b <> Panic) slh_decode_go_np);
  mkSite "internal/signature/slhdsa/slhdsa.go" "DecodeSecretKey" "skEnc[0:n], [n:2n], [2n:3n], [3n:4n]" KSlice
    "if len(skEnc) != p.SecretKeyLength() { return error }"
    (CModel (forall kd prefix idreq, parse_slhdsa_priv kd prefix idreq <> Panic) parse_slhdsa_priv_np);
  mkSite "signature/mldsa/key.go, jwt/jwtmldsa/key.go" "NewPublicKey" "checkPublicKeyLengthForInstance(len(keyBytes), instance)" KStdlib
    "length compared before DecodePublicKey"
    (CModel ((forall kd prefix idreq, parse_mldsa_pub kd prefix idreq <> Panic) /\
             forall kd prefix idreq, parse_jwt_mldsa_pub kd prefix idreq <> Panic)
            (conj parse_mldsa_pub_np parse_jwt_mldsa_pub_np));
  (* ---------------- ECIES / HPKE ---------------- *)
  mkSite "hybrid/ecies/protoserialization.go" "parseParameters" "proto.Clone(protoParams.GetDemParams().GetAeadDem()).(*tinkpb.KeyTemplate); demTemplate.OutputPrefixType = RAW" KTypeAssert
    "if GetDemParams() == nil { error }; if GetAeadDem() == nil { error } (two lines above)"
    (CModel (forall L kd prefix idreq, parse_ecies_pub L kd prefix idreq <> Panic) parse_ecies_pub_np);
  mkSite "hybrid/ecies/protoserialization.go" "parseParameters" "protoserialization.ParseParameters(demTemplate) on an attacker-chosen template (any registered type URL, any value)" KStdlib
    "every parameters parser returns errors; NewParameters accepts only six DEM parameter sets"
    (CHarnessOnly "the model rejects every template outside the six accepted ones WITHOUT transcribing the other parameters parsers; exercised by gen3.go demTemplate and gen6.go (every field of the DEM template of the bank's ECIES keys)");
  mkSite "hybrid/ecies/protoserialization.go" "parsePublicKey" "slices.Concat([]byte{0x04}, x, y)" KSlice
    "x, y from BigIntBytesToFixedSizeBuffer"
    (CModel (forall L fs prefix idreq, ecies_pub_of L fs prefix idreq <> Panic) ecies_pub_of_np);
  mkSite "hybrid/ecies/protoserialization.go" "ParseKey (private)" "publicKey.Parameters().(*Parameters).CurveType()" KTypeAssert
    "publicKey was built by this package's NewPublicKey with a *Parameters"
    (CArgued "static construction");
  mkSite "hybrid/ecies/protoserialization.go" "ParseKey (private)" "BigIntBytesToFixedSizeBuffer(privateKeyBytes, coordinateSize); NewPrivateKeyFromPublicKey" KSlice
    "as above"
    (CModel (forall L kd prefix idreq, parse_ecies_priv L kd prefix idreq <> Panic) parse_ecies_priv_np);
  mkSite "hybrid/ecies/protoserialization.go" "publicKeyToProtoPublicKey (serializer)" "publicKey.PublicKeyBytes()[1:], xy[:coordinateSize], xy[coordinateSize:]" KSlice
    "NIST-curve key bytes are 0x04 || x || y with |x| = |y| = c by construction"
    (CLemma (forall pt c, (0 <= c)%Z -> zlen pt = (1 + 2 * c)%Z -> point_coords_go pt c <> Panic) point_coords_go_np);
  mkSite "hybrid/ecies/parameters.go" "package-level DEM parameter table" "panic(failed to create ... parameters)" KExplicitPanic
    "arguments are constants" (CArgued "no input");
  mkSite "hybrid/hpke/key.go" "NewPublicKey" "parameters.Variant() (nil *Parameters for API callers)" KNilDeref
    "parser passes the result of parseParameters (err checked)"
    (CArgued "parser passes a checked value");
  mkSite "hybrid/hpke/protoserialization.go, key.go" "ParseKey (public / private)" "the whole bodies" KNilDeref
    "getters; length tests"
    (CModel ((forall L kd prefix idreq, parse_hpke_pub L kd prefix idreq <> Panic) /\
             forall L kd prefix idreq, parse_hpke_priv L kd prefix idreq <> Panic)
            (conj parse_hpke_pub_np parse_hpke_priv_np));
  mkSite "hybrid/hpke/key.go" "validateXWingPublicKey / validateMLKEMPublicKey / NewPrivateKeyFromPublicKey" "mlkem.NewDecapsulationKey768/1024(seed), xwing.PublicFromSecret(sk)" KStdlib
    "both return errors for a wrong length (xwing: len != 32 checked first)"
    (CStdlib "mlkem_pub / xwing_pub of the record stdlib");
  mkSite "hybrid/internal/xwing/xwing.go" "Encapsulate / Decapsulate" "publicKey[:1184], publicKey[1184:]; ciphertext[:1088], ciphertext[1088:]" KSlice
    "if len(publicKey) != 1216 { error }; if len(ciphertext) != 1120 { error }"
    (CArgued "constant bounds behind an exact length test (use path, not parse path)");
  (* ---------------- JWT ---------------- *)
  mkSite "jwt/jwtecdsa/protoserialization.go" "ParseKey" "BigIntBytesToFixedSizeBuffer(x, c), slices.Concat(0x04, x, y)" KSlice
    "as ECDSA"
    (CModel ((forall L kd prefix idreq, parse_jwt_ecdsa_pub L kd prefix idreq <> Panic) /\
             forall L kd prefix idreq, parse_jwt_ecdsa_priv L kd prefix idreq <> Panic)
            (conj parse_jwt_ecdsa_pub_np parse_jwt_ecdsa_priv_np));
  mkSite "jwt/jwtecdsa/protoserialization.go" "serializer" "k.PublicPoint()[1:], xy[:coordinateSize], xy[coordinateSize:]" KSlice
    "NewPublicKey validated the point with crypto/ecdh"
    (CLemma (forall pt c, (0 <= c)%Z -> zlen pt = (1 + 2 * c)%Z -> point_coords_go pt c <> Panic) point_coords_go_np);
  mkSite "jwt/jwt*/key.go" "computeKID" "make([]byte, 4); binary.BigEndian.PutUint32(buf, idRequirement)" KMake
    "constant size" (CArgued "constant bounds");
  mkSite "jwt/jwt*/protoserialization.go" "ParseKey" "protoKey.GetCustomKid().GetValue() (nil CustomKid)" KNilDeref
    "getters; presence tested with GetCustomKid() != nil"
    (CModel ((forall kd prefix idreq, parse_jwt_hmac kd prefix idreq <> Panic) /\
             (forall pss kd prefix idreq, parse_jwt_rsa_pub pss kd prefix idreq <> Panic) /\
             forall L pss kd prefix idreq, parse_jwt_rsa_priv L pss kd prefix idreq <> Panic)
            (conj parse_jwt_hmac_np (conj parse_jwt_rsa_pub_np parse_jwt_rsa_priv_np)));
  (* ---------------- symmetric key types ---------------- *)
  mkSite "aead/aesctrhmac/protoserialization.go (and all symmetric parsers)" "ParseKey" "protoKey.GetAesCtrKey().GetParams().GetIvSize() on nil sub-messages" KNilDeref
    "getters"
    (CModel (forall n k, get_u32 k (get_sub n []) = 0%N /\ get_len k (get_sub n []) = [] /\
                         get_sub k (get_sub n []) = [] /\ has_sub k (get_sub n []) = false)
            absent_submessage_reads_as_defaults);
  mkSite "aead/*, mac/*, prf/*, daead/aessiv protoserialization.go" "ParseKey" "int(protoKey.GetParams().GetTagSize()), int(GetIvSize()), int(format.GetKeySize()) (uint32 -> int)" KIntConv
    "64-bit platform: lossless; the values are then compared with small constants / with len(key)"
    (CLemma ((forall v, int_of_u32 v = v) /\ forall v, (2147483648 <= v <= u32_max)%Z -> (int_of_u32_32bit v < 0)%Z)
            (conj (fun _ => eq_refl) int_of_u32_32bit_wrapped_is_negative));
  mkSite "aead/aesgcm/key.go etc." "NewKey" "keyBytes.Len() != int(parameters.KeySizeInBytes())" KIntConv
    "KeySizeInBytes was validated to be 16 / 32 (24 rejected)"
    (CModel (forall L kd prefix idreq, parse_key L kd prefix idreq <> Panic) parse_key_np);
  mkSite "streamingaead/aesctrhmac/protoserialization.go" "ParseKey" "int32(paramsProto.GetCiphertextSegmentSize()) (uint32 -> int32 wraps)" KIntConv
    "NewParameters: SegmentSizeInBytes < minCiphertextSegmentSize is an error, min > 0"
    (CLemma (forall derived tag seg max_tag,
               (0 <= seg <= u32_max)%Z -> (0 <= tag <= u32_max)%Z -> (max_tag <= 64)%Z ->
               (derived = 16 \/ derived = 32)%Z -> (10 <= tag <= max_tag)%Z ->
               seg_check_ctr_go derived tag seg max_tag = int32_at_least (Z.to_N seg) (Z.to_N (derived + 8 + tag + 1)))
            seg_check_ctr_go_is_model);
  mkSite "streamingaead/aesctrhmac/parameters.go" "NewParameters" "int32(DerivedKeySizeInBytes + 7 + 1 + HmacTagSizeInBytes + 1) (int -> int32 wraps)" KIntConv
    "derived key size in {16, 32} and 10 <= tag <= 20/32/64 are checked BEFORE the sum is formed"
    (CLemma (forall derived tag seg max_tag,
               (0 <= seg <= u32_max)%Z -> (0 <= tag <= u32_max)%Z -> (max_tag <= 64)%Z ->
               seg_check_ctr_go derived tag seg max_tag = true ->
               (seg < 2147483648 /\ int32_of_u32 seg = seg /\ derived + 7 + 1 + tag + 1 <= seg /\ 10 <= tag <= max_tag)%Z)
            seg_check_ctr_go_sound);
  mkSite "streamingaead/aesgcmhkdf/protoserialization.go, parameters.go" "ParseKey / validateOpts" "int32(paramsProto.GetCiphertextSegmentSize()); int32(DerivedKeySizeInBytes + 24 + 1)" KIntConv
    "derived key size in {16, 32} checked first; SegmentSizeInBytes < minSegmentSize is an error"
    (CLemma (forall derived seg, (0 <= seg <= u32_max)%Z -> seg_check_gcm_go derived seg = true ->
               (seg < 2147483648 /\ derived + 24 + 1 <= seg)%Z) seg_check_gcm_go_sound);
  mkSite "streamingaead/*/protoserialization.go" "ParseKey" "the whole bodies" KIntConv
    "as above"
    (CModel ((forall kd prefix idreq, parse_stream_gcm_hkdf kd prefix idreq <> Panic) /\
             forall kd prefix idreq, parse_stream_ctr_hmac kd prefix idreq <> Panic)
            (conj parse_stream_gcm_hkdf_np parse_stream_ctr_hmac_np));
  mkSite "streamingaead/*/key.go" "primitive constructor" "int(params.SegmentSizeInBytes()), uint32(keyBytes.Len())" KIntConv
    "segment size > 0 after NewParameters; Len() is a length"
    (CModel (forall L kd prefix idreq d, parse_key L kd prefix idreq = Ok d -> prim_ok L d <> Panic) parse_then_prim_np);
  mkSite "secretdata/secretdata.go" "NewBytesFromData" "bytes.Clone(data)" KStdlib
    "total" (CArgued "identity on byte strings")
].

(* How the listed sites are covered.  "Proved" = the entry carries a theorem
   (about the model clause that contains the site, or about the as-written
   transcription of the site); the other three kinds carry none. *)
Theorem panic_site_coverage_counts :
  length panic_sites = 71%nat /\
  count by_model_theorem panic_sites = 31%nat /\
  count by_site_lemma panic_sites = 15%nat /\
  count argued_only panic_sites = 17%nat /\
  count is_stdlib panic_sites = 6%nat /\
  count is_harness_only panic_sites = 2%nat.
Proof. vm_compute. repeat split. Qed.
