(* C14 (stretch) — THE TABLE OF PANIC SITES (types and legend:
   model/UntrustedPanicSites.v).  The list of sites is HAND-MADE (a site the
   reading missed is not in it); Coq checks the coverage column, and only for
   the two constructors that take the function containing the site as a
   functional of a GUARD SWITCH and of the panicking operation
   (proofs/UntrustedSiteFunctionals.v):
     CModel op F necessary f same pf   F true op is the body of the model function
                           f (same); with the test(s) in front of the expression
                           deleted (F false) the REAL operation panics on some
                           input (necessary: the guard is needed and the input
                           reaches the operation); f never panics (pf)
     CLemma raw F necessary pf         the same for the statements AS WRITTEN in the
                           Go function over the raw machine-integer operation
   What this does not say: that F true transcribes the Go function and that the
   switched test is the one the Go code has - that is reading.  CArgued / CStdlib
   / CHarnessOnly entries carry NO theorem; lemma or theorem names inside their
   text are pointers for the reader, not checked.  At the end: the inhabitants
   the fourth and fifth audits found for the earlier shapes, adapted to this
   one, are refuted. *)
From Coq Require Import String List NArith ZArith.
From Tink Require Import Bytes UntrustedConsts Untrusted UntrustedSpec UntrustedProofs.
From Tink Require Import UntrustedSites UntrustedSitesProofs UntrustedPanicSites.
From Tink Require Import UntrustedParams UntrustedParamsProofs UntrustedSiteFunctionals.
Import ListNotations.
Open Scope string_scope.

Definition panic_sites : list site := [
  mkSite "keyset/validation.go" "Validate" "keyset.Key, keyset.PrimaryKeyId (direct field access)" KNilDeref
    "if keyset == nil { return error } (first statement)"
    (CArgued "the model's validate is a total boolean function (validate None = false); no Panic constructor to reach");
  mkSite "keyset/validation.go" "Validate" "key.KeyId, key.Status in the loop over keyset.Key" KNilDeref
    "validateKey(key) returns an error for key == nil before any field is read"
    (CArgued "total in the model (ks_keys : list (option pkey); theorem C14_nil_parts_rejected says nil keys / nil key data are rejected)");
  mkSite "keyset/validation.go" "validateKey" "key.KeyData, key.OutputPrefixType, key.Status" KNilDeref
    "if key == nil { return error }"
    (CArgued "as above");
  mkSite "keyset/validation.go" "Validate" "keyIDs[key.KeyId] = true (map write)" KNilDeref
    "keyIDs := make(map[uint32]bool) four lines above"
    (CArgued "the map is allocated unconditionally");
  mkSite "keyset/handle.go" "keysetToEntries" "entries := make([]*Entry, len(ks.GetKey())); entries[i] = ..." KMake
    "Validate(ks) succeeded (ks non-nil); i ranges over the same slice"
    (CArgued "range loop over the allocated length; the size is a len()");
  mkSite "keyset/handle.go" "keysetToEntries" "protoKey.GetKeyData(), GetKeyId(), GetOutputPrefixType(), GetStatus()" KNilDeref
    "generated getters are nil safe; Validate already rejected nil keys and nil key data"
    (CArgued "getters; total in the model");
  mkSite "keyset/handle.go" "hasSecrets" "protoKey.GetKeyData().GetKeyMaterialType() inside slices.ContainsFunc(ks.GetKey(), ...)" KNilDeref
    "getters only (ks, protoKey and KeyData may all be nil)"
    (CArgued "getters; has_secrets is a total boolean function of the model");
  mkSite "keyset/handle.go" "newFromEntries" "entry.IsPrimary(), entry.KeyStatus(), entry.KeyID() on each entry" KNilDeref
    "entries come from keysetToEntries: every element was assigned newUnmonitoredEntry(...)"
    (CArgued "values tink-go built itself");
  mkSite "keyset/handle.go" "decrypt / decryptWithContext" "encryptedKeyset.GetEncryptedKeyset(); keyEncryptionAEAD.Decrypt(...)" KNilDeref
    "if encryptedKeyset == nil || keyEncryptionAEAD == nil { return error }"
    (CArgued "nil test two lines above; the model's read_encrypted has no Panic constructor for it");
  mkSite "keyset/handle.go" "Handle.Entry" "h.entries[i]" KIndex
    "if h == nil { error }; if i < 0 || i >= h.Len() { error }"
    (CLemma entry_raw2 entry_F entry_F_necessary entry_F_np);
  mkSite "keyset/handle.go" "Handle.Primary / Len / Public" "h.primaryKeyEntry, h.entries" KNilDeref
    "if h == nil { return error / 0 }"
    (CArgued "a handle returned by a reader is non-nil whenever err == nil");
  mkSite "keyset/handle.go" "Handle.Public" "entries[i] = ... (make([]*Entry, h.Len()))" KIndex
    "i ranges over h.entries, whose length is h.Len()"
    (CArgued "range loop over the allocated length");
  mkSite "keyset/handle.go" "Handle.KeysetInfo" "panic(err) when entriesToKeysetInfo fails" KExplicitPanic
    "entries non-empty (newFromEntries found a primary); keyStatusToProto fails only for Unknown, rejected by newFromEntries; protoserialization.SerializeKey(entry.Key()) must succeed for every key a parser accepted"
    (CHarnessOnly "c14.go calls h.KeysetInfo() and h.Public() on EVERY accepted handle of every case; no model of the serializers on this path");
  mkSite "keyset/handle.go" "getKeysetInfo / getKeyInfo" "panic(nil keyset); key.KeyData.TypeUrl (direct)" KExplicitPanic
    "only called from encrypt() with the keyset built by entriesToProtoKeyset from a live handle"
    (CArgued "write path: the keyset is produced by tink-go, not read from input");
  mkSite "insecurecleartextkeyset/insecurecleartextkeyset.go" "Read" "len(ks.Key)" KNilDeref
    "if r == nil { error }; err != nil || ks == nil || len(ks.Key) == 0 (short-circuit order)"
    (CArgued "nil test in the same condition, evaluated first");
  mkSite "keyset/binary_io.go, keyset/json_io.go" "BinaryReader.Read / JSONReader.Read" "proto.Unmarshal / protojson.Unmarshal on arbitrary bytes" KStdlib
    "none needed: the libraries return errors"
    (CStdlib "protobuf-go wire decoder and protojson do not panic on any input (transcribed as fields / wire_ok / utf8_valid and compared on every case; length prefixes of 2^31-1 in gen6.go)");
  mkSite "internal/protoserialization/protoserialization.go" "ParseKey" "keySerialization.KeyData().GetTypeUrl() / GetKeyMaterialType()" KNilDeref
    "keySerialization is the non-nil result of NewKeySerialization; KeyData() getters are nil safe"
    (CArgued "getters");
  mkSite "internal/protoserialization/protoserialization.go" "KeySerialization.clone" "proto.Clone(k.keyData).(*tinkpb.KeyData)" KTypeAssert
    "proto.Clone returns a message of the dynamic type of its argument (also for a typed nil pointer)"
    (CArgued "the asserted type is the static type of the argument");
  mkSite "internal/protoserialization/protoserialization.go" "FallbackProtoPrivateKey.PublicKey" "keyManager.(registry.PrivateKeyManager) with ', ok'" KTypeAssert
    "two-value form"
    (CArgued "checked assertion");
  mkSite "internal/protoserialization/protoserialization.go" "NewFallbackProtoKey" "calculateOutputPrefix(outputPrefixType, id)" KStdlib
    "default: return error for an unknown prefix type (Validate rejected it before)"
    (CArgued "returns an error; no panic in the function");
  mkSite "internal/ec/ec.go" "BigIntBytesToFixedSizeBuffer" "make([]byte, size-len(bigIntBytes), size)" KMake
    "if len(bigIntBytes) < size (so 0 < size-len <= size); callers pass size = 32/48/66 or +1"
    (CLemma make2 bigint_make_F bigint_make_F_necessary bigint_make_F_np);
  mkSite "internal/ec/ec.go" "BigIntBytesToFixedSizeBuffer" "bigIntBytes[i] for i < len(bigIntBytes)-size" KIndex
    "reached only when len(bigIntBytes) > size >= 0, so 0 <= i < len"
    (CArgued "no test is needed: the loop condition i < len(bigIntBytes)-size with size >= 0 (a constant of the callers) keeps i below len; with the loop in place there is no guard whose removal makes the index panic, so no lemma of the guard-switch shape is claimed; that the as-written body never panics for size >= 0 is theorem C14_bigint_buffer_as_written_never_panics (named here, not checked by the table)");
  mkSite "internal/ec/ec.go" "BigIntBytesToFixedSizeBuffer" "bigIntBytes[len(bigIntBytes)-size:]" KSlice
    "len(bigIntBytes) > size >= 0"
    (CLemma slice3z bigint_slice_F bigint_slice_F_necessary bigint_slice_F_np);
  mkSite "internal/outputprefix/outputprefix.go" "Tink / Legacy" "binary.BigEndian.PutUint32(prefix[1:], id)" KSlice
    "prefix := make([]byte, 5): constant size"
    (CArgued "constant bounds");
  mkSite "internal/signature/rsa.go" "ValidateRSAPublicKeyParams" "int(e.Int64())" KIntConv
    "if !e.IsInt64() { return error } (commit 067e856)"
    (CArgued "integer conversion: truncates, does not panic; lemma rsa_exponent_fits_int64 (the conversion is reached only below 2^63) and theorem C14_rsa_exponent_truncation_rejected, named here, not checked by the table");
  mkSite "internal/signature/rsa.go" "Pad" "make([]byte, encodingLength); padded[encodingLength-len(toPad):]" KSlice
    "if len(toPad) > encodingLength { error }; == returns early"
    (CArgued "serialisation path of an accepted key; encodingLength is a byte length of the modulus");
  mkSite "signature/ecdsa/protoserialization.go" "encodePoint" "make([]byte, 1+2*coordinateSize); encodedPoint[0] = 0x04" KMake
    "coordinateSize in {32, 48, 66} (coordinateSizeForCurve errors otherwise)"
    (CArgued "no test is needed: the size 1+2*coordinateSize is positive for every coordinateSize >= 0 and coordinateSize is 32 / 48 / 66: make cannot panic here whatever tests are deleted, so no lemma of the guard-switch shape is claimed");
  mkSite "signature/ecdsa/protoserialization.go" "encodePoint" "encodedPoint[xStartPos:], encodedPoint[yStartPos:] with xStartPos = 1+c-len(x)" KSlice
    "x, y are results of BigIntBytesToFixedSizeBuffer(., c): exactly c bytes"
    (CLemma slice3z new_point_slice_F new_point_slice_F_necessary new_point_slice_F_np);
  mkSite "signature/ecdsa/protoserialization.go" "newPublicKeyFromProto" "encodePoint(x, y, c) after two BigIntBytesToFixedSizeBuffer(., c)" KSlice
    "as above"
    (CModel encode_point3 ecdsa_pub_of_F ecdsa_pub_of_F_necessary ecdsa_pub_of4 ecdsa_pub_of_F_same ecdsa_pub_of4_np);
  mkSite "signature/ecdsa/protoserialization.go" "newPublicKeyFromProto" "protoECDSAKey.GetParams().GetCurve() etc. (nil params sub-message)" KNilDeref
    "getters"
    (CArgued "getters are total in the model: lemma absent_submessage_reads_as_defaults (an absent sub-message reads as all defaults), named here, not checked by the table");
  mkSite "signature/ecdsa/protoserialization.go:130" "validateEncodingAndGetCoordinates (serializer)" "publicPoint[0] != 0x04" KIndex
    "if len(publicPoint) != 2*coordinateSize+1 { return error } (the statement before; coordinateSize in {32,48,66})"
    (CLemma index2 serializer_first_byte_F serializer_first_byte_F_necessary serializer_first_byte_F_np);
  mkSite "signature/ecdsa/protoserialization.go:133" "validateEncodingAndGetCoordinates (serializer)" "publicPoint[1:], xy[:coordinateSize], xy[coordinateSize:]" KSlice
    "if len(publicPoint) != 2*coordinateSize+1 { return error } (same test)"
    (CLemma slice3z serializer_coords_F serializer_coords_F_necessary serializer_coords_F_np);
  mkSite "signature/ecdsa/signer.go, verifier.go" "NewSigner / NewVerifier" "publicPoint[1:], xy[:len(xy)/2], xy[len(xy)/2:]" KSlice
    "NewPublicKey validated the point (len >= 1)"
    (CModel ecdsa_point_slices ecdsa_prim_F ecdsa_prim_F_necessary parse_then_prim4 ecdsa_prim_F_same parse_then_prim4_np);
  mkSite "signature/ecdsa/key.go" "NewPublicKey / NewPrivateKeyFromPublicKey" "ecdh curve.NewPublicKey(point), curve.NewPrivateKey(scalar)" KStdlib
    "none needed: crypto/ecdh returns errors for wrong lengths, off-curve points, the point at infinity, out-of-range scalars"
    (CStdlib "ec_point_ok / ec_pub_of_priv of the record stdlib (oracle ops c14_ecdh_point, c14_ecdh_pub)");
  mkSite "signature/ed25519/key.go" "NewPrivateKey / NewPrivateKeyWithPublicKey" "ed25519.NewKeyFromSeed(seed) (panics unless len(seed) == 32)" KStdlib
    "if privateKeyBytes.Len() != 32 { return error }; if pubKey == nil { return error }"
    (CModel from_seed2 parse_ed25519_priv_F parse_ed25519_priv_F_necessary parse_ed25519_priv4 parse_ed25519_priv_F_same parse_ed25519_priv4_np);
  mkSite "signature/ed25519/key.go" "NewPrivateKey" "privKey.Public().(ed25519.PublicKey)" KTypeAssert
    "ed25519.PrivateKey.Public always returns ed25519.PublicKey"
    (CArgued "documented dynamic type");
  mkSite "signature/ed25519/signer.go" "NewSigner" "ed25519.NewKeyFromSeed(privateKey.PrivateKeyBytes())" KStdlib
    "a *PrivateKey only exists with a 32-byte seed (constructors above)"
    (CModel from_seed2 ed25519_signer_F ed25519_signer_F_necessary ed25519_signer4 ed25519_signer_F_same ed25519_signer4_np);
  mkSite "signature/rsassapkcs1, rsassapss, jwt/jwtrsassapkcs1, jwt/jwtrsassapss protoserialization.go" "parsePublicKey / ParseKey" "int(exponent.Int64()) (four files, same statement)" KIntConv
    "if !exponent.IsInt64() { return error }"
    (CArgued "integer conversion: truncates, does not panic; lemma rsa_exponent_fits_int64 and the single regression vector of theorem C14_rsa_exponent_truncation_rejected (one key type), named here, not checked by the table; the four parsers are compared with the model on the directed exponent grid of gen.go");
  mkSite "signature/rsassapss/protoserialization.go" "ParseKey" "int(protoKey.GetParams().GetSaltLength()) (int32 field, may be negative)" KIntConv
    "NewParameters: SaltLengthBytes < 0 is an error"
    (CArgued "integer conversion: wraps, does not panic; the comparison that follows is theorem C14_wrapping_conversions_are_rejected / lemma int32_positive_is_go (named here, not checked by the table)");
  mkSite "signature/rsassa*/key.go, jwt/jwtrsassa*/key.go" "NewPublicKey" "new(big.Int).SetBytes(modulus).BitLen()" KBigInt
    "SetBytes / BitLen are total"
    (CArgued "total functions of math/big");
  mkSite "signature/rsassa*/key.go, jwt/jwtrsassa*/key.go" "NewPrivateKey" "publicKey.parameters (publicKey may be nil for API callers)" KNilDeref
    "on the parse path publicKey is the non-nil result of NewPublicKey (err checked)"
    (CArgued "parser passes a checked value");
  mkSite "signature/rsassa*/key.go, jwt/jwtrsassa*/key.go" "NewPrivateKey" "privateKey.Validate(); privateKey.Precompute() with attacker P, Q, D (zero, one, even, non-prime)" KStdlib
    "Validate() error is returned before Precompute"
    (CStdlib "rsa_crt: crypto/rsa Validate returns an error (never panics) on any big integers; oracle op c14_rsa_crt; gen2.go rsaTweak and gen6.go (P, Q, D empty / ff / 300 zeros)");
  mkSite "signature/rsassa*/key.go" "PrivateKey.DP / DQ / QInv" "k.privateKey.Precomputed.Dp.Bytes() (nil if Precompute left the key unmodified)" KNilDeref
    "NewPrivateKey returned only after Validate() == nil, and in Go >= 1.24 Validate runs the same precompute and returns its error"
    (CStdlib "rsa_crt = Some (dp, dq, qinv) exactly when Validate succeeds");
  mkSite "signature/rsassa*/key.go" "privateKeySelfCheck" "signer.Sign / verifier.Verify on the fresh key" KStdlib
    "errors are returned"
    (CStdlib "rsa_selfcheck (oracle op c14_rsa_selfcheck)");
  mkSite "signature/slhdsa/protoserialization.go" "ParseKey" "int(protoKey.GetParams().GetKeySize()) (int32 field)" KIntConv
    "NewParameters accepts only the listed (hash, key size, sig type) combinations"
    (CArgued "integer conversion: does not panic; the value is compared with 64 / 96 / 128");
  mkSite "internal/signature/slhdsa/slhdsa.go" "DecodePublicKey" "pkEnc[0:p.n], pkEnc[p.n:2*p.n]" KSlice
    "if len(pkEnc) != p.PublicKeyLength() { return error }"
    (CLemma slice3z slh_decode_pk_F slh_decode_pk_F_necessary slh_decode_pk_F_np);
  mkSite "internal/signature/slhdsa/slhdsa.go" "DecodeSecretKey" "skEnc[0:n], [n:2n], [2n:3n], [3n:4n]" KSlice
    "if len(skEnc) != p.SecretKeyLength() { return error }"
    (CModel slice3 parse_slhdsa_priv_F parse_slhdsa_priv_F_necessary parse_slhdsa_priv3 parse_slhdsa_priv_F_same parse_slhdsa_priv3_np);
  mkSite "signature/mldsa/key.go, jwt/jwtmldsa/key.go" "NewPublicKey" "checkPublicKeyLengthForInstance(len(keyBytes), instance)" KStdlib
    "length compared before DecodePublicKey"
    (CArgued "length test in front of the decoder; the model's parser has no Panic constructor");
  mkSite "hybrid/ecies/protoserialization.go" "parseParameters" "proto.Clone(protoParams.GetDemParams().GetAeadDem()).(*tinkpb.KeyTemplate); demTemplate.OutputPrefixType = RAW" KTypeAssert
    "if GetDemParams() == nil { error }; if GetAeadDem() == nil { error } (two lines above)"
    (CModel set_prefix_raw ecies_params_F ecies_params_F_necessary ecies_params2 ecies_params_F_same ecies_params2_np);
  mkSite "hybrid/ecies/protoserialization.go" "parseParameters" "protoserialization.ParseParameters(demTemplate) on an attacker-chosen template (any registered type URL, any value)" KStdlib
    "every parameters parser returns errors (all 29 are transcribed, model/UntrustedParams.v parse_params: total functions whose only checked operation is the assignment through the DEM template pointer of a nested ECIES format, behind its nil test at every nesting level); NewParameters accepts only six DEM parameter sets"
    (CArgued "28 of the 29 transcribed parameters parsers (model/UntrustedParams.v pp_*) are total functions with no Panic constructor in their definition; the one checked operation, set_prefix_raw in ecies_params_of (a nested ECIES format as DEM template), is the previous entry; that the recursion over nested templates never reaches it unguarded is theorem C14_parameters_parsers_never_panic (parse_params_np), named here, not checked by the table");
  mkSite "hybrid/ecies/protoserialization.go" "parsePublicKey" "BigIntBytesToFixedSizeBuffer(x / y, c); slices.Concat([]byte{0x04}, x, y)" KSlice
    "x, y from BigIntBytesToFixedSizeBuffer"
    (CArgued "the only checked operation is the slice inside fixed_size, which has its own entry (internal/ec/ec.go, CLemma on the as-written body); that parsePublicKey of the model never panics is lemma ecies_pub_of_np, named here, not checked by the table");
  mkSite "hybrid/ecies/protoserialization.go" "ParseKey (private)" "publicKey.Parameters().(*Parameters).CurveType()" KTypeAssert
    "publicKey was built by this package's NewPublicKey with a *Parameters"
    (CArgued "static construction");
  mkSite "hybrid/ecies/protoserialization.go" "ParseKey (private)" "BigIntBytesToFixedSizeBuffer(privateKeyBytes, coordinateSize)" KSlice
    "as above"
    (CArgued "as above: the slice inside fixed_size (own entry); lemma parse_ecies_priv_np, named here, not checked by the table");
  mkSite "hybrid/ecies/protoserialization.go:185" "publicKeyToProtoPublicKey (serializer)" "publicKey.PublicKeyBytes()[0] != 0x04" KIndex
    "if len(publicKey.PublicKeyBytes()) != 2*coordinateSize+1 { return error } (the statement before)"
    (CLemma index2 serializer_first_byte_F serializer_first_byte_F_necessary serializer_first_byte_F_np);
  mkSite "hybrid/ecies/protoserialization.go:188" "publicKeyToProtoPublicKey (serializer)" "publicKey.PublicKeyBytes()[1:], xy[:coordinateSize], xy[coordinateSize:]" KSlice
    "if len(publicKey.PublicKeyBytes()) != 2*coordinateSize+1 { return error } (same test)"
    (CLemma slice3z serializer_coords_F serializer_coords_F_necessary serializer_coords_F_np);
  mkSite "hybrid/ecies (primitive constructor)" "NewHybridEncrypt" "xy := PublicKeyBytes()[1:]; xy[:coordinateSize]; xy[coordinateSize:]" KSlice
    "NewPublicKey validated the point"
    (CArgued "the three slices are checked slices inside prim_ok (PEcies false ...) of the model; that they stay in range for every key the parser accepted (the point has 1+2c bytes: lemma ecies_pub_of_ok) is part of theorem C14_parser_and_constructor_never_panic, named here, not checked by the table (no functional form was written for this branch of prim_ok)");
  mkSite "hybrid/ecies/parameters.go" "package-level DEM parameter table" "panic(failed to create ... parameters)" KExplicitPanic
    "arguments are constants"
    (CArgued "no input");
  mkSite "hybrid/hpke/key.go" "NewPublicKey" "parameters.Variant() (nil *Parameters for API callers)" KNilDeref
    "parser passes the result of parseParameters (err checked)"
    (CArgued "parser passes a checked value");
  mkSite "hybrid/hpke/key.go" "validateXWingPublicKey / validateMLKEMPublicKey / NewPrivateKeyFromPublicKey" "mlkem.NewDecapsulationKey768/1024(seed), xwing.PublicFromSecret(sk)" KStdlib
    "both return errors for a wrong length (xwing: len != 32 checked first)"
    (CStdlib "mlkem_pub / xwing_pub of the record stdlib");
  mkSite "hybrid/internal/xwing/xwing.go" "Encapsulate / Decapsulate" "publicKey[:1184], publicKey[1184:]; ciphertext[:1088], ciphertext[1088:]" KSlice
    "if len(publicKey) != 1216 { error }; if len(ciphertext) != 1120 { error }"
    (CArgued "constant bounds behind an exact length test (use path, not parse path)");
  mkSite "jwt/jwtecdsa/protoserialization.go" "ParseKey (public / private)" "BigIntBytesToFixedSizeBuffer(x / y / key, c), slices.Concat(0x04, x, y)" KSlice
    "as ECDSA"
    (CArgued "as ECDSA: the slice inside fixed_size (own entry); lemmas parse_jwt_ecdsa_pub_np / parse_jwt_ecdsa_priv_np, named here, not checked by the table");
  mkSite "jwt/jwtecdsa/protoserialization.go:134" "publicKeyToProto (serializer)" "k.PublicPoint()[1:], xy[:coordinateSize], xy[coordinateSize:]" KSlice
    "no local test: a *PublicKey exists only through NewPublicKey, which validated the point with crypto/ecdh (len = 1+2c)"
    (CArgued "the length 1+2c is established by ANOTHER function (NewPublicKey: crypto/ecdh accepts only points of that length), not by a test in this one: no as-written body with the guard inside to state a lemma about; under zlen pt = 1+2c the three slices are in range (lemma point_coords_go_np, named here, not checked by the table)");
  mkSite "jwt/jwt*/key.go" "computeKID" "make([]byte, 4); binary.BigEndian.PutUint32(buf, idRequirement)" KMake
    "constant size"
    (CArgued "constant bounds");
  mkSite "jwt/jwt*/protoserialization.go" "ParseKey" "protoKey.GetCustomKid().GetValue() (nil CustomKid)" KNilDeref
    "getters; presence tested with GetCustomKid() != nil"
    (CArgued "getters; has_sub in the model; gen4.go kidChoice");
  mkSite "aead/aesctrhmac/protoserialization.go (and all symmetric parsers)" "ParseKey" "protoKey.GetAesCtrKey().GetParams().GetIvSize() on nil sub-messages" KNilDeref
    "getters"
    (CArgued "getters are total in the model: lemma absent_submessage_reads_as_defaults, named here, not checked by the table; the defaults (iv 0, tag 0) are then rejected by the size checks");
  mkSite "aead/*, mac/*, prf/*, daead/aessiv protoserialization.go" "ParseKey" "int(protoKey.GetParams().GetTagSize()), int(GetIvSize()), int(format.GetKeySize()) (uint32 -> int)" KIntConv
    "64-bit platform: lossless; the values are then compared with small constants / with len(key)"
    (CArgued "integer conversion: does not panic; lossless on the 64-bit platform of the check (32-bit: lemma int_of_u32_32bit_wrapped_is_negative, named here, not checked by the table)");
  mkSite "aead/aesgcm/key.go etc." "NewKey" "keyBytes.Len() != int(parameters.KeySizeInBytes())" KIntConv
    "KeySizeInBytes was validated to be 16 / 32 (24 rejected)"
    (CArgued "integer conversion of a validated small value");
  mkSite "streamingaead/aesctrhmac/protoserialization.go" "ParseKey" "int32(paramsProto.GetCiphertextSegmentSize()) (uint32 -> int32 wraps)" KIntConv
    "NewParameters: SegmentSizeInBytes < minCiphertextSegmentSize is an error, min > 0"
    (CArgued "integer conversion: wraps, does not panic; the comparison that follows is theorem C14_wrapping_conversions_are_rejected / lemma seg_check_ctr_go_is_model (named here, not checked by the table)");
  mkSite "streamingaead/aesctrhmac/parameters.go" "NewParameters" "int32(DerivedKeySizeInBytes + 7 + 1 + HmacTagSizeInBytes + 1) (int -> int32 wraps)" KIntConv
    "derived key size in {16, 32} and 10 <= tag <= 20/32/64 are checked BEFORE the sum is formed"
    (CArgued "integer conversion: wraps, does not panic; the comparison that follows is theorem C14_wrapping_conversions_are_rejected / lemma seg_check_ctr_go_sound (named here, not checked by the table)");
  mkSite "streamingaead/aesgcmhkdf/protoserialization.go, parameters.go" "ParseKey / validateOpts" "int32(paramsProto.GetCiphertextSegmentSize()); int32(DerivedKeySizeInBytes + 24 + 1)" KIntConv
    "derived key size in {16, 32} checked first; SegmentSizeInBytes < minSegmentSize is an error"
    (CArgued "integer conversion: wraps, does not panic; the comparison that follows is theorem C14_wrapping_conversions_are_rejected / lemma seg_check_gcm_go_sound (named here, not checked by the table)");
  mkSite "streamingaead/*/key.go" "primitive constructor" "int(params.SegmentSizeInBytes()), uint32(keyBytes.Len())" KIntConv
    "segment size > 0 after NewParameters; Len() is a length"
    (CArgued "integer conversions of validated positive values; the model's prim_ok has no Panic constructor for the stream keys");
  mkSite "secretdata/secretdata.go" "NewBytesFromData" "bytes.Clone(data)" KStdlib
    "total"
    (CArgued "identity on byte strings");
  (* ---- the PRF-based deriver key, the parameters parsers, the nested-key detours (model/UntrustedParams.v) ---- *)
  mkSite "keyderivation/prfbasedkeyderivation/protoserialization.go" "keyParser.ParseKey" "protoserialization.ParseKey(prfKeyProtoSerialization): the parser of WHATEVER key type prf_key names runs on attacker bytes (every slice of every key parser is reachable here, recursively through nested deriver / composite keys)" KSlice
    "NewParameters / NewKey refuse every key object that is not an aescmacprf / hkdfprf / hmacprf key AFTER the parser returned"
    (CArgued "the nested parser is whichever parser of model/Untrusted.v the type URL selects (or this one again): parse_key_x recurses on nested key data; that no nesting reaches Panic is theorem C14_nested_parsers_never_panic_and_agree (parse_key_x_np, parse_key_full_flat), named here, not checked by the table - the checked operations themselves have their own entries");
  mkSite "keyderivation/prfbasedkeyderivation/protoserialization.go" "keyParser.ParseKey / parametersParser.Parse" "protoserialization.ParseParameters(GetDerivedKeyTemplate()) / (GetPrfKeyTemplate()): the parameters parser of whatever type the template names, recursively (a deriver template inside a deriver template, an ECIES DEM template)" KNilDeref
    "templates are read through nil-safe getters (a nil template has the empty type URL: no parser, an error); the only checked operation inside the parameters parsers sits behind its nil test"
    (CArgued "no Panic to reach at this site in the model: template_of of an absent field is a total function (the empty type URL has no parser: Err); the parameters parsers themselves are the entry hybrid/ecies parseParameters / ParseParameters(demTemplate) above");
  mkSite "keyderivation/prfbasedkeyderivation/protoserialization.go" "keyParser.ParseKey" "prfKey.Parameters(), NewParameters(prfKey.Parameters(), derivedKeyParameters): method calls on interface values returned by ParseKey / ParseParameters" KNilDeref
    "err != nil returns before the value is used; every parser returns a non-nil object with a nil error"
    (CArgued "error checked first; in the model the results are outcome values bound with bind (Err stops the parser)");
  mkSite "keyderivation/prfbasedkeyderivation/parameters.go, key.go" "Parameters.HasIDRequirement / NewKey" "p.DerivedKeyParameters().HasIDRequirement(), parameters.PRFParameters().Equal(prfKey.Parameters()): method calls on the interface fields" KNilDeref
    "NewParameters: if prfParameters == nil / derivedKeyParameters == nil { return error }; NewKey: if parameters == nil / prfKey == nil { return error }"
    (CArgued "nil tests in NewParameters / NewKey, the only constructors of the two types; in the model QDeriver holds two params values (not optional ones) and params_has_idreq is total - there is no Panic constructor to reach, so no lemma is claimed");
  mkSite "keyderivation/prfbasedkeyderivation/keyderiver.go, protoserialization.go" "NewKeyDeriver / DeriveKey / SerializeKey" "key.PRFKey().(*hkdfprf.Key) with ', ok'; prfKey.Parameters().(*hkdfprf.Parameters), k.key.Parameters().(*Parameters), pbdKey.Parameters().(*Parameters)" KTypeAssert
    "the first is the two-value form; the others assert the type the constructor of the same package stored"
    (CArgued "checked assertion / static construction; prim_ok_x of the model refuses every PRF key that is not an HKDF key");
  mkSite "keyderivation/internal/keyderivers/keyderivers.go" "the eight key derivers" "make([]byte, params.KeySizeInBytes()) with the key_size of the (untrusted) derived key template" KMake
    "none in the derivers; KeySizeInBytes is int(uint32 field) as the parameters parser left it: the parsers of HMAC, HKDF-PRF, HMAC-PRF and AES-GCM-HKDF streaming put NO upper bound on it"
    (CArgued "PLATFORM ASSUMPTION, no lemma: make([]byte, n) panics (makeslice: len out of range) for n < 0 or n above the allocation limit; n = int(uint32) lies in [0, 2^32-1], which is below that limit on 64-bit platforms (no panic there: the run time maps up to 4 GiB and io.ReadFull then fails - see the note of checks/props/c14.py) and could be negative or too large on 32-bit platforms; the harness does not derive from templates above 1 MiB");
  mkSite "signature/compositemldsa/protoserialization.go" "parseMLDSAPublicKey / parseClassicalPublicKey / parseClassicalPrivateKey / privateKeyParser.ParseKey" "protoserialization.ParseKey on both nested KeyData: the parser of WHATEVER type they name runs first (a composite in a composite, a deriver ...), the type assertion / parameter comparison refuses the result afterwards" KSlice
    "if keyData == nil { return error } in front of each; every parser returns errors"
    (CArgued "as for the deriver: parse_composite_x hands both nested key data to parse_key_x (any type, recursively) and applies the type assertion / parameter comparison to the result; theorem C14_nested_parsers_never_panic_and_agree, named here, not checked by the table");
  mkSite "signature/rsassa{pkcs1,pss}, jwt/jwtrsassa{pkcs1,pss} protoserialization.go" "parametersParser.Parse / parseParameters" "int(exponent.Int64()) on the public_exponent of a key FORMAT" KIntConv
    "if !exponent.IsInt64() { return error } in front of it"
    (CArgued "integer conversion: truncates, does not panic; rsa_exponent in pp_rsa_pkcs1 / pp_rsa_pss / pp_jwt_rsa (None above 2^63-1); compared with the code on the exponent edges of params.go");
  mkSite "*/*/protoserialization.go (29 files)" "parametersParser.Parse" "int(format.GetKeySize()), int(GetTagSize()), int32(GetCiphertextSegmentSize()), int(GetSaltLength()) ... on the fields of a key format" KIntConv
    "the NewParameters of the package compares the converted value with its bounds"
    (CArgued "integer conversions: do not panic; uint32 -> int is lossless on the 64-bit platform of the check, int32(uint32) and int(int32) wrap and the comparison that follows rejects every wrapped value (the same NewParameters as on the key path: theorem C14_wrapping_conversions_are_rejected); directedParams puts every varint field of every format at 0, 2^31-1, 2^31, 2^32-1, 2^32, 2^63, 2^64-1")
].

(* Counts of the entries by constructor.  An entry of the first two kinds is a
   function with a switchable test such that the listed operation panics on
   some input with the test off and on none with it on (6 + 9 such functions);
   that these functions are the Go functions of the entries is reading.  The
   other three kinds carry no checked fact.  The numbers say nothing about the
   completeness of the list. *)
Theorem panic_site_coverage_counts :
  length panic_sites = 81%nat /\
  count by_model_theorem panic_sites = 6%nat /\
  count by_site_lemma panic_sites = 9%nat /\
  count argued_only panic_sites = 59%nat /\
  count is_stdlib panic_sites = 6%nat /\
  count is_harness_only panic_sites = 1%nat.
Proof. vm_compute. repeat split. Qed.

(* ---- the inhabitants the audits found for the EARLIER shapes, adapted to the
   guard-switch shape (the switch ignored), are refuted: each fails on
   `necessary` - with the real operation the function does not panic on any
   input, i.e. it contains no guard that is needed ---- *)
(* fifth audit, bogus_c: the raw operation applied to a harmless constant, no guard, the input never reaches it *)
Definition constant_index_F (_ : bool) (op : bytes * Z -> outcome N) (_ : unit) : outcome N := op ([0%N], 0%Z).
Goal ~ exists a, constant_index_F false index2 a = Panic.
Proof. intros [a H]. discriminate H. Qed.
Fail Definition bogus_c : site :=
  mkSite "any.go" "anything" "x[i] on attacker data, unguarded" KIndex "none"
    (CLemma index2 constant_index_F (ex_intro _ tt eq_refl) (fun _ => ltac:(discriminate))).
(* fifth audit, bogus_b: the CModel analogue, `same` by reflexivity *)
Definition constant_slice_F (_ : bool) (op : nat * nat * bytes -> outcome bytes) (_ : unit) : outcome bytes := op (0%nat, 0%nat, []).
Goal ~ exists a, constant_slice_F false slice3 a = Panic.
Proof. intros [a H]. discriminate H. Qed.
Fail Definition bogus_b : site :=
  mkSite "any.go" "anything" "b[attacker:]" KSlice "none"
    (CModel slice3 constant_slice_F (ex_intro _ tt eq_refl) (fun _ : unit => slice3 (0%nat, 0%nat, [])) (fun _ => eq_refl)
            (fun _ => ltac:(discriminate))).
(* fifth audit, bogus_d: BigIntBytesToFixedSizeBuffer over the MODEL's slice with every test deleted never panics,
   because the model subtracts in nat (that entry is now the CLemma over slice_z with Z arithmetic) *)
Definition fixed_size_noguard (_ : bool) (sl : nat * nat * bytes -> outcome bytes) (p : bytes * nat) : outcome bytes :=
  sl ((length (fst p) - snd p)%nat, length (fst p), fst p).
Goal ~ exists a, fixed_size_noguard false slice3 a = Panic.
Proof.
  intros [p H]. unfold fixed_size_noguard, slice3, slice in H. cbn [fst snd] in H.
  replace (Nat.leb (length (fst p) - snd p) (length (fst p))) with true in H by (symmetry; apply PeanoNat.Nat.leb_le, PeanoNat.Nat.le_sub_l).
  rewrite PeanoNat.Nat.leb_refl in H. discriminate H.
Qed.
(* fourth audit, bogus1: a function that has nothing to do with the operation *)
Definition unrelated_F (_ : bool) (_ : option template -> outcome template) (_ : unit) : outcome unit := Err.
Goal ~ exists a, unrelated_F false set_prefix_raw a = Panic.
Proof. intros [a H]. discriminate H. Qed.
Fail Definition bogus1 : site :=
  mkSite "any.go" "anything" "x[i] on attacker data, unguarded" KIndex "none"
    (CModel set_prefix_raw unrelated_F (ex_intro _ tt eq_refl) (fun _ : unit => @Err unit) (fun _ => eq_refl) (fun _ => ltac:(discriminate))).
