(* Proofs about model/SlhdsaWots.v: the address-threading Go-shaped functions
   compute the FIPS-shaped functions of model/SlhdsaSpec.v; chain
   composition; WOTS+ completeness (pkFromSig ∘ sign = pkGen). *)
From Coq Require Import List NArith Bool Arith Lia ZifyN ZifyNat.
From Tink Require Import Bytes SlhdsaSupport SlhdsaAddr SlhdsaBase SlhdsaWots SlhdsaSpec SlhdsaListProofs SlhdsaSupportProofs.
Import ListNotations.
Open Scope N_scope.

(* addresses that agree on everything but the last word / the last two words / layer and tree only *)
Definition eq3 (a b : address) : Prop :=
  a_layer a = a_layer b /\ a_tree a = a_tree b /\ a_typ a = a_typ b /\ a_kp a = a_kp b /\ a_w2 a = a_w2 b.
Definition eq23 (a b : address) : Prop :=
  a_layer a = a_layer b /\ a_tree a = a_tree b /\ a_typ a = a_typ b /\ a_kp a = a_kp b.
Definition eqlt (a b : address) : Prop := a_layer a = a_layer b /\ a_tree a = a_tree b.

Lemma eq3_eq23 a b : eq3 a b -> eq23 a b.
Proof. unfold eq3, eq23; tauto. Qed.
Lemma eq23_eqlt a b : eq23 a b -> eqlt a b.
Proof. unfold eqlt, eq23; tauto. Qed.
Lemma eq23_refl a : eq23 a a.
Proof. unfold eq23; tauto. Qed.
Lemma eq23_trans a b c : eq23 a b -> eq23 b c -> eq23 a c.
Proof. unfold eq23; intuition congruence. Qed.
Lemma eqlt_refl a : eqlt a a.
Proof. unfold eqlt; tauto. Qed.
Lemma eqlt_trans a b c : eqlt a b -> eqlt b c -> eqlt a c.
Proof. unfold eqlt; intuition congruence. Qed.

(* the laws of the hash functions the structural theorems need: output lengths *)
Record hashes_ok (P : params) (HS : hashes) : Prop := {
  hF_len : forall pk ad x, length (hF HS pk ad x) = p_n P;
  hH_len : forall pk ad x, length (hH HS pk ad x) = p_n P;
  hTl_len : forall pk ad x, length (hTl HS pk ad x) = p_n P;
  hPrf_len : forall pk sk ad, length (hPrf HS pk sk ad) = p_n P;
  hPrfMsg_len : forall sk r m, length (hPrfMsg HS sk r m) = p_n P
}.

Section WOTS.
  Variable P : params.
  Variable HS : hashes.
  Notation n := (p_n P).

  (* ---------- chain ---------- *)
  Lemma chain_fst : forall s x i pk ad, a_typ ad = T_WOTSHASH ->
    fst (chain HS x i s pk ad) = chainS HS (a_layer ad) (a_tree ad) (a_kp ad) (a_w2 ad) pk x i s.
  Proof.
    induction s as [|s IH]; intros x i pk ad Ht; simpl; auto.
    rewrite IH by (simpl; auto). destruct ad; simpl in *; subst; reflexivity.
  Qed.

  Lemma chain_snd : forall s x i pk ad, eq3 (snd (chain HS x i s pk ad)) ad.
  Proof.
    induction s as [|s IH]; intros x i pk ad; simpl.
    - unfold eq3; tauto.
    - specialize (IH (hF HS pk (setHashAddress i ad) x) (i + 1) pk (setHashAddress i ad)).
      unfold eq3 in *; simpl in *; tauto.
  Qed.

  (* running a steps from i and then b steps from i+a = a+b steps from i
     (as coded, address left behind included) *)
  Lemma chain_compose : forall a b x i pk ad,
    chain HS (fst (chain HS x i a pk ad)) (i + N.of_nat a) b pk (snd (chain HS x i a pk ad))
    = chain HS x i (a + b) pk ad.
  Proof.
    induction a as [|a IH]; intros b x i pk ad.
    - simpl. rewrite N.add_0_r. reflexivity.
    - cbn [chain Nat.add]. rewrite <- IH. f_equal. lia.
  Qed.

  Lemma chainS_compose : forall a b l t kp c pk x i,
    chainS HS l t kp c pk (chainS HS l t kp c pk x i a) (i + N.of_nat a) b = chainS HS l t kp c pk x i (a + b).
  Proof.
    induction a as [|a IH]; intros; simpl.
    - rewrite N.add_0_r. reflexivity.
    - rewrite <- IH. f_equal. lia.
  Qed.

  Lemma chainS_length : forall s l t kp c pk x i, (forall pk ad x, length (hF HS pk ad x) = n) ->
    length x = n -> length (chainS HS l t kp c pk x i s) = n.
  Proof. induction s; intros; simpl; auto. Qed.

  (* ---------- wotsPkGen ---------- *)
  Definition skA_ok (skA ad : address) : Prop :=
    a_layer skA = a_layer ad /\ a_tree skA = a_tree ad /\ a_typ skA = T_WOTSPRF /\ a_kp skA = a_kp ad /\ a_w3 skA = 0.

  Lemma wotsPkGen_loop_spec : forall cnt i sk pk skA ad tmp,
    a_typ ad = T_WOTSHASH -> skA_ok skA ad ->
    fst (wotsPkGen_loop P HS cnt i sk pk skA ad tmp)
    = tmp ++ flat_map (fun i => chainS HS (a_layer ad) (a_tree ad) (a_kp ad) (N.of_nat i) pk
                                  (wotsSkS HS (a_layer ad) (a_tree ad) (a_kp ad) sk pk i) 0 (p_w P - 1)) (seq i cnt)
    /\ eq23 (snd (wotsPkGen_loop P HS cnt i sk pk skA ad tmp)) ad.
  Proof.
    induction cnt as [|cnt IH]; intros i sk pk skA ad tmp Ht Hs.
    - simpl. rewrite app_nil_r. split; [reflexivity|apply eq23_refl].
    - cbn [wotsPkGen_loop seq flat_map].
      set (ch := chain HS _ 0 _ pk _). rewrite (surjective_pairing ch).
      pose proof (chain_snd (p_w P - 1) (hPrf HS pk sk (setChainAddress (N.of_nat i) skA)) 0 pk
                    (setChainAddress (N.of_nat i) ad)) as E. fold ch in E.
      assert (E' : eq23 (snd ch) ad) by (unfold eq3, eq23 in *; simpl in *; tauto).
      destruct (IH (S i) sk pk (setChainAddress (N.of_nat i) skA) (snd ch) (tmp ++ fst ch)) as [A B].
      + unfold eq23 in E'. rewrite (proj1 (proj2 (proj2 E'))). exact Ht.
      + unfold skA_ok, eq23 in *; simpl; intuition congruence.
      + split; [|eapply eq23_trans; eauto].
        rewrite A. rewrite <- app_assoc. f_equal. f_equal.
        * unfold ch. rewrite chain_fst by (simpl; auto).
          unfold wotsSkS. unfold skA_ok in Hs. destruct ad, skA; simpl in *.
          destruct Hs as (? & ? & ? & ? & ?); subst. reflexivity.
        * unfold eq23 in E'. destruct E' as (e1 & e2 & e3 & e4). rewrite e1, e2, e4. reflexivity.
  Qed.

  Lemma wotsPkGen_spec : forall sk pk ad, a_typ ad = T_WOTSHASH ->
    fst (wotsPkGen P HS sk pk ad) = wotsPkGenS P HS (a_layer ad) (a_tree ad) (a_kp ad) sk pk
    /\ eq23 (snd (wotsPkGen P HS sk pk ad)) ad.
  Proof.
    intros sk pk ad Ht. unfold wotsPkGen.
    set (lp := wotsPkGen_loop P HS _ 0 sk pk _ ad []). rewrite (surjective_pairing lp).
    destruct (wotsPkGen_loop_spec (p_len P) 0 sk pk
                (setKeyPairAddress (keyPairAddress ad) (setTypeAndClear T_WOTSPRF ad)) ad [] Ht) as [A B].
    { unfold skA_ok; simpl; tauto. }
    fold lp in A, B. simpl. split; [|exact B].
    rewrite A. simpl. unfold wotsPkGenS. f_equal.
    unfold eq23 in B. destruct B as (e1 & e2 & e3 & e4).
    unfold setKeyPairAddress, setTypeAndClear, keyPairAddress. simpl. rewrite e1, e2, e4. reflexivity.
  Qed.

  (* ---------- wotsSign ---------- *)
  Lemma wotsSign_loop_spec : forall cnt i msgw sk pk skA ad sig,
    a_typ ad = T_WOTSHASH -> skA_ok skA ad ->
    fst (wotsSign_loop HS cnt i msgw sk pk skA ad sig)
    = sig ++ flat_map (fun i => chainS HS (a_layer ad) (a_tree ad) (a_kp ad) (N.of_nat i) pk
                                  (wotsSkS HS (a_layer ad) (a_tree ad) (a_kp ad) sk pk i) 0 (N.to_nat (nth i msgw 0)))
                      (seq i cnt)
    /\ eq23 (snd (wotsSign_loop HS cnt i msgw sk pk skA ad sig)) ad.
  Proof.
    induction cnt as [|cnt IH]; intros i msgw sk pk skA ad sig Ht Hs.
    - simpl. rewrite app_nil_r. split; [reflexivity|apply eq23_refl].
    - cbn [wotsSign_loop seq flat_map].
      set (ch := chain HS _ 0 _ pk _). rewrite (surjective_pairing ch).
      pose proof (chain_snd (N.to_nat (nth i msgw 0)) (hPrf HS pk sk (setChainAddress (N.of_nat i) skA)) 0 pk
                    (setChainAddress (N.of_nat i) ad)) as E. fold ch in E.
      assert (E' : eq23 (snd ch) ad) by (unfold eq3, eq23 in *; simpl in *; tauto).
      destruct (IH (S i) msgw sk pk (setChainAddress (N.of_nat i) skA) (snd ch) (sig ++ fst ch)) as [A B].
      + unfold eq23 in E'. rewrite (proj1 (proj2 (proj2 E'))). exact Ht.
      + unfold skA_ok, eq23 in *; simpl; intuition congruence.
      + split; [|eapply eq23_trans; eauto].
        rewrite A. rewrite <- app_assoc. f_equal. f_equal.
        * unfold ch. rewrite chain_fst by (simpl; auto).
          unfold wotsSkS. unfold skA_ok in Hs. destruct ad, skA; simpl in *.
          destruct Hs as (? & ? & ? & ? & ?); subst. reflexivity.
        * unfold eq23 in E'. destruct E' as (e1 & e2 & e3 & e4). rewrite e1, e2, e4. reflexivity.
  Qed.

  Lemma wotsSign_spec : forall msg sk pk ad, a_typ ad = T_WOTSHASH ->
    fst (wotsSign P HS msg sk pk ad)
    = wotsSignS P HS (a_layer ad) (a_tree ad) (a_kp ad) (wotsChecksum P msg) sk pk
    /\ eq23 (snd (wotsSign P HS msg sk pk ad)) ad.
  Proof.
    intros msg sk pk ad Ht. unfold wotsSign.
    destruct (wotsSign_loop_spec (p_len P) 0 (wotsChecksum P msg) sk pk
                (setKeyPairAddress (keyPairAddress ad) (setTypeAndClear T_WOTSPRF ad)) ad [] Ht) as [A B].
    { unfold skA_ok; simpl; tauto. }
    split; [|exact B]. rewrite A. reflexivity.
  Qed.

  (* ---------- wotsPkFromSig ---------- *)
  Lemma wotsPkFromSig_loop_spec : forall cnt i msgw sig pk ad tmp,
    a_typ ad = T_WOTSHASH ->
    fst (wotsPkFromSig_loop P HS cnt i msgw sig pk ad tmp)
    = tmp ++ flat_map (fun i => let mi := nth i msgw 0 in
                                chainS HS (a_layer ad) (a_tree ad) (a_kp ad) (N.of_nat i) pk (chunk P i sig) mi
                                       (N.to_nat (N.of_nat (p_w P) - 1 - mi))) (seq i cnt)
    /\ eq23 (snd (wotsPkFromSig_loop P HS cnt i msgw sig pk ad tmp)) ad.
  Proof.
    induction cnt as [|cnt IH]; intros i msgw sig pk ad tmp Ht.
    - simpl. rewrite app_nil_r. split; [reflexivity|apply eq23_refl].
    - cbn [wotsPkFromSig_loop seq flat_map].
      set (ch := chain HS _ _ _ pk _). rewrite (surjective_pairing ch).
      pose proof (chain_snd (N.to_nat (N.of_nat (p_w P) - 1 - nth i msgw 0))
                    (firstn n (skipn (i * n) sig)) (nth i msgw 0) pk (setChainAddress (N.of_nat i) ad)) as E.
      fold ch in E.
      assert (E' : eq23 (snd ch) ad) by (unfold eq3, eq23 in *; simpl in *; tauto).
      destruct (IH (S i) msgw sig pk (snd ch) (tmp ++ fst ch)) as [A B].
      + unfold eq23 in E'. rewrite (proj1 (proj2 (proj2 E'))). exact Ht.
      + split; [|eapply eq23_trans; eauto].
        rewrite A. rewrite <- app_assoc. f_equal. f_equal.
        * unfold ch. rewrite chain_fst by (simpl; auto). reflexivity.
        * unfold eq23 in E'. destruct E' as (e1 & e2 & e3 & e4). rewrite e1, e2, e4. reflexivity.
  Qed.

  Lemma wotsPkFromSig_spec : forall sig msg pk ad, a_typ ad = T_WOTSHASH ->
    fst (wotsPkFromSig P HS sig msg pk ad)
    = wotsPkFromSigS P HS (a_layer ad) (a_tree ad) (a_kp ad) (wotsChecksum P msg) sig pk
    /\ eq23 (snd (wotsPkFromSig P HS sig msg pk ad)) ad.
  Proof.
    intros sig msg pk ad Ht. unfold wotsPkFromSig.
    set (lp := wotsPkFromSig_loop P HS _ 0 _ sig pk ad []). rewrite (surjective_pairing lp).
    destruct (wotsPkFromSig_loop_spec (p_len P) 0 (wotsChecksum P msg) sig pk ad [] Ht) as [A B].
    fold lp in A, B. simpl. split; [|exact B].
    rewrite A. simpl. unfold wotsPkFromSigS. f_equal.
    unfold eq23 in B. destruct B as (e1 & e2 & e3 & e4).
    unfold setKeyPairAddress, setTypeAndClear, keyPairAddress. simpl. rewrite e1, e2, e4. reflexivity.
  Qed.

  (* ---------- digits ---------- *)
  Lemma p_w_N : N.of_nat (p_w P) = 2 ^ N.of_nat (p_lgw P).
  Proof. unfold p_w. rewrite Nat2N.inj_pow. reflexivity. Qed.

  Lemma wotsChecksum_digit : forall msg i, nth i (wotsChecksum P msg) 0 <= N.of_nat (p_w P) - 1.
  Proof.
    intros msg i. unfold wotsChecksum.
    assert (H : Forall (fun d => d < 2 ^ N.of_nat (p_lgw P))
                  (base2b msg (p_lgw P) (p_len1 P) ++
                   base2b (toByte (u32 (N.shiftl (csum_of P (base2b msg (p_lgw P) (p_len1 P)))
                       (N.of_nat ((8 - (p_len2 P * p_lgw P) mod 8) mod 8)))) ((p_len2 P * p_lgw P + 7) / 8))
                     (p_lgw P) (p_len2 P))).
    { apply Forall_app. split; apply base2b_lt. }
    rewrite p_w_N.
    destruct (Nat.lt_ge_cases i (length (base2b msg (p_lgw P) (p_len1 P) ++
        base2b (toByte (u32 (N.shiftl (csum_of P (base2b msg (p_lgw P) (p_len1 P)))
           (N.of_nat ((8 - (p_len2 P * p_lgw P) mod 8) mod 8)))) ((p_len2 P * p_lgw P + 7) / 8)) (p_lgw P) (p_len2 P)))) as [Hi|Hi].
    - rewrite Forall_forall in H. specialize (H _ (nth_In _ 0 Hi)). cbv beta in H. lia.
    - rewrite nth_overflow by lia. assert (0 < 2 ^ N.of_nat (p_lgw P)) by (apply N.neq_0_lt_0, N.pow_nonzero; lia). lia.
  Qed.

  (* ---------- WOTS+ completeness ---------- *)
  Lemma wotsSignS_length : hashes_ok P HS -> forall l t kp msgw sk pk,
    length (wotsSignS P HS l t kp msgw sk pk) = (p_len P * n)%nat.
  Proof.
    intros OK l t kp msgw sk pk. unfold wotsSignS. apply flat_map_seq_length.
    intros i _. apply chainS_length; [apply (hF_len _ _ OK)|apply (hPrf_len _ _ OK)].
  Qed.

  Theorem wotsS_complete : hashes_ok P HS -> forall l t kp msgw sk pk,
    (forall i, nth i msgw 0 <= N.of_nat (p_w P) - 1) ->
    wotsPkFromSigS P HS l t kp msgw (wotsSignS P HS l t kp msgw sk pk) pk = wotsPkGenS P HS l t kp sk pk.
  Proof.
    intros OK l t kp msgw sk pk Hd. unfold wotsPkFromSigS, wotsPkGenS. f_equal.
    apply flat_map_seq_ext. intros i Hi. cbv zeta.
    unfold chunk, wotsSignS.
    rewrite <- (app_nil_r (flat_map _ (seq 0 (p_len P)))).
    rewrite chunk_flat_map_seq; [|intros j _; apply chainS_length; [apply (hF_len _ _ OK)|apply (hPrf_len _ _ OK)]|lia].
    simpl.
    pose proof (chainS_compose (N.to_nat (nth i msgw 0)) (N.to_nat (N.of_nat (p_w P) - 1 - nth i msgw 0))
                  l t kp (N.of_nat i) pk (wotsSkS HS l t kp sk pk i) 0) as C.
    rewrite N.add_0_l, N2Nat.id in C. rewrite C. f_equal.
    specialize (Hd i). unfold p_w in *. lia.
  Qed.

  (* the same on the Go-shaped functions, for every three addresses of type
     WOTS_HASH that agree on layer, tree and key pair *)
  Theorem wots_complete : hashes_ok P HS -> forall msg sk pk ad ad1 ad2,
    a_typ ad = T_WOTSHASH -> eq23 ad1 ad -> eq23 ad2 ad ->
    fst (wotsPkFromSig P HS (fst (wotsSign P HS msg sk pk ad)) msg pk ad1) = fst (wotsPkGen P HS sk pk ad2).
  Proof.
    intros OK msg sk pk ad ad1 ad2 Ht (a1 & a2 & a3 & a4) (b1 & b2 & b3 & b4).
    rewrite (proj1 (wotsPkFromSig_spec _ _ _ ad1 ltac:(congruence))).
    rewrite (proj1 (wotsSign_spec _ _ _ ad Ht)).
    rewrite (proj1 (wotsPkGen_spec _ _ ad2 ltac:(congruence))).
    rewrite a1, a2, a4, b1, b2, b4. apply wotsS_complete; auto. apply wotsChecksum_digit.
  Qed.
End WOTS.

(* ---------- the checksum digits (FIPS 205 Algorithm 7, lines 3-8 / eq. 5.1-5.4) ---------- *)
Section CHECKSUM.
  Variable P : params.

  (* the checksum over N (no wrap) *)
  Definition csum_spec (msgb : list N) : N :=
    fold_left (fun c d => c + (N.of_nat (p_w P) - 1 - d)) msgb 0.

  Lemma csum_fold_spec : forall msgb acc,
    Forall (fun d => d <= N.of_nat (p_w P) - 1) msgb -> (1 <= p_w P)%nat ->
    acc + N.of_nat (length msgb) * (N.of_nat (p_w P) - 1) < 2 ^ 32 ->
    fold_left (fun c d => u32 (c + N.of_nat (p_w P) - 1 - d)) msgb acc
    = fold_left (fun c d => c + (N.of_nat (p_w P) - 1 - d)) msgb acc
    /\ fold_left (fun c d => c + (N.of_nat (p_w P) - 1 - d)) msgb acc <= acc + N.of_nat (length msgb) * (N.of_nat (p_w P) - 1).
  Proof.
    induction msgb as [|d msgb IH]; intros acc Hd Hw Hb.
    - simpl. split; [reflexivity|lia].
    - inversion Hd; subst. cbn [fold_left].
      assert (E : u32 (acc + N.of_nat (p_w P) - 1 - d) = acc + (N.of_nat (p_w P) - 1 - d)).
      { unfold u32. change 4294967296 with (2 ^ 32). rewrite N.mod_small; [lia|].
        cbn [length] in Hb. nia. }
      rewrite E. destruct (IH (acc + (N.of_nat (p_w P) - 1 - d)) H2 Hw) as [A B].
      + cbn [length] in Hb. nia.
      + split; [exact A|]. cbn [length]. nia.
  Qed.

  (* len2 digits are enough for the largest checksum len1*(w-1) *)
  Lemma len2_enough : (1 <= p_lgw P)%nat ->
    (p_len1 P * (p_w P - 1) < 2 ^ (p_len2 P * p_lgw P))%nat.
  Proof.
    intros Hl. unfold p_len2. set (X := (p_len1 P * (p_w P - 1))%nat).
    destruct (Nat.eq_dec X 0) as [E|E].
    - rewrite E. apply Nat.neq_0_lt_0. apply Nat.pow_nonzero. lia.
    - pose proof (Nat.log2_spec X ltac:(lia)) as [_ Hs].
      eapply Nat.lt_le_trans; [exact Hs|]. apply Nat.pow_le_mono_r; [lia|].
      pose proof (Nat.div_mod (Nat.log2 X) (p_lgw P) ltac:(lia)) as D.
      pose proof (Nat.mod_upper_bound (Nat.log2 X) (p_lgw P) ltac:(lia)) as U. nia.
  Qed.

  (* ceil(L/8)*8 - L = (8 - L mod 8) mod 8 *)
  Lemma pad_shift L : (8 * ((L + 7) / 8) - L = (8 - L mod 8) mod 8)%nat /\ (L <= 8 * ((L + 7) / 8))%nat.
  Proof.
    pose proof (Nat.div_mod L 8 ltac:(lia)) as D. pose proof (Nat.mod_upper_bound L 8 ltac:(lia)) as U.
    set (q := (L / 8)%nat) in *. set (r := (L mod 8)%nat) in *.
    destruct (Nat.eq_dec r 0) as [E|E].
    - rewrite E in *. assert (Q : ((L + 7) / 8 = q)%nat).
      { symmetry. apply (Nat.div_unique (L + 7) 8 q 7); lia. }
      rewrite Q. simpl ((8 - 0) mod 8)%nat. lia.
    - assert (Q : ((L + 7) / 8 = q + 1)%nat).
      { symmetry. apply (Nat.div_unique (L + 7) 8 (q + 1) (r - 1)); lia. }
      rewrite Q. rewrite (Nat.mod_small (8 - r) 8) by lia. lia.
  Qed.

  (* wotsChecksum = message digits ++ exactly len2 digits whose base-w value is the
     checksum  sum_i (w - 1 - msg_i): the shift, toByte and base_2^b steps lose nothing *)
  Theorem wotsChecksum_value : (1 <= p_lgw P <= 25)%nat -> (p_len2 P * p_lgw P <= 32)%nat -> forall msg,
    exists cs, wotsChecksum P msg = base2b msg (p_lgw P) (p_len1 P) ++ cs
      /\ length cs = p_len2 P
      /\ Forall (fun d => d < 2 ^ N.of_nat (p_lgw P)) cs
      /\ digits_val (p_lgw P) cs = csum_spec (base2b msg (p_lgw P) (p_len1 P)).
  Proof.
    intros Hl H32 msg. unfold wotsChecksum.
    set (msgb := base2b msg (p_lgw P) (p_len1 P)).
    set (L := (p_len2 P * p_lgw P)%nat) in *.
    destruct (pad_shift L) as [Esh HL]. set (nb := ((L + 7) / 8)%nat) in *.
    set (sh := ((8 - L mod 8) mod 8)%nat) in *.
    eexists. split; [reflexivity|]. split; [apply base2b_length|]. split; [apply base2b_lt|].
    (* the checksum does not wrap and is below 2^L *)
    assert (Hw1 : (1 <= p_w P)%nat) by (unfold p_w; apply Nat.neq_0_lt_0, Nat.pow_nonzero; lia).
    assert (Hdig : Forall (fun d => d <= N.of_nat (p_w P) - 1) msgb).
    { pose proof (base2b_lt msg (p_lgw P) (p_len1 P)) as F. fold msgb in F.
      eapply Forall_impl; [|exact F]. cbv beta. intros d Hd. rewrite p_w_N.
      assert (0 < 2 ^ N.of_nat (p_lgw P)) by (apply N.neq_0_lt_0, N.pow_nonzero; lia). lia. }
    assert (Hmax : N.of_nat (length msgb) * (N.of_nat (p_w P) - 1) < 2 ^ N.of_nat L).
    { unfold msgb. rewrite base2b_length. pose proof (len2_enough ltac:(lia)) as E. fold L in E.
      assert (E' : N.of_nat (p_len1 P * (p_w P - 1)) < N.of_nat (2 ^ L)) by lia.
      rewrite Nat2N.inj_mul, Nat2N.inj_sub, Nat2N.inj_pow in E'. exact E'. }
    assert (HL32 : 2 ^ N.of_nat L <= 2 ^ 32) by (apply N.pow_le_mono_r; lia).
    destruct (csum_fold_spec msgb 0 Hdig Hw1 ltac:(lia)) as [A B].
    unfold csum_of. rewrite A. fold (csum_spec msgb) in *. rewrite N.add_0_l in B.
    set (c := csum_spec msgb) in *.
    assert (Hc : c < 2 ^ N.of_nat L) by lia.
    (* shifted checksum: exact, below 2^(8 nb) <= 2^32 *)
    assert (E8 : (8 * nb = L + sh)%nat) by lia.
    assert (Hpow : 2 ^ N.of_nat (8 * nb) = 2 ^ N.of_nat L * 2 ^ N.of_nat sh)
      by (rewrite E8, Nat2N.inj_add, N.pow_add_r; reflexivity).
    assert (Hnb : (8 * nb <= 32)%nat).
    { unfold nb. pose proof (Nat.div_mod (L + 7) 8 ltac:(lia)). pose proof (Nat.mod_upper_bound (L + 7) 8 ltac:(lia)). lia. }
    assert (Hsh0 : 0 < 2 ^ N.of_nat sh) by (apply N.neq_0_lt_0, N.pow_nonzero; lia).
    assert (Hcs : c * 2 ^ N.of_nat sh < 2 ^ N.of_nat (8 * nb)) by (rewrite Hpow; nia).
    assert (H832 : 2 ^ N.of_nat (8 * nb) <= 2 ^ 32) by (apply N.pow_le_mono_r; lia).
    assert (Eu : u32 (N.shiftl c (N.of_nat sh)) = c * 2 ^ N.of_nat sh).
    { rewrite N.shiftl_mul_pow2. unfold u32. change 4294967296 with (2 ^ 32). apply N.mod_small. lia. }
    rewrite Eu.
    destruct (base2b_value (toByte (c * 2 ^ N.of_nat sh) nb) (p_lgw P) (p_len2 P)) as [V _].
    { apply be_bytes_wf. } { lia. } { unfold toByte. rewrite be_bytes_length. fold L. lia. }
    rewrite V. unfold toByte at 1 2. rewrite be_bytes_length, be_val_be_bytes.
    fold L. replace (8 * nb - L)%nat with sh by lia.
    assert (E1 : u32 (c * 2 ^ N.of_nat sh) = c * 2 ^ N.of_nat sh).
    { unfold u32. change 4294967296 with (2 ^ 32). apply N.mod_small. lia. }
    rewrite E1. rewrite pw_256 by idtac. unfold pw. rewrite N.mod_small by exact Hcs.
    apply N.div_mul. lia.
  Qed.
End CHECKSUM.
