(* Stretch (C02): the mutation classes named by the property ("any bit flipped, any
   truncation or extension, another prefix, different associated data"), as relations on
   (ciphertext, associated data) pairs, and the list surgery shared by the per-scheme
   mutation theorems (EtMProofs2.v, AeadFrameProofs2.v). *)
From Coq Require Import List NArith Bool Arith Lia ZifyN ZifyNat ZifyBool.
From Tink Require Import Bytes AeadFrame AeadFrameProofs.
Import ListNotations.
Open Scope N_scope.

(* ---- the mutation classes of the property, as relations on (ciphertext, AD) ---- *)
(* byte i replaced by b (a bit flip is the case b = c[i] xor 2^j) *)
Definition set_nth (i : nat) (b : N) (c : bytes) : bytes := firstn i c ++ b :: skipn (S i) c.

Lemma set_nth_length i b c : (i < length c)%nat -> length (set_nth i b c) = length c.
Proof.
  intros H. unfold set_nth. rewrite app_length, firstn_length. cbn [length]. rewrite skipn_length. lia.
Qed.

Lemma nth_set_nth i b c : (i < length c)%nat -> nth i (set_nth i b c) 0 = b.
Proof.
  intros H. unfold set_nth. rewrite app_nth2 by (rewrite firstn_length; lia).
  rewrite firstn_length. replace (i - Nat.min i (length c))%nat with 0%nat by lia. reflexivity.
Qed.

Lemma set_nth_differs i b c : (i < length c)%nat -> nth i c 0 <> b -> set_nth i b c <> c.
Proof. intros H Hb E. apply Hb. rewrite <- E at 1. apply nth_set_nth. exact H. Qed.

(* flipping bit j of byte i *)
Definition flip_bit (i : nat) (j : N) (c : bytes) : bytes := set_nth i (N.lxor (nth i c 0) (2 ^ j)) c.

Lemma flip_bit_differs i j c : (i < length c)%nat -> flip_bit i j c <> c.
Proof.
  intros H. apply set_nth_differs; [exact H|]. intros E.
  assert (H0 : N.lxor (nth i c 0) (N.lxor (nth i c 0) (2 ^ j)) = 0) by (rewrite <- E; apply N.lxor_nilpotent).
  rewrite <- N.lxor_assoc, N.lxor_nilpotent, N.lxor_0_l in H0.
  assert (0 < 2 ^ j) by (apply N.neq_0_lt_0, N.pow_nonzero; discriminate). lia.
Qed.

Inductive mutant (c ad : bytes) : bytes -> bytes -> Prop :=
| MutByte i b : (i < length c)%nat -> nth i c 0 <> b -> mutant c ad (set_nth i b c) ad   (* flip / overwrite *)
| MutCut n : (n < length c)%nat -> mutant c ad (firstn n c) ad                          (* truncation *)
| MutFront n : (0 < n <= length c)%nat -> mutant c ad (skipn n c) ad                    (* prefix stripped *)
| MutExt s : s <> [] -> mutant c ad (c ++ s) ad                                         (* extension *)
| MutAd ad' : ad' <> ad -> mutant c ad c ad'                                            (* other AD *)
| MutBoth c' ad' : c' <> c -> mutant c ad c' ad'.                                       (* anything else *)

Lemma mutant_differs c ad c' ad' : mutant c ad c' ad' -> (c', ad') <> (c, ad).
Proof.
  intros M E. inversion E as [[Ec Ea]]. destruct M as [i b Hi Hb|n Hn|n Hn|s Hs|ad' Ha|c' ad' Hc].
  - exact (set_nth_differs i b c Hi Hb Ec).
  - apply (f_equal (@length N)) in Ec. rewrite firstn_length in Ec. lia.
  - apply (f_equal (@length N)) in Ec. rewrite skipn_length in Ec. lia.
  - apply (f_equal (@length N)) in Ec. rewrite app_length in Ec. destruct s; [congruence|cbn [length] in Ec; lia].
  - congruence.
  - congruence.
Qed.

Lemma differs_mutant c ad c' ad' : (c', ad') <> (c, ad) -> ad' = ad \/ ad' <> ad ->
  mutant c ad c' ad'.
Proof.
  intros H [E|E].
  - subst ad'. apply MutBoth. intros ->. apply H. reflexivity.
  - destruct (list_eq_dec N.eq_dec c' c) as [->|Hc]; [apply MutAd; exact E|apply MutBoth; exact Hc].
Qed.


(* ---- list surgery: where a one-byte change / a cut lands in  a ++ b ---- *)
Lemma set_nth_app_l i b (x y : bytes) : (i < length x)%nat -> set_nth i b (x ++ y) = set_nth i b x ++ y.
Proof.
  intros H. unfold set_nth. rewrite firstn_app, skipn_app.
  replace (i - length x)%nat with 0%nat by lia. replace (S i - length x)%nat with 0%nat by lia.
  cbn [firstn skipn]. rewrite app_nil_r, <- app_assoc. reflexivity.
Qed.

Lemma set_nth_app_r i b (x y : bytes) : (length x <= i)%nat -> set_nth i b (x ++ y) = x ++ set_nth (i - length x) b y.
Proof.
  intros H. unfold set_nth. rewrite firstn_app, skipn_app.
  rewrite (firstn_all2 (n := i) x) by lia. rewrite (skipn_all2 (n := S i) x) by lia.
  replace (S i - length x)%nat with (S (i - length x)) by lia. cbn [app]. rewrite <- app_assoc. reflexivity.
Qed.

Lemma nth_app_l_bytes i (x y : bytes) : (i < length x)%nat -> nth i (x ++ y) 0 = nth i x 0.
Proof. intros H. apply app_nth1. exact H. Qed.

Lemma nth_app_r_bytes i (x y : bytes) : (length x <= i)%nat -> nth i (x ++ y) 0 = nth (i - length x) y 0.
Proof. intros H. apply app_nth2. lia. Qed.

Lemma firstn_app_r {A} n (x y : list A) : (length x <= n)%nat -> firstn n (x ++ y) = x ++ firstn (n - length x) y.
Proof. intros H. rewrite firstn_app, firstn_all2 by lia. reflexivity. Qed.

Lemma app_inv_prefix_len {A} (a a' b b' : list A) : length a = length a' -> a ++ b = a' ++ b' -> a = a' /\ b = b'.
Proof.
  intros Hl H. split.
  - apply (f_equal (firstn (length a))) in H. rewrite firstn_app_exact in H. rewrite Hl, firstn_app_exact in H. exact H.
  - apply (f_equal (skipn (length a))) in H. rewrite skipn_app_exact in H. rewrite Hl, skipn_app_exact in H. exact H.
Qed.
