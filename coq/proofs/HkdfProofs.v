(* Facts about the RFC 5869 transcription model/Hkdf.v: output length, the
   prefix law of expand, the 255-block limit, empty salt = HashLen zero bytes. *)
From Coq Require Import List NArith Bool Arith Lia.
From Tink Require Import Bytes Hmac Hkdf HmacProofs.
Import ListNotations.
Open Scope N_scope.

Lemma firstn_app_le {A} n (a b : list A) : (n <= length a)%nat -> firstn n (a ++ b) = firstn n a.
Proof.
  intros H. rewrite firstn_app. replace (n - length a)%nat with 0%nat by lia.
  cbn [firstn]. apply app_nil_r.
Qed.

Section HkdfFacts.
  Variable H : bytes -> bytes.
  Variable B : nat.
  Variable HashLen : nat.
  Hypothesis H_len : forall x, length (H x) = HashLen.
  Hypothesis HashLen_pos : (0 < HashLen)%nat.

  Lemma hmac_length k m : length (hmac H B k m) = HashLen.
  Proof. unfold hmac. apply H_len. Qed.

  Lemma hkdf_blocks_length prk info : forall n prev i,
    length (hkdf_blocks H B prk info prev i n) = (n * HashLen)%nat.
  Proof.
    clear HashLen_pos. induction n as [|n IH]; intros prev i; cbn [hkdf_blocks]; [reflexivity|].
    rewrite app_length, hmac_length, IH. lia.
  Qed.

  (* more blocks only append *)
  Lemma hkdf_blocks_app prk info : forall n k prev i,
    exists rest, hkdf_blocks H B prk info prev i (n + k)
                 = hkdf_blocks H B prk info prev i n ++ rest.
  Proof.
    induction n as [|n IH]; intros k prev i.
    - eexists. reflexivity.
    - cbn [Nat.add hkdf_blocks].
      destruct (IH k (hmac H B prk (prev ++ info ++ [i])) (i + 1)) as [rest Hr].
      exists rest. rewrite Hr, app_assoc. reflexivity.
  Qed.

  Lemma nblocks_covers L : (L <= hkdf_nblocks HashLen L * HashLen)%nat.
  Proof.
    unfold hkdf_nblocks.
    pose proof (Nat.div_mod (L + HashLen - 1) HashLen ltac:(lia)) as Hd.
    pose proof (Nat.mod_upper_bound (L + HashLen - 1) HashLen ltac:(lia)) as Hm.
    nia.
  Qed.

  Lemma nblocks_mono n m : (n <= m)%nat -> (hkdf_nblocks HashLen n <= hkdf_nblocks HashLen m)%nat.
  Proof. intros Hle. unfold hkdf_nblocks. apply Nat.div_le_mono; lia. Qed.

  Lemma nblocks_max L : (L <= 255 * HashLen)%nat -> (hkdf_nblocks HashLen L <= 255)%nat.
  Proof.
    intros HL. unfold hkdf_nblocks.
    apply Nat.lt_succ_r. apply Nat.div_lt_upper_bound; lia.
  Qed.

  (* within the limit, OKM is the first L bytes of the full 255-block stream *)
  Theorem hkdf_expand_stream prk info L : (L <= 255 * HashLen)%nat ->
    hkdf_expand H B HashLen prk info L
      = Some (firstn L (hkdf_blocks H B prk info [] 1 255)).
  Proof.
    intros HL. unfold hkdf_expand. destruct (Nat.ltb_spec (255 * HashLen) L); [lia|].
    f_equal. pose proof (nblocks_max L HL) as Hmax.
    destruct (hkdf_blocks_app prk info (hkdf_nblocks HashLen L) (255 - hkdf_nblocks HashLen L) [] 1)
      as [rest Hr].
    replace (hkdf_nblocks HashLen L + (255 - hkdf_nblocks HashLen L))%nat with 255%nat in Hr by lia.
    rewrite Hr. symmetry. apply firstn_app_le. rewrite hkdf_blocks_length. apply nblocks_covers.
  Qed.

  Theorem hkdf_expand_too_long prk info L : (255 * HashLen < L)%nat ->
    hkdf_expand H B HashLen prk info L = None.
  Proof.
    clear H_len HashLen_pos.
    intros HL. unfold hkdf_expand. destruct (Nat.ltb_spec (255 * HashLen) L); [reflexivity|lia].
  Qed.

  Theorem hkdf_expand_length prk info L o :
    hkdf_expand H B HashLen prk info L = Some o -> length o = L /\ (L <= 255 * HashLen)%nat.
  Proof.
    unfold hkdf_expand. destruct (Nat.ltb_spec (255 * HashLen) L); [discriminate|].
    intros E. inversion E; subst. split; [|assumption].
    rewrite firstn_length, hkdf_blocks_length. pose proof (nblocks_covers L). lia.
  Qed.

  Theorem hkdf_expand_total prk info L :
    ((L <= 255 * HashLen)%nat ->
       exists o, hkdf_expand H B HashLen prk info L = Some o /\ length o = L) /\
    ((255 * HashLen < L)%nat -> hkdf_expand H B HashLen prk info L = None).
  Proof.
    split.
    - intros HL. rewrite hkdf_expand_stream by exact HL.
      eexists. split; [reflexivity|]. rewrite firstn_length, hkdf_blocks_length. lia.
    - apply hkdf_expand_too_long.
  Qed.

  (* prefix law *)
  Theorem hkdf_expand_prefix prk info n m o : (n <= m)%nat ->
    hkdf_expand H B HashLen prk info m = Some o ->
    hkdf_expand H B HashLen prk info n = Some (firstn n o).
  Proof.
    intros Hnm Hm. destruct (hkdf_expand_length _ _ _ _ Hm) as [_ HL].
    rewrite hkdf_expand_stream in Hm by exact HL. inversion Hm; subst.
    rewrite hkdf_expand_stream by lia. f_equal.
    rewrite firstn_firstn. f_equal. lia.
  Qed.

  (* RFC 5869 2.2: "salt ... if not provided, it is set to a string of HashLen zeros".
     With HMAC's key padding the empty salt and HashLen zero bytes give the same PRK. *)
  Theorem hkdf_extract_empty_salt ikm : (HashLen <= B)%nat ->
    hkdf_extract H B [] ikm = hkdf_extract H B (zeros HashLen) ikm.
  Proof. intros HB. unfold hkdf_extract. apply hmac_empty_key. exact HB. Qed.

  Corollary hkdf_empty_salt ikm info L : (HashLen <= B)%nat ->
    hkdf H B HashLen [] ikm info L = hkdf H B HashLen (zeros HashLen) ikm info L.
  Proof. intros HB. unfold hkdf. rewrite hkdf_extract_empty_salt by exact HB. reflexivity. Qed.
End HkdfFacts.
