(* Facts about the RFC 2104 transcription model/Hmac.v. *)
From Coq Require Import List NArith Bool Arith Lia.
From Tink Require Import Bytes Hmac.
Import ListNotations.
Open Scope N_scope.

Lemma zeros_app n m : zeros n ++ zeros m = zeros (n + m).
Proof. unfold zeros. symmetry. apply repeat_app. Qed.

Section HmacFacts.
  Variable H : bytes -> bytes.
  Variable B : nat.

  (* a key of at most B bytes and the same key followed by zero bytes (still
     at most B bytes) are the same HMAC key *)
  Lemma hmac_key_pad k n : (length k + n <= B)%nat ->
    hmac_key H B (k ++ zeros n) = hmac_key H B k.
  Proof.
    intros Hl. unfold hmac_key. rewrite app_length, zeros_length.
    destruct (Nat.ltb_spec B (length k + n)); [lia|].
    destruct (Nat.ltb_spec B (length k)); [lia|].
    rewrite app_length, zeros_length, <- app_assoc, zeros_app. f_equal. f_equal. lia.
  Qed.

  Theorem hmac_pad k n m : (length k + n <= B)%nat ->
    hmac H B (k ++ zeros n) m = hmac H B k m.
  Proof. intros Hl. unfold hmac. rewrite hmac_key_pad by exact Hl. reflexivity. Qed.

  (* the empty key is the all-zero key of any length up to B *)
  Corollary hmac_empty_key n m : (n <= B)%nat -> hmac H B [] m = hmac H B (zeros n) m.
  Proof. intros Hn. rewrite <- (hmac_pad [] n m) by (simpl; lia). reflexivity. Qed.

  (* keys longer than the block are replaced by their hash *)
  Theorem hmac_long_key k m : (B < length k)%nat -> (length (H k) <= B)%nat ->
    hmac H B k m = hmac H B (H k) m.
  Proof.
    intros Hk Hh. unfold hmac, hmac_key.
    destruct (Nat.ltb_spec B (length k)); [|lia].
    destruct (Nat.ltb_spec B (length (H k))); [lia|]. reflexivity.
  Qed.

  Lemma hmac_key_length k : (length (H k) <= B)%nat -> length (hmac_key H B k) = B.
  Proof.
    intros Hh. unfold hmac_key. destruct (Nat.ltb_spec B (length k)).
    - rewrite app_length, zeros_length. lia.
    - rewrite app_length, zeros_length. lia.
  Qed.
End HmacFacts.
