(* C14 (stretch) — the guards in front of the panic sites of
   model/UntrustedSites.v make them safe for ALL inputs; where a guard is a
   premise, an Example shows what happens without it. *)
From Coq Require Import List NArith ZArith Bool Arith Lia ZifyBool ZifyNat ZifyN.
From Tink Require Import Bytes UntrustedConsts Untrusted UntrustedSites.
Import ListNotations.
Open Scope Z_scope.

Local Arguments firstn : simpl never.
Local Arguments skipn : simpl never.

Ltac zl := unfold zlen in *; lia.

(* ---- the three primitive checks ------------------------------------------ *)

Lemma make_z_ok n cap : 0 <= n <= cap -> make_z n cap = Ok (zeros (Z.to_nat n)).
Proof. intros H. unfold make_z. destruct ((n <? 0) || (cap <? n)) eqn:E; [zl|reflexivity]. Qed.

Lemma index_z_ok b i : 0 <= i < zlen b -> index_z b i = Ok (nth (Z.to_nat i) b 0%N).
Proof. intros H. unfold index_z. destruct ((i <? 0) || (zlen b <=? i)) eqn:E; [zl|reflexivity]. Qed.

Lemma slice_z_ok b lo hi :
  0 <= lo <= hi -> hi <= zlen b ->
  slice_z b lo hi = Ok (firstn (Z.to_nat (hi - lo)) (skipn (Z.to_nat lo) b)).
Proof.
  intros H1 H2. unfold slice_z.
  destruct ((lo <? 0) || (hi <? lo) || (zlen b <? hi)) eqn:E; [zl|reflexivity].
Qed.

(* slice_z is Bytes.slice on in-range naturals *)
Lemma slice_z_slice b lo hi : slice_z b (Z.of_nat lo) (Z.of_nat hi) = slice lo hi b.
Proof.
  unfold slice_z, slice, zlen.
  destruct ((Z.of_nat lo <? 0) || (Z.of_nat hi <? Z.of_nat lo) || (Z.of_nat (length b) <? Z.of_nat hi)) eqn:E;
    destruct (Nat.leb lo hi && Nat.leb hi (length b))%bool eqn:F; try zl; try reflexivity.
  rewrite <- Nat2Z.inj_sub by zl. rewrite !Nat2Z.id. reflexivity.
Qed.

(* ---- BigIntBytesToFixedSizeBuffer ---------------------------------------- *)

Lemma strip_loop_spec b : forall fuel i limit,
  0 <= i -> limit <= zlen b -> (Z.of_nat fuel >= limit - i) ->
  strip_loop fuel b i limit = Ok (all_zero (firstn (Z.to_nat (limit - i)) (skipn (Z.to_nat i) b))).
Proof.
  induction fuel as [|f IH]; intros i limit Hi Hl Hf.
  - simpl. replace (Z.to_nat (limit - i)) with 0%nat by zl. reflexivity.
  - cbn [strip_loop]. destruct (i <? limit) eqn:E.
    + rewrite index_z_ok by zl. cbn [bind].
      assert (Hs : exists x r, skipn (Z.to_nat i) b = x :: r /\ nth (Z.to_nat i) b 0%N = x
                               /\ skipn (Z.to_nat (i + 1)) b = r).
      { assert (Hn : (Z.to_nat i < length b)%nat) by zl.
        clear - Hn Hi. replace (Z.to_nat (i + 1)) with (S (Z.to_nat i)) by zl.
        revert Hn. generalize (Z.to_nat i) as n. revert b.
        induction b as [|a b IHb]; intros n Hn; [simpl in Hn; zl|].
        destruct n as [|n]; [exists a, b; auto|].
        destruct (IHb n ltac:(simpl in Hn; lia)) as (x & r & A & B & C).
        exists x, r. repeat split; auto. }
      destruct Hs as (x & r & Hs & Hx & Hr). rewrite Hx, Hs.
      replace (Z.to_nat (limit - i)) with (S (Z.to_nat (limit - (i + 1)))) by zl.
      change (firstn (S (Z.to_nat (limit - (i + 1)))) (x :: r)) with (x :: firstn (Z.to_nat (limit - (i + 1))) r).
      cbn [all_zero]. destruct (x =? 0)%N; [|reflexivity].
      assert (G1 : 0 <= i + 1) by zl. assert (G3 : Z.of_nat f >= limit - (i + 1)) by zl.
      rewrite (IH (i + 1) limit G1 Hl G3). rewrite Hr. reflexivity.
    + replace (Z.to_nat (limit - i)) with 0%nat by zl. reflexivity.
Qed.

(* the as-written body never panics for a non-negative size (all callers pass
   the constants 32 / 48 / 66 or those plus one) ... *)
Theorem fixed_size_go_np b size : 0 <= size -> fixed_size_go b size <> Panic.
Proof.
  intros Hs. unfold fixed_size_go.
  destruct (zlen b =? size) eqn:E1; [discriminate|].
  destruct (zlen b <? size) eqn:E2.
  - rewrite make_z_ok by zl. discriminate.
  - rewrite (strip_loop_spec b (length b) 0 (zlen b - size)) by zl. cbn [bind].
    destruct (all_zero _); [|discriminate].
    rewrite slice_z_ok by zl. discriminate.
Qed.

(* ... and is the function fixed_size of model/Untrusted.v *)
Theorem fixed_size_go_is_model b n : fixed_size_go b (Z.of_nat n) = fixed_size b n.
Proof.
  unfold fixed_size_go, fixed_size, zlen.
  destruct (Z.of_nat (length b) =? Z.of_nat n) eqn:E1; destruct (Nat.eqb (length b) n) eqn:F1; try zl; [reflexivity|].
  destruct (Z.of_nat (length b) <? Z.of_nat n) eqn:E2; destruct (Nat.ltb (length b) n) eqn:F2; try zl.
  - rewrite make_z_ok by zl. cbn [bind]. rewrite <- Nat2Z.inj_sub by zl. rewrite Nat2Z.id. reflexivity.
  - rewrite (strip_loop_spec b (length b) 0) by zl. cbn [bind].
    change (skipn (Z.to_nat 0) b) with b. rewrite Z.sub_0_r.
    rewrite <- Nat2Z.inj_sub by zl. rewrite Nat2Z.id.
    destruct (all_zero (firstn (length b - n) b)); [|reflexivity].
    replace (Z.of_nat (length b - n)) with (Z.of_nat (length b - n)) by reflexivity.
    apply (slice_z_slice b (length b - n) (length b)).
Qed.

(* the premise matters: a negative size makes the loop index past the end *)
Example fixed_size_go_negative_size_panics : fixed_size_go [0%N] (-1) = Panic.
Proof. reflexivity. Qed.

(* ---- encodePoint ---------------------------------------------------------- *)

Theorem encode_point_go_ok x y c :
  zlen x = c -> zlen y = c -> encode_point_go x y c = Ok (4%N :: x ++ y).
Proof.
  intros Hx Hy. assert (Hc : 0 <= c) by (unfold zlen in Hx; lia).
  unfold encode_point_go. rewrite make_z_ok by zl. cbn [bind].
  assert (L : zlen (zeros (Z.to_nat (1 + 2 * c))) = 1 + 2 * c) by (unfold zlen; rewrite zeros_length; lia).
  rewrite index_z_ok by zl. cbn [bind]. rewrite L.
  rewrite slice_z_ok by zl. cbn [bind]. rewrite slice_z_ok by zl. cbn [bind].
  rewrite Hx, Hy, Z.sub_diag. reflexivity.
Qed.

(* the guard chain of newPublicKeyFromProto: both coordinates come out of
   BigIntBytesToFixedSizeBuffer(., c), so they have exactly c bytes *)
Theorem encode_point_after_fixed_size_np bx by_ (c : nat) x y :
  fixed_size_go bx (Z.of_nat c) = Ok x -> fixed_size_go by_ (Z.of_nat c) = Ok y ->
  encode_point_go x y (Z.of_nat c) = Ok (4%N :: x ++ y).
Proof.
  rewrite !fixed_size_go_is_model. intros Hx Hy.
  assert (Lx : length x = c).
  { revert Hx. unfold fixed_size. destruct (Nat.eqb (length bx) c) eqn:E.
    - intros H; inversion H; subst. apply Nat.eqb_eq; exact E.
    - destruct (Nat.ltb (length bx) c) eqn:F.
      + intros H; inversion H; subst. rewrite app_length, zeros_length. zl.
      + destruct (all_zero _); [|discriminate]. unfold slice.
        destruct (Nat.leb (length bx - c) (length bx) && Nat.leb (length bx) (length bx))%bool; [|discriminate].
        intros H; inversion H; subst. rewrite firstn_length, skipn_length. zl. }
  assert (Ly : length y = c).
  { revert Hy. unfold fixed_size. destruct (Nat.eqb (length by_) c) eqn:E.
    - intros H; inversion H; subst. apply Nat.eqb_eq; exact E.
    - destruct (Nat.ltb (length by_) c) eqn:F.
      + intros H; inversion H; subst. rewrite app_length, zeros_length. zl.
      + destruct (all_zero _); [|discriminate]. unfold slice.
        destruct (Nat.leb (length by_ - c) (length by_) && Nat.leb (length by_) (length by_))%bool; [|discriminate].
        intros H; inversion H; subst. rewrite firstn_length, skipn_length. zl. }
  apply encode_point_go_ok; unfold zlen; zl.
Qed.

(* without the guard: a coordinate longer than c + 1 bytes panics *)
Example encode_point_go_long_coordinate_panics : encode_point_go [1; 2; 3; 4]%N [5%N] 2 = Panic.
Proof. reflexivity. Qed.

(* ---- SLH-DSA decoders ----------------------------------------------------- *)

Theorem slh_decode_go_np n b : 0 <= n -> slh_decode_pk_go n b <> Panic /\ slh_decode_sk_go n b <> Panic.
Proof.
  intros Hn. unfold slh_decode_pk_go, slh_decode_sk_go. split.
  - destruct (zlen b =? 2 * n) eqn:E; cbn [negb]; [|discriminate].
    rewrite !slice_z_ok by zl. discriminate.
  - destruct (zlen b =? 4 * n) eqn:E; cbn [negb]; [|discriminate].
    rewrite !slice_z_ok by zl. discriminate.
Qed.

(* ---- points of accepted keys ---------------------------------------------- *)

Theorem point_coords_go_np pt c : 0 <= c -> zlen pt = 1 + 2 * c -> point_coords_go pt c <> Panic.
Proof.
  intros Hc L. unfold point_coords_go. rewrite slice_z_ok by zl. cbn [bind].
  set (xy := firstn _ _).
  assert (Lxy : zlen xy = 2 * c).
  { unfold xy, zlen in *. rewrite firstn_length, skipn_length. zl. }
  rewrite !slice_z_ok by zl. discriminate.
Qed.

Theorem point_halves_go_np pt : 1 <= zlen pt -> point_halves_go pt <> Panic.
Proof.
  intros L. unfold point_halves_go. rewrite slice_z_ok by zl. cbn [bind].
  set (xy := firstn _ _).
  assert (H0 : 0 <= zlen xy) by zl.
  assert (H1 : 0 <= zlen xy / 2 <= zlen xy).
  { split; [apply Z.div_pos; zl|]. apply Z.div_le_upper_bound; zl. }
  rewrite !slice_z_ok by zl. discriminate.
Qed.

(* without the guard (NewPublicKey's point validation): the empty point panics *)
Example point_halves_go_empty_point_panics : point_halves_go [] = Panic.
Proof. reflexivity. Qed.

(* ---- Handle.Entry --------------------------------------------------------- *)

Theorem entry_go_np {A} (entries : list A) i : entry_go entries i <> Panic.
Proof.
  unfold entry_go. destruct ((i <? 0) || (Z.of_nat (length entries) <=? i)) eqn:E; [discriminate|].
  destruct (nth_error entries (Z.to_nat i)) eqn:F; [discriminate|].
  apply nth_error_None in F. zl.
Qed.

(* ---- integer conversions -------------------------------------------------- *)

(* int32(uint32 v) >= m, for a positive m, is the model's int32_at_least *)
Theorem int32_at_least_is_go v m :
  0 <= v <= u32_max -> 0 < m ->
  (m <=? int32_of_u32 v) = int32_at_least (Z.to_N v) (Z.to_N m).
Proof.
  intros Hv Hm. unfold int32_of_u32, int32_at_least, u32_max in *.
  destruct (v <? 2147483648) eqn:E; destruct (Z.to_N v <? 2147483648)%N eqn:F; try zl.
Qed.

(* an int32 proto field read as int is > 0 iff the model's int32_positive *)
Theorem int32_positive_is_go v :
  0 <= v <= u32_max -> (0 <? int_of_i32field v) = int32_positive (Z.to_N v).
Proof.
  intros Hv. unfold int_of_i32field, int32_of_u32, int32_positive, u32_max in *.
  rewrite Z.mod_small by zl.
  destruct (v <? 2147483648) eqn:E; destruct (Z.to_N v <? 2147483648)%N eqn:F; try zl.
Qed.

(* a wrapped (>= 2^31) segment size is negative and is rejected; an accepted
   one is the proto value itself and is at least the real minimum: the sum
   does not wrap because the tag size was bounded before *)
Theorem seg_check_ctr_go_sound derived tag seg max_tag :
  0 <= seg <= u32_max -> 0 <= tag <= u32_max -> max_tag <= 64 ->
  seg_check_ctr_go derived tag seg max_tag = true ->
  seg < 2147483648 /\ int32_of_u32 seg = seg /\ derived + 7 + 1 + tag + 1 <= seg /\ 10 <= tag <= max_tag.
Proof.
  unfold seg_check_ctr_go, int32_wrap, int_of_u32, int32_of_u32, u32_max. intros Hs Ht Hm H.
  assert (D : derived = 16 \/ derived = 32) by zl.
  assert (T : 10 <= tag <= max_tag) by zl.
  rewrite (Z.mod_small (derived + 7 + 1 + tag + 1)) in H by zl.
  destruct (derived + 7 + 1 + tag + 1 <? 2147483648) eqn:E; [|zl].
  destruct (seg <? 2147483648) eqn:F; zl.
Qed.

Theorem seg_check_ctr_go_is_model derived tag seg max_tag :
  0 <= seg <= u32_max -> 0 <= tag <= u32_max -> max_tag <= 64 ->
  (derived = 16 \/ derived = 32) -> 10 <= tag <= max_tag ->
  seg_check_ctr_go derived tag seg max_tag = int32_at_least (Z.to_N seg) (Z.to_N (derived + 8 + tag + 1)).
Proof.
  unfold seg_check_ctr_go, int32_wrap, int_of_u32, u32_max. intros Hs Ht Hm D T.
  rewrite (Z.mod_small (derived + 7 + 1 + tag + 1)) by zl.
  unfold int32_of_u32 at 1. destruct (derived + 7 + 1 + tag + 1 <? 2147483648) eqn:E; [|zl].
  replace (derived + 7 + 1 + tag + 1) with (derived + 8 + tag + 1) by zl.
  rewrite <- int32_at_least_is_go by (unfold u32_max; lia).
  destruct D; subst derived; zl.
Qed.

Theorem seg_check_gcm_go_sound derived seg :
  0 <= seg <= u32_max -> seg_check_gcm_go derived seg = true ->
  seg < 2147483648 /\ derived + 24 + 1 <= seg.
Proof.
  unfold seg_check_gcm_go, int32_wrap, int32_of_u32, u32_max. intros Hs H.
  assert (D : derived = 16 \/ derived = 32) by zl.
  rewrite (Z.mod_small (derived + 24 + 1)) in H by zl.
  destruct (derived + 24 + 1 <? 2147483648) eqn:E; [|zl].
  destruct (seg <? 2147483648) eqn:F; zl.
Qed.

(* the order of the checks matters: had the tag size not been bounded first,
   int32(derived + 9 + tag) would wrap and a 2^32-9-16 byte "tag" would pass
   the segment check (this is what the guard prevents) *)
Example seg_check_needs_the_tag_bound :
  (int32_wrap (16 + 7 + 1 + 4294967271 + 1) <=? int32_of_u32 16) = true.
Proof. reflexivity. Qed.

(* on a 32-bit platform int(uint32) wraps to a negative value, which every
   parser compares with a positive minimum (tag >= 10, iv >= 12, sizes == len):
   the wrapped value is below any such minimum *)
Theorem int_of_u32_32bit_wrapped_is_negative v :
  2147483648 <= v <= u32_max -> int_of_u32_32bit v < 0.
Proof. unfold int_of_u32_32bit, int32_of_u32, u32_max. intros H. destruct (v <? 2147483648) eqn:E; zl. Qed.

(* ---- facts about the model's getters used by the table of sites ----------- *)

(* a nil (absent) sub-message reads as all defaults through the getters:
   scalars 0, byte strings empty, sub-messages absent again *)
Lemma absent_submessage_reads_as_defaults n k :
  get_u32 k (get_sub n []) = 0%N /\ get_len k (get_sub n []) = [] /\
  get_sub k (get_sub n []) = [] /\ has_sub k (get_sub n []) = false.
Proof. repeat split. Qed.

(* int(exponent.Int64()) is reached only with a value below 2^63: the
   conversion is lossless *)
Lemma rsa_exponent_fits_int64 e v :
  rsa_exponent e = Some v -> v = be_val e /\ (v < 9223372036854775808)%N.
Proof.
  unfold rsa_exponent. destruct (be_val e <? 9223372036854775808)%N eqn:E; [|discriminate].
  intros H. inversion H; subst. split; [reflexivity|]. apply N.ltb_lt. exact E.
Qed.

(* ---- raw operations behind their guards (table of sites) ------------------ *)
Lemma entry_raw_np {A} (entries : list A) i :
  0 <= i < Z.of_nat (length entries) -> entry_raw entries i <> Panic.
Proof.
  intros H. unfold entry_raw. destruct (i <? 0) eqn:E; [lia|].
  destruct (nth_error entries (Z.to_nat i)) eqn:F; [discriminate|]. apply nth_error_None in F. lia.
Qed.

Lemma slh_pk_slices_np n pk : zlen pk = 2 * n -> slh_pk_slices n pk <> Panic.
Proof.
  intros H. assert (0 <= n) by zl. unfold slh_pk_slices. rewrite !slice_z_ok by zl. discriminate.
Qed.

Lemma first_byte_np pt c : 0 <= c -> zlen pt = 2 * c + 1 -> first_byte pt <> Panic.
Proof. intros Hc H. unfold first_byte. rewrite index_z_ok by zl. discriminate. Qed.
