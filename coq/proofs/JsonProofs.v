(* Proofs about the JSON text layer of property C09 (model/Json.v): the
   consumer of the token sequence accepts EXACTLY the token spellings of
   duplicate-free values within the recursion budget; the printer's text parses
   back to the value; the acceptance facts of the text parser; the C09 theorems
   instantiated with the text parser. *)
From Coq Require Import List NArith ZArith Bool Lia ZifyN ZifyNat ZifyBool Arith.
From Coq Require String Ascii.
From Tink Require Import Bytes Base64url Jwt JwtSpec JwtProofs Jwk JwkProofs Json JsonLexProofs.
Import ListNotations.
Open Scope N_scope.

(* for writing example texts: the bytes of a Coq string literal *)
Module JsonStrings.
  Import String.
  Definition bs (s : string) : bytes := map Ascii.N_of_ascii (list_ascii_of_string s).
  Arguments bs s%string.
End JsonStrings.

Lemma is_ws_spec c : is_ws c = true <-> c = 32 \/ c = 9 \/ c = 10 \/ c = 13.
Proof. unfold is_ws. lia. Qed.

(* ================= induction on json values ================= *)
Section JsonInd.
  Variable P : json -> Prop.
  Hypothesis Hnull : P JNull.
  Hypothesis Hbool : forall b, P (JBool b).
  Hypothesis Hnum : forall t x, P (JNum t x).
  Hypothesis Hstr : forall s, P (JStr s).
  Hypothesis Harr : forall l, Forall P l -> P (JArr l).
  Hypothesis Hobj : forall f, Forall (fun kv => P (snd kv)) f -> P (JObj f).

  Fixpoint json_ind2 (v : json) : P v :=
    match v with
    | JNull => Hnull
    | JBool b => Hbool b
    | JNum t x => Hnum t x
    | JStr s => Hstr s
    | JArr l => Harr l ((fix go (l : list json) : Forall P l :=
                           match l with
                           | [] => Forall_nil _
                           | x :: r => Forall_cons x (json_ind2 x) (go r)
                           end) l)
    | JObj f => Hobj f ((fix go (f : fields) : Forall (fun kv => P (snd kv)) f :=
                           match f with
                           | [] => Forall_nil _
                           | kv :: r => Forall_cons kv (json_ind2 (snd kv)) (go r)
                           end) f)
    end.
End JsonInd.

(* ================= the token spelling of a value ================= *)
Definition toks_elems (l : list json) : list token := join_comma (map toks l).
Definition member_toks (kv : bytes * json) : list token := TStr (fst kv) :: TColon :: toks (snd kv).
Definition toks_members (f : fields) : list token := join_comma (map member_toks f).

Lemma toks_arr l : toks (JArr l) = TLBrack :: toks_elems l ++ [TRBrack].
Proof. reflexivity. Qed.
Lemma toks_obj f : toks (JObj f) = TLBrace :: toks_members f ++ [TRBrace].
Proof. reflexivity. Qed.

Lemma toks_elems_cons v l : l <> [] -> toks_elems (v :: l) = toks v ++ TComma :: toks_elems l.
Proof. destruct l; [congruence|reflexivity]. Qed.
Lemma toks_members_cons kv f : f <> [] -> toks_members (kv :: f) = member_toks kv ++ TComma :: toks_members f.
Proof. destruct f; [congruence|reflexivity]. Qed.
Lemma toks_elems_one v : toks_elems [v] = toks v.
Proof. reflexivity. Qed.
Lemma toks_members_one kv : toks_members [kv] = member_toks kv.
Proof. reflexivity. Qed.

(* the first token of a value *)
Definition value_start (t : token) : bool :=
  match t with TNull | TBool _ | TNum _ _ | TStr _ | TLBrack | TLBrace => true | _ => false end.

Lemma toks_start v : exists t r, toks v = t :: r /\ value_start t = true.
Proof. destruct v; cbn [toks]; eexists; eexists; split; reflexivity. Qed.

Lemma toks_length v : (1 <= length (toks v))%nat.
Proof. destruct (toks_start v) as [t [r [E _]]]. rewrite E. cbn. lia. Qed.

Lemma toks_elems_start l x : l <> [] -> exists t r, toks_elems l ++ x = t :: r /\ value_start t = true.
Proof.
  destruct l as [|v l]; [congruence|]. intros _.
  destruct (toks_start v) as [t [r [E S]]].
  destruct l as [|v2 l].
  - rewrite toks_elems_one, E. cbn [app]. eauto.
  - rewrite toks_elems_cons by discriminate. rewrite E. cbn [app]. eauto.
Qed.

(* ================= completeness: the spelling of a good value is consumed ================= *)
Definition complete_for (v : json) : Prop :=
  forall fuel d rest, (length (toks v) <= fuel)%nat -> (jdepth v <= d)%nat -> nodup_names v = true ->
    pvalue fuel d (toks v ++ rest) = Some (v, rest).

Lemma list_max_cons x l : list_max (x :: l) = Nat.max x (list_max l).
Proof. reflexivity. Qed.

Lemma pelems_complete l : l <> [] -> Forall complete_for l ->
  forall fuel d rest, (length (toks_elems l) + 1 <= fuel)%nat -> (list_max (map jdepth l) <= d)%nat ->
    forallb nodup_names l = true ->
    pelems fuel d (toks_elems l ++ TRBrack :: rest) = Some (l, rest).
Proof.
  induction l as [|v l IH]; [congruence|]. intros _ F fuel d rest Hf Hd Hn.
  inversion F as [|? ? Cv Fl]; subst.
  cbn [map] in Hd. rewrite list_max_cons in Hd.
  cbn [forallb] in Hn. apply andb_true_iff in Hn. destruct Hn as [Nv Nl].
  pose proof (toks_length v) as Lv.
  destruct l as [|v2 l'].
  - rewrite toks_elems_one in *. destruct fuel as [|f]; [lia|]. cbn [pelems].
    rewrite (Cv f d (TRBrack :: rest)) by (try assumption; lia). reflexivity.
  - rewrite toks_elems_cons in * by discriminate.
    rewrite app_length in Hf. cbn [length] in Hf.
    destruct fuel as [|f]; [lia|]. cbn [pelems].
    rewrite <- app_assoc. cbn [app].
    rewrite (Cv f d (TComma :: toks_elems (v2 :: l') ++ TRBrack :: rest)) by (try assumption; lia).
    rewrite (IH ltac:(discriminate) Fl f d rest) by (try assumption; lia). reflexivity.
Qed.

Lemma pmembers_complete f : f <> [] -> Forall (fun kv => complete_for (snd kv)) f ->
  forall fuel d rest, (length (toks_members f) + 1 <= fuel)%nat ->
    (list_max (map (fun kv => jdepth (snd kv)) f) <= d)%nat ->
    names_unique f = true -> forallb (fun kv => nodup_names (snd kv)) f = true ->
    pmembers fuel d (toks_members f ++ TRBrace :: rest) = Some (f, rest).
Proof.
  induction f as [|[k v] f IH]; [congruence|]. intros _ F fuel d rest Hf Hd Hu Hn.
  inversion F as [|? ? Cv Fl]; subst. cbn [snd] in Cv.
  cbn [map snd] in Hd. rewrite list_max_cons in Hd.
  cbn [forallb snd] in Hn. apply andb_true_iff in Hn. destruct Hn as [Nv Nl].
  cbn [names_unique] in Hu. apply andb_true_iff in Hu. destruct Hu as [Hk Hu].
  apply negb_true_iff in Hk.
  pose proof (toks_length v) as Lv.
  destruct f as [|kv2 f'].
  - rewrite toks_members_one in *. unfold member_toks in *. cbn [fst snd app length] in *.
    destruct fuel as [|fu]; [lia|]. cbn [pmembers].
    rewrite (Cv fu d (TRBrace :: rest)) by (try assumption; lia). reflexivity.
  - rewrite toks_members_cons in * by discriminate.
    unfold member_toks at 1 in Hf. unfold member_toks at 1. cbn [fst snd] in *.
    rewrite ?app_length in Hf. cbn [length] in Hf. rewrite ?app_length in Hf. cbn [length] in Hf.
    destruct fuel as [|fu]; [lia|]. cbn [pmembers app].
    rewrite <- app_assoc. cbn [app].
    rewrite (Cv fu d (TComma :: toks_members (kv2 :: f') ++ TRBrace :: rest)) by (try assumption; lia).
    rewrite (IH ltac:(discriminate) Fl fu d rest) by (try assumption; lia).
    rewrite Hk. reflexivity.
Qed.

Theorem pvalue_complete v : complete_for v.
Proof.
  induction v using json_ind2; unfold complete_for; intros fuel d rest Hf Hd Hn.
  - destruct fuel; [cbn in Hf; lia|]. destruct d; [cbn in Hd; lia|]. reflexivity.
  - destruct fuel; [cbn in Hf; lia|]. destruct d; [cbn in Hd; lia|]. reflexivity.
  - destruct fuel; [cbn in Hf; lia|]. destruct d; [cbn in Hd; lia|]. reflexivity.
  - destruct fuel; [cbn in Hf; lia|]. destruct d; [cbn in Hd; lia|]. reflexivity.
  - rewrite toks_arr in *. cbn [length] in Hf. rewrite app_length in Hf. cbn [length] in Hf.
    destruct fuel as [|fu]; [lia|]. cbn [jdepth] in Hd. destruct d as [|d']; [lia|].
    cbn [nodup_names] in Hn. cbn [app pvalue].
    destruct l as [|v0 l0].
    + reflexivity.
    + destruct (toks_elems_start (v0 :: l0) ([TRBrack] ++ rest) ltac:(discriminate)) as [t [r [E S]]].
      rewrite <- app_assoc. rewrite E.
      assert (X : pelems fu d' (t :: r) = Some (v0 :: l0, rest)).
      { rewrite <- E. apply pelems_complete; try assumption; try discriminate; lia. }
      rewrite X. destruct t; try discriminate S; reflexivity.
  - rewrite toks_obj in *. cbn [length] in Hf. rewrite app_length in Hf. cbn [length] in Hf.
    destruct fuel as [|fu]; [lia|]. cbn [jdepth] in Hd. destruct d as [|d']; [lia|].
    cbn [nodup_names] in Hn. apply andb_true_iff in Hn. destruct Hn as [Hu Hn].
    cbn [app pvalue].
    destruct f as [|[k0 v0] f0].
    + reflexivity.
    + rewrite <- app_assoc.
      assert (X : pmembers fu d' (toks_members ((k0, v0) :: f0) ++ [TRBrace] ++ rest) = Some ((k0, v0) :: f0, rest)).
      { apply pmembers_complete; try assumption; try discriminate; lia. }
      rewrite X.
      destruct f0 as [|kv2 f1].
      * rewrite toks_members_one. unfold member_toks. cbn [fst app]. reflexivity.
      * rewrite toks_members_cons by discriminate. unfold member_toks at 1. cbn [fst app]. reflexivity.
Qed.

(* ================= soundness: what is consumed is the spelling of a good value ================= *)
Lemma pvalue_sound : forall fuel,
  (forall d ts v rest, pvalue fuel d ts = Some (v, rest) ->
     ts = toks v ++ rest /\ nodup_names v = true /\ (jdepth v <= d)%nat)
  /\ (forall d ts l rest, pelems fuel d ts = Some (l, rest) ->
     l <> [] /\ ts = toks_elems l ++ TRBrack :: rest /\ forallb nodup_names l = true
     /\ (list_max (map jdepth l) <= d)%nat)
  /\ (forall d ts f rest, pmembers fuel d ts = Some (f, rest) ->
     f <> [] /\ ts = toks_members f ++ TRBrace :: rest /\ names_unique f = true
     /\ forallb (fun kv => nodup_names (snd kv)) f = true
     /\ (list_max (map (fun kv => jdepth (snd kv)) f) <= d)%nat).
Proof.
  induction fuel as [|fu [IHv [IHe IHm]]].
  { repeat split; intros; discriminate. }
  split; [|split].
  - intros d ts v rest H. cbn [pvalue] in H. destruct d as [|d']; [discriminate|].
    destruct ts as [|t ts']; [discriminate|].
    destruct t; try discriminate.
    + inversion H; subst. repeat split. cbn. lia.
    + inversion H; subst. repeat split. cbn. lia.
    + inversion H; subst. repeat split. cbn. lia.
    + inversion H; subst. repeat split. cbn. lia.
    + (* { *)
      assert (G : forall tsx m r', pmembers fu d' tsx = Some (m, r') ->
                   TLBrace :: tsx = toks (JObj m) ++ r' /\ nodup_names (JObj m) = true /\ (jdepth (JObj m) <= S d')%nat).
      { intros tsx m r' X. destruct (IHm _ _ _ _ X) as [NE [E [U [N D]]]].
        rewrite toks_obj, E. cbn [app]. rewrite <- app_assoc. cbn [app nodup_names jdepth].
        rewrite U, N. repeat split. lia. }
      destruct ts' as [|t2 ts''].
      * destruct (pmembers fu d' []) as [[m r']|] eqn:X; [|discriminate].
        inversion H; subst. apply G. exact X.
      * destruct t2; try (destruct (pmembers fu d' _) as [[m r']|] eqn:X; [|discriminate];
                          inversion H; subst; apply G; exact X).
        inversion H; subst. repeat split. cbn. lia.
    + (* [ *)
      assert (G : forall tsx l r', pelems fu d' tsx = Some (l, r') ->
                   TLBrack :: tsx = toks (JArr l) ++ r' /\ nodup_names (JArr l) = true /\ (jdepth (JArr l) <= S d')%nat).
      { intros tsx l r' X. destruct (IHe _ _ _ _ X) as [NE [E [N D]]].
        rewrite toks_arr, E. cbn [app]. rewrite <- app_assoc. cbn [app nodup_names jdepth].
        rewrite N. repeat split. lia. }
      destruct ts' as [|t2 ts''].
      * destruct (pelems fu d' []) as [[l r']|] eqn:X; [|discriminate].
        inversion H; subst. apply G. exact X.
      * destruct t2; try (destruct (pelems fu d' _) as [[l r']|] eqn:X; [|discriminate];
                          inversion H; subst; apply G; exact X).
        inversion H; subst. repeat split. cbn. lia.
  - intros d ts l rest H. cbn [pelems] in H.
    destruct (pvalue fu d ts) as [[v r]|] eqn:PV; [|discriminate].
    destruct (IHv _ _ _ _ PV) as [E [N D]].
    destruct r as [|t r']; [discriminate|].
    destruct t; try discriminate.
    + (* ] *)
      inversion H; subst. split; [discriminate|]. rewrite toks_elems_one. cbn [forallb map].
      rewrite N, list_max_cons. repeat split; cbn; lia.
    + (* , *)
      destruct (pelems fu d r') as [[l' r'']|] eqn:PE; [|discriminate].
      inversion H; subst. destruct (IHe _ _ _ _ PE) as [NE [E' [N' D']]].
      split; [discriminate|]. rewrite toks_elems_cons by exact NE.
      rewrite <- app_assoc. cbn [app]. rewrite <- E'.
      cbn [forallb map]. rewrite N, N', list_max_cons. repeat split. lia.
  - intros d ts f rest H. cbn [pmembers] in H.
    destruct ts as [|t ts']; [discriminate|]. destruct t; try discriminate.
    destruct ts' as [|t2 ts'']; [discriminate|]. destruct t2; try discriminate.
    destruct (pvalue fu d ts'') as [[v r]|] eqn:PV; [|discriminate].
    destruct (IHv _ _ _ _ PV) as [E [N D]].
    destruct r as [|t r']; [discriminate|].
    destruct t; try discriminate.
    + (* } *)
      inversion H; subst. split; [discriminate|]. rewrite toks_members_one. unfold member_toks.
      cbn [fst snd app forallb map names_unique has lookup is_some negb andb].
      rewrite N, list_max_cons. repeat split; cbn; lia.
    + (* , *)
      destruct (pmembers fu d r') as [[m r'']|] eqn:PM; [|discriminate].
      destruct (has s m) eqn:HK; [discriminate|].
      inversion H; subst. destruct (IHm _ _ _ _ PM) as [NE [E' [U' [N' D']]]].
      split; [discriminate|]. rewrite toks_members_cons by exact NE.
      unfold member_toks at 1. cbn [fst snd app]. rewrite <- app_assoc. cbn [app]. rewrite <- E'.
      cbn [forallb map names_unique snd]. rewrite HK, U', N, N', list_max_cons. repeat split. lia.
Qed.

(* ================= the consumer accepts exactly ... ================= *)
Theorem parse_tokens_spec ts m :
  parse_tokens ts = Some m <->
  ts = toks (JObj m) /\ nodup_names (JObj m) = true /\ (jdepth (JObj m) <= recursion_limit)%nat.
Proof.
  unfold parse_tokens. split.
  - destruct (pvalue (S (length ts)) recursion_limit ts) as [[v r]|] eqn:PV; [|discriminate].
    destruct v; try discriminate. destruct r; [|discriminate]. intros E. inversion E; subst.
    destruct (proj1 (pvalue_sound _) _ _ _ _ PV) as [E1 [N D]].
    rewrite app_nil_r in E1. auto.
  - intros [E [N D]]. subst ts.
    rewrite <- (app_nil_r (toks (JObj m))) at 2.
    rewrite (pvalue_complete (JObj m)) by (try assumption; lia). reflexivity.
Qed.

(* whatever follows the spelling of the object makes the consumer fail *)
Lemma parse_tokens_trailing m ts2 :
  nodup_names (JObj m) = true -> (jdepth (JObj m) <= recursion_limit)%nat -> ts2 <> [] ->
  parse_tokens (toks (JObj m) ++ ts2) = None.
Proof.
  intros N D NE. unfold parse_tokens.
  rewrite (pvalue_complete (JObj m)); try assumption.
  - destruct ts2; [congruence|reflexivity].
  - rewrite app_length. lia.
Qed.

(* ================= the spelling determines the value ================= *)
Definition toks_prefix_free (v : json) : Prop :=
  forall v' r r', toks v ++ r = toks v' ++ r' -> v = v' /\ r = r'.

Lemma elems_inj l : Forall toks_prefix_free l ->
  forall l' r r', toks_elems l ++ TRBrack :: r = toks_elems l' ++ TRBrack :: r' -> l = l' /\ r = r'.
Proof.
  induction l as [|v l1 IH]; intros F l' r r' E.
  - destruct l' as [|v' l1']; [inversion E; auto|].
    destruct (toks_elems_start (v' :: l1') (TRBrack :: r') ltac:(discriminate)) as [t [x [E2 S]]].
    rewrite E2 in E. cbn [toks_elems join_comma map app] in E. inversion E; subst. discriminate S.
  - inversion F as [|? ? Pv Fl]; subst.
    destruct l' as [|v' l1'].
    { destruct (toks_elems_start (v :: l1) (TRBrack :: r) ltac:(discriminate)) as [t [x [E2 S]]].
      rewrite E2 in E. cbn [toks_elems join_comma map app] in E. inversion E; subst. discriminate S. }
    destruct l1 as [|v2 l2]; destruct l1' as [|v2' l2'].
    + rewrite !toks_elems_one in E. destruct (Pv _ _ _ E) as [-> E']. inversion E'; auto.
    + rewrite toks_elems_one, toks_elems_cons in E by discriminate. rewrite <- app_assoc in E.
      destruct (Pv _ _ _ E) as [_ E']. discriminate.
    + rewrite toks_elems_one, toks_elems_cons in E by discriminate. rewrite <- app_assoc in E.
      destruct (Pv _ _ _ E) as [_ E']. discriminate.
    + rewrite (toks_elems_cons v (v2 :: l2)), (toks_elems_cons v' (v2' :: l2')) in E by discriminate.
      rewrite <- !app_assoc in E.
      destruct (Pv _ _ _ E) as [-> E']. cbn [app] in E'. inversion E' as [E''].
      destruct (IH Fl _ _ _ E'') as [-> ->]. auto.
Qed.

Lemma members_inj f : Forall (fun kv => toks_prefix_free (snd kv)) f ->
  forall f' r r', toks_members f ++ TRBrace :: r = toks_members f' ++ TRBrace :: r' -> f = f' /\ r = r'.
Proof.
  induction f as [|[k v] f1 IH]; intros F f' r r' E.
  - destruct f' as [|[k' v'] f1']; [inversion E; auto|].
    destruct f1'; [rewrite toks_members_one in E|rewrite toks_members_cons in E by discriminate];
      unfold member_toks in E; cbn in E; discriminate.
  - inversion F as [|? ? Pv Fl]; subst. cbn [snd] in Pv.
    destruct f' as [|[k' v'] f1'].
    { destruct f1; [rewrite toks_members_one in E|rewrite toks_members_cons in E by discriminate];
        unfold member_toks in E; cbn in E; discriminate. }
    destruct f1 as [|kv2 f2]; destruct f1' as [|kv2' f2'].
    + rewrite !toks_members_one in E. unfold member_toks in E. cbn [fst snd app] in E.
      inversion E as [[Ek E1]]. destruct (Pv _ _ _ E1) as [-> E']. inversion E'; subst; auto.
    + rewrite toks_members_one, toks_members_cons in E by discriminate.
      unfold member_toks at 1 2 in E. cbn [fst snd app] in E. rewrite <- app_assoc in E.
      inversion E as [[Ek E1]]. destruct (Pv _ _ _ E1) as [_ E']. discriminate.
    + rewrite toks_members_one, toks_members_cons in E by discriminate.
      unfold member_toks at 1 2 in E. cbn [fst snd app] in E. rewrite <- app_assoc in E.
      inversion E as [[Ek E1]]. destruct (Pv _ _ _ E1) as [_ E']. discriminate.
    + rewrite (toks_members_cons (k, v) (kv2 :: f2)), (toks_members_cons (k', v') (kv2' :: f2')) in E by discriminate.
      unfold member_toks at 1 2 in E. cbn [fst snd app] in E. rewrite <- !app_assoc in E.
      inversion E as [[Ek E1]]. destruct (Pv _ _ _ E1) as [-> E']. cbn [app] in E'.
      inversion E' as [E''].
      destruct (IH Fl _ _ _ E'') as [-> ->]. auto.
Qed.

Theorem toks_inj v : toks_prefix_free v.
Proof.
  induction v using json_ind2; intros v' r r' E.
  - destruct v'; cbn in E; inversion E; auto.
  - destruct v'; cbn in E; inversion E; auto.
  - destruct v'; cbn in E; inversion E; auto.
  - destruct v'; cbn in E; inversion E; auto.
  - destruct v'; try (cbn in E; discriminate).
    rewrite !toks_arr in E. cbn [app] in E. rewrite <- !app_assoc in E. cbn [app] in E.
    inversion E as [E1]. destruct (elems_inj _ H _ _ _ E1) as [-> ->]. auto.
  - destruct v'; try (cbn in E; discriminate).
    rewrite !toks_obj in E. cbn [app] in E. rewrite <- !app_assoc in E. cbn [app] in E.
    inversion E as [E1]. destruct (members_inj _ H _ _ _ E1) as [-> ->]. auto.
Qed.

Corollary toks_injective v v' : toks v = toks v' -> v = v'.
Proof.
  intros E. apply (toks_inj v v' [] []). rewrite !app_nil_r. exact E.
Qed.

(* strings of the spelling = strings of the value *)
Lemma forallb_join_comma (P : token -> bool) ls : P TComma = true ->
  forallb P (join_comma ls) = forallb (forallb P) ls.
Proof.
  intros HP. induction ls as [|x r IH]; [reflexivity|].
  destruct r as [|y r'].
  - cbn [join_comma forallb]. rewrite andb_true_r. reflexivity.
  - change (join_comma (x :: y :: r')) with (x ++ TComma :: join_comma (y :: r')).
    rewrite forallb_app. cbn [forallb] in *. rewrite HP, IH. reflexivity.
Qed.

Lemma toks_utf8 v : forallb tok_utf8 (toks v) = json_utf8 v.
Proof.
  induction v using json_ind2; try reflexivity.
  - cbn [toks forallb]. rewrite andb_true_r. reflexivity.
  - rewrite toks_arr. cbn [forallb json_utf8 tok_utf8]. rewrite forallb_app. cbn [forallb tok_utf8].
    rewrite andb_true_r. unfold toks_elems. rewrite forallb_join_comma by reflexivity. cbn [andb].
    induction H as [|x l Hx Hl IH]; [reflexivity|]. cbn [map forallb]. rewrite Hx, IH. reflexivity.
  - rewrite toks_obj. cbn [forallb json_utf8 tok_utf8]. rewrite forallb_app. cbn [forallb tok_utf8].
    rewrite andb_true_r. unfold toks_members. rewrite forallb_join_comma by reflexivity. cbn [andb].
    induction H as [|[k x] l Hx Hl IH]; [reflexivity|]. cbn [map forallb].
    unfold member_toks at 1. cbn [fst snd forallb tok_utf8 andb] in *. rewrite Hx, IH. reflexivity.
Qed.

(* ================= the printer ================= *)

(* ---- decimal digits ---- *)
Lemma dec_val_app l d : dec_val (l ++ [d]) = dec_val l * 10 + digit_val d.
Proof. unfold dec_val. rewrite fold_left_app. reflexivity. Qed.

Lemma digits_f_S f n :
  digits_f (S f) n = if n <? 10 then [48 + n] else digits_f f (n / 10) ++ [48 + n mod 10].
Proof. reflexivity. Qed.

Lemma digits_f_spec : forall f n k, (k <= f)%nat -> n < 10 ^ N.of_nat (S k) ->
  dec_val (digits_f (S f) n) = n
  /\ forallb is_digit (digits_f (S f) n) = true
  /\ (length (digits_f (S f) n) <= S k)%nat
  /\ (exists c r, digits_f (S f) n = c :: r /\ (n = 0 -> c = 48 /\ r = []) /\ (0 < n -> c <> 48)).
Proof.
  induction f as [|f IH]; intros n k Hk Hn.
  - assert (k = 0%nat) by lia. subst k. change (10 ^ N.of_nat 1) with 10 in Hn.
    rewrite digits_f_S. replace (n <? 10) with true by lia.
    split; [unfold dec_val, digit_val; cbn [fold_left]; lia|].
    split; [cbn [forallb]; unfold is_digit; lia|].
    split; [cbn; lia|].
    exists (48 + n), []. split; [reflexivity|]. split; intros; [split; [lia|reflexivity]|lia].
  - rewrite (digits_f_S (S f) n). destruct (n <? 10) eqn:L.
    + split; [unfold dec_val, digit_val; cbn [fold_left]; lia|].
      split; [cbn [forallb]; unfold is_digit; lia|].
      split; [cbn; lia|].
      exists (48 + n), []. split; [reflexivity|]. split; intros; [split; [lia|reflexivity]|lia].
    + destruct k as [|k'].
      { change (10 ^ N.of_nat 1) with 10 in Hn. lia. }
      assert (Hq : n / 10 < 10 ^ N.of_nat (S k')).
      { rewrite Nnat.Nat2N.inj_succ, N.pow_succ_r' in Hn. apply N.div_lt_upper_bound; lia. }
      destruct (IH (n / 10) k' ltac:(lia) Hq) as [V [D [Ln [c [r [E [Z NZ]]]]]]].
      split; [rewrite dec_val_app, V; unfold digit_val; lia|].
      split; [rewrite forallb_app, D; cbn [forallb]; unfold is_digit; lia|].
      split; [rewrite app_length; cbn [length]; lia|].
      exists c, (r ++ [48 + n mod 10]). split; [rewrite E; reflexivity|].
      split; [intros; lia|]. intros _. apply NZ. lia.
Qed.

Lemma two53_lt : two53 < 10 ^ N.of_nat 16.
Proof. vm_compute. reflexivity. Qed.

Lemma print_nat_spec n : n < two53 ->
  dec_val (print_nat n) = n /\ forallb is_digit (print_nat n) = true
  /\ (length (print_nat n) <= 16)%nat
  /\ (exists c r, print_nat n = c :: r /\ (n = 0 -> c = 48 /\ r = []) /\ (0 < n -> c <> 48)).
Proof.
  intros H. unfold print_nat. apply (digits_f_spec 19 n 15); [lia|].
  pose proof two53_lt. lia.
Qed.

Lemma lex_int_digits ds z : forallb is_digit ds = true ->
  (exists c r, ds = c :: r /\ (c = 48 -> r = [])) -> hd_ok nondigit z = true ->
  lex_int (ds ++ z) = Some (ds, z).
Proof.
  intros D [c [r [-> Z]]] Hz. cbn [forallb] in D. apply andb_true_iff in D. destruct D as [Dc Dr].
  unfold lex_int. cbn [app]. destruct (c =? 48) eqn:E.
  - apply N.eqb_eq in E. subst c. rewrite (Z eq_refl). reflexivity.
  - rewrite Dc, span_digits_app by assumption. reflexivity.
Qed.

Section Print.
  Variable num : numlit -> option (Z * bytes).

  Lemma lex_cons_punct c tok y :
    (forall t, lex_one num c t = Some (tok, t)) -> is_ws c = false ->
    lex num (c :: y) = match lex num y with Some ts => Some (tok :: ts) | None => None end.
  Proof. intros H W. rewrite lex_eq, skip_ws_id by exact W. rewrite H. reflexivity. Qed.

  Lemma ends_ok_delim ts x : delim_next x = true -> ends_ok ts x = true.
  Proof.
    intros H. destruct ts; [reflexivity|]. cbn [ends_ok]. unfold tok_follow.
    destruct (needs_delim _); [exact H|reflexivity].
  Qed.

  (* ---- numbers on the exact path ---- *)
  Lemma lex_print_zint z : (Z.abs z <? Z.of_N two53)%Z = true ->
    lex num (print_zint z) = Some [TNum z []].
  Proof.
    intros B.
    assert (G : forall neg n, n < two53 -> (neg = true -> 0 < n) ->
              lex num ((if neg then [45] else []) ++ print_nat n) =
              Some [TNum (if neg then (- Z.of_N n)%Z else Z.of_N n) []]).
    { intros neg n Hn Hneg.
      destruct (print_nat_spec n Hn) as [V [D [Ln [c [r [E [Z0 NZ]]]]]]].
      assert (ZR : c = 48 -> r = []).
      { intros Hc. destruct (N.eq_dec n 0) as [->|Hnz]; [apply Z0; reflexivity|].
        exfalso. apply NZ; [lia|exact Hc]. }
      assert (Dc : is_digit c = true).
      { rewrite E in D. cbn [forallb] in D. apply andb_true_iff in D. apply D. }
      assert (LN : lex_unsigned neg (print_nat n ++ []) = Some (mkLit neg (print_nat n) [] None, [])).
      { unfold lex_unsigned. rewrite lex_int_digits; [reflexivity|exact D| |reflexivity].
        exists c, r. split; assumption. }
      rewrite app_nil_r in LN.
      assert (NV : num_value num (mkLit neg (print_nat n) [] None)
                   = Some ((if neg then (- Z.of_N n)%Z else Z.of_N n), [])).
      { unfold num_value, lit_plain. cbn [nl_frac nl_exp nl_int nl_neg].
        replace (length (print_nat n) <=? 16)%nat with true by (symmetry; apply Nat.leb_le; exact Ln).
        rewrite V. replace (n <? two53) with true by lia. reflexivity. }
      rewrite lex_eq. destruct neg.
      - cbn [app]. rewrite skip_ws_id by reflexivity.
        unfold lex_one.
        change (45 =? 123) with false. change (45 =? 125) with false. change (45 =? 91) with false.
        change (45 =? 93) with false. change (45 =? 44) with false. change (45 =? 58) with false.
        change (45 =? 34) with false. change (45 =? 110) with false. change (45 =? 116) with false.
        change (45 =? 102) with false. change ((45 =? 45) || is_digit 45) with true. cbv iota.
        rewrite lex_number_unsigned. change (45 =? 45) with true. cbv iota.
        rewrite LN, NV. reflexivity.
      - cbn [app]. rewrite E. rewrite skip_ws_id by (unfold is_ws, is_digit in *; lia).
        unfold lex_one. unfold is_digit in Dc.
        replace (c =? 123) with false by lia. replace (c =? 125) with false by lia.
        replace (c =? 91) with false by lia. replace (c =? 93) with false by lia.
        replace (c =? 44) with false by lia. replace (c =? 58) with false by lia.
        replace (c =? 34) with false by lia. replace (c =? 110) with false by lia.
        replace (c =? 116) with false by lia. replace (c =? 102) with false by lia.
        replace ((c =? 45) || is_digit c) with true by (unfold is_digit; lia).
        rewrite lex_number_unsigned. replace (c =? 45) with false by lia.
        rewrite <- E, LN, NV. reflexivity. }
    unfold print_zint. destruct z as [|p|p].
    - apply (G false 0); [reflexivity|discriminate].
    - change (Z.to_N (Z.pos p)) with (N.pos p).
      apply (G false (N.pos p)); [|discriminate]. cbn [Z.abs] in B. lia.
    - change (45 :: print_nat (N.pos p)) with ([45] ++ print_nat (N.pos p)).
      replace (Z.neg p) with (- Z.of_N (N.pos p))%Z by reflexivity.
      apply (G true (N.pos p)); [|intros; lia]. cbn [Z.abs] in B. lia.
  Qed.

  (* ---- strings ---- *)
  Lemma escape_raw x t : 32 <= x -> x <> 34 -> x <> 92 -> escape (x :: t) = x :: escape t.
  Proof.
    intros A B C. cbn [escape].
    replace (x =? 34) with false by lia. replace (x =? 92) with false by lia.
    replace (x <? 32) with false by lia. reflexivity.
  Qed.

  Lemma hexval_hexdigit d : d < 16 -> hexval (hexdigit d) = Some d.
  Proof.
    intros H. unfold hexdigit, hexval, is_digit. destruct (d <? 10) eqn:L.
    - replace ((48 <=? 48 + d) && (48 + d <=? 57)) with true by lia. f_equal. lia.
    - replace ((48 <=? 87 + d) && (87 + d <=? 57)) with false by lia.
      replace ((97 <=? 87 + d) && (87 + d <=? 102)) with true by lia. f_equal. lia.
  Qed.

  Lemma lex_string_escape s : utf8_valid s = true ->
    forall rest, lex_string (escape s ++ 34 :: rest) = Some (s, rest).
  Proof.
    remember (length s) as n eqn:Hn. revert s Hn.
    induction n as [n IH] using lt_wf_ind. intros s Hn H rest.
    destruct s as [|x t].
    { cbn [escape app lex_string]. reflexivity. }
    rewrite utf8_valid_cons in H.
    destruct (x <? 128) eqn:A.
    { (* one ASCII byte *)
      assert (R : lex_string (escape t ++ 34 :: rest) = Some (t, rest)).
      { apply (IH (length t)); [cbn in Hn; lia|reflexivity|exact H]. }
      cbn [escape]. destruct (x =? 34) eqn:Q.
      { apply N.eqb_eq in Q. subst x. cbn [app lex_string].
        change (92 =? 34) with false. change (92 =? 92) with true. cbv iota.
        change (simple_escape 34) with (Some 34). cbv iota. rewrite R. reflexivity. }
      destruct (x =? 92) eqn:B.
      { apply N.eqb_eq in B. subst x. cbn [app lex_string].
        change (92 =? 34) with false. change (92 =? 92) with true. cbv iota.
        change (simple_escape 92) with (Some 92). cbv iota. rewrite R. reflexivity. }
      destruct (x <? 32) eqn:C.
      { cbn [app lex_string].
        change (92 =? 34) with false. change (92 =? 92) with true. cbv iota.
        change (simple_escape 117) with (@None N). cbv iota.
        change (117 =? 117) with true. cbv iota.
        assert (HX : hex4 48 48 (hexdigit (x / 16)) (hexdigit (x mod 16)) = Some x).
        { unfold hex4. change (hexval 48) with (Some 0).
          rewrite !hexval_hexdigit by lia. f_equal. lia. }
        rewrite HX. replace (is_surrogate x) with false by (unfold is_surrogate; lia).
        rewrite R. unfold utf8_enc. replace (x <? 128) with true by lia. reflexivity. }
      cbn [app lex_string]. rewrite Q, B, C, A, R. reflexivity. }
    assert (RAW : forall y, cont y = true -> forall t', escape (y :: t') = y :: escape t').
    { intros y Hy t'. apply escape_raw; unfold cont, inr in Hy; lia. }
    rewrite escape_raw by lia.
    destruct (inr 194 223 x) eqn:R2.
    { destruct t as [|y t1]; [discriminate|].
      apply andb_true_iff in H. destruct H as [Cy H].
      rewrite (RAW y Cy). cbn [app lex_string].
      replace (x =? 34) with false by lia. replace (x =? 92) with false by lia.
      replace (x <? 32) with false by lia. rewrite A, R2, Cy.
      rewrite (IH (length t1)); [reflexivity|cbn in Hn; lia|reflexivity|exact H]. }
    destruct (inr 224 239 x) eqn:R3.
    { destruct t as [|y [|z t2]]; try discriminate.
      apply andb_true_iff in H. destruct H as [Cyz H].
      assert (Cy : cont y = true /\ cont z = true).
      { apply andb_true_iff in Cyz. destruct Cyz as [Y Z]. split; [|exact Z].
        destruct (x =? 224); [|destruct (x =? 237)]; unfold cont, inr in *; lia. }
      destruct Cy as [Cy Cz].
      rewrite (RAW y Cy), (RAW z Cz). cbn [app lex_string].
      replace (x =? 34) with false by lia. replace (x =? 92) with false by lia.
      replace (x <? 32) with false by lia. rewrite A, R2, R3, Cyz.
      rewrite (IH (length t2)); [reflexivity|cbn in Hn; lia|reflexivity|exact H]. }
    destruct (inr 240 244 x) eqn:R4; [|discriminate].
    destruct t as [|y [|z [|w t3]]]; try discriminate.
    apply andb_true_iff in H. destruct H as [Cyzw H].
    assert (Cy : cont y = true /\ cont z = true /\ cont w = true).
    { apply andb_true_iff in Cyzw. destruct Cyzw as [YZ W]. apply andb_true_iff in YZ. destruct YZ as [Y Z].
      split; [|split; assumption].
      destruct (x =? 240); [|destruct (x =? 244)]; unfold cont, inr in *; lia. }
    destruct Cy as [Cy [Cz Cw]].
    rewrite (RAW y Cy), (RAW z Cz), (RAW w Cw). cbn [app lex_string].
    replace (x =? 34) with false by lia. replace (x =? 92) with false by lia.
    replace (x <? 32) with false by lia. rewrite A, R2, R3, R4, Cyzw.
    rewrite (IH (length t3)); [reflexivity|cbn in Hn; lia|reflexivity|exact H].
  Qed.

  Lemma lex_print_jstr s : utf8_valid s = true -> lex num (print_jstr s) = Some [TStr s].
  Proof.
    intros H. unfold print_jstr. rewrite lex_eq, skip_ws_id by reflexivity.
    unfold lex_one.
    change (34 =? 123) with false. change (34 =? 125) with false. change (34 =? 91) with false.
    change (34 =? 93) with false. change (34 =? 44) with false. change (34 =? 58) with false.
    change (34 =? 34) with true. cbv iota.
    rewrite lex_string_escape by exact H. reflexivity.
  Qed.

  (* ---- separated lists ---- *)
  Lemma lex_join (items : list (bytes * list token)) x :
    Forall (fun it => lex num (fst it) = Some (snd it)) items -> delim_next x = true ->
    lex num (join_bytes 44 (map fst items) ++ x) =
    match lex num x with Some t2 => Some (join_comma (map snd items) ++ t2) | None => None end.
  Proof.
    intros F Hx. induction F as [|it r Hit Fr IH].
    - cbn [map join_bytes join_comma app]. destruct (lex num x); reflexivity.
    - destruct r as [|it2 r'].
      + cbn [map join_bytes join_comma]. apply lex_app; [exact Hit|apply ends_ok_delim; exact Hx].
      + change (join_bytes 44 (map fst (it :: it2 :: r'))) with (fst it ++ 44 :: join_bytes 44 (map fst (it2 :: r'))).
        change (join_comma (map snd (it :: it2 :: r'))) with (snd it ++ TComma :: join_comma (map snd (it2 :: r'))).
        rewrite <- app_assoc. cbn [app].
        rewrite (lex_app num (fst it) (snd it) _ Hit) by (apply ends_ok_delim; reflexivity).
        rewrite (lex_cons_punct 44 TComma) by (intros; reflexivity).
        rewrite IH. destruct (lex num x); [|reflexivity]. rewrite <- app_assoc. reflexivity.
  Qed.

  (* ---- the printed text spells the value ---- *)
  Theorem lex_print_value v : json_utf8 v = true -> nums_exact v = true ->
    lex num (print_value v) = Some (toks v).
  Proof.
    induction v using json_ind2; intros U X.
    - reflexivity.
    - destruct b; reflexivity.
    - cbn [nums_exact] in X. destruct x; [|discriminate]. cbn [print_value toks]. apply lex_print_zint. exact X.
    - cbn [print_value toks]. apply lex_print_jstr. exact U.
    - cbn [print_value]. rewrite toks_arr.
      change (91 :: join_bytes 44 (map print_value l) ++ [93]) with ([91] ++ (join_bytes 44 (map print_value l) ++ [93])).
      rewrite (lex_app num [91] [TLBrack]) by reflexivity.
      set (items := map (fun v => (print_value v, toks v)) l).
      assert (E1 : map print_value l = map fst items) by (unfold items; rewrite map_map; reflexivity).
      assert (E2 : map toks l = map snd items) by (unfold items; rewrite map_map; reflexivity).
      assert (FI : Forall (fun it => lex num (fst it) = Some (snd it)) items).
      { unfold items. apply Forall_forall. intros it Hit. apply in_map_iff in Hit.
        destruct Hit as [v [<- Hv]]. cbn [fst snd].
        rewrite Forall_forall in H. apply (H v Hv).
        - cbn [json_utf8] in U. rewrite forallb_forall in U. auto.
        - cbn [nums_exact] in X. rewrite forallb_forall in X. auto. }
      rewrite E1, (lex_join items [93] FI eq_refl). unfold toks_elems. rewrite E2. reflexivity.
    - cbn [print_value]. rewrite toks_obj.
      match goal with |- lex num (123 :: ?b ++ [125]) = _ => change (123 :: b ++ [125]) with ([123] ++ (b ++ [125])) end.
      rewrite (lex_app num [123] [TLBrace]) by reflexivity.
      set (items := map (fun kv => (print_jstr (fst kv) ++ 58 :: print_value (snd kv), member_toks kv)) f).
      assert (E1 : map (fun kv : bytes * json => print_jstr (fst kv) ++ 58 :: print_value (snd kv)) f = map fst items)
        by (unfold items; rewrite map_map; reflexivity).
      assert (E2 : map member_toks f = map snd items) by (unfold items; rewrite map_map; reflexivity).
      assert (FI : Forall (fun it => lex num (fst it) = Some (snd it)) items).
      { unfold items. apply Forall_forall. intros it Hit. apply in_map_iff in Hit.
        destruct Hit as [kv [<- Hv]]. cbn [fst snd]. unfold member_toks.
        cbn [json_utf8] in U. rewrite forallb_forall in U. specialize (U kv Hv).
        destruct kv as [k v]. cbn [fst snd] in *. apply andb_true_iff in U. destruct U as [Uk Uv].
        rewrite (lex_app num (print_jstr k) [TStr k]) by (try apply lex_print_jstr; auto).
        rewrite (lex_cons_punct 58 TColon) by (intros; reflexivity).
        rewrite Forall_forall in H. specialize (H (k, v) Hv). cbn [snd] in H.
        rewrite H; [reflexivity|exact Uv|].
        cbn [nums_exact] in X. rewrite forallb_forall in X. apply (X (k, v) Hv). }
      rewrite E1.
      match goal with |- match ?a with _ => _ end = _ =>
        replace a with (match lex num [125] with Some t2 => Some (join_comma (map snd items) ++ t2) | None => None end)
          by (symmetry; apply (lex_join items [125] FI eq_refl)) end.
      unfold toks_members. rewrite E2. reflexivity.
  Qed.
End Print.

(* ================= the text parser ================= *)
Section Text.
  Variable num : numlit -> option (Z * bytes).

  (* EXACT acceptance: a text is accepted, with value f, iff its token sequence
     is the spelling of the object f, no object of f has a repeated name, and
     f fits the recursion budget *)
  Theorem json_parse_text_spec s f :
    json_parse_text num s = Some f <->
    lex num s = Some (toks (JObj f)) /\ nodup_names (JObj f) = true
    /\ (jdepth (JObj f) <= recursion_limit)%nat.
  Proof.
    unfold json_parse_text. split.
    - destruct (lex num s) as [ts|]; [|discriminate]. intros H.
      apply parse_tokens_spec in H. destruct H as [-> H]. split; [reflexivity|exact H].
    - intros [L H]. rewrite L. apply parse_tokens_spec. split; [reflexivity|exact H].
  Qed.

  (* the same with the tokenizer replaced by its grammar: the accepted texts
     are exactly the spellings (any JSON whitespace between tokens, any of the
     escape forms in strings, any spelling of the numbers) of the objects
     without repeated names that fit the recursion budget *)
  Theorem json_text_grammar s f :
    json_parse_text num s = Some f <->
    spells num (toks (JObj f)) s /\ nodup_names (JObj f) = true
    /\ (jdepth (JObj f) <= recursion_limit)%nat.
  Proof. rewrite json_parse_text_spec, lex_grammar. reflexivity. Qed.

  (* parse after print *)
  Theorem json_print_parse_roundtrip f :
    printable (JObj f) = true -> json_parse_text num (json_print_text f) = Some f.
  Proof.
    unfold printable. intros H.
    apply andb_true_iff in H. destruct H as [H D]. apply andb_true_iff in H. destruct H as [H X].
    apply andb_true_iff in H. destruct H as [U N].
    apply json_parse_text_spec. split; [|split].
    - apply lex_print_value; assumption.
    - exact N.
    - apply Nat.leb_le. exact D.
  Qed.

  (* what every accepted text has *)
  Theorem json_accepted_shape s f : json_parse_text num s = Some f ->
    utf8_valid s = true /\ json_utf8 (JObj f) = true /\ nodup_names (JObj f) = true
    /\ (jdepth (JObj f) <= recursion_limit)%nat
    /\ exists t, skip_ws s = 123 :: t.
  Proof.
    intros H. apply json_parse_text_spec in H. destruct H as [L [N D]].
    destruct (lex_utf8 num s _ L) as [U T]. rewrite toks_utf8 in T.
    split; [exact U|]. split; [exact T|]. split; [exact N|]. split; [exact D|].
    pose proof (lex_first_token num s _ L) as FT.
    destruct (skip_ws s) as [|c t]; [rewrite toks_obj in FT; discriminate|].
    destruct FT as [tok [r [ts' [L1 E]]]]. rewrite toks_obj in E. inversion E; subst tok.
    exists t. f_equal.
    unfold lex_one in L1.
    destruct (c =? 123) eqn:Q1; [apply N.eqb_eq; exact Q1|].
    repeat match type of L1 with
           | (if ?b then _ else _) = _ => destruct b; [try discriminate|]
           end; try discriminate.
    - destruct (lex_string t) as [[? ?]|]; discriminate.
    - unfold lex_literal in L1. destruct (strip_prefix _ _); [destruct (delim_next _)|]; discriminate.
    - unfold lex_literal in L1. destruct (strip_prefix _ _); [destruct (delim_next _)|]; discriminate.
    - unfold lex_literal in L1. destruct (strip_prefix _ _); [destruct (delim_next _)|]; discriminate.
    - destruct (lex_number _) as [[? ?]|]; [destruct (num_value _ _) as [[? ?]|]|]; discriminate.
  Qed.

  (* not valid UTF-8: rejected *)
  Corollary json_invalid_utf8_rejected s : utf8_valid s = false -> json_parse_text num s = None.
  Proof.
    intros H. destruct (json_parse_text num s) as [f|] eqn:P; [|reflexivity].
    apply json_accepted_shape in P. destruct P as [U _]. congruence.
  Qed.

  (* a duplicate member name at any depth: rejected, however the text is
     spaced and however its strings are escaped *)
  Theorem json_duplicate_name_rejected s v :
    lex num s = Some (toks v) -> nodup_names v = false -> json_parse_text num s = None.
  Proof.
    intros L D. destruct (json_parse_text num s) as [f|] eqn:P; [|reflexivity].
    apply json_parse_text_spec in P. destruct P as [L' [N _]].
    assert (E : toks v = toks (JObj f)) by congruence. apply toks_injective in E. subst v. congruence.
  Qed.

  (* nested deeper than the recursion budget: rejected *)
  Theorem json_too_deep_rejected s v :
    lex num s = Some (toks v) -> (recursion_limit < jdepth v)%nat -> json_parse_text num s = None.
  Proof.
    intros L D. destruct (json_parse_text num s) as [f|] eqn:P; [|reflexivity].
    apply json_parse_text_spec in P. destruct P as [L' [_ D']].
    assert (E : toks v = toks (JObj f)) by congruence. apply toks_injective in E. subst v. lia.
  Qed.

  (* the spelling of anything but an object: rejected *)
  Theorem json_top_level_not_object_rejected s v :
    lex num s = Some (toks v) -> (forall f, v <> JObj f) -> json_parse_text num s = None.
  Proof.
    intros L D. destruct (json_parse_text num s) as [f|] eqn:P; [|reflexivity].
    apply json_parse_text_spec in P. destruct P as [L' _].
    assert (E : toks v = toks (JObj f)) by congruence. apply toks_injective in E. exfalso. apply (D f E).
  Qed.

  (* the first byte after leading whitespace must be '{' *)
  Corollary json_first_byte_rejected s c t :
    skip_ws s = c :: t -> c <> 123 -> json_parse_text num s = None.
  Proof.
    intros SK NE. destruct (json_parse_text num s) as [f|] eqn:P; [|reflexivity].
    apply json_accepted_shape in P. destruct P as [_ [_ [_ [_ [t' E]]]]]. rewrite SK in E. inversion E. congruence.
  Qed.

  (* the empty text, and a text of whitespace only: rejected *)
  Corollary json_blank_rejected w : all_ws w = true -> json_parse_text num w = None.
  Proof.
    intros H. destruct (json_parse_text num w) as [f|] eqn:P; [|reflexivity].
    apply json_accepted_shape in P. destruct P as [_ [_ [_ [_ [t' E]]]]].
    rewrite skip_ws_nil in E by exact H. discriminate.
  Qed.

  (* an accepted text followed by anything that is not whitespace: rejected *)
  Theorem json_trailing_data_rejected s f c t :
    json_parse_text num s = Some f -> is_ws c = false -> json_parse_text num (s ++ c :: t) = None.
  Proof.
    intros P W. apply json_parse_text_spec in P. destruct P as [L [N D]].
    unfold json_parse_text.
    rewrite (lex_app num s _ (c :: t) L).
    2:{ rewrite toks_obj. cbn [ends_ok]. change (TLBrace :: toks_members f ++ [TRBrace]) with ((TLBrace :: toks_members f) ++ [TRBrace]).
        destruct (TLBrace :: toks_members f) eqn:E; [discriminate|]. rewrite <- E.
        rewrite last_last. reflexivity. }
    destruct (lex num (c :: t)) as [ts2|] eqn:L2; [|reflexivity].
    apply parse_tokens_trailing; try assumption.
    pose proof (lex_first_token num (c :: t) _ L2) as FT.
    rewrite skip_ws_id in FT by exact W. destruct FT as [tok [r [ts' [_ ->]]]]. discriminate.
  Qed.

  (* JSON whitespace before / after the text changes nothing (accepted or not) *)
  Theorem json_leading_ws w s : all_ws w = true -> json_parse_text num (w ++ s) = json_parse_text num s.
  Proof. intros H. unfold json_parse_text. rewrite lex_skip_ws by exact H. reflexivity. Qed.

  Theorem json_trailing_ws s w : all_ws w = true -> json_parse_text num (s ++ w) = json_parse_text num s.
  Proof. intros H. unfold json_parse_text. rewrite lex_trailing_ws by exact H. reflexivity. Qed.

  (* JSON whitespace inserted at a token boundary (s1 = whole tokens, and s2
     may follow the last of them directly) changes nothing *)
  Theorem json_ws_between_tokens s1 w s2 ts1 :
    lex num s1 = Some ts1 -> ends_ok ts1 s2 = true -> all_ws w = true ->
    json_parse_text num (s1 ++ w ++ s2) = json_parse_text num (s1 ++ s2).
  Proof.
    intros L E H. unfold json_parse_text.
    rewrite (lex_app num s1 ts1 s2 L E).
    destruct w as [|c w']; [cbn [app]; rewrite (lex_app num s1 ts1 s2 L E); reflexivity|].
    rewrite (lex_ws_between num s1 (c :: w') s2 ts1 H ltac:(discriminate) L). reflexivity.
  Qed.

  (* and whitespace anywhere else a token sequence ends: the tokens are those of the parts *)
  Theorem json_ws_separates s1 w s2 ts1 :
    lex num s1 = Some ts1 -> all_ws w = true -> w <> [] ->
    json_parse_text num (s1 ++ w ++ s2) =
    match lex num s2 with Some ts2 => parse_tokens (ts1 ++ ts2) | None => None end.
  Proof.
    intros L H NE. unfold json_parse_text. rewrite (lex_ws_between num s1 w s2 ts1 H NE L).
    destruct (lex num s2); reflexivity.
  Qed.
End Text.

(* the parser is a function of the text (and of the float view of the number
   literals that occur outside the exact path) *)
Theorem json_parse_text_ext num1 num2 s :
  (forall l, num1 l = num2 l) -> json_parse_text num1 s = json_parse_text num2 s.
Proof.
  intros E.
  assert (L1 : forall c t, lex_one num1 c t = lex_one num2 c t).
  { intros c t. unfold lex_one, num_value.
    destruct (lex_number (c :: t)) as [[l r]|]; [|reflexivity].
    destruct (lit_plain l); [reflexivity|]. rewrite E. reflexivity. }
  assert (LF : forall n s', lex_f num1 n s' = lex_f num2 n s').
  { induction n as [|n IH]; intros s'; [reflexivity|]. cbn [lex_f].
    destruct (skip_ws s') as [|c t]; [reflexivity|]. rewrite L1.
    destruct (lex_one num2 c t) as [[tok r]|]; [|reflexivity]. rewrite IH. reflexivity. }
  unfold json_parse_text, lex. rewrite LF. reflexivity.
Qed.

(* ================= the C09 theorems from TEXT ================= *)

(* the text s spells the object f, within what the parser accepts *)
Definition text_denotes (num : numlit -> option (Z * bytes)) (s : bytes) (f : fields) : Prop :=
  lex num s = Some (toks (JObj f)) /\ nodup_names (JObj f) = true
  /\ (jdepth (JObj f) <= recursion_limit)%nat.

(* the main C09 equivalence with the JSON parser of the model in place.  ONE
   JSON parameter is left and it occurs on both sides: num, the float view of
   the number literals (text_denotes num: the tokens lex num yields).  Which
   literals the model decides itself and how far a verdict can depend on num:
   proofs/JsonNumProofs.v.  Stated through the declarative grammar:
   JsonNumProofs.verify_text_spells_iff. *)
Theorem verify_text_iff num sig_valid keys o tok r :
  verify_text num sig_valid keys o tok = Some (VOk r) <->
  exists v, options_rule o v /\
  exists h p s sg hb pb hdr,
    tok = h ++ dot :: p ++ dot :: s
    /\ nodot h /\ nodot p /\ nodot s
    /\ b64_decode s = Some sg /\ sg <> []
    /\ b64_decode h = Some hb /\ text_denotes num hb hdr
    /\ b64_decode p = Some pb /\ text_denotes num pb (r_payload r)
    /\ (exists k, In k keys /\ kenabled k = true
                  /\ sig_valid (kref k) sg (h ++ dot :: p) = true /\ header_rule k hdr)
    /\ typ_rule hdr (r_typ r)
    /\ payload_rule (r_payload r)
    /\ validator_rule v (r_typ r) (r_payload r).
Proof.
  unfold verify_text. rewrite verify_iff_accepts. unfold accepts, text_denotes. split.
  - intros [v [Ho [h [p [s [sg [hb [pb [hdr H]]]]]]]]]. exists v. split; [exact Ho|].
    exists h, p, s, sg, hb, pb, hdr.
    destruct H as [E [Hnh [Hnp [Hns [Hd [Hne [Eh [Ej [Ep [Ejp Rest]]]]]]]]]].
    apply json_parse_text_spec in Ej, Ejp. repeat (split; [assumption|]). exact Rest.
  - intros [v [Ho [h [p [s [sg [hb [pb [hdr H]]]]]]]]]. exists v. split; [exact Ho|].
    exists h, p, s, sg, hb, pb, hdr.
    destruct H as [E [Hnh [Hnp [Hns [Hd [Hne [Eh [Ej [Ep [Ejp Rest]]]]]]]]]].
    apply json_parse_text_spec in Ej, Ejp. repeat (split; [assumption|]). exact Rest.
Qed.

(* a token whose header or payload text is not accepted JSON is never verified *)
Corollary verify_text_needs_json num sig_valid keys o tok r :
  verify_text num sig_valid keys o tok = Some (VOk r) ->
  exists h p s hb pb hdr,
    tok = h ++ dot :: p ++ dot :: s /\ b64_decode h = Some hb /\ b64_decode p = Some pb
    /\ json_parse_text num hb = Some hdr /\ json_parse_text num pb = Some (r_payload r).
Proof.
  intros H. apply verify_text_iff in H.
  destruct H as [v [_ [h [p [s [sg [hb [pb [hdr H]]]]]]]]].
  destruct H as [E [_ [_ [_ [_ [_ [Eh [Ej [Ep [Ejp _]]]]]]]]]].
  exists h, p, s, hb, pb, hdr. repeat (split; [assumption|]).
  split; apply json_parse_text_spec; assumption.
Qed.

(* JWK sets from TEXT *)
Theorem jwk_import_text_spec num on_curve s l :
  jwk_import_text num on_curve s = Some l <->
  exists f vs, text_denotes num s f /\ lookup s_keys f = Some (JArr vs) /\ vs <> []
               /\ Forall2 (jwk_key_rule on_curve) vs l.
Proof.
  unfold jwk_import_text, text_denotes. split.
  - destruct (json_parse_text num s) as [f|] eqn:P; [|discriminate]. intros H.
    apply jwk_import_spec in H. destruct H as [f' [vs [E [L [NE F]]]]]. inversion E; subst f'.
    apply json_parse_text_spec in P. exists f, vs. auto.
  - intros [f [vs [T [L [NE F]]]]]. apply json_parse_text_spec in T. rewrite T.
    apply jwk_import_spec. exists f, vs. auto.
Qed.

(* the refusals of the set, from text: not accepted JSON; "keys" missing or
   not a list; the list empty; one bad key *)
Theorem jwk_import_text_rejections num on_curve s :
  (json_parse_text num s = None -> jwk_import_text num on_curve s = None)
  /\ (forall f, json_parse_text num s = Some f ->
        (forall l, lookup s_keys f <> Some (JArr l)) -> jwk_import_text num on_curve s = None)
  /\ (forall f, json_parse_text num s = Some f ->
        lookup s_keys f = Some (JArr []) -> jwk_import_text num on_curve s = None)
  /\ (forall f vs v, json_parse_text num s = Some f -> lookup s_keys f = Some (JArr vs) -> In v vs ->
        import_key on_curve v = None -> jwk_import_text num on_curve s = None).
Proof.
  unfold jwk_import_text. split; [intros ->; reflexivity|]. split; [|split].
  - intros f -> H. apply jwk_import_keys_not_a_list_rejected. exact H.
  - intros f -> H. apply jwk_import_empty_list_rejected. exact H.
  - intros f vs v -> L I K. eapply jwk_import_one_bad_key; eassumption.
Qed.

Theorem jwk_import_handle_text_shape num on_curve ids s pks :
  jwk_import_text num on_curve s = Some pks -> length ids = length pks ->
  exists ks, jwk_import_handle_text num on_curve ids s = Some (ks, last ids 0)
    /\ map e_key ks = map KPub pks /\ map e_id ks = ids
    /\ Forall (fun en => e_status en = Enabled) ks.
Proof.
  unfold jwk_import_text, jwk_import_handle_text.
  destruct (json_parse_text num s) as [f|]; [|discriminate]. apply jwk_import_handle_shape.
Qed.

(* ================= the printer's output is a byte string ================= *)
Lemma utf8_valid_wfb s : utf8_valid s = true -> wfb s.
Proof.
  remember (length s) as n eqn:Hn. revert s Hn.
  induction n as [n IH] using lt_wf_ind. intros s Hn H.
  destruct s as [|x t]; [constructor|].
  rewrite utf8_valid_cons in H.
  destruct (x <? 128) eqn:A.
  { constructor; [lia|]. apply (IH (length t)); [cbn in Hn; lia|reflexivity|exact H]. }
  destruct (inr 194 223 x) eqn:R2.
  { destruct t as [|y t1]; [discriminate|]. apply andb_true_iff in H. destruct H as [Cy H].
    unfold inr, cont in *. constructor; [lia|]. constructor; [unfold inr in Cy; lia|].
    apply (IH (length t1)); [cbn in Hn; lia|reflexivity|exact H]. }
  destruct (inr 224 239 x) eqn:R3.
  { destruct t as [|y [|z t2]]; try discriminate. apply andb_true_iff in H. destruct H as [Cyz H].
    apply andb_true_iff in Cyz. destruct Cyz as [Cy Cz].
    constructor; [unfold inr in R3; lia|].
    constructor; [destruct (x =? 224); [|destruct (x =? 237)]; unfold cont, inr in Cy; lia|].
    constructor; [unfold cont, inr in Cz; lia|].
    apply (IH (length t2)); [cbn in Hn; lia|reflexivity|exact H]. }
  destruct (inr 240 244 x) eqn:R4; [|discriminate].
  destruct t as [|y [|z [|w t3]]]; try discriminate. apply andb_true_iff in H. destruct H as [Cyzw H].
  apply andb_true_iff in Cyzw. destruct Cyzw as [Cyz Cw]. apply andb_true_iff in Cyz. destruct Cyz as [Cy Cz].
  constructor; [unfold inr in R4; lia|].
  constructor; [destruct (x =? 240); [|destruct (x =? 244)]; unfold cont, inr in Cy; lia|].
  constructor; [unfold cont, inr in Cz; lia|].
  constructor; [unfold cont, inr in Cw; lia|].
  apply (IH (length t3)); [cbn in Hn; lia|reflexivity|exact H].
Qed.

Lemma escape_wfb s : wfb s -> wfb (escape s).
Proof.
  induction s as [|x t IH]; intros W; [constructor|].
  inversion W as [|? ? Hx Ht]; subst. specialize (IH Ht). cbn [escape].
  assert (HD : forall d, d < 16 -> hexdigit d < 256) by (intros d Hd; unfold hexdigit; destruct (d <? 10); lia).
  destruct (x =? 34); [repeat constructor; try lia; exact IH|].
  destruct (x =? 92); [repeat constructor; try lia; exact IH|].
  destruct (x <? 32) eqn:C; [|constructor; assumption].
  constructor; [lia|]. constructor; [lia|]. constructor; [lia|]. constructor; [lia|].
  constructor; [apply HD; lia|]. constructor; [apply HD; lia|]. exact IH.
Qed.

Lemma digits_f_wfb f : forall n, wfb (digits_f f n).
Proof.
  induction f as [|f IH]; intros n; [constructor|]. rewrite digits_f_S.
  destruct (n <? 10) eqn:L; [constructor; [lia|constructor]|].
  apply wfb_app. split; [apply IH|constructor; [lia|constructor]].
Qed.

Lemma join_bytes_wfb sep ls : sep < 256 -> Forall wfb ls -> wfb (join_bytes sep ls).
Proof.
  intros Hs F. induction F as [|x r Hx Fr IH]; [constructor|].
  destruct r as [|y r']; [exact Hx|].
  change (join_bytes sep (x :: y :: r')) with (x ++ sep :: join_bytes sep (y :: r')).
  apply wfb_app. split; [exact Hx|]. constructor; [exact Hs|exact IH].
Qed.

Lemma print_jstr_wfb s : utf8_valid s = true -> wfb (print_jstr s).
Proof.
  intros H. unfold print_jstr. constructor; [lia|]. apply wfb_app.
  split; [apply escape_wfb, utf8_valid_wfb; exact H|constructor; [lia|constructor]].
Qed.

Theorem print_value_wfb v : json_utf8 v = true -> nums_exact v = true -> wfb (print_value v).
Proof.
  induction v using json_ind2; intros U X.
  - repeat constructor; lia.
  - destruct b; repeat constructor; lia.
  - cbn [nums_exact] in X. destruct x; [|discriminate]. cbn [print_value]. unfold print_zint, print_nat.
    destruct t; [apply digits_f_wfb|apply digits_f_wfb|constructor; [lia|apply digits_f_wfb]].
  - apply print_jstr_wfb. exact U.
  - cbn [print_value]. constructor; [lia|]. apply wfb_app. split; [|constructor; [lia|constructor]].
    apply join_bytes_wfb; [lia|]. apply Forall_forall. intros b Hb. apply in_map_iff in Hb.
    destruct Hb as [v [<- Hv]]. rewrite Forall_forall in H. apply (H v Hv).
    + cbn [json_utf8] in U. rewrite forallb_forall in U. auto.
    + cbn [nums_exact] in X. rewrite forallb_forall in X. auto.
  - cbn [print_value]. constructor; [lia|]. apply wfb_app. split; [|constructor; [lia|constructor]].
    apply join_bytes_wfb; [lia|]. apply Forall_forall. intros b Hb. apply in_map_iff in Hb.
    destruct Hb as [[k v] [<- Hv]]. cbn [fst snd].
    cbn [json_utf8] in U. rewrite forallb_forall in U. specialize (U _ Hv). cbn in U.
    apply andb_true_iff in U. destruct U as [Uk Uv].
    apply wfb_app. split; [apply print_jstr_wfb; exact Uk|]. constructor; [lia|].
    rewrite Forall_forall in H. apply (H (k, v) Hv); [exact Uv|].
    cbn [nums_exact] in X. rewrite forallb_forall in X. apply (X (k, v) Hv).
Qed.

(* ================= encode, then verify: the JSON law discharged ================= *)
Lemma printable_parts v : printable v = true ->
  json_utf8 v = true /\ nodup_names v = true /\ nums_exact v = true /\ (jdepth v <= recursion_limit)%nat.
Proof.
  unfold printable. intros H.
  apply andb_true_iff in H. destruct H as [H D]. apply andb_true_iff in H. destruct H as [H X].
  apply andb_true_iff in H. destruct H as [U N]. apply Nat.leb_le in D. auto.
Qed.

(* the header SignAndEncode / ComputeMACAndEncode builds is always in the printer's domain *)
Lemma encode_header_printable k r hdr pl : encode_parts k r = Some (hdr, pl) -> printable (JObj hdr) = true.
Proof.
  unfold encode_parts. destruct (kid_args (kkid k)) as [tk ck] eqn:KA.
  destruct tk as [t|]; destruct ck as [c|]; try discriminate; cbv zeta;
    (match goal with |- (if ?b then _ else _) = _ -> _ => destruct b eqn:U; [|discriminate] end;
     intros E; injection E as E1 E2; subst hdr pl;
     apply andb_true_iff in U; destruct U as [U _];
     destruct (r_typ r) as [ty|]; cbn [opt_field app] in U |- *;
     unfold printable; rewrite U; reflexivity).
Qed.

Section RoundTrip.
  Variable num : numlit -> option (Z * bytes).
  Variable sig_valid : N -> bytes -> bytes -> bool.
  Variable sign : N -> bytes -> bytes.

  (* C09_encode_then_verify_round_trips with the model's own printer and parser:
     the law json_parse (json_print f) = Some f and the byte-string law of the
     printer are theorems now; what is left is that the payload at hand lies in
     the printer's domain (a decidable condition on the claims) *)
  Theorem encode_verify_roundtrip_text keys k o v ro r tok :
    (forall kr m, sig_valid kr (sign kr m) m = true) ->
    (forall kr m, wfb (sign kr m)) ->
    (forall kr m, sign kr m <> []) ->
    new_raw_jwt ro = Some r ->
    printable (JObj (r_payload r)) = true ->
    In k keys -> kenabled k = true ->
    encode json_print_text sign k r = Some tok ->
    new_validator o = Some v -> validate v r = true ->
    verify_text num sig_valid keys o tok = Some (VOk r).
  Proof.
    intros S1 S2 S3 Hraw Pp Hin Hen Henc Ho Hval.
    unfold encode in Henc. destruct (encode_parts k r) as [[hdr pl]|] eqn:Ep; [|discriminate].
    assert (Epl : pl = r_payload r).
    { unfold encode_parts in Ep. destruct (kid_args (kkid k)) as [[t|] [c|]]; try discriminate;
        (destruct (json_utf8 _ && json_utf8 _); [|discriminate]; inversion Ep; reflexivity). }
    pose proof (encode_header_printable _ _ _ _ Ep) as Ph.
    destruct (printable_parts _ Ph) as [Uh [Nh [Xh Dh]]].
    destruct (printable_parts _ Pp) as [Up [Np [Xp Dp]]].
    unfold verify_text.
    apply (encode_verify_roundtrip_local sig_valid (json_parse_text num) json_print_text sign keys k o v ro r hdr pl tok);
      try assumption.
    - unfold encode. rewrite Ep. exact Henc.
    - apply json_print_parse_roundtrip. exact Ph.
    - subst pl. apply json_print_parse_roundtrip. exact Pp.
    - apply (print_value_wfb (JObj hdr)); assumption.
    - subst pl. apply (print_value_wfb (JObj (r_payload r))); assumption.
    - intros m. auto.
  Qed.
End RoundTrip.
