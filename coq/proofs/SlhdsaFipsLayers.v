(* The FIPS 205 algorithms 5-17 as transcribed in model/SlhdsaFips.v (32-byte
   ADRS passed by value, unbounded integers, the standard's slices) compute
   the functions of model/SlhdsaSpec.v (explicit address records), which
   proofs/Slhdsa{Wots,Xmss,Fors,Ht}Proofs.v show the Go-shaped model computes.
   Here: WOTS+ (Alg 5-8), XMSS (9-11), hypertree (12-13), FORS (14-17). *)
From Coq Require Import List NArith Bool Arith Lia ZifyN ZifyNat ZifyBool.
From Tink Require Import Bytes SlhdsaSupport SlhdsaAddr SlhdsaBase SlhdsaWots SlhdsaSpec
  SlhdsaListProofs SlhdsaSupportProofs SlhdsaWotsProofs SlhdsaXmssProofs SlhdsaForsProofs SlhdsaHtProofs
  SlhdsaFipsSupport.
From Tink Require SlhdsaFips.
Import ListNotations.
Open Scope N_scope.

(* the implementation's hash functions receive the address object and use
   its 32 bytes (adrs[:] or adrs.compress()): a family over 32-byte ADRS
   strings gives the family over address records the model is stated with *)
Definition lift (HF : F.fips_hashes) : hashes :=
  mkHashes (F.H_msg HF)
           (fun pk sk ad => F.PRF HF pk sk (adrs_bytes ad))
           (F.PRF_msg HF)
           (fun pk ad x => F.F HF pk (adrs_bytes ad) x)
           (fun pk ad x => F.H HF pk (adrs_bytes ad) x)
           (fun pk ad x => F.T_l HF pk (adrs_bytes ad) x).

(* more generally (no functional extensionality needed): a family over address
   records that agrees pointwise with a family over 32-byte ADRS strings *)
Record hashes_agree (HS : hashes) (HF : F.fips_hashes) : Prop := {
  ag_HMsg : forall r s t m, hHMsg HS r s t m = F.H_msg HF r s t m;
  ag_Prf : forall pk sk ad, hPrf HS pk sk ad = F.PRF HF pk sk (adrs_bytes ad);
  ag_PrfMsg : forall s o m, hPrfMsg HS s o m = F.PRF_msg HF s o m;
  ag_F : forall pk ad x, hF HS pk ad x = F.F HF pk (adrs_bytes ad) x;
  ag_H : forall pk ad x, hH HS pk ad x = F.H HF pk (adrs_bytes ad) x;
  ag_Tl : forall pk ad x, hTl HS pk ad x = F.T_l HF pk (adrs_bytes ad) x
}.

Lemma lift_agree HF : hashes_agree (lift HF) HF.
Proof. constructor; reflexivity. Qed.

(* what the equalities need of a parameter record (all twelve sets satisfy it,
   SlhdsaFipsTop.all_sets_fips_wf):
   h = d*h', d >= 1; the tree index fits the uint64 / 8-byte field (h-h' <= 64);
   the leaf index fits uint32 (h' <= 32); 1 <= lg_w and lg_w, a <= 25 (uint32
   accumulator of base_2b); the checksum fits 4 bytes (len2*lg_w <= 32);
   FORS node indices fit the 4-byte tree index field (k*2^a <= 2^32) *)
Definition fips_wf (P : params) : bool :=
  Nat.eqb (p_h P) (p_d P * p_hp P) && Nat.leb 1 (p_d P) && Nat.leb (p_h P - p_hp P) 64 && Nat.leb (p_hp P) 32
  && Nat.leb 1 (p_lgw P) && Nat.leb (p_lgw P + 7) 32 && Nat.leb (p_a P + 7) 32
  && Nat.leb (p_len2 P * p_lgw P) 32 && N.leb (N.of_nat (p_k P) * 2 ^ N.of_nat (p_a P)) (2 ^ 32).

Lemma fips_wf_spec P : fips_wf P = true ->
  p_h P = (p_d P * p_hp P)%nat /\ (1 <= p_d P)%nat /\ (p_h P - p_hp P <= 64)%nat /\ (p_hp P <= 32)%nat /\
  (1 <= p_lgw P)%nat /\ (p_lgw P + 7 <= 32)%nat /\ (p_a P + 7 <= 32)%nat /\ (p_len2 P * p_lgw P <= 32)%nat /\
  N.of_nat (p_k P) * 2 ^ N.of_nat (p_a P) <= 2 ^ 32.
Proof.
  unfold fips_wf. intros H.
  repeat (apply andb_prop in H; destruct H as [H ?]).
  repeat match goal with
  | H : Nat.eqb _ _ = true |- _ => apply Nat.eqb_eq in H
  | H : Nat.leb _ _ = true |- _ => apply Nat.leb_le in H
  | H : N.leb _ _ = true |- _ => apply N.leb_le in H
  end. tauto.
Qed.

Lemma even_land1 x : N.even x = N.eqb (N.land x 1) 0.
Proof. destruct x as [|p]; [reflexivity|destruct p; reflexivity]. Qed.

Lemma for_app_flat_map {B} (f : nat -> list B) : forall cnt lo acc,
  F.for_ lo cnt (fun i acc => acc ++ f i) acc = acc ++ flat_map f (seq lo cnt).
Proof.
  induction cnt as [|cnt IH]; intros lo acc; cbn [F.for_ seq flat_map].
  - rewrite app_nil_r. reflexivity.
  - rewrite IH, app_assoc. reflexivity.
Qed.

Lemma sl_chunk (X : bytes) (i n : nat) : F.sl X (i * n) ((i + 1) * n) = firstn n (skipn (i * n) X).
Proof. unfold F.sl. f_equal. lia. Qed.

Lemma sl_0 (X : bytes) (j : nat) : F.sl X 0 j = firstn j X.
Proof. unfold F.sl. rewrite Nat.sub_0_r. reflexivity. Qed.


Ltac radrs :=
  repeat (progress rewrite ?AB_setLayer, ?AB_setType, ?AB_getKP, ?AB_getIndex, ?AB_setKP, ?AB_setChain,
                           ?AB_setHeight, ?AB_setHash, ?AB_setIndex);
  unfold SlhdsaAddr.setLayerAddress, SlhdsaAddr.setTreeAddress, SlhdsaAddr.setTypeAndClear,
       SlhdsaAddr.setKeyPairAddress, SlhdsaAddr.setChainAddress, SlhdsaAddr.setTreeHeight,
       SlhdsaAddr.setHashAddress, SlhdsaAddr.setTreeIndex;
  cbn [a_layer a_tree a_typ a_kp a_w2 a_w3];
  rewrite ?AB_kp_mod;
  change F.WOTS_HASH with T_WOTSHASH; change F.WOTS_PK with T_WOTSPK; change F.TREE with T_TREE;
  change F.FORS_TREE with T_FORSTREE; change F.FORS_ROOTS with T_FORSROOTS;
  change F.WOTS_PRF with T_WOTSPRF; change F.FORS_PRF with T_FORSPRF.

(* replace the (unique) for-loop of the goal by the right-hand side of E (up to conversion) *)
Ltac use_loop E :=
  match goal with |- context [@F.for_ ?T ?a ?b ?f ?st] =>
    let lp := fresh "lp" in
    set (lp := @F.for_ T a b f st);
    let Elp := fresh "Elp" in
    match type of E with _ = ?rhs => assert (Elp : lp = rhs) by exact E end;
    rewrite Elp; clear Elp lp
  end.

Section LAYERS.
  Variable P : params.
  Variable HS : hashes.
  Variable HF : F.fips_hashes.
  Hypothesis AG : hashes_agree HS HF.
  Notation FP := (to_fips P).
  Notation n := (p_n P).
  Hypothesis WF : fips_wf P = true.

  Ltac ragree := rewrite <- ?(ag_Prf _ _ AG), <- ?(ag_F _ _ AG), <- ?(ag_H _ _ AG), <- ?(ag_Tl _ _ AG).
  Ltac radrs2 := radrs; ragree.

  Let Hlgw : (1 <= p_lgw P)%nat. Proof. apply (fips_wf_spec P WF). Qed.

  (* ---------- Algorithm 5 ---------- *)
  Lemma chain_fips : forall s i x pk l t kp c w3,
    F.chain HF x i s pk (adrs_bytes (mkA l t T_WOTSHASH kp c w3)) = chainS HS l t kp c pk x (N.of_nat i) s.
  Proof.
    unfold F.chain. induction s as [|s IH]; intros i x pk l t kp c w3; [reflexivity|].
    cbn [F.for_ chainS]. radrs2. rewrite IH. f_equal. lia.
  Qed.

  (* ---------- Algorithm 6 ---------- *)
  Lemma wots_pkGen_loop_fips sk pk l t kp w3 : forall cnt lo c1 c2 tmp,
    exists c1' c2',
    F.for_ lo cnt (fun i '(skADRS, A, tmp) =>
        let skADRS := F.setChainAddress (N.of_nat i) skADRS in
        let skv := F.PRF HF pk sk skADRS in
        let A := F.setChainAddress (N.of_nat i) A in
        (skADRS, A, tmp ++ F.chain HF skv 0 (F.f_w FP - 1) pk A))
      (adrs_bytes (mkA l t T_WOTSPRF kp c1 0), adrs_bytes (mkA l t T_WOTSHASH kp c2 w3), tmp)
    = (adrs_bytes (mkA l t T_WOTSPRF kp c1' 0), adrs_bytes (mkA l t T_WOTSHASH kp c2' w3),
       tmp ++ flat_map (fun i => chainS HS l t kp (N.of_nat i) pk (wotsSkS HS l t kp sk pk i) 0 (p_w P - 1)) (seq lo cnt)).
  Proof.
    induction cnt as [|cnt IH]; intros lo c1 c2 tmp.
    - exists c1, c2. cbn [F.for_ seq flat_map]. rewrite app_nil_r. reflexivity.
    - cbn [F.for_ seq flat_map]. radrs2. rewrite chain_fips.
      edestruct (IH (S lo)) as (c1' & c2' & E). exists c1', c2'.
      etransitivity; [exact E|]. rewrite <- app_assoc. reflexivity.
  Qed.

  Lemma wots_pkGen_fips : forall sk pk l t kp c w3,
    F.wots_pkGen FP HF sk pk (adrs_bytes (mkA l t T_WOTSHASH kp c w3)) = wotsPkGenS P HS l t kp sk pk.
  Proof.
    intros. unfold F.wots_pkGen. radrs2. rewrite f_len_eq by exact Hlgw.
    destruct (wots_pkGen_loop_fips sk pk l t kp w3 (p_len P) 0 0 c []) as (c1' & c2' & E).
    use_loop E. radrs2. reflexivity.
  Qed.

  (* ---------- lines 1-7 of Algorithms 7 and 8 ---------- *)
  Lemma for_nth_fold (g : N -> N -> N) : forall l pre lo c0, length pre = lo ->
    F.for_ lo (length l) (fun i c => g c (nth i (pre ++ l) 0)) c0 = fold_left g l c0.
  Proof.
    induction l as [|x l IH]; intros pre lo c0 Hp; [reflexivity|].
    cbn [length F.for_ fold_left]. rewrite app_nth2, Hp, Nat.sub_diag by lia. cbn [nth].
    replace (pre ++ x :: l) with ((pre ++ [x]) ++ l) by (rewrite <- app_assoc; reflexivity).
    apply IH. rewrite app_length. simpl. lia.
  Qed.

  Lemma csum_mod W : (1 <= W) -> forall l c C, Forall (fun d => d <= W - 1) l -> c = C mod 2 ^ 32 ->
    fold_left (fun c d => u32 (c + W - 1 - d)) l c = fold_left (fun c d => c + W - 1 - d) l C mod 2 ^ 32.
  Proof.
    intros HW. induction l as [|d l IH]; intros c C Hl E; [exact E|].
    inversion Hl; subst. cbn [fold_left]. apply IH; auto.
    unfold u32. change 4294967296 with (2 ^ 32).
    replace (C mod 2 ^ 32 + W - 1 - d) with (C mod 2 ^ 32 + (W - 1 - d)) by lia.
    replace (C + W - 1 - d) with (C + (W - 1 - d)) by lia.
    rewrite N.add_mod_idemp_l by discriminate. reflexivity.
  Qed.

  Lemma wots_digits_fips : forall M, F.wots_digits FP M = wotsChecksum P M.
  Proof.
    intros M. destruct (fips_wf_spec P WF) as (_ & _ & _ & _ & _ & Hb & _ & H2 & _).
    unfold F.wots_digits, wotsChecksum. cbv zeta.
    rewrite f_len1_eq, f_len2_eq, f_w_eq by exact Hlgw. cbn [to_fips F.f_lgw].
    rewrite <- !base2b_fips by exact Hb.
    set (msgb := base2b M (p_lgw P) (p_len1 P)). f_equal. f_equal.
    rewrite ceil_div_8, toByte_be. unfold SlhdsaSupport.toByte.
    set (L := ((p_len2 P * p_lgw P + 7) / 8)%nat).
    assert (HL : (8 * L <= 32)%nat).
    { unfold L. pose proof (Nat.div_mod (p_len2 P * p_lgw P + 7) 8 ltac:(lia)). lia. }
    set (sh := N.of_nat ((8 - (p_len2 P * p_lgw P) mod 8) mod 8)).
    (* the unbounded checksum *)
    assert (Ecs : F.for_ 0 (p_len1 P) (fun i csum => csum + N.of_nat (p_w P) - 1 - nth i msgb 0) 0
                  = fold_left (fun c d => c + N.of_nat (p_w P) - 1 - d) msgb 0).
    { rewrite <- (base2b_length M (p_lgw P) (p_len1 P)) at 1. fold msgb.
      exact (for_nth_fold (fun c d => c + N.of_nat (p_w P) - 1 - d) msgb [] 0 0 eq_refl). }
    rewrite Ecs. set (C := fold_left _ msgb 0).
    assert (Ec : csum_of P msgb = C mod 2 ^ 32).
    { unfold csum_of, C. apply csum_mod.
      - rewrite p_w_N. pose proof (pw_pos (p_lgw P)). unfold pw in *. lia.
      - pose proof (base2b_lt M (p_lgw P) (p_len1 P)) as Hl. fold msgb in Hl.
        rewrite p_w_N. eapply Forall_impl; [|exact Hl]. cbv beta. intros; lia.
      - reflexivity. }
    rewrite Ec.
    change (be_bytes L (u32 (u32 (N.shiftl (C mod 2 ^ 32) sh)))) with
           (be_bytes L ((N.shiftl (C mod 2 ^ 32) sh mod 2 ^ N.of_nat 32) mod 2 ^ N.of_nat 32)).
    rewrite !be_bytes_mod_ge by exact HL.
    rewrite <- (be_bytes_mod_ge L (N.shiftl (C mod 2 ^ 32) sh) 32 HL).
    rewrite <- (be_bytes_mod_ge L (N.shiftl C sh) 32 HL). f_equal.
    rewrite !N.shiftl_mul_pow2. change (2 ^ N.of_nat 32) with (2 ^ 32).
    rewrite N.mul_mod_idemp_l by discriminate. reflexivity.
  Qed.

  (* ---------- Algorithm 7 ---------- *)
  Lemma wots_sign_loop_fips sk pk l t kp w3 msgw : forall cnt lo c1 c2 sig,
    exists c1' c2',
    F.for_ lo cnt (fun i '(skADRS, A, sig) =>
        let skADRS := F.setChainAddress (N.of_nat i) skADRS in
        let skv := F.PRF HF pk sk skADRS in
        let A := F.setChainAddress (N.of_nat i) A in
        (skADRS, A, sig ++ F.chain HF skv 0 (N.to_nat (nth i msgw 0)) pk A))
      (adrs_bytes (mkA l t T_WOTSPRF kp c1 0), adrs_bytes (mkA l t T_WOTSHASH kp c2 w3), sig)
    = (adrs_bytes (mkA l t T_WOTSPRF kp c1' 0), adrs_bytes (mkA l t T_WOTSHASH kp c2' w3),
       sig ++ flat_map (fun i => chainS HS l t kp (N.of_nat i) pk (wotsSkS HS l t kp sk pk i) 0 (N.to_nat (nth i msgw 0))) (seq lo cnt)).
  Proof.
    induction cnt as [|cnt IH]; intros lo c1 c2 sig.
    - exists c1, c2. cbn [F.for_ seq flat_map]. rewrite app_nil_r. reflexivity.
    - cbn [F.for_ seq flat_map]. radrs2. rewrite chain_fips.
      edestruct (IH (S lo)) as (c1' & c2' & E). exists c1', c2'.
      etransitivity; [exact E|]. rewrite <- app_assoc. reflexivity.
  Qed.

  Lemma wots_sign_fips : forall M sk pk l t kp c w3,
    F.wots_sign FP HF M sk pk (adrs_bytes (mkA l t T_WOTSHASH kp c w3)) = wotsSignS P HS l t kp (wotsChecksum P M) sk pk.
  Proof.
    intros. unfold F.wots_sign. radrs2. rewrite f_len_eq by exact Hlgw. rewrite wots_digits_fips.
    destruct (wots_sign_loop_fips sk pk l t kp w3 (wotsChecksum P M) (p_len P) 0 0 c []) as (c1' & c2' & E).
    use_loop E. reflexivity.
  Qed.

  (* ---------- Algorithm 8 ---------- *)
  Lemma wots_pkFromSig_loop_fips sig pk l t kp w3 msgw : forall cnt lo c tmp,
    exists c',
    F.for_ lo cnt (fun i '(A, tmp) =>
        let A := F.setChainAddress (N.of_nat i) A in
        (A, tmp ++ F.chain HF (F.sl sig (i * n) ((i + 1) * n)) (N.to_nat (nth i msgw 0))
                           (F.f_w FP - 1 - N.to_nat (nth i msgw 0)) pk A))
      (adrs_bytes (mkA l t T_WOTSHASH kp c w3), tmp)
    = (adrs_bytes (mkA l t T_WOTSHASH kp c' w3),
       tmp ++ flat_map (fun i => let mi := nth i msgw 0 in
                                 chainS HS l t kp (N.of_nat i) pk (chunk P i sig) mi (N.to_nat (N.of_nat (p_w P) - 1 - mi)))
                       (seq lo cnt)).
  Proof.
    induction cnt as [|cnt IH]; intros lo c tmp.
    - exists c. cbn [F.for_ seq flat_map]. rewrite app_nil_r. reflexivity.
    - cbn [F.for_ seq flat_map]. radrs2. rewrite chain_fips, sl_chunk.
      edestruct (IH (S lo)) as (c' & E). exists c'.
      etransitivity; [exact E|]. rewrite <- app_assoc. cbv zeta. unfold chunk. rewrite N2Nat.id, f_w_eq.
      replace (p_w P - 1 - N.to_nat (nth lo msgw 0%N))%nat with (N.to_nat (N.of_nat (p_w P) - 1 - nth lo msgw 0)) by lia.
      reflexivity.
  Qed.

  Lemma wots_pkFromSig_fips : forall sig M pk l t kp c w3,
    F.wots_pkFromSig FP HF sig M pk (adrs_bytes (mkA l t T_WOTSHASH kp c w3))
    = wotsPkFromSigS P HS l t kp (wotsChecksum P M) sig pk.
  Proof.
    intros. unfold F.wots_pkFromSig. rewrite f_len_eq by exact Hlgw. rewrite wots_digits_fips.
    cbn [to_fips F.f_n].
    destruct (wots_pkFromSig_loop_fips sig pk l t kp w3 (wotsChecksum P M) (p_len P) 0 c []) as (c' & E).
    use_loop E. radrs2. reflexivity.
  Qed.

  (* ---------- Algorithm 9 ---------- *)
  Lemma xmss_node_fips : forall z sk i pk ad,
    F.xmss_node FP HF sk i z pk (adrs_bytes ad) = xmssNodeS P HS (a_layer ad) (a_tree ad) sk pk z i.
  Proof.
    induction z as [|z IH]; intros sk i pk ad.
    - cbn [F.xmss_node xmssNodeS]. radrs2. apply wots_pkGen_fips.
    - cbn [F.xmss_node xmssNodeS]. rewrite !IH. radrs2. reflexivity.
  Qed.

  (* ---------- Algorithm 10 ---------- *)
  Lemma xmss_sign_fips : forall M sk idx pk ad,
    F.xmss_sign FP HF M sk idx pk (adrs_bytes ad) = xmssSignS P HS (a_layer ad) (a_tree ad) M sk idx pk.
  Proof.
    intros. unfold F.xmss_sign, xmssSignS. radrs2. rewrite wots_sign_fips. f_equal.
    cbn [to_fips F.f_hp].
    rewrite (for_app_flat_map (fun j => F.xmss_node FP HF sk (N.lxor (idx / 2 ^ N.of_nat j) 1) j pk (adrs_bytes ad))).
    cbn [app]. apply flat_map_seq_ext. intros j _. rewrite xmss_node_fips, N.shiftr_div_pow2. reflexivity.
  Qed.

  (* ---------- the climb of Algorithms 11 and 17 ---------- *)
  Lemma climb_fips (l t y kp : N) (idx : N) (auth pk : bytes) (tidx : N) : tidx < 2 ^ 32 ->
    forall cnt k w2 node,
    (forall j, (k <= j < k + cnt)%nat -> N.land (N.shiftr idx (N.of_nat j)) 1 = N.land (N.shiftr tidx (N.of_nat j)) 1) ->
    exists w2' w3',
    F.for_ k cnt (fun k '(A, node0) =>
        let A := F.setTreeHeight (N.of_nat k + 1) A in
        if N.even (idx / 2 ^ N.of_nat k) then
          let A := F.setTreeIndex (F.getTreeIndex A / 2) A in
          (A, F.H HF pk A (node0 ++ F.sl auth (k * n) ((k + 1) * n)))
        else
          let A := F.setTreeIndex ((F.getTreeIndex A - 1) / 2) A in
          (A, F.H HF pk A (F.sl auth (k * n) ((k + 1) * n) ++ node0)))
      (adrs_bytes (mkA l t y kp w2 (N.shiftr tidx (N.of_nat k))), node)
    = (adrs_bytes (mkA l t y kp w2' w3'),
       climbS P HS (fun h i => mkA l t y kp h i) cnt k tidx idx auth pk node).
  Proof.
    intros Ht. induction cnt as [|cnt IH]; intros k w2 node Hpar.
    - exists w2, (N.shiftr tidx (N.of_nat k)). reflexivity.
    - cbn [F.for_ climbS]. rewrite <- N.shiftr_div_pow2, even_land1. radrs2.
      assert (Hsm : N.shiftr tidx (N.of_nat k) mod 2 ^ 32 = N.shiftr tidx (N.of_nat k)).
      { apply N.mod_small. rewrite N.shiftr_div_pow2. eapply N.le_lt_trans; [|exact Ht].
        apply N.div_le_upper_bound; [apply N.pow_nonzero; lia|].
        pose proof (pw_pos k). unfold pw in *. nia. }
      rewrite Hsm, !sl_chunk. fold (chunk P k auth).
      rewrite shiftr_succ, shiftr1_div.
      pose proof (Hpar k ltac:(lia)) as Hk.
      assert (Hs : N.shiftr tidx (N.of_nat k) / 2 = N.shiftr tidx (N.of_nat (S k))).
      { replace (N.of_nat (S k)) with (N.of_nat k + 1) by lia. rewrite shiftr_succ, shiftr1_div. reflexivity. }
      destruct (N.eqb_spec (N.land (N.shiftr idx (N.of_nat k)) 1) 0) as [E|E].
      + radrs2. rewrite !Hs.
        edestruct (IH (S k)) as (w2' & w3' & E2); [|exists w2', w3'; exact E2].
        intros j Hj; apply Hpar; lia.
      + radrs2.
        assert (Hodd : (N.shiftr tidx (N.of_nat k) - 1) / 2 = N.shiftr tidx (N.of_nat k) / 2).
        { rewrite Hk, land1_mod in E. set (x := N.shiftr tidx (N.of_nat k)) in *.
          pose proof (N.div_mod x 2 ltac:(lia)) as D. pose proof (N.mod_lt x 2 ltac:(lia)) as L.
          assert (X : x = 2 * (x / 2) + 1) by lia. rewrite X at 1.
          replace (2 * (x / 2) + 1 - 1) with ((x / 2) * 2) by lia. apply N.div_mul. lia. }
        rewrite Hodd, !Hs.
        edestruct (IH (S k)) as (w2' & w3' & E2); [|exists w2', w3'; exact E2].
        intros j Hj; apply Hpar; lia.
  Qed.

  (* ---------- Algorithm 11 ---------- *)
  Lemma climbS_ext mkad pk tidx idx auth auth' : forall cnt k node,
    (forall j, (k <= j < k + cnt)%nat -> chunk P j auth = chunk P j auth') ->
    climbS P HS mkad cnt k tidx idx auth pk node = climbS P HS mkad cnt k tidx idx auth' pk node.
  Proof.
    induction cnt as [|cnt IH]; intros k node Hc; [reflexivity|].
    cbn [climbS]. rewrite (Hc k) by lia. apply IH. intros; apply Hc; lia.
  Qed.

  Lemma chunk_firstn (X : bytes) (j m : nat) : (j < m)%nat -> chunk P j (firstn (m * n) X) = chunk P j X.
  Proof.
    intros H. unfold chunk. rewrite skipn_firstn_comm, firstn_firstn. f_equal. nia.
  Qed.

  Lemma xmss_pkFromSig_fips : forall idx sig M pk ad, idx < 2 ^ 32 ->
    F.xmss_pkFromSig FP HF idx sig M pk (adrs_bytes ad) = xmssPkFromSigS P HS (a_layer ad) (a_tree ad) idx sig M pk.
  Proof.
    intros idx sig M pk ad Hidx. unfold F.xmss_pkFromSig, xmssPkFromSigS. cbn [to_fips F.f_hp F.f_n].
    rewrite f_len_eq by exact Hlgw. radrs2. rewrite wots_pkFromSig_fips, sl_0.
    set (node0 := wotsPkFromSigS P HS (a_layer ad) (a_tree ad) idx (wotsChecksum P M) (firstn (p_len P * n) sig) pk).
    set (AUTH := F.sl sig (p_len P * n) ((p_len P + p_hp P) * n)).
    edestruct (climb_fips (a_layer ad) (a_tree ad) T_TREE 0 idx AUTH pk idx Hidx (p_hp P) 0%nat 0 node0)
      as (w2' & w3' & E); [reflexivity|].
    use_loop E. cbn [snd]. apply climbS_ext. intros j Hj. unfold AUTH, F.sl.
    replace ((p_len P + p_hp P) * n - p_len P * n)%nat with (p_hp P * n)%nat by lia.
    apply chunk_firstn. lia.
  Qed.

  (* ---------- Algorithms 12 and 13 ---------- *)
  Lemma htLeaf_mod it : htLeaf P it = it mod 2 ^ N.of_nat (p_hp P).
  Proof.
    destruct (fips_wf_spec P WF) as (_ & _ & _ & Hhp & _).
    unfold htLeaf. rewrite N.land_ones. unfold u32. change 4294967296 with (2 ^ 32).
    apply N.mod_small. eapply N.lt_le_trans; [apply N.mod_lt, N.pow_nonzero; lia|].
    apply N.pow_le_mono_r; lia.
  Qed.

  Lemma htLeaf_lt32 it : htLeaf P it < 2 ^ 32.
  Proof.
    destruct (fips_wf_spec P WF) as (_ & _ & _ & Hhp & _).
    eapply N.lt_le_trans; [apply htLeaf_lt|]. apply N.pow_le_mono_r; lia.
  Qed.

  Lemma htUp_lt it : it < 2 ^ 64 -> htUp P it < 2 ^ 64.
  Proof.
    intros H. unfold htUp. rewrite N.shiftr_div_pow2. eapply N.le_lt_trans; [|exact H].
    apply N.div_le_upper_bound; [apply N.pow_nonzero; lia|].
    pose proof (pw_pos (p_hp P)). unfold pw in *. nia.
  Qed.

  Lemma ht_sign_loop_fips sk pk : forall cnt j it il ad root SIG,
    (j + cnt = p_d P)%nat -> it < 2 ^ 64 ->
    snd (F.for_ j cnt (fun j '(idx_tree, idx_leaf, A, root, SIG_HT) =>
        let idx_leaf := idx_tree mod 2 ^ N.of_nat (p_hp P) in
        let idx_tree := N.shiftr idx_tree (N.of_nat (p_hp P)) in
        let A := F.setLayerAddress (N.of_nat j) A in
        let A := F.setTreeAddress idx_tree A in
        let SIG_tmp := F.xmss_sign FP HF root sk idx_leaf pk A in
        let SIG_HT := SIG_HT ++ SIG_tmp in
        let root := if Nat.ltb j (p_d P - 1) then F.xmss_pkFromSig FP HF idx_leaf SIG_tmp root pk A else root in
        (idx_tree, idx_leaf, A, root, SIG_HT))
      (it, il, adrs_bytes ad, root, SIG))
    = SIG ++ htSignS_loop P HS cnt j sk pk it root.
  Proof.
    induction cnt as [|cnt IH]; intros j it il ad root SIG Hj Hit.
    - cbn [F.for_ snd htSignS_loop]. rewrite app_nil_r. reflexivity.
    - cbn [F.for_ htSignS_loop]. fold (htUp P it). rewrite <- htLeaf_mod.
      rewrite AB_setLayer, AB_setTree by (apply htUp_lt; exact Hit).
      rewrite xmss_sign_fips. unfold SlhdsaAddr.setLayerAddress, SlhdsaAddr.setTreeAddress. cbn [a_layer a_tree].
      destruct (Nat.ltb_spec j (p_d P - 1)) as [L|L].
      + rewrite xmss_pkFromSig_fips by apply htLeaf_lt32. cbn [a_layer a_tree].
        rewrite IH by (try lia; apply htUp_lt; exact Hit). rewrite <- app_assoc. reflexivity.
      + assert (cnt = 0)%nat by lia. subst cnt. cbn [F.for_ snd htSignS_loop]. rewrite app_nil_r. reflexivity.
  Qed.

  Lemma ht_sign_fips : forall M sk pk it il, it < 2 ^ 64 -> il < 2 ^ 32 ->
    F.ht_sign FP HF M sk pk it il = htSignS P HS M sk pk it il.
  Proof.
    intros M sk pk it il Hit Hil. unfold F.ht_sign, htSignS. cbn [to_fips F.f_hp F.f_d].
    rewrite AB_zero, AB_setTree by exact Hit.
    rewrite xmss_sign_fips, xmss_pkFromSig_fips by exact Hil.
    unfold SlhdsaAddr.setTreeAddress, newAddress. cbn [a_layer a_tree].
    set (s0 := xmssSignS P HS 0 it M sk il pk).
    pose proof (ht_sign_loop_fips sk pk (p_d P - 1) 1 it il (mkA 0 it 0 0 0 0)
                  (xmssPkFromSigS P HS 0 it il s0 M pk) s0) as E.
    destruct (fips_wf_spec P WF) as (_ & Hd & _).
    specialize (E ltac:(lia) Hit).
    match goal with |- context [@F.for_ ?T ?a ?b ?f ?st] => set (lp := @F.for_ T a b f st) end.
    match type of E with _ = ?rhs => assert (E' : snd lp = rhs) by exact E end.
    rewrite <- E'. destruct lp as [[[[a1 a2] a3] a4] a5]. reflexivity.
  Qed.

  Lemma ht_verify_loop_fips sigHT pk : forall cnt j it il ad node, it < 2 ^ 64 ->
    snd (F.for_ j cnt (fun j '(idx_tree, idx_leaf, A, node) =>
        let idx_leaf := idx_tree mod 2 ^ N.of_nat (p_hp P) in
        let idx_tree := N.shiftr idx_tree (N.of_nat (p_hp P)) in
        let A := F.setLayerAddress (N.of_nat j) A in
        let A := F.setTreeAddress idx_tree A in
        let SIG_tmp := F.sl sigHT (j * (p_hp P + p_len P) * n) ((j + 1) * (p_hp P + p_len P) * n) in
        let node := F.xmss_pkFromSig FP HF idx_leaf SIG_tmp node pk A in
        (idx_tree, idx_leaf, A, node))
      (it, il, adrs_bytes ad, node))
    = htVerifyS_loop P HS cnt j sigHT pk it node.
  Proof.
    induction cnt as [|cnt IH]; intros j it il ad node Hit; [reflexivity|].
    cbn [F.for_ htVerifyS_loop]. fold (htUp P it). rewrite <- htLeaf_mod.
    rewrite AB_setLayer, AB_setTree by (apply htUp_lt; exact Hit).
    rewrite xmss_pkFromSig_fips by apply htLeaf_lt32.
    unfold SlhdsaAddr.setLayerAddress, SlhdsaAddr.setTreeAddress. cbn [a_layer a_tree].
    rewrite IH by (apply htUp_lt; exact Hit). do 2 f_equal.
    unfold F.sl, xmssSigSize. f_equal; [lia|f_equal; lia].
  Qed.

  Lemma ht_verify_fips : forall M sigHT pk it il root, it < 2 ^ 64 -> il < 2 ^ 32 ->
    F.ht_verify FP HF M sigHT pk it il root = htVerifyS P HS M sigHT pk it il root.
  Proof.
    intros M sigHT pk it il root Hit Hil. unfold F.ht_verify, htVerifyS. cbn [to_fips F.f_hp F.f_d F.f_n].
    rewrite f_len_eq by exact Hlgw.
    rewrite AB_zero, AB_setTree by exact Hit.
    rewrite xmss_pkFromSig_fips by exact Hil.
    unfold SlhdsaAddr.setTreeAddress, newAddress. cbn [a_layer a_tree].
    rewrite sl_0. fold (xmssSigSize P).
    set (node0 := xmssPkFromSigS P HS 0 it il (firstn (xmssSigSize P) sigHT) M pk).
    pose proof (ht_verify_loop_fips sigHT pk (p_d P - 1) 1 it il (mkA 0 it 0 0 0 0) node0 Hit) as E.
    match goal with |- context [@F.for_ ?T ?a ?b ?f ?st] => set (lp := @F.for_ T a b f st) end.
    match type of E with _ = ?rhs => assert (E' : snd lp = rhs) by exact E end.
    rewrite <- E'. destruct lp as [[[a1 a2] a3] a4]. reflexivity.
  Qed.

  (* ---------- Algorithm 14 ---------- *)
  Lemma fors_skGen_fips : forall sk pk ad idx,
    F.fors_skGen HF sk pk (adrs_bytes ad) idx = forsSkS HS (a_layer ad) (a_tree ad) (a_kp ad) sk pk idx.
  Proof. intros. unfold F.fors_skGen, forsSkS. radrs2. reflexivity. Qed.

  (* ---------- Algorithm 15 ---------- *)
  Lemma fors_node_fips : forall z sk i pk l t kp w2 w3,
    F.fors_node HF sk i z pk (adrs_bytes (mkA l t T_FORSTREE kp w2 w3)) = forsNodeS HS l t kp sk pk z i.
  Proof.
    induction z as [|z IH]; intros.
    - cbn [F.fors_node forsNodeS]. rewrite fors_skGen_fips. radrs2. reflexivity.
    - cbn [F.fors_node forsNodeS]. rewrite !IH. radrs2. reflexivity.
  Qed.

  (* ---------- Algorithm 16 ---------- *)
  Lemma fors_sign_fips : forall md sk pk l t kp w2 w3,
    F.fors_sign FP HF md sk pk (adrs_bytes (mkA l t T_FORSTREE kp w2 w3))
    = forsSignS P HS l t kp (base2b md (p_a P) (p_k P)) sk pk.
  Proof.
    intros. destruct (fips_wf_spec P WF) as (_ & _ & _ & _ & _ & _ & Ha & _).
    unfold F.fors_sign, forsSignS. cbn [to_fips F.f_a F.f_k]. rewrite <- base2b_fips by exact Ha.
    set (indices := base2b md (p_a P) (p_k P)).
    set (A := adrs_bytes (mkA l t T_FORSTREE kp w2 w3)).
    rewrite (for_ext _ (fun i acc => acc ++
               (F.fors_skGen HF sk pk A (N.of_nat i * 2 ^ N.of_nat (p_a P) + nth i indices 0)
                ++ flat_map (fun j => F.fors_node HF sk
                       (N.of_nat i * 2 ^ N.of_nat (p_a P - j) + N.lxor (nth i indices 0 / 2 ^ N.of_nat j) 1) j pk A)
                     (seq 0 (p_a P))))).
    2:{ intros i s _. cbv zeta. rewrite for_app_flat_map. cbn [app]. rewrite app_assoc. reflexivity. }
    rewrite for_app_flat_map. cbn [app]. apply flat_map_seq_ext. intros i _. cbv zeta.
    unfold A. rewrite fors_skGen_fips. cbn [a_layer a_tree a_kp]. unfold forsLeafIdx. rewrite N.shiftl_mul_pow2.
    f_equal. apply flat_map_seq_ext. intros j _. rewrite fors_node_fips, N.shiftl_mul_pow2, N.shiftr_div_pow2.
    reflexivity.
  Qed.

  (* ---------- Algorithm 17 ---------- *)
  Lemma fors_parity (i : nat) (ind : N) : forall j, (j < p_a P)%nat ->
    N.land (N.shiftr ind (N.of_nat j)) 1 = N.land (N.shiftr (forsLeafIdx P i ind) (N.of_nat j)) 1.
  Proof.
    intros j Hj. unfold forsLeafIdx. rewrite (leaf_shiftr (N.of_nat i) ind (p_a P) j) by lia.
    destruct (shiftl_even (N.of_nat i) (p_a P - j) ltac:(lia)) as [X EX]. rewrite EX.
    symmetry. apply even_add_land1.
  Qed.

  Lemma fors_leaf_lt32 (i : nat) (ind : N) : (i < p_k P)%nat -> ind < 2 ^ N.of_nat (p_a P) -> forsLeafIdx P i ind < 2 ^ 32.
  Proof.
    intros Hi Hind. destruct (fips_wf_spec P WF) as (_ & _ & _ & _ & _ & _ & _ & _ & Hk).
    unfold forsLeafIdx. rewrite N.shiftl_mul_pow2.
    pose proof (pw_pos (p_a P)). unfold pw in *. nia.
  Qed.

  Lemma fors_pkFromSig_loop_fips sig pk l t kp (indices : list N) :
    (forall i, (i < p_k P)%nat -> nth i indices 0 < 2 ^ N.of_nat (p_a P)) ->
    forall cnt lo w2 w3 root, (lo + cnt <= p_k P)%nat ->
    exists w2' w3',
    F.for_ lo cnt (fun i '(A, root) =>
        let skv := F.sl sig (i * (p_a P + 1) * n) ((i * (p_a P + 1) + 1) * n) in
        let A := F.setTreeHeight 0 A in
        let A := F.setTreeIndex (N.of_nat i * 2 ^ N.of_nat (p_a P) + nth i indices 0) A in
        let node0 := F.F HF pk A skv in
        let auth := F.sl sig ((i * (p_a P + 1) + 1) * n) ((i + 1) * (p_a P + 1) * n) in
        let '(A, node0) :=
          F.for_ 0 (p_a P) (fun j '(A, node0) =>
            let A := F.setTreeHeight (N.of_nat j + 1) A in
            if N.even (nth i indices 0 / 2 ^ N.of_nat j) then
              let A := F.setTreeIndex (F.getTreeIndex A / 2) A in
              (A, F.H HF pk A (node0 ++ F.sl auth (j * n) ((j + 1) * n)))
            else
              let A := F.setTreeIndex ((F.getTreeIndex A - 1) / 2) A in
              (A, F.H HF pk A (F.sl auth (j * n) ((j + 1) * n) ++ node0)))
          (A, node0) in
        (A, root ++ node0))
      (adrs_bytes (mkA l t T_FORSTREE kp w2 w3), root)
    = (adrs_bytes (mkA l t T_FORSTREE kp w2' w3'),
       root ++ flat_map (fun i =>
         let ind := nth i indices 0 in
         let a := p_a P in
         let skv := firstn n (skipn (i * (a + 1) * n) sig) in
         let auth := firstn ((i + 1) * (a + 1) * n - (i * (a + 1) + 1) * n) (skipn ((i * (a + 1) + 1) * n) sig) in
         climbS P HS (fun h x => mkA l t T_FORSTREE kp h x) a 0 (forsLeafIdx P i ind) ind auth pk
                (hF HS pk (mkA l t T_FORSTREE kp 0 (forsLeafIdx P i ind)) skv))
         (seq lo cnt)).
  Proof.
    intros Hind. induction cnt as [|cnt IH]; intros lo w2 w3 root Hlo.
    - exists w2, w3. cbn [F.for_ seq flat_map]. rewrite app_nil_r. reflexivity.
    - cbn [F.for_ seq flat_map]. radrs2.
      set (ind := nth lo indices 0).
      assert (Eidx : N.of_nat lo * 2 ^ N.of_nat (p_a P) + ind = forsLeafIdx P lo ind).
      { unfold forsLeafIdx. rewrite N.shiftl_mul_pow2. reflexivity. }
      rewrite Eidx.
      set (auth := F.sl sig ((lo * (p_a P + 1) + 1) * n) ((lo + 1) * (p_a P + 1) * n)).
      set (skv := F.sl sig (lo * (p_a P + 1) * n) ((lo * (p_a P + 1) + 1) * n)).
      edestruct (climb_fips l t T_FORSTREE kp ind auth pk (forsLeafIdx P lo ind)
                   (fors_leaf_lt32 lo ind ltac:(lia) (Hind lo ltac:(lia))) (p_a P) 0%nat 0
                   (hF HS pk (mkA l t T_FORSTREE kp 0 (forsLeafIdx P lo ind)) skv))
        as (w2a & w3a & E); [intros j Hj; apply fors_parity; lia|].
      match goal with |- context [@F.for_ ?T 0%nat ?b ?f ?st] =>
        let lp := fresh "lp" in set (lp := @F.for_ T 0%nat b f st);
        match type of E with _ = ?rhs => assert (Elp : lp = rhs) by exact E end; rewrite Elp; clear Elp lp end.
      edestruct (IH (S lo)) as (w2' & w3' & E2); [lia|]. exists w2', w3'.
      etransitivity; [exact E2|]. rewrite <- app_assoc. cbv zeta. fold ind. unfold skv, auth, F.sl.
      replace ((lo * (p_a P + 1) + 1) * n - lo * (p_a P + 1) * n)%nat with n by lia. reflexivity.
  Qed.

  Lemma fors_pkFromSig_fips : forall sig md pk l t kp w2 w3,
    F.fors_pkFromSig FP HF sig md pk (adrs_bytes (mkA l t T_FORSTREE kp w2 w3))
    = forsPkFromSigS P HS l t kp (base2b md (p_a P) (p_k P)) sig pk.
  Proof.
    intros. destruct (fips_wf_spec P WF) as (_ & _ & _ & _ & _ & _ & Ha & _).
    unfold F.fors_pkFromSig, forsPkFromSigS. cbn [to_fips F.f_a F.f_k F.f_n]. rewrite <- base2b_fips by exact Ha.
    set (indices := base2b md (p_a P) (p_k P)).
    assert (Hind : forall i, (i < p_k P)%nat -> nth i indices 0 < 2 ^ N.of_nat (p_a P)).
    { intros i Hi. pose proof (base2b_lt md (p_a P) (p_k P)) as Hl. fold indices in Hl.
      rewrite Forall_forall in Hl. apply Hl. apply nth_In. unfold indices. rewrite base2b_length. exact Hi. }
    destruct (fors_pkFromSig_loop_fips sig pk l t kp indices Hind (p_k P) 0 w2 w3 [] ltac:(lia)) as (w2' & w3' & E).
    use_loop E. radrs2. reflexivity.
  Qed.
End LAYERS.
