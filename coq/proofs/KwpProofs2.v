(* Second round of proofs about model/Kwp.v (audit item C08 a):

   * the KEK-size rule of NewKWP: exactly 16- and 32-byte keys (AES-192 keys
     and everything else are refused) -- [kwp_key_ok] finally in a theorem;
   * Wrap and Unwrap are TOTAL for every accepted KEK and every input: the
     result is Ok or Err, never a panic, assuming only that the block
     function returns 16 bytes on 16-byte blocks (no inverse law, no
     well-formedness), with the exact error sets:
       Wrap   : Err  <->  |data| < 16  \/  8192 < |data|
       Unwrap : Err  <->  |c| < 24 \/ 8200 < |c| \/ |c| mod 8 <> 0
                          \/ integrity failure of W^-1(c)  (wrong A65959A6,
                             length field inconsistent with |c|, non-zero padding). *)
From Coq Require Import List NArith Bool Arith Lia ZifyBool ZifyNat ZifyN.
From Tink Require Import Bytes Kwp KwpProofs.
Import ListNotations.
Open Scope N_scope.

(* ---------------- the KEK-size rule ---------------- *)

Theorem kwp_key_ok_iff n : kwp_key_ok n = true <-> n = 16%nat \/ n = 32%nat.
Proof.
  unfold kwp_key_ok. rewrite orb_true_iff, !Nat.eqb_eq. reflexivity.
Qed.

(* ---------------- Wrap is total, for every block function ---------------- *)

Theorem kwp_wrap_total (E : bytes -> bytes) d :
  kwp_wrap E d <> Panic /\
  (kwp_wrap E d = Err <-> N.of_nat (length d) < 16 \/ 8192 < N.of_nat (length d)) /\
  (16 <= N.of_nat (length d) <= 8192 -> exists c, kwp_wrap E d = Ok c).
Proof.
  unfold kwp_wrap, MinWrapSize, MaxWrapSize.
  destruct (N.ltb (N.of_nat (length d)) 16) eqn:H1.
  - apply N.ltb_lt in H1. split; [discriminate|]. split; [|lia]. split; [auto|reflexivity].
  - apply N.ltb_ge in H1. destruct (N.ltb 8192 (N.of_nat (length d))) eqn:H2.
    + apply N.ltb_lt in H2. split; [discriminate|]. split; [|lia]. split; [auto|reflexivity].
    + apply N.ltb_ge in H2. split; [discriminate|]. split.
      * split; [discriminate|lia].
      * intros _. eexists. reflexivity.
Qed.

Section UnwrapTotal.
  Variable D : bytes -> bytes.
  Hypothesis D_len : forall b, length b = 16%nat -> length (D b) = 16%nat.

  Lemma xor_ctr_length A t : length A = 8%nat -> length (xor_ctr A t) = 8%nat.
  Proof.
    intros HA. unfold xor_ctr.
    rewrite app_length, firstn_length, xorb_length, skipn_length, be_bytes_length. lia.
  Qed.

  Lemma unwrap_pass_shape i n : forall rs A, length A = 8%nat -> blocks_ok rs ->
    length (fst (unwrap_pass D i n A rs)) = 8%nat /\ blocks_ok (snd (unwrap_pass D i n A rs))
    /\ length (snd (unwrap_pass D i n A rs)) = length rs.
  Proof.
    induction rs as [|r rs IH]; intros A HA Hrs.
    - cbn. repeat split; auto; constructor.
    - inversion Hrs as [|r' rs' Hr Hrs']; subst. cbn [unwrap_pass].
      set (t := N.of_nat _).
      pose proof (xor_ctr_length A t HA) as HX.
      assert (HB : length (D (xor_ctr A t ++ r)) = 16%nat) by (apply D_len; rewrite app_length; lia).
      specialize (IH (firstn 8 (D (xor_ctr A t ++ r))) ltac:(rewrite firstn_length; lia) Hrs').
      destruct (unwrap_pass D i n _ rs) as [A' out]. cbn [fst snd] in *.
      destruct IH as [I1 [I2 I3]]. repeat split; auto.
      + constructor; auto. rewrite skipn_length. lia.
      + cbn [length]. lia.
  Qed.

  Lemma unwrap_rounds_shape' n : forall k A rs, length A = 8%nat -> blocks_ok rs ->
    length (fst (unwrap_rounds D k n A rs)) = 8%nat /\ blocks_ok (snd (unwrap_rounds D k n A rs))
    /\ length (snd (unwrap_rounds D k n A rs)) = length rs.
  Proof.
    induction k as [|k IH]; intros A rs HA Hrs; [cbn; auto|].
    cbn [unwrap_rounds].
    pose proof (unwrap_pass_shape k n rs A HA Hrs) as [S1 [S2 S3]].
    destruct (unwrap_pass D k n A rs) as [A' rs']. cbn [fst snd] in *.
    destruct (IH A' rs' S1 S2) as [I1 [I2 I3]]. repeat split; auto. lia.
  Qed.

  (* W^-1 is defined on every input of at least 24 bytes that is a multiple of 8 *)
  Lemma invertW_total c : (24 <= length c)%nat -> (length c mod 8 = 0)%nat ->
    exists u, invertW D c = Ok u /\ length u = length c.
  Proof.
    intros H24 H8. unfold invertW.
    replace (Nat.ltb (length c) 24) with false by (symmetry; apply Nat.ltb_ge; lia).
    rewrite H8. cbn [Nat.eqb negb orb].
    pose proof (Nat.div_mod (length c) 8 ltac:(lia)) as Hdm.
    set (n := (length c / 8 - 1)%nat) in *.
    assert (HA0 : length (firstn 8 c) = 8%nat) by (rewrite firstn_length; lia).
    assert (Hs : length (skipn 8 c) = (8 * n)%nat) by (rewrite skipn_length; lia).
    assert (Hrs0 : blocks_ok (blocks8 n (skipn 8 c))) by (apply blocks8_ok; exact Hs).
    pose proof (unwrap_rounds_shape' n roundCount (firstn 8 c) (rev (blocks8 n (skipn 8 c))) HA0
                  (blocks_ok_rev _ Hrs0)) as [S1 [S2 S3]].
    destruct (unwrap_rounds D roundCount n (firstn 8 c) (rev (blocks8 n (skipn 8 c)))) as [A rs_rev].
    cbn [fst snd] in *. eexists. split; [reflexivity|].
    rewrite app_length, concat_length_blocks by (apply blocks_ok_rev; exact S2).
    rewrite rev_length, S3, rev_length, blocks8_length. lia.
  Qed.

  Lemma invertW_err c : (length c < 24)%nat \/ (length c mod 8 <> 0)%nat -> invertW D c = Err.
  Proof.
    intros H. unfold invertW.
    destruct (Nat.ltb (length c) 24) eqn:H1; [reflexivity|]. apply Nat.ltb_ge in H1.
    destruct (Nat.eqb (length c mod 8) 0) eqn:H2; [apply Nat.eqb_eq in H2; lia|reflexivity].
  Qed.

  (* the integrity checks Unwrap applies to u = W^-1(c) *)
  Definition integrity_ok (u : bytes) : Prop :=
    be_val (firstn 4 u) = ivPrefix /\
    wrappingSizeN (be_val (firstn 4 (skipn 4 u))) = N.of_nat (length u) /\
    all_zero (skipn (8 + N.to_nat (be_val (firstn 4 (skipn 4 u)))) u) = true.

  Lemma unwrap_checks_spec u :
    (integrity_ok u -> unwrap_checks u = Ok (firstn (N.to_nat (be_val (firstn 4 (skipn 4 u)))) (skipn 8 u))) /\
    (~ integrity_ok u -> unwrap_checks u = Err).
  Proof.
    unfold integrity_ok, unwrap_checks. split.
    - intros [H1 [H2 H3]]. apply N.eqb_eq in H1, H2. rewrite H1, H2, H3. reflexivity.
    - intros Hn.
      destruct (N.eqb (be_val (firstn 4 u)) ivPrefix) eqn:H1; [|reflexivity]. cbn [negb].
      destruct (N.eqb (wrappingSizeN _) _) eqn:H2; [|reflexivity]. cbn [negb].
      destruct (all_zero _) eqn:H3; [|reflexivity]. exfalso. apply Hn.
      apply N.eqb_eq in H1, H2. auto.
  Qed.

  (* Unwrap is total; exact result in terms of W^-1 *)
  Theorem kwp_unwrap_total c :
    kwp_unwrap D c <> Panic /\
    (kwp_unwrap D c = Err <->
       N.of_nat (length c) < 24 \/ 8200 < N.of_nat (length c) \/ (length c mod 8 <> 0)%nat \/
       exists u, invertW D c = Ok u /\ ~ integrity_ok u) /\
    (forall d, kwp_unwrap D c = Ok d <->
       24 <= N.of_nat (length c) <= 8200 /\ (length c mod 8 = 0)%nat /\
       exists u, invertW D c = Ok u /\ integrity_ok u /\
                 d = firstn (N.to_nat (be_val (firstn 4 (skipn 4 u)))) (skipn 8 u)).
  Proof.
    destruct (N.lt_ge_cases (N.of_nat (length c)) 24) as [C1|C1].
    { rewrite (kwp_unwrap_size_limits D) by (left; exact C1).
      split; [discriminate|]. split; [split; auto|]. intros d. split; [discriminate|lia]. }
    destruct (N.lt_ge_cases 8200 (N.of_nat (length c))) as [C2|C2].
    { rewrite (kwp_unwrap_size_limits D) by (right; left; exact C2).
      split; [discriminate|]. split; [split; auto|]. intros d. split; [discriminate|lia]. }
    destruct (Nat.eq_dec (length c mod 8) 0) as [C3|C3].
    2:{ rewrite (kwp_unwrap_size_limits D) by (right; right; exact C3).
        split; [discriminate|]. split; [split; auto|]. intros d. split; [discriminate|lia]. }
    destruct (invertW_total c ltac:(lia) C3) as [u [Hu Hl]].
    rewrite (kwp_unwrap_eq D c ltac:(lia) C3 u Hu Hl).
    destruct (unwrap_checks_spec u) as [Sok Serr].
    assert (Dec : integrity_ok u \/ ~ integrity_ok u).
    { unfold integrity_ok.
      destruct (N.eq_dec (be_val (firstn 4 u)) ivPrefix) as [E1|E1]; [|right; tauto].
      destruct (N.eq_dec (wrappingSizeN (be_val (firstn 4 (skipn 4 u)))) (N.of_nat (length u))) as [E2|E2];
        [|right; tauto].
      destruct (all_zero (skipn (8 + N.to_nat (be_val (firstn 4 (skipn 4 u)))) u)) eqn:E3;
        [left; auto|right; intros [_ [_ X]]; discriminate]. }
    destruct Dec as [Hi|Hi].
    - rewrite (Sok Hi). split; [discriminate|]. split.
      + split; [discriminate|]. intros [X|[X|[X|[u' [Hu' Hn]]]]]; try lia.
        rewrite Hu in Hu'. injection Hu' as <-. contradiction.
      + intros d. split.
        * intros E. injection E as <-. split; [lia|]. split; [exact C3|]. exists u. auto.
        * intros [_ [_ [u' [Hu' [_ ->]]]]]. rewrite Hu in Hu'. injection Hu' as <-. reflexivity.
    - rewrite (Serr Hi). split; [discriminate|]. split.
      + split; [|reflexivity]. intros _. right. right. right. exists u. auto.
      + intros d. split; [discriminate|].
        intros [_ [_ [u' [Hu' [Hi' _]]]]]. rewrite Hu in Hu'. injection Hu' as <-. contradiction.
  Qed.

  Corollary kwp_unwrap_no_panic_weak c : kwp_unwrap D c <> Panic.
  Proof. apply kwp_unwrap_total. Qed.

  (* an accepted unwrapping has between 9 and 8192 bytes *)
  Corollary kwp_unwrap_ok_length c d : kwp_unwrap D c = Ok d ->
    9 <= N.of_nat (length d) <= 8192 /\ wrappingSize (length d) = length c.
  Proof.
    intros Ho. apply kwp_unwrap_total in Ho. destruct Ho as [Hc [H8 [u [Hu [[_ [Hw Hz]] ->]]]]].
    destruct (invertW_total c ltac:(lia) H8) as [u' [Hu' Hl]]. rewrite Hu in Hu'. injection Hu' as <-.
    set (e := be_val (firstn 4 (skipn 4 u))) in *.
    assert (He : wrappingSizeN e = N.of_nat (length c)) by (rewrite Hw, Hl; reflexivity).
    assert (Hb : (N.to_nat e + 8 <= length u)%nat).
    { unfold wrappingSizeN in Hw. lia. }
    rewrite firstn_length, skipn_length.
    replace (Nat.min (N.to_nat e) (length u - 8)) with (N.to_nat e) by lia.
    rewrite N2Nat.id. split.
    - unfold wrappingSizeN in He.
      pose proof (N.mod_lt (e + 7) 8 ltac:(lia)). pose proof (N.div_mod (e + 7) 8 ltac:(lia)). lia.
    - rewrite <- (N2Nat.id e) in He. rewrite wrappingSizeN_nat in He. lia.
  Qed.
End UnwrapTotal.

(* ---------------- the API as a function of the KEK bytes ---------------- *)

Section Api.
  Variable AESenc AESdec : bytes -> bytes -> bytes.
  (* crypto/aes for the key sizes NewKWP lets through: a 16-byte block is
     mapped to a 16-byte block *)
  Hypothesis dec_len : forall k b, (length k = 16 \/ length k = 32)%nat -> length b = 16%nat ->
                                   length (AESdec k b) = 16%nat.

  Theorem kwp_api_total kek data :
    (* NewKWP refuses every KEK that is not 16 or 32 bytes long *)
    ((length kek <> 16 /\ length kek <> 32)%nat ->
       kwp_api_wrap AESenc kek data = None /\ kwp_api_unwrap AESdec kek data = None) /\
    (* for an accepted KEK both operations return a value or an error *)
    ((length kek = 16 \/ length kek = 32)%nat ->
       (exists r, kwp_api_wrap AESenc kek data = Some r /\ r <> Panic /\
          (r = Err <-> N.of_nat (length data) < 16 \/ 8192 < N.of_nat (length data))) /\
       (exists r, kwp_api_unwrap AESdec kek data = Some r /\ r <> Panic /\
          (r = Err <->
             N.of_nat (length data) < 24 \/ 8200 < N.of_nat (length data) \/ (length data mod 8 <> 0)%nat \/
             exists u, invertW (AESdec kek) data = Ok u /\ ~ integrity_ok u))).
  Proof.
    unfold kwp_api_wrap, kwp_api_unwrap. split.
    - intros [H1 H2]. destruct (kwp_key_ok (length kek)) eqn:Hk; [|auto].
      apply kwp_key_ok_iff in Hk. lia.
    - intros Hk. pose proof (proj2 (kwp_key_ok_iff (length kek)) Hk) as Hok. rewrite Hok. split.
      + eexists. split; [reflexivity|].
        destruct (kwp_wrap_total (AESenc kek) data) as [Hp [He _]]. auto.
      + eexists. split; [reflexivity|].
        assert (Dl : forall b, length b = 16%nat -> length (AESdec kek b) = 16%nat)
          by (intros b Hb; apply dec_len; assumption).
        destruct (kwp_unwrap_total (AESdec kek) Dl data) as [Hp [He _]]. auto.
  Qed.
End Api.
