(* List facts used by the SLH-DSA proofs: n-byte chunks of a concatenation
   of n-byte blocks. *)
From Coq Require Import List NArith Bool Arith Lia.
From Tink Require Import Bytes.
Import ListNotations.

Lemma flat_map_length_const {A B} (f : A -> list B) (l : list A) (n : nat) :
  (forall x, In x l -> length (f x) = n) -> length (flat_map f l) = (length l * n)%nat.
Proof.
  induction l as [|x l IH]; intros H; simpl; auto.
  rewrite app_length, H by (simpl; auto). rewrite IH; [lia|].
  intros; apply H; simpl; auto.
Qed.

Lemma flat_map_seq_length {B} (f : nat -> list B) (s cnt n : nat) :
  (forall i, (s <= i < s + cnt)%nat -> length (f i) = n) -> length (flat_map f (seq s cnt)) = (cnt * n)%nat.
Proof.
  intros H. rewrite (flat_map_length_const f _ n), seq_length; auto.
  intros x Hx. apply in_seq in Hx. apply H. lia.
Qed.

Lemma flat_map_seq_ext {B} (f g : nat -> list B) (s cnt : nat) :
  (forall i, (s <= i < s + cnt)%nat -> f i = g i) -> flat_map f (seq s cnt) = flat_map g (seq s cnt).
Proof.
  revert s; induction cnt as [|cnt IH]; intros s H; simpl; auto.
  rewrite H by lia. f_equal. apply IH. intros; apply H; lia.
Qed.

(* chunk i of a concatenation of n-byte blocks is block i *)
Lemma chunk_flat_map_seq {B} (f : nat -> list B) (n : nat) : forall cnt s i rest,
  (forall j, (s <= j < s + cnt)%nat -> length (f j) = n) -> (i < cnt)%nat ->
  firstn n (skipn (i * n) (flat_map f (seq s cnt) ++ rest)) = f (s + i)%nat.
Proof.
  induction cnt as [|cnt IH]; intros s i rest Hlen Hi; [lia|].
  cbn [seq flat_map]. rewrite <- app_assoc.
  destruct i as [|i].
  - simpl. rewrite Nat.add_0_r. rewrite firstn_app, <- (Hlen s) at 1 by lia.
    rewrite firstn_all, (Hlen s), Nat.sub_diag by lia. simpl. apply app_nil_r.
  - replace (S i * n)%nat with (length (f s) + i * n)%nat by (rewrite Hlen by lia; lia).
    rewrite skipn_app, skipn_all2 by lia. simpl.
    replace (length (f s) + i * n - length (f s))%nat with (i * n)%nat by lia.
    rewrite IH by (try lia; intros; apply Hlen; lia). f_equal. lia.
Qed.

Lemma firstn_skipn_app_l {B} (l r : list B) (a b : nat) :
  (a + b <= length l)%nat -> firstn b (skipn a (l ++ r)) = firstn b (skipn a l).
Proof.
  intros H. rewrite skipn_app, firstn_app, skipn_length.
  replace (b - (length l - a))%nat with 0%nat by lia. simpl. apply app_nil_r.
Qed.

Lemma skipn_app_exact {B} (l r : list B) (a : nat) : a = length l -> skipn a (l ++ r) = r.
Proof. intros ->. rewrite skipn_app, skipn_all, Nat.sub_diag. reflexivity. Qed.

Lemma firstn_app_exact {B} (l r : list B) (a : nat) : a = length l -> firstn a (l ++ r) = l.
Proof. intros ->. rewrite firstn_app, firstn_all, Nat.sub_diag. simpl. apply app_nil_r. Qed.

(* skipping i blocks of a concatenation of m-byte blocks leaves block i in front *)
Lemma skipn_flat_map_seq {B} (f : nat -> list B) (m : nat) : forall cnt s i,
  (forall j, (s <= j < s + cnt)%nat -> length (f j) = m) -> (i < cnt)%nat ->
  skipn (i * m) (flat_map f (seq s cnt)) = f (s + i)%nat ++ flat_map f (seq (s + i + 1) (cnt - i - 1)).
Proof.
  induction cnt as [|cnt IH]; intros s i Hlen Hi; [lia|].
  cbn [seq flat_map]. destruct i as [|i].
  - simpl. rewrite Nat.add_0_r, Nat.sub_0_r. replace (s + 1)%nat with (S s) by lia. reflexivity.
  - replace (S i * m)%nat with (length (f s) + i * m)%nat by (rewrite Hlen by lia; lia).
    rewrite skipn_app, skipn_all2 by lia. simpl.
    replace (length (f s) + i * m - length (f s))%nat with (i * m)%nat by lia.
    rewrite IH by (try lia; intros; apply Hlen; lia).
    replace (S s + i)%nat with (s + S i)%nat by lia. reflexivity.
Qed.

Lemma skipn_add {B} (x y : nat) (l : list B) : skipn x (skipn y l) = skipn (x + y) l.
Proof.
  revert l; induction y as [|y IH]; intros l.
  - rewrite Nat.add_0_r. reflexivity.
  - destruct l as [|b l]; [rewrite !skipn_nil; reflexivity|].
    replace (x + S y)%nat with (S (x + y)) by lia. simpl. apply IH.
Qed.
