(* The tokenizer variant of model/Json.v that the keyset JSON reader uses
   (lex_one_pj / lex_pj / json_parse_text_pj: protojson's number token on the
   INTEGER path, where a bare exponent marker followed by a delimiter is cut
   off as part of the token and then ignored), against the tokenizer of
   property C09:

     json_parse_pj_extends      whatever json_parse_text accepts is accepted with
                                the same value
     lex_one_pj_cases           a token of the variant is a token of lex_one, or
                                the dangling form  <int>[.<frac>] e <delimiter>
     the facts the keyset theorems need, re-proved for the variant: accepted
     texts are valid UTF-8 and start with '{'; blank text, duplicate names,
     trailing data are refused; JSON whitespace around the text changes nothing.

   The token loop of the variant is NOT closed under removing trailing
   whitespace at the level of tokens ("1e " is a token sequence, "1e" is not):
   the lemmas about appending / cutting are stated for token sequences that do
   not end in a number or literal (closed), which is all an object text needs. *)
From Coq Require Import List NArith ZArith Bool Lia ZifyN ZifyNat ZifyBool Arith.
From Tink Require Import Bytes Base64url Jwt Json JsonLexProofs JsonProofs.
Import ListNotations.
Open Scope N_scope.

(* ================= the dangling token ================= *)
(* what must follow the marker: one more byte, and it is a delimiter *)
Definition follows_dangling (y : bytes) : bool :=
  match y with [] => false | c :: _ => negb (is_not_delim c) end.

Lemma follows_dangling_app r x : r <> [] -> follows_dangling (r ++ x) = follows_dangling r.
Proof. destruct r; [congruence|reflexivity]. Qed.

Lemma follows_dangling_ws w : all_ws w = true -> w <> [] -> follows_dangling w = true.
Proof.
  destruct w as [|c w]; [congruence|]. cbn [all_ws forallb follows_dangling]. intros H _.
  apply andb_true_iff in H. destruct H as [H _]. unfold is_ws in H. unfold is_not_delim, is_digit. lia.
Qed.

Lemma lex_dangling_u_local neg s l r : lex_dangling_u neg s = Some (l, r) ->
  exists pre, s = pre ++ r /\ pre <> [] /\ plain pre = true /\ hd_ok is_digit pre = true
    /\ is_ws (last pre 0) = false /\ follows_dangling r = true /\ nl_exp l = None
    /\ (forall y, follows_dangling y = true -> lex_dangling_u neg (pre ++ y) = Some (l, y))
    /\ (forall y, follows_dangling y = true -> lex_unsigned neg (pre ++ y) = None).
Proof.
  unfold lex_dangling_u.
  destruct (lex_int s) as [[ip s2]|] eqn:LI; [|discriminate].
  destruct (lex_frac s2) as [fr s3] eqn:LF.
  destruct s3 as [|e [|c t]]; try discriminate.
  destruct (((e =? 101) || (e =? 69)) && negb (is_not_delim c)) eqn:C; [|discriminate].
  intros E. inversion E; subst l r. clear E.
  apply andb_true_iff in C. destruct C as [Ce Cd].
  destruct (lex_int_local _ _ _ LI) as [E1 [NEi [Pi [Hi Fi]]]].
  destruct (lex_frac_local _ _ _ LF) as [pf [E2 [Pf [Hf Ff]]]].
  assert (Pe : plainb e = true) by (unfold plainb, is_ws; lia).
  assert (TAIL : forall y, follows_dangling y = true ->
            hd_ok nondigit (pf ++ e :: y) = true /\ hd_ok stops_frac (e :: y) = true).
  { intros y _. split.
    - rewrite hd_ok_app. destruct pf as [|p pf]; cbn [hd_ok] in *; unfold nondigit, is_digit; lia.
    - cbn [hd_ok]. unfold stops_frac, nondigit, is_digit. lia. }
  exists (ip ++ pf ++ [e]).
  split; [rewrite E1, E2, <- !app_assoc; reflexivity|].
  split; [destruct ip; [congruence|discriminate]|].
  split; [rewrite !plain_app, Pi, Pf; cbn [plain forallb]; rewrite Pe; reflexivity|].
  split; [destruct ip; [congruence|exact Hi]|].
  split; [rewrite !app_assoc, last_last; unfold is_ws; lia|].
  split; [exact Cd|]. split; [reflexivity|]. split.
  - intros y Hy. destruct (TAIL y Hy) as [T1 T2].
    rewrite <- !app_assoc. cbn [app]. rewrite (Fi _ T1), (Ff _ T2).
    destruct y as [|c' t']; [discriminate|]. cbn [follows_dangling] in Hy. rewrite Ce, Hy. reflexivity.
  - intros y Hy. destruct (TAIL y Hy) as [T1 T2]. unfold lex_unsigned.
    rewrite <- !app_assoc. cbn [app]. rewrite (Fi _ T1), (Ff _ T2).
    destruct y as [|c' t']; [discriminate|]. cbn [follows_dangling] in Hy.
    assert (X : lex_exp (e :: c' :: t') = (None, e :: c' :: t')).
    { unfold lex_exp. rewrite Ce.
      replace (is_digit c') with false by (unfold is_not_delim in Hy; destruct (is_digit c'); lia).
      replace ((c' =? 43) || (c' =? 45)) with false by (unfold is_not_delim in Hy; lia). reflexivity. }
    rewrite X. cbn [delim_next]. replace (is_not_delim e) with true by (unfold is_not_delim; lia). reflexivity.
Qed.

Lemma lex_dangling_local s l r : lex_dangling s = Some (l, r) ->
  exists pre, s = pre ++ r /\ pre <> [] /\ plain pre = true
    /\ ((hd 0 pre =? 45) || is_digit (hd 0 pre)) = true
    /\ is_ws (last pre 0) = false /\ follows_dangling r = true /\ nl_exp l = None
    /\ (forall y, follows_dangling y = true -> lex_dangling (pre ++ y) = Some (l, y))
    /\ (forall y, follows_dangling y = true -> lex_number (pre ++ y) = None).
Proof.
  destruct s as [|c t]; [discriminate|]. cbn [lex_dangling].
  destruct (c =? 45) eqn:M; intros H.
  - destruct (lex_dangling_u_local _ _ _ _ H) as [pre [E [NE [P [Hd [Lw [FD [NX [F G]]]]]]]]].
    exists (c :: pre).
    split; [cbn [app]; rewrite <- E; reflexivity|]. split; [discriminate|].
    split; [cbn [plain forallb]; replace (plainb c) with true by (unfold plainb, is_ws; lia); exact P|].
    split; [cbn [hd]; rewrite M; reflexivity|].
    split; [change (c :: pre) with ([c] ++ pre); rewrite last_app_ne by exact NE; exact Lw|].
    split; [exact FD|]. split; [exact NX|]. split.
    + intros y Hy. cbn [app lex_dangling]. rewrite M. apply F. exact Hy.
    + intros y Hy. cbn [app]. rewrite lex_number_unsigned, M. apply G. exact Hy.
  - destruct (lex_dangling_u_local _ _ _ _ H) as [pre [E [NE [P [Hd [Lw [FD [NX [F G]]]]]]]]].
    destruct pre as [|c' pre]; [congruence|]. cbn [app] in E. inversion E; subst c'.
    exists (c :: pre).
    split; [cbn [app]; f_equal; assumption|]. split; [discriminate|]. split; [exact P|].
    split; [cbn [hd hd_ok] in *; rewrite Hd; apply orb_true_r|].
    split; [exact Lw|]. split; [exact FD|]. split; [exact NX|]. split.
    + intros y Hy. cbn [app lex_dangling]. rewrite M. apply (F y Hy).
    + intros y Hy. cbn [app]. rewrite lex_number_unsigned, M. apply (G y Hy).
Qed.

(* ================= one token ================= *)
Lemma lex_one_number num c t : ((c =? 45) || is_digit c) = true ->
  lex_one num c t = match lex_number (c :: t) with
                    | Some (l, r) => match num_value num l with
                                     | Some (z, x) => Some (TNum z x, r)
                                     | None => None
                                     end
                    | None => None
                    end.
Proof.
  intros H. unfold lex_one. unfold is_digit in H.
  replace (c =? 123) with false by lia. replace (c =? 125) with false by lia.
  replace (c =? 91) with false by lia. replace (c =? 93) with false by lia.
  replace (c =? 44) with false by lia. replace (c =? 58) with false by lia.
  replace (c =? 34) with false by lia. replace (c =? 110) with false by lia.
  replace (c =? 116) with false by lia. replace (c =? 102) with false by lia.
  replace ((c =? 45) || is_digit c) with true by (unfold is_digit; lia). reflexivity.
Qed.

Lemma lex_one_lbrace num c t r : lex_one num c t = Some (TLBrace, r) -> c = 123.
Proof.
  unfold lex_one. intros L1.
  destruct (c =? 123) eqn:Q1; [apply N.eqb_eq; exact Q1|]. exfalso.
  repeat match type of L1 with
         | (if ?b then _ else _) = _ => destruct b; [try discriminate|]
         end; try discriminate.
  - destruct (lex_string t) as [[? ?]|]; discriminate.
  - unfold lex_literal in L1. destruct (strip_prefix _ _); [destruct (delim_next _)|]; discriminate.
  - unfold lex_literal in L1. destruct (strip_prefix _ _); [destruct (delim_next _)|]; discriminate.
  - unfold lex_literal in L1. destruct (strip_prefix _ _); [destruct (delim_next _)|]; discriminate.
  - destruct (lex_number _) as [[? ?]|]; [destruct (num_value _ _) as [[? ?]|]|]; discriminate.
Qed.

Section LexPj.
  Variable num : numlit -> option (Z * bytes).

  Definition lex_one_pj' (s : bytes) : option (token * bytes) :=
    match s with c :: t => lex_one_pj num c t | [] => None end.

  (* what may follow a token: d = it is the dangling form *)
  Definition pj_follow (d : bool) (tok : token) (y : bytes) : bool :=
    if d then follows_dangling y else tok_follow tok y.

  Lemma pj_follow_app d tok r x : r <> [] -> pj_follow d tok (r ++ x) = pj_follow d tok r.
  Proof. intros NE. destruct d; cbn [pj_follow]; [apply follows_dangling_app|apply tok_follow_app]; exact NE. Qed.

  (* the cases of one token: a token of the C09 tokenizer, or the dangling form *)
  Theorem lex_one_pj_cases c t tok r :
    lex_one_pj num c t = Some (tok, r) <->
    lex_one num c t = Some (tok, r)
    \/ (lex_one num c t = None /\ exists l z x, lex_dangling (c :: t) = Some (l, r)
          /\ num_value num l = Some (z, x) /\ tok = TNum z x).
  Proof.
    unfold lex_one_pj. destruct (lex_one num c t) as [[tk rr]|] eqn:L1.
    - split; [intros H; left; exact H|]. intros [H|[H _]]; [exact H|discriminate].
    - split.
      + destruct (lex_dangling (c :: t)) as [[l r']|] eqn:LD; [|discriminate].
        destruct (num_value num l) as [[z x]|] eqn:NV; [|discriminate].
        intros E. inversion E; subst. right. split; [reflexivity|]. exists l, z, x. auto.
      + intros [H|[_ [l [z [x [LD [NV ->]]]]]]]; [discriminate|]. rewrite LD, NV. reflexivity.
  Qed.

  Definition token_local_pj (s : bytes) (tok : token) (r : bytes) : Prop :=
    exists pre d, s = pre ++ r /\ pre <> [] /\ is_ws (last pre 0) = false /\ is_ws (hd 0 pre) = false
      /\ utf8_valid pre = true /\ tok_utf8 tok = true /\ pj_follow d tok r = true
      /\ (d = true -> needs_delim tok = true)
      /\ forall y, pj_follow d tok y = true -> lex_one_pj' (pre ++ y) = Some (tok, y).

  Lemma lex_one_pj_local c t tok r : lex_one_pj num c t = Some (tok, r) -> token_local_pj (c :: t) tok r.
  Proof.
    intros H. apply lex_one_pj_cases in H. destruct H as [H|[L1 [l [z [x [LD [NV ->]]]]]]].
    - destruct (lex_one_local num _ _ _ _ H) as [pre [E [NE [Lw [Hw [U [TU [TF F]]]]]]]].
      exists pre, false. repeat (split; [assumption|]). split; [discriminate|].
      intros y Hy. specialize (F y Hy). destruct pre as [|c' pre]; [congruence|].
      cbn [app lex_one_pj' lex_one'] in *. unfold lex_one_pj. rewrite F. reflexivity.
    - destruct (lex_dangling_local _ _ _ LD) as [pre [E [NE [P [Hd [Lw [FD [NX [F G]]]]]]]]].
      exists pre, true. split; [exact E|]. split; [exact NE|]. split; [exact Lw|].
      split; [unfold is_ws, is_digit in *; lia|]. split; [apply plain_utf8; exact P|].
      split; [reflexivity|]. split; [exact FD|]. split; [reflexivity|].
      intros y Hy. cbn [pj_follow] in Hy. destruct pre as [|c' pre]; [congruence|]. cbn [hd] in Hd.
      cbn [app lex_one_pj']. unfold lex_one_pj.
      rewrite (lex_one_number num c' (pre ++ y) Hd).
      change (c' :: pre ++ y) with ((c' :: pre) ++ y). rewrite (G y Hy), (F y Hy), NV. reflexivity.
  Qed.

  Lemma lex_one_pj_shrinks c t tok r : lex_one_pj num c t = Some (tok, r) -> (length r <= length t)%nat.
  Proof.
    intros H. destruct (lex_one_pj_local _ _ _ _ H) as [pre [d [E [NE _]]]].
    apply (f_equal (@length N)) in E. rewrite app_length in E. cbn [length] in E.
    destruct pre; [congruence|]. cbn [length] in E. lia.
  Qed.

  (* ================= the token loop ================= *)
  Lemma lex_f_pj_fuel : forall n m s, (length s < n)%nat -> (length s < m)%nat -> lex_f_pj num n s = lex_f_pj num m s.
  Proof.
    induction n as [|n IH]; intros m s Hn Hm; [lia|].
    destruct m as [|m]; [lia|]. cbn [lex_f_pj].
    pose proof (skip_ws_length s) as SL.
    destruct (skip_ws s) as [|c t] eqn:SK; [reflexivity|].
    destruct (lex_one_pj num c t) as [[tok r]|] eqn:L1; [|reflexivity].
    apply lex_one_pj_shrinks in L1. cbn [length] in SL.
    rewrite (IH m r) by lia. reflexivity.
  Qed.

  Lemma lex_pj_eq s :
    lex_pj num s = match skip_ws s with
                   | [] => Some []
                   | c :: t => match lex_one_pj num c t with
                               | None => None
                               | Some (tok, r) => match lex_pj num r with
                                                  | Some ts => Some (tok :: ts)
                                                  | None => None
                                                  end
                               end
                   end.
  Proof.
    unfold lex_pj at 1. cbn [lex_f_pj].
    pose proof (skip_ws_length s) as SL.
    destruct (skip_ws s) as [|c t] eqn:SK; [reflexivity|].
    destruct (lex_one_pj num c t) as [[tok r]|] eqn:L1; [|reflexivity].
    apply lex_one_pj_shrinks in L1. cbn [length] in SL. unfold lex_pj.
    rewrite (lex_f_pj_fuel (length s) (S (length r)) r) by lia. reflexivity.
  Qed.

  Lemma lex_pj_nil : lex_pj num [] = Some [].
  Proof. reflexivity. Qed.

  Lemma lex_pj_skip_ws w s : all_ws w = true -> lex_pj num (w ++ s) = lex_pj num s.
  Proof. intros H. rewrite (lex_pj_eq (w ++ s)), (lex_pj_eq s), skip_ws_all by exact H. reflexivity. Qed.

  Lemma lex_pj_all_ws w : all_ws w = true -> lex_pj num w = Some [].
  Proof. intros H. rewrite lex_pj_eq, skip_ws_nil by exact H. reflexivity. Qed.

  Lemma lex_pj_some_nil r : lex_pj num r = Some [] -> all_ws r = true.
  Proof.
    rewrite lex_pj_eq. destruct (skip_ws_split r) as [w [Hw E]].
    destruct (skip_ws r) as [|c t].
    - intros _. rewrite E, app_nil_r. exact Hw.
    - destruct (lex_one_pj num c t) as [[tok r']|]; [|discriminate].
      destruct (lex_pj num r'); discriminate.
  Qed.

  (* the C09 tokenizer is extended: same tokens wherever it succeeds *)
  Theorem lex_pj_extends s : forall ts, lex num s = Some ts -> lex_pj num s = Some ts.
  Proof.
    remember (length s) as n eqn:Hn. revert s Hn.
    induction n as [n IH] using lt_wf_ind. intros s Hn ts H.
    rewrite lex_eq in H. rewrite lex_pj_eq.
    pose proof (skip_ws_length s) as SL.
    destruct (skip_ws s) as [|c t] eqn:SK; [exact H|].
    destruct (lex_one num c t) as [[tok r]|] eqn:L1; [|discriminate].
    destruct (lex num r) as [ts'|] eqn:LR; [|discriminate]. inversion H; subst ts. clear H.
    unfold lex_one_pj. rewrite L1.
    pose proof (lex_one_shrinks num _ _ _ _ L1) as LS. cbn [length] in SL.
    rewrite (IH (length r) ltac:(lia) r eq_refl ts' LR). reflexivity.
  Qed.

  (* a token sequence that does not end in a number or a literal *)
  Definition closed (ts : list token) : bool :=
    match ts with [] => true | _ => negb (needs_delim (last ts TComma)) end.

  Lemma closed_tail tok ts : closed (tok :: ts) = true -> closed ts = true.
  Proof. destruct ts as [|t0 ts]; [reflexivity|]. intros H. exact H. Qed.

  (* what follows the token tok (rest r of the text, rest ts' of the tokens) *)
  Lemma follow_of_rest d tok r ts' x :
    pj_follow d tok r = true -> (d = true -> needs_delim tok = true) ->
    lex_pj num r = Some ts' -> closed (tok :: ts') = true ->
    pj_follow d tok (r ++ x) = true.
  Proof.
    intros TF DN LR CL. destruct r as [|cr r'].
    - rewrite lex_pj_nil in LR. inversion LR; subst ts'. cbn [closed last] in CL.
      apply negb_true_iff in CL. destruct d; [rewrite DN in CL by reflexivity; discriminate|].
      cbn [pj_follow]. unfold tok_follow. rewrite CL. reflexivity.
    - rewrite pj_follow_app by discriminate. exact TF.
  Qed.

  Lemma lex_pj_app_closed s1 : forall ts1 x, lex_pj num s1 = Some ts1 -> closed ts1 = true ->
    lex_pj num (s1 ++ x) = match lex_pj num x with Some ts2 => Some (ts1 ++ ts2) | None => None end.
  Proof.
    remember (length s1) as n eqn:Hn. revert s1 Hn.
    induction n as [n IH] using lt_wf_ind. intros s1 Hn ts1 x H CL.
    destruct (skip_ws_split s1) as [w [Hw Es]].
    rewrite lex_pj_eq in H.
    destruct (skip_ws s1) as [|c t] eqn:SK.
    { inversion H; subst ts1. rewrite Es, app_nil_r, lex_pj_skip_ws by exact Hw.
      destruct (lex_pj num x); reflexivity. }
    destruct (lex_one_pj num c t) as [[tok r]|] eqn:L1; [|discriminate].
    destruct (lex_pj num r) as [ts'|] eqn:LR; [|discriminate].
    inversion H; subst ts1. clear H.
    destruct (lex_one_pj_local _ _ _ _ L1) as [pre [d [E [NE [Lw [Hw' [U [TU [TF [DN F]]]]]]]]]].
    assert (LenR : (length r < n)%nat).
    { subst n. rewrite Es, app_length, E, app_length. destruct pre; [congruence|]. cbn [length]. lia. }
    rewrite Es, <- app_assoc, lex_pj_skip_ws by exact Hw.
    pose proof (follow_of_rest d tok r ts' x TF DN LR CL) as TF'.
    specialize (F _ TF'). destruct pre as [|c' pre']; [congruence|]. cbn [hd] in Hw'.
    rewrite E, <- app_assoc. cbn [app lex_one_pj'] in F |- *.
    rewrite lex_pj_eq, skip_ws_id by exact Hw'. rewrite F.
    rewrite (IH (length r) LenR r eq_refl ts' x LR (closed_tail _ _ CL)).
    destruct (lex_pj num x); reflexivity.
  Qed.

  Lemma lex_pj_trailing_ws_back s : forall w ts, all_ws w = true ->
    lex_pj num (s ++ w) = Some ts -> closed ts = true -> lex_pj num s = Some ts.
  Proof.
    remember (length s) as n eqn:Hn. revert s Hn.
    induction n as [n IH] using lt_wf_ind. intros s Hn w ts Hw H CL.
    destruct (skip_ws_split s) as [w0 [Hw0 Es]].
    rewrite Es, <- app_assoc, lex_pj_skip_ws in H by exact Hw0.
    rewrite (lex_pj_eq s).
    destruct (skip_ws s) as [|c t] eqn:SK.
    { cbn [app] in H. rewrite lex_pj_all_ws in H by exact Hw. exact H. }
    rewrite lex_pj_eq in H. cbn [app] in H. rewrite skip_ws_id in H by (eapply skip_ws_head; exact SK).
    destruct (lex_one_pj num c (t ++ w)) as [[tok r']|] eqn:L1; [|discriminate].
    destruct (lex_pj num r') as [ts'|] eqn:LR; [|discriminate].
    inversion H; subst ts. clear H.
    destruct (lex_one_pj_local _ _ _ _ L1) as [pre [d [E [NE [Lw [Hw' [U [TU [TF [DN F]]]]]]]]]].
    change (c :: t ++ w) with ((c :: t) ++ w) in E. symmetry in E.
    destruct (split_before_ws _ _ _ _ E Hw NE Lw) as [r [Ea Er]].
    assert (TFr : pj_follow d tok r = true).
    { destruct r as [|cr r0].
      - cbn [app] in Er. subst r'. rewrite lex_pj_all_ws in LR by exact Hw. inversion LR; subst ts'.
        cbn [closed last] in CL. apply negb_true_iff in CL.
        destruct d; [rewrite DN in CL by reflexivity; discriminate|].
        cbn [pj_follow]. unfold tok_follow. rewrite CL. reflexivity.
      - subst r'. rewrite pj_follow_app in TF by discriminate. exact TF. }
    specialize (F _ TFr). rewrite <- Ea in F. cbn [lex_one_pj'] in F. rewrite F.
    assert (LenR : (length r < n)%nat).
    { subst n. rewrite Es, app_length, Ea, app_length. destruct pre; [congruence|]. cbn [length]. lia. }
    subst r'. rewrite (IH (length r) LenR r eq_refl w ts' Hw LR (closed_tail _ _ CL)). reflexivity.
  Qed.

  Theorem lex_pj_utf8 s : forall ts, lex_pj num s = Some ts ->
    utf8_valid s = true /\ forallb tok_utf8 ts = true.
  Proof.
    remember (length s) as n eqn:Hn. revert s Hn.
    induction n as [n IH] using lt_wf_ind. intros s Hn ts H.
    destruct (skip_ws_split s) as [w [Hw Es]].
    rewrite lex_pj_eq in H.
    destruct (skip_ws s) as [|c t] eqn:SK.
    { inversion H; subst ts. rewrite Es, app_nil_r. split; [apply all_ws_utf8; exact Hw|reflexivity]. }
    destruct (lex_one_pj num c t) as [[tok r]|] eqn:L1; [|discriminate].
    destruct (lex_pj num r) as [ts'|] eqn:LR; [|discriminate].
    inversion H; subst ts. clear H.
    destruct (lex_one_pj_local _ _ _ _ L1) as [pre [d [E [NE [Lw [Hw' [U [TU _]]]]]]]].
    assert (LenR : (length r < n)%nat).
    { subst n. rewrite Es, app_length, E, app_length. destruct pre; [congruence|]. cbn [length]. lia. }
    destruct (IH (length r) LenR r eq_refl ts' LR) as [Ur Ut].
    split.
    - rewrite Es, E. apply utf8_valid_app_true; [apply all_ws_utf8; exact Hw|].
      apply utf8_valid_app_true; assumption.
    - cbn [forallb]. rewrite TU, Ut. reflexivity.
  Qed.

  Lemma lex_pj_first_token s ts : lex_pj num s = Some ts ->
    match skip_ws s with
    | [] => ts = []
    | c :: t => exists tok r ts', lex_one_pj num c t = Some (tok, r) /\ ts = tok :: ts'
    end.
  Proof.
    rewrite lex_pj_eq. destruct (skip_ws s) as [|c t]; [intros E; inversion E; reflexivity|].
    destruct (lex_one_pj num c t) as [[tok r]|]; [|discriminate].
    destruct (lex_pj num r) as [ts'|]; [|discriminate]. intros E. inversion E. eauto.
  Qed.

  (* ================= the text parser of the variant ================= *)
  Lemma closed_obj f : closed (toks (JObj f)) = true.
  Proof.
    rewrite toks_obj. change (TLBrace :: toks_members f ++ [TRBrace]) with ((TLBrace :: toks_members f) ++ [TRBrace]).
    unfold closed. destruct ((TLBrace :: toks_members f) ++ [TRBrace]) eqn:E; [reflexivity|].
    rewrite <- E, last_last. reflexivity.
  Qed.

  Theorem json_parse_pj_spec s f :
    json_parse_text_pj num s = Some f <->
    lex_pj num s = Some (toks (JObj f)) /\ nodup_names (JObj f) = true
    /\ (jdepth (JObj f) <= recursion_limit)%nat.
  Proof.
    unfold json_parse_text_pj. split.
    - destruct (lex_pj num s) as [ts|]; [|discriminate]. intros H.
      apply parse_tokens_spec in H. destruct H as [-> H]. split; [reflexivity|exact H].
    - intros [L H]. rewrite L. apply parse_tokens_spec. split; [reflexivity|exact H].
  Qed.

  (* every text json_parse_text accepts is accepted, with the same value *)
  Theorem json_parse_pj_extends s f : json_parse_text num s = Some f -> json_parse_text_pj num s = Some f.
  Proof.
    unfold json_parse_text, json_parse_text_pj.
    destruct (lex num s) as [ts|] eqn:L; [|discriminate]. rewrite (lex_pj_extends s ts L). auto.
  Qed.

  Theorem json_pj_accepted_shape s f : json_parse_text_pj num s = Some f ->
    utf8_valid s = true /\ json_utf8 (JObj f) = true /\ nodup_names (JObj f) = true
    /\ (jdepth (JObj f) <= recursion_limit)%nat
    /\ exists t, skip_ws s = 123 :: t.
  Proof.
    intros H. apply json_parse_pj_spec in H. destruct H as [L [N D]].
    destruct (lex_pj_utf8 s _ L) as [U T]. rewrite toks_utf8 in T.
    split; [exact U|]. split; [exact T|]. split; [exact N|]. split; [exact D|].
    pose proof (lex_pj_first_token s _ L) as FT.
    destruct (skip_ws s) as [|c t]; [rewrite toks_obj in FT; discriminate|].
    destruct FT as [tok [r [ts' [L1 E]]]]. rewrite toks_obj in E. inversion E; subst tok.
    exists t. f_equal. apply lex_one_pj_cases in L1.
    destruct L1 as [L1|[_ [l [z [x [_ [_ X]]]]]]]; [eapply lex_one_lbrace; exact L1|discriminate].
  Qed.

  Corollary json_pj_invalid_utf8_rejected s : utf8_valid s = false -> json_parse_text_pj num s = None.
  Proof.
    intros H. destruct (json_parse_text_pj num s) as [f|] eqn:P; [|reflexivity].
    apply json_pj_accepted_shape in P. destruct P as [U _]. congruence.
  Qed.

  Theorem json_pj_duplicate_name_rejected s v :
    lex_pj num s = Some (toks v) -> nodup_names v = false -> json_parse_text_pj num s = None.
  Proof.
    intros L D. destruct (json_parse_text_pj num s) as [f|] eqn:P; [|reflexivity].
    apply json_parse_pj_spec in P. destruct P as [L' [N _]].
    assert (E : toks v = toks (JObj f)) by congruence. apply toks_injective in E. subst v. congruence.
  Qed.

  Corollary json_pj_first_byte_rejected s c t :
    skip_ws s = c :: t -> c <> 123 -> json_parse_text_pj num s = None.
  Proof.
    intros SK NE. destruct (json_parse_text_pj num s) as [f|] eqn:P; [|reflexivity].
    apply json_pj_accepted_shape in P. destruct P as [_ [_ [_ [_ [t' E]]]]]. rewrite SK in E. inversion E. congruence.
  Qed.

  Corollary json_pj_blank_rejected w : all_ws w = true -> json_parse_text_pj num w = None.
  Proof.
    intros H. unfold json_parse_text_pj. rewrite lex_pj_all_ws by exact H. reflexivity.
  Qed.

  Theorem json_pj_trailing_data_rejected s f c t :
    json_parse_text_pj num s = Some f -> is_ws c = false -> json_parse_text_pj num (s ++ c :: t) = None.
  Proof.
    intros P W. apply json_parse_pj_spec in P. destruct P as [L [N D]].
    unfold json_parse_text_pj.
    rewrite (lex_pj_app_closed s _ (c :: t) L (closed_obj f)).
    destruct (lex_pj num (c :: t)) as [ts2|] eqn:L2; [|reflexivity].
    apply parse_tokens_trailing; try assumption.
    pose proof (lex_pj_first_token (c :: t) _ L2) as FT.
    rewrite skip_ws_id in FT by exact W. destruct FT as [tok [r [ts' [_ ->]]]]. discriminate.
  Qed.

  Theorem json_pj_leading_ws w s : all_ws w = true -> json_parse_text_pj num (w ++ s) = json_parse_text_pj num s.
  Proof. intros H. unfold json_parse_text_pj. rewrite lex_pj_skip_ws by exact H. reflexivity. Qed.

  (* trailing whitespace: the verdict and the value are the same (the token
     sequences may differ: "1e " and "1e") *)
  Theorem json_pj_trailing_ws s w : all_ws w = true -> json_parse_text_pj num (s ++ w) = json_parse_text_pj num s.
  Proof.
    intros H.
    assert (A : forall f, json_parse_text_pj num s = Some f -> json_parse_text_pj num (s ++ w) = Some f).
    { intros f P. apply json_parse_pj_spec in P. destruct P as [L R]. apply json_parse_pj_spec. split; [|exact R].
      rewrite (lex_pj_app_closed s _ w L (closed_obj f)), lex_pj_all_ws by exact H. rewrite app_nil_r. reflexivity. }
    assert (B : forall f, json_parse_text_pj num (s ++ w) = Some f -> json_parse_text_pj num s = Some f).
    { intros f P. apply json_parse_pj_spec in P. destruct P as [L R]. apply json_parse_pj_spec. split; [|exact R].
      exact (lex_pj_trailing_ws_back s w _ H L (closed_obj f)). }
    destruct (json_parse_text_pj num s) as [f|] eqn:P2.
    - exact (A f eq_refl).
    - destruct (json_parse_text_pj num (s ++ w)) as [f|] eqn:P1; [|reflexivity].
      discriminate (B f eq_refl).
  Qed.

  (* where the variant differs: it accepts a text the C09 parser refuses only
     through a dangling token somewhere *)
  Theorem json_parse_pj_differs s f :
    json_parse_text_pj num s = Some f -> json_parse_text num s = None ->
    lex num s = None.
  Proof.
    intros P Q. destruct (lex num s) as [ts|] eqn:L; [|reflexivity]. exfalso.
    unfold json_parse_text in Q. rewrite L in Q.
    unfold json_parse_text_pj in P. rewrite (lex_pj_extends s ts L) in P. congruence.
  Qed.
End LexPj.
