(* Ties between the constants REGENERATED from the Go source (gen/RepoConsts.v)
   and the hand-written constants the C09 model is stated over.  A source edit that
   changes a minimum or limit changes the regenerated definition and one of these
   lemmas stops checking. *)
From Coq Require Import NArith ZArith List String.
From Tink Require Import RepoConsts Jwt.
Open Scope N_scope.

(* every regenerated constant this file needs is named in a lemma below: if the translator
   cannot find one in the source its definition is missing and that lemma stops checking;
   constants of other properties do not matter here *)

(* C09: maximum clock skew *)
Lemma tie_jwt_max_skew : (Z.of_N gen_jwt_max_clock_skew_minutes * 60 * 1000000000 = Jwt.max_skew_ns)%Z. Proof. reflexivity. Qed.
