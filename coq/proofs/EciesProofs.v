(* Proofs about model/Ecies.v. *)
From Coq Require Import List NArith Bool Arith Lia ZifyN ZifyNat ZifyBool.
From Tink Require Import Bytes Hpke Ecies HpkeProofs.
Import ListNotations.
Open Scope N_scope.

Lemma encoding_size_never_panics c f : encoding_size c f <> Panic.
Proof. destruct f; discriminate. Qed.

Lemma field_size_pos c : (0 < field_size c)%nat.
Proof. destruct c; simpl; lia. Qed.

(* a well-formed uncompressed point is 04 || X || Y with its coordinates *)
Lemma point_shape c P : length P = (1 + 2 * field_size c)%nat -> hd 0 P = 4 ->
  P = 4 :: coord_x c P ++ coord_y c P /\
  length (coord_x c P) = field_size c /\ length (coord_y c P) = field_size c.
Proof.
  intros L H. destruct P as [|b rest]; [simpl in L; lia|]. simpl in H. subst b.
  unfold coord_x, coord_y. simpl in L.
  change (skipn 1 (4 :: rest)) with rest.
  change (skipn (1 + field_size c) (4 :: rest)) with (skipn (field_size c) rest).
  assert (L2 : length (skipn (field_size c) rest) = field_size c) by (rewrite skipn_length; lia).
  rewrite (firstn_all2 (n := field_size c) (skipn (field_size c) rest)) by lia.
  rewrite firstn_skipn. repeat split; auto. rewrite firstn_length. lia.
Qed.

Lemma slice_after_head (b : N) (x y : bytes) : slice 1 (length x + 1) (b :: x ++ y) = Ok x.
Proof.
  pose proof (slice_mid [b] x y) as H. simpl in H. rewrite Nat.add_1_r. exact H.
Qed.

Lemma slice_after_head2 (b : N) (x y : bytes) :
  slice (length x + 1) (length (b :: x ++ y)) (b :: x ++ y) = Ok y.
Proof.
  pose proof (slice_tail (b :: x) y) as H. simpl in H. simpl. rewrite Nat.add_1_r. exact H.
Qed.

(* ---- facts that need no law about the primitives: Decrypt never panics ---- *)
Section EciesNoLaws.
  Variable ec_dh : curve -> bytes -> bytes -> option bytes.
  Variable ec_oncurve : curve -> bytes -> bytes -> bool.
  Variable ec_decompress : curve -> bytes -> option bytes.
  Variable hkdf : hash -> bytes -> bytes -> bytes -> nat -> bytes.
  Variable gcm_open : bytes -> bytes -> bytes -> bytes -> option bytes.
  Variable aes_ctr : bytes -> bytes -> bytes -> bytes.
  Variable hmac_sha256 : bytes -> bytes -> bytes.
  Variable siv_open : bytes -> bytes -> bytes -> option bytes.
  Notation PointDecode := (point_decode ec_oncurve ec_decompress).
  Notation Decapsulate := (ecies_decapsulate ec_dh ec_oncurve ec_decompress hkdf).
  Notation DemDecrypt := (dem_decrypt gcm_open aes_ctr hmac_sha256 siv_open).
  Notation Decrypt := (ecies_decrypt ec_dh ec_oncurve ec_decompress hkdf gcm_open aes_ctr hmac_sha256 siv_open).

  Lemma point_decode_never_panics c f e : PointDecode c f e <> Panic.
  Proof.
    unfold point_decode. destruct f; try discriminate.
    - destruct (negb (Nat.eqb _ _)); [discriminate|]. destruct (negb (_ || _)); [discriminate|].
      destruct (ec_decompress c e); discriminate.
    - destruct (Nat.eqb_spec (length e) (2 * field_size c + 1)) as [L|]; [|discriminate]. cbn [negb].
      destruct (negb (N.eqb _ _)); [discriminate|].
      apply bind_not_panic; [apply slice_not_panic; lia|]. intros x _.
      apply bind_not_panic; [apply slice_not_panic; lia|]. intros y _.
      destruct (ec_oncurve c x y); discriminate.
    - destruct (Nat.eqb_spec (length e) (2 * field_size c)) as [L|]; [|discriminate]. cbn [negb].
      apply bind_not_panic; [apply slice_not_panic; lia|]. intros x _.
      apply bind_not_panic; [apply slice_not_panic; lia|]. intros y _.
      destruct (ec_oncurve c x y); discriminate.
  Qed.

  Lemma compute_hkdf_never_panics h ikm salt info n : compute_hkdf hkdf h ikm salt info n <> Panic.
  Proof. unfold compute_hkdf. destruct (Nat.ltb _ _); [discriminate|]. destruct (Nat.ltb _ _); discriminate. Qed.


  Lemma decapsulate_never_panics c h f salt info n skR kem : Decapsulate c h f salt info n skR kem <> Panic.
  Proof.
    unfold ecies_decapsulate. apply bind_not_panic; [apply point_decode_never_panics|]. intros P HP.
    apply bind_not_panic.
    - unfold compute_shared_secret. destruct (negb _); [discriminate|]. destruct (ec_dh c skR P); discriminate.
    - intros s _. apply compute_hkdf_never_panics.
  Qed.

  Lemma dem_decrypt_never_panics d key body : DemDecrypt d key body <> Panic.
  Proof.
    unfold dem_decrypt.
    destruct (Nat.eqb_spec (length key) (dem_key_size d)) as [Lk|]; [|discriminate]. cbn [negb].
    destruct d; try discriminate.
    1-2: (
      destruct (Nat.ltb_spec (length body) (12 + 16)) as [|Hl]; [discriminate|];
      apply bind_not_panic; [apply slice_not_panic; lia|]; intros iv _;
      apply bind_not_panic; [apply slice_not_panic; lia|]; intros b _;
      destruct (gcm_open key iv [] b); discriminate).
    - destruct (siv_open key [] body); discriminate.
    - simpl in Lk. apply bind_not_panic; [apply slice_not_panic; simpl; lia|]. intros ka _.
      apply bind_not_panic; [apply slice_not_panic; simpl; lia|]. intros kh _.
      destruct (Nat.ltb_spec (length body) (16 + dem_tag_size AES128_CTR_HMAC_SHA256)) as [|Hl]; [discriminate|].
      simpl in Hl.
      apply bind_not_panic; [apply slice_not_panic; simpl; lia|]. intros payload Hp.
      apply bind_not_panic; [apply slice_not_panic; simpl; lia|]. intros tag _.
      destruct (negb (beq _ _)); [discriminate|].
      destruct (Nat.ltb_spec (length payload) 16) as [|Hl2]; [discriminate|].
      apply bind_not_panic; [apply slice_not_panic; lia|]. intros iv _.
      apply bind_not_panic; [apply slice_not_panic; lia|]. intros b _. discriminate.
    - simpl in Lk. apply bind_not_panic; [apply slice_not_panic; simpl; lia|]. intros ka _.
      apply bind_not_panic; [apply slice_not_panic; simpl; lia|]. intros kh _.
      destruct (Nat.ltb_spec (length body) (16 + dem_tag_size AES256_CTR_HMAC_SHA256)) as [|Hl]; [discriminate|].
      simpl in Hl.
      apply bind_not_panic; [apply slice_not_panic; simpl; lia|]. intros payload Hp.
      apply bind_not_panic; [apply slice_not_panic; simpl; lia|]. intros tag _.
      destruct (negb (beq _ _)); [discriminate|].
      destruct (Nat.ltb_spec (length payload) 16) as [|Hl2]; [discriminate|].
      apply bind_not_panic; [apply slice_not_panic; lia|]. intros iv _.
      apply bind_not_panic; [apply slice_not_panic; lia|]. intros b _. discriminate.
  Qed.

  Theorem ecies_decrypt_never_panics c h f d salt prefix skR ct info :
    Decrypt c h f d salt prefix skR ct info <> Panic.
  Proof.
    unfold ecies_decrypt. destruct (negb (primitive_supported c f d)); [discriminate|].
    destruct (Nat.ltb_spec (length ct) (length prefix)) as [|Lc]; [discriminate|].
    destruct (slice_split (length prefix) ct Lc) as (pf & rest & -> & Lpf & S1 & S2).
    rewrite S1, S2. cbn [bind]. destruct (negb (beq prefix pf)); [discriminate|].
    unfold ecies_raw_decrypt. apply bind_not_panic; [apply encoding_size_never_panics|]. intros hs _.
    destruct (Nat.ltb_spec (length rest) hs) as [|Lr]; [discriminate|].
    destruct (slice_split hs rest Lr) as (kem & body & -> & Lk & S3 & S4).
    rewrite S3, S4. cbn [bind].
    apply bind_not_panic; [apply decapsulate_never_panics|]. intros key _.
    apply dem_decrypt_never_panics.
  Qed.

  (* a different output prefix is rejected outright *)
  Theorem ecies_binding_prefix c h f d salt prefix skR prefix' rest info :
    length prefix' = length prefix -> prefix' <> prefix ->
    Decrypt c h f d salt prefix skR (prefix' ++ rest) info = Err.
  Proof.
    intros L Hne. unfold ecies_decrypt. destruct (negb (primitive_supported c f d)); [reflexivity|].
    destruct (Nat.ltb_spec (length (prefix' ++ rest)) (length prefix)) as [|_]; [reflexivity|].
    rewrite <- L. rewrite slice_head. cbn [bind].
    assert (E : beq prefix prefix' = false) by (apply beq_false; congruence).
    rewrite E. reflexivity.
  Qed.
End EciesNoLaws.

Section PointFormats.
  Variable ec_oncurve : curve -> bytes -> bytes -> bool.
  Variable ec_decompress : curve -> bytes -> option bytes.
  Hypothesis ec_decompress_compress : forall c x y,
    ec_oncurve c x y = true -> length x = field_size c -> length y = field_size c ->
    ec_decompress c ((if N.odd (last y 0) then 3 else 2) :: x) = Some (4 :: x ++ y).

  (* ---- point formats ---- *)
  Lemma point_encode_length c f P e : (point_encode ec_oncurve) c f P = Ok e ->
    length P = (1 + 2 * field_size c)%nat -> hd 0 P = 4 -> encoding_size c f = Ok (length e).
  Proof.
    intros H L H4. destruct (point_shape c P L H4) as (_ & Lx & Ly).
    unfold point_encode in H. destruct (ec_oncurve c _ _); [|discriminate]. simpl in H.
    destruct f; try discriminate; injection H as <-; simpl; rewrite ?app_length, ?Lx, ?Ly; f_equal; lia.
  Qed.

  Lemma point_decode_encode c f P e :
    length P = (1 + 2 * field_size c)%nat -> hd 0 P = 4 ->
    (point_encode ec_oncurve) c f P = Ok e -> (point_decode ec_oncurve ec_decompress) c f e = Ok P.
  Proof.
    intros L H4 H. destruct (point_shape c P L H4) as (EP & Lx & Ly).
    unfold point_encode in H.
    destruct (ec_oncurve c (coord_x c P) (coord_y c P)) eqn:On; [|discriminate]. simpl in H.
    set (x := coord_x c P) in *. set (y := coord_y c P) in *.
    unfold point_decode. destruct f; try discriminate; injection H as <-.
    - (* compressed *)
      simpl length. rewrite Lx. rewrite Nat.add_1_r, Nat.eqb_refl. cbn [negb].
      assert (Hhd : (N.eqb (hd 0 ((if N.odd (last y 0) then 3 else 2) :: x)) 2
                     || N.eqb (hd 0 ((if N.odd (last y 0) then 3 else 2) :: x)) 3)%bool = true)
        by (destruct (N.odd (last y 0)); reflexivity).
      rewrite Hhd. cbn [negb].
      rewrite (ec_decompress_compress c x y On Lx Ly). rewrite EP. reflexivity.
    - (* uncompressed *)
      simpl length. rewrite app_length, Lx, Ly.
      replace (S (field_size c + field_size c)) with (2 * field_size c + 1)%nat by lia.
      rewrite Nat.eqb_refl. cbn [negb hd]. rewrite N.eqb_refl. cbn [negb].
      rewrite <- Lx at 1. rewrite slice_after_head. cbn [bind].
      replace (2 * field_size c + 1)%nat with (length (4 :: x ++ y)) by (simpl; rewrite app_length; lia).
      rewrite <- Lx. rewrite slice_after_head2. cbn [bind]. rewrite On.
      rewrite EP. reflexivity.
    - (* legacy uncompressed *)
      rewrite app_length, Lx, Ly.
      replace (field_size c + field_size c)%nat with (2 * field_size c)%nat by lia.
      rewrite Nat.eqb_refl. cbn [negb].
      rewrite <- Lx at 1. rewrite slice_head. cbn [bind].
      replace (2 * field_size c)%nat with (length (x ++ y)) by (rewrite app_length; lia).
      rewrite <- Lx. rewrite slice_tail. cbn [bind]. rewrite On. rewrite EP. reflexivity.
  Qed.


End PointFormats.

Section EciesTheorems.
  Variable ec_dh : curve -> bytes -> bytes -> option bytes.
  Variable ec_pub : curve -> bytes -> option bytes.
  Variable ec_oncurve : curve -> bytes -> bytes -> bool.
  Variable ec_decompress : curve -> bytes -> option bytes.
  Variable hkdf : hash -> bytes -> bytes -> bytes -> nat -> bytes.
  Variable gcm_seal : bytes -> bytes -> bytes -> bytes -> bytes.
  Variable gcm_open : bytes -> bytes -> bytes -> bytes -> option bytes.
  Variable aes_ctr : bytes -> bytes -> bytes -> bytes.
  Variable hmac_sha256 : bytes -> bytes -> bytes.
  Variable siv_seal : bytes -> bytes -> bytes -> bytes.
  Variable siv_open : bytes -> bytes -> bytes -> option bytes.

  Notation PointEncode := (point_encode ec_oncurve).
  Notation PointDecode := (point_decode ec_oncurve ec_decompress).
  Notation Shared := (compute_shared_secret ec_dh ec_oncurve).
  Notation Encapsulate := (ecies_encapsulate ec_dh ec_pub ec_oncurve hkdf).
  Notation Decapsulate := (ecies_decapsulate ec_dh ec_oncurve ec_decompress hkdf).
  Notation DemEncrypt := (dem_encrypt gcm_seal aes_ctr hmac_sha256 siv_seal).
  Notation DemDecrypt := (dem_decrypt gcm_open aes_ctr hmac_sha256 siv_open).
  Notation RawEncrypt := (ecies_raw_encrypt ec_dh ec_pub ec_oncurve hkdf gcm_seal aes_ctr hmac_sha256 siv_seal).
  Notation RawDecrypt := (ecies_raw_decrypt ec_dh ec_oncurve ec_decompress hkdf gcm_open aes_ctr hmac_sha256 siv_open).
  Notation Encrypt := (ecies_encrypt ec_dh ec_pub ec_oncurve hkdf gcm_seal aes_ctr hmac_sha256 siv_seal).
  Notation Decrypt := (ecies_decrypt ec_dh ec_oncurve ec_decompress hkdf gcm_open aes_ctr hmac_sha256 siv_open).
  Notation Recompute := (ecies_recompute ec_dh ec_oncurve ec_decompress hkdf gcm_seal aes_ctr hmac_sha256 siv_seal).

  (* ---- laws of the stdlib primitives (hypotheses of the theorems) ---- *)
  Hypothesis ec_dh_comm : forall c a b A B,
    ec_pub c a = Some A -> ec_pub c b = Some B -> ec_dh c a B = ec_dh c b A.
  (* a public key is a well-formed point on the curve: 04 || X || Y *)
  Hypothesis ec_pub_shape : forall c sk P, ec_pub c sk = Some P ->
    length P = (1 + 2 * field_size c)%nat /\ hd 0 P = 4 /\
    ec_oncurve c (coord_x c P) (coord_y c P) = true.
  (* decompression recovers a point on the curve from X and the parity of Y *)
  Hypothesis ec_decompress_compress : forall c x y,
    ec_oncurve c x y = true -> length x = field_size c -> length y = field_size c ->
    ec_decompress c ((if N.odd (last y 0) then 3 else 2) :: x) = Some (4 :: x ++ y).
  Hypothesis gcm_open_seal : forall k iv ad p, gcm_open k iv ad (gcm_seal k iv ad p) = Some p.
  Hypothesis gcm_seal_len : forall k iv ad p, length (gcm_seal k iv ad p) = (length p + 16)%nat.
  Hypothesis aes_ctr_involutive : forall k iv x, aes_ctr k iv (aes_ctr k iv x) = x.
  Hypothesis hmac_len : forall k m, length (hmac_sha256 k m) = 32%nat.
  Hypothesis siv_open_seal : forall k ad p, siv_open k ad (siv_seal k ad p) = Some p.

  (* ---- KEM ---- *)
  Lemma ecies_kem_law c h f salt info n skR pkR eph kem key :
    ec_pub c skR = Some pkR ->
    Encapsulate c h f salt info n pkR eph = Ok (kem, key) ->
    Decapsulate c h f salt info n skR kem = Ok key /\ encoding_size c f = Ok (length kem).
  Proof.
    intros Hpub H. unfold ecies_encapsulate in H.
    destruct (ec_pub c eph) as [ephP|] eqn:Ee; [|discriminate].
    inv_bind H. rename v into secret. inv_bind Hb. rename v into sdata. inv_bind Hbb.
    assert (sdata = kem /\ v = key) as [-> ->] by (split; congruence).
    destruct (ec_pub_shape _ _ _ Ee) as (L & H4 & On).
    split; [|eapply point_encode_length; eauto].
    unfold ecies_decapsulate. rewrite (point_decode_encode ec_oncurve ec_decompress ec_decompress_compress _ _ _ _ L H4 Hba). cbn [bind].
    unfold compute_shared_secret in Ha |- *. rewrite On. cbn [negb].
    destruct (negb (ec_oncurve c (coord_x c pkR) (coord_y c pkR))); [discriminate|].
    rewrite (ec_dh_comm c skR eph pkR ephP Hpub Ee).
    destruct (ec_dh c eph pkR) as [s|]; [|discriminate].
    assert (s = secret) by congruence. subst s. cbn [bind]. exact Hbba.
  Qed.


  (* ---- DEM ---- *)
  Lemma dem_round_trip d key iv pt body :
    length iv = dem_iv_size d -> DemEncrypt d key iv pt = Ok body -> DemDecrypt d key body = Ok pt.
  Proof.
    intros Liv H. unfold dem_encrypt in H. unfold dem_decrypt.
    destruct (Nat.eqb_spec (length key) (dem_key_size d)) as [Lk|]; [|discriminate]. cbn [negb] in *.
    destruct d; try discriminate.
    1-2: (
      destruct (N.ltb _ _); [discriminate|]; injection H as <-; simpl in Liv;
      set (g := gcm_seal key iv [] pt);
      assert (S1 : slice 0 12 (iv ++ g) = Ok iv) by (rewrite <- Liv; apply slice_head);
      assert (S2 : slice 12 (length (iv ++ g)) (iv ++ g) = Ok g) by (rewrite <- Liv; apply slice_tail);
      (destruct (Nat.ltb_spec (length (iv ++ g)) (12 + 16)) as [Hl|_];
         [unfold g in Hl; rewrite app_length, gcm_seal_len in Hl; lia|]);
      rewrite S1, S2; cbn [bind]; unfold g; rewrite gcm_open_seal; reflexivity).
    - injection H as <-. rewrite siv_open_seal. reflexivity.
    - inv_bind H. rename v into ka. inv_bind Hb. rename v into kh. rewrite Ha, Hba. cbn [bind].
      match type of Hbb with Ok ?x = Ok _ => assert (Eb : body = x) by congruence end; subst body; clear Hbb.
      simpl in Liv.
      set (ct := iv ++ aes_ctr ka iv pt) in *.
      set (tag := firstn (dem_tag_size AES128_CTR_HMAC_SHA256) (hmac_sha256 kh ([] ++ ct ++ aad_size_in_bits []))).
      assert (Lt : length tag = dem_tag_size AES128_CTR_HMAC_SHA256)
        by (unfold tag; rewrite firstn_length, hmac_len; simpl; lia).
      assert (Lct : (16 <= length ct)%nat) by (unfold ct; rewrite app_length; lia).
      destruct (Nat.ltb_spec (length (ct ++ tag)) (16 + dem_tag_size AES128_CTR_HMAC_SHA256)) as [Hl|_];
        [rewrite app_length in Hl; lia|].
      replace (length (ct ++ tag) - dem_tag_size AES128_CTR_HMAC_SHA256)%nat with (length ct)
        by (rewrite app_length; lia).
      rewrite slice_head, slice_tail. cbn [bind]. fold tag. rewrite beq_refl. cbn [negb].
      destruct (Nat.ltb_spec (length ct) 16) as [Hl|_]; [lia|].
      assert (S1 : slice 0 16 ct = Ok iv) by (unfold ct; rewrite <- Liv; apply slice_head).
      assert (S2 : slice 16 (length ct) ct = Ok (aes_ctr ka iv pt)) by (unfold ct; rewrite <- Liv; apply slice_tail).
      rewrite S1, S2. cbn [bind].
      rewrite aes_ctr_involutive. reflexivity.
    - inv_bind H. rename v into ka. inv_bind Hb. rename v into kh. rewrite Ha, Hba. cbn [bind].
      match type of Hbb with Ok ?x = Ok _ => assert (Eb : body = x) by congruence end; subst body; clear Hbb.
      simpl in Liv.
      set (ct := iv ++ aes_ctr ka iv pt) in *.
      set (tag := firstn (dem_tag_size AES256_CTR_HMAC_SHA256) (hmac_sha256 kh ([] ++ ct ++ aad_size_in_bits []))).
      assert (Lt : length tag = dem_tag_size AES256_CTR_HMAC_SHA256)
        by (unfold tag; rewrite firstn_length, hmac_len; simpl; lia).
      assert (Lct : (16 <= length ct)%nat) by (unfold ct; rewrite app_length; lia).
      destruct (Nat.ltb_spec (length (ct ++ tag)) (16 + dem_tag_size AES256_CTR_HMAC_SHA256)) as [Hl|_];
        [rewrite app_length in Hl; lia|].
      replace (length (ct ++ tag) - dem_tag_size AES256_CTR_HMAC_SHA256)%nat with (length ct)
        by (rewrite app_length; lia).
      rewrite slice_head, slice_tail. cbn [bind]. fold tag. rewrite beq_refl. cbn [negb].
      destruct (Nat.ltb_spec (length ct) 16) as [Hl|_]; [lia|].
      assert (S1 : slice 0 16 ct = Ok iv) by (unfold ct; rewrite <- Liv; apply slice_head).
      assert (S2 : slice 16 (length ct) ct = Ok (aes_ctr ka iv pt)) by (unfold ct; rewrite <- Liv; apply slice_tail).
      rewrite S1, S2. cbn [bind].
      rewrite aes_ctr_involutive. reflexivity.
  Qed.


  (* ---- the scheme ---- *)
  Theorem ecies_round_trip c h f d salt prefix skR pkR eph iv info pt ct :
    ec_pub c skR = Some pkR -> length iv = dem_iv_size d ->
    Encrypt c h f d salt prefix pkR eph iv info pt = Ok ct ->
    Decrypt c h f d salt prefix skR ct info = Ok pt.
  Proof.
    intros Hpub Liv H. unfold ecies_encrypt in H. unfold ecies_decrypt.
    destruct (primitive_supported c f d); [|discriminate]. cbn [negb] in *.
    inv_bind H. rename v into raw. injection Hb as <-.
    unfold ecies_raw_encrypt in Ha. inv_bind Ha. destruct v as [kem key]. inv_bind Hab. rename v into body.
    injection Habb as <-.
    destruct (ecies_kem_law _ _ _ _ _ _ _ _ _ _ _ Hpub Haa) as [Hd Hs].
    destruct (Nat.ltb_spec (length (prefix ++ kem ++ body)) (length prefix)) as [Hl|_];
      [rewrite app_length in Hl; lia|].
    rewrite slice_head, slice_tail. cbn [bind]. rewrite beq_refl. cbn [negb].
    unfold ecies_raw_decrypt. rewrite Hs. cbn [bind].
    destruct (Nat.ltb_spec (length (kem ++ body)) (length kem)) as [Hl|_]; [rewrite app_length in Hl; lia|].
    rewrite slice_head, slice_tail. cbn [bind]. rewrite Hd. cbn [bind].
    eapply dem_round_trip; eauto.
  Qed.


End EciesTheorems.

(* ------------------------------------------------------------------ *)
(* exact acceptance and symbolic binding                                *)
(* ------------------------------------------------------------------ *)
Section EciesAcceptance.
  Variable ec_dh : curve -> bytes -> bytes -> option bytes.
  Variable ec_pub : curve -> bytes -> option bytes.
  Variable ec_oncurve : curve -> bytes -> bytes -> bool.
  Variable ec_decompress : curve -> bytes -> option bytes.
  Variable hkdf : hash -> bytes -> bytes -> bytes -> nat -> bytes.
  Variable gcm_seal : bytes -> bytes -> bytes -> bytes -> bytes.
  Variable gcm_open : bytes -> bytes -> bytes -> bytes -> option bytes.
  Variable aes_ctr : bytes -> bytes -> bytes -> bytes.
  Variable hmac_sha256 : bytes -> bytes -> bytes.
  Variable siv_seal : bytes -> bytes -> bytes -> bytes.
  Variable siv_open : bytes -> bytes -> bytes -> option bytes.

  Notation Encapsulate := (ecies_encapsulate ec_dh ec_pub ec_oncurve hkdf).
  Notation Decapsulate := (ecies_decapsulate ec_dh ec_oncurve ec_decompress hkdf).
  Notation DemEncrypt := (dem_encrypt gcm_seal aes_ctr hmac_sha256 siv_seal).
  Notation DemDecrypt := (dem_decrypt gcm_open aes_ctr hmac_sha256 siv_open).
  Notation DemFrame := (dem_frame gcm_seal aes_ctr hmac_sha256 siv_seal).
  Notation Encrypt := (ecies_encrypt ec_dh ec_pub ec_oncurve hkdf gcm_seal aes_ctr hmac_sha256 siv_seal).
  Notation Decrypt := (ecies_decrypt ec_dh ec_oncurve ec_decompress hkdf gcm_open aes_ctr hmac_sha256 siv_open).
  Notation Recompute := (ecies_recompute ec_dh ec_oncurve ec_decompress hkdf gcm_seal aes_ctr hmac_sha256 siv_seal).

  Hypothesis ec_dh_comm : forall c a b A B,
    ec_pub c a = Some A -> ec_pub c b = Some B -> ec_dh c a B = ec_dh c b A.
  Hypothesis ec_pub_shape : forall c sk P, ec_pub c sk = Some P ->
    length P = (1 + 2 * field_size c)%nat /\ hd 0 P = 4 /\
    ec_oncurve c (coord_x c P) (coord_y c P) = true.
  Hypothesis ec_decompress_compress : forall c x y,
    ec_oncurve c x y = true -> length x = field_size c -> length y = field_size c ->
    ec_decompress c ((if N.odd (last y 0) then 3 else 2) :: x) = Some (4 :: x ++ y).
  Hypothesis gcm_open_seal : forall k iv ad p, gcm_open k iv ad (gcm_seal k iv ad p) = Some p.
  Hypothesis gcm_open_sound : forall k iv ad c p, gcm_open k iv ad c = Some p -> c = gcm_seal k iv ad p.
  Hypothesis gcm_seal_len : forall k iv ad p, length (gcm_seal k iv ad p) = (length p + 16)%nat.
  Hypothesis aes_ctr_involutive : forall k iv x, aes_ctr k iv (aes_ctr k iv x) = x.
  Hypothesis hmac_len : forall k m, length (hmac_sha256 k m) = 32%nat.
  Hypothesis siv_open_seal : forall k ad p, siv_open k ad (siv_seal k ad p) = Some p.
  Hypothesis siv_open_sound : forall k ad c p, siv_open k ad c = Some p -> c = siv_seal k ad p.
  Hypothesis hkdf_len : forall h ikm salt info n, length (hkdf h ikm salt info n) = n.

  Definition dem_supported (d : dem) : bool := match d with XCHACHA20_POLY1305 => false | _ => true end.

  Lemma key_split a key : (a <= length key)%nat ->
    slice 0 a key = Ok (firstn a key) /\ slice a (length key) key = Ok (skipn a key).
  Proof.
    intros L. split.
    - rewrite slice_in_range by lia. simpl. rewrite Nat.sub_0_r. reflexivity.
    - rewrite slice_in_range by lia. rewrite firstn_all2; [reflexivity|rewrite skipn_length; lia].
  Qed.

  (* what dem_encrypt returns *)
  Lemma dem_encrypt_frame d key iv p body :
    DemEncrypt d key iv p = Ok body ->
    body = DemFrame d key iv p /\ length key = dem_key_size d /\ dem_supported d = true.
  Proof.
    unfold dem_encrypt, dem_frame. intros H.
    destruct (Nat.eqb_spec (length key) (dem_key_size d)) as [Lk|]; [|discriminate]. cbn [negb] in H.
    destruct d; try discriminate.
    1-2: (destruct (N.ltb _ _); [discriminate|]; split; [congruence|auto]).
    - split; [congruence|auto].
    - destruct (key_split (dem_aes_key_size AES128_CTR_HMAC_SHA256) key) as [S1 S2]; [rewrite Lk; simpl; lia|].
      rewrite S1, S2 in H. cbn [bind] in H. split; [congruence|auto].
    - destruct (key_split (dem_aes_key_size AES256_CTR_HMAC_SHA256) key) as [S1 S2]; [rewrite Lk; simpl; lia|].
      rewrite S1, S2 in H. cbn [bind] in H. split; [congruence|auto].
  Qed.

  (* the encrypt-then-MAC DEM, generically in the AES key size a and the tag size t *)
  Definition ctr_frame (a t : nat) (key iv p : bytes) : bytes :=
    let ct := iv ++ aes_ctr (firstn a key) iv p in
    ct ++ firstn t (hmac_sha256 (skipn a key) ([] ++ ct ++ aad_size_in_bits [])).

  Definition ctr_dec (a t : nat) (key ct : bytes) : outcome bytes :=
    bind (slice 0 a key) (fun ka =>
    bind (slice a (length key) key) (fun kh =>
    if Nat.ltb (length ct) (16 + t) then Err else
    bind (slice 0 (length ct - t) ct) (fun payload =>
    bind (slice (length ct - t) (length ct) ct) (fun tag =>
    let expected := firstn t (hmac_sha256 kh ([] ++ payload ++ aad_size_in_bits [])) in
    if negb (beq expected tag) then Err else
    if Nat.ltb (length payload) 16 then Err else
    bind (slice 0 16 payload) (fun iv =>
    bind (slice 16 (length payload) payload) (fun body =>
    Ok (aes_ctr ka iv body))))))).

  Lemma ctr_dec_iff a t key body p : (a <= length key)%nat -> (t <= 32)%nat ->
    (ctr_dec a t key body = Ok p <-> exists iv, length iv = 16%nat /\ body = ctr_frame a t key iv p).
  Proof.
    intros La Lt. unfold ctr_dec. destruct (key_split a key La) as [S1 S2]. rewrite S1, S2. cbn [bind].
    split.
    - destruct (Nat.ltb_spec (length body) (16 + t)) as [|Lb]; [discriminate|].
      assert (Lb' : (length body - t <= length body)%nat) by lia.
      destruct (slice_split (length body - t) body Lb') as (payload & tag & E & Lp & S3 & S4).
      rewrite S3, S4. cbn [bind].
      destruct (beq _ tag) eqn:Eb; [|discriminate]. apply beq_eq in Eb. cbn [negb].
      destruct (Nat.ltb_spec (length payload) 16) as [|Lp16]; [discriminate|].
      destruct (slice_split 16 payload Lp16) as (iv & c & Ep & Liv & S5 & S6).
      rewrite S5, S6. cbn [bind]. intros H. injection H as <-.
      exists iv. split; [exact Liv|].
      unfold ctr_frame. rewrite aes_ctr_involutive. rewrite <- Ep. rewrite Eb. exact E.
    - intros (iv & Liv & ->). unfold ctr_frame.
      set (ct := iv ++ aes_ctr (firstn a key) iv p).
      set (tag := firstn t (hmac_sha256 (skipn a key) ([] ++ ct ++ aad_size_in_bits []))).
      assert (Ltag : length tag = t) by (unfold tag; rewrite firstn_length, hmac_len; lia).
      assert (Lct : (16 <= length ct)%nat) by (unfold ct; rewrite app_length; lia).
      destruct (Nat.ltb_spec (length (ct ++ tag)) (16 + t)) as [Hl|_]; [rewrite app_length in Hl; lia|].
      replace (length (ct ++ tag) - t)%nat with (length ct) by (rewrite app_length; lia).
      rewrite slice_head, slice_tail. cbn [bind]. fold tag. rewrite beq_refl. cbn [negb].
      destruct (Nat.ltb_spec (length ct) 16) as [Hl|_]; [lia|].
      assert (S5 : slice 0 16 ct = Ok iv) by (unfold ct; rewrite <- Liv; apply slice_head).
      assert (S6 : slice 16 (length ct) ct = Ok (aes_ctr (firstn a key) iv p)) by (unfold ct; rewrite <- Liv; apply slice_tail).
      rewrite S5, S6. cbn [bind]. rewrite aes_ctr_involutive. reflexivity.
  Qed.

  (* exact acceptance of the DEM *)
  Lemma dem_decrypt_iff d key body p : length key = dem_key_size d -> dem_supported d = true ->
    (DemDecrypt d key body = Ok p <-> exists iv, length iv = dem_iv_size d /\ body = DemFrame d key iv p).
  Proof.
    intros Lk Hs. unfold dem_decrypt.
    destruct (Nat.eqb_spec (length key) (dem_key_size d)) as [_|Nk]; [|contradiction]. cbn [negb].
    destruct d; try discriminate.
    1-2: (
      unfold dem_frame; split;
      [ destruct (Nat.ltb_spec (length body) (12 + 16)) as [|Lb]; [discriminate|];
        assert (Lb' : (12 <= length body)%nat) by lia;
        destruct (slice_split 12 body Lb') as (iv & c & E & Liv & S1 & S2);
        rewrite S1, S2; cbn [bind];
        destruct (gcm_open key iv [] c) as [q|] eqn:Eo; [|discriminate];
        intros H; injection H as <-; apply gcm_open_sound in Eo; exists iv; split; [exact Liv|congruence]
      | intros (iv & Liv & ->); simpl in Liv;
        set (g := gcm_seal key iv [] p);
        assert (S1 : slice 0 12 (iv ++ g) = Ok iv) by (rewrite <- Liv; apply slice_head);
        assert (S2 : slice 12 (length (iv ++ g)) (iv ++ g) = Ok g) by (rewrite <- Liv; apply slice_tail);
        (destruct (Nat.ltb_spec (length (iv ++ g)) (12 + 16)) as [Hl|_];
           [unfold g in Hl; rewrite app_length, gcm_seal_len in Hl; lia|]);
        rewrite S1, S2; cbn [bind]; unfold g; rewrite gcm_open_seal; reflexivity ]).
    - unfold dem_frame. split.
      + destruct (siv_open key [] body) as [q|] eqn:Eo; [|discriminate]. intros H. injection H as <-.
        apply siv_open_sound in Eo. exists []. split; [reflexivity|exact Eo].
      + intros (iv & _ & ->). rewrite siv_open_seal. reflexivity.
    - change (ctr_dec 16 16 key body = Ok p <-> exists iv, length iv = 16%nat /\ body = ctr_frame 16 16 key iv p).
      apply (ctr_dec_iff 16 16 key body p); [rewrite Lk; simpl; lia|lia].
    - change (ctr_dec 32 32 key body = Ok p <-> exists iv, length iv = 16%nat /\ body = ctr_frame 32 32 key iv p).
      apply (ctr_dec_iff 32 32 key body p); [rewrite Lk; simpl; lia|lia].
  Qed.

  (* decapsulation, taken apart *)
  Definition effective_salt (h : hash) (salt : bytes) : bytes :=
    if Nat.eqb (length salt) 0 then zeros (hash_len h) else salt.

  Lemma decapsulate_shape c h f salt info n skR kem key :
    Decapsulate c h f salt info n skR kem = Ok key ->
    length key = n /\ exists secret, key = hkdf h (kem ++ secret) (effective_salt h salt) info n.
  Proof.
    unfold ecies_decapsulate. intros H. inv_bind H. inv_bind Hb. rename v0 into secret.
    unfold compute_hkdf in Hbb. destruct (Nat.ltb _ _); [discriminate|]. destruct (Nat.ltb _ _); [discriminate|].
    assert (E : key = hkdf h (kem ++ secret) (effective_salt h salt) info n) by (unfold effective_salt; congruence).
    split; [rewrite E; apply hkdf_len|exists secret; exact E].
  Qed.

  Lemma supported_dem c f d : primitive_supported c f d = true -> dem_supported d = true.
  Proof. destruct c, f, d; simpl; intros; try discriminate; reflexivity. Qed.

  (* the honest ciphertext, taken apart *)
  Lemma ecies_encrypt_shape c h f d salt prefix skR pkR eph iv info pt ct :
    ec_pub c skR = Some pkR ->
    Encrypt c h f d salt prefix pkR eph iv info pt = Ok ct ->
    exists kem key, encoding_size c f = Ok (length kem) /\
      Decapsulate c h f salt info (dem_key_size d) skR kem = Ok key /\
      primitive_supported c f d = true /\
      ct = prefix ++ kem ++ DemFrame d key iv pt.
  Proof.
    intros Hpub H. unfold ecies_encrypt in H.
    destruct (primitive_supported c f d) eqn:Ps; [|discriminate]. cbn [negb] in H.
    inv_bind H. rename v into raw. injection Hb as <-.
    unfold ecies_raw_encrypt in Ha. inv_bind Ha. destruct v as [kem key]. inv_bind Hab. rename v into body.
    injection Habb as <-.
    destruct (ecies_kem_law ec_dh ec_pub ec_oncurve ec_decompress hkdf ec_dh_comm ec_pub_shape ec_decompress_compress
                _ _ _ _ _ _ _ _ _ _ _ Hpub Haa) as [Hd Hs].
    apply dem_encrypt_frame in Haba. destruct Haba as (-> & Lk & Ds).
    exists kem, key. repeat split; auto.
  Qed.

  Theorem ecies_decrypt_iff c h f d salt prefix skR ct info p : primitive_supported c f d = true ->
    (Decrypt c h f d salt prefix skR ct info = Ok p <->
     exists kem key iv, encoding_size c f = Ok (length kem) /\
       Decapsulate c h f salt info (dem_key_size d) skR kem = Ok key /\
       length iv = dem_iv_size d /\ ct = prefix ++ kem ++ DemFrame d key iv p).
  Proof.
    intros Ps. pose proof (supported_dem _ _ _ Ps) as Ds.
    unfold ecies_decrypt. rewrite Ps. cbn [negb]. split.
    - destruct (Nat.ltb_spec (length ct) (length prefix)) as [|Lc]; [discriminate|].
      destruct (slice_split (length prefix) ct Lc) as (pf & rest & -> & Lpf & S1 & S2).
      rewrite S1, S2. cbn [bind].
      destruct (beq prefix pf) eqn:E; [|discriminate]. apply beq_eq in E. subst pf. cbn [negb].
      unfold ecies_raw_decrypt. intros H. inv_bind H. rename v into hs.
      destruct (Nat.ltb_spec (length rest) hs) as [|Lr]; [discriminate|].
      destruct (slice_split hs rest Lr) as (kem & body & -> & Lk & S3 & S4).
      rewrite S3, S4 in Hb. cbn [bind] in Hb. inv_bind Hb. rename v into key.
      destruct (decapsulate_shape _ _ _ _ _ _ _ _ _ Hba) as [Lkey _].
      apply (dem_decrypt_iff _ _ _ _ Lkey Ds) in Hbb. destruct Hbb as (iv & Liv & ->).
      exists kem, key, iv. subst hs. auto.
    - intros (kem & key & iv & Hs & Hd & Liv & ->).
      destruct (Nat.ltb_spec (length (prefix ++ kem ++ DemFrame d key iv p)) (length prefix)) as [Hl|_];
        [rewrite app_length in Hl; lia|].
      rewrite slice_head, slice_tail. cbn [bind]. rewrite beq_refl. cbn [negb].
      unfold ecies_raw_decrypt. rewrite Hs. cbn [bind].
      destruct (Nat.ltb_spec (length (kem ++ DemFrame d key iv p)) (length kem)) as [Hl|_];
        [rewrite app_length in Hl; lia|].
      rewrite slice_head, slice_tail. cbn [bind]. rewrite Hd. cbn [bind].
      destruct (decapsulate_shape _ _ _ _ _ _ _ _ _ Hd) as [Lkey _].
      apply (dem_decrypt_iff _ _ _ _ Lkey Ds). exists iv. auto.
  Qed.

  (* ---- symbolic binding ----
     SUPERSEDED by proofs/EciesBinding.v: both predicates below hold outright
     (n = 0; dem_frame XCHACHA20_POLY1305 = []), see EciesBinding.old_hkdf_collision_trivial
     and old_dem_key_collision_trivial; ecies_binding_kem_info is therefore vacuous and
     no longer appears in props/C06.v. *)
  Definition hkdf_collision : Prop :=
    exists h ikm salt info ikm' salt' info' n, (ikm <> ikm' \/ salt <> salt' \/ info <> info') /\
      hkdf h ikm salt info n = hkdf h ikm' salt' info' n.
  (* the same DEM ciphertext under two different DEM keys *)
  Definition dem_key_collision : Prop :=
    exists d key key' iv iv' p p', key <> key' /\ DemFrame d key iv p = DemFrame d key' iv' p'.

  (* change the KEM bytes and/or the info, leave the DEM ciphertext *)
  Theorem ecies_binding_kem_info c h f d salt prefix skR pkR eph iv info pt ct kem body kem' info' p' :
    ec_pub c skR = Some pkR ->
    Encrypt c h f d salt prefix pkR eph iv info pt = Ok ct ->
    ct = prefix ++ kem ++ body -> encoding_size c f = Ok (length kem) -> length kem' = length kem ->
    (kem' <> kem \/ info' <> info) ->
    Decrypt c h f d salt prefix skR (prefix ++ kem' ++ body) info' = Ok p' ->
    hkdf_collision \/ dem_key_collision.
  Proof.
    intros Hpub Henc Hct Hs Lk' Hne Hdec.
    destruct (ecies_encrypt_shape _ _ _ _ _ _ _ _ _ _ _ _ _ Hpub Henc) as (kem0 & key & Hs0 & Hd & Ps & Hct0).
    rewrite Hct in Hct0. apply app_inv_head in Hct0.
    apply app_inv_length in Hct0; [|congruence]. destruct Hct0 as [<- Hbody].
    apply (ecies_decrypt_iff _ _ _ _ _ _ _ _ _ _ Ps) in Hdec.
    destruct Hdec as (kem1 & key' & iv' & Hs1 & Hd' & Liv' & Hct1).
    apply app_inv_head in Hct1. apply app_inv_length in Hct1; [|congruence]. destruct Hct1 as [<- Hbody'].
    rewrite Hbody in Hbody'.
    destruct (bytes_eq_dec key key') as [Ek|Nk]; [|right; exists d, key, key', iv, iv', pt, p'; auto].
    subst key'. left.
    destruct (decapsulate_shape _ _ _ _ _ _ _ _ _ Hd) as [_ (s1 & E1)].
    destruct (decapsulate_shape _ _ _ _ _ _ _ _ _ Hd') as [_ (s2 & E2)].
    rewrite E1 in E2.
    destruct (bytes_eq_dec info info') as [Ei|Ni].
    - destruct Hne as [Hne|Hne]; [|congruence].
      exists h, (kem ++ s1), (effective_salt h salt), info, (kem' ++ s2), (effective_salt h salt), info', (dem_key_size d).
      split; [|exact E2]. left. intros E. apply app_inv_length in E; [|congruence]. destruct E. congruence.
    - exists h, (kem ++ s1), (effective_salt h salt), info, (kem' ++ s2), (effective_salt h salt), info', (dem_key_size d).
      split; [|exact E2]. right; right. exact Ni.
  Qed.

  (* the recipient can recompute the sender's ciphertext from the KEM bytes and the DEM IV it carries *)
  Theorem ecies_recompute_eq c h f d salt prefix skR pkR eph iv info pt ct :
    ec_pub c skR = Some pkR -> length iv = dem_iv_size d ->
    Encrypt c h f d salt prefix pkR eph iv info pt = Ok ct ->
    Recompute c h f d salt prefix skR ct info pt = Ok ct.
  Proof.
    intros Hpub Liv H. unfold ecies_encrypt in H.
    destruct (primitive_supported c f d) eqn:Ps; [|discriminate]. cbn [negb] in H.
    inv_bind H. rename v into raw. injection Hb as <-.
    unfold ecies_raw_encrypt in Ha. inv_bind Ha. destruct v as [kem key]. inv_bind Hab. rename v into body.
    injection Habb as <-.
    destruct (ecies_kem_law ec_dh ec_pub ec_oncurve ec_decompress hkdf ec_dh_comm ec_pub_shape ec_decompress_compress
                _ _ _ _ _ _ _ _ _ _ _ Hpub Haa) as [Hd Hs].
    unfold ecies_recompute. rewrite Hs. cbn [bind]. rewrite slice_mid. cbn [bind].
    assert (Eb : exists rest, body = iv ++ rest).
    { apply dem_encrypt_frame in Haba. destruct Haba as (-> & _ & Ds). unfold dem_frame.
      destruct d; try discriminate; simpl in Liv.
      - eexists; reflexivity.
      - eexists; reflexivity.
      - destruct iv; [|discriminate]. eexists; reflexivity.
      - rewrite <- app_assoc. eexists; reflexivity.
      - rewrite <- app_assoc. eexists; reflexivity. }
    destruct Eb as (rest & Eb). rewrite Eb. rewrite <- Liv.
    replace (prefix ++ kem ++ iv ++ rest) with ((prefix ++ kem) ++ iv ++ rest) by (rewrite <- app_assoc; reflexivity).
    replace (length prefix + length kem)%nat with (length (prefix ++ kem)) by apply app_length.
    rewrite slice_mid. cbn [bind]. rewrite Hd. cbn [bind]. rewrite <- Eb. rewrite Haba. cbn [bind].
    rewrite <- app_assoc. reflexivity.
  Qed.
End EciesAcceptance.

(* ------------------------------------------------------------------ *)
(* a toy instance of the oracles: the laws are jointly satisfiable     *)
(* ------------------------------------------------------------------ *)
Definition toy_ec_dh (c : curve) (a B : bytes) : option bytes := Some [7].
Definition toy_ec_pub (c : curve) (sk : bytes) : option bytes :=
  if Nat.eqb (length sk) (field_size c) then Some (4 :: zeros (2 * field_size c)) else None.
(* "on the curve": Y = 0...0 *)
Definition toy_ec_oncurve (c : curve) (x y : bytes) : bool := beq y (zeros (field_size c)).
Definition toy_ec_decompress (c : curve) (e : bytes) : option bytes :=
  Some (4 :: skipn 1 e ++ zeros (field_size c)).
Definition toy_hkdf (h : hash) (ikm salt info : bytes) (n : nat) : bytes :=
  repeat (toy_sum (ikm ++ salt ++ info)) n.
Definition toy_gcm_seal (k iv ad p : bytes) : bytes := p ++ firstn 16 (k ++ zeros 16).
Definition toy_gcm_open (k iv ad c : bytes) : option bytes :=
  if (Nat.leb 16 (length c) && beq (skipn (length c - 16) c) (firstn 16 (k ++ zeros 16)))%bool
  then Some (firstn (length c - 16) c) else None.
Definition toy_aes_ctr (k iv x : bytes) : bytes := x.
Definition toy_hmac (k m : bytes) : bytes := zeros 32.
Definition toy_siv_seal (k ad p : bytes) : bytes := p.
Definition toy_siv_open (k ad c : bytes) : option bytes := Some c.

Lemma toy_ec_dh_comm c a b A B :
  toy_ec_pub c a = Some A -> toy_ec_pub c b = Some B -> toy_ec_dh c a B = toy_ec_dh c b A.
Proof. reflexivity. Qed.
Lemma toy_ec_pub_shape c sk P : toy_ec_pub c sk = Some P ->
  length P = (1 + 2 * field_size c)%nat /\ hd 0 P = 4 /\
  toy_ec_oncurve c (coord_x c P) (coord_y c P) = true.
Proof.
  unfold toy_ec_pub. destruct (Nat.eqb (length sk) (field_size c)); [|discriminate].
  intros H. injection H as <-. split; [simpl; rewrite zeros_length; reflexivity|]. split; [reflexivity|].
  destruct c; reflexivity.
Qed.
Lemma toy_ec_decompress_compress c x y :
  toy_ec_oncurve c x y = true -> length x = field_size c -> length y = field_size c ->
  toy_ec_decompress c ((if N.odd (last y 0) then 3 else 2) :: x) = Some (4 :: x ++ y).
Proof.
  unfold toy_ec_oncurve, toy_ec_decompress. intros H _ _. apply beq_eq in H. subst y. reflexivity.
Qed.
Lemma toy_gcm_key_len k : length (firstn 16 (k ++ zeros 16)) = 16%nat.
Proof. rewrite firstn_length, app_length, zeros_length. lia. Qed.
Lemma toy_gcm_open_seal k iv ad p : toy_gcm_open k iv ad (toy_gcm_seal k iv ad p) = Some p.
Proof.
  unfold toy_gcm_open, toy_gcm_seal. rewrite app_length, toy_gcm_key_len.
  replace (length p + 16 - 16)%nat with (length p) by lia.
  rewrite skipn_app, skipn_all, Nat.sub_diag. simpl skipn. rewrite beq_refl.
  destruct (Nat.leb_spec 16 (length p + 16)); [|lia]. simpl.
  rewrite firstn_app, Nat.sub_diag, firstn_all. simpl. rewrite app_nil_r. reflexivity.
Qed.
Lemma toy_gcm_seal_len k iv ad p : length (toy_gcm_seal k iv ad p) = (length p + 16)%nat.
Proof. unfold toy_gcm_seal. rewrite app_length, toy_gcm_key_len. reflexivity. Qed.
Lemma toy_aes_ctr_involutive k iv x : toy_aes_ctr k iv (toy_aes_ctr k iv x) = x.
Proof. reflexivity. Qed.
Lemma toy_hmac_len k m : length (toy_hmac k m) = 32%nat.
Proof. apply zeros_length. Qed.
Lemma toy_siv_open_seal k ad p : toy_siv_open k ad (toy_siv_seal k ad p) = Some p.
Proof. reflexivity. Qed.
Lemma toy_gcm_open_sound k iv ad c p : toy_gcm_open k iv ad c = Some p -> c = toy_gcm_seal k iv ad p.
Proof.
  unfold toy_gcm_open, toy_gcm_seal.
  destruct (Nat.leb 16 (length c) && beq (skipn (length c - 16) c) (firstn 16 (k ++ zeros 16)))%bool eqn:E; [|discriminate].
  apply andb_true_iff in E. destruct E as [_ E]. apply beq_eq in E.
  intros H. injection H as <-. rewrite <- E. symmetry. apply firstn_skipn.
Qed.
Lemma toy_siv_open_sound k ad c p : toy_siv_open k ad c = Some p -> c = toy_siv_seal k ad p.
Proof. unfold toy_siv_open, toy_siv_seal. congruence. Qed.
Lemma toy_hkdf_len h ikm salt info n : length (toy_hkdf h ikm salt info n) = n.
Proof. apply repeat_length. Qed.
