(* C13 — proofs about model/Secrets.v (and the no-secrets readers of
   model/Untrusted.v). *)
From Coq Require Import String Ascii List Arith NArith Bool Lia ZifyN ZifyNat ZifyBool.
From Tink Require Import Bytes UntrustedConsts Untrusted UntrustedSpec UntrustedProofs Secrets.
Import ListNotations.
Open Scope list_scope.
Open Scope N_scope.

(* ------------------------------------------------------------------ *)
(* the classifier                                                      *)
(* ------------------------------------------------------------------ *)
(* free of secrets, in the property's words: public or remote; 3 and 4 are the
   enum values of ASYMMETRIC_PUBLIC and REMOTE in proto/tink.proto *)
Definition public_or_remote (m : N) : Prop := m = 3 \/ m = 4.

Lemma secret_material_spec m : secret_material m = false <-> public_or_remote m.
Proof. unfold secret_material, public_or_remote, km_public, km_remote. lia. Qed.

Theorem has_secrets_iff ks :
  has_secrets ks = false <-> Forall (fun k => public_or_remote (key_material k)) (ks_keys ks).
Proof.
  unfold has_secrets. induction (ks_keys ks) as [|k t IH]; simpl.
  - split; auto.
  - rewrite orb_false_iff, IH, secret_material_spec. split.
    + intros [A B]. constructor; auto.
    + intros H. inversion H; subst. auto.
Qed.

(* one secret key, at whatever position, is enough *)
Theorem secret_at_any_position p pre k post :
  ~ public_or_remote (key_material k) -> has_secrets (mkKS p (pre ++ k :: post)) = true.
Proof.
  intros H. destruct (has_secrets _) eqn:E; [reflexivity|]. exfalso.
  apply has_secrets_iff in E. simpl in E. rewrite Forall_app in E. destruct E as [_ E].
  inversion E; subst. auto.
Qed.

Section Apis.
Variable L : stdlib.
Notation handle_no_secrets := (handle_no_secrets L).
Notation read_no_secrets := (read_no_secrets L).
Notation handle_from_proto := (handle_from_proto L).
Notation read := (read L).

(* NewHandleWithNoSecrets (/repo b141c20): the label test, the cleartext
   construction, then the material test on the re-serialised keys *)
Theorem handle_no_secrets_spec ks :
  handle_no_secrets (Some ks) =
  if has_secrets ks then Err
  else match handle_from_proto (Some ks) with
       | Ok h => if handle_has_secrets h then Err else Ok h
       | Err => Err
       | Panic => Panic
       end.
Proof. unfold Untrusted.handle_no_secrets. destruct (has_secrets ks); [reflexivity|]. destruct (handle_from_proto (Some ks)); reflexivity. Qed.

Theorem no_secrets_api_fails_on_secret ks :
  Exists (fun k => ~ public_or_remote (key_material k)) (ks_keys ks) ->
  handle_no_secrets (Some ks) = Err
  /\ forall b, decode_keyset b = Some ks -> read_no_secrets b = Err.
Proof.
  intros H. assert (S : has_secrets ks = true).
  { destruct (has_secrets ks) eqn:E; [reflexivity|]. exfalso. apply has_secrets_iff in E.
    rewrite Exists_exists in H. destruct H as [k [Hin Hk]]. rewrite Forall_forall in E. exact (Hk (E k Hin)). }
  split.
  - unfold Untrusted.handle_no_secrets. rewrite S. reflexivity.
  - intros b D. unfold Untrusted.read_no_secrets. rewrite D. unfold Untrusted.handle_no_secrets. rewrite S. reflexivity.
Qed.

(* the re-serialised keys hold no secret iff every key object serialises to
   public or remote material *)
Lemma handle_has_secrets_iff h :
  handle_has_secrets h = false <-> Forall (fun e => public_or_remote (out_material e)) h.
Proof.
  unfold handle_has_secrets. induction h as [|e t IH]; simpl.
  - split; auto.
  - rewrite orb_false_iff, IH, secret_material_spec. split.
    + intros [A B]. constructor; auto.
    + intros H. inversion H; subst. auto.
Qed.

(* on keysets labelled public/remote only, the no-secrets APIs are the
   cleartext construction followed by the material test on the key objects *)
Theorem no_secrets_api_on_public_labels ks :
  Forall (fun k => public_or_remote (key_material k)) (ks_keys ks) ->
  handle_no_secrets (Some ks) = bind (handle_from_proto (Some ks)) (fun h => if handle_has_secrets h then Err else Ok h)
  /\ forall b, decode_keyset b = Some ks ->
       read_no_secrets b = bind (read b) (fun h => if handle_has_secrets h then Err else Ok h).
Proof.
  intros H. apply has_secrets_iff in H. split.
  - unfold Untrusted.handle_no_secrets. rewrite H. reflexivity.
  - intros b D. unfold Untrusted.read_no_secrets, Untrusted.read. rewrite D.
    unfold Untrusted.handle_no_secrets. rewrite H.
    destruct (ks_keys ks) eqn:E; [|reflexivity].
    unfold Untrusted.handle_from_proto, validate. rewrite E. reflexivity.
Qed.

Theorem no_secrets_handle_is_public ks h :
  handle_no_secrets ks = Ok h ->
  exists k, ks = Some k /\ Forall (fun x => public_or_remote (key_material x)) (ks_keys k).
Proof.
  intros H. apply handle_no_secrets_wf in H. destruct H as [k [E [S _]]]. exists k. split; auto.
  apply has_secrets_iff. exact S.
Qed.

End Apis.

(* WriteWithNoSecrets: refuses iff some key object serialises to secret material *)
Theorem write_no_secrets_iff h : h <> [] ->
  ((exists b, write_no_secrets h = Ok b) <-> Forall (fun e => public_or_remote (out_material e)) h).
Proof.
  intros Hne. unfold write_no_secrets. destruct h as [|e0 t]; [congruence|].
  set (h := e0 :: t). cbv zeta.
  assert (Forall (fun k => public_or_remote (key_material k)) (ks_keys (proto_of_handle h))
          <-> Forall (fun e => public_or_remote (out_material e)) h) as Q.
  { unfold proto_of_handle. cbn [ks_keys]. rewrite Forall_map. cbn [key_material proto_key_of_entry k_data kd_mat]. reflexivity. }
  rewrite <- Q, <- has_secrets_iff. destruct (has_secrets (proto_of_handle h)).
  - split; [intros [b Hb]; discriminate|discriminate].
  - split; eauto.
Qed.

Theorem write_no_secrets_output h b : write_no_secrets h = Ok b -> b = ser_keyset (proto_of_handle h).
Proof.
  unfold write_no_secrets. destruct h; [discriminate|]. cbv zeta.
  destruct (has_secrets _); [discriminate|]. intros H. inversion H. reflexivity.
Qed.

(* ------------------------------------------------------------------ *)
(* KeysetInfo / String: a function of the metadata only                *)
(* ------------------------------------------------------------------ *)
(* The kind of key object (its constructor, and for the asymmetric kinds
   whether it is the private half) as a number: 0 is the fallback key. *)
Definition ptag (d : pkd) : N :=
  match d with
  | PHmac _ _ _ => 1 | PAesCmac _ _ => 2 | PAesGcm _ => 3 | PAesGcmSiv _ => 4 | PAesCtrHmac _ _ _ _ _ => 5
  | PAesSiv _ => 6 | PHkdfPrf _ _ => 7 | PHmacPrf _ _ => 8 | PAesCmacPrf _ => 9 | PEcdsaPub _ _ _ _ => 10
  | PEcdsaPriv _ _ _ _ _ => 11 | PRsaPkcs1Pub _ _ _ => 12 | PRsaPssPub _ _ _ _ => 13 | PChaCha _ => 14
  | PXChaCha _ => 15 | PXAesGcm _ _ => 16 | PEd25519Pub => 17 | PEd25519Priv _ => 18
  | PRsaPriv _ _ _ _ _ => 19 | PEcies false _ _ _ => 20 | PEcies true _ _ _ => 21
  | PHpke false _ => 22 | PHpke true _ => 23 | PStreamGcmHkdf _ _ _ => 24 | PStreamCtrHmac _ _ _ _ _ => 25
  | PJwtHmac _ _ => 26 | PJwtEcdsa false _ _ => 27 | PJwtEcdsa true _ _ => 28 | PJwtRsaPub _ _ _ => 29
  | PJwtRsaPriv _ _ _ _ _ _ _ _ => 30 | PJwtMlDsaPub => 31 | PMlDsaPub => 32
  | PSlhDsa false => 33 | PSlhDsa true => 34 | PMlDsaPriv => 35 | PJwtMlDsaPriv => 36
  | PComposite false _ _ => 37 | PComposite true _ _ => 38
  | PFallback _ => 0
  end.

(* ... and the kind registered for a type URL (protoserialization's parser
   table for the 41 transcribed key types; any other URL: the fallback key) *)
Definition url_tag (u : bytes) : N :=
  if beq u u_hmac then 1 else if beq u u_aes_cmac then 2 else if beq u u_aes_gcm then 3
  else if beq u u_aes_gcm_siv then 4 else if beq u u_aes_ctr_hmac then 5 else if beq u u_aes_siv then 6
  else if beq u u_hkdf_prf then 7 else if beq u u_hmac_prf then 8 else if beq u u_aes_cmac_prf then 9
  else if beq u u_ecdsa_pub then 10 else if beq u u_ecdsa_priv then 11 else if beq u u_rsa_pkcs1_pub then 12
  else if beq u u_rsa_pss_pub then 13 else if beq u u_chacha then 14 else if beq u u_xchacha then 15
  else if beq u u_xaes_gcm then 16 else if beq u u_ed25519_pub then 17 else if beq u u_ed25519_priv then 18
  else if beq u u_rsa_pkcs1_priv then 19 else if beq u u_rsa_pss_priv then 19
  else if beq u u_ecies_pub then 20 else if beq u u_ecies_priv then 21
  else if beq u u_hpke_pub then 22 else if beq u u_hpke_priv then 23
  else if beq u u_stream_gcm_hkdf then 24 else if beq u u_stream_ctr_hmac then 25
  else if beq u u_jwt_hmac then 26 else if beq u u_jwt_ecdsa_pub then 27 else if beq u u_jwt_ecdsa_priv then 28
  else if beq u u_jwt_rsa_pkcs1_pub then 29 else if beq u u_jwt_rsa_pss_pub then 29
  else if beq u u_jwt_rsa_pkcs1_priv then 30 else if beq u u_jwt_rsa_pss_priv then 30
  else if beq u u_jwt_mldsa_pub then 31 else if beq u u_mldsa_pub then 32
  else if beq u u_slhdsa_pub then 33 else if beq u u_slhdsa_priv then 34
  else if beq u u_mldsa_priv then 35 else if beq u u_jwt_mldsa_priv then 36
  else if beq u u_composite_pub then 37 else if beq u u_composite_priv then 38
  else 0.

(* what the serializer of a kind writes: the material type ... *)
Definition memt (t : N) (l : list N) : bool := existsb (N.eqb t) l.
Definition symmetric_tags : list N := [1; 2; 3; 4; 5; 6; 7; 8; 9; 14; 15; 16; 24; 25; 26].
Definition private_tags : list N := [11; 18; 19; 21; 23; 28; 30; 34; 35; 36; 38].
Definition public_tags : list N := [10; 12; 13; 17; 20; 22; 27; 29; 31; 32; 33; 37].
Definition material_of_tag (t label : N) : N :=
  if memt t symmetric_tags then km_symmetric
  else if memt t private_tags then km_private
  else if memt t public_tags then km_public
  else label.                    (* the fallback key keeps the label it came with *)
(* ... and the prefix type: 1 = no LEGACY variant (LEGACY is CRUNCHY), 2 = always RAW *)
Definition class_of_tag (t : N) : N :=
  if memt t [3; 4; 5; 6; 14; 15; 20; 21] then 1 else if memt t [24; 25] then 2 else 0.
Definition prefix_of_class (c p : N) : N :=
  if c =? 1 then (if p =? pt_legacy then pt_crunchy else p) else if c =? 2 then pt_raw else p.

Lemma out_material_tag e : out_material e = material_of_tag (ptag (ekey e)) (emat e).
Proof. unfold out_material. destruct (ekey e) as [| | | | | | | | | | | | | | | | | | |[]|[]| | | |[]| | | | |[]| | |[]|]; reflexivity. Qed.

Lemma shown_prefix_tag e : shown_prefix e = prefix_of_class (class_of_tag (ptag (ekey e))) (eprefix e).
Proof.
  unfold shown_prefix, out_prefix.
  destruct (ekey e) as [| | | | | | | | | | | | | | | | | | |[]|[]| | | |[]| | | | |[]| | |[]|]; reflexivity.
Qed.

(* the material type and the prefix type written for a key of type URL u that
   came in labelled [label] with prefix type p *)
Definition url_material (u : bytes) (label : N) : N := material_of_tag (url_tag u) label.
Definition reported_prefix (u : bytes) (p : N) : N := prefix_of_class (class_of_tag (url_tag u)) p.

Section Info.
Variable L : stdlib.
Notation parse_key := (parse_key L).
Notation to_entry := (to_entry L).
Notation to_entries := (to_entries L).
Notation read := (read L).

Ltac rhs_compute :=
  match goal with |- _ = ?r => let v := eval vm_compute in r in change r with v end.

(* at a leaf: the constructor is known, and so is the URL (or that it is none
   of the 41) *)
Ltac tag_done :=
  cbn [ptag]; unfold url_is in *;
  first [ match goal with H : beq (kd_url _) _ = true |- _ => apply beq_eq in H; rewrite H end;
          rhs_compute; reflexivity
        | unfold url_tag;
          repeat match goal with H : beq (kd_url _) _ = false |- _ => rewrite H; clear H end; reflexivity ].

Ltac tagk :=
  repeat match goal with
  | |- (if url_is ?k ?u then _ else _) = Ok _ -> _ => let U := fresh "U" in destruct (url_is k u) eqn:U
  | |- (if ?c then _ else _) = Ok _ -> _ => destruct c
  | |- okb _ _ = Ok _ -> _ => let H := fresh in intros H; apply okb_ok in H; destruct H as [_ ->]; tag_done
  | |- bind _ _ = Ok _ -> _ =>
      let H := fresh in let a := fresh in intros H; apply bind_ok in H; destruct H as [a [_ H]]; revert H; cbv beta
  | |- Ok _ = Ok _ -> _ => let H := fresh in intros H; inversion H; tag_done
  | |- Err = Ok _ -> _ => discriminate
  | |- Panic = Ok _ -> _ => discriminate
  | |- (let (_, _) := ?p in _) = Ok _ -> _ => destruct p
  | |- match ?o with Some _ => _ | None => _ end = Ok _ -> _ => destruct o
  end.

(* the kind of key object is decided by the type URL alone, for every
   transcribed parser and the fallback *)
Lemma parse_key_base_tag kd p i d : parse_key_base L kd p i = Ok d ->
  url_is kd u_composite_pub = false -> url_is kd u_composite_priv = false -> ptag d = url_tag (kd_url kd).
Proof.
  intros H C1 C2. revert H.
  unfold Untrusted.parse_key_base, parse_key_more, parse_ed25519_pub, parse_ed25519_priv, parse_rsa_priv,
    parse_ecies_pub, parse_ecies_priv, parse_hpke_pub, parse_hpke_priv,
    parse_stream_gcm_hkdf, parse_stream_ctr_hmac, parse_jwt_hmac, parse_jwt_ecdsa_pub, parse_jwt_ecdsa_priv,
    parse_jwt_rsa_pub, parse_mldsa_pub, parse_slhdsa_pub, parse_slhdsa_priv,
    parse_jwt_rsa_priv, parse_jwt_mldsa_pub, parse_mldsa_priv, parse_jwt_mldsa_priv, ed25519_from_seed.
  cbv zeta. tagk.
Qed.

Lemma parse_key_tag kd p i d : parse_key kd p i = Ok d -> ptag d = url_tag (kd_url kd).
Proof.
  unfold Untrusted.parse_key. destruct (url_is kd u_composite_pub) eqn:C1.
  - intros H. apply parse_composite_kind in H. destruct H as (_ & pt & seed & ->).
    unfold url_is in C1. apply beq_eq in C1. rewrite C1. vm_compute. reflexivity.
  - destruct (url_is kd u_composite_priv) eqn:C2.
    + intros H. apply parse_composite_kind in H. destruct H as (_ & pt & seed & ->).
      unfold url_is in C2. apply beq_eq in C2. rewrite C2. vm_compute. reflexivity.
    + intros H. eapply parse_key_base_tag; eassumption.
Qed.

(* what an entry reports, in terms of the key it was made from *)
Lemma to_entry_info primary k e : to_entry primary k = Ok e ->
  exists kd, k_data k = Some kd /\ eurl e = kd_url kd /\ evalue e = kd_value kd /\ emat e = kd_mat kd
    /\ ptag (ekey e) = url_tag (kd_url kd)
    /\ shown_prefix e = reported_prefix (kd_url kd) (k_prefix k).
Proof.
  unfold Untrusted.to_entry. destruct (k_data k) as [kd|]; [|discriminate].
  intros H. apply bind_ok in H. destruct H as [d [Hd H]]. destruct (negb _); [discriminate|].
  inversion H; subst. exists kd. cbn. repeat split.
  - eapply parse_key_tag. exact Hd.
  - apply parse_key_tag in Hd. rewrite shown_prefix_tag. unfold reported_prefix. cbn [ekey eprefix].
    rewrite Hd. reflexivity.
Qed.

Definition entry_info_of (primary : N) (k : option pkey) (e : entry) : Prop :=
  entry_of primary k e /\
  exists pk kd, k = Some pk /\ k_data pk = Some kd /\ eurl e = kd_url kd
    /\ shown_prefix e = reported_prefix (kd_url kd) (k_prefix pk).

Lemma to_entries_info primary keys es :
  to_entries primary keys = Ok es -> Forall2 (entry_info_of primary) keys es.
Proof.
  revert es. induction keys as [|[k|] t IH]; simpl; intros es H.
  - inversion H. constructor.
  - apply bind_ok in H. destruct H as [e [He H]]. apply bind_ok in H. destruct H as [es' [Hes H]].
    inversion H; subst. constructor; [|apply IH; exact Hes]. split.
    + eapply to_entry_shape. exact He.
    + apply to_entry_info in He. destruct He as [kd [A [B [_ [_ [_ C]]]]]]. exists k, kd. auto.
  - discriminate.
Qed.

(* the key-info list of a handle, read off the keyset's metadata *)
Definition reported_key_info (ki : key_info) : key_info :=
  mkKI (ki_url ki) (ki_status ki) (ki_id ki) (reported_prefix (ki_url ki) (ki_prefix ki)).

Lemma entries_key_infos primary keys es : Forall2 (entry_info_of primary) keys es ->
  map (fun e => mkKI (eurl e) (estatus e) (eid e) (shown_prefix e)) es
  = map (fun k => reported_key_info (key_info_of k)) keys.
Proof.
  induction 1 as [|k e keys es [[pk0 [E0 [A [B _]]]] [pk [kd [E [D [U P]]]]]] _ IH]; simpl; [reflexivity|].
  rewrite IH. f_equal. subst k. inversion E; subst pk0. unfold reported_key_info, key_info_of. rewrite D. cbn.
  rewrite U, B, A, P. reflexivity.
Qed.

Lemma primary_id_of_entries primary keys es : Forall2 (entry_info_of primary) keys es ->
  (exists e, In e es /\ eprim e = true) -> primary_id es = primary.
Proof.
  unfold primary_id. intros F.
  assert (G : forall acc, (acc = primary \/ exists e, In e es /\ eprim e = true) ->
              fold_left (fun acc e => if eprim e then eid e else acc) es acc = primary).
  { induction F as [|k e keys es [[pk [E [A [_ [P _]]]]] _] _ IH]; simpl; intros acc H.
    - destruct H as [H|[e [[] _]]]. exact H.
    - destruct (eprim e) eqn:Q.
      + apply IH. left. symmetry in P. apply N.eqb_eq in P. congruence.
      + apply IH. destruct H as [H|[e' [[<-|Hin] He']]]; [left; exact H|congruence|right; eauto]. }
  intros H. apply G. right. exact H.
Qed.

Theorem handle_info_of_metadata ks h :
  handle_from_proto L (Some ks) = Ok h ->
  info_of_handle h = mkInfo (ks_primary ks) (map reported_key_info (i_keys (metadata ks))).
Proof.
  unfold Untrusted.handle_from_proto. destruct (validate (Some ks)); [|discriminate].
  intros H. apply bind_ok in H. destruct H as [es [Hes H]].
  unfold new_from_entries in H. destruct (existsb _ es); [discriminate|].
  destruct (existsb eprim es) eqn:P; [|discriminate]. inversion H; subst h.
  apply to_entries_info in Hes. unfold info_of_handle. f_equal.
  - eapply primary_id_of_entries; eauto. apply existsb_exists in P. exact P.
  - rewrite (entries_key_infos _ _ _ Hes). unfold metadata, info_of_keyset. cbn [i_keys]. rewrite map_map. reflexivity.
Qed.

(* non-interference: two keysets that agree on (type url, status, id, prefix
   type, primary) give the same KeysetInfo, whatever their key bytes *)
Theorem info_noninterference k1 k2 h1 h2 :
  handle_from_proto L (Some k1) = Ok h1 ->
  handle_from_proto L (Some k2) = Ok h2 ->
  metadata k1 = metadata k2 -> info_of_handle h1 = info_of_handle h2.
Proof.
  intros H1 H2 M. rewrite (handle_info_of_metadata _ _ H1), (handle_info_of_metadata _ _ H2).
  unfold metadata, info_of_keyset in *. inversion M as [[P K]]. cbn [i_keys]. rewrite P, K. reflexivity.
Qed.

(* Handle.String() is the text form of KeysetInfo(), whatever prototext does *)
Theorem string_noninterference (text_of_info : keyset_info -> bytes) k1 k2 h1 h2 :
  handle_from_proto L (Some k1) = Ok h1 ->
  handle_from_proto L (Some k2) = Ok h2 ->
  metadata k1 = metadata k2 -> text_of_info (info_of_handle h1) = text_of_info (info_of_handle h2).
Proof. intros H1 H2 M. f_equal. eapply info_noninterference; eauto. Qed.

End Info.

(* the info written beside a ciphertext is the handle's KeysetInfo *)
Theorem written_info_is_handle_info h : info_of_keyset (proto_of_handle h) = info_of_handle h.
Proof.
  unfold info_of_keyset, proto_of_handle, info_of_handle. cbn [ks_primary ks_keys]. f_equal.
  rewrite map_map. reflexivity.
Qed.

(* ------------------------------------------------------------------ *)
(* the encrypted form                                                  *)
(* ------------------------------------------------------------------ *)
(* ConsumeVarint reads back what AppendVarint wrote *)
Lemma varint_aux_enc : forall k idx acc v r,
  (1 <= k)%nat -> idx + N.of_nat k = 10 -> v < 2 ^ (64 - 7 * idx) ->
  varint_aux k idx acc (enc_varint_aux k v ++ r) = Some (acc + v * 2 ^ (7 * idx), r).
Proof.
  induction k as [|k IH]; intros idx acc v r Hk Hidx Hv; [lia|].
  cbn [enc_varint_aux]. destruct (v <? 128) eqn:Lt.
  - cbn [app varint_aux]. rewrite Lt.
    destruct (idx =? 9) eqn:E9; cbn [andb]; [|reflexivity].
    apply N.eqb_eq in E9. subst idx. change (64 - 7 * 9) with 1 in Hv. change (2 ^ 1) with 2 in Hv.
    assert (v <? 2 = true) as -> by lia. reflexivity.
  - cbn [app varint_aux].
    assert ((v mod 128 + 128 <? 128) = false) as -> by lia.
    assert (Hidx8 : idx <= 8).
    { destruct (N.le_gt_cases idx 8) as [L|G]; [exact L|]. exfalso.
      assert (idx = 9) by lia. subst idx. change (2 ^ (64 - 7 * 9)) with 2 in Hv. lia. }
    assert (Hk' : (1 <= k)%nat) by lia.
    rewrite (IH (idx + 1) _ (v / 128) r Hk'); [|lia|].
    + f_equal. f_equal.
      replace (v mod 128 + 128 - 128) with (v mod 128) by lia.
      replace (7 * (idx + 1)) with (7 * idx + 7) by lia. rewrite N.pow_add_r. change (2 ^ 7) with 128.
      pose proof (N.div_mod v 128). nia.
    + replace (64 - 7 * idx) with (7 + (64 - 7 * (idx + 1))) in Hv by lia.
      rewrite N.pow_add_r in Hv. change (2 ^ 7) with 128 in Hv.
      apply N.div_lt_upper_bound; lia.
Qed.

Lemma varint_enc v r : v < 18446744073709551616 -> varint (enc_varint v ++ r) = Some (v, r).
Proof.
  intros H. unfold varint, enc_varint. rewrite varint_aux_enc; try lia.
  - f_equal. f_equal. change (7 * 0) with 0. change (2 ^ 0) with 1. lia.
  - change (2 ^ (64 - 7 * 0)) with 18446744073709551616. exact H.
Qed.

Lemma take_all b : take (blen b) b = Some (b, []).
Proof.
  unfold take. rewrite N.leb_refl. unfold blen. rewrite Nnat.Nat2N.id, firstn_all, skipn_all. reflexivity.
Qed.

(* BinaryReader.ReadEncrypted recovers the ciphertext BinaryWriter.WriteEncrypted wrote *)
Theorem written_binary_decodes ct : blen ct < 18446744073709551616 ->
  decode_encrypted (ser_encrypted_binary ct) = Some ct.
Proof.
  intros Hl. unfold ser_encrypted_binary, enc_bytes_field. destruct ct as [|c0 ct']; [vm_compute; reflexivity|].
  set (ct := c0 :: ct') in *.
  assert (F : fields (enc_len_field 2 ct) = Some [(2, FLen ct)]).
  { unfold fields, enc_len_field. change (enc_tag 2 2) with [18]. cbn [app length fields_aux].
    change (varint (18 :: enc_varint (blen ct) ++ ct)) with (Some (18, enc_varint (blen ct) ++ ct)).
    cbv iota. change (18 / 8) with 2. change (18 mod 8) with 2.
    change ((2 <? 1) || (max_field_number <? 2)) with false. cbv iota.
    change (2 =? 0) with false. change (2 =? 2) with true. cbv iota.
    rewrite varint_enc by exact Hl. rewrite take_all.
    destruct (length (enc_varint (blen ct) ++ ct)); reflexivity. }
  unfold decode_encrypted, wire_ok, sch_encrypted, fields_or_nil. rewrite F. cbn. reflexivity.
Qed.

Section EncryptedProofs.
Variable L : stdlib.
(* the key-encryption AEAD as a family indexed by the key *)
Variable K : Type.
Variable aead_enc : K -> bytes -> bytes -> bytes -> bytes.     (* key, iv, plaintext, associated data *)
Variable aead_dec : K -> bytes -> bytes -> option bytes.       (* key, ciphertext, associated data *)
Notation read_encrypted k := (read_encrypted L (aead_dec k)).

(* unconditionally: a handle comes back only if the AEAD accepted *)
Theorem encrypted_read_needs_aead k b ad h : read_encrypted k b ad = Ok h ->
  exists ct pt ks, decode_encrypted b = Some ct /\ aead_dec k ct ad = Some pt
    /\ decode_keyset pt = Some ks /\ accepted_as ks h.
Proof. apply read_encrypted_wf. Qed.

Theorem aead_rejects_then_error k b ad ct : decode_encrypted b = Some ct -> aead_dec k ct ad = None ->
  read_encrypted k b ad = Err.
Proof. apply wrong_kek_rejected. Qed.

(* the one law used below: decryption inverts encryption under the same key and
   associated data (correctness of the key-encryption AEAD) *)
Hypothesis aead_correct : forall k iv pt ad, aead_dec k (aead_enc k iv pt ad) ad = Some pt.

Theorem right_key_reads_serialized_keyset k h iv ad b :
  write_encrypted_binary (aead_enc k) h iv ad = Ok b ->
  blen (encrypted_ct (aead_enc k) h iv ad) < 18446744073709551616 ->
  read_encrypted k b ad =
  match decode_keyset (ser_keyset (proto_of_handle h)) with
  | Some ks => handle_from_proto L (Some ks)
  | None => Err
  end.
Proof.
  unfold write_encrypted_binary. destruct h as [|e0 t]; [discriminate|]. intros H S. inversion H; subst b.
  unfold Untrusted.read_encrypted. rewrite written_binary_decodes by exact S.
  unfold encrypted_ct. rewrite aead_correct. reflexivity.
Qed.

End EncryptedProofs.
