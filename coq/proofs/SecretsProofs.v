(* C13 — proofs about model/Secrets.v (and the no-secrets readers of
   model/Untrusted.v). *)
From Coq Require Import String Ascii List Arith NArith Bool Lia ZifyN ZifyNat ZifyBool.
From Tink Require Import Bytes UntrustedConsts Untrusted UntrustedSpec UntrustedProofs Secrets.
Import ListNotations.
Open Scope list_scope.
Open Scope N_scope.

(* ------------------------------------------------------------------ *)
(* the classifier                                                      *)
(* ------------------------------------------------------------------ *)
(* free of secrets, in the property's words: public or remote; 3 and 4 are the
   enum values of ASYMMETRIC_PUBLIC and REMOTE in proto/tink.proto *)
Definition public_or_remote (m : N) : Prop := m = 3 \/ m = 4.

Lemma secret_material_spec m : secret_material m = false <-> public_or_remote m.
Proof. unfold secret_material, public_or_remote, km_public, km_remote. lia. Qed.

Theorem has_secrets_iff ks :
  has_secrets ks = false <-> Forall (fun k => public_or_remote (key_material k)) (ks_keys ks).
Proof.
  unfold has_secrets. induction (ks_keys ks) as [|k t IH]; simpl.
  - split; auto.
  - rewrite orb_false_iff, IH, secret_material_spec. split.
    + intros [A B]. constructor; auto.
    + intros H. inversion H; subst. auto.
Qed.

(* one secret key, at whatever position, is enough *)
Theorem secret_at_any_position p pre k post :
  ~ public_or_remote (key_material k) -> has_secrets (mkKS p (pre ++ k :: post)) = true.
Proof.
  intros H. destruct (has_secrets _) eqn:E; [reflexivity|]. exfalso.
  apply has_secrets_iff in E. simpl in E. rewrite Forall_app in E. destruct E as [_ E].
  inversion E; subst. auto.
Qed.

Section Apis.
Variable L : stdlib.
Notation handle_no_secrets := (handle_no_secrets L).
Notation read_no_secrets := (read_no_secrets L).
Notation handle_from_proto := (handle_from_proto L).
Notation read := (read L).

(* NewHandleWithNoSecrets: exactly the cleartext construction restricted to
   keysets free of secrets *)
Theorem handle_no_secrets_spec ks :
  handle_no_secrets (Some ks) =
  if has_secrets ks then Err else handle_from_proto (Some ks).
Proof. reflexivity. Qed.

Theorem no_secrets_api_fails_on_secret ks :
  Exists (fun k => ~ public_or_remote (key_material k)) (ks_keys ks) ->
  handle_no_secrets (Some ks) = Err
  /\ forall b, decode_keyset b = Some ks -> read_no_secrets b = Err.
Proof.
  intros H. assert (S : has_secrets ks = true).
  { destruct (has_secrets ks) eqn:E; [reflexivity|]. exfalso. apply has_secrets_iff in E.
    rewrite Exists_exists in H. destruct H as [k [Hin Hk]]. rewrite Forall_forall in E. exact (Hk (E k Hin)). }
  split.
  - unfold Untrusted.handle_no_secrets. rewrite S. reflexivity.
  - intros b D. unfold Untrusted.read_no_secrets. rewrite D. unfold Untrusted.handle_no_secrets. rewrite S. reflexivity.
Qed.

Theorem no_secrets_api_succeeds_on_public ks :
  Forall (fun k => public_or_remote (key_material k)) (ks_keys ks) ->
  handle_no_secrets (Some ks) = handle_from_proto (Some ks)
  /\ forall b, decode_keyset b = Some ks -> read_no_secrets b = read b.
Proof.
  intros H. apply has_secrets_iff in H. split.
  - unfold Untrusted.handle_no_secrets. rewrite H. reflexivity.
  - intros b D. unfold Untrusted.read_no_secrets, Untrusted.read. rewrite D.
    unfold Untrusted.handle_no_secrets. rewrite H.
    destruct (ks_keys ks) eqn:E; [|reflexivity].
    unfold Untrusted.handle_from_proto, validate. rewrite E. reflexivity.
Qed.

Theorem no_secrets_handle_is_public ks h :
  handle_no_secrets ks = Ok h ->
  exists k, ks = Some k /\ Forall (fun x => public_or_remote (key_material x)) (ks_keys k).
Proof.
  intros H. apply handle_no_secrets_wf in H. destruct H as [k [E [S _]]]. exists k. split; auto.
  apply has_secrets_iff. exact S.
Qed.

End Apis.

(* WriteWithNoSecrets: refuses iff some key object serialises to secret material *)
Theorem write_no_secrets_iff h : h <> [] ->
  ((exists b, write_no_secrets h = Ok b) <-> Forall (fun e => public_or_remote (out_material e)) h).
Proof.
  intros Hne. unfold write_no_secrets. destruct h as [|e0 t]; [congruence|].
  set (h := e0 :: t). cbv zeta.
  assert (Forall (fun k => public_or_remote (key_material k)) (ks_keys (proto_of_handle h))
          <-> Forall (fun e => public_or_remote (out_material e)) h) as Q.
  { unfold proto_of_handle. cbn [ks_keys]. rewrite Forall_map. cbn [key_material proto_key_of_entry k_data kd_mat]. reflexivity. }
  rewrite <- Q, <- has_secrets_iff. destruct (has_secrets (proto_of_handle h)).
  - split; [intros [b Hb]; discriminate|discriminate].
  - split; eauto.
Qed.

Theorem write_no_secrets_output h b : write_no_secrets h = Ok b -> b = ser_keyset (proto_of_handle h).
Proof.
  unfold write_no_secrets. destruct h; [discriminate|]. cbv zeta.
  destruct (has_secrets _); [discriminate|]. intros H. inversion H. reflexivity.
Qed.

(* ------------------------------------------------------------------ *)
(* KeysetInfo / String: a function of the metadata only                *)
(* ------------------------------------------------------------------ *)
Definition aead_like (d : pkd) : bool :=
  match d with
  | PAesGcm _ | PAesGcmSiv _ | PAesCtrHmac _ _ _ _ _ | PAesSiv _ | PChaCha _ | PXChaCha _ => true
  | _ => false
  end.
Definition url_collapses (u : bytes) : bool :=
  beq u u_aes_gcm || beq u u_aes_gcm_siv || beq u u_aes_ctr_hmac || beq u u_aes_siv
  || beq u u_chacha || beq u u_xchacha.
(* the prefix type reported for a key of type URL u that came in with prefix p *)
Definition reported_prefix (u : bytes) (p : N) : N :=
  if url_collapses u && (p =? pt_legacy) then pt_crunchy else p.

Section Info.
Variable L : stdlib.
Notation parse_key := (parse_key L).
Notation to_entry := (to_entry L).
Notation to_entries := (to_entries L).
Notation read := (read L).

Ltac rhs_compute :=
  match goal with |- _ = ?r => let v := eval vm_compute in r in change r with v end.

(* the kind of key object is decided by the type URL alone *)
Lemma parse_key_collapse kd p i d : parse_key kd p i = Ok d -> aead_like d = url_collapses (kd_url kd).
Proof.
  unfold Untrusted.parse_key, url_is.
  Ltac scalar_branch E :=
    apply beq_eq in E; unfold url_collapses; rewrite E; intros H;
    repeat match type of H with (if ?c then Err else _) = Ok _ => destruct c; [discriminate|] end;
    apply okb_ok in H; destruct H as [_ ->]; cbn [aead_like]; rhs_compute; reflexivity.
  destruct (beq (kd_url kd) u_hmac) eqn:E1; [scalar_branch E1|].
  destruct (beq (kd_url kd) u_aes_cmac) eqn:E2; [scalar_branch E2|].
  destruct (beq (kd_url kd) u_aes_gcm) eqn:E3; [scalar_branch E3|].
  destruct (beq (kd_url kd) u_aes_gcm_siv) eqn:E4; [scalar_branch E4|].
  destruct (beq (kd_url kd) u_aes_ctr_hmac) eqn:E5; [scalar_branch E5|].
  destruct (beq (kd_url kd) u_aes_siv) eqn:E6; [scalar_branch E6|].
  destruct (beq (kd_url kd) u_hkdf_prf) eqn:E7; [scalar_branch E7|].
  destruct (beq (kd_url kd) u_hmac_prf) eqn:E8; [scalar_branch E8|].
  destruct (beq (kd_url kd) u_aes_cmac_prf) eqn:E9; [scalar_branch E9|].
  destruct (beq (kd_url kd) u_ecdsa_pub) eqn:E10.
  { apply beq_eq in E10. unfold url_collapses. rewrite E10. intros H.
    repeat match type of H with (if ?c then Err else _) = Ok _ => destruct c; [discriminate|] end.
    apply bind_ok in H. destruct H as [[[[c h] e] pt] [_ H]]. inversion H; subst. cbn [aead_like]. rhs_compute. reflexivity. }
  destruct (beq (kd_url kd) u_ecdsa_priv) eqn:E11.
  { apply beq_eq in E11. unfold url_collapses. rewrite E11. intros H.
    repeat match type of H with (if ?c then Err else _) = Ok _ => destruct c; [discriminate|] end.
    apply bind_ok in H. destruct H as [[[[c h] e] pt] [_ H]].
    destruct (coord_size c); [|discriminate]. apply bind_ok in H. destruct H as [dd [_ H]].
    destruct (ec_pub_of_priv L c dd); [|discriminate]. destruct (beq _ pt); [|discriminate].
    inversion H; subst. cbn [aead_like]. rhs_compute. reflexivity. }
  destruct (beq (kd_url kd) u_rsa_pkcs1_pub) eqn:E12; [scalar_branch E12|].
  destruct (beq (kd_url kd) u_rsa_pss_pub) eqn:E13; [scalar_branch E13|].
  destruct (beq (kd_url kd) u_chacha) eqn:E14; [scalar_branch E14|].
  destruct (beq (kd_url kd) u_xchacha) eqn:E15; [scalar_branch E15|].
  destruct (beq (kd_url kd) u_xaes_gcm) eqn:E16; [scalar_branch E16|].
  (* the key types modelled later and the fallback key: none of them is AEAD-like *)
  intros H. apply parse_key_more_kind in H. unfold url_collapses. rewrite E3, E4, E5, E6, E14, E15.
  destruct d; try discriminate H; reflexivity.
Qed.

(* what an entry reports, in terms of the key it was made from *)
Lemma to_entry_info primary k e : to_entry primary k = Ok e ->
  exists kd, k_data k = Some kd /\ eurl e = kd_url kd /\ evalue e = kd_value kd /\ emat e = kd_mat kd
    /\ out_prefix e = reported_prefix (kd_url kd) (k_prefix k).
Proof.
  unfold Untrusted.to_entry. destruct (k_data k) as [kd|]; [|discriminate].
  intros H. apply bind_ok in H. destruct H as [d [Hd H]]. destruct (negb _); [discriminate|].
  inversion H; subst. exists kd. cbn. repeat split.
  apply parse_key_collapse in Hd. unfold reported_prefix, out_prefix. cbn [ekey eprefix].
  rewrite <- Hd. destruct d; reflexivity.
Qed.

Definition entry_info_of (primary : N) (k : option pkey) (e : entry) : Prop :=
  entry_of primary k e /\
  exists pk kd, k = Some pk /\ k_data pk = Some kd /\ eurl e = kd_url kd
    /\ out_prefix e = reported_prefix (kd_url kd) (k_prefix pk).

Lemma to_entries_info primary keys es :
  to_entries primary keys = Ok es -> Forall2 (entry_info_of primary) keys es.
Proof.
  revert es. induction keys as [|[k|] t IH]; simpl; intros es H.
  - inversion H. constructor.
  - apply bind_ok in H. destruct H as [e [He H]]. apply bind_ok in H. destruct H as [es' [Hes H]].
    inversion H; subst. constructor; [|apply IH; exact Hes]. split.
    + eapply to_entry_shape. exact He.
    + apply to_entry_info in He. destruct He as [kd [A [B [_ [_ C]]]]]. exists k, kd. auto.
  - discriminate.
Qed.

(* the key-info list of a handle, read off the keyset's metadata *)
Definition reported_key_info (ki : key_info) : key_info :=
  mkKI (ki_url ki) (ki_status ki) (ki_id ki) (reported_prefix (ki_url ki) (ki_prefix ki)).

Lemma entries_key_infos primary keys es : Forall2 (entry_info_of primary) keys es ->
  map (fun e => mkKI (eurl e) (estatus e) (eid e) (out_prefix e)) es
  = map (fun k => reported_key_info (key_info_of k)) keys.
Proof.
  induction 1 as [|k e keys es [[pk0 [E0 [A [B _]]]] [pk [kd [E [D [U P]]]]]] _ IH]; simpl; [reflexivity|].
  rewrite IH. f_equal. subst k. inversion E; subst pk0. unfold reported_key_info, key_info_of. rewrite D. cbn.
  rewrite U, B, A, P. reflexivity.
Qed.

Lemma primary_id_of_entries primary keys es : Forall2 (entry_info_of primary) keys es ->
  (exists e, In e es /\ eprim e = true) -> primary_id es = primary.
Proof.
  unfold primary_id. intros F.
  assert (G : forall acc, (acc = primary \/ exists e, In e es /\ eprim e = true) ->
              fold_left (fun acc e => if eprim e then eid e else acc) es acc = primary).
  { induction F as [|k e keys es [[pk [E [A [_ [P _]]]]] _] _ IH]; simpl; intros acc H.
    - destruct H as [H|[e [[] _]]]. exact H.
    - destruct (eprim e) eqn:Q.
      + apply IH. left. symmetry in P. apply N.eqb_eq in P. congruence.
      + apply IH. destruct H as [H|[e' [[<-|Hin] He']]]; [left; exact H|congruence|right; eauto]. }
  intros H. apply G. right. exact H.
Qed.

Theorem handle_info_of_metadata ks h :
  handle_from_proto L (Some ks) = Ok h ->
  info_of_handle h = mkInfo (ks_primary ks) (map reported_key_info (i_keys (metadata ks))).
Proof.
  unfold Untrusted.handle_from_proto. destruct (validate (Some ks)); [|discriminate].
  intros H. apply bind_ok in H. destruct H as [es [Hes H]].
  unfold new_from_entries in H. destruct (existsb _ es); [discriminate|].
  destruct (existsb eprim es) eqn:P; [|discriminate]. inversion H; subst h.
  apply to_entries_info in Hes. unfold info_of_handle. f_equal.
  - eapply primary_id_of_entries; eauto. apply existsb_exists in P. exact P.
  - rewrite (entries_key_infos _ _ _ Hes). unfold metadata, info_of_keyset. cbn [i_keys]. rewrite map_map. reflexivity.
Qed.

(* non-interference: two keysets that agree on (type url, status, id, prefix
   type, primary) give the same KeysetInfo, whatever their key bytes *)
Theorem info_noninterference k1 k2 h1 h2 :
  handle_from_proto L (Some k1) = Ok h1 ->
  handle_from_proto L (Some k2) = Ok h2 ->
  metadata k1 = metadata k2 -> info_of_handle h1 = info_of_handle h2.
Proof.
  intros H1 H2 M. rewrite (handle_info_of_metadata _ _ H1), (handle_info_of_metadata _ _ H2).
  unfold metadata, info_of_keyset in *. inversion M as [[P K]]. cbn [i_keys]. rewrite P, K. reflexivity.
Qed.

(* Handle.String() is the text form of KeysetInfo(), whatever prototext does *)
Theorem string_noninterference (text_of_info : keyset_info -> bytes) k1 k2 h1 h2 :
  handle_from_proto L (Some k1) = Ok h1 ->
  handle_from_proto L (Some k2) = Ok h2 ->
  metadata k1 = metadata k2 -> text_of_info (info_of_handle h1) = text_of_info (info_of_handle h2).
Proof. intros H1 H2 M. f_equal. eapply info_noninterference; eauto. Qed.

End Info.

(* the info written beside a ciphertext is the handle's KeysetInfo *)
Theorem written_info_is_handle_info h : info_of_keyset (proto_of_handle h) = info_of_handle h.
Proof.
  unfold info_of_keyset, proto_of_handle, info_of_handle. cbn [ks_primary ks_keys]. f_equal.
  rewrite map_map. reflexivity.
Qed.

(* ------------------------------------------------------------------ *)
(* the encrypted form                                                  *)
(* ------------------------------------------------------------------ *)
(* ConsumeVarint reads back what AppendVarint wrote *)
Lemma varint_aux_enc : forall k idx acc v r,
  (1 <= k)%nat -> idx + N.of_nat k = 10 -> v < 2 ^ (64 - 7 * idx) ->
  varint_aux k idx acc (enc_varint_aux k v ++ r) = Some (acc + v * 2 ^ (7 * idx), r).
Proof.
  induction k as [|k IH]; intros idx acc v r Hk Hidx Hv; [lia|].
  cbn [enc_varint_aux]. destruct (v <? 128) eqn:Lt.
  - cbn [app varint_aux]. rewrite Lt.
    destruct (idx =? 9) eqn:E9; cbn [andb]; [|reflexivity].
    apply N.eqb_eq in E9. subst idx. change (64 - 7 * 9) with 1 in Hv. change (2 ^ 1) with 2 in Hv.
    assert (v <? 2 = true) as -> by lia. reflexivity.
  - cbn [app varint_aux].
    assert ((v mod 128 + 128 <? 128) = false) as -> by lia.
    assert (Hidx8 : idx <= 8).
    { destruct (N.le_gt_cases idx 8) as [L|G]; [exact L|]. exfalso.
      assert (idx = 9) by lia. subst idx. change (2 ^ (64 - 7 * 9)) with 2 in Hv. lia. }
    assert (Hk' : (1 <= k)%nat) by lia.
    rewrite (IH (idx + 1) _ (v / 128) r Hk'); [|lia|].
    + f_equal. f_equal.
      replace (v mod 128 + 128 - 128) with (v mod 128) by lia.
      replace (7 * (idx + 1)) with (7 * idx + 7) by lia. rewrite N.pow_add_r. change (2 ^ 7) with 128.
      pose proof (N.div_mod v 128). nia.
    + replace (64 - 7 * idx) with (7 + (64 - 7 * (idx + 1))) in Hv by lia.
      rewrite N.pow_add_r in Hv. change (2 ^ 7) with 128 in Hv.
      apply N.div_lt_upper_bound; lia.
Qed.

Lemma varint_enc v r : v < 18446744073709551616 -> varint (enc_varint v ++ r) = Some (v, r).
Proof.
  intros H. unfold varint, enc_varint. rewrite varint_aux_enc; try lia.
  - f_equal. f_equal. change (7 * 0) with 0. change (2 ^ 0) with 1. lia.
  - change (2 ^ (64 - 7 * 0)) with 18446744073709551616. exact H.
Qed.

Lemma take_all b : take (blen b) b = Some (b, []).
Proof.
  unfold take. rewrite N.leb_refl. unfold blen. rewrite Nnat.Nat2N.id, firstn_all, skipn_all. reflexivity.
Qed.

(* BinaryReader.ReadEncrypted recovers the ciphertext BinaryWriter.WriteEncrypted wrote *)
Theorem written_binary_decodes ct : blen ct < 18446744073709551616 ->
  decode_encrypted (ser_encrypted_binary ct) = Some ct.
Proof.
  intros Hl. unfold ser_encrypted_binary, enc_bytes_field. destruct ct as [|c0 ct']; [vm_compute; reflexivity|].
  set (ct := c0 :: ct') in *.
  assert (F : fields (enc_len_field 2 ct) = Some [(2, FLen ct)]).
  { unfold fields, enc_len_field. change (enc_tag 2 2) with [18]. cbn [app length fields_aux].
    change (varint (18 :: enc_varint (blen ct) ++ ct)) with (Some (18, enc_varint (blen ct) ++ ct)).
    cbv iota. change (18 / 8) with 2. change (18 mod 8) with 2.
    change ((2 <? 1) || (max_field_number <? 2)) with false. cbv iota.
    change (2 =? 0) with false. change (2 =? 2) with true. cbv iota.
    rewrite varint_enc by exact Hl. rewrite take_all.
    destruct (length (enc_varint (blen ct) ++ ct)); reflexivity. }
  unfold decode_encrypted, wire_ok, sch_encrypted, fields_or_nil. rewrite F. cbn. reflexivity.
Qed.

Section EncryptedProofs.
Variable L : stdlib.
(* the key-encryption AEAD as a family indexed by the key *)
Variable K : Type.
Variable aead_enc : K -> bytes -> bytes -> bytes -> bytes.     (* key, iv, plaintext, associated data *)
Variable aead_dec : K -> bytes -> bytes -> option bytes.       (* key, ciphertext, associated data *)
Notation read_encrypted k := (read_encrypted L (aead_dec k)).

(* unconditionally: a handle comes back only if the AEAD accepted *)
Theorem encrypted_read_needs_aead k b ad h : read_encrypted k b ad = Ok h ->
  exists ct pt ks, decode_encrypted b = Some ct /\ aead_dec k ct ad = Some pt
    /\ decode_keyset pt = Some ks /\ accepted_as ks h.
Proof. apply read_encrypted_wf. Qed.

Theorem aead_rejects_then_error k b ad ct : decode_encrypted b = Some ct -> aead_dec k ct ad = None ->
  read_encrypted k b ad = Err.
Proof. apply wrong_kek_rejected. Qed.

(* laws of an (ideal) AEAD: decryption inverts encryption, and only under
   the same key and associated data *)
Hypothesis aead_correct : forall k iv pt ad, aead_dec k (aead_enc k iv pt ad) ad = Some pt.
Hypothesis aead_auth : forall k k' iv pt ad ad',
  (k' <> k \/ ad' <> ad) -> aead_dec k' (aead_enc k iv pt ad) ad' = None.

Theorem wrong_key_or_ad_rejected k k' h iv ad ad' b :
  write_encrypted_binary (aead_enc k) h iv ad = Ok b ->
  blen (encrypted_ct (aead_enc k) h iv ad) < 18446744073709551616 ->
  (k' <> k \/ ad' <> ad) -> read_encrypted k' b ad' = Err.
Proof.
  unfold write_encrypted_binary. destruct h as [|e0 t]; [discriminate|]. intros H S W. inversion H; subst b.
  unfold Untrusted.read_encrypted. rewrite written_binary_decodes by exact S.
  unfold encrypted_ct. rewrite aead_auth by exact W. reflexivity.
Qed.

Theorem right_key_reads_serialized_keyset k h iv ad b :
  write_encrypted_binary (aead_enc k) h iv ad = Ok b ->
  blen (encrypted_ct (aead_enc k) h iv ad) < 18446744073709551616 ->
  read_encrypted k b ad =
  match decode_keyset (ser_keyset (proto_of_handle h)) with
  | Some ks => handle_from_proto L (Some ks)
  | None => Err
  end.
Proof.
  unfold write_encrypted_binary. destruct h as [|e0 t]; [discriminate|]. intros H S. inversion H; subst b.
  unfold Untrusted.read_encrypted. rewrite written_binary_decodes by exact S.
  unfold encrypted_ct. rewrite aead_correct. reflexivity.
Qed.

End EncryptedProofs.
