(* The premises of "every produced signature verifies" are inhabited: with a
   toy XOF that satisfies the only law the theorem uses (SHAKE256 returns the
   requested number of bytes) — all-zero output, except that the 576-byte
   ExpandMask request is answered by the encoding of y = 0 — ML-DSA-44 key
   generation succeeds and signing succeeds in the first round of the
   rejection loop (evaluated inside Coq on the model). *)
From Coq Require Import List ZArith NArith Bool Arith Lia.
From Tink Require Import Bytes MldsaPoly Mldsa MldsaPackProofs MldsaSignVerifyProofs.
Import ListNotations.

Definition ex_shake128 (m : bytes) (n : nat) : bytes := zeros n.
Definition ex_mask : bytes := bitPack (gamma1 MLDSA44) (zBits MLDSA44) zero_poly.
Definition ex_shake256 (m : bytes) (n : nat) : bytes := if Nat.eqb n 576 then ex_mask else zeros n.

Lemma ex_shake256_length m n : length (ex_shake256 m n) = n.
Proof.
  unfold ex_shake256. destruct (Nat.eqb n 576) eqn:E; [|apply zeros_length].
  apply Nat.eqb_eq in E. subst n. unfold ex_mask. rewrite bitPack_length by reflexivity. reflexivity.
Qed.

Lemma ex_sign_then_verify_inhabited :
  (forall m n, length (ex_shake256 m n) = n) /\ params_ok MLDSA44 /\
  match keyGenInternal ex_shake128 ex_shake256 MLDSA44 [] with
  | Some (pk, sk) =>
      match sign ex_shake128 ex_shake256 MLDSA44 1 sk [] [] [] with
      | Some (Some s) => length s = 2420%nat
      | _ => False
      end
  | None => False
  end.
Proof.
  split; [exact ex_shake256_length|]. split; [left; reflexivity|]. vm_compute. reflexivity.
Qed.
