(* The layers of the ML-DSA model above Verify (model/Mldsa.v):
   - signature/compositemldsa verifier.Verify (compositeVerify): accepts iff
     the output prefix matches, the next signatureLength bytes are an ML-DSA
     signature of M' = "CompositeAlgorithmSignatures2025" || label || 0x00 ||
     SHA-512(data) under context = label, and the rest is accepted by the
     classical verifier for M';  with the accept set of Verify
     (MldsaVerifyIffProofs) this is an iff down to the coefficients;
   - the ML-DSA component made by the composite signer is accepted (with any
     classical signature the classical verifier accepts);
   - signprehash/mldsa composed end to end: a signature made by SignPrehash
     over ComputePrehash(data) of the key's public part is accepted by the
     ORDINARY Tink verifier of the external-mu key (empty output prefix) for
     data. *)
From Coq Require Import List ZArith NArith Bool Arith Lia.
From Tink Require Import Bytes Wrap MldsaScalar MldsaScalarProofs MldsaScalarProofs2 MldsaTableProofs
  MldsaKernels MldsaKernelsProofs MldsaPoly Mldsa MldsaPackProofs MldsaHintProofs
  MldsaNttProofs MldsaAlgebraProofs MldsaProofs MldsaConvProofs MldsaNormProofs
  MldsaSampleProofs MldsaSignVerifyProofs MldsaKeyCodecProofs MldsaVerifyIffProofs.
Import ListNotations.
Local Open Scope Z_scope.

Lemma verify_true_length shake128 shake256 P pk mu sigma :
  verifyInternalWithMu shake128 shake256 P pk mu sigma = Some true -> length sigma = signatureLength P.
Proof.
  unfold verifyInternalWithMu. destruct (sigDecode P sigma) as [r|] eqn:D; [|discriminate].
  intros _. eapply sigDecode_length. exact D.
Qed.

Lemma verify_ctx_true_length shake128 shake256 P pk M sigma ctx :
  verify shake128 shake256 P pk M sigma ctx = Some true -> length sigma = signatureLength P.
Proof.
  unfold verify, verifyInternal. destruct (Nat.ltb 255 (length ctx)); [discriminate|]. apply verify_true_length.
Qed.

Section Composite.
  Variables shake128 shake256 : bytes -> nat -> bytes.
  Variable P : params.
  Variable sha512 : bytes -> bytes.
  Variable classicalVerify : bytes -> bytes -> bytes -> bool.

  (* composite verification accepts iff both components verify *)
  Theorem compositeVerify_accepts_iff prefix pkEnc clPk label sigma data :
    compositeVerify shake128 shake256 P sha512 classicalVerify prefix pkEnc clPk label sigma data = Some true <->
    exists pk s1 s2,
      pkDecode shake256 P pkEnc = Some pk /\ sigma = prefix ++ s1 ++ s2 /\
      verify shake128 shake256 P pk (compositeMessagePrime sha512 label data) s1 label = Some true /\
      classicalVerify clPk (compositeMessagePrime sha512 label data) s2 = true.
  Proof.
    unfold compositeVerify. split.
    - destruct (pkDecode shake256 P pkEnc) as [pk|] eqn:D; [|discriminate].
      destruct (beq (firstn (length prefix) sigma) prefix) eqn:E; cbn [negb]; [|discriminate].
      apply has_prefix_iff in E. destruct E as [s ->]. rewrite (skipn_app_exact prefix s _ eq_refl).
      destruct (Nat.ltb (length s) (signatureLength P)) eqn:EL; [discriminate|]. apply Nat.ltb_ge in EL.
      destruct (verify shake128 shake256 P pk _ (firstn (signatureLength P) s) label) as [[|]|] eqn:V; try discriminate.
      intros C. injection C as C'. exists pk, (firstn (signatureLength P) s), (skipn (signatureLength P) s).
      rewrite firstn_skipn. split; [reflexivity|]. split; [reflexivity|]. split; [exact V | exact C'].
    - intros (pk & s1 & s2 & D & -> & V & C). rewrite D.
      rewrite (firstn_app_exact prefix _ _ eq_refl), beq_refl. cbn [negb].
      rewrite (skipn_app_exact prefix _ _ eq_refl).
      pose proof (verify_ctx_true_length _ _ _ _ _ _ _ V) as L1.
      replace (Nat.ltb (length (s1 ++ s2)) (signatureLength P)) with false
        by (symmetry; apply Nat.ltb_ge; rewrite app_length; lia).
      rewrite (firstn_app_exact s1 s2 _ L1), (skipn_app_exact s1 s2 _ L1). rewrite V, C. reflexivity.
  Qed.

  (* a composite signature whose ML-DSA component fails, whose classical
     component fails, whose prefix is wrong or which is too short is refused
     (Some false) or, if an XOF stream ran out, yields no answer: it is never
     accepted *)
  Corollary compositeVerify_needs_both prefix pkEnc clPk label s1 s2 data pk :
    pkDecode shake256 P pkEnc = Some pk -> length s1 = signatureLength P ->
    (compositeVerify shake128 shake256 P sha512 classicalVerify prefix pkEnc clPk label (prefix ++ s1 ++ s2) data = Some true <->
     verify shake128 shake256 P pk (compositeMessagePrime sha512 label data) s1 label = Some true /\
     classicalVerify clPk (compositeMessagePrime sha512 label data) s2 = true).
  Proof.
    intros D L1. rewrite compositeVerify_accepts_iff. split.
    - intros (pk' & t1 & t2 & D' & Es & V & C). rewrite D in D'. inversion D'; subst pk'.
      apply app_inv_head in Es.
      pose proof (verify_ctx_true_length _ _ _ _ _ _ _ V) as L2.
      assert (E1 : s1 = t1).
      { rewrite <- (firstn_app_exact s1 s2 _ L1), <- (firstn_app_exact t1 t2 _ L2). rewrite Es. reflexivity. }
      subst t1. apply app_inv_head in Es. subst t2. auto.
    - intros [V C]. exists pk, s1, s2. auto.
  Qed.

  Hypothesis shake256_length : forall m n, length (shake256 m n) = n.
  Hypothesis HP : params_ok P.

  (* with the accept set of Verify: down to the coefficients *)
  Theorem compositeVerify_accepts_valid prefix pkEnc clPk label sigma data : wfb sigma ->
    (compositeVerify shake128 shake256 P sha512 classicalVerify prefix pkEnc clPk label sigma data = Some true <->
     exists pk s1 s2,
       pkDecode shake256 P pkEnc = Some pk /\ sigma = prefix ++ s1 ++ s2 /\ (length label <= 255)%nat /\
       valid_signature shake128 shake256 P pk
         (computeMu shake256 (pk_tr pk) (formatMsg (compositeMessagePrime sha512 label data) label)) s1 /\
       classicalVerify clPk (compositeMessagePrime sha512 label data) s2 = true).
  Proof.
    intros W. pose proof (params_ok_facts P HP) as PF. pose proof (params_ok_gb P HP) as GB.
    rewrite compositeVerify_accepts_iff. split.
    - intros (pk & s1 & s2 & D & Es & V & C). exists pk, s1, s2.
      assert (W1 : wfb s1).
      { subst sigma. apply wfb_app in W. destruct W as [_ W]. apply wfb_app in W. apply W. }
      apply (verify_ctx_accepts_iff shake128 shake256 P PF GB) in V; [|eapply pkDecode_ok; exact D | exact W1].
      destruct V as [Ll V]. auto.
    - intros (pk & s1 & s2 & D & Es & Ll & V & C). exists pk, s1, s2.
      assert (W1 : wfb s1).
      { subst sigma. apply wfb_app in W. destruct W as [_ W]. apply wfb_app in W. apply W. }
      repeat split; auto.
      apply (verify_ctx_accepts_iff shake128 shake256 P PF GB); [eapply pkDecode_ok; exact D | exact W1 | auto].
  Qed.

  (* the ML-DSA component produced by the composite signer is accepted *)
  Theorem composite_sign_then_verify seed pk sk fuel prefix clPk label data rnd s1 s2 :
    keyGenInternal shake128 shake256 P seed = Some (pk, sk) ->
    compositeSignMldsaPart shake128 shake256 P sha512 fuel sk label data rnd = Some (Some s1) ->
    classicalVerify clPk (compositeMessagePrime sha512 label data) s2 = true ->
    compositeVerify shake128 shake256 P sha512 classicalVerify prefix (pkEncode pk) clPk label (prefix ++ s1 ++ s2) data = Some true.
  Proof.
    intros HK HS C. pose proof (params_ok_facts P HP) as PF.
    destruct (keyGen_codec shake128 shake256 shake256_length P HP seed pk sk HK) as [D _].
    apply compositeVerify_accepts_iff. exists pk, s1, s2. repeat split; auto.
    unfold compositeSignMldsaPart in HS.
    eapply (keygen_sign_verify shake128 shake256 shake256_length P PF); eauto.
  Qed.

  (* ---------------------------------------------------------------- *)
  (* prehash (external mu), end to end                                 *)
  (* ---------------------------------------------------------------- *)
  (* SignPrehash never refuses the output of ComputePrehash for its own key
     id, and signs exactly the mu the ordinary signer would sign for data *)
  Lemma signPrehash_computePrehash fuel sk tr keyID data rnd :
    signPrehash shake128 shake256 P fuel sk keyID (computePrehash shake256 tr keyID data) rnd =
    Some (signInternalWithMu shake128 shake256 P fuel sk (computeMu shake256 tr (formatMsg data [])) rnd).
  Proof.
    unfold signPrehash, computePrehash.
    set (mu := shake256 (tr ++ [0%N; 0%N] ++ data) 64).
    assert (Lmu : length mu = 64%nat) by apply shake256_length.
    pose proof (be_bytes_length 4 keyID) as Lb.
    set (pre := [255%N] ++ be_bytes 4 keyID ++ mu).
    assert (L : length pre = 69%nat) by (unfold pre; cbn [app length]; rewrite app_length, Lb, Lmu; reflexivity).
    assert (N0 : nth 0 pre 0%N = 255%N) by reflexivity.
    assert (F4 : firstn 4 (skipn 1 pre) = be_bytes 4 keyID).
    { change (skipn 1 pre) with (be_bytes 4 keyID ++ mu). apply firstn_app_exact. exact Lb. }
    assert (S5 : skipn 5 pre = mu).
    { change (skipn 5 pre) with (skipn 4 (be_bytes 4 keyID ++ mu)). apply skipn_app_exact. exact Lb. }
    rewrite L, N0, F4, S5, beq_refl. reflexivity.
  Qed.

  Theorem prehash_sign_then_tinkVerify seed pk sk fuel keyID data rnd s :
    keyGenInternal shake128 shake256 P seed = Some (pk, sk) ->
    signPrehash shake128 shake256 P fuel sk keyID (computePrehash shake256 (pk_tr pk) keyID data) rnd = Some (Some s) ->
    tinkVerify shake128 shake256 P [] (pkEncode pk) s data = Some true.
  Proof.
    intros HK HS. pose proof (params_ok_facts P HP) as PF.
    destruct (keyGen_codec shake128 shake256 shake256_length P HP seed pk sk HK) as [D _].
    rewrite signPrehash_computePrehash in HS. inversion HS as [HS'].
    unfold tinkVerify. rewrite D. cbn [length firstn beq skipn]. unfold verifyInternal.
    eapply (keygen_sign_verify_mu shake128 shake256 shake256_length P PF); eauto.
  Qed.

  (* a prehash for another key id, of another length or without the 0xFF
     start byte is refused by SignPrehash *)
  Lemma signPrehash_refuses fuel sk keyID prehash rnd :
    length prehash <> 69%nat \/ nth 0 prehash 0%N <> 255%N \/ firstn 4 (skipn 1 prehash) <> be_bytes 4 keyID ->
    signPrehash shake128 shake256 P fuel sk keyID prehash rnd = None.
  Proof.
    intros H. unfold signPrehash.
    destruct (Nat.eqb (length prehash) 69) eqn:E1; [|reflexivity]. apply Nat.eqb_eq in E1. cbn [negb].
    destruct (N.eqb (nth 0 prehash 0%N) 255) eqn:E2; [|reflexivity]. apply N.eqb_eq in E2. cbn [negb].
    destruct (beq (firstn 4 (skipn 1 prehash)) (be_bytes 4 keyID)) eqn:E3; [|reflexivity]. apply beq_eq in E3.
    destruct H as [H | [H | H]]; contradiction.
  Qed.
End Composite.
