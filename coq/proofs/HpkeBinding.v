(* Non-vacuous binding theorems for model/Hpke.v and model/Xwing.v.

   The binding theorems of HpkeProofs.v conclude "... \/ expand_collision",
   where [expand_collision] quantifies the output length n existentially:
   with n = 0 both sides are [] by the length law of Expand, so that disjunct
   is provable outright (lemma [old_expand_collision_trivial] below) and the
   old theorems say nothing.  Even with 0 < n an *existential* collision of a
   function with infinitely many inputs and 256^n outputs is a mathematical
   fact that has nothing to do with the run at hand.

   Here the conclusions are in explicit form: a successful decryption of a
   ciphertext with a changed encapsulated key / info / private key forces the
   two key schedules of THIS run to meet, and the theorem names the calls
   that coincide, with their (different) inputs and (positive) output
   lengths:
     - [seal_clash]      the same payload is Seal under two different (key, nonce),
     - [ks_clash]        both labeled Expand calls "key" (Nk > 0 bytes) and
                         "base_nonce" (Nn = 12 bytes) of the two key schedules
                         collide on different (secret, context), or the labeled
                         Extract "secret" collides on different shared secrets,
                         or the labeled Extract "info_hash" on different infos,
     - [kem_enc_clash]   two encapsulated keys decapsulate to one shared secret:
                         DHKEM = the labeled Expand "shared_secret" (Nh > 0 bytes)
                         collides on the different KEM contexts enc || pkR;
                         ML-KEM = one key, two ciphertexts, one shared secret;
                         X-Wing = SHA3-256 combiner collision or that of ML-KEM-768,
     - [kem_key_clash]   one encapsulated key decapsulates to one shared secret
                         under two private keys with different public keys
                         (same three shapes; for ML-KEM this is NOT excluded by
                         any law of ML-KEM - implicit rejection makes it
                         improbable, not impossible - so it stays an event). *)
From Coq Require Import List NArith Bool Arith Lia ZifyN ZifyNat ZifyBool.
From Tink Require Import Bytes Xwing Hpke HpkeProofs.
Import ListNotations.
Open Scope N_scope.

(* the value of labelInfo when it succeeds *)
Definition labeled_info (label info suite : bytes) (len : nat) : bytes :=
  be_bytes 2 (N.of_nat len) ++ s_hpke_v1 ++ suite ++ label ++ info.

Lemma label_info_value label info suite len li :
  label_info label info suite len = Ok li -> li = labeled_info label info suite len.
Proof. intros H. apply label_info_ok in H. destruct H as (_ & _ & ->). reflexivity. Qed.

Lemma labeled_info_inj label suite len x y :
  labeled_info label x suite len = labeled_info label y suite len -> x = y.
Proof. unfold labeled_info. intros H. repeat apply app_inv_head in H. exact H. Qed.

Lemma n_k_pos a : (0 < n_k a)%nat.
Proof. destruct a; simpl; lia. Qed.
Lemma n_n_pos a : (0 < n_n a)%nat.
Proof. unfold n_n; lia. Qed.
Lemma hash_len_pos h : (0 < hash_len h)%nat.
Proof. destruct h; simpl; lia. Qed.

Section HpkeBinding.
  Variable extract : hash -> bytes -> bytes -> bytes.
  Variable expand : hash -> bytes -> bytes -> nat -> bytes.
  Variable dh : kem -> bytes -> bytes -> option bytes.
  Variable dh_pub : kem -> bytes -> option bytes.
  Variable mlkem_decap : kem -> bytes -> bytes -> option bytes.
  Variable mlkem_encap : kem -> bytes -> bytes -> option (bytes * bytes).
  Variable mlkem_pub : kem -> bytes -> option bytes.
  Variable shake256 : bytes -> nat -> bytes.
  Variable sha3_256 : bytes -> bytes.
  Variable seal : aead -> bytes -> bytes -> bytes -> bytes -> bytes.
  Variable open : aead -> bytes -> bytes -> bytes -> bytes -> option bytes.

  Notation Encap := (encap extract expand dh dh_pub mlkem_encap sha3_256).
  Notation Decap := (decap extract expand dh dh_pub mlkem_decap shake256 sha3_256).
  Notation PubOf := (public_from_private dh_pub mlkem_pub shake256).
  Notation KeySchedule := (key_schedule extract expand).
  Notation Encrypt := (hpke_encrypt extract expand dh dh_pub mlkem_encap sha3_256 seal).
  Notation Decrypt := (hpke_decrypt extract expand dh dh_pub mlkem_decap shake256 sha3_256 open).

  (* ---------------------------------------------------------------- *)
  (* the events                                                        *)
  (* ---------------------------------------------------------------- *)
  (* two calls of HKDF-Expand with different (prk, info), the same positive
     output length and the same output *)
  Definition expand_clash (h : hash) (prk i prk' i' : bytes) (n : nat) : Prop :=
    (0 < n)%nat /\ (prk <> prk' \/ i <> i') /\ expand h prk i n = expand h prk' i' n.
  (* two calls of HKDF-Extract with different (ikm, salt) and the same output *)
  Definition extract_clash (h : hash) (ikm salt ikm' salt' : bytes) : Prop :=
    (ikm <> ikm' \/ salt <> salt') /\ extract h ikm salt = extract h ikm' salt'.
  (* one AEAD ciphertext under two different (key, nonce) *)
  Definition seal_clash (a : aead) (key bn p key' bn' p' : bytes) : Prop :=
    (key <> key' \/ bn <> bn') /\ seal a key bn [] p = seal a key' bn' [] p'.
  Definition sha3_clash (x y : bytes) : Prop := x <> y /\ sha3_256 x = sha3_256 y.

  (* the named intermediate values of KeySchedule (context.go), base mode *)
  Definition ks_secret (k : kem) (d : kdf) (a : aead) (ss : bytes) : bytes :=
    labeled_extract extract (kdf_hash d) ss [] l_secret (hpke_suite_id k d a).
  Definition ks_info_hash (k : kem) (d : kdf) (a : aead) (info : bytes) : bytes :=
    labeled_extract extract (kdf_hash d) [] info l_info_hash (hpke_suite_id k d a).
  Definition ks_psk_id_hash (k : kem) (d : kdf) (a : aead) : bytes :=
    labeled_extract extract (kdf_hash d) [] [] l_psk_id_hash (hpke_suite_id k d a).
  Definition ks_context (k : kem) (d : kdf) (a : aead) (info : bytes) : bytes :=
    key_schedule_context base_mode (ks_psk_id_hash k d a) (ks_info_hash k d a info).
  Definition ks_key_info (k : kem) (d : kdf) (a : aead) (info : bytes) : bytes :=
    labeled_info l_key (ks_context k d a info) (hpke_suite_id k d a) (n_k a).
  Definition ks_nonce_info (k : kem) (d : kdf) (a : aead) (info : bytes) : bytes :=
    labeled_info l_base_nonce (ks_context k d a info) (hpke_suite_id k d a) (n_n a).

  (* the key schedules of (ss, info) and (ss', info') meet *)
  Definition ks_clash (k : kem) (d : kdf) (a : aead) (ss info ss' info' : bytes) : Prop :=
    let h := kdf_hash d in
    let suite := hpke_suite_id k d a in
    (* both Expand calls collide on different (secret, labeled context) *)
    (expand_clash h (ks_secret k d a ss) (ks_key_info k d a info)
                    (ks_secret k d a ss') (ks_key_info k d a info') (n_k a) /\
     expand_clash h (ks_secret k d a ss) (ks_nonce_info k d a info)
                    (ks_secret k d a ss') (ks_nonce_info k d a info') (n_n a))
    (* or Extract(salt = shared secret, "secret") collides on different shared secrets *)
    \/ (ss <> ss' /\ extract_clash h (label_ikm l_secret [] suite) ss (label_ikm l_secret [] suite) ss')
    (* or Extract(ikm = info, "info_hash") collides on different infos *)
    \/ (info <> info' /\
        extract_clash h (label_ikm l_info_hash info suite) [] (label_ikm l_info_hash info' suite) []).

  (* DHKEM: ExtractAndExpand(dh, kem_context = enc || pkR) *)
  Definition dhkem_prk (k : kem) (dhv : bytes) : bytes :=
    labeled_extract extract (kem_hash k) [] dhv l_eae_prk (kem_suite_id k).
  Definition dhkem_info (k : kem) (enc pkR : bytes) : bytes :=
    labeled_info l_shared_secret (enc ++ pkR) (kem_suite_id k) (hash_len (kem_hash k)).

  (* X-Wing decapsulation taken apart: (ssM, ssX, ctX, pkX) are the combiner inputs *)
  Definition xwing_parts (skR enc seedM ctM ssM ssX ctX pkX : bytes) : Prop :=
    exists skX, xw_expand shake256 skR = Ok (seedM, skX) /\ enc = ctM ++ ctX /\
      length ctM = mlkem768_ct_size /\ length enc = xw_ciphertext_size /\
      mlkem_decap MLKEM768 seedM ctM = Some ssM /\ dh X25519 skX ctX = Some ssX /\
      dh_pub X25519 skX = Some pkX.
  Definition xw_input (ssM ssX ctX pkX : bytes) : bytes := ssM ++ ssX ++ ctX ++ pkX ++ xwing_label.

  (* two different encapsulated keys, one private key, one shared secret *)
  Definition dhkem_enc_clash (k : kem) (skR enc enc' : bytes) : Prop :=
    exists dhv dhv' pkR, dh k skR enc = Some dhv /\ dh k skR enc' = Some dhv' /\ dh_pub k skR = Some pkR /\
      dhkem_info k enc pkR <> dhkem_info k enc' pkR /\
      expand_clash (kem_hash k) (dhkem_prk k dhv) (dhkem_info k enc pkR)
                                (dhkem_prk k dhv') (dhkem_info k enc' pkR) (hash_len (kem_hash k)).
  Definition kem_enc_clash (k : kem) (skR enc enc' : bytes) : Prop :=
    match k with
    | P256 | P384 | P521 | X25519 => dhkem_enc_clash k skR enc enc'
    | MLKEM768 | MLKEM1024 =>
        exists ss, mlkem_decap k skR enc = Some ss /\ mlkem_decap k skR enc' = Some ss
    | XWING =>
        exists seedM ctM ssM ssX ctX pkX ctM' ssM' ssX' ctX',
          xwing_parts skR enc seedM ctM ssM ssX ctX pkX /\ xwing_parts skR enc' seedM ctM' ssM' ssX' ctX' pkX /\
          (sha3_clash (xw_input ssM ssX ctX pkX) (xw_input ssM' ssX' ctX' pkX)
           \/ (ctX' = ctX /\ ctM' <> ctM /\ ssM' = ssM))   (* ML-KEM-768: one key, two ciphertexts, one secret *)
    end.

  (* one encapsulated key, two private keys with different public keys, one shared secret *)
  Definition dhkem_key_clash (k : kem) (skR skR' enc : bytes) : Prop :=
    exists dhv dhv' pkR pkR', dh k skR enc = Some dhv /\ dh k skR' enc = Some dhv' /\
      dh_pub k skR = Some pkR /\ dh_pub k skR' = Some pkR' /\
      dhkem_info k enc pkR <> dhkem_info k enc pkR' /\
      expand_clash (kem_hash k) (dhkem_prk k dhv) (dhkem_info k enc pkR)
                                (dhkem_prk k dhv') (dhkem_info k enc pkR') (hash_len (kem_hash k)).
  Definition kem_key_clash (k : kem) (skR skR' enc : bytes) : Prop :=
    match k with
    | P256 | P384 | P521 | X25519 => dhkem_key_clash k skR skR' enc
    | MLKEM768 | MLKEM1024 =>
        exists ss pk pk', mlkem_pub k skR = Some pk /\ mlkem_pub k skR' = Some pk' /\ pk <> pk' /\
          mlkem_decap k skR enc = Some ss /\ mlkem_decap k skR' enc = Some ss
    | XWING =>
        exists seedM ctM ssM ssX ctX pkX seedM' ssM' ssX' pkX',
          xwing_parts skR enc seedM ctM ssM ssX ctX pkX /\ xwing_parts skR' enc seedM' ctM ssM' ssX' ctX pkX' /\
          (sha3_clash (xw_input ssM ssX ctX pkX) (xw_input ssM' ssX' ctX pkX')
           \/ (pkX' = pkX /\ ssM' = ssM /\
               exists pkM pkM', mlkem_pub MLKEM768 seedM = Some pkM /\ mlkem_pub MLKEM768 seedM' = Some pkM' /\
                 pkM <> pkM'))   (* ML-KEM-768: two keys, one ciphertext, one secret *)
    end.

  (* ---- the events are genuine collisions (nothing comes for free) ---- *)
  Hypothesis expand_len : forall h prk info n, length (expand h prk info n) = n.

  (* ---------------------------------------------------------------- *)
  (* the key schedule                                                  *)
  (* ---------------------------------------------------------------- *)
  Lemma key_schedule_explicit k d a ss info key bn :
    KeySchedule k d a ss info = Ok (key, bn) ->
    key = expand (kdf_hash d) (ks_secret k d a ss) (ks_key_info k d a info) (n_k a) /\
    bn = expand (kdf_hash d) (ks_secret k d a ss) (ks_nonce_info k d a info) (n_n a).
  Proof.
    unfold key_schedule. intros H. inv_bind H. inv_bind Hb.
    assert (v = key /\ v0 = bn) as [-> ->] by (split; congruence).
    apply (labeled_expand_ok expand expand_len) in Ha. apply (labeled_expand_ok expand expand_len) in Hba.
    destruct Ha as (li & Hli & -> & _). destruct Hba as (li' & Hli' & -> & _).
    apply label_info_value in Hli. apply label_info_value in Hli'. subst li li'. split; reflexivity.
  Qed.

  Lemma ks_context_inj k d a info info' :
    ks_context k d a info = ks_context k d a info' -> ks_info_hash k d a info = ks_info_hash k d a info'.
  Proof.
    unfold ks_context, key_schedule_context. intros H. injection H as H. apply app_inv_head in H. exact H.
  Qed.

  (* equal outputs of two key schedules: equal inputs, or the schedules clash *)
  Lemma key_schedule_meet k d a ss info ss' info' key bn :
    KeySchedule k d a ss info = Ok (key, bn) -> KeySchedule k d a ss' info' = Ok (key, bn) ->
    (ss = ss' /\ info = info') \/ ks_clash k d a ss info ss' info'.
  Proof.
    intros H H'. apply key_schedule_explicit in H. apply key_schedule_explicit in H'.
    destruct H as [Ek En]. destruct H' as [Ek' En'].
    destruct (bytes_eq_dec (ks_secret k d a ss) (ks_secret k d a ss')) as [Es|Ns].
    - destruct (bytes_eq_dec (ks_info_hash k d a info) (ks_info_hash k d a info')) as [Ei|Ni].
      + destruct (bytes_eq_dec ss ss') as [E1|N1].
        * destruct (bytes_eq_dec info info') as [E2|N2]; [left; auto|].
          right. right. right. split; [exact N2|]. split; [|exact Ei].
          left. intros X. apply label_ikm_inj in X. contradiction.
        * right. right. left. split; [exact N1|]. split; [right; exact N1|exact Es].
      + right. left. split.
        * split; [apply n_k_pos|]. split; [|congruence].
          right. intros X. apply labeled_info_inj in X. apply ks_context_inj in X. contradiction.
        * split; [apply n_n_pos|]. split; [|congruence].
          right. intros X. apply labeled_info_inj in X. apply ks_context_inj in X. contradiction.
    - right. left. split.
      + split; [apply n_k_pos|]. split; [left; exact Ns|congruence].
      + split; [apply n_n_pos|]. split; [left; exact Ns|congruence].
  Qed.

  (* ---------------------------------------------------------------- *)
  (* laws                                                              *)
  (* ---------------------------------------------------------------- *)
  Hypothesis dh_comm : forall k a b A B, is_dhkem k = true ->
    dh_pub k a = Some A -> dh_pub k b = Some B -> dh k a B = dh k b A.
  Hypothesis dh_pub_len : forall k sk p, is_dhkem k = true ->
    dh_pub k sk = Some p -> length p = n_pk k /\ length sk = n_sk k.
  Hypothesis mlkem_correct : forall k seed pk coins ss ct, is_mlkem k = true ->
    mlkem_pub k seed = Some pk -> mlkem_encap k pk coins = Some (ss, ct) ->
    mlkem_decap k seed ct = Some ss /\ length ct = n_enc k.
  Hypothesis mlkem_pub_len : forall k seed pk, is_mlkem k = true ->
    mlkem_pub k seed = Some pk -> length pk = n_pk k /\ length seed = 64%nat.
  Hypothesis open_seal : forall a k n ad p, open a k n ad (seal a k n ad p) = Some p.
  Hypothesis open_sound : forall a k n ad c p, open a k n ad c = Some p -> c = seal a k n ad p.
  (* ML-KEM shared secrets and X25519 outputs are 32 bytes (used for X-Wing only:
     the combiner input ssM || ssX || ctX || pkX || label parses uniquely) *)
  Hypothesis mlkem_ss_len : forall seed ct ss, mlkem_decap MLKEM768 seed ct = Some ss -> length ss = 32%nat.
  Hypothesis x25519_len : forall sk pk ss, dh X25519 sk pk = Some ss -> length ss = 32%nat.

  Lemma decrypt_iff k d a prefix skR c info p : length skR <> 0%nat ->
    (Decrypt k d a prefix skR c info = Ok p <->
     exists enc ss key bn, length enc = n_enc k /\ Decap k enc skR = Ok ss /\
       KeySchedule k d a ss info = Ok (key, bn) /\ c = prefix ++ enc ++ seal a key bn [] p).
  Proof. intros. eapply hpke_decrypt_iff; eassumption. Qed.

  Lemma enc_shape k d a prefix skR pkR eph info pt c :
    PubOf k skR = Ok pkR -> Encrypt k d a prefix pkR eph info pt = Ok c ->
    exists enc ss key bn, length enc = n_enc k /\ Decap k enc skR = Ok ss /\
      KeySchedule k d a ss info = Ok (key, bn) /\ c = prefix ++ enc ++ seal a key bn [] pt /\
      length skR <> 0%nat.
  Proof. intros. eapply encrypt_shape; eassumption. Qed.

  Lemma ks_lengths k d a ss info key bn :
    KeySchedule k d a ss info = Ok (key, bn) -> length key = n_k a /\ length bn = n_n a.
  Proof. intros. eapply key_schedule_lengths; eassumption. Qed.

  (* Seal is injective in the plaintext (it has a left inverse) *)
  Lemma seal_inj_pt a key bn p p' : seal a key bn [] p = seal a key bn [] p' -> p = p'.
  Proof.
    intros E. pose proof (open_seal a key bn [] p) as H. rewrite E, open_seal in H. congruence.
  Qed.

  (* ---------------------------------------------------------------- *)
  (* KEM level: one shared secret from two encapsulated keys / two keys *)
  (* ---------------------------------------------------------------- *)
  Lemma dhkem_decap_explicit k enc skR ss : is_dhkem k = true -> Decap k enc skR = Ok ss ->
    exists dhv pkR, dh k skR enc = Some dhv /\ dh_pub k skR = Some pkR /\
      ss = expand (kem_hash k) (dhkem_prk k dhv) (dhkem_info k enc pkR) (hash_len (kem_hash k)).
  Proof.
    intros Hk H. destruct k; try discriminate; unfold decap in H; cbv beta iota in H;
      (destruct (dh _ skR enc) as [dhv|] eqn:Ed; [|discriminate]);
      (destruct (dh_pub _ skR) as [pkR|] eqn:Ep; [|discriminate]);
      unfold dhkem_derive, extract_and_expand in H; apply (labeled_expand_ok expand expand_len) in H;
      destruct H as (li & Hli & -> & _); apply label_info_value in Hli; subst li;
      exists dhv, pkR; (split; [reflexivity|split; [reflexivity|reflexivity]]).
  Qed.

  Lemma xw_parts enc skR ss : Decap XWING enc skR = Ok ss ->
    exists seedM ctM ssM ssX ctX pkX, xwing_parts skR enc seedM ctM ssM ssX ctX pkX /\
      ss = sha3_256 (xw_input ssM ssX ctX pkX).
  Proof.
    intros H. apply xw_dec_shape in H.
    destruct H as (seedM & skX & ctM & ctX & ssM & ssX & pkX & Ex & Ee & LcM & Le & DM & DX & PX & Es).
    exists seedM, ctM, ssM, ssX, ctX, pkX. split; [|exact Es].
    exists skX. repeat split; assumption.
  Qed.

  Lemma xw_pub_parts skR pkR : PubOf XWING skR = Ok pkR ->
    exists seedM skX pkM pkX, xw_expand shake256 skR = Ok (seedM, skX) /\
      mlkem_pub MLKEM768 seedM = Some pkM /\ dh_pub X25519 skX = Some pkX /\ pkR = pkM ++ pkX.
  Proof.
    unfold public_from_private, xw_pub, xw_public. intros H. inv_bind H. destruct v as [seedM skX].
    destruct (mlkem_pub MLKEM768 seedM) as [pkM|] eqn:EM; [|discriminate].
    destruct (dh_pub X25519 skX) as [pkX|] eqn:EX; [|discriminate].
    exists seedM, skX, pkM, pkX. repeat split; auto. congruence.
  Qed.

  (* the combiner input parses uniquely *)
  Lemma xw_input_inj ssM ssX ctX pkX ssM' ssX' ctX' pkX' :
    length ssM = 32%nat -> length ssM' = 32%nat -> length ssX = 32%nat -> length ssX' = 32%nat ->
    length ctX = length ctX' ->
    xw_input ssM ssX ctX pkX = xw_input ssM' ssX' ctX' pkX' ->
    ssM = ssM' /\ ssX = ssX' /\ ctX = ctX' /\ pkX = pkX'.
  Proof.
    unfold xw_input. intros L1 L1' L2 L2' L3 E.
    apply app_inv_length in E; [|congruence]. destruct E as [E1 E].
    apply app_inv_length in E; [|congruence]. destruct E as [E2 E].
    apply app_inv_length in E; [|congruence]. destruct E as [E3 E].
    apply app_inv_tail in E. auto.
  Qed.

  Lemma dhkem_two_encs k skR enc enc' ss : is_dhkem k = true -> enc <> enc' ->
    Decap k enc skR = Ok ss -> Decap k enc' skR = Ok ss -> dhkem_enc_clash k skR enc enc'.
  Proof.
    intros Hk Hne H H'.
    apply dhkem_decap_explicit in H; [|assumption]. apply dhkem_decap_explicit in H'; [|assumption].
    destruct H as (dhv & pkR & Ed & Ep & Es). destruct H' as (dhv' & pkR' & Ed' & Ep' & Es').
    assert (pkR' = pkR) by congruence. subst pkR'.
    assert (Ni : dhkem_info k enc pkR <> dhkem_info k enc' pkR).
    { intros X. apply labeled_info_inj in X. apply app_inv_tail in X. contradiction. }
    exists dhv, dhv', pkR. repeat split; auto; [apply hash_len_pos|congruence].
  Qed.

  Lemma dhkem_two_keys k skR pkR skR' pkR' enc ss : is_dhkem k = true ->
    PubOf k skR = Ok pkR -> PubOf k skR' = Ok pkR' -> pkR' <> pkR ->
    Decap k enc skR = Ok ss -> Decap k enc skR' = Ok ss -> dhkem_key_clash k skR skR' enc.
  Proof.
    intros Hk Hp Hp' Hne H H'.
    apply dhkem_decap_explicit in H; [|assumption]. apply dhkem_decap_explicit in H'; [|assumption].
    destruct H as (dhv & pk1 & Ed & Ep & Es). destruct H' as (dhv' & pk2 & Ed' & Ep' & Es').
    assert (pk1 = pkR /\ pk2 = pkR') as [-> ->].
    { destruct k; try discriminate; unfold public_from_private in Hp, Hp'; cbv beta iota in Hp, Hp';
        rewrite Ep in Hp; rewrite Ep' in Hp'; split; congruence. }
    assert (Ni : dhkem_info k enc pkR <> dhkem_info k enc pkR').
    { intros X. apply labeled_info_inj in X. apply app_inv_head in X. congruence. }
    exists dhv, dhv', pkR, pkR'. repeat split; auto; [apply hash_len_pos|congruence].
  Qed.

  Theorem kem_same_secret_two_encs k skR enc enc' ss :
    enc <> enc' -> length enc = n_enc k -> length enc' = n_enc k ->
    Decap k enc skR = Ok ss -> Decap k enc' skR = Ok ss -> kem_enc_clash k skR enc enc'.
  Proof.
    intros Hne L L' H H'.
    destruct k.
    1-4: (cbn [kem_enc_clash]; eapply dhkem_two_encs; eauto).
    1-2: (cbn [kem_enc_clash]; unfold decap in H, H'; cbv beta iota in H, H';
          destruct (mlkem_decap _ skR enc) as [s|] eqn:E1; [|discriminate];
          destruct (mlkem_decap _ skR enc') as [s'|] eqn:E2; [|discriminate];
          exists ss; split; congruence).
    (* X-Wing *)
    apply xw_parts in H. apply xw_parts in H'.
    destruct H as (seedM & ctM & ssM & ssX & ctX & pkX & P & Es).
    destruct H' as (seedM' & ctM' & ssM' & ssX' & ctX' & pkX' & P' & Es').
    pose proof P as (skX & Ex & Ee & LcM & Le & DM & DX & PX).
    pose proof P' as (skX' & Ex' & Ee' & LcM' & Le' & DM' & DX' & PX').
    assert (seedM' = seedM /\ skX' = skX) as [-> ->] by (split; congruence).
    assert (pkX' = pkX) by congruence. subst pkX'.
    cbn [kem_enc_clash]. exists seedM, ctM, ssM, ssX, ctX, pkX, ctM', ssM', ssX', ctX'.
    split; [exact P|]. split; [exact P'|].
    destruct (bytes_eq_dec (xw_input ssM ssX ctX pkX) (xw_input ssM' ssX' ctX' pkX)) as [E|N];
      [|left; split; [exact N|congruence]].
    right.
    assert (LcX : length ctX = length ctX').
    { apply (f_equal (@length N)) in Ee. apply (f_equal (@length N)) in Ee'. rewrite app_length in Ee, Ee'. lia. }
    apply xw_input_inj in E; eauto. destruct E as (EM & _ & EX & _).
    split; [auto|]. split; [|auto]. intros ->. apply Hne. congruence.
  Qed.

  Theorem kem_same_secret_two_keys k skR pkR skR' pkR' enc ss :
    PubOf k skR = Ok pkR -> PubOf k skR' = Ok pkR' -> pkR' <> pkR ->
    Decap k enc skR = Ok ss -> Decap k enc skR' = Ok ss -> kem_key_clash k skR skR' enc.
  Proof.
    intros Hp Hp' Hne H H'.
    destruct k.
    1-4: (cbn [kem_key_clash]; eapply dhkem_two_keys; eauto).
    1-2: (cbn [kem_key_clash]; unfold decap in H, H'; cbv beta iota in H, H';
          unfold public_from_private in Hp, Hp'; cbv beta iota in Hp, Hp';
          destruct (mlkem_decap _ skR enc) as [s|] eqn:E1; [|discriminate];
          destruct (mlkem_decap _ skR' enc) as [s'|] eqn:E2; [|discriminate];
          destruct (mlkem_pub _ skR) as [p|] eqn:E3; [|discriminate];
          destruct (mlkem_pub _ skR') as [p'|] eqn:E4; [|discriminate];
          exists ss, p, p'; repeat split; congruence).
    (* X-Wing *)
    apply xw_parts in H. apply xw_parts in H'.
    destruct H as (seedM & ctM & ssM & ssX & ctX & pkX & P & Es).
    destruct H' as (seedM' & ctM' & ssM' & ssX' & ctX' & pkX' & P' & Es').
    pose proof P as (skX & Ex & Ee & LcM & Le & DM & DX & PX).
    pose proof P' as (skX' & Ex' & Ee' & LcM' & Le' & DM' & DX' & PX').
    assert (ctM' = ctM /\ ctX' = ctX) as [-> ->].
    { rewrite Ee in Ee'. apply app_inv_length in Ee'; [|congruence]. destruct Ee'; split; congruence. }
    cbn [kem_key_clash]. exists seedM, ctM, ssM, ssX, ctX, pkX, seedM', ssM', ssX', pkX'.
    split; [exact P|]. split; [exact P'|].
    destruct (bytes_eq_dec (xw_input ssM ssX ctX pkX) (xw_input ssM' ssX' ctX pkX')) as [E|N];
      [|left; split; [exact N|congruence]].
    right. apply xw_input_inj in E; eauto. destruct E as (EM & _ & _ & EX).
    split; [auto|]. split; [auto|].
    apply xw_pub_parts in Hp. apply xw_pub_parts in Hp'.
    destruct Hp as (s1 & x1 & pkM & pk1 & X1 & M1 & D1 & ->). destruct Hp' as (s2 & x2 & pkM' & pk2 & X2 & M2 & D2 & ->).
    assert (s1 = seedM /\ x1 = skX) as [-> ->] by (split; congruence).
    assert (s2 = seedM' /\ x2 = skX') as [-> ->] by (split; congruence).
    exists pkM, pkM'. split; [exact M1|]. split; [exact M2|].
    intros ->. apply Hne. f_equal. congruence.
  Qed.

  (* ---------------------------------------------------------------- *)
  (* headline theorems                                                 *)
  (* ---------------------------------------------------------------- *)
  (* what the acceptance of one payload under two key schedules forces *)
  Definition schedules_meet (k : kem) (d : kdf) (a : aead) (ss info ss' info' key bn key' bn' pt p' : bytes)
      (kem_level : Prop) : Prop :=
    seal_clash a key bn pt key' bn' p'
    \/ (key' = key /\ bn' = bn /\ p' = pt /\
        (ks_clash k d a ss info ss' info' \/ (ss' = ss /\ info' = info /\ kem_level))).

  Lemma meet_of_payload k d a ss info ss' info' key bn key' bn' pt p' (kem_level : Prop) :
    KeySchedule k d a ss info = Ok (key, bn) -> KeySchedule k d a ss' info' = Ok (key', bn') ->
    seal a key bn [] pt = seal a key' bn' [] p' ->
    (ss' = ss -> info' = info -> kem_level) ->
    schedules_meet k d a ss info ss' info' key bn key' bn' pt p' kem_level.
  Proof.
    intros Hk Hk' E Hkem. unfold schedules_meet.
    destruct (bytes_eq_dec key key') as [Ek|Nk]; [|left; split; auto].
    destruct (bytes_eq_dec bn bn') as [Eb|Nb]; [|left; split; auto].
    subst key' bn'. right. apply seal_inj_pt in E. split; [reflexivity|]. split; [reflexivity|]. split; [auto|].
    destruct (key_schedule_meet _ _ _ _ _ _ _ _ _ Hk Hk') as [[E1 E2]|C]; [|left; exact C].
    right. split; [auto|]. split; [auto|]. apply Hkem; auto.
  Qed.

  (* changed encapsulated key and/or info, payload untouched *)
  Theorem hpke_binding_enc_info_explicit k d a prefix skR pkR eph info pt c enc payload enc' info' p' :
    PubOf k skR = Ok pkR ->
    Encrypt k d a prefix pkR eph info pt = Ok c ->
    c = prefix ++ enc ++ payload -> length enc = n_enc k -> length enc' = n_enc k ->
    (enc' <> enc \/ info' <> info) ->
    Decrypt k d a prefix skR (prefix ++ enc' ++ payload) info' = Ok p' ->
    exists ss ss' key bn key' bn',
      Decap k enc skR = Ok ss /\ Decap k enc' skR = Ok ss' /\
      KeySchedule k d a ss info = Ok (key, bn) /\ KeySchedule k d a ss' info' = Ok (key', bn') /\
      payload = seal a key bn [] pt /\ payload = seal a key' bn' [] p' /\
      schedules_meet k d a ss info ss' info' key bn key' bn' pt p'
        (enc' <> enc /\ kem_enc_clash k skR enc enc').
  Proof.
    intros Hpub Henc Hc Le Le' Hne Hdec.
    destruct (enc_shape _ _ _ _ _ _ _ _ _ _ Hpub Henc) as (enc0 & ss & key & bn & L0 & Hd & Hk & Hc0 & Lsk).
    rewrite Hc in Hc0. apply app_inv_head in Hc0.
    apply app_inv_length in Hc0; [|congruence]. destruct Hc0 as [<- Hpay].
    apply (decrypt_iff _ _ _ _ _ _ _ _ Lsk) in Hdec.
    destruct Hdec as (enc1 & ss' & key' & bn' & L1 & Hd' & Hk' & Hc1).
    apply app_inv_head in Hc1. apply app_inv_length in Hc1; [|congruence]. destruct Hc1 as [<- Hpay'].
    exists ss, ss', key, bn, key', bn'. repeat (split; [assumption|]).
    apply meet_of_payload; auto; [congruence|].
    intros -> ->. destruct Hne as [Hne|Hne]; [|contradiction]. split; [exact Hne|].
    eapply kem_same_secret_two_encs; eauto.
  Qed.

  (* decryption of the untouched ciphertext with another private key *)
  Theorem hpke_binding_other_key_explicit k d a prefix skR pkR skR' pkR' eph info pt c p' :
    PubOf k skR = Ok pkR -> PubOf k skR' = Ok pkR' -> pkR' <> pkR ->
    Encrypt k d a prefix pkR eph info pt = Ok c ->
    Decrypt k d a prefix skR' c info = Ok p' ->
    exists enc payload ss ss' key bn key' bn',
      c = prefix ++ enc ++ payload /\ length enc = n_enc k /\
      Decap k enc skR = Ok ss /\ Decap k enc skR' = Ok ss' /\
      KeySchedule k d a ss info = Ok (key, bn) /\ KeySchedule k d a ss' info = Ok (key', bn') /\
      payload = seal a key bn [] pt /\ payload = seal a key' bn' [] p' /\
      schedules_meet k d a ss info ss' info key bn key' bn' pt p' (kem_key_clash k skR skR' enc).
  Proof.
    intros Hpub Hpub' Hne Henc Hdec.
    destruct (enc_shape _ _ _ _ _ _ _ _ _ _ Hpub Henc) as (enc & ss & key & bn & L & Hd & Hks & -> & Lsk).
    assert (Lsk' : length skR' <> 0%nat).
    { destruct k; unfold public_from_private in Hpub'; cbv beta iota in Hpub'.
      1-4: (destruct (dh_pub _ skR') eqn:E; [|discriminate];
            apply dh_pub_len in E; [|reflexivity]; destruct E as [_ L']; rewrite L'; discriminate).
      1-2: (destruct (mlkem_pub _ skR') eqn:E; [|discriminate];
            apply mlkem_pub_len in E; [|reflexivity]; destruct E as [_ L']; rewrite L'; discriminate).
      unfold xw_pub, xw_public in Hpub'. inv_bind Hpub'. destruct v as [s x].
      apply xw_expand_ok in Hpub'a. rewrite Hpub'a. discriminate. }
    apply (decrypt_iff _ _ _ _ _ _ _ _ Lsk') in Hdec.
    destruct Hdec as (enc1 & ss' & key' & bn' & L1 & Hd' & Hk' & Hc1).
    apply app_inv_head in Hc1. apply app_inv_length in Hc1; [|congruence]. destruct Hc1 as [<- Hpay].
    exists enc, (seal a key bn [] pt), ss, ss', key, bn, key', bn'.
    repeat (split; [first [assumption|reflexivity]|]).
    apply meet_of_payload; auto.
    intros -> _. eapply kem_same_secret_two_keys; eauto.
  Qed.

  (* outcome form: Err, or the explicit explanation *)
  Corollary hpke_binding_enc_info_err k d a prefix skR pkR eph info pt c enc payload enc' info' :
    PubOf k skR = Ok pkR ->
    Encrypt k d a prefix pkR eph info pt = Ok c ->
    c = prefix ++ enc ++ payload -> length enc = n_enc k -> length enc' = n_enc k ->
    (enc' <> enc \/ info' <> info) ->
    Decrypt k d a prefix skR (prefix ++ enc' ++ payload) info' = Err \/
    exists p' ss ss' key bn key' bn',
      Decrypt k d a prefix skR (prefix ++ enc' ++ payload) info' = Ok p' /\
      Decap k enc skR = Ok ss /\ Decap k enc' skR = Ok ss' /\
      KeySchedule k d a ss info = Ok (key, bn) /\ KeySchedule k d a ss' info' = Ok (key', bn') /\
      payload = seal a key bn [] pt /\ payload = seal a key' bn' [] p' /\
      schedules_meet k d a ss info ss' info' key bn key' bn' pt p'
        (enc' <> enc /\ kem_enc_clash k skR enc enc').
  Proof.
    intros Hpub Henc Hc Le Le' Hne.
    destruct (Decrypt k d a prefix skR (prefix ++ enc' ++ payload) info') as [p'| |] eqn:E; [|left; reflexivity|].
    - right. destruct (hpke_binding_enc_info_explicit _ _ _ _ _ _ _ _ _ _ _ _ _ _ _ Hpub Henc Hc Le Le' Hne E)
        as (ss & ss' & key & bn & key' & bn' & H).
      exists p', ss, ss', key, bn, key', bn'. split; [reflexivity|exact H].
    - exfalso. revert E. eapply hpke_decrypt_never_panics; eassumption.
  Qed.
End HpkeBinding.

(* ---- the events are genuine collisions (nothing comes for free) ---- *)
Section Teeth.
  Variable extract : hash -> bytes -> bytes -> bytes.
  Variable expand : hash -> bytes -> bytes -> nat -> bytes.
  Hypothesis expand_len : forall h prk info n, length (expand h prk info n) = n.

  Lemma expand_clash_is_collision h prk i prk' i' n :
    expand_clash expand h prk i prk' i' n ->
    (prk, i) <> (prk', i') /\ expand h prk i n = expand h prk' i' n /\
    (0 < length (expand h prk i n))%nat /\ expand h prk i n <> [].
  Proof.
    intros (Hn & Hne & E). split; [|split; [exact E|]].
    - intros X. injection X as X1 X2. destruct Hne; contradiction.
    - pose proof (expand_len h prk i n) as L. split; [lia|].
      intros Z. rewrite Z in L. simpl in L. lia.
  Qed.

  Lemma extract_clash_is_collision h x s x' s' :
    extract_clash extract h x s x' s' -> (x, s) <> (x', s') /\ extract h x s = extract h x' s'.
  Proof.
    intros (Hne & E). split; [|exact E]. intros X. injection X as X1 X2. destruct Hne; contradiction.
  Qed.

  (* the old predicate, by contrast, holds outright *)
  Lemma old_expand_collision_trivial : HpkeProofs.expand_collision expand.
  Proof.
    exists SHA256, [0], [], [1], [], 0%nat. split; [left; discriminate|].
    pose proof (expand_len SHA256 [0] [] 0) as L1. pose proof (expand_len SHA256 [1] [] 0) as L2.
    destruct (expand SHA256 [0] [] 0); [|discriminate]. destruct (expand SHA256 [1] [] 0); [|discriminate]. reflexivity.
  Qed.

  (* a key-schedule clash is, whichever branch, a collision of Extract or of
     Expand at a positive length on different inputs *)
  Lemma ks_clash_is_collision k d a ss info ss' info' :
    ks_clash extract expand k d a ss info ss' info' ->
    (exists h p i p' i' n, (p, i) <> (p', i') /\ (0 < n)%nat /\ expand h p i n = expand h p' i' n /\ expand h p i n <> [])
    \/ (exists h x s x' s', (x, s) <> (x', s') /\ extract h x s = extract h x' s').
  Proof.
    intros [[C _]|[[_ C]|[_ C]]].
    - left. pose proof (expand_clash_is_collision _ _ _ _ _ _ C) as (N & E & _ & NE).
      destruct C as (Hn & _ & _). eauto 12.
    - right. apply extract_clash_is_collision in C. destruct C. eauto 10.
    - right. apply extract_clash_is_collision in C. destruct C. eauto 10.
  Qed.
End Teeth.

(* ------------------------------------------------------------------ *)
(* toy instances                                                       *)
(* ------------------------------------------------------------------ *)
(* 1. an instance in which the specific clashes are refutable: Expand writes
   (a prefix of) prk || info || 0..., so two calls that differ within the first
   n bytes of prk || info do not collide - the events are not free *)
Definition inj_expand (h : hash) (prk info : bytes) (n : nat) : bytes := firstn n (prk ++ info ++ zeros n).
Lemma inj_expand_len h prk info n : length (inj_expand h prk info n) = n.
Proof. unfold inj_expand. rewrite firstn_length, !app_length, zeros_length. lia. Qed.

Example expand_clash_not_free : ~ expand_clash inj_expand SHA256 [1] [5] [2] [5] 1.
Proof. intros (_ & _ & E). vm_compute in E. discriminate. Qed.

(* 2. the checksum toy of HpkeProofs.v with 32-byte KEM outputs: all laws hold,
   and an info with the same byte sum is accepted - the hypotheses of the
   binding theorems are satisfiable, and what they exhibit is then a real
   collision of the (weak) toy Expand *)
Definition toy32_dh (k : kem) (a B : bytes) : option bytes := Some (repeat 7 32).
Definition toy32_mlkem_decap (k : kem) (seed ct : bytes) : option bytes := Some (repeat 9 32).
Definition toy32_mlkem_encap (k : kem) (pk coins : bytes) : option (bytes * bytes) := Some (repeat 9 32, zeros (n_enc k)).
Lemma toy32_dh_comm k a b A B : is_dhkem k = true ->
  toy_dh_pub k a = Some A -> toy_dh_pub k b = Some B -> toy32_dh k a B = toy32_dh k b A.
Proof. reflexivity. Qed.
Lemma toy32_mlkem_correct k seed pk coins ss ct : is_mlkem k = true ->
  toy_mlkem_pub k seed = Some pk -> toy32_mlkem_encap k pk coins = Some (ss, ct) ->
  toy32_mlkem_decap k seed ct = Some ss /\ length ct = n_enc k.
Proof. intros _ _ H. unfold toy32_mlkem_encap in H. injection H as <- <-. rewrite zeros_length. auto. Qed.
Lemma toy32_mlkem_ss_len seed ct ss : toy32_mlkem_decap MLKEM768 seed ct = Some ss -> length ss = 32%nat.
Proof. intros H. injection H as <-. reflexivity. Qed.
Lemma toy32_x25519_len sk pk ss : toy32_dh X25519 sk pk = Some ss -> length ss = 32%nat.
Proof. intros H. injection H as <-. reflexivity. Qed.

(* a toy public-key map that depends on the private key (so that "another key
   pair" exists in the toy), Diffie-Hellman still constant *)
Definition toy3_dh_pub (k : kem) (sk : bytes) : option bytes :=
  if Nat.eqb (length sk) (n_sk k) then Some (firstn (n_pk k) (sk ++ zeros (n_pk k))) else None.
Lemma toy3_dh_comm k a b A B : is_dhkem k = true ->
  toy3_dh_pub k a = Some A -> toy3_dh_pub k b = Some B -> toy32_dh k a B = toy32_dh k b A.
Proof. reflexivity. Qed.
Lemma toy3_dh_pub_len k sk p : is_dhkem k = true ->
  toy3_dh_pub k sk = Some p -> length p = n_pk k /\ length sk = n_sk k.
Proof.
  intros _. unfold toy3_dh_pub. destruct (Nat.eqb_spec (length sk) (n_sk k)); [|discriminate].
  intros H. injection H as <-. split; [|assumption].
  rewrite firstn_length, app_length, zeros_length. lia.
Qed.
