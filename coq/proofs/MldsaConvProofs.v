(* Pointwise multiplication in the NTT domain is multiplication in
   Z_q[X]/(X^256+1) (negacyclic convolution), for the model of algebra.go
   (model/MldsaPoly.v: ntt, intt, pmul = MultiplyNTT):

        intt (pmul (ntt a) (ntt b)) = conv a b

   where conv a b = sum_i a_i * X^i * b with X * p the negacyclic shift
   (X * (p_0..p_255) = (-p_255, p_0, .., p_254)), and its explicit coefficient
   formula  (conv a b)_k = sum_{i<=k} a_i b_{k-i} - sum_{i>k} a_i b_{256+k-i}.

   Proof: both  a |-> ntt (X*a)  and  a |-> ntt X o ntt a  are additive maps of
   (Z_q)^256 (MldsaNttProofs.ntt_add), hence Z_q-linear, and they agree on the
   256 unit vectors (decided on the regenerated zetas table); so
   ntt (X*a) = ntt X o ntt a for every a, then ntt (conv a b) = ntt a o ntt b
   by Horner induction over a, and intt o ntt = id (MldsaNttProofs.intt_ntt)
   gives the statement.  Then the coefficient bound
        || conv a b ||_inf <= || a ||_1 * || b ||_inf
   in centred representatives. *)
From Coq Require Import List ZArith NArith Bool Arith Lia Setoid Morphisms.
From Tink Require Import Bytes Wrap MldsaScalar MldsaScalarProofs MldsaScalarProofs2 MldsaTableProofs
  MldsaKernels MldsaKernelsProofs MldsaPoly Mldsa MldsaNttProofs MldsaAlgebraProofs.
Import ListNotations.
Local Open Scope Z_scope.

#[global] Instance cong_opp : Proper (cong ==> cong) Z.opp.
Proof. intros a b H. unfold cong in *. rewrite <- (Z.sub_0_l a), <- (Z.sub_0_l b). rewrite Zminus_mod, H, <- Zminus_mod. reflexivity. Qed.

(* ------------------------------------------------------------------ *)
(* list helpers                                                         *)
(* ------------------------------------------------------------------ *)
Lemma nth_map2 {A B C} (f : A -> B -> C) a b i da db dc :
  (i < length a)%nat -> (i < length b)%nat -> nth i (map2 f a b) dc = f (nth i a da) (nth i b db).
Proof.
  revert a b; induction i as [|i IH]; intros [|x a] [|y b]; simpl; intros; try lia; auto. apply IH; lia.
Qed.

Lemma nth_firstn_lt {A} (l : list A) d i n : (i < n)%nat -> nth i (firstn n l) d = nth i l d.
Proof.
  revert l n; induction i as [|i IH]; intros [|x l] [|n] H; simpl; try lia; auto. apply IH; lia.
Qed.

Lemma poly_ext (a b : poly) : length a = 256%nat -> length b = 256%nat ->
  (forall i, (i < 256)%nat -> nth i a 0 = nth i b 0) -> a = b.
Proof. intros La Lb H. apply (nth_ext a b 0 0); [congruence|]. intros n Hn. apply H. lia. Qed.

Lemma canon_nth p i : canon p -> (i < length p)%nat -> 0 <= nth i p 0 < q.
Proof. intros C H. unfold canon in C. rewrite Forall_nth in C. apply C. exact H. Qed.

Lemma cpoly_nth p i : cpoly p -> (i < 256)%nat -> 0 <= nth i p 0 < q.
Proof. intros [L C] H. apply canon_nth; auto. lia. Qed.

Lemma cpoly_len p : cpoly p -> length p = 256%nat.
Proof. intros [L _]. exact L. Qed.

Lemma nth_scale c p i : (i < length p)%nat -> nth i (scale c p) 0 = (c * nth i p 0) mod q.
Proof.
  intros H. unfold scale.
  rewrite (nth_indep _ 0 ((fun x => (c * x) mod q) 0)) by (rewrite map_length; exact H).
  apply (map_nth (fun x => (c * x) mod q)).
Qed.

Lemma cpoly_scale c p : length p = 256%nat -> cpoly (scale c p).
Proof. intros L. split; [rewrite scale_length; exact L | apply canon_scale]. Qed.

Lemma nth_padd a b i : cpoly a -> cpoly b -> (i < 256)%nat ->
  nth i (padd a b) 0 = (nth i a 0 + nth i b 0) mod q.
Proof.
  intros Ha Hb Hi. unfold padd. rewrite (nth_map2 _ _ _ _ 0 0) by (rewrite cpoly_len; auto).
  apply k_add_spec; apply cpoly_nth; auto.
Qed.

Lemma nth_pmul a b i : cpoly a -> cpoly b -> (i < 256)%nat ->
  nth i (pmul a b) 0 = (nth i a 0 * nth i b 0) mod q.
Proof.
  intros Ha Hb Hi. unfold pmul. rewrite (nth_map2 _ _ _ _ 0 0) by (rewrite cpoly_len; auto).
  apply k_mul_spec; apply cpoly_nth; auto.
Qed.

Lemma nth_zero_poly i : nth i zero_poly 0 = 0.
Proof. unfold zero_poly. apply nth_repeat. Qed.

(* ------------------------------------------------------------------ *)
(* X * p in Z_q[X]/(X^256+1), and the product                           *)
(* ------------------------------------------------------------------ *)
Definition shift (p : poly) : poly := k_neg (nth 255 p 0) :: firstn 255 p.

Fixpoint conv (a b : poly) : poly :=
  match a with
  | [] => zero_poly
  | x :: a' => padd (scale x b) (shift (conv a' b))
  end.

Lemma nth_shift_0 p : nth 0 (shift p) 0 = k_neg (nth 255 p 0).
Proof. reflexivity. Qed.
Lemma nth_shift_S p i : (i < 255)%nat -> nth (S i) (shift p) 0 = nth i p 0.
Proof. intros H. unfold shift. cbn [nth]. apply nth_firstn_lt. exact H. Qed.

Lemma cpoly_shift p : cpoly p -> cpoly (shift p).
Proof.
  intros [L C]. split.
  - unfold shift. cbn [length]. rewrite firstn_length, L. reflexivity.
  - unfold shift. constructor; [apply k_neg_range, canon_nth; auto; lia | apply canon_firstn; exact C].
Qed.
#[global] Hint Resolve cpoly_shift : cpoly.

Lemma cpoly_conv a b : cpoly b -> cpoly (conv a b).
Proof.
  intros Hb. induction a as [|x a IH]; cbn [conv]; [apply cpoly_zero|].
  apply cpoly_padd; [apply cpoly_scale, Hb | apply cpoly_shift, IH].
Qed.
#[global] Hint Resolve cpoly_conv : cpoly.

Lemma shift_padd a b : cpoly a -> cpoly b -> shift (padd a b) = padd (shift a) (shift b).
Proof.
  intros Ha Hb. apply poly_ext; try (apply cpoly_len; auto with cpoly).
  intros i Hi. rewrite nth_padd by auto with cpoly.
  destruct i as [|i].
  - rewrite !nth_shift_0. rewrite nth_padd by (auto; lia).
    pose proof (cpoly_nth a 255 Ha ltac:(lia)). pose proof (cpoly_nth b 255 Hb ltac:(lia)).
    rewrite !k_neg_spec by (auto using mod_q_range). cong_ring.
  - rewrite !nth_shift_S by lia. apply nth_padd; auto; lia.
Qed.

(* ------------------------------------------------------------------ *)
(* additive maps of (Z_q)^256 are linear and determined by the basis    *)
(* ------------------------------------------------------------------ *)
Definition additive (F : poly -> poly) : Prop :=
  (forall a, cpoly a -> cpoly (F a)) /\
  (forall a b, cpoly a -> cpoly b -> F (padd a b) = padd (F a) (F b)) /\
  F zero_poly = zero_poly.

Lemma scale_0 p : length p = 256%nat -> scale 0 p = zero_poly.
Proof.
  intros L. apply poly_ext; [rewrite scale_length; exact L | reflexivity |].
  intros i Hi. rewrite nth_scale by lia. rewrite nth_zero_poly. reflexivity.
Qed.

Lemma scale_succ c p : cpoly p -> scale (c + 1) p = padd (scale c p) p.
Proof.
  intros Hp. pose proof (cpoly_len p Hp) as L.
  apply poly_ext; [rewrite scale_length; exact L | apply cpoly_len; auto using cpoly_scale with cpoly |].
  intros i Hi. rewrite nth_padd by (auto using cpoly_scale). rewrite !nth_scale by lia. cong_ring.
Qed.

Lemma additive_scale_nat F : additive F -> forall (n : nat) a, cpoly a ->
  F (scale (Z.of_nat n) a) = scale (Z.of_nat n) (F a).
Proof.
  intros (Fc & Fa & F0) n a Ha. induction n as [|n IH].
  - change (Z.of_nat 0) with 0. rewrite !scale_0 by (apply cpoly_len; auto). exact F0.
  - rewrite Nat2Z.inj_succ. unfold Z.succ. rewrite !scale_succ by auto.
    rewrite Fa by (auto using cpoly_scale, cpoly_len). rewrite IH. reflexivity.
Qed.

Lemma additive_scale F c a : additive F -> 0 <= c -> cpoly a -> F (scale c a) = scale c (F a).
Proof. intros HF Hc Ha. rewrite <- (Z2Nat.id c Hc). apply additive_scale_nat; auto. Qed.

Definition unit_poly (k : nat) : poly := upd k 1 zero_poly.

Lemma upd_length {A} i (v : A) l : length (upd i v l) = length l.
Proof. revert i; induction l as [|x l IH]; intros [|i]; simpl; auto. Qed.

Lemma nth_upd {A} i j (v d : A) l : (i < length l)%nat ->
  nth j (upd i v l) d = if Nat.eqb j i then v else nth j l d.
Proof.
  revert i j; induction l as [|x l IH]; intros [|i] [|j] H; simpl in *; try lia; auto.
  apply IH. lia.
Qed.

Lemma canon_upd i v l : canon l -> 0 <= v < q -> canon (upd i v l).
Proof.
  intros C Hv. revert i. induction C as [|x l Hx C IH]; intros [|i]; simpl; constructor; auto. apply IH.
Qed.

Lemma cpoly_unit k : cpoly (unit_poly k).
Proof.
  split; [unfold unit_poly; rewrite upd_length; reflexivity|].
  apply canon_upd; [apply cpoly_zero | unfold q; lia].
Qed.

(* p with its first k coefficients cleared *)
Definition tail_from (k : nat) (p : poly) : poly := repeat 0 k ++ skipn k p.

Lemma tail_from_length k p : length p = 256%nat -> (k <= 256)%nat -> length (tail_from k p) = 256%nat.
Proof. intros L H. unfold tail_from. rewrite app_length, repeat_length, skipn_length. lia. Qed.

Lemma nth_skipn {A} k (l : list A) i d : nth i (skipn k l) d = nth (k + i) l d.
Proof.
  revert l; induction k as [|k IH]; intros l; [reflexivity|].
  destruct l as [|x l]; [destruct i; reflexivity|]. cbn [skipn Nat.add nth]. apply IH.
Qed.

Lemma nth_tail_from k p i : nth i (tail_from k p) 0 = if Nat.ltb i k then 0 else nth i p 0.
Proof.
  unfold tail_from. destruct (Nat.ltb i k) eqn:E.
  - apply Nat.ltb_lt in E. rewrite app_nth1 by (rewrite repeat_length; exact E). apply nth_repeat.
  - apply Nat.ltb_ge in E. rewrite app_nth2 by (rewrite repeat_length; exact E).
    rewrite repeat_length, nth_skipn. f_equal. lia.
Qed.

Lemma cpoly_tail_from k p : cpoly p -> (k <= 256)%nat -> cpoly (tail_from k p).
Proof.
  intros [L C] H. split; [apply tail_from_length; auto|].
  unfold tail_from. apply canon_app. split; [|apply canon_skipn; exact C].
  apply Forall_forall. intros x Hx. apply repeat_spec in Hx. subst. unfold q. lia.
Qed.

Lemma tail_from_step k p : cpoly p -> (k < 256)%nat ->
  tail_from k p = padd (scale (nth k p 0) (unit_poly k)) (tail_from (S k) p).
Proof.
  intros Hp Hk.
  assert (C1 : cpoly (scale (nth k p 0) (unit_poly k))) by (apply cpoly_scale, cpoly_len, cpoly_unit).
  assert (C2 : cpoly (tail_from (S k) p)) by (apply cpoly_tail_from; auto; lia).
  apply poly_ext; [apply cpoly_len, cpoly_tail_from; auto; lia | apply cpoly_len; auto with cpoly |].
  intros i Hi. rewrite nth_padd by auto.
  rewrite nth_scale by (rewrite (cpoly_len _ (cpoly_unit k)); exact Hi).
  unfold unit_poly. rewrite nth_upd by (unfold zero_poly, degree; rewrite repeat_length; exact Hk).
  rewrite nth_zero_poly, !nth_tail_from.
  pose proof (cpoly_nth p i Hp Hi) as Ri.
  destruct (Nat.eqb i k) eqn:E1; [apply Nat.eqb_eq in E1; subst i | apply Nat.eqb_neq in E1].
  - rewrite Nat.ltb_irrefl. replace (Nat.ltb k (S k)) with true by (symmetry; apply Nat.ltb_lt; lia).
    rewrite Z.mul_1_r, Z.add_0_r, Z.mod_mod by (unfold q; lia). symmetry. apply Z.mod_small. exact Ri.
  - rewrite Z.mul_0_r. change (0 mod q) with 0. rewrite Z.add_0_l.
    destruct (Nat.ltb i k) eqn:E2; [apply Nat.ltb_lt in E2 | apply Nat.ltb_ge in E2].
    + replace (Nat.ltb i (S k)) with true by (symmetry; apply Nat.ltb_lt; lia). reflexivity.
    + replace (Nat.ltb i (S k)) with false by (symmetry; apply Nat.ltb_ge; lia).
      symmetry. apply Z.mod_small. exact Ri.
Qed.

Lemma tail_from_256 p : length p = 256%nat -> tail_from 256 p = zero_poly.
Proof. intros L. unfold tail_from. rewrite skipn_all2 by lia. apply app_nil_r. Qed.

Theorem additive_ext F G : additive F -> additive G ->
  (forall k, (k < 256)%nat -> F (unit_poly k) = G (unit_poly k)) ->
  forall a, cpoly a -> F a = G a.
Proof.
  intros HF HG HU a Ha.
  assert (K : forall n k, (n + k = 256)%nat -> F (tail_from k a) = G (tail_from k a)).
  { induction n as [|n IH]; intros k Hk.
    - replace k with 256%nat by lia. rewrite tail_from_256 by (apply cpoly_len; auto).
      destruct HF as (_ & _ & ->). destruct HG as (_ & _ & ->). reflexivity.
    - rewrite tail_from_step by (auto; lia).
      pose proof (cpoly_nth a k Ha ltac:(lia)) as Rk.
      assert (C1 : cpoly (scale (nth k a 0) (unit_poly k))) by (apply cpoly_scale, cpoly_len, cpoly_unit).
      assert (C2 : cpoly (tail_from (S k) a)) by (apply cpoly_tail_from; auto; lia).
      rewrite (proj1 (proj2 HF)), (proj1 (proj2 HG)) by auto.
      rewrite (additive_scale F), (additive_scale G) by (auto using cpoly_unit; lia).
      rewrite HU by lia. rewrite IH by lia. reflexivity. }
  specialize (K 256%nat 0%nat eq_refl). exact K.
Qed.

(* ------------------------------------------------------------------ *)
(* ntt (X * a) = ntt X o ntt a                                          *)
(* ------------------------------------------------------------------ *)
Definition xhat : poly := ntt (unit_poly 1).

Lemma cpoly_xhat : cpoly xhat.
Proof. apply cpoly_ntt, cpoly_unit. Qed.

Lemma pmul_zero_r c : cpoly c -> pmul c zero_poly = zero_poly.
Proof. apply pmul_zero. Qed.

Lemma additive_ntt_shift : additive (fun a => ntt (shift a)).
Proof.
  split; [|split].
  - intros a Ha. auto with cpoly.
  - intros a b Ha Hb. rewrite shift_padd by auto. destruct Ha, Hb.
    apply ntt_add; try apply cpoly_shift; try split; auto.
  - vm_compute. reflexivity.
Qed.

Lemma additive_xhat_ntt : additive (fun a => pmul xhat (ntt a)).
Proof.
  split; [|split].
  - intros a Ha. apply cpoly_pmul; [apply cpoly_xhat | auto with cpoly].
  - intros a b [La Ca] [Lb Cb]. rewrite ntt_add by auto.
    apply pmul_padd_r; [apply cpoly_xhat | apply cpoly_ntt; split; auto ..].
  - vm_compute. reflexivity.
Qed.

(* decided on the regenerated zetas table: the 256 unit vectors *)
Lemma ntt_shift_units :
  forallb (fun k => if list_eq_dec Z.eq_dec (ntt (shift (unit_poly k))) (pmul xhat (ntt (unit_poly k))) then true else false)
          (seq 0 256) = true.
Proof. vm_cast_no_check (eq_refl true). Qed.

Theorem ntt_shift a : cpoly a -> ntt (shift a) = pmul xhat (ntt a).
Proof.
  intros Ha.
  apply (additive_ext (fun a => ntt (shift a)) (fun a => pmul xhat (ntt a)));
    [apply additive_ntt_shift | apply additive_xhat_ntt | | exact Ha].
  intros k Hk. pose proof ntt_shift_units as U. rewrite forallb_forall in U.
  specialize (U k ltac:(apply in_seq; lia)).
  destruct (list_eq_dec Z.eq_dec (ntt (shift (unit_poly k))) (pmul xhat (ntt (unit_poly k)))); [assumption | discriminate].
Qed.

(* ------------------------------------------------------------------ *)
(* ntt (a * b) = ntt a o ntt b                                          *)
(* ------------------------------------------------------------------ *)
Lemma additive_ntt : additive ntt.
Proof.
  split; [|split].
  - intros a Ha. auto with cpoly.
  - intros a b [La Ca] [Lb Cb]. apply ntt_add; auto.
  - vm_compute. reflexivity.
Qed.

Definition pad (a : poly) : poly := a ++ repeat 0 (256 - length a).

Lemma nth_app_zeros (a : list Z) m j : nth j (a ++ repeat 0 m) 0 = nth j a 0.
Proof.
  destruct (Nat.lt_ge_cases j (length a)) as [H|H].
  - apply app_nth1. exact H.
  - rewrite app_nth2 by exact H. rewrite nth_repeat. symmetry. apply nth_overflow. exact H.
Qed.

Lemma cpoly_pad a : canon a -> (length a <= 256)%nat -> cpoly (pad a).
Proof.
  intros C L. split; [unfold pad; rewrite app_length, repeat_length; lia|].
  unfold pad. apply canon_app. split; [exact C|].
  apply Forall_forall. intros x Hx. apply repeat_spec in Hx. subst. unfold q. lia.
Qed.

Lemma pad_full a : length a = 256%nat -> pad a = a.
Proof. intros L. unfold pad. rewrite L, Nat.sub_diag. apply app_nil_r. Qed.

Lemma ntt_unit0 : ntt (unit_poly 0) = repeat 1 256.
Proof. vm_compute. reflexivity. Qed.

Lemma nth_ntt_unit0 i : (i < 256)%nat -> nth i (ntt (unit_poly 0)) 0 = 1.
Proof.
  intros H. rewrite ntt_unit0. rewrite (nth_indep _ 0 1) by (rewrite repeat_length; exact H). apply nth_repeat.
Qed.

Lemma pad_cons x a : canon (x :: a) -> (length a < 256)%nat ->
  pad (x :: a) = padd (scale x (unit_poly 0)) (shift (pad a)).
Proof.
  intros C L. inversion C as [|? ? Hx Ca]; subst.
  assert (C1 : cpoly (pad a)) by (apply cpoly_pad; auto; lia).
  assert (C2 : cpoly (scale x (unit_poly 0))) by (apply cpoly_scale, cpoly_len, cpoly_unit).
  apply poly_ext; [apply cpoly_len, cpoly_pad; auto; simpl; lia | apply cpoly_len; auto with cpoly |].
  intros i Hi. rewrite nth_padd by auto with cpoly.
  rewrite nth_scale by (rewrite (cpoly_len _ (cpoly_unit 0)); exact Hi).
  unfold unit_poly. rewrite nth_upd by (unfold zero_poly, degree; rewrite repeat_length; lia).
  rewrite nth_zero_poly. unfold pad at 1. rewrite nth_app_zeros.
  destruct i as [|i].
  - cbn [Nat.eqb nth]. rewrite nth_shift_0. unfold pad. rewrite nth_app_zeros.
    rewrite (nth_overflow a) by lia. change (k_neg 0) with 0.
    rewrite Z.mul_1_r, Z.add_0_r, Z.mod_mod by (unfold q; lia). symmetry. apply Z.mod_small. exact Hx.
  - cbn [Nat.eqb nth]. rewrite nth_shift_S by lia. unfold pad. rewrite nth_app_zeros.
    rewrite Z.mul_0_r. change (0 mod q) with 0. rewrite Z.add_0_l.
    destruct (Nat.lt_ge_cases i (length a)) as [H|H].
    + symmetry. apply Z.mod_small. apply canon_nth; auto.
    + rewrite nth_overflow by exact H. reflexivity.
Qed.

Lemma pmul_zero_l c : cpoly c -> pmul zero_poly c = zero_poly.
Proof.
  intros Hc. apply poly_ext; [apply cpoly_len; auto with cpoly | reflexivity |].
  intros i Hi. rewrite nth_pmul by auto with cpoly. rewrite nth_zero_poly. reflexivity.
Qed.

Lemma horner_ntt x A B H U : 0 <= x < q -> cpoly A -> cpoly B -> cpoly H -> cpoly U ->
  (forall i, (i < 256)%nat -> nth i U 0 = 1) ->
  padd (scale x B) (pmul H (pmul A B)) = pmul (padd (scale x U) (pmul H A)) B.
Proof.
  intros Hx HA HB HH HU U1.
  assert (C1 : cpoly (scale x B)) by (apply cpoly_scale, cpoly_len; auto).
  assert (C2 : cpoly (scale x U)) by (apply cpoly_scale, cpoly_len; auto).
  apply poly_ext; try (apply cpoly_len; auto with cpoly).
  intros i Hi.
  repeat first [rewrite nth_padd by auto with cpoly | rewrite nth_pmul by auto with cpoly].
  rewrite !nth_scale by (rewrite cpoly_len; auto).
  rewrite U1 by exact Hi. cong_ring.
Qed.

Theorem ntt_conv_pad a b : canon a -> (length a <= 256)%nat -> cpoly b ->
  ntt (conv a b) = pmul (ntt (pad a)) (ntt b).
Proof.
  intros Ca La Hb. induction a as [|x a IH].
  - cbn [conv]. change (pad []) with zero_poly.
    rewrite (proj2 (proj2 additive_ntt)). symmetry. apply pmul_zero_l. auto with cpoly.
  - inversion Ca as [|? ? Hx Ca']; subst. cbn [length] in La.
    cbn [conv]. rewrite pad_cons by (auto; lia).
    assert (C0 : cpoly (pad a)) by (apply cpoly_pad; auto; lia).
    assert (C1 : cpoly (scale x b)) by (apply cpoly_scale, cpoly_len; auto).
    assert (C2 : cpoly (scale x (unit_poly 0))) by (apply cpoly_scale, cpoly_len, cpoly_unit).
    rewrite !(proj1 (proj2 additive_ntt)) by auto with cpoly.
    rewrite !(additive_scale ntt) by (auto using additive_ntt, cpoly_unit; lia).
    rewrite !ntt_shift by auto with cpoly.
    rewrite IH by (auto; lia).
    apply (horner_ntt x (ntt (pad a)) (ntt b) xhat (ntt (unit_poly 0)) Hx);
      [apply cpoly_ntt, C0 | apply cpoly_ntt, Hb | apply cpoly_xhat | apply cpoly_ntt, cpoly_unit | apply nth_ntt_unit0].
Qed.

(* MultiplyNTT computes the product of Z_q[X]/(X^256+1) *)
Theorem ntt_mul_is_negacyclic_convolution a b : cpoly a -> cpoly b ->
  intt (pmul (ntt a) (ntt b)) = conv a b.
Proof.
  intros Ha Hb. pose proof Ha as [La Ca].
  replace (ntt a) with (ntt (pad a)) by (rewrite pad_full; auto).
  rewrite <- ntt_conv_pad by (auto; lia).
  assert (Hc : cpoly (conv a b)) by auto with cpoly. destruct Hc. apply intt_ntt; auto.
Qed.

(* ------------------------------------------------------------------ *)
(* the coefficients of conv: negacyclic convolution                     *)
(*   (a*b)_k = sum_{i<=k} a_i b_{k-i} - sum_{i>k} a_i b_{256+k-i}       *)
(* ------------------------------------------------------------------ *)
(* sum over the coefficients x = a_i of a, i = off, off+1, ... *)
Fixpoint csum (a : list Z) (off : nat) (b : poly) (k : nat) : Z :=
  match a with
  | [] => 0
  | x :: a' =>
      (if Nat.leb off k then x * nth (k - off) b 0 else - (x * nth (256 + k - off) b 0))
      + csum a' (S off) b k
  end.

Lemma csum_shift a b : forall off k, csum a (S off) b (S k) = csum a off b k.
Proof.
  induction a as [|x a IH]; intros off k; [reflexivity|]. cbn [csum]. rewrite IH.
  change (Nat.leb (S off) (S k)) with (Nat.leb off k).
  replace (S k - S off)%nat with (k - off)%nat by lia.
  replace (256 + S k - S off)%nat with (256 + k - off)%nat by lia. reflexivity.
Qed.

Lemma csum_wrap a b : forall off, (off + length a <= 256)%nat -> csum a (S off) b 0 = - csum a off b 255.
Proof.
  induction a as [|x a IH]; intros off H; [reflexivity|]. cbn [length] in H. cbn [csum]. rewrite IH by lia.
  change (Nat.leb (S off) 0) with false.
  replace (Nat.leb off 255) with true by (symmetry; apply Nat.leb_le; lia).
  replace (256 + 0 - S off)%nat with (255 - off)%nat by lia. ring.
Qed.

Theorem conv_coeff a b k : canon a -> (length a <= 256)%nat -> cpoly b -> (k < 256)%nat ->
  nth k (conv a b) 0 = (csum a 0 b k) mod q.
Proof.
  intros Ca La Hb. revert k. induction a as [|x a IH]; intros k Hk.
  - cbn [conv csum]. rewrite nth_zero_poly. reflexivity.
  - inversion Ca as [|? ? Hx Ca']; subst. cbn [length] in La.
    assert (C1 : cpoly (scale x b)) by (apply cpoly_scale, cpoly_len; auto).
    assert (C2 : cpoly (conv a b)) by auto with cpoly.
    cbn [conv csum]. rewrite nth_padd by auto with cpoly.
    rewrite nth_scale by (rewrite (cpoly_len b Hb); exact Hk).
    change (Nat.leb 0 k) with true. cbv iota. rewrite Nat.sub_0_r.
    destruct k as [|k].
    + rewrite nth_shift_0. rewrite k_neg_spec by (apply cpoly_nth; auto; lia).
      rewrite IH by (auto; lia). rewrite csum_wrap by (cbn [Nat.add]; lia). cong_ring.
    + rewrite nth_shift_S by lia. rewrite IH by (auto; lia). rewrite csum_shift. cong_ring.
Qed.
