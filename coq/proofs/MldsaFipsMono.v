(* The bounds on the number of Squeeze calls of the FIPS 204 transcription
   (FIPS.RejNTTPoly, FIPS.RejBoundedPoly, FIPS.SampleInBall) only decide
   whether the otherwise unbounded rejection loop is cut off: once a bound is
   large enough for the loop to finish, every larger bound gives the same
   result.  So "given enough stream" in the equality theorems means: the
   value the standard's unbounded loop computes, whenever it needs at most 672
   / 1536 / 1024 Squeeze calls. *)
From Coq Require Import List ZArith NArith Bool Arith Lia.
From Tink Require Import Bytes MldsaFips MldsaFipsBasics MldsaFipsSampling.
Import ListNotations.
Local Open Scope Z_scope.

Lemma RejNTT_loop_mono G : forall n n' ctx a p, (n <= n')%nat ->
  FIPS.RejNTTPoly_loop G n ctx a = Some p -> FIPS.RejNTTPoly_loop G n' ctx a = Some p.
Proof.
  induction n as [|n IH]; intros n' ctx a p Hn E; rewrite RejNTT_loop_unfold in *.
  - destruct (Nat.ltb (length a) 256); [discriminate | exact E].
  - destruct (Nat.ltb (length a) 256); [|exact E].
    destruct n' as [|n']; [lia|].
    destruct (FIPS.Squeeze G ctx 3) as [ctx' s].
    destruct (FIPS.CoeffFromThreeBytes _ _ _); apply (IH n'); auto; lia.
Qed.

Theorem RejNTTPoly_mono G b b' rho p : (b <= b')%nat ->
  FIPS.RejNTTPoly G b rho = Some p -> FIPS.RejNTTPoly G b' rho = Some p.
Proof. apply RejNTT_loop_mono. Qed.

Lemma RejBounded_loop_mono H P : forall n n' ctx a p, (n <= n')%nat ->
  FIPS.RejBoundedPoly_loop H P n ctx a = Some p -> FIPS.RejBoundedPoly_loop H P n' ctx a = Some p.
Proof.
  induction n as [|n IH]; intros n' ctx a p Hn E;
    rewrite (fun n ctx a => RejBounded_loop_unfold H (FIPS.eta P) P n ctx a eq_refl) in *.
  - destruct (Nat.ltb (length a) 256); [discriminate | exact E].
  - destruct (Nat.ltb (length a) 256); [|exact E].
    destruct n' as [|n']; [lia|].
    destruct (FIPS.Squeeze H ctx 1) as [ctx' s]. cbv zeta in *. apply (IH n'); auto; lia.
Qed.

Theorem RejBoundedPoly_mono H P b b' rho p : (b <= b')%nat ->
  FIPS.RejBoundedPoly H P b rho = Some p -> FIPS.RejBoundedPoly H P b' rho = Some p.
Proof. apply RejBounded_loop_mono. Qed.

Lemma squeeze_until_mono H i d : forall n ctx ctx' j r,
  FIPS.squeeze_until_le H n ctx i = Some (ctx', j, r) ->
  FIPS.squeeze_until_le H (n + d) ctx i = Some (ctx', j, (r + d)%nat).
Proof.
  induction n as [|n IH]; intros ctx ctx' j r E; cbn [FIPS.squeeze_until_le Nat.add] in *; [discriminate|].
  destruct (FIPS.Squeeze H ctx 1) as [ctx1 s].
  destruct (Nat.ltb i (N.to_nat (nth 0 s 0%N))); [apply IH; exact E|].
  inversion E; subst. reflexivity.
Qed.

Theorem SampleInBall_mono H P b b' rho c : (b <= b')%nat ->
  FIPS.SampleInBall H P b rho = Some c -> FIPS.SampleInBall H P b' rho = Some c.
Proof.
  intros Hb. unfold FIPS.SampleInBall.
  destruct (FIPS.Squeeze H (FIPS.Absorb FIPS.Init rho) 8) as [ctx s].
  set (body := fun i st => FIPS.obind st _).
  set (d := (b' - b)%nat). replace b' with (b + d)%nat by lia.
  assert (G : forall cnt lo c0 ctx0 n0 c1 ctx1 n1,
     FIPS.for_ lo cnt body (Some (c0, ctx0, n0)) = Some (c1, ctx1, n1) ->
     FIPS.for_ lo cnt body (Some (c0, ctx0, (n0 + d)%nat)) = Some (c1, ctx1, (n1 + d)%nat)).
  { induction cnt as [|cnt IH]; intros lo c0 ctx0 n0 c1 ctx1 n1 E; cbn [FIPS.for_] in *.
    - inversion E; subst. reflexivity.
    - unfold body at 2 in E. unfold body at 2. cbn [FIPS.obind] in *.
      destruct (FIPS.squeeze_until_le H n0 ctx0 lo) as [[[ctx' j] r]|] eqn:ES; cbn [FIPS.obind] in E.
      + rewrite (squeeze_until_mono H lo d _ _ _ _ _ ES). cbn [FIPS.obind]. apply IH. exact E.
      + unfold body in E. rewrite for_opt_none in E. discriminate. }
  intros E.
  destruct (FIPS.for_ (256 - FIPS.tau P) (FIPS.tau P) body (Some (repeat 0 256, ctx, b))) as [[[c1 ctx1] n1]|] eqn:EF;
    cbn [FIPS.obind] in E; [|discriminate].
  rewrite (G _ _ _ _ _ _ _ _ EF). exact E.
Qed.
