(* The internal algorithms of FIPS 204 (Algorithms 6, 7, 8 and 2, 3 of
   model/MldsaFips.v) equal keyGenInternal / signInternalWithMu /
   verifyInternalWithMu (and the M' and context layers) of the
   implementation model, for ML-DSA-44/65/87, every XOF pair with the XOF
   laws, with the Squeeze bounds the implementation model uses (672 / 1536 /
   1024) and the same bound on signing rounds. *)
From Coq Require Import List ZArith NArith Bool Arith Lia ZifyN ZifyNat ZifyBool.
From Tink Require Import Bytes Wrap MldsaScalar MldsaScalarProofs MldsaScalarProofs2 MldsaTableProofs
  MldsaKernels MldsaKernelsProofs MldsaPoly Mldsa MldsaPackProofs MldsaHintProofs MldsaNttProofs
  MldsaAlgebraProofs MldsaProofs MldsaConvProofs MldsaNormProofs MldsaSampleProofs MldsaSignVerifyProofs
  MldsaKeyCodecProofs MldsaVerifyIffProofs MldsaFips MldsaFipsBasics MldsaFipsSampling MldsaFipsEncodings
  MldsaFipsNtt.
Import ListNotations.
Local Open Scope Z_scope.

(* ------------------------------------------------------------------ *)
(* Algorithms 44-48 and the R_q vector arithmetic                       *)
(* ------------------------------------------------------------------ *)
Lemma AddNTT_eq a b : cpoly a -> cpoly b -> FIPS.AddNTT a b = padd a b.
Proof.
  intros Ha Hb. apply poly_ext; [apply array_length | apply cpoly_len; auto with cpoly|].
  intros i Hi. unfold FIPS.AddNTT. rewrite nth_array by exact Hi. rewrite nth_padd by auto. reflexivity.
Qed.

Lemma MultiplyNTT_eq a b : cpoly a -> cpoly b -> FIPS.MultiplyNTT a b = pmul a b.
Proof.
  intros Ha Hb. apply poly_ext; [apply array_length | apply cpoly_len; auto with cpoly|].
  intros i Hi. unfold FIPS.MultiplyNTT. rewrite nth_array by exact Hi. rewrite nth_pmul by auto. reflexivity.
Qed.

Lemma AddPoly_eq a b : canon a -> canon b -> FIPS.AddPoly a b = padd a b.
Proof.
  intros Ca Cb. unfold FIPS.AddPoly, padd. rewrite zip_with_map2. apply map2_ext_in; auto.
  intros x y Hx Hy. symmetry. apply k_add_spec; auto.
Qed.

Lemma SubPoly_eq a b : canon a -> canon b -> FIPS.SubPoly a b = psub a b.
Proof.
  intros Ca Cb. unfold FIPS.SubPoly, psub. rewrite zip_with_map2. apply map2_ext_in; auto.
  intros x y Hx Hy. symmetry. apply k_sub_spec; auto.
Qed.

Lemma NegPoly_eq a : canon a -> FIPS.NegPoly a = pneg a.
Proof.
  intros Ca. unfold FIPS.NegPoly, pneg. apply map_ext_in. intros x Hx. unfold canon in Ca. rewrite Forall_forall in Ca.
  symmetry. apply k_neg_spec. auto.
Qed.

Lemma map2_ext_F {A B C} (P : A -> Prop) (Q : B -> Prop) (f g : A -> B -> C) a b : Forall P a -> Forall Q b ->
  (forall x y, P x -> Q y -> f x y = g x y) -> map2 f a b = map2 g a b.
Proof.
  intros Fa Fb E. revert b Fb; induction Fa as [|x a Hx Fa IH]; intros [|y b] Fb; cbn; auto.
  inversion Fb; subst. rewrite E by auto. f_equal. apply IH. assumption.
Qed.

Lemma AddVector_eq n v w : cvec n v -> cvec n w -> FIPS.AddVector v w = vadd v w.
Proof.
  intros Hv Hw. unfold FIPS.AddVector, vadd. rewrite zip_with_map2.
  apply (map2_ext_F canon canon); [eapply cvec_canon; eauto | eapply cvec_canon; eauto |]. apply AddPoly_eq.
Qed.

Lemma SubVector_eq n v w : cvec n v -> cvec n w -> FIPS.SubVector v w = vsub v w.
Proof.
  intros Hv Hw. unfold FIPS.SubVector, vsub. rewrite zip_with_map2.
  apply (map2_ext_F canon canon); [eapply cvec_canon; eauto | eapply cvec_canon; eauto |]. apply SubPoly_eq.
Qed.

Lemma NegVector_eq n v : cvec n v -> FIPS.NegVector v = vneg v.
Proof.
  intros Hv. unfold FIPS.NegVector, vneg. apply map_ext_in. intros p Hp.
  pose proof (cvec_canon n v Hv) as C. rewrite Forall_forall in C. apply NegPoly_eq. auto.
Qed.

Lemma ScalarVectorNTT_eq n c v : cpoly c -> cvec n v -> FIPS.ScalarVectorNTT c v = vscalarMul c v.
Proof.
  intros Hc [_ F]. unfold FIPS.ScalarVectorNTT, vscalarMul. apply map_ext_in. intros p Hp.
  rewrite Forall_forall in F. apply MultiplyNTT_eq; auto.
Qed.

Lemma for_snoc {St} (body : nat -> St -> St) cnt : forall lo st,
  FIPS.for_ lo (S cnt) body st = body (lo + cnt)%nat (FIPS.for_ lo cnt body st).
Proof.
  induction cnt as [|cnt IH]; intros lo st; [cbn [FIPS.for_]; rewrite Nat.add_0_r; reflexivity|].
  change (FIPS.for_ lo (S (S cnt)) body st) with (FIPS.for_ (S lo) (S cnt) body (body lo st)).
  rewrite IH. cbn [FIPS.for_]. f_equal. lia.
Qed.

Lemma firstn_S_nth {A} n (l : list A) d : (n < length l)%nat -> firstn (S n) l = firstn n l ++ [nth n l d].
Proof.
  revert l. induction n as [|n IH]; intros [|x l] H; cbn [length] in H; try lia; [reflexivity|].
  cbn [firstn nth app]. f_equal. apply IH. lia.
Qed.

Lemma combine_app {A B} (a1 a2 : list A) (b1 b2 : list B) : length a1 = length b1 ->
  combine (a1 ++ a2) (b1 ++ b2) = combine a1 b1 ++ combine a2 b2.
Proof. revert b1; induction a1 as [|x a1 IH]; intros [|y b1] H; cbn in *; try lia; auto. f_equal. apply IH. lia. Qed.

Lemma row_for_fold (row v : list poly) acc : forall n, (n <= length row)%nat -> (n <= length v)%nat ->
  FIPS.for_ 0 n (fun j wi => FIPS.AddNTT wi (FIPS.MultiplyNTT (nth j row []) (nth j v []))) acc =
  fold_left (fun a mv => FIPS.AddNTT a (FIPS.MultiplyNTT (fst mv) (snd mv))) (combine (firstn n row) (firstn n v)) acc.
Proof.
  induction n as [|n IH]; intros H1 H2; [reflexivity|].
  rewrite for_snoc, IH by lia. cbn [Nat.add].
  rewrite (firstn_S_nth n row []), (firstn_S_nth n v []) by lia.
  rewrite combine_app by (rewrite !firstn_length; lia). rewrite fold_left_app. reflexivity.
Qed.

Lemma fold_row_eq n : forall row v acc, cvec n row -> cvec n v -> cpoly acc ->
  fold_left (fun a mv => FIPS.AddNTT a (FIPS.MultiplyNTT (fst mv) (snd mv))) (combine row v) acc =
  fold_left (fun a mv => padd a (pmul (fst mv) (snd mv))) (combine row v) acc.
Proof.
  induction n as [|n IH]; intros row v acc Hr Hv Ha.
  - destruct Hr as [Lr _]. destruct row; [reflexivity | discriminate].
  - destruct row as [|r row]; [destruct Hr; discriminate|]. destruct v as [|x v]; [destruct Hv; discriminate|].
    apply cvec_cons in Hr, Hv. destruct Hr as [Cr Hr]. destruct Hv as [Cx Hv].
    cbn [combine fold_left fst snd]. rewrite MultiplyNTT_eq, AddNTT_eq by auto with cpoly.
    apply IH; auto with cpoly.
Qed.

Lemma MatrixVectorNTT_eq kk ll M v : cmat kk ll M -> cvec ll v -> FIPS.MatrixVectorNTT kk ll M v = mmul M v.
Proof.
  intros [LM FM] Hv. unfold FIPS.MatrixVectorNTT, mmul. rewrite array_map.
  rewrite <- (map_nth_seq_n (fun row => fold_left (fun acc mv => padd acc (pmul (fst mv) (snd mv))) (combine row v) zero_poly) M [] kk LM).
  apply map_ext_in. intros i Hi. apply in_seq in Hi.
  assert (Hrow : cvec ll (nth i M [])) by (apply Forall_nth_lt; [exact FM | lia]).
  rewrite row_for_fold by (apply Nat.eq_le_incl; symmetry; first [exact (cvec_len _ _ Hrow) | exact (cvec_len _ _ Hv)]).
  assert (F1 : firstn ll (nth i M []) = nth i M []) by (apply firstn_all2; apply Nat.eq_le_incl; exact (cvec_len _ _ Hrow)).
  assert (F2 : firstn ll v = v) by (apply firstn_all2; apply Nat.eq_le_incl; exact (cvec_len _ _ Hv)).
  match goal with |- fold_left _ (combine ?a ?b) _ = _ =>
    replace a with (nth i M []) by (symmetry; exact F1); replace b with v by (symmetry; exact F2) end.
  apply (fold_row_eq ll); auto. apply cpoly_zero.
Qed.

Lemma vNTT_eq v : Forall (fun p => length p = 256%nat) v -> FIPS.vNTT v = vntt (map (map modq) v).
Proof.
  intros F. unfold FIPS.vNTT, vntt. rewrite map_map. apply map_ext_in. intros p Hp.
  rewrite Forall_forall in F. apply NTT_eq. auto.
Qed.

Lemma vNTT_inv_eq n v : cvec n v -> FIPS.vNTT_inv v = vintt v.
Proof.
  intros [_ F]. unfold FIPS.vNTT_inv, vintt. apply map_ext_in. intros p Hp.
  rewrite Forall_forall in F. apply NTT_inv_eq. auto.
Qed.

Lemma cvec_modq n v : length v = n -> Forall (fun p => length p = 256%nat) v -> cvec n (map (map modq) v).
Proof.
  intros L F. split; [rewrite map_length; exact L|]. apply Forall_map. eapply Forall_impl; [|exact F].
  intros p Lp. split; [rewrite map_length; exact Lp|]. apply Forall_map. apply Forall_forall. intros x _. apply mod_q_range.
Qed.

(* ------------------------------------------------------------------ *)
(* the infinity norm                                                    *)
(* ------------------------------------------------------------------ *)
Lemma fold_max_lt (f : Z -> Z) l B : 0 < B ->
  (fold_right Z.max 0 (map f l) < B <-> Forall (fun x => f x < B) l).
Proof.
  intros HB. induction l as [|x l IH]; cbn [map fold_right]; [split; [constructor | lia]|].
  split.
  - intros H. constructor; [lia | apply IH; lia].
  - intros H. inversion H; subst. apply IH in H3. lia.
Qed.

Lemma norm_vec_lt_iff v B : 0 < B ->
  (FIPS.norm_vec v < B <-> Forall (Forall (fun x => cabs x < B)) v).
Proof.
  intros HB. unfold FIPS.norm_vec. induction v as [|p v IH]; cbn [map fold_right]; [split; [constructor | lia]|].
  assert (Ep : FIPS.norm_poly p < B <-> Forall (fun x => cabs x < B) p) by (apply (fold_max_lt (fun x => Z.abs (FIPS.modpm x FIPS.q))); exact HB).
  split.
  - intros H. constructor; [apply Ep; lia | apply IH; lia].
  - intros H. inversion H; subst. apply Ep in H2. apply IH in H3. lia.
Qed.

Lemma norm_ltb v B : 0 < B -> Forall (fun p => length p = 256%nat) v ->
  (FIPS.norm_vec v <? B) = (vinfNorm (map (map modq) v) <? B).
Proof.
  intros HB F.
  assert (C : Forall canon (map (map modq) v)).
  { apply Forall_map. apply Forall_forall. intros p _. apply Forall_map. apply Forall_forall. intros x _. apply mod_q_range. }
  pose proof (vinfNorm_lt_iff _ B C HB) as I1. pose proof (norm_vec_lt_iff v B HB) as I2.
  assert (E : Forall (Forall (fun x => cabs x < B)) (map (map modq) v) <-> Forall (Forall (fun x => cabs x < B)) v).
  { rewrite Forall_map. split; intros H; (eapply Forall_impl; [|exact H]); intros p Hp.
    - rewrite Forall_map in Hp. eapply Forall_impl; [|exact Hp]. cbv beta. intros x Hx. unfold modq in Hx. rewrite cabs_mod in Hx. exact Hx.
    - rewrite Forall_map. eapply Forall_impl; [|exact Hp]. cbv beta. intros x Hx. unfold modq. rewrite cabs_mod. exact Hx. }
  destruct (FIPS.norm_vec v <? B) eqn:E1; destruct (vinfNorm (map (map modq) v) <? B) eqn:E2; try reflexivity.
  - apply Z.ltb_lt in E1. apply Z.ltb_ge in E2. apply I2, E, I1 in E1. lia.
  - apply Z.ltb_ge in E1. apply Z.ltb_lt in E2. apply I1, E, I2 in E2. lia.
Qed.

Lemma norm_ltb_canon n v B : 0 < B -> cvec n v -> (FIPS.norm_vec v <? B) = (vinfNorm v <? B).
Proof.
  intros HB Hv. rewrite (norm_ltb v B HB) by (eapply Forall_impl; [|apply Hv]; intros p [Lp _]; exact Lp).
  replace (map (map modq) v) with v; [reflexivity|].
  rewrite <- (map_id v) at 1. apply map_ext_in. intros p Hp. symmetry. apply map_modq_canon.
  pose proof (cvec_canon n v Hv) as C. rewrite Forall_forall in C. auto.
Qed.

(* ------------------------------------------------------------------ *)
(* shapes of decoded hints                                              *)
(* ------------------------------------------------------------------ *)
Lemma hint_rows_shape omega idx : forall cnts index ps fin, hint_rows omega idx cnts index = Ok (ps, fin) ->
  length ps = length cnts /\ Forall (fun p => length p = 256%nat) ps.
Proof.
  induction cnts as [|e c IH]; intros index ps fin H; cbn [hint_rows] in H; [inversion H; subst; split; [reflexivity | constructor]|].
  destruct (Nat.ltb (N.to_nat e) index || Nat.ltb omega (N.to_nat e))%bool; [discriminate|].
  destruct (strict_inc _); [|discriminate].
  destruct (hint_rows omega idx c (N.to_nat e)) as [[ps' fin']| |] eqn:R; try discriminate.
  inversion H; subst. destruct (IH _ _ _ R) as [I1 I2]. split; [cbn [length]; lia|].
  constructor; [apply poly_of_positions_length | exact I2].
Qed.

Lemma hintBitUnpack_shape omega kk enc h : hintBitUnpack omega kk enc = Ok h ->
  length h = kk /\ Forall (fun p => length p = 256%nat) h.
Proof.
  unfold hintBitUnpack. destruct (Nat.eqb (length enc) (omega + kk)) eqn:E; [|discriminate]. apply Nat.eqb_eq in E.
  cbn [negb]. destruct (hint_rows omega (firstn omega enc) (skipn omega enc) 0) as [[ps fin]| |] eqn:R; try discriminate.
  destruct (forallb _ _); [|discriminate]. intros H. inversion H; subst.
  destruct (hint_rows_shape _ _ _ _ _ _ R) as [I1 I2]. split; [rewrite I1, skipn_length; lia | exact I2].
Qed.

(* ------------------------------------------------------------------ *)
(* Algorithm 8                                                          *)
(* ------------------------------------------------------------------ *)
Section Verify.
  Variables H G : bytes -> nat -> bytes.
  Hypothesis HH : xof_laws H.
  Hypothesis HG : xof_laws G.
  Variable P : params.
  Hypothesis HP : params_ok P.

  Lemma scaled_t1_eq t1 : Forall (fun p => length p = 256%nat /\ Forall (fun c => 0 <= c < 1024) p) t1 ->
    map (map modq) (map (map (fun x => x * 2 ^ FIPS.d)) t1) = map pscalePower2 t1.
  Proof.
    intros F. rewrite map_map. apply map_ext_in. intros p Hp. rewrite Forall_forall in F. destruct (F p Hp) as [_ Cp].
    unfold pscalePower2. rewrite map_map. apply map_ext_in. intros x Hx. rewrite Forall_forall in Cp. specialize (Cp x Hx).
    rewrite k_scalePower2_eq, scalePower2_spec by exact Cp. change (2 ^ FIPS.d) with 8192. unfold modq.
    apply Z.mod_small. unfold q. lia.
  Qed.

  Theorem Verify_mu_eq pkb pk mu sigma :
    pkDecode H P pkb = Some pk -> length sigma = signatureLength P ->
    verifyInternalWithMu G H P pk mu sigma = FIPS.Verify_mu H G (fips_of P) 672 1024 pkb mu sigma.
  Proof.
    intros D Ls. pose proof (params_ok_facts P HP) as PF. pose proof (params_ok_ffacts P HP) as FF.
    pose proof (pkDecode_ok _ _ _ _ D) as [Lt1 Ft1].
    pose proof (pkDecode_length _ _ _ _ D) as Lpk.
    set (rho := fst (FIPS.pkDecode (fips_of P) pkb)) in *.
    set (t1 := snd (FIPS.pkDecode (fips_of P) pkb)) in *.
    assert (Epk : pk = mkPK rho t1 (H pkb 64%nat)) by (rewrite (pkDecode_eq H P pkb Lpk) in D; unfold rho, t1; congruence).
    subst pk. cbn [pk_t1] in Lt1, Ft1.
    unfold verifyInternalWithMu, FIPS.Verify_mu. cbn [pk_rho pk_t1].
    replace (FIPS.pkDecode (fips_of P) pkb) with (rho, t1) by (unfold rho, t1; symmetry; apply surjective_pairing).
    cbv iota beta.
    destruct (sigDecode_eq P FF PF sigma Ls) as [ED RZ]. rewrite ED.
    destruct (FIPS.sigDecode (fips_of P) sigma) as [[ct z] [h|]] eqn:ESD; [|reflexivity].
    cbn [fst snd] in RZ.
    (* shapes *)
    assert (Lz : length z = p_l P /\ Forall (fun p => length p = 256%nat) z).
    { unfold FIPS.sigDecode in ESD. inversion ESD; subst z. rewrite array_length. split; [reflexivity|].
      eapply Forall_impl; [|exact RZ]. intros p [Lp _]. exact Lp. }
    destruct Lz as [Lz Fz].
    assert (Sh : length h = p_k P /\ Forall (fun p => length p = 256%nat) h).
    { rewrite sigDecode_unfold, Ls, Nat.eqb_refl in ED. cbn [negb] in ED.
      destruct (hintBitUnpack _ _ _) as [h0| |] eqn:EH; try discriminate.
      assert (h0 = h) by congruence. subst h0. eapply hintBitUnpack_shape; exact EH. }
    destruct Sh as [Lh Fh].
    rewrite (ExpandA_eq G HG P rho). cbn [FIPS.k FIPS.l FIPS.tau FIPS.gamma1 FIPS.gamma2 FIPS.beta FIPS.lambda fips_of].
    destruct (FIPS.ExpandA G (fips_of P) 672 rho) as [Ah|] eqn:EA; cbn [obind FIPS.obind]; [|reflexivity].
    assert (HA : cmat (p_k P) (p_l P) Ah) by (apply (expandA_cmat G P rho); rewrite ExpandA_eq by exact HG; exact EA).
    rewrite (SampleInBall_eq H HH P ct) by apply PF.
    destruct (FIPS.SampleInBall H (fips_of P) 1024 ct) as [c|] eqn:EC; cbn [option_map obind FIPS.obind]; [|reflexivity].
    destruct (SampleInBall_range _ _ _ _ _ EC) as [_ Lc].
    assert (Hc : cpoly (map modq c)).
    { split; [rewrite map_length; exact Lc|]. apply Forall_map. apply Forall_forall. intros x _. apply mod_q_range. }
    cbv zeta.
    (* the verifier's w' *)
    assert (Hz : cvec (p_l P) (map (map modq) z)) by (apply cvec_modq; auto).
    assert (Ft1' : Forall (fun p => length p = 256%nat) (map (map (fun x => x * 2 ^ FIPS.d)) t1)).
    { apply Forall_map. eapply Forall_impl; [|exact Ft1]. intros p [Lp _]. rewrite map_length. exact Lp. }
    assert (Ht1 : cvec (p_k P) (map pscalePower2 t1)) by (apply (scaled_t1_cvec P (mkPK rho t1 [])); split; assumption).
    rewrite (vNTT_eq z Fz), (NTT_eq c Lc), (vNTT_eq _ Ft1'), (scaled_t1_eq t1 Ft1).
    assert (Hm : cvec (p_k P) (mmul Ah (vntt (map (map modq) z))))
      by (apply (cvec_mmul _ (p_l P)); [exact HA | apply cvec_vntt; exact Hz]).
    assert (Hs : cvec (p_k P) (vscalarMul (ntt (map modq c)) (vntt (map pscalePower2 t1))))
      by (apply cvec_vscalarMul; [apply cpoly_ntt; exact Hc | apply cvec_vntt; exact Ht1]).
    rewrite (MatrixVectorNTT_eq (p_k P) (p_l P) Ah _ HA) by (apply cvec_vntt; exact Hz).
    rewrite (ScalarVectorNTT_eq (p_k P)) by (first [apply cpoly_ntt; exact Hc | apply cvec_vntt; exact Ht1]).
    rewrite (SubVector_eq (p_k P) _ _ Hm Hs).
    assert (Hw : cvec (p_k P) (vsub (mmul Ah (vntt (map (map modq) z))) (vscalarMul (ntt (map modq c)) (vntt (map pscalePower2 t1)))))
      by (apply cvec_vsub; assumption).
    rewrite (vNTT_inv_eq (p_k P)) by exact Hw.
    set (wp := vintt (vsub (mmul Ah (vntt (map (map modq) z))) (vscalarMul (ntt (map modq c)) (vntt (map pscalePower2 t1))))).
    assert (Hwp : cvec (p_k P) wp) by (unfold wp; auto with cpoly).
    destruct PF as [Hgam _ _ _ (W1 & _ & _) _].
    rewrite (oseq_map2_total (puseHint (p_gamma2 P)) (map2 (uh (p_gamma2 P))) canon (fun _ => True) _
               (fun x y Hx _ => puseHint_total (p_gamma2 P) x y Hgam Hx) (cvec_canon (p_k P) _ Hwp) h)
      by (apply Forall_forall; auto).
    rewrite W1.
    assert (EU : FIPS.zip_with (FIPS.zip_with (fun r hh => FIPS.UseHint (p_gamma2 P) hh r)) wp h = map2 (map2 (uh (p_gamma2 P))) wp h).
    { rewrite zip_with_map2. apply (map2_ext_F canon (fun _ => True)); [eapply cvec_canon; eauto | apply Forall_forall; auto |].
      intros p hp Cp _. rewrite zip_with_map2. apply (map2_ext_F (fun x => 0 <= x < q) (fun _ => True)); [exact Cp | apply Forall_forall; auto |].
      intros x y Hx _. symmetry. apply UseHint_eq. exact Hx. }
    rewrite EU.
    assert (Lw1 : length (map2 (map2 (uh (p_gamma2 P))) wp h) = p_k P /\ Forall (fun p => length p = 256%nat) (map2 (map2 (uh (p_gamma2 P))) wp h)).
    { clear -Hwp Lh Fh. destruct Hwp as [Lw Fw]. revert h Lh Fh Lw. generalize (p_k P). induction Fw as [|p wp Hp Fw IH]; intros n h Lh Fh Lw.
      - cbn [length] in Lw. subst n. destruct h; [split; [reflexivity | constructor] | discriminate].
      - destruct h as [|hp h]; [cbn [length] in *; lia|]. cbn [length] in *. destruct n; [lia|]. inversion Fh; subst.
        destruct (IH n h ltac:(lia) ltac:(assumption) ltac:(lia)) as [I1 I2]. cbn [map2 length]. split; [lia|].
        constructor; [|exact I2]. rewrite map2_length; destruct Hp as [Lp _]; lia. }
    destruct Lw1 as [Lw1 Fw1].
    rewrite (w1Encode_eq P FF _ Lw1 Fw1).
    destruct FF as [_ _ _ _ LAM]. rewrite <- LAM.
    rewrite (norm_ltb z (gamma1 P - beta P)) by (auto; pose proof (params_ok_gb P HP); lia).
    reflexivity.
  Qed.
End Verify.

(* ------------------------------------------------------------------ *)
(* Algorithm 8 with tr and mu, Algorithm 3                              *)
(* ------------------------------------------------------------------ *)
Section VerifyLayers.
  Variables H G : bytes -> nat -> bytes.
  Hypothesis HH : xof_laws H.
  Hypothesis HG : xof_laws G.
  Variable P : params.
  Hypothesis HP : params_ok P.

  Lemma pkDecode_tr pkb pk : pkDecode H P pkb = Some pk -> pk_tr pk = H pkb 64%nat.
  Proof. unfold pkDecode. destruct (negb _); [discriminate|]. intros E. inversion E. reflexivity. Qed.

  Theorem Verify_internal_eq pkb pk Mp sigma :
    pkDecode H P pkb = Some pk -> length sigma = signatureLength P ->
    verifyInternal G H P pk Mp sigma = FIPS.Verify_internal H G (fips_of P) 672 1024 pkb Mp sigma.
  Proof.
    intros D Ls. unfold verifyInternal, FIPS.Verify_internal, computeMu. rewrite (pkDecode_tr pkb pk D).
    apply (Verify_mu_eq H G HH HG P HP); assumption.
  Qed.

  Lemma format_message_eq M ctx : (length ctx <= 255)%nat -> FIPS.format_message M ctx = formatMsg M ctx.
  Proof.
    intros L. unfold FIPS.format_message, formatMsg. change (FIPS.IntegerToBytes 0 1) with [0%N].
    rewrite byteN_IntegerToBytes. unfold byteN. rewrite N.mod_small by lia. reflexivity.
  Qed.

  Theorem Verify_eq pkb pk M sigma ctx :
    pkDecode H P pkb = Some pk -> length sigma = signatureLength P ->
    verify G H P pk M sigma ctx = FIPS.Verify H G (fips_of P) 672 1024 pkb M sigma ctx.
  Proof.
    intros D Ls. unfold verify, FIPS.Verify. destruct (Nat.ltb 255 (length ctx)) eqn:E; [reflexivity|].
    apply Nat.ltb_ge in E. rewrite format_message_eq by exact E. apply Verify_internal_eq; assumption.
  Qed.

  (* the Tink verifier of a key without output prefix is Algorithm 3 with the empty context *)
  Theorem tinkVerify_eq pkb sigma data : length pkb = publicKeyLength P -> length sigma = signatureLength P ->
    tinkVerify G H P [] pkb sigma data = FIPS.Verify H G (fips_of P) 672 1024 pkb data sigma [].
  Proof.
    intros Lp Ls. unfold tinkVerify. rewrite (pkDecode_eq H P pkb Lp). cbn [length firstn beq skipn].
    rewrite (Verify_internal_eq pkb _ _ sigma (pkDecode_eq H P pkb Lp) Ls).
    unfold FIPS.Verify. cbn [length Nat.ltb Nat.leb]. rewrite format_message_eq by (cbn; lia). reflexivity.
  Qed.
End VerifyLayers.

(* ------------------------------------------------------------------ *)
(* Algorithm 6                                                          *)
(* ------------------------------------------------------------------ *)
Lemma AddVector_signed n v w : cvec n v -> length w = n -> Forall (fun p => length p = 256%nat) w ->
  FIPS.AddVector v w = vadd v (map (map modq) w).
Proof.
  intros [Lv Fv] Lw Fw. unfold FIPS.AddVector, vadd. rewrite zip_with_map2.
  rewrite <- (map_id v) at 2. rewrite (map2_map padd (fun x => x) (map modq)).
  apply (map2_ext_F cpoly (fun p => length p = 256%nat)); auto.
  intros a b [La Ca] Lb. unfold FIPS.AddPoly, padd. rewrite zip_with_map2.
  rewrite <- (map_id a) at 2. rewrite (map2_map k_add (fun x => x) modq).
  apply (map2_ext_F (fun x => 0 <= x < q) (fun _ => True)); [exact Ca | apply Forall_forall; auto|].
  intros x y Hx _. unfold modq. rewrite k_add_spec by (auto using mod_q_range). rewrite Zplus_mod_idemp_r. reflexivity.
Qed.

Lemma Power2Round_t0_range r : -4095 <= snd (FIPS.Power2Round r) <= 4096.
Proof.
  unfold FIPS.Power2Round. cbv zeta. cbn [snd]. unfold FIPS.modpm. change (2 ^ FIPS.d) with 8192. change (8192 / 2) with 4096.
  pose proof (Z.mod_pos_bound (r mod FIPS.q) 8192 ltac:(lia)).
  destruct (_ <=? 4096) eqn:E; [apply Z.leb_le in E | apply Z.leb_gt in E]; lia.
Qed.

Section KeyGen.
  Variables H G : bytes -> nat -> bytes.
  Hypothesis HH : xof_laws H.
  Hypothesis HG : xof_laws G.
  Variable P : params.
  Hypothesis HP : params_ok P.

  (* shapes of the standard's ExpandS output *)
  Lemma RejBounded_shape rho p : FIPS.RejBoundedPoly H (fips_of P) 1536 rho = Some p ->
    length p = 256%nat /\ Forall (fun c => - p_eta P <= c <= p_eta P) p.
  Proof.
    intros E. split; [|exact (RejBoundedPoly_range H (fips_of P) 1536 rho p E)].
    pose proof (RejBoundedPoly_eq H HH P rho) as M. rewrite E in M. cbn [option_map] in M.
    destruct (params_ok_facts P HP) as [_ _ _ Heta _ _].
    apply (rejectBounded_props H _ _ _ Heta) in M. destruct M as [[L _] _]. rewrite map_length in L. exact L.
  Qed.

  Lemma ExpandS_shape rho s1 s2 : FIPS.ExpandS H (fips_of P) 1536 rho = Some (s1, s2) ->
    (length s1 = p_l P /\ sranges (- p_eta P) (p_eta P) s1) /\ (length s2 = p_k P /\ sranges (- p_eta P) (p_eta P) s2).
  Proof.
    unfold FIPS.ExpandS. rewrite !array_opt_oseq. cbn [FIPS.k FIPS.l fips_of].
    destruct (oseq (map _ (seq 0 (p_l P)))) as [a|] eqn:E1; [|discriminate].
    destruct (oseq (map _ (seq 0 (p_k P)))) as [b|] eqn:E2; [|discriminate].
    intros E. inversion E; subst a b; clear E.
    apply oseq_map_inv in E1, E2. destruct E1 as [L1 F1]. destruct E2 as [L2 F2]. rewrite seq_length in L1, L2.
    split; (split; [assumption|]).
    - eapply Forall_impl; [|exact F1]. intros p (i & _ & Hp). apply RejBounded_shape in Hp. exact Hp.
    - eapply Forall_impl; [|exact F2]. intros p (i & _ & Hp). apply RejBounded_shape in Hp. exact Hp.
  Qed.

  Lemma sranges_lengths B1 B2 v : sranges B1 B2 v -> Forall (fun p => length p = 256%nat) v.
  Proof. intros R. eapply Forall_impl; [|exact R]. intros p [Lp _]. exact Lp. Qed.

  Theorem KeyGen_internal_eq seed :
    option_map (fun '(pk, sk) => (pkEncode pk, skEncode P sk)) (keyGenInternal G H P seed) =
    FIPS.KeyGen_internal H G (fips_of P) 672 1536 seed.
  Proof.
    pose proof (params_ok_facts P HP) as PF. pose proof (params_ok_ffacts P HP) as FF.
    unfold keyGenInternal, FIPS.KeyGen_internal. cbv zeta. cbn [FIPS.k FIPS.l fips_of].
    rewrite !byteN_IntegerToBytes. cbn [app].
    set (Hout := H (seed ++ [byteN (p_k P); byteN (p_l P)]) 128%nat).
    assert (LH : length Hout = 128%nat) by apply (xl_len H HH).
    change (FIPS.sl Hout 0 32) with (firstn 32 Hout).
    change (FIPS.sl Hout 32 96) with (firstn 64 (skipn 32 Hout)).
    change (FIPS.sl Hout 96 128) with (firstn 32 (skipn 96 Hout)).
    set (rho := firstn 32 Hout). set (rhop := firstn 64 (skipn 32 Hout)). set (K := firstn 32 (skipn 96 Hout)).
    assert (Lrho : length rho = 32%nat) by (unfold rho; rewrite firstn_length; lia).
    assert (LK : length K = 32%nat) by (unfold K; rewrite firstn_length, skipn_length; lia).
    rewrite (ExpandA_eq G HG P rho).
    destruct (FIPS.ExpandA G (fips_of P) 672 rho) as [Ah|] eqn:EA; cbn [obind FIPS.obind option_map]; [|reflexivity].
    assert (HA : cmat (p_k P) (p_l P) Ah) by (apply (expandA_cmat G P rho); rewrite ExpandA_eq by exact HG; exact EA).
    rewrite (ExpandS_eq H HH P rhop) by apply FF.
    destruct (FIPS.ExpandS H (fips_of P) 1536 rhop) as [[s1 s2]|] eqn:ES; cbn [obind FIPS.obind option_map]; [|reflexivity].
    destruct (ExpandS_shape rhop s1 s2 ES) as [[L1 R1] [L2 R2]].
    pose proof (sranges_lengths _ _ _ R1) as F1. pose proof (sranges_lengths _ _ _ R2) as F2.
    assert (Hs1 : cvec (p_l P) (map (map modq) s1)) by (apply cvec_modq; auto).
    assert (Hs2 : cvec (p_k P) (map (map modq) s2)) by (apply cvec_modq; auto).
    rewrite (vNTT_eq s1 F1).
    assert (Hm : cvec (p_k P) (mmul Ah (vntt (map (map modq) s1))))
      by (apply (cvec_mmul _ (p_l P)); [exact HA | apply cvec_vntt; exact Hs1]).
    rewrite (MatrixVectorNTT_eq (p_k P) (p_l P) Ah _ HA) by (apply cvec_vntt; exact Hs1).
    rewrite (vNTT_inv_eq (p_k P)) by exact Hm.
    rewrite (AddVector_signed (p_k P)) by (auto; apply cvec_vintt; exact Hm).
    set (t := vadd (vintt (mmul Ah (vntt (map (map modq) s1)))) (map (map modq) s2)).
    assert (Ht : cvec (p_k P) t) by (unfold t; apply cvec_vadd; [apply cvec_vintt; exact Hm | exact Hs2]).
    (* Power2Round *)
    assert (E1 : map fst (map ppower2Round t) = map (map (fun r => fst (FIPS.Power2Round r))) t).
    { rewrite map_map. apply map_ext_in. intros p Hp. unfold ppower2Round. cbn [fst]. rewrite map_map.
      apply map_ext_in. intros r Hr. rewrite Power2Round_eq; [reflexivity|].
      pose proof (cvec_canon _ _ Ht) as C. rewrite Forall_forall in C. specialize (C p Hp). unfold canon in C. rewrite Forall_forall in C. auto. }
    assert (E0 : map snd (map ppower2Round t) = map (map modq) (map (map (fun r => snd (FIPS.Power2Round r))) t)).
    { rewrite !map_map. apply map_ext_in. intros p Hp. unfold ppower2Round. cbn [snd]. rewrite !map_map.
      apply map_ext_in. intros r Hr. rewrite Power2Round_eq; [reflexivity|].
      pose proof (cvec_canon _ _ Ht) as C. rewrite Forall_forall in C. specialize (C p Hp). unfold canon in C. rewrite Forall_forall in C. auto. }
    rewrite E1, E0.
    set (t1 := map (map (fun r => fst (FIPS.Power2Round r))) t).
    set (t0 := map (map (fun r => snd (FIPS.Power2Round r))) t).
    assert (Lt : length t = p_k P /\ Forall (fun p => length p = 256%nat) t).
    { destruct Ht as [Lt Ft]. split; [exact Lt|]. eapply Forall_impl; [|exact Ft]. intros p [Lp _]. exact Lp. }
    destruct Lt as [Lt Ft].
    assert (Lt1 : length t1 = p_k P /\ Forall (fun p => length p = 256%nat) t1).
    { unfold t1. rewrite map_length. split; [exact Lt|]. apply Forall_map. eapply Forall_impl; [|exact Ft]. intros p Lp. rewrite map_length. exact Lp. }
    destruct Lt1 as [Lt1 Ft1].
    assert (R0 : length t0 = p_k P /\ sranges (-4095) 4096 t0).
    { unfold t0. rewrite map_length. split; [exact Lt|]. apply Forall_map. eapply Forall_impl; [|exact Ft]. intros p Lp.
      split; [rewrite map_length; exact Lp|]. apply Forall_map. apply Forall_forall. intros r _. apply Power2Round_t0_range. }
    destruct R0 as [Lt0 R0].
    unfold pkEncode. cbn [pk_rho pk_t1].
    rewrite <- (pkEncode_eq P rho t1 Lrho Lt1 Ft1).
    set (pkb := FIPS.pkEncode (fips_of P) rho t1).
    f_equal. f_equal. symmetry.
    apply (skEncode_eq P FF); auto. apply (xl_len H HH).
  Qed.
End KeyGen.

(* ------------------------------------------------------------------ *)
(* Algorithm 7                                                          *)
(* ------------------------------------------------------------------ *)
Lemma AddVector_signed_l n v w : cvec n w -> length v = n -> Forall (fun p => length p = 256%nat) v ->
  FIPS.AddVector v w = vadd (map (map modq) v) w.
Proof.
  intros [Lw Fw] Lv Fv. unfold FIPS.AddVector, vadd. rewrite zip_with_map2.
  rewrite <- (map_id w) at 2. rewrite (map2_map padd (map modq) (fun x => x)).
  apply (map2_ext_F (fun p => length p = 256%nat) cpoly); auto.
  intros a b La [Lb Cb]. unfold FIPS.AddPoly, padd. rewrite zip_with_map2.
  rewrite <- (map_id b) at 2. rewrite (map2_map k_add modq (fun x => x)).
  apply (map2_ext_F (fun _ => True) (fun x => 0 <= x < q)); [apply Forall_forall; auto | exact Cb |].
  intros x y _ Hy. unfold modq. rewrite k_add_spec by (auto using mod_q_range). rewrite Zplus_mod_idemp_l. reflexivity.
Qed.

Lemma fold_add_sum p : forall r, fold_left Z.add p r = r + fold_right Z.add 0 p.
Proof. induction p as [|x p IH]; intros r; cbn [fold_left fold_right]; [lia|]. rewrite IH. lia. Qed.

Lemma vnumOnes_sum h : vnumOnes h = fold_right Z.add 0 (map (fold_right Z.add 0) h).
Proof.
  unfold vnumOnes.
  assert (G : forall r, fold_left (fun r p => fold_left Z.add p r) h r = r + fold_right Z.add 0 (map (fold_right Z.add 0) h)).
  { induction h as [|p h IH]; intros r; cbn [fold_left map fold_right]; [lia|]. rewrite IH, fold_add_sum. lia. }
  rewrite G. lia.
Qed.

Lemma params_ok_g2b P : params_ok P -> beta P < p_gamma2 P /\ 0 < p_gamma2 P.
Proof. intros [-> | [-> | ->]]; split; vm_compute; reflexivity. Qed.

Lemma modpm_modq x : modq (FIPS.modpm x FIPS.q) = modq x.
Proof. unfold modq. exact (cmod_cong x). Qed.

Lemma map_map_ext_canon (f : Z -> Z) n v : cvec n v -> (forall x, 0 <= x < q -> f x = x) -> map (map f) v = v.
Proof.
  intros Hv E. rewrite <- (map_id v) at 2. apply map_ext_in. intros p Hp.
  pose proof (cvec_canon n v Hv) as C. rewrite Forall_forall in C. specialize (C p Hp).
  rewrite <- (map_id p) at 2. apply map_ext_in. intros x Hx. unfold canon in C. rewrite Forall_forall in C. auto.
Qed.

Lemma cvec_lengths n v : cvec n v -> length v = n /\ Forall (fun p => length p = 256%nat) v.
Proof. intros [L F]. split; [exact L|]. eapply Forall_impl; [|exact F]. intros p [Lp _]. exact Lp. Qed.

Section Sign.
  Variables H G : bytes -> nat -> bytes.
  Hypothesis HH : xof_laws H.
  Hypothesis HG : xof_laws G.
  Variable P : params.
  Hypothesis HP : params_ok P.

  Lemma Sign_loop_eq Ah s1h s2h t0h mu rhopp :
    cmat (p_k P) (p_l P) Ah -> cvec (p_l P) s1h -> cvec (p_k P) s2h -> cvec (p_k P) t0h ->
    forall rounds kappa,
    signLoop H P rounds Ah s1h s2h t0h mu rhopp kappa =
    FIPS.Sign_loop H (fips_of P) 1024 rounds Ah s1h s2h t0h mu rhopp kappa.
  Proof.
    intros HA Hs1 Hs2 Ht0.
    pose proof (params_ok_facts P HP) as PF. pose proof (params_ok_ffacts P HP) as FF.
    pose proof (params_ok_gb P HP) as GB. destruct (params_ok_g2b P HP) as [G2B G2P].
    destruct PF as [Hgam Homega (G1 & G2 & G3) Heta (W1 & W2 & Hbeta) Htau] eqn:EPF.
    set (g := p_gamma2 P) in *. set (k := p_k P) in *. set (l := p_l P) in *.
    induction rounds as [|rounds IH]; intros kappa; [reflexivity|].
    cbn [signLoop FIPS.Sign_loop]. unfold signAttempt. cbv zeta.
    cbn [FIPS.gamma1 FIPS.gamma2 FIPS.k FIPS.l FIPS.beta FIPS.omega FIPS.lambda fips_of]. fold g k l.
    destruct (ExpandMask_eq H HH P FF PF rhopp kappa) as [EY SY].
    set (y := FIPS.ExpandMask H (fips_of P) rhopp kappa) in *.
    assert (Ly : length y = l) by (unfold y, FIPS.ExpandMask; apply array_length).
    assert (Fy : Forall (fun p => length p = 256%nat) y) by (eapply Forall_impl; [|exact SY]; intros p [Lp _]; exact Lp).
    assert (Hy : cvec l (map (map modq) y)) by (apply cvec_modq; auto).
    rewrite EY. rewrite (vNTT_eq y Fy).
    rewrite (MatrixVectorNTT_eq k l Ah _ HA) by (apply cvec_vntt; exact Hy).
    assert (Hw0 : cvec k (mmul Ah (vntt (map (map modq) y)))) by (apply (cvec_mmul _ l); [exact HA | apply cvec_vntt; exact Hy]).
    rewrite (vNTT_inv_eq k _ Hw0).
    set (w := vintt (mmul Ah (vntt (map (map modq) y)))).
    assert (Hw : cvec k w) by (unfold w; apply cvec_vintt; exact Hw0).
    rewrite (oseq_map_total _ (map (hb g)) canon) by (auto using phighBits_total; apply (cvec_canon k); exact Hw).
    replace (map (map (FIPS.HighBits g)) w) with (map (map (hb g)) w).
    2:{ apply map_ext_in. intros p Hp. apply map_ext_in. intros x Hx. apply HighBits_eq.
        pose proof (cvec_canon k w Hw) as C. rewrite Forall_forall in C. specialize (C p Hp). unfold canon in C. rewrite Forall_forall in C. auto. }
    destruct (cvec_lengths k w Hw) as [Lw Fw].
    rewrite (w1Encode_eq P FF (map (map (hb g)) w))
      by (first [rewrite map_length; exact Lw | apply Forall_map; eapply Forall_impl; [|exact Fw]; intros p Lp; rewrite map_length; exact Lp]).
    destruct FF as [FE FZ FW FKL LAM] eqn:EFF. rewrite <- LAM.
    set (ct := H (mu ++ w1Encode P (map (map (hb g)) w)) (ctLen P)).
    rewrite (SampleInBall_eq H HH P ct Htau).
    destruct (FIPS.SampleInBall H (fips_of P) 1024 ct) as [c|] eqn:EC; cbn [option_map FIPS.obind]; [|reflexivity].
    destruct (SampleInBall_range _ _ _ _ _ EC) as [_ Lc].
    assert (Hc : cpoly (map modq c)).
    { split; [rewrite map_length; exact Lc|]. apply Forall_map. apply Forall_forall. intros x _. apply mod_q_range. }
    rewrite (NTT_eq c Lc). set (ch := ntt (map modq c)). assert (Hch : cpoly ch) by (apply cpoly_ntt; exact Hc).
    rewrite !(ScalarVectorNTT_eq l ch s1h Hch Hs1), !(ScalarVectorNTT_eq k ch s2h Hch Hs2), !(ScalarVectorNTT_eq k ch t0h Hch Ht0).
    assert (H1 : cvec l (vscalarMul ch s1h)) by (apply cvec_vscalarMul; auto).
    assert (H2 : cvec k (vscalarMul ch s2h)) by (apply cvec_vscalarMul; auto).
    assert (H3 : cvec k (vscalarMul ch t0h)) by (apply cvec_vscalarMul; auto).
    rewrite !(vNTT_inv_eq l _ H1), !(vNTT_inv_eq k _ H2), !(vNTT_inv_eq k _ H3).
    set (cs1 := vintt (vscalarMul ch s1h)). set (cs2 := vintt (vscalarMul ch s2h)). set (ct0 := vintt (vscalarMul ch t0h)).
    assert (Hcs1 : cvec l cs1) by (apply cvec_vintt; exact H1).
    assert (Hcs2 : cvec k cs2) by (apply cvec_vintt; exact H2).
    assert (Hct0 : cvec k ct0) by (apply cvec_vintt; exact H3).
    rewrite (AddVector_signed_l l y cs1 Hcs1 Ly Fy).
    set (z := vadd (map (map modq) y) cs1). assert (Hz : cvec l z) by (apply cvec_vadd; auto).
    rewrite !(SubVector_eq k w cs2 Hw Hcs2).
    set (u := vsub w cs2). assert (Hu : cvec k u) by (apply cvec_vsub; auto).
    rewrite (oseq_map_total _ (map (lb g)) canon) by (auto using plowBits_total; apply (cvec_canon k); exact Hu).
    rewrite W1, W2.
    (* the two norm checks of line 23 *)
    rewrite (Z.leb_antisym (FIPS.norm_vec z)), (Z.leb_antisym (FIPS.norm_vec (map (map (FIPS.LowBits g)) u))).
    rewrite (norm_ltb_canon l z (gamma1 P - beta P) ltac:(lia) Hz).
    destruct (cvec_lengths k u Hu) as [Lu Fu].
    rewrite (norm_ltb (map (map (FIPS.LowBits g)) u) (g - beta P)) by
      (first [lia | apply Forall_map; eapply Forall_impl; [|exact Fu]; intros p Lp; rewrite map_length; exact Lp]).
    replace (map (map modq) (map (map (FIPS.LowBits g)) u)) with (map (map (lb g)) u).
    2:{ rewrite map_map. apply map_ext_in. intros p Hp. rewrite map_map. apply map_ext_in. intros x Hx. apply LowBits_eq.
        pose proof (cvec_canon k u Hu) as C. rewrite Forall_forall in C. specialize (C p Hp). unfold canon in C. rewrite Forall_forall in C. auto. }
    rewrite <- negb_andb.
    destruct (Z.ltb (vinfNorm z) (gamma1 P - beta P) && Z.ltb (vinfNorm (map (map (lb g)) u)) (g - beta P))%bool eqn:EN;
      cbn [negb]; [|apply IH].
    apply andb_true_iff in EN. destruct EN as [EN1 EN2]. apply Z.ltb_lt in EN1.
    (* hint *)
    rewrite (NegVector_eq k ct0 Hct0), (AddVector_eq k u ct0 Hu Hct0).
    assert (Hn : cvec k (vneg ct0)) by (apply cvec_vneg; exact Hct0).
    assert (Hr : cvec k (vadd u ct0)) by (apply cvec_vadd; auto).
    rewrite (oseq_map2_total _ (map2 (mh g)) canon canon)
      by (auto using pmakeHint_total; apply (cvec_canon k); auto).
    replace (FIPS.zip_with (FIPS.zip_with (FIPS.MakeHint g)) (vneg ct0) (vadd u ct0)) with (map2 (map2 (mh g)) (vneg ct0) (vadd u ct0)).
    2:{ change (FIPS.zip_with (FIPS.zip_with (FIPS.MakeHint g))) with (map2 (map2 (FIPS.MakeHint g))).
        apply (map2_ext_F (fun _ => True) canon); [apply Forall_forall; auto | eapply cvec_canon; eauto |].
        intros p r _ Cr. apply (map2_ext_F (fun _ => True) (fun x => 0 <= x < q)); [apply Forall_forall; auto | exact Cr |].
        intros a b _ Hb. apply MakeHint_eq. exact Hb. }
    destruct (hint_shape g k (vneg ct0) (vadd u ct0) Hn Hr) as [Lh Sh].
    set (h := map2 (map2 (mh g)) (vneg ct0) (vadd u ct0)) in *.
    rewrite <- vnumOnes_sum.
    rewrite (Z.leb_antisym (FIPS.norm_vec ct0)), (Z.ltb_antisym (vnumOnes h)).
    rewrite (norm_ltb_canon k ct0 g G2P Hct0). rewrite <- negb_andb.
    destruct (Z.ltb (vinfNorm ct0) g && Z.leb (vnumOnes h) (Z.of_nat (p_omega P)))%bool eqn:EM; cbn [negb]; [|apply IH].
    apply andb_true_iff in EM. destruct EM as [_ EM2]. apply Z.leb_le in EM2.
    (* the encoding *)
    f_equal. symmetry.
    assert (Bh : Forall binary h) by (eapply Forall_impl; [|exact Sh]; intros p [Hb _]; exact Hb).
    assert (Fh : Forall (fun p => length p = 256%nat) h) by (eapply Forall_impl; [|exact Sh]; intros p [_ Lp]; exact Lp).
    rewrite (vnumOnes_weight h Bh) in EM2.
    destruct (cvec_lengths l z Hz) as [Lz Fz].
    assert (BZ : Forall (Forall (fun x => cabs x < gamma1 P - beta P)) z)
      by (apply vinfNorm_lt_iff; [apply (cvec_canon l); exact Hz | lia | exact EN1]).
    rewrite (sigEncode_eq P (mk_ffacts P FE FZ FW FKL LAM) (mk_pfacts P Hgam Homega (conj G1 (conj G2 G3)) Heta (conj W1 (conj W2 Hbeta)) Htau)).
    - f_equal. rewrite map_map.
      replace (map (fun p => map modq (map (fun x => FIPS.modpm x FIPS.q) p)) z) with (map (map (fun x => modq (FIPS.modpm x FIPS.q))) z)
        by (apply map_ext; intros p; rewrite map_map; reflexivity).
      apply (map_map_ext_canon _ l z Hz). intros x Hx. rewrite modpm_modq. apply Z.mod_small. exact Hx.
    - unfold ct. apply (xl_len H HH).
    - rewrite map_length. exact Lz.
    - apply Forall_map. rewrite Forall_forall in *. intros p Hp. split; [rewrite map_length; apply Fz; exact Hp|].
      apply Forall_map. specialize (BZ p Hp). eapply Forall_impl; [|exact BZ]. cbv beta. intros x Hx. unfold cabs in Hx.
      change (cmod x q) with (FIPS.modpm x FIPS.q) in Hx. lia.
    - exact Lh.
    - exact Fh.
    - lia.
  Qed.
End Sign.

Lemma skDecode_shape P (FF : ffacts P) enc : length enc = secretKeyLength P ->
  let '(rho, K, tr, s1, s2, t0) := FIPS.skDecode (fips_of P) enc in
  (length s1 = p_l P /\ Forall (fun p => length p = 256%nat) s1) /\
  (length s2 = p_k P /\ Forall (fun p => length p = 256%nat) s2) /\
  (length t0 = p_k P /\ Forall (fun p => length p = 256%nat) t0).
Proof.
  intros L. destruct FF as [(E1 & E2 & E3 & E4 & E5) _ _ _ _].
  destruct t1_width as (_ & _ & W3 & W4 & W5 & W6).
  unfold FIPS.skDecode. cbn [FIPS.k FIPS.l FIPS.eta fips_of].
  replace (2 * p_eta P) with (p_eta P + p_eta P) by lia. rewrite E1, W4, W5.
  unfold secretKeyLength in L. set (we := (32 * p_etaBits P)%nat) in *.
  destruct (map_BitUnpack_eq (p_eta P) (p_eta P) (p_etaBits P) enc 128 (p_l P) E2 E1 E4 E3 ltac:(fold we; lia)) as [_ U1].
  destruct (map_BitUnpack_eq (p_eta P) (p_eta P) (p_etaBits P) enc (128 + p_l P * we) (p_k P) E2 E1 E4 E3 ltac:(fold we; lia)) as [_ U2].
  destruct (map_BitUnpack_eq (4096 - 1) 4096 dBits enc (128 + p_l P * we + p_k P * we) (p_k P) ltac:(cbn; lia) W3
              ltac:(unfold q; lia) ltac:(vm_compute; congruence) ltac:(fold we; lia)) as [_ U3].
  fold we in U1, U2.
  assert (T : forall B1 B2 v, sranges B1 B2 v -> Forall (fun p => length p = 256%nat) v).
  { intros B1 B2 v R. eapply Forall_impl; [|exact R]. intros p [Lp _]. exact Lp. }
  repeat split; try apply array_length; eapply T; eassumption.
Qed.

Section SignTop.
  Variables H G : bytes -> nat -> bytes.
  Hypothesis HH : xof_laws H.
  Hypothesis HG : xof_laws G.
  Variable P : params.
  Hypothesis HP : params_ok P.

  Theorem Sign_mu_eq skb sk rounds mu rnd : skDecode P skb = Some sk ->
    signInternalWithMu G H P rounds sk mu rnd = FIPS.Sign_mu H G (fips_of P) 672 1024 rounds skb mu rnd /\
    sk_tr sk = (let '(_, _, tr, _, _, _) := FIPS.skDecode (fips_of P) skb in tr).
  Proof.
    intros D. pose proof (params_ok_ffacts P HP) as FF.
    pose proof (skDecode_length _ _ _ D) as L.
    pose proof (skDecode_eq P FF skb L) as E. pose proof (skDecode_shape P FF skb L) as S.
    unfold FIPS.Sign_mu.
    destruct (FIPS.skDecode (fips_of P) skb) as [[[[[rho K] tr] s1] s2] t0].
    destruct S as ((L1 & F1) & (L2 & F2) & (L3 & F3)).
    assert (Esk : sk = mkSK rho K tr (map (map modq) s1) (map (map modq) s2) (map (map modq) t0)) by congruence.
    subst sk. split; [|reflexivity].
    unfold signInternalWithMu. cbn [sk_rho sk_K sk_s1 sk_s2 sk_t0].
    rewrite (vNTT_eq s1 F1), (vNTT_eq s2 F2), (vNTT_eq t0 F3).
    rewrite (ExpandA_eq G HG P rho).
    destruct (FIPS.ExpandA G (fips_of P) 672 rho) as [Ah|] eqn:EA; cbn [obind FIPS.obind]; [|reflexivity].
    assert (HA : cmat (p_k P) (p_l P) Ah) by (apply (expandA_cmat G P rho); rewrite ExpandA_eq by exact HG; exact EA).
    apply (Sign_loop_eq H HH P HP); auto; apply cvec_vntt, cvec_modq; auto.
  Qed.

  Theorem Sign_internal_eq skb sk rounds Mp rnd : skDecode P skb = Some sk ->
    signInternal G H P rounds sk Mp rnd = FIPS.Sign_internal H G (fips_of P) 672 1024 rounds skb Mp rnd.
  Proof.
    intros D. unfold signInternal, FIPS.Sign_internal, computeMu.
    destruct (Sign_mu_eq skb sk rounds (H (sk_tr sk ++ Mp) 64%nat) rnd D) as [E1 E2].
    rewrite E1, E2. destruct (FIPS.skDecode (fips_of P) skb) as [[[[[rho K] tr] s1] s2] t0]. reflexivity.
  Qed.

  Theorem Sign_eq skb sk rounds M ctx rnd : skDecode P skb = Some sk ->
    sign G H P rounds sk M ctx rnd = FIPS.Sign H G (fips_of P) 672 1024 rounds skb M ctx rnd.
  Proof.
    intros D. unfold sign, FIPS.Sign. destruct (Nat.ltb 255 (length ctx)) eqn:E; [reflexivity|].
    apply Nat.ltb_ge in E. rewrite (format_message_eq M ctx E). f_equal. apply Sign_internal_eq. exact D.
  Qed.

  (* the Tink signer of a key without output prefix *)
  Theorem tinkSign_eq skb rounds data rnd : length skb = secretKeyLength P ->
    tinkSign G H P rounds [] skb data rnd =
    FIPS.Sign_internal H G (fips_of P) 672 1024 rounds skb (FIPS.format_message data []) rnd.
  Proof.
    intros L. pose proof (params_ok_ffacts P HP) as FF. unfold tinkSign.
    pose proof (skDecode_eq P FF skb L) as E.
    destruct (FIPS.skDecode (fips_of P) skb) as [[[[[rho K] tr] s1] s2] t0] eqn:ED.
    rewrite E. cbn [obind]. rewrite (Sign_internal_eq skb _ rounds _ rnd E).
    rewrite format_message_eq by (cbn; lia).
    destruct (FIPS.Sign_internal H G (fips_of P) 672 1024 rounds skb (formatMsg data []) rnd); reflexivity.
  Qed.
End SignTop.
