(* Proofs about model/DER.v: the strict DER codec of SEQUENCE{INTEGER,INTEGER}
   is a bijection between pairs of integers and its accept set. *)
From Coq Require Import List NArith ZArith Bool Lia Arith.
From Tink Require Import Bytes DER.
Import ListNotations.
Open Scope N_scope.

(* ------------------------------------------------------------------ *)
(* big-endian / little-endian arithmetic                               *)

Lemma pow256_pos k : 0 < 256 ^ k.
Proof. apply N.neq_0_lt_0. apply N.pow_nonzero. lia. Qed.

Lemma pow256_2 k : 256 ^ k = 2 ^ (8 * k).
Proof. rewrite N.pow_mul_r. reflexivity. Qed.

Lemma le_val_app a b : le_val (a ++ b) = le_val a + 256 ^ N.of_nat (length a) * le_val b.
Proof.
  induction a as [|x a IH]; cbn [app le_val length].
  - rewrite N.pow_0_r. lia.
  - rewrite IH, Nat2N.inj_succ, N.pow_succ_r by lia. lia.
Qed.

Lemma be_val_cons x t : be_val (x :: t) = x * 256 ^ N.of_nat (length t) + be_val t.
Proof.
  unfold be_val. cbn [rev]. rewrite le_val_app, rev_length. cbn [le_val]. lia.
Qed.

Lemma be_val_nil : be_val [] = 0.
Proof. reflexivity. Qed.

Lemma wfb_cons x t : wfb (x :: t) <-> x < 256 /\ wfb t.
Proof.
  unfold wfb. split; intros H.
  - inversion H; auto.
  - constructor; tauto.
Qed.

Lemma wfb_nil : wfb [].
Proof. constructor. Qed.

Lemma be_val_bound d : wfb d -> be_val d < 256 ^ N.of_nat (length d).
Proof.
  induction d as [|x t IH]; intros H.
  - cbn. lia.
  - apply wfb_cons in H. destruct H as [Hx Ht]. specialize (IH Ht).
    rewrite be_val_cons. cbn [length]. rewrite Nat2N.inj_succ, N.pow_succ_r by lia.
    pose proof (pow256_pos (N.of_nat (length t))). nia.
Qed.

Lemma le_bytes_le_val b k : wfb b -> le_bytes (length b + k) (le_val b) = b ++ zeros k.
Proof.
  induction b as [|x b IH]; intros H.
  - cbn [length le_val app Nat.add]. induction k as [|k IHk]; [reflexivity|].
    cbn [le_bytes zeros repeat]. rewrite N.mod_0_l, N.div_0_l by lia. f_equal. exact IHk.
  - apply wfb_cons in H. destruct H as [Hx Hb].
    cbn [length Nat.add le_bytes le_val app].
    assert (E1 : (x + 256 * le_val b) mod 256 = x).
    { replace (x + 256 * le_val b) with (x + le_val b * 256) by lia.
      rewrite N.mod_add by lia. apply N.mod_small; exact Hx. }
    assert (E2 : (x + 256 * le_val b) / 256 = le_val b).
    { replace (x + 256 * le_val b) with (x + le_val b * 256) by lia.
      rewrite N.div_add by lia. rewrite N.div_small by exact Hx. lia. }
    rewrite E1, E2, IH by exact Hb. reflexivity.
Qed.

Lemma rev_zeros k : rev (zeros k) = zeros k.
Proof.
  unfold zeros. induction k as [|k IH]; [reflexivity|].
  cbn [repeat rev]. rewrite IH. clear IH.
  induction k as [|k IH]; [reflexivity|]. cbn [repeat app]. rewrite IH. reflexivity.
Qed.

Lemma wfb_rev d : wfb d -> wfb (rev d).
Proof. unfold wfb. apply Forall_rev. Qed.

Lemma be_bytes_be_val d k : wfb d -> be_bytes (length d + k) (be_val d) = zeros k ++ d.
Proof.
  intros H. unfold be_bytes, be_val.
  rewrite <- (rev_length d). rewrite le_bytes_le_val by (apply wfb_rev; exact H).
  rewrite rev_app_distr, rev_involutive, rev_zeros. reflexivity.
Qed.

(* ------------------------------------------------------------------ *)
(* strip0 / be_min                                                      *)

Definition hd_nz (d : bytes) : Prop := match d with 0 :: _ => False | _ => True end.

Lemma strip0_zeros k d : strip0 (zeros k ++ d) = strip0 d.
Proof. induction k as [|k IH]; [reflexivity|]. cbn. exact IH. Qed.

Lemma strip0_nz d : hd_nz d -> strip0 d = d.
Proof. destruct d as [|x t]; [reflexivity|]. destruct x; cbn; [tauto|reflexivity]. Qed.

Lemma strip0_hd_nz d : hd_nz (strip0 d).
Proof.
  induction d as [|x t IH]; [exact I|]. destruct x; cbn; [exact IH|exact I].
Qed.

Lemma be_val_strip0 d : be_val (strip0 d) = be_val d.
Proof.
  induction d as [|x t IH]; [reflexivity|]. destruct x.
  - cbn [strip0]. rewrite IH, be_val_cons. lia.
  - reflexivity.
Qed.

Lemma strip0_wf d : wfb d -> wfb (strip0 d).
Proof.
  induction d as [|x t IH]; intros H; [exact H|]. destruct x; [|exact H].
  cbn. apply IH. apply wfb_cons in H. tauto.
Qed.

Lemma strip0_length d : (length (strip0 d) <= length d)%nat.
Proof.
  induction d as [|x t IH]; [cbn; lia|]. destruct x; cbn [strip0 length]; lia.
Qed.

Lemma lt_pow_be_width x : x < 256 ^ N.of_nat (be_width x).
Proof.
  unfold be_width. rewrite Nat2N.inj_succ, N2Nat.id, pow256_2.
  eapply N.lt_le_trans; [apply N.size_gt|].
  apply N.pow_le_mono_r; [lia|].
  pose proof (N.div_mod (N.size x) 8 ltac:(lia)) as E.
  pose proof (N.mod_lt (N.size x) 8 ltac:(lia)). lia.
Qed.

Lemma be_val_be_min x : be_val (be_min x) = x.
Proof.
  unfold be_min. rewrite be_val_strip0, be_val_be_bytes.
  apply N.mod_small. apply lt_pow_be_width.
Qed.

Lemma be_min_wf x : wfb (be_min x).
Proof. unfold be_min. apply strip0_wf. apply be_bytes_wf. Qed.

Lemma be_min_hd_nz x : hd_nz (be_min x).
Proof. apply strip0_hd_nz. Qed.

Lemma be_min_length x : (length (be_min x) <= be_width x)%nat.
Proof.
  unfold be_min. eapply Nat.le_trans; [apply strip0_length|]. rewrite be_bytes_length. lia.
Qed.

Lemma be_val_lower x t : x <> 0 -> 256 ^ N.of_nat (length t) <= be_val (x :: t).
Proof. intros Hx. rewrite be_val_cons. pose proof (pow256_pos (N.of_nat (length t))). nia. Qed.

Lemma length_le_be_width d : hd_nz d -> (length d <= be_width (be_val d))%nat.
Proof.
  destruct d as [|x t]; intros H; [unfold be_width; cbn; lia|].
  assert (Hx : x <> 0) by (destruct x; cbn in H; [tauto|discriminate]).
  pose proof (be_val_lower x t Hx) as L.
  set (v := be_val (x :: t)) in *.
  pose proof (N.size_gt v) as G.
  rewrite pow256_2 in L.
  assert (8 * N.of_nat (length t) < N.size v).
  { apply (N.pow_lt_mono_r_iff 2); [lia|]. lia. }
  assert (N.of_nat (length t) <= N.size v / 8).
  { apply N.div_le_lower_bound; lia. }
  unfold be_width. cbn [length]. lia.
Qed.

Lemma be_min_be_val d : wfb d -> hd_nz d -> be_min (be_val d) = d.
Proof.
  intros Hw Hn. unfold be_min.
  pose proof (length_le_be_width d Hn) as L.
  replace (be_width (be_val d)) with (length d + (be_width (be_val d) - length d))%nat by lia.
  rewrite be_bytes_be_val by exact Hw. rewrite strip0_zeros. apply strip0_nz; exact Hn.
Qed.

Lemma be_min_0 : be_min 0 = [].
Proof. reflexivity. Qed.

Lemma be_min_nil x : be_min x = [] -> x = 0.
Proof. intros H. rewrite <- (be_val_be_min x), H. reflexivity. Qed.

Lemma be_min_inj x y : be_min x = be_min y -> x = y.
Proof. intros H. rewrite <- (be_val_be_min x), <- (be_val_be_min y), H. reflexivity. Qed.

Lemma hd_nz_cons x t : hd_nz (x :: t) <-> x <> 0.
Proof. destruct x; cbn; split; intros; try tauto; try discriminate. Qed.

(* ------------------------------------------------------------------ *)
(* definite lengths                                                     *)

Definition LIM : N := 4294967296.

Lemma be_min_length_bound x k : x < 256 ^ N.of_nat k -> (length (be_min x) <= k)%nat.
Proof.
  intros H. pose proof (be_val_be_min x) as E. pose proof (be_min_hd_nz x) as Hn.
  destruct (be_min x) as [|y t]; [cbn; lia|].
  apply hd_nz_cons in Hn. pose proof (be_val_lower y t Hn) as L. rewrite E in L.
  assert (N.of_nat (length t) < N.of_nat k).
  { apply (N.pow_lt_mono_r_iff 256); [lia|]. lia. }
  cbn [length]. lia.
Qed.

Lemma read_len_enc n rest : N.of_nat n < LIM -> read_len (enc_len n ++ rest) = Some (n, rest).
Proof.
  intros Hn. unfold enc_len. destruct (N.of_nat n <? 128) eqn:E.
  - cbn [app read_len]. rewrite E. rewrite Nat2N.id. reflexivity.
  - apply N.ltb_ge in E.
    pose proof (be_val_be_min (N.of_nat n)) as Ev.
    pose proof (be_min_hd_nz (N.of_nat n)) as Hz.
    pose proof (be_min_length_bound (N.of_nat n) 4 Hn) as Hl.
    set (d := be_min (N.of_nat n)) in *.
    assert (Hd : d <> []).
    { intros ->. cbn in Ev. lia. }
    cbn [app read_len].
    assert (E1 : 128 + N.of_nat (length d) <? 128 = false) by (apply N.ltb_ge; lia).
    rewrite E1.
    replace (N.to_nat (128 + N.of_nat (length d) - 128)) with (length d) by lia.
    assert (E2 : (Nat.eqb (length d) 0 || Nat.ltb 4 (length d) || Nat.ltb (length (d ++ rest)) (length d))%bool = false).
    { rewrite app_length. destruct d; [congruence|]. cbn [length].
      repeat (apply orb_false_iff; split).
      - reflexivity.
      - apply Nat.ltb_ge. cbn [length] in Hl. lia.
      - apply Nat.ltb_ge. lia. }
    rewrite E2.
    rewrite firstn_app, Nat.sub_diag, firstn_all, firstn_O, app_nil_r.
    rewrite skipn_app, Nat.sub_diag, skipn_all, skipn_O. cbn [app].
    destruct d as [|y t]; [congruence|].
    apply hd_nz_cons in Hz. destruct y as [|p]; [congruence|].
    rewrite Ev. assert (E3 : N.of_nat n <? 128 = false) by (apply N.ltb_ge; exact E).
    rewrite E3, Nat2N.id. reflexivity.
Qed.

Lemma read_len_sound b n rest :
  wfb b -> read_len b = Some (n, rest) -> b = enc_len n ++ rest /\ N.of_nat n < LIM.
Proof.
  intros Hw H. destruct b as [|l t]; [discriminate|]. cbn [read_len] in H.
  apply wfb_cons in Hw. destruct Hw as [Hl Ht].
  destruct (l <? 128) eqn:E.
  - inversion H; subst. unfold enc_len. rewrite N2Nat.id, E. split; [reflexivity|].
    apply N.ltb_lt in E. unfold LIM. lia.
  - apply N.ltb_ge in E.
    set (k := N.to_nat (l - 128)) in *.
    destruct (Nat.eqb k 0 || Nat.ltb 4 k || Nat.ltb (length t) k)%bool eqn:E2; [discriminate|].
    apply orb_false_iff in E2. destruct E2 as [E2 E5].
    apply orb_false_iff in E2. destruct E2 as [E3 E4].
    apply Nat.eqb_neq in E3. apply Nat.ltb_ge in E4. apply Nat.ltb_ge in E5.
    assert (Hfl : length (firstn k t) = k) by (apply firstn_length_le; exact E5).
    assert (Hfw : wfb (firstn k t)) by (apply wfb_firstn; exact Ht).
    pose proof (firstn_skipn k t) as Hsplit.
    set (d := firstn k t) in *.
    assert (Hz : hd_nz d /\ (be_val d <? 128) = false /\ n = N.to_nat (be_val d) /\ rest = skipn k t).
    { destruct d as [|y d'].
      - cbn in H. discriminate.
      - destruct y as [|p]; [discriminate|].
        destruct (be_val (N.pos p :: d') <? 128) eqn:E6; [discriminate|].
        inversion H; subst. repeat split; auto. }
    destruct Hz as [Hz [E6 [-> ->]]].
    apply N.ltb_ge in E6.
    pose proof (be_val_bound d Hfw) as Hb. rewrite Hfl in Hb.
    assert (Hk : 256 ^ N.of_nat k <= LIM).
    { change LIM with (256 ^ 4). apply N.pow_le_mono_r; lia. }
    split; [|rewrite N2Nat.id; lia].
    unfold enc_len. rewrite N2Nat.id.
    assert (E7 : be_val d <? 128 = false) by (apply N.ltb_ge; exact E6).
    rewrite E7. rewrite be_min_be_val by assumption. rewrite Hfl.
    replace (128 + N.of_nat k) with l by (unfold k; lia).
    cbn [app]. rewrite Hsplit. reflexivity.
Qed.

Lemma enc_len_wf n : N.of_nat n < LIM -> wfb (enc_len n).
Proof.
  intros H. unfold enc_len. destruct (N.of_nat n <? 128) eqn:E.
  - apply N.ltb_lt in E. apply wfb_cons. split; [lia|apply wfb_nil].
  - apply wfb_cons. split; [|apply be_min_wf].
    pose proof (be_min_length_bound (N.of_nat n) 4 H). lia.
Qed.

(* ------------------------------------------------------------------ *)
(* tag-length-value                                                     *)

Lemma read_tlv_enc tag c rest :
  N.of_nat (length c) < LIM -> read_tlv tag (enc_tlv tag c ++ rest) = Some (c, rest).
Proof.
  intros H. unfold enc_tlv, read_tlv. cbn [app]. rewrite N.eqb_refl. cbn [negb].
  rewrite <- app_assoc. rewrite read_len_enc by exact H.
  assert (E : Nat.ltb (length (c ++ rest)) (length c) = false).
  { apply Nat.ltb_ge. rewrite app_length. lia. }
  rewrite E.
  rewrite firstn_app, Nat.sub_diag, firstn_all, firstn_O, app_nil_r.
  rewrite skipn_app, Nat.sub_diag, skipn_all, skipn_O. reflexivity.
Qed.

Lemma read_tlv_sound tag b c rest :
  wfb b -> read_tlv tag b = Some (c, rest) ->
  b = enc_tlv tag c ++ rest /\ N.of_nat (length c) < LIM.
Proof.
  intros Hw H. destruct b as [|t b1]; [discriminate|]. cbn [read_tlv] in H.
  apply wfb_cons in Hw. destruct Hw as [_ Hw].
  destruct (t =? tag) eqn:E; [|discriminate]. cbn [negb] in H. apply N.eqb_eq in E. subst t.
  destruct (read_len b1) as [[n b2]|] eqn:E1; [|discriminate].
  destruct (Nat.ltb (length b2) n) eqn:E2; [discriminate|].
  apply Nat.ltb_ge in E2. inversion H; subst. clear H.
  apply read_len_sound in E1; [|exact Hw]. destruct E1 as [-> Hn].
  assert (Hl : length (firstn n b2) = n) by (apply firstn_length_le; exact E2).
  split; [|rewrite Hl; exact Hn].
  unfold enc_tlv. rewrite Hl. cbn [app]. rewrite <- app_assoc, firstn_skipn. reflexivity.
Qed.

Lemma read_tlv_wf tag b c rest : wfb b -> read_tlv tag b = Some (c, rest) -> wfb c /\ wfb rest.
Proof.
  intros Hw H. destruct b as [|t b1]; [discriminate|]. cbn [read_tlv] in H.
  apply wfb_cons in Hw. destruct Hw as [_ Hw].
  destruct (negb (t =? tag)); [discriminate|].
  destruct (read_len b1) as [[n b2]|] eqn:E1; [|discriminate].
  destruct (Nat.ltb (length b2) n); [discriminate|]. inversion H; subst.
  assert (wfb b2).
  { destruct b1 as [|l t1]; [discriminate|]. cbn [read_len] in E1.
    apply wfb_cons in Hw. destruct Hw as [_ Hw].
    destruct (l <? 128); [inversion E1; subst; exact Hw|].
    destruct (_ || _ || _)%bool; [discriminate|].
    destruct (firstn (N.to_nat (l - 128)) t1) as [|y d']; [cbn in E1; discriminate|].
    destruct y; [discriminate|].
    destruct (_ <? 128); [discriminate|]. inversion E1; subst. apply wfb_skipn; exact Hw. }
  split; [apply wfb_firstn|apply wfb_skipn]; assumption.
Qed.

(* ------------------------------------------------------------------ *)
(* INTEGER contents                                                     *)

Lemma comp_wf d : wfb (comp d).
Proof.
  induction d as [|x t IH]; [apply wfb_nil|]. cbn [comp map]. apply wfb_cons. split; [lia|exact IH].
Qed.

Lemma comp_length d : length (comp d) = length d.
Proof. apply map_length. Qed.

Lemma comp_involutive d : wfb d -> comp (comp d) = d.
Proof.
  induction d as [|x t IH]; intros H; [reflexivity|].
  apply wfb_cons in H. destruct H as [Hx Ht]. cbn [comp map]. f_equal; [lia|apply IH; exact Ht].
Qed.

Lemma comp_cons x t : comp (x :: t) = (255 - x) :: comp t.
Proof. reflexivity. Qed.

Lemma int_enc_nonneg z : (0 <= z)%Z ->
  int_enc z = match be_min (Z.to_N z) with
              | [] => [0]
              | x :: t => if x <? 128 then x :: t else 0 :: x :: t
              end.
Proof.
  intros H. unfold int_enc. apply Z.leb_le in H. rewrite H.
  destruct (be_min (Z.to_N z)); reflexivity.
Qed.

Lemma int_enc_neg z : (z < 0)%Z ->
  int_enc z = match comp (be_min (Z.to_N (- z - 1))) with
              | [] => [255]
              | x :: t => if x <? 128 then 255 :: x :: t else x :: t
              end.
Proof.
  intros H. unfold int_enc. apply Z.leb_gt in H. rewrite H.
  destruct (comp (be_min (Z.to_N (- z - 1)))); reflexivity.
Qed.

Lemma int_dec_cons x t :
  int_minimal (x :: t) = true ->
  int_dec (x :: t) = if x <? 128 then Some (Z.of_N (be_val (x :: t)))
                     else Some (- Z.of_N (be_val (comp (x :: t))) - 1)%Z.
Proof. intros H. unfold int_dec. rewrite H. reflexivity. Qed.

Lemma int_dec_enc z : int_dec (int_enc z) = Some z.
Proof.
  destruct (Z_le_gt_dec 0 z) as [Hz|Hz].
  - rewrite int_enc_nonneg by exact Hz.
    pose proof (be_val_be_min (Z.to_N z)) as Ev.
    pose proof (be_min_hd_nz (Z.to_N z)) as Hn.
    pose proof (be_min_wf (Z.to_N z)) as Hw.
    destruct (be_min (Z.to_N z)) as [|y t].
    + cbn in Ev. assert (z = 0%Z) by lia. subst. reflexivity.
    + apply hd_nz_cons in Hn. apply wfb_cons in Hw. destruct Hw as [Hy _].
      destruct (y <? 128) eqn:E.
      * rewrite int_dec_cons.
        -- rewrite E, Ev. f_equal. lia.
        -- apply N.ltb_lt in E. destruct t as [|y2 t2]; [reflexivity|]. cbn [int_minimal].
           assert (E1 : y =? 0 = false) by (apply N.eqb_neq; exact Hn).
           assert (E2 : y =? 255 = false) by (apply N.eqb_neq; lia).
           rewrite E1, E2. reflexivity.
      * rewrite int_dec_cons.
        -- change (0 <? 128) with true. cbv iota. rewrite be_val_cons, Ev. f_equal. lia.
        -- cbn [int_minimal]. rewrite E. reflexivity.
  - rewrite int_enc_neg by lia.
    pose proof (be_val_be_min (Z.to_N (- z - 1))) as Ev.
    pose proof (be_min_hd_nz (Z.to_N (- z - 1))) as Hn.
    pose proof (be_min_wf (Z.to_N (- z - 1))) as Hw.
    destruct (be_min (Z.to_N (- z - 1))) as [|y0 t0].
    + cbn in Ev. assert (z = (-1)%Z) by lia. subst. reflexivity.
    + apply hd_nz_cons in Hn. pose proof Hw as Hw0. apply wfb_cons in Hw. destruct Hw as [Hy _].
      rewrite comp_cons.
      destruct (255 - y0 <? 128) eqn:E.
      * apply N.ltb_lt in E. rewrite int_dec_cons.
        -- change (255 <? 128) with false. cbv iota.
           rewrite (comp_cons 255). rewrite <- (comp_cons y0 t0). rewrite comp_involutive by exact Hw0.
           change (255 - 255) with 0. rewrite be_val_cons, Ev. f_equal. lia.
        -- cbn [int_minimal]. change (255 =? 0) with false. change (255 =? 255) with true.
           assert (E1 : 128 <=? 255 - y0 = false) by (apply N.leb_gt; exact E).
           rewrite E1. reflexivity.
      * apply N.ltb_ge in E. rewrite int_dec_cons.
        -- assert (E1 : 255 - y0 <? 128 = false) by (apply N.ltb_ge; exact E). rewrite E1.
           rewrite <- (comp_cons y0 t0). rewrite comp_involutive by exact Hw0. rewrite Ev. f_equal. lia.
        -- destruct t0 as [|y2 t2]; [reflexivity|]. cbn [comp map int_minimal].
           assert (E1 : 255 - y0 =? 0 = false) by (apply N.eqb_neq; lia).
           assert (E2 : 255 - y0 =? 255 = false) by (apply N.eqb_neq; lia).
           rewrite E1, E2. reflexivity.
Qed.

Lemma int_dec_sound c z : wfb c -> int_dec c = Some z -> c = int_enc z.
Proof.
  intros Hw H. destruct c as [|x t].
  - discriminate.
  - destruct (int_minimal (x :: t)) eqn:Hm; [|unfold int_dec in H; rewrite Hm in H; discriminate].
    rewrite int_dec_cons in H by exact Hm.
    pose proof Hw as Hw0. apply wfb_cons in Hw. destruct Hw as [Hx Ht].
    destruct (x <? 128) eqn:E.
    + assert (Hz : z = Z.of_N (be_val (x :: t))) by congruence. clear H. subst z.
      rewrite int_enc_nonneg by lia. rewrite N2Z.id.
      apply N.ltb_lt in E.
      destruct (N.eq_dec x 0) as [->|Hx0].
      * destruct t as [|y t'].
        -- reflexivity.
        -- cbn [int_minimal] in Hm. change (0 =? 0) with true in Hm. change (0 =? 255) with false in Hm.
           destruct (y <? 128) eqn:Ey; [discriminate|].
           apply wfb_cons in Ht. 
           rewrite be_val_cons, N.mul_0_l, N.add_0_l.
           rewrite be_min_be_val.
           ++ rewrite Ey. reflexivity.
           ++ apply wfb_cons; exact Ht.
           ++ apply hd_nz_cons. apply N.ltb_ge in Ey. lia.
      * rewrite be_min_be_val by (try exact Hw0; apply hd_nz_cons; exact Hx0).
        assert (E1 : x <? 128 = true) by (apply N.ltb_lt; exact E). rewrite E1. reflexivity.
    + assert (Hz : z = (- Z.of_N (be_val (comp (x :: t))) - 1)%Z) by congruence. clear H. subst z.
      apply N.ltb_ge in E.
      rewrite int_enc_neg by lia.
      replace (- (- Z.of_N (be_val (comp (x :: t))) - 1) - 1)%Z with (Z.of_N (be_val (comp (x :: t)))) by lia.
      rewrite N2Z.id.
      destruct (N.eq_dec x 255) as [->|Hx255].
      * destruct t as [|y t'].
        -- reflexivity.
        -- cbn [int_minimal] in Hm. change (255 =? 0) with false in Hm. change (255 =? 255) with true in Hm.
           destruct (128 <=? y) eqn:Ey; [discriminate|]. apply N.leb_gt in Ey.
           rewrite comp_cons. change (255 - 255) with 0.
           rewrite be_val_cons, N.mul_0_l, N.add_0_l.
           rewrite be_min_be_val.
           ++ rewrite comp_involutive by exact Ht.
              assert (E1 : y <? 128 = true) by (apply N.ltb_lt; exact Ey). rewrite E1. reflexivity.
           ++ apply comp_wf.
           ++ rewrite comp_cons. apply hd_nz_cons. lia.
      * rewrite be_min_be_val.
        -- rewrite comp_involutive by exact Hw0.
           assert (E1 : x <? 128 = false) by (apply N.ltb_ge; exact E). rewrite E1. reflexivity.
        -- apply comp_wf.
        -- rewrite comp_cons. apply hd_nz_cons. lia.
Qed.

Lemma int_enc_wf z : wfb (int_enc z).
Proof.
  unfold int_enc. destruct (0 <=? z)%Z.
  - pose proof (be_min_wf (Z.to_N z)) as H. destruct (be_min (Z.to_N z)) as [|x t].
    + apply wfb_cons. split; [lia|apply wfb_nil].
    + destruct (x <? 128); [exact H|]. apply wfb_cons. split; [lia|exact H].
  - pose proof (comp_wf (be_min (Z.to_N (- z - 1)))) as H.
    destruct (comp (be_min (Z.to_N (- z - 1)))) as [|x t].
    + apply wfb_cons. split; [lia|apply wfb_nil].
    + destruct (x <? 128); [|exact H]. apply wfb_cons. split; [lia|exact H].
Qed.

Lemma int_enc_inj a b : int_enc a = int_enc b -> a = b.
Proof.
  intros H. pose proof (int_dec_enc a) as Ha. rewrite H, int_dec_enc in Ha. congruence.
Qed.

(* ------------------------------------------------------------------ *)
(* SEQUENCE { INTEGER r, INTEGER s }                                    *)

Lemma enc_tlv_length tag c : length (enc_tlv tag c) = S (length (enc_len (length c)) + length c).
Proof. unfold enc_tlv. cbn [length]. rewrite app_length. reflexivity. Qed.

Lemma enc_tlv_wf tag c : tag < 256 -> wfb c -> N.of_nat (length c) < LIM -> wfb (enc_tlv tag c).
Proof.
  intros Ht Hc Hl. unfold enc_tlv. apply wfb_cons. split; [exact Ht|].
  apply wfb_app. split; [apply enc_len_wf; exact Hl|exact Hc].
Qed.

Lemma der_body_parts r s :
  (length (int_enc r) <= length (der_body r s))%nat /\ (length (int_enc s) <= length (der_body r s))%nat.
Proof. unfold der_body. rewrite app_length, !enc_tlv_length. lia. Qed.

Lemma der_decode_encode r s : der_fits r s -> der_decode (der_encode r s) = Some (r, s).
Proof.
  unfold der_fits. intros Hf. fold LIM in Hf. pose proof (der_body_parts r s) as [Lr Ls].
  unfold der_decode, der_encode.
  rewrite <- (app_nil_r (enc_tlv SEQ (der_body r s))).
  rewrite read_tlv_enc by exact Hf.
  unfold der_body at 1. rewrite read_tlv_enc by lia.
  rewrite <- (app_nil_r (enc_tlv INT (int_enc s))).
  rewrite read_tlv_enc by lia.
  rewrite !int_dec_enc. reflexivity.
Qed.

Lemma der_decode_sound b r s :
  wfb b -> der_decode b = Some (r, s) -> b = der_encode r s /\ der_fits r s.
Proof.
  intros Hw H. unfold der_decode in H.
  destruct (read_tlv SEQ b) as [[inner rest]|] eqn:E1; [|discriminate].
  destruct rest as [|? ?]; [|discriminate].
  destruct (read_tlv INT inner) as [[rc rest1]|] eqn:E2; [|discriminate].
  destruct (read_tlv INT rest1) as [[sc rest2]|] eqn:E3; [|discriminate].
  destruct rest2 as [|? ?]; [|discriminate].
  destruct (int_dec rc) as [r'|] eqn:E4; [|discriminate].
  destruct (int_dec sc) as [s'|] eqn:E5; [|discriminate].
  assert (r' = r /\ s' = s) as [-> ->] by (split; congruence). clear H.
  pose proof (read_tlv_wf _ _ _ _ Hw E1) as [Hwi _].
  pose proof (read_tlv_wf _ _ _ _ Hwi E2) as [Hwr Hw1].
  pose proof (read_tlv_wf _ _ _ _ Hw1 E3) as [Hws _].
  apply read_tlv_sound in E1; [|exact Hw]. destruct E1 as [-> Hl1].
  apply read_tlv_sound in E2; [|exact Hwi]. destruct E2 as [-> Hl2].
  apply read_tlv_sound in E3; [|exact Hw1]. destruct E3 as [-> Hl3].
  apply int_dec_sound in E4; [|exact Hwr]. apply int_dec_sound in E5; [|exact Hws]. subst rc sc.
  rewrite !app_nil_r in *. split.
  - reflexivity.
  - unfold der_fits. exact Hl1.
Qed.

Lemma der_encode_wf r s : der_fits r s -> wfb (der_encode r s).
Proof.
  unfold der_fits. fold LIM. intros Hf. pose proof (der_body_parts r s) as [Lr Ls].
  unfold der_encode. apply enc_tlv_wf; [unfold SEQ; lia| |exact Hf].
  unfold der_body. apply wfb_app.
  split; (apply enc_tlv_wf; [unfold INT; lia|apply int_enc_wf|lia]).
Qed.

Theorem der_canonical_unique_proof b r s :
  wfb b -> (der_decode b = Some (r, s) <-> b = der_encode r s /\ der_fits r s).
Proof.
  intros Hw. split.
  - apply der_decode_sound; exact Hw.
  - intros [-> Hf]. apply der_decode_encode; exact Hf.
Qed.

(* anything appended to an accepted string is rejected (trailing data outside) *)
Lemma der_trailing_rejected b r s t :
  wfb b -> der_decode b = Some (r, s) -> t <> [] -> der_decode (b ++ t) = None.
Proof.
  intros Hw H Ht. apply der_decode_sound in H; [|exact Hw]. destruct H as [-> Hf].
  unfold der_fits in Hf. fold LIM in Hf.
  unfold der_decode, der_encode. rewrite read_tlv_enc by exact Hf.
  destruct t; [congruence|reflexivity].
Qed.

(* trailing data inside the SEQUENCE *)
Lemma der_trailing_inside_rejected r s t :
  t <> [] -> N.of_nat (length (der_body r s ++ t)) < LIM ->
  der_decode (enc_tlv SEQ (der_body r s ++ t)) = None.
Proof.
  intros Ht Hf. pose proof (der_body_parts r s) as [Lr Ls].
  rewrite app_length in Hf.
  unfold der_decode. rewrite <- (app_nil_r (enc_tlv SEQ _)).
  rewrite read_tlv_enc by (rewrite app_length; exact Hf).
  unfold der_body at 1. rewrite <- app_assoc. rewrite read_tlv_enc by lia.
  rewrite read_tlv_enc by lia.
  destruct t; [congruence|reflexivity].
Qed.

(* non-minimal INTEGER contents *)
Lemma int_lead00_rejected x t : x < 128 -> int_dec (0 :: x :: t) = None.
Proof.
  intros H. unfold int_dec. cbn [int_minimal]. apply N.ltb_lt in H. rewrite H. reflexivity.
Qed.

Lemma int_leadff_rejected x t : 128 <= x -> int_dec (255 :: x :: t) = None.
Proof.
  intros H. unfold int_dec. cbn [int_minimal]. apply N.leb_le in H. rewrite H. reflexivity.
Qed.

Lemma int_empty_rejected : int_dec [] = None.
Proof. reflexivity. Qed.

(* long-form length for a value below 128, leading zero octet, indefinite form *)
Lemma len_long_for_short_rejected k d rest :
  length d = k -> be_val d < 128 -> read_len ((128 + N.of_nat k) :: d ++ rest) = None.
Proof.
  intros Hk Hv. cbn [read_len].
  assert (E1 : 128 + N.of_nat k <? 128 = false) by (apply N.ltb_ge; lia). rewrite E1.
  replace (N.to_nat (128 + N.of_nat k - 128)) with k by lia.
  destruct (Nat.eqb k 0 || Nat.ltb 4 k || Nat.ltb (length (d ++ rest)) k)%bool; [reflexivity|].
  rewrite <- Hk. rewrite firstn_app, Nat.sub_diag, firstn_all, firstn_O, app_nil_r.
  apply N.ltb_lt in Hv. rewrite Hv. destruct d as [|y ?]; [reflexivity|]. destruct y; reflexivity.
Qed.

Lemma len_indefinite_rejected rest : read_len (128 :: rest) = None.
Proof. reflexivity. Qed.

(* ------------------------------------------------------------------ *)
(* parse_sig: the non-negative restriction                              *)

Lemma parse_sig_iff b r s :
  wfb b ->
  (parse_sig b = Some (r, s) <-> b = der_encode_N r s /\ der_fits (Z.of_N r) (Z.of_N s)).
Proof.
  intros Hw. unfold parse_sig, der_encode_N. split.
  - intros H. destruct (der_decode b) as [[r' s']|] eqn:E; [|discriminate].
    destruct ((0 <=? r') && (0 <=? s'))%Z eqn:E2; [|discriminate].
    apply andb_true_iff in E2. destruct E2 as [Hr Hs]. apply Z.leb_le in Hr, Hs.
    assert (r = Z.to_N r' /\ s = Z.to_N s') as [-> ->] by (split; congruence).
    rewrite !Z2N.id by assumption. apply der_decode_sound; assumption.
  - intros [-> Hf]. rewrite der_decode_encode by exact Hf.
    assert (E : ((0 <=? Z.of_N r) && (0 <=? Z.of_N s))%Z = true).
    { apply andb_true_iff. split; apply Z.leb_le; lia. }
    rewrite E, !N2Z.id. reflexivity.
Qed.

Lemma parse_sig_negative_rejected r s :
  (r < 0 \/ s < 0)%Z -> parse_sig (der_encode r s) = None.
Proof.
  intros H. unfold parse_sig.
  destruct (der_decode (der_encode r s)) as [[r' s']|] eqn:E; [|reflexivity].
  assert (Hrs : r' = r /\ s' = s).
  { destruct (N.ltb_spec (N.of_nat (length (der_body r s))) LIM) as [Hf|Hf].
    - rewrite der_decode_encode in E by exact Hf. split; congruence.
    - exfalso. unfold der_decode, der_encode in E.
      destruct (read_tlv SEQ (enc_tlv SEQ (der_body r s))) as [[inner rest]|] eqn:E1; [|discriminate].
      unfold read_tlv, enc_tlv in E1. rewrite N.eqb_refl in E1. cbn [negb] in E1.
      destruct (read_len (enc_len (length (der_body r s)) ++ der_body r s)) as [[n b2]|] eqn:E2; [|discriminate].
      (* the decoder never yields a length >= LIM, but this content is that long *)
      unfold enc_len in E2.
      assert (E3 : N.of_nat (length (der_body r s)) <? 128 = false) by (apply N.ltb_ge; unfold LIM in Hf; lia).
      rewrite E3 in E2. cbn [app read_len] in E2.
      set (d := be_min (N.of_nat (length (der_body r s)))) in *.
      assert (E4 : 128 + N.of_nat (length d) <? 128 = false) by (apply N.ltb_ge; lia).
      rewrite E4 in E2.
      replace (N.to_nat (128 + N.of_nat (length d) - 128)) with (length d) in E2 by lia.
      destruct (Nat.eqb (length d) 0 || Nat.ltb 4 (length d) || Nat.ltb (length (d ++ der_body r s)) (length d))%bool eqn:E5; [discriminate|].
      apply orb_false_iff in E5. destruct E5 as [E5 _]. apply orb_false_iff in E5. destruct E5 as [_ E5].
      apply Nat.ltb_ge in E5.
      pose proof (be_val_bound d (be_min_wf _)) as Hb. unfold d in Hb at 1. rewrite be_val_be_min in Hb.
      assert (256 ^ N.of_nat (length d) <= LIM).
      { change LIM with (256 ^ 4). apply N.pow_le_mono_r; lia. }
      lia. }
  destruct Hrs as [-> ->].
  assert (E2 : ((0 <=? r) && (0 <=? s))%Z = false).
  { apply andb_false_iff. destruct H; [left|right]; apply Z.leb_gt; assumption. }
  rewrite E2. reflexivity.
Qed.

(* ------------------------------------------------------------------ *)
(* size bounds: signatures of field-sized integers always fit           *)

Lemma int_enc_N_length r k : r < 256 ^ N.of_nat k -> (length (int_enc (Z.of_N r)) <= S k)%nat.
Proof.
  intros H. rewrite int_enc_nonneg by lia. rewrite N2Z.id.
  pose proof (be_min_length_bound r k H) as L.
  destruct (be_min r) as [|x t]; [cbn; lia|].
  destruct (x <? 128); cbn [length] in *; lia.
Qed.

Lemma enc_tlv_length_short tag c : (length c < 128)%nat -> length (enc_tlv tag c) = (2 + length c)%nat.
Proof.
  intros H. rewrite enc_tlv_length. unfold enc_len.
  assert (E : N.of_nat (length c) <? 128 = true) by (apply N.ltb_lt; lia).
  rewrite E. reflexivity.
Qed.

Lemma der_fits_small r s k :
  (k <= 120)%nat -> r < 256 ^ N.of_nat k -> s < 256 ^ N.of_nat k -> der_fits (Z.of_N r) (Z.of_N s).
Proof.
  intros Hk Hr Hs. unfold der_fits, der_body.
  pose proof (int_enc_N_length r k Hr). pose proof (int_enc_N_length s k Hs).
  rewrite app_length, !enc_tlv_length_short by lia. lia.
Qed.

(* ------------------------------------------------------------------ *)
(* ASN1Decode as coded: any parser that is right on canonical inputs,   *)
(* followed by the re-encode comparison, accepts exactly the encodings   *)

Lemma asn1_decode_impl_spec (u : bytes -> option (Z * Z)) :
  (forall r s, u (der_encode r s) = Some (r, s)) ->
  forall b r s, asn1_decode_impl u b = Some (r, s) <-> b = der_encode r s.
Proof.
  intros Hu b r s. unfold asn1_decode_impl. split.
  - destruct (u b) as [[r' s']|]; [|discriminate].
    destruct (beq b (der_encode r' s')) eqn:E; [|discriminate].
    apply beq_eq in E. intros H. injection H as <- <-. exact E.
  - intros ->. rewrite Hu, beq_refl. reflexivity.
Qed.

Lemma asn1_decode_impl_is_der_decode (u : bytes -> option (Z * Z)) :
  (forall r s, u (der_encode r s) = Some (r, s)) ->
  forall b, wfb b -> N.of_nat (length b) < LIM -> asn1_decode_impl u b = der_decode b.
Proof.
  intros Hu b Hw Hl.
  destruct (der_decode b) as [[r s]|] eqn:E.
  - apply der_decode_sound in E; [|exact Hw]. destruct E as [-> _].
    apply asn1_decode_impl_spec; auto.
  - destruct (asn1_decode_impl u b) as [[r s]|] eqn:E2; [|reflexivity].
    apply asn1_decode_impl_spec in E2; [|exact Hu]. subst b.
    rewrite der_decode_encode in E; [discriminate|].
    unfold der_fits. fold LIM. unfold der_encode in Hl. rewrite enc_tlv_length in Hl. lia.
Qed.
