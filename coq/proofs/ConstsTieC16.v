(* Ties between the SLH-DSA parameter tables REGENERATED from the Go source
   (gen/SlhdsaParams.v: param128s ... param256f and the twelve named sets =
   table x hash family, read from the composite literals and newParams calls of
   internal/signature/slhdsa/slhdsa.go) and Table 2 of FIPS 205 written as
   literals in model/SlhdsaFips.v (n, h, d, h', a, k, lg_w, m, public-key bytes,
   signature bytes, and the section-11 instantiation).  A source edit that
   changes a parameter of a set, or pairs a table with another hash family,
   changes the regenerated file and one of these lemmas stops checking. *)
From Coq Require Import List NArith Bool Arith.
From Tink Require Import Bytes SlhdsaBase SlhdsaHash SlhdsaParams Slhdsa SlhdsaFipsSupport SlhdsaFipsLayers SlhdsaFipsHash.
From Tink Require SlhdsaFips.
Import ListNotations.

(* what the implementation has for a set: the section-11 family, the eight
   Table 2 columns, the encoded public key length and the signature length it
   checks in verifyInternal *)
Definition row_of (s : params * hashkind) : F.fips_family * F.fips_params * N * N :=
  (family_of (snd s), to_fips (fst s), N.of_nat (2 * p_n (fst s)), N.of_nat (sig_len (fst s))).

Lemma tie_SLH_DSA_SHA2_128s : row_of SLH_DSA_SHA2_128s = nth 0 F.table2 (row_of SLH_DSA_SHA2_128s). Proof. vm_compute. reflexivity. Qed.
Lemma tie_SLH_DSA_SHAKE_128s : row_of SLH_DSA_SHAKE_128s = nth 1 F.table2 (row_of SLH_DSA_SHA2_128s). Proof. vm_compute. reflexivity. Qed.
Lemma tie_SLH_DSA_SHA2_128f : row_of SLH_DSA_SHA2_128f = nth 2 F.table2 (row_of SLH_DSA_SHA2_128s). Proof. vm_compute. reflexivity. Qed.
Lemma tie_SLH_DSA_SHAKE_128f : row_of SLH_DSA_SHAKE_128f = nth 3 F.table2 (row_of SLH_DSA_SHA2_128s). Proof. vm_compute. reflexivity. Qed.
Lemma tie_SLH_DSA_SHA2_192s : row_of SLH_DSA_SHA2_192s = nth 4 F.table2 (row_of SLH_DSA_SHA2_128s). Proof. vm_compute. reflexivity. Qed.
Lemma tie_SLH_DSA_SHAKE_192s : row_of SLH_DSA_SHAKE_192s = nth 5 F.table2 (row_of SLH_DSA_SHA2_128s). Proof. vm_compute. reflexivity. Qed.
Lemma tie_SLH_DSA_SHA2_192f : row_of SLH_DSA_SHA2_192f = nth 6 F.table2 (row_of SLH_DSA_SHA2_128s). Proof. vm_compute. reflexivity. Qed.
Lemma tie_SLH_DSA_SHAKE_192f : row_of SLH_DSA_SHAKE_192f = nth 7 F.table2 (row_of SLH_DSA_SHA2_128s). Proof. vm_compute. reflexivity. Qed.
Lemma tie_SLH_DSA_SHA2_256s : row_of SLH_DSA_SHA2_256s = nth 8 F.table2 (row_of SLH_DSA_SHA2_128s). Proof. vm_compute. reflexivity. Qed.
Lemma tie_SLH_DSA_SHAKE_256s : row_of SLH_DSA_SHAKE_256s = nth 9 F.table2 (row_of SLH_DSA_SHA2_128s). Proof. vm_compute. reflexivity. Qed.
Lemma tie_SLH_DSA_SHA2_256f : row_of SLH_DSA_SHA2_256f = nth 10 F.table2 (row_of SLH_DSA_SHA2_128s). Proof. vm_compute. reflexivity. Qed.
Lemma tie_SLH_DSA_SHAKE_256f : row_of SLH_DSA_SHAKE_256f = nth 11 F.table2 (row_of SLH_DSA_SHA2_128s). Proof. vm_compute. reflexivity. Qed.

(* the list of all sets, in the order of Table 2 *)
Lemma tie_all_sets : map row_of all_sets = F.table2.
Proof. vm_compute. reflexivity. Qed.

(* Table 2 is consistent with the standard's own formulas (model/SlhdsaFips.v):
   public key 2n bytes, signature (1 + k(1+a) + h + d*len)*n bytes with len from
   equations 5.1-5.4, m = ceil(k*a/8) + ceil((h-h/d)/8) + ceil(h/(8d)), h = d*h',
   w = 16, len = 2n + 3; SHA2 category 1 exactly for n = 16 *)
Definition row_consistent (r : F.fips_family * F.fips_params * N * N) : bool :=
  let '(fam, fp, pkb, sigb) := r in
  N.eqb (N.of_nat (2 * F.f_n fp)) pkb && N.eqb (N.of_nat (F.f_sig_bytes fp)) sigb
  && Nat.eqb (F.f_m fp) (F.ceil_div (F.f_k fp * F.f_a fp) 8 + F.ceil_div (F.f_h fp - F.f_h fp / F.f_d fp) 8
                         + F.ceil_div (F.f_h fp) (8 * F.f_d fp))
  && Nat.eqb (F.f_h fp) (F.f_d fp * F.f_hp fp) && Nat.eqb (F.f_w fp) 16 && Nat.eqb (F.f_len fp) (2 * F.f_n fp + 3)
  && match fam with F.FShake => true | F.FSha2Cat1 => Nat.eqb (F.f_n fp) 16 | F.FSha2Cat35 => negb (Nat.eqb (F.f_n fp) 16) end.

Lemma table2_consistent : forallb row_consistent F.table2 = true.
Proof. vm_compute. reflexivity. Qed.

(* all twelve regenerated sets satisfy what the FIPS-equalities need *)
Lemma all_sets_fips_wf : forallb (fun s => fips_wf (fst s)) all_sets = true.
Proof. vm_compute. reflexivity. Qed.

Lemma in_all_sets_fips_wf s : In s all_sets -> fips_wf (fst s) = true.
Proof. intros H. pose proof all_sets_fips_wf as A. rewrite forallb_forall in A. exact (A s H). Qed.

(* derived lengths of the implementation per set = Table 2 *)
Lemma tie_lengths : forall s, In s all_sets ->
  exists fam fp pkb sigb, In (fam, fp, pkb, sigb) F.table2 /\ to_fips (fst s) = fp /\ family_of (snd s) = fam /\
    N.of_nat (2 * p_n (fst s)) = pkb /\ N.of_nat (4 * p_n (fst s)) = (2 * pkb)%N /\ N.of_nat (sig_len (fst s)) = sigb.
Proof.
  intros s Hs. exists (family_of (snd s)), (to_fips (fst s)), (N.of_nat (2 * p_n (fst s))), (N.of_nat (sig_len (fst s))).
  split; [|repeat split].
  - rewrite <- tie_all_sets. change (In (row_of s) (map row_of all_sets)). apply in_map. exact Hs.
  - rewrite !Nat2N.inj_mul. change (N.of_nat 4) with 4%N. change (N.of_nat 2) with 2%N.
    rewrite N.mul_assoc. reflexivity.
Qed.

Lemma slhdsa_all_translated : slhdsa_untranslatable = nil.
Proof. reflexivity. Qed.
