(* crypto/hmac as coded (model/HmacCode.v) = RFC 2104 (model/Hmac.v), for every
   key length, every use of the object (Write in pieces, Sum, Reset, with and
   without the marshaled-state optimisation), every hash given as a streaming
   interface whose only law is "Sum = H of the concatenation of what was
   written since Reset".  Tink's wrapper: truncation and the constant-time
   comparison. *)
From Coq Require Import List NArith Bool Arith Lia.
From Tink Require Import Bytes Hmac HmacCode.
Import ListNotations.
Open Scope N_scope.

(* ---- the pads: copy + xor loop = (K ++ zeros) xor repeat c B ---- *)
Lemma xor_const_zeros c n : xor_const c (zeros n) = xorb (zeros n) (repeat c n).
Proof. induction n as [|n IH]; [reflexivity|]. cbn. f_equal. exact IH. Qed.

Lemma xor_const_copy c : forall k Bn,
  xor_const c (copy_into (zeros Bn) k) = xorb (k ++ zeros (Bn - length k)) (repeat c Bn).
Proof.
  unfold copy_into. induction k as [|x k IH]; intros Bn.
  - rewrite zeros_length, firstn_nil. cbn [length skipn app]. rewrite Nat.sub_0_r.
    apply xor_const_zeros.
  - rewrite zeros_length. destruct Bn as [|Bn].
    + cbn. rewrite ?xorb_nil_r. reflexivity.
    + cbn [firstn length skipn zeros repeat app Nat.sub]. cbn [xor_const map xorb]. f_equal.
      specialize (IH Bn). rewrite zeros_length in IH. exact IH.
Qed.

(* ---- constant-time comparison ---- *)
Lemma lor_lt_256 x y : x < 256 -> y < 256 -> N.lor x y < 256.
Proof.
  intros Hx Hy. destruct (N.eq_dec (N.lor x y) 0) as [E|E]; [rewrite E; lia|].
  apply N.log2_lt_pow2 with (b := 8); [lia|].
  rewrite N.log2_lor.
  apply N.max_lub_lt.
  - destruct (N.eq_dec x 0) as [->|]; [simpl; lia|]. apply N.log2_lt_pow2; lia.
  - destruct (N.eq_dec y 0) as [->|]; [simpl; lia|]. apply N.log2_lt_pow2; lia.
Qed.

Lemma ct_acc_bound : forall x y v, v < 256 -> wfb x -> wfb y -> ct_acc v x y < 256.
Proof.
  induction x as [|a x IH]; intros y v Hv Hx Hy; [exact Hv|].
  destruct y as [|b y]; [exact Hv|]. cbn [ct_acc].
  inversion Hx; inversion Hy; subst. apply IH; auto.
  apply lor_lt_256; [exact Hv|]. apply lxor_lt_256; assumption.
Qed.

Lemma ct_acc_zero : forall x y v, length x = length y ->
  (ct_acc v x y = 0 <-> v = 0 /\ x = y).
Proof.
  induction x as [|a x IH]; intros y v Hl; destruct y as [|b y]; try discriminate.
  - cbn. tauto.
  - cbn [ct_acc]. rewrite IH by (cbn in Hl; lia). rewrite N.lor_eq_0_iff, N.lxor_eq_0_iff.
    split.
    + intros [[Hv Hab] Hxy]. subst. auto.
    + intros [Hv E]. inversion E; subst. auto.
Qed.

Lemma ct_byte_eq_zero v : v < 256 -> (ct_byte_eq v 0 = 1 <-> v = 0).
Proof.
  intros Hv. unfold ct_byte_eq. rewrite N.lxor_0_r. split.
  - intros E. destruct (N.eq_dec v 0) as [|Hne]; [assumption|exfalso].
    replace (v + 4294967296 - 1) with ((v - 1) + 1 * 4294967296) in E by lia.
    rewrite N.mod_add in E by lia. rewrite N.mod_small in E by lia.
    rewrite N.div_small in E by lia. discriminate.
  - intros ->. reflexivity.
Qed.

(* hmac.Equal: equal length and equal contents *)
Theorem ct_compare_beq x y : wfb x -> wfb y -> N.eqb (ct_compare x y) 1 = beq x y.
Proof.
  intros Hx Hy. unfold ct_compare.
  destruct (Nat.eqb_spec (length x) (length y)) as [Hl|Hl]; cbn [negb].
  - destruct (beq x y) eqn:Eb.
    + apply beq_eq in Eb. subst y. apply N.eqb_eq. apply ct_byte_eq_zero.
      * apply ct_acc_bound; [lia|assumption|assumption].
      * apply ct_acc_zero; auto.
    + apply N.eqb_neq. intros E. apply ct_byte_eq_zero in E.
      * apply ct_acc_zero in E; [|exact Hl]. destruct E as [_ E]. subst y.
        rewrite beq_refl in Eb. discriminate.
      * apply ct_acc_bound; [lia|assumption|assumption].
  - destruct (beq x y) eqn:Eb; [|reflexivity].
    apply beq_eq in Eb. subst y. contradiction.
Qed.

Section P.
  Variable S : Type.
  Variable h_init : S.
  Variable h_write : S -> bytes -> S.
  Variable h_sum : S -> bytes.
  Variable B : nat.
  Variable marshalable : bool.
  (* the function the streaming hash computes *)
  Variable H : bytes -> bytes.
  (* the only law of hash.Hash that is used *)
  Hypothesis stream_law :
    forall chunks, h_sum (fold_left h_write chunks h_init) = H (concat chunks).

  Definition kipad (key : bytes) := xorb (hmac_key H B key) (ipad B).
  Definition kopad (key : bytes) := xorb (hmac_key H B key) (opad B).
  Arguments kipad : simpl never.
  Arguments kopad : simpl never.

  Notation hm_new := (hm_new S h_init h_write h_sum B).
  Notation hm_write := (hm_write S h_write).
  Notation hm_sum := (hm_sum S h_init h_write h_sum).
  Notation hm_reset := (hm_reset S h_init h_write marshalable).
  Notation hm_run := (hm_run S h_init h_write h_sum marshalable).

  Lemma stream1 m : h_sum (h_write h_init m) = H m.
  Proof. rewrite <- (app_nil_r m) at 2. exact (stream_law [m]). Qed.

  Lemma new_pads key :
    hs_ipad S (hm_new key) = kipad key /\ hs_opad S (hm_new key) = kopad key.
  Proof.
    unfold kipad, kopad, hm_new, hmac_key, ipad, opad. cbn [hs_ipad hs_opad].
    destruct (Nat.ltb B (length key)); cbn [snd]; rewrite ?stream1, !xor_const_copy; split; reflexivity.
  Qed.

  (* the object is an HMAC object for `key` that has absorbed `data` since New / Reset *)
  Definition hm_inv (key : bytes) (h : hmac_st S) (data : bytes) : Prop :=
    (exists chunks, hs_inner S h = fold_left h_write chunks h_init /\ concat chunks = kipad key ++ data) /\
    hs_ipad S h = kipad key /\ hs_opad S h = kopad key /\
    (hs_marshaled S h = true ->
       hs_isaved S h = h_write h_init (kipad key) /\ hs_osaved S h = h_write h_init (kopad key)).

  Lemma inv_new key : hm_inv key (hm_new key) [].
  Proof.
    destruct (new_pads key) as [Hi Ho]. split; [|split; [exact Hi|split; [exact Ho|]]].
    - exists [kipad key]. split.
      + unfold hm_new in *. cbn [hs_inner hs_ipad] in *. rewrite Hi. reflexivity.
      + cbn. rewrite !app_nil_r. reflexivity.
    - unfold hm_new. cbn [hs_marshaled]. discriminate.
  Qed.

  Lemma inv_write key h data p : hm_inv key h data -> hm_inv key (hm_write h p) (data ++ p).
  Proof.
    intros [[chunks [Hc Hcat]] [Hi [Ho Hm]]]. split; [|split; [exact Hi|split; [exact Ho|exact Hm]]].
    exists (chunks ++ [p]). cbn [hs_inner HmacCode.hm_write]. split.
    - rewrite fold_left_app. cbn. rewrite Hc. reflexivity.
    - rewrite concat_app. cbn. rewrite Hcat, app_nil_r, app_assoc. reflexivity.
  Qed.

  Lemma inv_reset key h data : hm_inv key h data -> hm_inv key (hm_reset h) [].
  Proof.
    intros [[chunks [Hc Hcat]] [Hi [Ho Hm]]]. unfold HmacCode.hm_reset.
    destruct (hs_marshaled S h) eqn:Em.
    - destruct (Hm eq_refl) as [Hsi Hso].
      split; [|split; [exact Hi|split; [exact Ho|]]]; cbn.
      + exists [kipad key]. rewrite Hsi. split; [reflexivity|]. cbn. rewrite !app_nil_r. reflexivity.
      + intros _. auto.
    - destruct marshalable.
      + split; [|split; [exact Hi|split; [exact Ho|]]]; cbn.
        * exists [kipad key]. rewrite Hi. split; [reflexivity|]. cbn. rewrite !app_nil_r. reflexivity.
        * intros _. rewrite Hi, Ho. auto.
      + split; [|split; [exact Hi|split; [exact Ho|]]]; cbn.
        * exists [kipad key]. rewrite Hi. split; [reflexivity|]. cbn. rewrite !app_nil_r. reflexivity.
        * try rewrite Em; discriminate.
  Qed.

  (* Sum(in) appends RFC 2104 HMAC(key, data) to in and leaves the object usable *)
  Lemma inv_sum key h data inp :
    hm_inv key h data ->
    snd (hm_sum h inp) = inp ++ hmac H B key data /\ hm_inv key (fst (hm_sum h inp)) data.
  Proof.
    intros [[chunks [Hc Hcat]] [Hi [Ho Hm]]]. unfold HmacCode.hm_sum. cbn [fst snd].
    rewrite skipn_app, skipn_all, Nat.sub_diag, firstn_app, firstn_all, Nat.sub_diag.
    cbn [skipn firstn app]. rewrite app_nil_r.
    assert (Hinner : h_sum (hs_inner S h) = H (kipad key ++ data)).
    { rewrite Hc, stream_law, Hcat. reflexivity. }
    assert (Houter : (if hs_marshaled S h then hs_osaved S h else h_write h_init (hs_opad S h))
                     = fold_left h_write [kopad key] h_init).
    { destruct (hs_marshaled S h); [destruct (Hm eq_refl) as [_ ->]|rewrite Ho]; reflexivity. }
    rewrite Houter, Hinner. split.
    - f_equal. change (h_write (fold_left h_write [kopad key] h_init) (H (kipad key ++ data)))
        with (fold_left h_write [kopad key; H (kipad key ++ data)] h_init).
      rewrite stream_law. cbn [concat]. rewrite app_nil_r. reflexivity.
    - split; [|split; [exact Hi|split; [exact Ho|exact Hm]]]. exists chunks. auto.
  Qed.

  (* what a client observes of one HMAC object: the data absorbed since New / the last Reset *)
  Fixpoint spec_run (key data : bytes) (ops : list (hm_op)) : list bytes :=
    match ops with
    | [] => []
    | HWrite p :: t => spec_run key (data ++ p) t
    | HSum inp :: t => (inp ++ hmac H B key data) :: spec_run key data t
    | HReset :: t => spec_run key [] t
    end.

  Theorem hm_run_spec key : forall ops h data,
    hm_inv key h data -> snd (hm_run h ops) = spec_run key data ops.
  Proof.
    induction ops as [|o ops IH]; intros h data Hinv; [reflexivity|].
    destruct o as [p|inp|]; cbn [HmacCode.hm_run spec_run].
    - apply IH. apply inv_write. exact Hinv.
    - destruct (inv_sum key h data inp Hinv) as [Hs Hi].
      destruct (hm_sum h inp) as [h1 o] eqn:E1. cbn [fst snd] in Hs, Hi.
      specialize (IH h1 data Hi).
      destruct (hm_run h1 ops) as [h2 os]. cbn [snd] in *. rewrite Hs, IH. reflexivity.
    - apply IH. eapply inv_reset. exact Hinv.
  Qed.

  (* every Sum of every use of hmac.New(h, key) returns RFC 2104 HMAC of the
     bytes written since New or the last Reset *)
  Corollary hmac_object_is_rfc2104 key ops :
    snd (hm_run (hm_new key) ops) = spec_run key [] ops.
  Proof. apply hm_run_spec. apply inv_new. Qed.

  Lemma fold_write_inv key : forall data h d0,
    hm_inv key h d0 -> hm_inv key (fold_left hm_write data h) (d0 ++ concat data).
  Proof.
    induction data as [|p data IH]; intros h d0 Hinv; cbn [fold_left concat].
    - rewrite app_nil_r. exact Hinv.
    - rewrite app_assoc. apply IH. apply inv_write. exact Hinv.
  Qed.

  (* one-shot use = RFC 2104, whatever the split of the message into Write calls *)
  Theorem hmac_code_is_rfc2104 key data :
    hmac_code S h_init h_write h_sum B key data = hmac H B key (concat data).
  Proof.
    unfold hmac_code.
    pose proof (fold_write_inv key data (hm_new key) [] (inv_new key)) as Hinv.
    destruct (inv_sum key _ _ [] Hinv) as [Hs _]. rewrite Hs. reflexivity.
  Qed.

  (* Tink's wrapper: ComputeMAC = first tagSize bytes; VerifyMAC = equal length and contents *)
  Theorem tink_hmac_compute_spec key tagsize data :
    tink_hmac_compute S h_init h_write h_sum B key tagsize data
    = firstn tagsize (hmac H B key (concat data)).
  Proof. unfold tink_hmac_compute. rewrite hmac_code_is_rfc2104. reflexivity. Qed.

  Theorem tink_hmac_verify_spec key tagsize mac data :
    (forall x, wfb (H x)) -> wfb mac ->
    tink_hmac_verify S h_init h_write h_sum B key tagsize mac data
    = beq (firstn tagsize (hmac H B key (concat data))) mac.
  Proof.
    intros Hwf Hmac. unfold tink_hmac_verify. rewrite tink_hmac_compute_spec.
    apply ct_compare_beq; [|exact Hmac]. apply wfb_firstn. unfold hmac. apply Hwf.
  Qed.
End P.

(* the accumulating instance satisfies the law, for any H *)
Lemma fold_acc_write chunks : forall s, fold_left acc_write chunks s = s ++ concat chunks.
Proof.
  induction chunks as [|c chunks IH]; intros s; cbn [fold_left concat].
  - symmetry. apply app_nil_r.
  - rewrite IH. unfold acc_write. rewrite app_assoc. reflexivity.
Qed.

Lemma acc_stream_law (H : bytes -> bytes) :
  forall chunks, H (fold_left acc_write chunks acc_init) = H (concat chunks).
Proof. intros chunks. rewrite fold_acc_write. reflexivity. Qed.
