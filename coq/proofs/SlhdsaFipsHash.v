(* The three instantiations of hash.go (model/SlhdsaHash.v: mk_hashes) agree
   pointwise with FIPS 205 sections 11.1, 11.2.1, 11.2.2 as transcribed in
   model/SlhdsaFips.v (functions over the 32-byte ADRS, the 22-byte compressed
   ADRS^c, Trunc_n, toByte(0, 64-n) padding, MGF1 of RFC 8017 B.2.1), given
   the digest lengths of SHA-256 and SHA-512.  Hence (SlhdsaFipsTop) the
   implementation model with hash.go's functions computes the FIPS 205
   algorithms instantiated as the standard prescribes, for all twelve sets. *)
From Coq Require Import List NArith Bool Arith Lia ZifyN ZifyNat ZifyBool.
From Tink Require Import Bytes SlhdsaSupport SlhdsaAddr SlhdsaBase SlhdsaHash SlhdsaListProofs SlhdsaSupportProofs
  SlhdsaFipsSupport SlhdsaFipsLayers.
From Tink Require SlhdsaFips.
Import ListNotations.
Open Scope nat_scope.

Definition family_of (hk : hashkind) : F.fips_family :=
  match hk with HShake => F.FShake | HSha2C1 => F.FSha2Cat1 | HSha2C35 => F.FSha2Cat35 end.

Lemma toByte_zero k : F.toByte 0 k = zeros k.
Proof.
  rewrite toByte_be. unfold be_bytes, zeros.
  assert (E : le_bytes k 0 = repeat 0%N k).
  { induction k as [|k IH]; [reflexivity|]. cbn [le_bytes repeat]. rewrite N.mod_0_l, N.div_0_l by discriminate. rewrite IH. reflexivity. }
  rewrite E. clear E. induction k as [|k IH]; [reflexivity|].
  cbn [repeat rev]. rewrite IH. symmetry. apply repeat_cons.
Qed.

Lemma Trunc_firstn l x : F.Trunc l x = firstn l x.
Proof. unfold F.Trunc. apply sl_0. Qed.

Section MGF1.
  Variable hash : bytes -> bytes.
  Variable hLen : nat.
  Hypothesis hLen_pos : 1 <= hLen.
  Hypothesis hash_len : forall m, length (hash m) = hLen.

  Lemma lt_ceil j maskLen : j * hLen < maskLen <-> j < (maskLen + hLen - 1) / hLen.
  Proof.
    split; intros H.
    - apply Nat.div_le_lower_bound; [lia|]. nia.
    - pose proof (Nat.mul_div_le (maskLen + hLen - 1) hLen ltac:(lia)) as L.
      set (c := (maskLen + hLen - 1) / hLen) in *. nia.
  Qed.

  Lemma mgf1_loop_spec seed maskLen : forall fuel j digest,
    length digest = j * hLen -> (maskLen + hLen - 1) / hLen - j <= fuel ->
    mgf1_loop fuel hash seed maskLen (N.of_nat j) digest
    = digest ++ flat_map (fun c => hash (seed ++ be_bytes 4 (N.of_nat c))) (seq j ((maskLen + hLen - 1) / hLen - j)).
  Proof.
    induction fuel as [|fuel IH]; intros j digest Hd Hf.
    - replace ((maskLen + hLen - 1) / hLen - j) with 0 by lia. simpl. rewrite app_nil_r. reflexivity.
    - cbn [mgf1_loop]. rewrite Hd.
      destruct (Nat.ltb_spec (j * hLen) maskLen) as [L|L].
      + apply lt_ceil in L.
        replace (N.of_nat j + 1)%N with (N.of_nat (S j)) by lia.
        rewrite IH by (try rewrite app_length, hash_len; lia).
        replace ((maskLen + hLen - 1) / hLen - j) with (S ((maskLen + hLen - 1) / hLen - S j)) by lia.
        cbn [seq flat_map]. rewrite <- app_assoc. reflexivity.
      + assert (~ j < (maskLen + hLen - 1) / hLen) by (intros C; apply lt_ceil in C; lia).
        replace ((maskLen + hLen - 1) / hLen - j) with 0 by lia. simpl. rewrite app_nil_r. reflexivity.
  Qed.

  Lemma mgf1_fips seed maskLen : mgf1 hash seed maskLen = F.MGF1 hash hLen seed maskLen.
  Proof.
    unfold mgf1, F.MGF1. rewrite sl_0, ceil_div_eq by exact hLen_pos. f_equal.
    change 0%N with (N.of_nat 0). rewrite (mgf1_loop_spec seed maskLen maskLen 0 [] eq_refl).
    2:{ rewrite Nat.sub_0_r. destruct maskLen as [|ml]; [rewrite Nat.div_small by lia; lia|].
        apply Nat.div_le_upper_bound; [lia|]. nia. }
    rewrite Nat.sub_0_r. cbn [app].
    rewrite (for_app_flat_map (fun c => hash (seed ++ F.toByte (N.of_nat c) 4))). cbn [app].
    apply flat_map_seq_ext. intros c _. rewrite toByte_be. reflexivity.
  Qed.
End MGF1.

Section INST.
  Variable sha256 sha512 : bytes -> bytes.
  Variable shake256 : bytes -> nat -> bytes.
  Variable hmac256 hmac512 : bytes -> bytes -> bytes.
  Hypothesis sha256_len : forall m, length (sha256 m) = 32.
  Hypothesis sha512_len : forall m, length (sha512 m) = 64.

  Definition fips_inst (fam : F.fips_family) (n m : nat) : F.fips_hashes :=
    match fam with
    | F.FShake => F.shake_hashes shake256 n m
    | F.FSha2Cat1 => F.sha2_cat1_hashes sha256 hmac256 n m
    | F.FSha2Cat35 => F.sha2_cat35_hashes sha256 sha512 hmac512 n m
    end.

  Theorem mk_hashes_fips : forall hk P,
    hashes_agree (mk_hashes sha256 sha512 shake256 hmac256 hmac512 hk P) (fips_inst (family_of hk) (p_n P) (p_m P)).
  Proof.
    intros hk P. destruct hk; constructor; intros; cbn [mk_hashes fips_inst family_of F.shake_hashes F.sha2_cat1_hashes
      F.sha2_cat35_hashes hHMsg hPrf hPrfMsg hF hH hTl F.H_msg F.PRF F.PRF_msg F.F F.H F.T_l];
      unfold shakeHMsg, shakePrf, shakePrfMsg, shakeF, sha2C1HMsg, sha2C1Prf, sha2C1PrfMsg, sha2C1F,
             sha2C35HMsg, sha2C35PrfMsg, sha2C35H;
      rewrite ?Trunc_firstn, ?toByte_zero, ?AB_compress;
      try reflexivity.
    - apply (mgf1_fips sha256 32); [lia|exact sha256_len].
    - apply (mgf1_fips sha512 64); [lia|exact sha512_len].
  Qed.
End INST.
