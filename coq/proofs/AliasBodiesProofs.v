(* Obligations about the REGENERATED table gen/AliasBodies.v: the slice-relevant behaviour of
   the body of every function of the library that takes, keeps or returns byte memory (as far as
   the translator's subset reaches; the others are listed in c19_body_untranslated), as a program of
   model/HeapProg.v.  Checked by computation on the table, for every entry:
     - the body passes the ownership analysis from its initial flags (write flags / keep flags);
     - no object register is copied into another register that is used as an object (obj_wf; the may-alias
       classes themselves - which variables share a register - are computed by the translator, outside Coq);
     - every call record names an entry of the table, and flags are set on parameter registers only;
     - CALL SITES: every call record SCall c args eff meets the contract of entry c of this same table:
       each caller register handed to a parameter that c may write through is written through in eff,
       each one handed to a parameter that c may keep escapes in eff (a SYNTACTIC check of the recorded effect:
       the instruction must occur on a path not cut off by a return or jump; there is no induction over the call
       graph in Coq).  This replaces trust in the translator's write/keep summaries by an obligation over the
       table; what a RESULT may alias, and which argument a callee stores into which, is still the translator's;
     - an API function (exported, non-internal package) that is not in the exception list starts
       with NO writable and NO keepable parameter;
     - WHITELIST: no entry may write through a parameter whose type is in c19_immutable_types;
     - the counts add up (considered = translated + untranslated).
   Consequence (HeapProgProofs.disciplined_body_frames_the_caller): the frame theorem holds for
   every execution of every entry of the table. *)
From Coq Require Import List String Bool Arith.
From Tink Require Import Heap HeapProofs HeapProg HeapProgProofs AliasBodies.
Import ListNotations.

(* the contract of entry c: the write flags and keep flags of its parameter registers *)
Definition contract_of (c : nat) : list bool * list bool :=
  match nth_error c19_bodies c with
  | Some e => (firstn (fb_np e) (fb_wflags e), firstn (fb_np e) (fb_kflags e))
  | None => ([], [])
  end.

Definition body_ok (e : fn_body) : bool :=
  Nat.eqb (List.length (fb_wflags e)) (fb_nregs e) && Nat.eqb (List.length (fb_kflags e)) (fb_nregs e) &&
  Nat.leb (fb_np e) (fb_nregs e) &&
  forallb negb (skipn (fb_np e) (fb_wflags e)) && forallb negb (skipn (fb_np e) (fb_kflags e)) &&
  body_disciplined (fb_wflags e) (fb_kflags e) (fb_prog e) &&
  obj_wf (fb_objs e) (fb_prog e) &&
  forallb (fun r => mem r (fb_objs e)) (fb_classes e) && classes_made_once (fb_classes e) (fb_prog e) &&
  calls_lt (List.length c19_bodies) (fb_prog e) &&
  calls_ok contract_of (fb_prog e).

Theorem every_body_ok : forallb body_ok c19_bodies = true.
Proof. vm_compute. reflexivity. Qed.

Definition excepted (e : fn_body) : bool :=
  existsb (fun x => let '(p, f, _) := x in String.eqb p (fb_pkg e) && String.eqb f (fb_fn e)) c19_body_exceptions.

(* THE EXCEPTION LIST IS PINNED: the (package, function) column of the regenerated list must be exactly this one
   (18 entries, 12 functions).  Adding, removing or renaming an exception in the translator breaks this obligation
   and has to be acknowledged here. *)
Open Scope string_scope.
Theorem exception_list_is_pinned :
  map (fun x => (fst (fst x), snd (fst x))) c19_body_exceptions =
    [("keyset", "(*MemReaderWriter).Read");
     ("keyset", "(*MemReaderWriter).ReadEncrypted");
     ("keyset", "(*MemReaderWriter).Write");
     ("keyset", "(*MemReaderWriter).WriteEncrypted");
     ("streamingaead", "(*unreader).Read");
     ("streamingaead", "(*unreader).Read");
     ("streamingaead/subtle", "(aesCTRHMACSegmentDecrypter).DecryptSegmentWithDst");
     ("streamingaead/subtle", "(aesCTRHMACSegmentDecrypter).DecryptSegmentWithDst");
     ("streamingaead/subtle", "(aesCTRHMACSegmentEncrypter).EncryptSegmentWithDst");
     ("streamingaead/subtle", "(aesCTRHMACSegmentEncrypter).EncryptSegmentWithDst");
     ("streamingaead/subtle", "(aesGCMHKDFSegmentDecrypter).DecryptSegmentWithDst");
     ("streamingaead/subtle", "(aesGCMHKDFSegmentDecrypter).DecryptSegmentWithDst");
     ("streamingaead/subtle", "(aesGCMHKDFSegmentEncrypter).EncryptSegmentWithDst");
     ("streamingaead/subtle", "(aesGCMHKDFSegmentEncrypter).EncryptSegmentWithDst");
     ("streamingaead/subtle/noncebased", "(*Reader).Read");
     ("streamingaead/subtle/noncebased", "(*Reader).Read");
     ("streamingaead/subtle/noncebased", "(*Writer).Close");
     ("streamingaead/subtle/noncebased", "(*Writer).Write")].
Proof. reflexivity. Qed.
Close Scope string_scope.

(* an API function outside the exception list may write through / keep none of its parameters *)
Definition api_flags_ok (e : fn_body) : bool :=
  if fb_api e && negb (excepted e) then forallb negb (fb_wflags e) && forallb negb (fb_kflags e) else true.

Theorem api_bodies_own_nothing : forallb api_flags_ok c19_bodies = true.
Proof. vm_compute. reflexivity. Qed.

(* the whitelist of immutable object types is consistent with the table: no entry writes through a
   parameter of a whitelisted type (the library struct types of the list were put there for that reason; this
   re-checks it on the emitted flags) *)
Definition whitelisted (ty : string) : bool :=
  existsb (fun x => String.eqb (fst x) ty) c19_immutable_types.

Definition immutable_ok (e : fn_body) : bool :=
  forallb (fun rt => if whitelisted (snd rt) then negb (nth (fst rt) (fb_wflags e) false) else true) (fb_ptypes e).

Theorem immutable_types_are_not_written : forallb immutable_ok c19_bodies = true.
Proof. vm_compute. reflexivity. Qed.

Theorem body_counts_add_up :
  List.length c19_bodies = c19_bodies_translated /\
  c19_bodies_translated + List.length c19_body_untranslated = c19_bodies_considered /\
  List.length (filter fb_api c19_bodies) = c19_bodies_api /\
  List.length (filter (fun e => can_fail (fb_prog e)) c19_bodies) = c19_bodies_that_can_fail.
Proof. vm_compute. auto. Qed.

Theorem body_table_not_trivial :
  Nat.ltb 1000 c19_bodies_translated = true /\ Nat.ltb 5000 c19_bodies_instructions = true /\
  Nat.ltb 500 c19_bodies_that_can_fail = true /\ Nat.ltb 1000 c19_bodies_call_records = true /\
  Nat.ltb (4 * List.length c19_body_untranslated) c19_bodies_considered = true.
Proof. vm_compute. auto. Qed.

(* THE TIE, body level.  For EVERY translated function body of the table that is not in the exception list,
   every caller heap, every choice of the argument slices (and of the garbage in the other registers), every
   execution - all branches, any number of loop iterations, any indices and bytes, also executions that stop early -
   (1) no array of the caller changes except those of the parameters with a write flag, and
   (2) every slice that ESCAPES lives in an array allocated during the call or in one of the parameters with a
       keep flag.  What counts as an escape: a value returned by an API function; a value stored into an object
       that is not private to the function (the analysis demands a keepable value for such a store; the
       conclusion below speaks of the escape log, into which only SEscape writes - a store itself changes neither
       heap nor log in this semantics); a value handed to a callee whose contract says it keeps it.  A value
       RETURNED BY AN INTERNAL HELPER is not an escape: the callers account for it through the translator's
       result-alias summary.  Entries of the exception list may, in addition, return a view (see the list).
   SCOPE: only byte memory ([]byte, [N]byte and what reaches them) is modelled; *big.Int, interface values
   without a register, function values and channels are invisible. *)
Theorem every_body_frames_the_caller :
  forall e, In e c19_bodies -> excepted e = false ->
  forall h0 regs o h' regs' lg', List.length regs = fb_nregs e ->
    exec (h0, regs, []) (fb_prog e) o (h', regs', lg') ->
    (forall s, wf_slice h0 s -> ~ In (arr s) (writable regs (fb_wflags e)) ->
       read h' s = read h0 s /\ read_cap h' s = read_cap h0 s) /\
    (forall r, In r lg' ->
       (List.length h0 <= arr r /\ forall s, wf_slice h0 s -> arr s <> arr r) \/
       In (arr r) (writable regs (fb_kflags e))).
Proof.
  intros e Hin _ h0 regs o h' regs' lg' Hlen X.
  pose proof every_body_ok as All. rewrite forallb_forall in All. specialize (All _ Hin).
  unfold body_ok in All. repeat (apply andb_prop in All; destruct All as [All ?]).
  apply Nat.eqb_eq in All. match goal with H : Nat.eqb _ _ = true |- _ => apply Nat.eqb_eq in H end.
  apply (disciplined_body_frames_the_caller h0 regs (fb_wflags e) (fb_kflags e) (fb_prog e) o h' regs' lg'); auto; congruence.
Qed.

(* ... and for every API function outside the exception list there is no flagged parameter: the
   caller's whole memory is unchanged and every byte slice that ESCAPES (in the sense above: returned, or
   required keepable by a store into a non-private object / by a keeping callee) - directly or through an
   object the analysis follows (objects built in the function, objects it was handed whose type is not
   whitelisted) - is fresh *)
Theorem every_api_body_frames_the_caller :
  forall e, In e c19_bodies -> fb_api e = true -> excepted e = false ->
  forall h0 regs o h' regs' lg', List.length regs = fb_nregs e ->
    exec (h0, regs, []) (fb_prog e) o (h', regs', lg') ->
    (forall s, wf_slice h0 s -> read h' s = read h0 s /\ read_cap h' s = read_cap h0 s) /\
    (forall r, In r lg' -> List.length h0 <= arr r /\ forall s, wf_slice h0 s -> arr s <> arr r).
Proof.
  intros e Hin Ha He h0 regs o h' regs' lg' Hlen X.
  pose proof every_body_ok as All. rewrite forallb_forall in All. specialize (All _ Hin).
  unfold body_ok in All. repeat (apply andb_prop in All; destruct All as [All ?]).
  apply Nat.eqb_eq in All. match goal with H : Nat.eqb _ _ = true |- _ => apply Nat.eqb_eq in H end.
  pose proof api_bodies_own_nothing as Fl. rewrite forallb_forall in Fl. specialize (Fl _ Hin).
  unfold api_flags_ok in Fl. rewrite Ha, He in Fl. simpl in Fl. apply andb_prop in Fl. destruct Fl as [Fw Fk].
  apply (disciplined_api_body_frames_the_caller h0 regs (fb_wflags e) (fb_kflags e) (fb_prog e) o h' regs' lg'); auto; congruence.
Qed.

(* what the call-site obligation says, spelled out for one record: if entry c may write through its j-th
   parameter register, then every register the caller hands to it is written through in the recorded effect
   (hence must be writable for the caller's own analysis to pass); likewise for keeping *)
Theorem call_record_meets_contract :
  forall wf kf args eff, call_ok_args wf kf args eff = true ->
  forall j a, In a (nth j args []) ->
    (nth j wf false = true -> has_write a eff = true) /\ (nth j kf false = true -> has_escape a eff = true).
Proof.
  intros wf kf args. revert wf kf. induction args as [|x args IH]; intros wf kf eff H j a Ha.
  - destruct j; simpl in Ha; contradiction.
  - simpl in H. apply andb_prop in H. destruct H as [H Hr]. apply andb_prop in H. destruct H as [Hw Hk].
    destruct j as [|j].
    + simpl in Ha. split; intros F.
      * destruct wf as [|w wf]; simpl in *; [discriminate|]. subst w. rewrite forallb_forall in Hw. auto.
      * destruct kf as [|k kf]; simpl in *; [discriminate|]. subst k. rewrite forallb_forall in Hk. auto.
    + simpl in Ha. destruct (IH (tl wf) (tl kf) eff Hr j a Ha) as [A B]. split; intros F.
      * apply A. destruct wf; simpl in *; [destruct j; discriminate|exact F].
      * apply B. destruct kf; simpl in *; [destruct j; discriminate|exact F].
Qed.
