(* Obligations about the REGENERATED table gen/AliasBodies.v: the slice-relevant behaviour of
   the body of every function of the library that takes, keeps or returns byte memory (as far as
   the translator's subset reaches; the others are listed in c19_body_untranslated), as a program of
   model/HeapProg.v.  Checked by computation on the table:
     - every translated body passes the ownership analysis from its initial flags;
     - an API function (exported, non-internal package) that is not in the exception list starts
       with NO owned parameter: it may not write through, keep or return any memory it was given;
     - the counts add up (considered = translated + untranslated).
   Consequence (HeapProgProofs.disciplined_body_frames_the_caller): the frame theorem holds for
   every execution of every entry of the table. *)
From Coq Require Import List String Bool Arith.
From Tink Require Import Heap HeapProofs HeapProg HeapProgProofs AliasBodies.
Import ListNotations.

Definition body_ok (e : fn_body) : bool :=
  Nat.eqb (List.length (fb_flags e)) (fb_nregs e) && body_disciplined (fb_flags e) (fb_prog e).

Theorem every_body_ok : forallb body_ok c19_bodies = true.
Proof. vm_compute. reflexivity. Qed.

Definition excepted (e : fn_body) : bool :=
  existsb (fun x => let '(p, f, _) := x in String.eqb p (fb_pkg e) && String.eqb f (fb_fn e)) c19_body_exceptions.

(* an API function outside the exception list owns none of its parameters *)
Definition api_flags_ok (e : fn_body) : bool :=
  if fb_api e && negb (excepted e) then forallb negb (fb_flags e) else true.

Theorem api_bodies_own_nothing : forallb api_flags_ok c19_bodies = true.
Proof. vm_compute. reflexivity. Qed.

Theorem body_counts_add_up :
  List.length c19_bodies = c19_bodies_translated /\
  c19_bodies_translated + List.length c19_body_untranslated = c19_bodies_considered /\
  List.length (filter fb_api c19_bodies) = c19_bodies_api.
Proof. vm_compute. auto. Qed.

Theorem body_table_not_trivial :
  Nat.ltb 1000 c19_bodies_translated = true /\ Nat.ltb 5000 c19_bodies_instructions = true /\
  Nat.ltb (4 * List.length c19_body_untranslated) c19_bodies_considered = true.
Proof. vm_compute. auto. Qed.

(* THE TIE, body level.  For EVERY translated function body of the table, every caller heap, every
   choice of the argument slices (and of the garbage in the other registers), every execution - all
   branches, any number of loop iterations, any indices and bytes, also executions that stop early -
   (1) no array of the caller changes except those of the parameters flagged in the entry, and
   (2) every slice that escapes (is returned by an API function, stored in a shared object, kept by a
       callee) lives in an array allocated during the call or in one of those flagged parameters. *)
Theorem every_body_frames_the_caller :
  forall e, In e c19_bodies ->
  forall h0 regs o h' regs' lg', List.length regs = fb_nregs e ->
    exec (h0, regs, []) (fb_prog e) o (h', regs', lg') ->
    (forall s, wf_slice h0 s -> ~ In (arr s) (writable regs (fb_flags e)) ->
       read h' s = read h0 s /\ read_cap h' s = read_cap h0 s) /\
    (forall r, In r lg' ->
       (List.length h0 <= arr r /\ forall s, wf_slice h0 s -> arr s <> arr r) \/
       In (arr r) (writable regs (fb_flags e))).
Proof.
  intros e Hin h0 regs o h' regs' lg' Hlen X.
  pose proof every_body_ok as All. rewrite forallb_forall in All. specialize (All _ Hin).
  unfold body_ok in All. apply andb_prop in All. destruct All as [L D].
  apply Nat.eqb_eq in L.
  apply (disciplined_body_frames_the_caller h0 regs (fb_flags e) (fb_prog e) o h' regs' lg'); auto. congruence.
Qed.

(* ... and for every API function outside the exception list there is no flagged parameter: the
   caller's whole memory is unchanged and whatever the function returns or stores is fresh *)
Theorem every_api_body_frames_the_caller :
  forall e, In e c19_bodies -> fb_api e = true -> excepted e = false ->
  forall h0 regs o h' regs' lg', List.length regs = fb_nregs e ->
    exec (h0, regs, []) (fb_prog e) o (h', regs', lg') ->
    (forall s, wf_slice h0 s -> read h' s = read h0 s /\ read_cap h' s = read_cap h0 s) /\
    (forall r, In r lg' -> List.length h0 <= arr r /\ forall s, wf_slice h0 s -> arr s <> arr r).
Proof.
  intros e Hin Ha He h0 regs o h' regs' lg' Hlen X.
  pose proof every_body_ok as All. rewrite forallb_forall in All. specialize (All _ Hin).
  unfold body_ok in All. apply andb_prop in All. destruct All as [L D]. apply Nat.eqb_eq in L.
  pose proof api_bodies_own_nothing as Fl. rewrite forallb_forall in Fl. specialize (Fl _ Hin).
  unfold api_flags_ok in Fl. rewrite Ha, He in Fl. simpl in Fl.
  apply (disciplined_api_body_frames_the_caller h0 regs (fb_flags e) (fb_prog e) o h' regs' lg'); auto. congruence.
Qed.
