(* Proofs about model/Envelope.v: parse/build are inverse, parseEnvelope never
   panics, and the envelope construction inherits round trip / exact
   acceptance / no-panic from its two component AEADs. *)
From Coq Require Import List NArith Bool Arith Lia ZifyN ZifyNat ZifyBool.
From Tink Require Import Bytes AeadFrame AeadFrameProofs Envelope.
Import ListNotations.
Open Scope N_scope.

Lemma le_bytes_le_val b : wfb b -> le_bytes (length b) (le_val b) = b.
Proof.
  induction b as [|x t IH]; intros H; [reflexivity|].
  inversion H as [|? ? Hx Ht]; subst. cbn [length le_bytes le_val].
  replace ((x + 256 * le_val t) mod 256) with x.
  2:{ rewrite (N.mul_comm 256), N.mod_add by lia. symmetry. apply N.mod_small. exact Hx. }
  replace ((x + 256 * le_val t) / 256) with (le_val t).
  2:{ rewrite (N.mul_comm 256), N.div_add by lia. rewrite N.div_small by exact Hx. lia. }
  rewrite IH by exact Ht. reflexivity.
Qed.

Lemma be_bytes_be_val b : wfb b -> be_bytes (length b) (be_val b) = b.
Proof.
  intros H. unfold be_bytes, be_val. rewrite <- (rev_length b).
  rewrite le_bytes_le_val by (apply Forall_rev; exact H). apply rev_involutive.
Qed.

Lemma parse_build e pl c : build_envelope e pl = Ok c -> parse_envelope c = Ok (e, pl).
Proof.
  unfold build_envelope. destruct (Nat.eqb_spec (length e) 0); [discriminate|].
  destruct (N.ltb_spec maxLengthEncryptedDEK (lenN e)) as [|Hm]; [discriminate|].
  assert (Hhl : length (be_bytes 4 (lenN e)) = 4%nat) by apply be_bytes_length.
  assert (Hhv : be_val (be_bytes 4 (lenN e)) = lenN e).
  { rewrite be_val_be_bytes. change (256 ^ N.of_nat 4) with 4294967296.
    apply N.mod_small. unfold maxLengthEncryptedDEK in Hm. lia. }
  set (hdr := be_bytes 4 (lenN e)) in *. clearbody hdr.
  intros H. injection H as <-.
  unfold parse_envelope, lenDEK, maxLengthEncryptedDEK, lenN in *.
  rewrite !app_length, Hhl.
  destruct (Nat.leb_spec (4 + (length e + length pl)) 4); [lia|].
  rewrite slice_ok by (rewrite ?app_length, ?Hhl; lia).
  cbn [bind]. rewrite skipn_O, Nat.sub_0_r.
  rewrite (firstn_app_len 4) by (symmetry; exact Hhl).
  rewrite Hhv.
  destruct (N.leb_spec (N.of_nat (length e)) 0); [lia|].
  destruct (N.ltb_spec 4096 (N.of_nat (length e))); [lia|].
  destruct (N.ltb_spec (N.of_nat (4 + (length e + length pl) - 4)) (N.of_nat (length e))); [lia|].
  cbn [orb]. rewrite Nnat.Nat2N.id.
  rewrite slice_ok by (rewrite ?app_length, ?Hhl; lia). cbn [bind].
  rewrite (skipn_app_len 4) by (symmetry; exact Hhl).
  rewrite firstn_all2 by (rewrite !app_length; lia).
  rewrite slice_ok by (rewrite ?app_length; lia). cbn [bind]. rewrite skipn_O, Nat.sub_0_r, firstn_app_exact.
  rewrite slice_ok by (rewrite ?app_length; lia). cbn [bind].
  rewrite skipn_app_exact, firstn_all2 by (rewrite app_length; lia). reflexivity.
Qed.

Lemma parse_inv c e pl : parse_envelope c = Ok (e, pl) ->
  (4 < length c)%nat /\ 1 <= be_val (firstn 4 c) <= 4096 /\
  (N.to_nat (be_val (firstn 4 c)) <= length c - 4)%nat /\
  e = firstn (N.to_nat (be_val (firstn 4 c))) (skipn 4 c) /\
  pl = skipn (4 + N.to_nat (be_val (firstn 4 c))) c.
Proof.
  unfold parse_envelope, lenDEK, maxLengthEncryptedDEK.
  destruct (Nat.leb_spec (length c) 4); [discriminate|].
  rewrite slice_ok by lia. cbn [bind]. rewrite skipn_O, Nat.sub_0_r.
  set (n := be_val (firstn 4 c)).
  destruct (N.leb_spec n 0); [discriminate|].
  destruct (N.ltb_spec 4096 n); [discriminate|].
  destruct (N.ltb_spec (N.of_nat (length c - 4)) n); [discriminate|]. cbn [orb].
  rewrite slice_ok by lia. cbn [bind].
  rewrite (firstn_all2 (n := (length c - 4)%nat)) by (rewrite skipn_length; lia).
  rewrite slice_ok by (rewrite ?skipn_length; lia). cbn [bind]. rewrite skipn_O, Nat.sub_0_r.
  rewrite slice_ok by (rewrite ?skipn_length; lia). cbn [bind].
  rewrite (firstn_all2 (n := (length (skipn 4 c) - N.to_nat n)%nat)) by (rewrite !skipn_length; lia).
  rewrite skipn_skipn. intros Hq; inversion Hq. repeat split; try lia.
Qed.

Lemma build_parse c e pl : wfb c -> parse_envelope c = Ok (e, pl) -> build_envelope e pl = Ok c.
Proof.
  intros Hw H. apply parse_inv in H. destruct H as [Hl [Hn [Hle [-> ->]]]].
  set (n := be_val (firstn 4 c)) in *.
  unfold build_envelope, maxLengthEncryptedDEK, lenN.
  rewrite firstn_length, skipn_length. rewrite Nat.min_l by lia.
  destruct (Nat.eqb_spec (N.to_nat n) 0); [lia|].
  destruct (N.ltb_spec 4096 (N.of_nat (N.to_nat n))); [lia|].
  f_equal. rewrite Nnat.N2Nat.id. unfold n.
  replace 4%nat with (length (firstn 4 c)) at 1 by (rewrite firstn_length; lia).
  rewrite be_bytes_be_val by (apply wfb_firstn; exact Hw).
  symmetry. apply split3. lia.
Qed.

Lemma parse_no_panic c : parse_envelope c <> Panic.
Proof.
  unfold parse_envelope, lenDEK, maxLengthEncryptedDEK.
  destruct (Nat.leb_spec (length c) 4); [discriminate|].
  rewrite slice_ok by lia. cbn [bind]. rewrite skipn_O, Nat.sub_0_r.
  set (n := be_val (firstn 4 c)).
  destruct (N.leb_spec n 0); [discriminate|].
  destruct (N.ltb_spec 4096 n); [discriminate|].
  destruct (N.ltb_spec (N.of_nat (length c - 4)) n); [discriminate|]. cbn [orb].
  rewrite slice_ok by lia. cbn [bind].
  rewrite (firstn_all2 (n := (length c - 4)%nat)) by (rewrite skipn_length; lia).
  rewrite slice_ok by (rewrite ?skipn_length; lia). cbn [bind].
  rewrite slice_ok by (rewrite ?skipn_length; lia). cbn [bind]. discriminate.
Qed.

Lemma parse_too_short c : (length c <= 4)%nat -> parse_envelope c = Err.
Proof. intros H. unfold parse_envelope, lenDEK. destruct (Nat.leb_spec (length c) 4); [reflexivity|lia]. Qed.

Section EnvelopeProofs.
  Variable kek_enc : bytes -> bytes -> bytes -> outcome bytes.
  Variable kek_dec : bytes -> bytes -> outcome bytes.
  Variable dek_enc : bytes -> bytes -> bytes -> bytes -> outcome bytes.
  Variable dek_dec : bytes -> bytes -> bytes -> outcome bytes.
  Variables (kivlen divlen : nat).

  Definition kek_rt := forall iv p ad c, length iv = kivlen -> kek_enc iv p ad = Ok c -> kek_dec c ad = Ok p.
  Definition dek_rt := forall dek iv p ad c, length iv = divlen -> dek_enc dek iv p ad = Ok c -> dek_dec dek c ad = Ok p.
  Definition kek_only := forall c ad p, kek_dec c ad = Ok p -> exists iv, length iv = kivlen /\ kek_enc iv p ad = Ok c.
  Definition dek_only := forall dek c ad p, dek_dec dek c ad = Ok p -> exists iv, length iv = divlen /\ dek_enc dek iv p ad = Ok c.

  Lemma env_round_trip dek kekiv dekiv p ad c : kek_rt -> dek_rt ->
    length kekiv = kivlen -> length dekiv = divlen ->
    env_enc kek_enc dek_enc dek kekiv dekiv p ad = Ok c -> env_dec kek_dec dek_dec c ad = Ok p.
  Proof.
    intros HK HD Hk Hd. unfold env_enc, env_dec.
    destruct (kek_enc kekiv dek []) as [e| |] eqn:Ee; try discriminate. cbn [bind].
    destruct (Nat.eqb (length e) 0); [discriminate|].
    destruct (dek_enc dek dekiv p ad) as [pl| |] eqn:Ep; try discriminate. cbn [bind].
    intros Hb. rewrite (parse_build _ _ _ Hb). cbn [bind fst snd].
    rewrite (HK _ _ _ _ Hk Ee). cbn [bind]. apply (HD _ _ _ _ _ Hd Ep).
  Qed.

  Lemma env_accept_iff c ad p : kek_rt -> dek_rt -> kek_only -> dek_only -> wfb c ->
    (env_dec kek_dec dek_dec c ad = Ok p <->
     exists dek kekiv dekiv, length kekiv = kivlen /\ length dekiv = divlen /\
       env_enc kek_enc dek_enc dek kekiv dekiv p ad = Ok c).
  Proof.
    intros HK HD HKO HDO Hw. split.
    - unfold env_dec. destruct (parse_envelope c) as [[e pl]| |] eqn:Ep; try discriminate. cbn [bind fst snd].
      destruct (kek_dec e []) as [dek| |] eqn:Ek; try discriminate. cbn [bind]. intros Hd.
      destruct (HKO _ _ _ Ek) as [kekiv [Hkl Hke]]. destruct (HDO _ _ _ _ Hd) as [dekiv [Hdl Hde]].
      exists dek, kekiv, dekiv. repeat split; auto.
      unfold env_enc. rewrite Hke. cbn [bind].
      pose proof (build_parse _ _ _ Hw Ep) as Hb.
      destruct (Nat.eqb_spec (length e) 0) as [H0|H0].
      + unfold build_envelope in Hb. rewrite H0 in Hb. discriminate.
      + rewrite Hde. cbn [bind]. exact Hb.
    - intros [dek [kekiv [dekiv [Hk [Hd H]]]]]. eapply env_round_trip; eauto.
  Qed.

  Lemma env_dec_no_panic c ad :
    (forall c ad, kek_dec c ad <> Panic) -> (forall dek c ad, dek_dec dek c ad <> Panic) ->
    env_dec kek_dec dek_dec c ad <> Panic.
  Proof.
    intros HK HD. unfold env_dec.
    destruct (parse_envelope c) as [[e pl]| |] eqn:Ep; cbn [bind fst snd]; try discriminate.
    - destruct (kek_dec e []) as [dek| |] eqn:Ek; cbn [bind]; try discriminate; [apply HD|].
      exfalso. exact (HK _ _ Ek).
    - exfalso. exact (parse_no_panic _ Ep).
  Qed.
End EnvelopeProofs.
