(* Proofs about model/Xaes.v (XAES-256-GCM): canonical Decrypt, round trip,
   exact acceptance set (from the GCM laws), where the model panics. *)
From Coq Require Import List NArith Bool Arith Lia ZifyN ZifyNat ZifyBool.
From Tink Require Import Bytes AeadFrame AeadFrameProofs EtMProofs Cmac Xaes.
Import ListNotations.
Open Scope N_scope.

Lemma cmac_impl_length E data : (forall b, length (E b) = 16%nat) -> length (cmac_impl E data) = 16%nat.
Proof.
  intros HE. unfold cmac_impl.
  destruct (cbc_loop E _ (zeros BlockSize) data) as [output rest]. apply HE.
Qed.

Section XaesProofs.
  Variable aes : bytes -> bytes -> bytes.
  Variable gcm_seal : bytes -> bytes -> bytes -> bytes -> bytes.
  Variable gcm_open : bytes -> bytes -> bytes -> bytes -> option bytes.
  Hypothesis aes_len : forall k b, length (aes k b) = 16%nat.

  Definition pmk (key salt : bytes) : bytes :=
    cmac_impl (aes key) ([0; 1; 88; 0] ++ padded_salt salt) ++ cmac_impl (aes key) ([0; 2; 88; 0] ++ padded_salt salt).

  Lemma compute_prf_16 key data : compute_prf aes key data 16 = Ok (cmac_impl (aes key) data).
  Proof.
    unfold compute_prf. cbn [Nat.ltb Nat.leb].
    rewrite slice_ok by (rewrite ?cmac_impl_length by (intros; apply aes_len); lia).
    rewrite skipn_O, firstn_all2 by (rewrite cmac_impl_length by (intros; apply aes_len); lia). reflexivity.
  Qed.

  Lemma derive_ok key salt : derive_per_message_key aes key salt = Ok (pmk key salt).
  Proof. unfold derive_per_message_key. rewrite !compute_prf_16. reflexivity. Qed.

  Lemma pmk_length key salt : length (pmk key salt) = 32%nat.
  Proof. unfold pmk. rewrite app_length, !cmac_impl_length by (intros; apply aes_len). reflexivity. Qed.

  Definition xaes_tink_max (saltsize : nat) (prefix : bytes) : N :=
    MaxInt - (12 + 16 + N.of_nat saltsize + lenN prefix).

  Lemma xaes_enc_eq ss prefix key salt iv p ad : length salt = ss ->
    xaes_enc aes gcm_seal ss prefix key (salt ++ iv) p ad =
    na_enc gcm_seal gcm_seal_max (xaes_tink_max ss prefix) (prefix ++ salt) (pmk key salt) iv p ad.
  Proof.
    intros Hs. unfold xaes_enc, na_enc, xaes_tink_max.
    destruct (_ <? lenN p); [reflexivity|].
    rewrite !slice_ok by (rewrite ?app_length; lia). cbn [bind].
    rewrite skipn_O, Nat.sub_0_r, <- Hs, firstn_app_exact, skipn_app_exact.
    rewrite firstn_all2 by (rewrite app_length; lia).
    rewrite derive_ok. cbn [bind].
    destruct (seal_o gcm_seal gcm_seal_max (pmk key salt) iv ad p); cbn [bind]; try reflexivity.
    rewrite <- !app_assoc. reflexivity.
  Qed.

  Definition xaes_dec_canon (ss : nat) (prefix key c ad : bytes) : outcome bytes :=
    let pl := length prefix in
    if Nat.leb (pl + ss + 12 + 16) (length c) && beq (firstn pl c) prefix then
      open_o gcm_open 16 None (pmk key (firstn ss (skipn pl c)))
             (firstn 12 (skipn (pl + ss) c)) ad (skipn (pl + ss + 12) c)
    else Err.

  Lemma xaes_dec_is_canon ss prefix key c ad :
    xaes_dec aes gcm_open ss prefix key c ad = xaes_dec_canon ss prefix key c ad.
  Proof.
    unfold xaes_dec, xaes_dec_canon. set (pl := length prefix).
    destruct (Nat.ltb_spec (length c) (pl + ss + 12 + 16)); destruct (Nat.leb_spec (pl + ss + 12 + 16) (length c));
      try lia; [reflexivity|]. cbn [andb].
    rewrite slice_ok by lia. cbn [bind]. rewrite skipn_O, Nat.sub_0_r.
    destruct (beq (firstn pl c) prefix); cbn [negb]; [|reflexivity].
    rewrite slice_ok by lia. cbn [bind].
    rewrite (firstn_all2 (n := (length c - pl)%nat)) by (rewrite skipn_length; lia).
    rewrite !slice_ok by (rewrite ?skipn_length; lia). cbn [bind].
    rewrite skipn_O, Nat.sub_0_r. rewrite derive_ok. cbn [bind].
    rewrite (firstn_all2 (n := (length (skipn pl c) - (ss + 12))%nat)) by (rewrite !skipn_length; lia).
    rewrite !skipn_skipn. unfold make_cap.
    destruct (Nat.ltb_spec (length (skipn (pl + (ss + 12)) c)) 16) as [Hc|Hc]; [rewrite skipn_length in Hc; lia|].
    cbn [bind]. replace (ss + 12 - ss)%nat with 12%nat by lia.
    replace (pl + (ss + 12))%nat with (pl + ss + 12)%nat by lia. reflexivity.
  Qed.

  Hypothesis HL : seal_len_law gcm_seal 16.
  Hypothesis HO : open_seal_law gcm_seal gcm_open gcm_seal_max.

  Lemma xaes_round_trip ss prefix key saltiv p ad c : length saltiv = (ss + 12)%nat ->
    xaes_enc aes gcm_seal ss prefix key saltiv p ad = Ok c -> xaes_dec_canon ss prefix key c ad = Ok p.
  Proof.
    intros Hl. rewrite <- (firstn_skipn ss saltiv).
    set (salt := firstn ss saltiv). set (iv := skipn ss saltiv).
    assert (Hs : length salt = ss) by (unfold salt; rewrite firstn_length; lia).
    assert (Hi : length iv = 12%nat) by (unfold iv; rewrite skipn_length; lia).
    rewrite xaes_enc_eq by exact Hs. intros He.
    pose proof (na_round_trip gcm_seal gcm_open 12 16 gcm_seal_max None None _ _ _ _ _ _ _ HL HO
                  (fun m (E : None = Some m) => ltac:(discriminate))
                  (fun m (E : None = Some m) => ltac:(discriminate)) Hi He) as Hd.
    unfold na_dec_canon, open_t in Hd. unfold xaes_dec_canon.
    rewrite app_length, Hs in Hd.
    destruct (Nat.leb_spec (length prefix + ss + 12 + 16) (length c)) as [Hc|Hc].
    2:{ destruct (Nat.leb_spec (length prefix + ss + 12 + 16) (length c)); [lia|]. discriminate. }
    destruct (Nat.leb_spec (length prefix + ss + 12 + 16) (length c)); [|lia].
    destruct (beq (firstn (length prefix + ss) c) (prefix ++ salt)) eqn:Eb; [|discriminate].
    apply beq_eq in Eb. cbn [andb] in Hd.
    assert (E1 : firstn (length prefix) c = prefix).
    { apply (f_equal (firstn (length prefix))) in Eb. rewrite firstn_firstn, firstn_app_exact in Eb.
      rewrite Nat.min_l in Eb by lia. exact Eb. }
    assert (E2 : firstn ss (skipn (length prefix) c) = salt).
    { apply (f_equal (skipn (length prefix))) in Eb. rewrite skipn_app_exact in Eb. rewrite <- Eb.
      rewrite firstn_skipn_comm. reflexivity. }
    rewrite E1, beq_refl, E2. cbn [andb]. exact Hd.
  Qed.

  Hypothesis HU : open_only_seal_law gcm_seal gcm_open gcm_seal_max.

  Lemma xaes_accept_iff ss prefix key c ad p : (ss <= 12)%nat -> (length prefix <= 5)%nat ->
    (xaes_dec_canon ss prefix key c ad = Ok p <->
     exists saltiv, length saltiv = (ss + 12)%nat /\ xaes_enc aes gcm_seal ss prefix key saltiv p ad = Ok c).
  Proof.
    intros Hss Hpl. split.
    2:{ intros [saltiv [Hl He]]. eapply xaes_round_trip; eauto. }
    unfold xaes_dec_canon. set (pl := length prefix).
    destruct (Nat.leb_spec (pl + ss + 12 + 16) (length c)) as [Hc|]; [|discriminate].
    destruct (beq (firstn pl c) prefix) eqn:Eb; [|discriminate]. apply beq_eq in Eb. cbn [andb].
    intros H. apply (open_o_ok gcm_seal gcm_open 16 gcm_seal_max None) in H; [|exact HU].
    destruct H as [Hs Hp].
    set (salt := firstn ss (skipn pl c)) in *. set (iv := firstn 12 (skipn (pl + ss) c)) in *.
    assert (Hsl : length salt = ss) by (unfold salt; rewrite firstn_length, skipn_length; lia).
    exists (salt ++ iv). split.
    { rewrite app_length, Hsl. unfold iv. rewrite firstn_length, skipn_length. lia. }
    rewrite xaes_enc_eq by exact Hsl. rewrite (na_enc_total gcm_seal gcm_open); [| |exact Hp].
    2:{ unfold xaes_tink_max, lenN, MaxInt, gcm_seal_max in *. fold pl. lia. }
    f_equal. rewrite <- Hs, <- Eb. fold pl. rewrite <- !app_assoc. unfold salt, iv.
    transitivity (firstn pl c ++ firstn (ss + 12) (skipn pl c) ++ skipn (pl + (ss + 12)) c).
    - f_equal. rewrite app_assoc. f_equal; [|f_equal; lia].
      rewrite firstn_plus, skipn_skipn. reflexivity.
    - symmetry. apply split3. lia.
  Qed.

  Lemma xaes_dec_no_panic ss prefix key c ad : xaes_dec aes gcm_open ss prefix key c ad <> Panic.
  Proof using aes_len gcm_seal gcm_open.
    rewrite xaes_dec_is_canon. unfold xaes_dec_canon, open_o.
    destruct (_ && _)%bool; [|discriminate].
    destruct (Nat.ltb _ 16); [discriminate|]. destruct (gcm_open _ _ _ _); discriminate.
  Qed.

  (* Encrypt panics exactly when the plaintext passes Tink's (MaxInt-based) bound but is
     longer than crypto/cipher's GCM accepts: there is no 2^36-32 check in xaesgcm.Encrypt *)
  Lemma xaes_enc_panic_iff ss prefix key saltiv p ad : length saltiv = (ss + 12)%nat ->
    (xaes_enc aes gcm_seal ss prefix key saltiv p ad = Panic <->
     lenN p <= xaes_tink_max ss prefix /\ gcm_seal_max < lenN p).
  Proof using aes_len gcm_seal gcm_open.
    intros Hl. rewrite <- (firstn_skipn ss saltiv).
    rewrite xaes_enc_eq by (rewrite firstn_length; lia). apply (na_enc_panic_iff gcm_seal gcm_open).
  Qed.
End XaesProofs.
