(* Obligation about the REGENERATED footprint table gen/Footprints.v: no method
   of any primitive type writes through its receiver or to a package variable. *)
From Coq Require Import List String Bool.
From Tink Require Import Footprints.
Import ListNotations.

Definition no_writes (f : method_footprint) : bool :=
  match fp_writes f with [] => true | _ => false end.

Theorem no_shared_writes_in_source : forallb no_writes c18_footprints = true.
Proof. vm_compute. reflexivity. Qed.

Theorem footprints_nonempty : Nat.ltb 50 (List.length c18_footprints) = true.
Proof. vm_compute. reflexivity. Qed.
