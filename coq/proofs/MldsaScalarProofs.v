(* Proofs about the REGENERATED scalar kernels gen/MldsaScalar.v (translated
   from internal/signature/mldsa/algebra.go on every run): each equals its
   FIPS 204 arithmetic specification for ALL field elements. *)
From Coq Require Import ZArith Lia Bool List.
From Tink Require Import Wrap MldsaScalar.
Open Scope Z_scope.
Ltac Zify.zify_post_hook ::= Z.div_mod_to_equations.

Definition q := 8380417.

Lemma gen_q : mldsa_q = q. Proof. reflexivity. Qed.

(* ---- crypto/subtle constant-time helpers (translated from GOROOT) ---- *)

Lemma ct_select_1 x y : subtle_ConstantTimeSelect 1 x y = x.
Proof.
  unfold subtle_ConstantTimeSelect. replace (1 - 1) with 0 by lia.
  rewrite (wraps64_small 0) by lia. change (Z.lnot 0) with (-1).
  rewrite (wraps64_small (-1)) by lia.
  rewrite Z.land_m1_l, Z.land_0_l, Z.lor_0_r. reflexivity.
Qed.

Lemma ct_select_0 x y : subtle_ConstantTimeSelect 0 x y = y.
Proof.
  unfold subtle_ConstantTimeSelect. replace (0 - 1) with (-1) by lia.
  rewrite (wraps64_small (-1)) by lia. change (Z.lnot (-1)) with 0.
  rewrite (wraps64_small 0) by lia.
  rewrite Z.land_m1_l, Z.land_0_l, Z.lor_0_l. reflexivity.
Qed.

Lemma ct_leq x y : 0 <= x < 2147483648 -> 0 <= y < 2147483648 ->
  subtle_ConstantTimeLessOrEq x y = if x <=? y then 1 else 0.
Proof.
  intros Hx Hy. unfold subtle_ConstantTimeLessOrEq.
  rewrite (wraps32_small x), (wraps32_small y) by lia.
  rewrite (wraps32_small (x - y)) by lia.
  rewrite (wraps32_small (x - y - 1)) by lia.
  rewrite shiftr_div by lia.
  destruct (x <=? y) eqn:E.
  - apply Z.leb_le in E.
    assert (H : (x - y - 1) / 2 ^ 31 = -1) by (change (2^31) with 2147483648; lia).
    rewrite H. reflexivity.
  - apply Z.leb_gt in E.
    assert (H : (x - y - 1) / 2 ^ 31 = 0) by (change (2^31) with 2147483648; lia).
    rewrite H. reflexivity.
Qed.

Lemma lxor_bound x y n : 0 < n -> 0 <= x < 2 ^ n -> 0 <= y < 2 ^ n -> 0 <= Z.lxor x y < 2 ^ n.
Proof.
  intros Hn Hx Hy. split; [apply Z.lxor_nonneg; lia|].
  destruct (Z.eq_dec (Z.lxor x y) 0) as [E|E]; [rewrite E; apply Z.pow_pos_nonneg; lia|].
  apply Z.log2_lt_pow2; [pose proof (proj2 (Z.lxor_nonneg x y)); lia|].
  eapply Z.le_lt_trans; [apply Z.log2_lxor; lia|].
  apply Z.max_lub_lt.
  - destruct (Z.eq_dec x 0) as [->|]; [simpl; lia|]. apply Z.log2_lt_pow2; lia.
  - destruct (Z.eq_dec y 0) as [->|]; [simpl; lia|]. apply Z.log2_lt_pow2; lia.
Qed.

Lemma ct_eq x y : 0 <= x < 2147483648 -> 0 <= y < 2147483648 ->
  subtle_ConstantTimeEq x y = if x =? y then 1 else 0.
Proof.
  intros Hx Hy. unfold subtle_ConstantTimeEq.
  pose proof (lxor_bound x y 31 ltac:(lia) ltac:(simpl; lia) ltac:(simpl; lia)) as Hb.
  change (2 ^ 31) with 2147483648 in Hb.
  rewrite (wrapu32_small (Z.lxor x y)) by lia.
  rewrite (wrapu64_small (Z.lxor x y)) by lia.
  rewrite shiftr_div by lia.
  destruct (x =? y) eqn:E.
  - apply Z.eqb_eq in E. subst y. rewrite Z.lxor_nilpotent. reflexivity.
  - apply Z.eqb_neq in E.
    assert (Z.lxor x y <> 0) by (intros H0; apply Z.lxor_eq in H0; contradiction).
    rewrite (wrapu64_small (Z.lxor x y - 1)) by lia.
    rewrite Z.div_small by (change (2^63) with 9223372036854775808; lia).
    reflexivity.
Qed.

(* ---- field arithmetic ---- *)

Theorem reduceOnce_spec a : 0 <= a < 2 * q -> mldsa_rZq_reduceOnce a = a mod q.
Proof.
  intros Ha. unfold mldsa_rZq_reduceOnce, q in *.
  rewrite (wraps64_small a) by lia.
  rewrite ct_leq by lia.
  rewrite (wrapu32_small a) by lia.
  destruct (8380417 <=? a) eqn:E.
  - apply Z.leb_le in E. rewrite ct_select_1.
    rewrite (wrapu32_small (a - 8380417)) by lia.
    rewrite wraps64_small by lia. rewrite wrapu32_small by lia. lia.
  - apply Z.leb_gt in E. rewrite ct_select_0. rewrite wrapu32_small by lia. lia.
Qed.

Theorem add_spec a b : 0 <= a < q -> 0 <= b < q -> mldsa_rZq_add a b = (a + b) mod q.
Proof.
  intros Ha Hb. unfold mldsa_rZq_add, q in *.
  rewrite wrapu32_small by lia. apply reduceOnce_spec. unfold q; lia.
Qed.

Theorem sub_spec a b : 0 <= a < q -> 0 <= b < q -> mldsa_rZq_sub a b = (a - b) mod q.
Proof.
  intros Ha Hb. unfold mldsa_rZq_sub, q in *.
  rewrite (wrapu32_small (a + 8380417)) by lia.
  rewrite wrapu32_small by lia. rewrite reduceOnce_spec by (unfold q; lia). unfold q. lia.
Qed.

Theorem neg_spec a : 0 <= a < q -> mldsa_rZq_neg a = (- a) mod q.
Proof. intros Ha. unfold mldsa_rZq_neg. rewrite sub_spec by (unfold q in *; lia). reflexivity. Qed.

(* Barrett multiplication: floor(p*M/2^46) is floor(p/q) or one less *)
Lemma barrett_quo p : 0 <= p < q * q ->
  0 <= p - (p * 8396807) / 2 ^ 46 * q < 2 * q.
Proof.
  intros Hp. unfold q in *. change (2 ^ 46) with 70368744177664. lia.
Qed.

Theorem mul_spec a b : 0 <= a < q -> 0 <= b < q -> mldsa_rZq_mul a b = (a * b) mod q.
Proof.
  intros Ha Hb. unfold mldsa_rZq_mul.
  rewrite (wrapu64_small a), (wrapu64_small b) by (unfold q in *; lia).
  set (p := a * b).
  assert (Hp : 0 <= p < q * q) by (unfold p, q in *; nia).
  rewrite (wrapu64_small p) by (unfold q in *; lia).
  rewrite !shiftr_div, !shiftl_mul by lia.
  change 4294967295 with (2 ^ 32 - 1). rewrite !land_ones_mod by lia.
  change 63 with (2 ^ 6 - 1). rewrite land_ones_mod by lia.
  set (ph := p / 2 ^ 32). set (pl := p mod 2 ^ 32).
  assert (Hph : 0 <= ph < 2 ^ 14) by (unfold ph, q in *; lia).
  assert (Hpl : 0 <= pl < 2 ^ 32) by (unfold pl; lia).
  rewrite (wrapu64_small (ph * 8396807)) by lia.
  rewrite (wrapu64_small (pl * 8396807)) by lia.
  set (hi := ph * 8396807). set (lo := pl * 8396807).
  assert (HP : p * 8396807 = hi * 2 ^ 32 + lo) by (unfold hi, lo, ph, pl; lia).
  set (hiLo := hi mod 2 ^ 32).
  rewrite (wrapu64_small (lo / 2 ^ 32 + hiLo)) by (unfold hiLo, lo; lia).
  set (carry := (lo / 2 ^ 32 + hiLo) / 2 ^ 32).
  rewrite (wrapu64_small (hi / 2 ^ 32 + carry)) by (unfold carry, hiLo, hi, lo; lia).
  assert (Htop : hi / 2 ^ 32 + carry = (p * 8396807) / 2 ^ 64).
  { rewrite HP. unfold carry, hiLo. lia. }
  rewrite (wrapu64_small (hiLo * 2 ^ 32)) by (unfold hiLo; lia).
  assert (Hlow : wrapu 64 (hiLo * 2 ^ 32 + lo) = (p * 8396807) mod 2 ^ 64).
  { rewrite HP. rewrite wrapu64. unfold hiLo. lia. }
  rewrite Htop, Hlow.
  assert (Hsmall : (p * 8396807) / 2 ^ 64 < 2 ^ 6) by (unfold q in *; lia).
  rewrite (Z.mod_small ((p * 8396807) / 2 ^ 64)) by lia.
  set (P := p * 8396807) in *.
  assert (Hquo : Z.lor (wrapu 64 (P / 2 ^ 64 * 2 ^ 18)) (P mod 2 ^ 64 / 2 ^ 46) = P / 2 ^ 46).
  { rewrite (wrapu64_small (P / 2 ^ 64 * 2 ^ 18)) by lia.
    rewrite lor_disjoint_add by lia. lia. }
  rewrite Hquo.
  pose proof (barrett_quo p Hp) as Hb'. fold P in Hb'.
  set (quo := P / 2 ^ 46) in *.
  rewrite (wrapu64_small (quo * 8380417)) by (unfold q in *; lia).
  rewrite (wrapu64_small (p - quo * 8380417)) by (unfold q in *; lia).
  rewrite (wrapu32_small (p - quo * 8380417)) by (unfold q in *; lia).
  rewrite reduceOnce_spec by (unfold q in *; lia).
  unfold q in *. lia.
Qed.

(* ---- FIPS 204 rounding ---- *)

(* m mod± a : the representative in (-ceil(a/2), floor(a/2)] *)
Definition cmod (m a : Z) : Z := let r := m mod a in if r <=? a / 2 then r else r - a.

(* Algorithm 35 Power2Round: (r1, r0) with r = r1*2^d + r0, r0 = r mod± 2^d;
   the code returns r0 as an element of Z_q (r0 mod q) *)
Theorem power2Round_spec a : 0 <= a < q ->
  mldsa_rZq_power2Round a = ((a - cmod a 8192) / 8192, (cmod a 8192) mod q).
Proof.
  intros Ha. unfold mldsa_rZq_power2Round, cmod, q in *.
  rewrite (wrapu32_small a) by lia.
  rewrite (wrapu32_small (a + 4096)) by lia.
  rewrite (wrapu32_small (a + 4096 - 1)) by lia.
  rewrite shiftr_div, shiftl_mul by lia. change (2 ^ 13) with 8192.
  set (r1 := (a + 4096 - 1) / 8192).
  assert (Hr1 : 0 <= r1 <= 1023) by (unfold r1; lia).
  rewrite (wrapu32_small r1) by lia.
  rewrite (wrapu32_small (r1 * 8192)) by lia.
  rewrite (wrapu32_small (r1 * 8192)) by lia.
  rewrite sub_spec by (unfold q; lia).
  change (8192 / 2) with 4096.
  destruct (a mod 8192 <=? 4096) eqn:E; [apply Z.leb_le in E | apply Z.leb_gt in E];
    f_equal; unfold r1, q; lia.
Qed.

Theorem scalePower2_spec a : 0 <= a < 1024 -> mldsa_rZq_scalePower2 a = a * 8192.
Proof.
  intros Ha. unfold mldsa_rZq_scalePower2. rewrite shiftl_mul by lia.
  change (2 ^ 13) with 8192. rewrite wrapu32_small; lia.
Qed.

(* multiply-shift division is exact division on the ranges the code uses *)
Theorem divBy2Gamma2_spec_88 a : 0 <= a < 2 ^ 32 ->
  mldsa_divBy2Gamma2 a 95232 = Some (a / 190464).
Proof.
  intros Ha. unfold mldsa_divBy2Gamma2. simpl Z.eqb. cbv iota.
  change (2 ^ 32) with 4294967296 in Ha.
  rewrite (wrapu64_small a) by lia.
  rewrite (wrapu64_small (a * 2955676419)) by lia.
  rewrite shiftr_div by lia. change (2 ^ 49) with 562949953421312.
  rewrite wrapu32_small by lia. f_equal. lia.
Qed.

Theorem divBy2Gamma2_spec_32 a : 0 <= a < 2 ^ 32 ->
  mldsa_divBy2Gamma2 a 261888 = Some (a / 523776).
Proof.
  intros Ha. unfold mldsa_divBy2Gamma2. simpl Z.eqb. cbv iota.
  change (2 ^ 32) with 4294967296 in Ha.
  rewrite (wrapu64_small a) by lia.
  rewrite !shiftr_div by lia. change (2 ^ 9) with 512. change (2 ^ 33) with 8589934592.
  rewrite (wrapu64_small (a / 512 * 8396809)) by lia.
  rewrite wrapu32_small by lia. f_equal. lia.
Qed.

Theorem divBy2Gamma2_other a g : g <> 95232 -> g <> 261888 -> mldsa_divBy2Gamma2 a g = None.
Proof.
  intros H1 H2. unfold mldsa_divBy2Gamma2.
  destruct (g =? 95232) eqn:E1; [apply Z.eqb_eq in E1; contradiction|].
  destruct (g =? 261888) eqn:E2; [apply Z.eqb_eq in E2; contradiction|]. reflexivity.
Qed.

Definition valid_gamma2 (g : Z) : Prop := g = 95232 \/ g = 261888.

Lemma divBy2Gamma2_spec a g : valid_gamma2 g -> 0 <= a < 2 ^ 32 ->
  mldsa_divBy2Gamma2 a g = Some (a / (2 * g)).
Proof.
  intros [->| ->] Ha; [apply divBy2Gamma2_spec_88 | apply divBy2Gamma2_spec_32]; exact Ha.
Qed.

(* Algorithm 36 Decompose, FIPS 204:
     r+ = r mod q; r0 = r+ mod± 2γ2;
     if r+ − r0 = q − 1 then (r1, r0) = (0, r0 − 1) else r1 = (r+ − r0)/(2γ2)
   the code returns r0 as an element of Z_q *)
Definition decompose_spec (a g : Z) : Z * Z :=
  let r0 := cmod a (2 * g) in
  if a - r0 =? q - 1 then (0, (r0 - 1) mod q) else ((a - r0) / (2 * g), r0 mod q).

Theorem decompose_ok a g : valid_gamma2 g -> 0 <= a < q ->
  mldsa_rZq_decompose a g = Some (decompose_spec a g).
Proof.
  intros Hg Ha. unfold mldsa_rZq_decompose.
  assert (Hgr : 95232 <= g <= 261888) by (destruct Hg; subst; lia).
  unfold q in *.
  rewrite (wrapu32_small a) by lia.
  rewrite (wrapu32_small (a + g)) by lia.
  rewrite (wrapu32_small (a + g - 1)) by lia.
  rewrite divBy2Gamma2_spec by (auto; change (2^32) with 4294967296; lia).
  rewrite shiftl_mul by lia. change (2 ^ 1) with 2.
  set (s := (a + g - 1) / (2 * g)).
  assert (Hs : 0 <= s <= 44) by (unfold s; destruct Hg; subst; lia).
  rewrite (wrapu32_small (g * 2)) by lia.
  rewrite (wrapu32_small (s * (g * 2))) by nia.
  rewrite (wrapu32_small (s * (g * 2))) by nia.
  assert (Hsg : 0 <= s * (g * 2) < 8380417 + 2 * g) by (unfold s; destruct Hg; subst; lia).
  (* s*2g may reach q-1+... : it is < q except when a is in the top half-interval *)
  assert (Hsq : s * (g * 2) <= 8380416) by (unfold s; destruct Hg; subst; lia).
  rewrite (sub_spec a (s * (g * 2))) by (unfold q; lia).
  set (r0 := (a - s * (g * 2)) mod q).
  assert (Hr0 : 0 <= r0 < q) by (unfold r0, q; lia).
  rewrite (sub_spec a r0) by (unfold q in *; lia).
  set (t := (a - r0) mod q).
  assert (Ht : 0 <= t < q) by (unfold t, q; lia).
  unfold q in *.
  rewrite (wrapu32_small t) by lia.
  rewrite divBy2Gamma2_spec by (auto; change (2^32) with 4294967296; lia).
  rewrite (wraps32_small t) by lia.
  rewrite ct_eq by lia.
  rewrite (sub_spec r0 1) by (unfold q; lia).
  unfold decompose_spec, cmod, q.
  (* relate the code's quantities to the spec's *)
  assert (Hcm : a mod (2 * g) = a - (a / (2 * g)) * (2 * g)) by lia.
  destruct (t =? 8380416) eqn:Et; [apply Z.eqb_eq in Et | apply Z.eqb_neq in Et].
  - rewrite !ct_select_1.
    rewrite (wraps64_small ((r0 - 1) mod 8380417)) by lia.
    rewrite wrapu32_small by lia. rewrite wrapu32_small by lia.
    destruct (a mod (2 * g) <=? 2 * g / 2) eqn:E; [apply Z.leb_le in E | apply Z.leb_gt in E].
    + destruct (a - a mod (2 * g) =? 8380417 - 1) eqn:E2; [apply Z.eqb_eq in E2 | apply Z.eqb_neq in E2];
        f_equal; f_equal; unfold t, r0, s, q in *; destruct Hg; subst g; lia.
    + destruct (a - (a mod (2 * g) - 2 * g) =? 8380417 - 1) eqn:E2; [apply Z.eqb_eq in E2 | apply Z.eqb_neq in E2];
        f_equal; f_equal; unfold t, r0, s, q in *; destruct Hg; subst g; lia.
  - rewrite !ct_select_0.
    rewrite (wraps64_small (t / (2 * g))) by (destruct Hg; subst g; lia).
    rewrite (wraps64_small r0) by (unfold q in *; lia).
    rewrite wrapu32_small by (destruct Hg; subst g; lia).
    rewrite wrapu32_small by (unfold q in *; lia).
    destruct (a mod (2 * g) <=? 2 * g / 2) eqn:E; [apply Z.leb_le in E | apply Z.leb_gt in E].
    + destruct (a - a mod (2 * g) =? 8380417 - 1) eqn:E2; [apply Z.eqb_eq in E2 | apply Z.eqb_neq in E2];
        f_equal; f_equal; unfold t, r0, s, q in *; destruct Hg; subst g; lia.
    + destruct (a - (a mod (2 * g) - 2 * g) =? 8380417 - 1) eqn:E2; [apply Z.eqb_eq in E2 | apply Z.eqb_neq in E2];
        f_equal; f_equal; unfold t, r0, s, q in *; destruct Hg; subst g; lia.
Qed.
