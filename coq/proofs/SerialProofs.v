(* Proofs about model/Serial.v: big-integer buffers, generic key
   serialisation, keysets. *)
From Coq Require Import List NArith Bool Lia ZifyN ZifyNat ZifyBool Arith.
From Tink Require Import Bytes ProtoWire ProtoWireProofs SerialTables Serial.
Import ListNotations.
Open Scope N_scope.

(* ------------------------------------------------------------------ *)
(* big-endian values                                                   *)
(* ------------------------------------------------------------------ *)
Lemma le_val_app a c : le_val (a ++ c) = le_val a + 256 ^ N.of_nat (length a) * le_val c.
Proof.
  induction a as [|x a IH]; cbn [app le_val length].
  - change (N.of_nat 0) with 0. rewrite N.pow_0_r. lia.
  - rewrite IH, Nnat.Nat2N.inj_succ, N.pow_succ_r by lia. lia.
Qed.

Lemma be_val_app p q : be_val (p ++ q) = be_val p * 256 ^ N.of_nat (length q) + be_val q.
Proof. unfold be_val. rewrite rev_app_distr, le_val_app, rev_length. lia. Qed.

Lemma be_val_cons x b : be_val (x :: b) = x * 256 ^ N.of_nat (length b) + be_val b.
Proof. change (x :: b) with ([x] ++ b). rewrite be_val_app. unfold be_val at 1. simpl. lia. Qed.

Lemma be_val_nil : be_val [] = 0.
Proof. reflexivity. Qed.

Lemma be_val_zeros k : be_val (zeros k) = 0.
Proof.
  induction k as [|k IH]; [reflexivity|].
  change (zeros (S k)) with (0 :: zeros k). rewrite be_val_cons, IH. lia.
Qed.

Lemma be_val_zeros_app k b : be_val (zeros k ++ b) = be_val b.
Proof. rewrite be_val_app, be_val_zeros. lia. Qed.

Lemma be_val_lt b : wfb b -> be_val b < 256 ^ N.of_nat (length b).
Proof.
  induction 1 as [|x b Hx _ IH].
  - reflexivity.
  - rewrite be_val_cons. cbn [length]. rewrite Nnat.Nat2N.inj_succ, N.pow_succ_r by lia.
    assert (0 < 256 ^ N.of_nat (length b)) by (apply N.neq_0_lt_0, N.pow_nonzero; lia). nia.
Qed.

Lemma be_val_pos b : existsb (fun x => negb (x =? 0)) b = true -> 1 <= be_val b.
Proof.
  induction b as [|x b IH]; cbn [existsb]; [discriminate|].
  intros H. rewrite be_val_cons.
  assert (0 < 256 ^ N.of_nat (length b)) by (apply N.neq_0_lt_0, N.pow_nonzero; lia).
  apply orb_true_iff in H. destruct H as [H|H].
  - apply negb_true_iff, N.eqb_neq in H. nia.
  - specialize (IH H). lia.
Qed.

Lemma all_zero_zeros b : forallb (N.eqb 0) b = true -> b = zeros (length b).
Proof.
  induction b as [|x b IH]; cbn [forallb length]; [reflexivity|].
  intros H. apply andb_true_iff in H. destruct H as [H1 H2]. apply N.eqb_eq in H1. subst x.
  change (zeros (S (length b))) with (0 :: zeros (length b)). f_equal. apply IH. exact H2.
Qed.

Lemma not_all_zero b : forallb (N.eqb 0) b = false -> existsb (fun x => negb (x =? 0)) b = true.
Proof.
  induction b as [|x b IH]; cbn [forallb existsb]; [discriminate|].
  intros H. apply andb_false_iff in H. destruct H as [H|H].
  - apply orb_true_iff. left. rewrite N.eqb_sym. rewrite H. reflexivity.
  - apply orb_true_iff. right. apply IH. exact H.
Qed.

Lemma le_bytes_le_val l : wfb l -> le_bytes (length l) (le_val l) = l.
Proof.
  induction 1 as [|x l Hx _ IH]; [reflexivity|].
  cbn [length le_bytes le_val].
  assert (E1 : (x + 256 * le_val l) mod 256 = x).
  { symmetry. apply (N.mod_unique _ 256 (le_val l) x); lia. }
  assert (E2 : (x + 256 * le_val l) / 256 = le_val l).
  { symmetry. apply (N.div_unique _ 256 (le_val l) x); lia. }
  rewrite E1, E2, IH. reflexivity.
Qed.

Lemma be_bytes_be_val b : wfb b -> be_bytes (length b) (be_val b) = b.
Proof.
  intros H. unfold be_bytes, be_val. rewrite <- (rev_length b).
  rewrite le_bytes_le_val by (apply Forall_rev; exact H). apply rev_involutive.
Qed.

(* a fixed-length big-endian encoding is determined by its value *)
Lemma be_val_inj a b : wfb a -> wfb b -> length a = length b -> be_val a = be_val b -> a = b.
Proof.
  intros Ha Hb Hl Hv. rewrite <- (be_bytes_be_val a Ha), <- (be_bytes_be_val b Hb). congruence.
Qed.

Lemma strip_zeros_val b : be_val (strip_zeros b) = be_val b.
Proof.
  induction b as [|x b IH]; [reflexivity|].
  cbn [strip_zeros]. destruct x; [|reflexivity].
  rewrite IH, be_val_cons. lia.
Qed.

Lemma strip_zeros_idem b : strip_zeros (strip_zeros b) = strip_zeros b.
Proof.
  induction b as [|x b IH]; [reflexivity|].
  cbn [strip_zeros]. destruct x; [exact IH | reflexivity].
Qed.

Lemma strip_zeros_wf b : wfb b -> wfb (strip_zeros b).
Proof.
  induction 1 as [|x b Hx Hb IH]; [constructor|].
  cbn [strip_zeros]. destruct x; [exact IH | constructor; assumption].
Qed.

Lemma strip_zeros_shape b : exists k, b = zeros k ++ strip_zeros b.
Proof.
  induction b as [|x b [k IH]]; [exists 0%nat; reflexivity|].
  cbn [strip_zeros]. destruct x.
  - exists (S k). change (zeros (S k)) with (0 :: zeros k). cbn [app]. f_equal. exact IH.
  - exists 0%nat. reflexivity.
Qed.

(* ------------------------------------------------------------------ *)
(* internal/ec.BigIntBytesToFixedSizeBuffer                            *)
(* ------------------------------------------------------------------ *)
Theorem fixed_size_buffer_some b size r :
  fixed_size_buffer b size = Some r ->
  length r = size /\ be_val r = be_val b /\
  (exists k, b = zeros k ++ r \/ r = zeros k ++ b).
Proof.
  unfold fixed_size_buffer.
  destruct (Nat.eqb (length b) size) eqn:E1.
  - intros H. inversion H; subst. apply Nat.eqb_eq in E1.
    repeat split; auto. exists 0%nat. left. reflexivity.
  - destruct (Nat.ltb (length b) size) eqn:E2.
    + intros H. inversion H; subst. apply Nat.ltb_lt in E2.
      repeat split.
      * rewrite app_length, zeros_length. lia.
      * apply be_val_zeros_app.
      * exists (size - length b)%nat. right. reflexivity.
    + destruct (forallb (N.eqb 0) (firstn (length b - size) b)) eqn:E3; [|discriminate].
      intros H. inversion H; subst.
      apply Nat.eqb_neq in E1. apply Nat.ltb_ge in E2.
      apply all_zero_zeros in E3. rewrite firstn_length in E3.
      replace (Nat.min (length b - size) (length b)) with (length b - size)%nat in E3 by lia.
      assert (Eb : b = zeros (length b - size) ++ skipn (length b - size) b).
      { rewrite <- E3. symmetry. apply firstn_skipn. }
      repeat split.
      * rewrite skipn_length. lia.
      * transitivity (be_val (zeros (length b - size) ++ skipn (length b - size) b));
          [symmetry; apply be_val_zeros_app | f_equal; symmetry; exact Eb].
      * exists (length b - size)%nat. left. exact Eb.
Qed.

Theorem fixed_size_buffer_none b size :
  wfb b -> (fixed_size_buffer b size = None <-> 256 ^ N.of_nat size <= be_val b).
Proof.
  intros Hb. split.
  - unfold fixed_size_buffer.
    destruct (Nat.eqb (length b) size) eqn:E1; [discriminate|].
    destruct (Nat.ltb (length b) size) eqn:E2; [discriminate|].
    destruct (forallb (N.eqb 0) (firstn (length b - size) b)) eqn:E3; [discriminate|].
    intros _. apply Nat.eqb_neq in E1. apply Nat.ltb_ge in E2.
    replace (be_val b) with (be_val (firstn (length b - size) b ++ skipn (length b - size) b))
      by (rewrite firstn_skipn; reflexivity).
    rewrite be_val_app, skipn_length.
    replace (length b - (length b - size))%nat with size by lia.
    pose proof (be_val_pos _ (not_all_zero _ E3)). nia.
  - intros H. destruct (fixed_size_buffer b size) as [r|] eqn:E; [|reflexivity].
    exfalso. destruct (fixed_size_buffer_some _ _ _ E) as (Hl & Hv & (k & Hs)).
    assert (Hr : wfb r).
    { destruct Hs as [Hs|Hs].
      - rewrite Hs in Hb. apply wfb_app in Hb. apply Hb.
      - rewrite Hs. apply wfb_app. split; [apply zeros_wf | exact Hb]. }
    pose proof (be_val_lt r Hr). rewrite Hl in H0. lia.
Qed.

(* closed form: the result is the size-byte big-endian encoding of the value *)
Corollary fixed_size_buffer_value b size r :
  wfb b -> fixed_size_buffer b size = Some r -> r = be_bytes size (be_val b).
Proof.
  intros Hb E. destruct (fixed_size_buffer_some _ _ _ E) as (Hl & Hv & (k & Hs)).
  assert (Hr : wfb r).
  { destruct Hs as [Hs|Hs].
    - rewrite Hs in Hb. apply wfb_app in Hb. apply Hb.
    - rewrite Hs. apply wfb_app. split; [apply zeros_wf | exact Hb]. }
  rewrite <- Hv, <- Hl. symmetry. apply be_bytes_be_val. exact Hr.
Qed.

Lemma fixed_size_buffer_exact b : fixed_size_buffer b (length b) = Some b.
Proof. unfold fixed_size_buffer. rewrite Nat.eqb_refl. reflexivity. Qed.

(* EC coordinates and private scalars: serialize (parse b) is the value on
   cs + 1 bytes (one leading zero byte), whatever leading zeros b had; it
   fails exactly when the value does not fit cs bytes; it is idempotent. *)
Theorem ec_coord_norm_spec cs b :
  wfb b ->
  (256 ^ N.of_nat cs <= be_val b -> ec_coord_norm cs b = None) /\
  (be_val b < 256 ^ N.of_nat cs -> ec_coord_norm cs b = Some (0 :: be_bytes cs (be_val b))).
Proof.
  intros Hb. unfold ec_coord_norm. split; intros H.
  - apply (fixed_size_buffer_none b cs Hb) in H. rewrite H. reflexivity.
  - destruct (fixed_size_buffer b cs) as [x|] eqn:E.
    + pose proof (fixed_size_buffer_value _ _ _ Hb E) as Ex.
      destruct (fixed_size_buffer_some _ _ _ E) as (Hl & _ & _).
      unfold fixed_size_buffer. rewrite Hl.
      replace (Nat.eqb cs (cs + 1)) with false by (symmetry; apply Nat.eqb_neq; lia).
      replace (Nat.ltb cs (cs + 1)) with true by (symmetry; apply Nat.ltb_lt; lia).
      replace (cs + 1 - cs)%nat with 1%nat by lia. rewrite Ex. reflexivity.
    + apply (fixed_size_buffer_none b cs Hb) in E. lia.
Qed.

Theorem ec_coord_norm_idem cs b r : wfb b -> ec_coord_norm cs b = Some r -> ec_coord_norm cs r = Some r.
Proof.
  intros Hb E.
  destruct (N.lt_ge_cases (be_val b) (256 ^ N.of_nat cs)) as [L|G].
  - rewrite (proj2 (ec_coord_norm_spec cs b Hb) L) in E. inversion E; subst r.
    assert (Hw : wfb (0 :: be_bytes cs (be_val b))) by (constructor; [lia | apply be_bytes_wf]).
    assert (Hv : be_val (0 :: be_bytes cs (be_val b)) = be_val b).
    { rewrite be_val_cons, be_val_be_bytes, N.mod_small by exact L. lia. }
    rewrite (proj2 (ec_coord_norm_spec cs _ Hw)) by (rewrite Hv; exact L).
    rewrite Hv. reflexivity.
  - rewrite (proj1 (ec_coord_norm_spec cs b Hb) G) in E. discriminate.
Qed.

(* ------------------------------------------------------------------ *)
(* enum tables (SerialTables.v): facts by computation over the finite
   tables, re-checked whenever the tables are regenerated                *)
(* ------------------------------------------------------------------ *)
Lemma lookup_in t k x : lookup t k = Some x -> In (k, x) t.
Proof.
  induction t as [|[a b] t IH]; cbn [lookup]; [discriminate|].
  destruct (a =? k) eqn:E; intros H.
  - apply N.eqb_eq in E. inversion H; subst. left. reflexivity.
  - right. apply IH. exact H.
Qed.

Lemma lookup_bytes_in {A} (t : list (bytes * A)) k x : lookup_bytes t k = Some x -> exists k', In (k', x) t.
Proof.
  induction t as [|[a b] t IH]; cbn [lookup_bytes]; [discriminate|].
  destruct (beq a k); intros H.
  - inversion H; subst. exists a. left. reflexivity.
  - destruct (IH H) as [k' Hk]. exists k'. right. exact Hk.
Qed.

(* Go enum -> proto enum -> Go enum is the identity on every listed value *)
Definition fwd_ok (to_p from_p : list (N * N)) : bool :=
  forallb (fun vp => match lookup from_p (snd vp) with Some v => v =? fst vp | None => false end) to_p.
(* proto enum -> Go enum -> proto enum is the identity, except that the
   OutputPrefixType maps may send LEGACY (2) to the variant that is written
   back as CRUNCHY (4) *)
Definition bwd_ok (isp : bool) (to_p from_p : list (N * N)) : bool :=
  forallb (fun pv => match lookup to_p (snd pv) with
                     | Some p => (p =? fst pv) || (isp && (fst pv =? 2) && (p =? 4))
                     | None => false
                     end) from_p.
(* what is written back parses to the same Go value again *)
Definition stable_ok (to_p from_p : list (N * N)) : bool :=
  forallb (fun pv => match lookup to_p (snd pv) with
                     | Some p => match lookup from_p p with Some v => v =? snd pv | None => false end
                     | None => false
                     end) from_p.
Definition keys_distinct (t : list (N * N)) : bool := nodupb (map fst t).

Definition pair_ok (x : bool * list (N * N) * list (N * N)) : bool :=
  let '(isp, to_p, from_p) := x in
  keys_distinct to_p && keys_distinct from_p && fwd_ok to_p from_p && bwd_ok isp to_p from_p && stable_ok to_p from_p.

Lemma enum_pairs_ok : forallb pair_ok enum_map_pairs = true.
Proof. vm_compute. reflexivity. Qed.

Lemma fwd_ok_spec to_p from_p : fwd_ok to_p from_p = true ->
  forall v p, lookup to_p v = Some p -> lookup from_p p = Some v.
Proof.
  intros H v p Hl. apply lookup_in in Hl. unfold fwd_ok in H. rewrite forallb_forall in H.
  specialize (H _ Hl). cbn [fst snd] in H. destruct (lookup from_p p); [|discriminate].
  apply N.eqb_eq in H. congruence.
Qed.

Lemma bwd_ok_spec isp to_p from_p : bwd_ok isp to_p from_p = true ->
  forall p v, lookup from_p p = Some v ->
    lookup to_p v = Some p \/ (isp = true /\ p = 2 /\ lookup to_p v = Some 4).
Proof.
  intros H p v Hl. apply lookup_in in Hl. unfold bwd_ok in H. rewrite forallb_forall in H.
  specialize (H _ Hl). cbn [fst snd] in H. destruct (lookup to_p v) as [p'|]; [|discriminate].
  apply orb_true_iff in H. destruct H as [H|H].
  - apply N.eqb_eq in H. left. congruence.
  - apply andb_true_iff in H. destruct H as [H H3]. apply andb_true_iff in H. destruct H as [H1 H2].
    apply N.eqb_eq in H2, H3. right. subst. auto.
Qed.

Lemma stable_ok_spec to_p from_p : stable_ok to_p from_p = true ->
  forall p v, lookup from_p p = Some v -> exists p', lookup to_p v = Some p' /\ lookup from_p p' = Some v.
Proof.
  intros H p v Hl. apply lookup_in in Hl. unfold stable_ok in H. rewrite forallb_forall in H.
  specialize (H _ Hl). cbn [fst snd] in H. destruct (lookup to_p v) as [p'|]; [|discriminate].
  exists p'. split; [reflexivity|]. destruct (lookup from_p p'); [|discriminate].
  apply N.eqb_eq in H. congruence.
Qed.

(* every enum map pair of every protoserialization.go round-trips *)
Theorem enum_maps_roundtrip isp to_p from_p :
  In (isp, to_p, from_p) enum_map_pairs ->
  (forall v p, lookup to_p v = Some p -> lookup from_p p = Some v) /\
  (forall p v, lookup from_p p = Some v ->
     lookup to_p v = Some p \/ (isp = true /\ p = 2 /\ lookup to_p v = Some 4)) /\
  (forall p v, lookup from_p p = Some v -> exists p', lookup to_p v = Some p' /\ lookup from_p p' = Some v).
Proof.
  intros Hin. pose proof enum_pairs_ok as H. rewrite forallb_forall in H. specialize (H _ Hin).
  unfold pair_ok in H. rewrite !andb_true_iff in H. destruct H as ((((_ & _) & F) & B) & S).
  repeat split; [apply fwd_ok_spec; exact F | eapply bwd_ok_spec; exact B | apply stable_ok_spec; exact S].
Qed.

(* the LEGACY -> CRUNCHY collapse really occurs (it is the only non-injective case) *)
Lemma legacy_collapse_example :
  lookup aead_aesgcm_variantFromProto 2 = lookup aead_aesgcm_variantFromProto 4 /\
  (exists v, lookup aead_aesgcm_variantFromProto 2 = Some v /\ lookup aead_aesgcm_protoOutputPrefixTypeFromVariant v = Some 4).
Proof. split; [reflexivity | exists 2; split; reflexivity]. Qed.

(* JWT: strategy -> prefix -> strategy, where the presence of a custom kid is
   what distinguishes CustomKID from IgnoredKID (both are written as RAW) *)
Definition jwt_ok (x : N * list (N * N) * list (N * N) * list (N * N)) : bool :=
  let '(custom, to_p, from_p, from_kid) := x in
  keys_distinct to_p && keys_distinct from_p && keys_distinct from_kid &&
  forallb (fun vp => match lookup (if fst vp =? custom then from_kid else from_p) (snd vp) with
                     | Some v => v =? fst vp | None => false end) to_p &&
  stable_ok to_p from_p && stable_ok to_p from_kid &&
  (* with a custom kid only RAW yields CustomKID *)
  forallb (fun pv => negb (snd pv =? custom) || (fst pv =? 3)) from_kid &&
  forallb (fun pv => negb (snd pv =? custom)) from_p.
Lemma jwt_maps_ok : forallb jwt_ok jwt_custom_kid_maps = true.
Proof. vm_compute. reflexivity. Qed.

(* per registered type URL *)
Definition pm_ok (e : bytes * (N * (N * (list (N * N) * (list (N * N) * list (N * N)))))) : bool :=
  let '(_, (kind, (custom, (to_p, (from_p, from_kid))))) := e in
  if kind =? 2 then
    forallb (fun vp => match lookup (if fst vp =? custom then from_kid else from_p) (snd vp) with
                       | Some v => v =? fst vp | None => false end) to_p
    && stable_ok to_p from_p && stable_ok to_p from_kid
  else if kind =? 1 then true
  else (kind =? 0) && fwd_ok to_p from_p && stable_ok to_p from_p.
Lemma prefix_maps_ok : forallb pm_ok prefix_maps = true.
Proof. vm_compute. reflexivity. Qed.
