(* Proofs about model/Serial.v: big-integer buffers, generic key
   serialisation, keysets. *)
From Coq Require Import List NArith Bool Lia ZifyN ZifyNat ZifyBool Arith.
From Tink Require Import Bytes ProtoWire ProtoWireProofs SerialTables Serial.
Import ListNotations.
Open Scope N_scope.

(* ------------------------------------------------------------------ *)
(* big-endian values                                                   *)
(* ------------------------------------------------------------------ *)
Lemma le_val_app a c : le_val (a ++ c) = le_val a + 256 ^ N.of_nat (length a) * le_val c.
Proof.
  induction a as [|x a IH]; cbn [app le_val length].
  - change (N.of_nat 0) with 0. rewrite N.pow_0_r. lia.
  - rewrite IH, Nnat.Nat2N.inj_succ, N.pow_succ_r by lia. lia.
Qed.

Lemma be_val_app p q : be_val (p ++ q) = be_val p * 256 ^ N.of_nat (length q) + be_val q.
Proof. unfold be_val. rewrite rev_app_distr, le_val_app, rev_length. lia. Qed.

Lemma be_val_cons x b : be_val (x :: b) = x * 256 ^ N.of_nat (length b) + be_val b.
Proof. change (x :: b) with ([x] ++ b). rewrite be_val_app. unfold be_val at 1. simpl. lia. Qed.

Lemma be_val_nil : be_val [] = 0.
Proof. reflexivity. Qed.

Lemma be_val_zeros k : be_val (zeros k) = 0.
Proof.
  induction k as [|k IH]; [reflexivity|].
  change (zeros (S k)) with (0 :: zeros k). rewrite be_val_cons, IH. lia.
Qed.

Lemma be_val_zeros_app k b : be_val (zeros k ++ b) = be_val b.
Proof. rewrite be_val_app, be_val_zeros. lia. Qed.

Lemma be_val_lt b : wfb b -> be_val b < 256 ^ N.of_nat (length b).
Proof.
  induction 1 as [|x b Hx _ IH].
  - reflexivity.
  - rewrite be_val_cons. cbn [length]. rewrite Nnat.Nat2N.inj_succ, N.pow_succ_r by lia.
    assert (0 < 256 ^ N.of_nat (length b)) by (apply N.neq_0_lt_0, N.pow_nonzero; lia). nia.
Qed.

Lemma be_val_pos b : existsb (fun x => negb (x =? 0)) b = true -> 1 <= be_val b.
Proof.
  induction b as [|x b IH]; cbn [existsb]; [discriminate|].
  intros H. rewrite be_val_cons.
  assert (0 < 256 ^ N.of_nat (length b)) by (apply N.neq_0_lt_0, N.pow_nonzero; lia).
  apply orb_true_iff in H. destruct H as [H|H].
  - apply negb_true_iff, N.eqb_neq in H. nia.
  - specialize (IH H). lia.
Qed.

Lemma all_zero_zeros b : forallb (N.eqb 0) b = true -> b = zeros (length b).
Proof.
  induction b as [|x b IH]; cbn [forallb length]; [reflexivity|].
  intros H. apply andb_true_iff in H. destruct H as [H1 H2]. apply N.eqb_eq in H1. subst x.
  change (zeros (S (length b))) with (0 :: zeros (length b)). f_equal. apply IH. exact H2.
Qed.

Lemma not_all_zero b : forallb (N.eqb 0) b = false -> existsb (fun x => negb (x =? 0)) b = true.
Proof.
  induction b as [|x b IH]; cbn [forallb existsb]; [discriminate|].
  intros H. apply andb_false_iff in H. destruct H as [H|H].
  - apply orb_true_iff. left. rewrite N.eqb_sym. rewrite H. reflexivity.
  - apply orb_true_iff. right. apply IH. exact H.
Qed.

Lemma le_bytes_le_val l : wfb l -> le_bytes (length l) (le_val l) = l.
Proof.
  induction 1 as [|x l Hx _ IH]; [reflexivity|].
  cbn [length le_bytes le_val].
  assert (E1 : (x + 256 * le_val l) mod 256 = x).
  { symmetry. apply (N.mod_unique _ 256 (le_val l) x); lia. }
  assert (E2 : (x + 256 * le_val l) / 256 = le_val l).
  { symmetry. apply (N.div_unique _ 256 (le_val l) x); lia. }
  rewrite E1, E2, IH. reflexivity.
Qed.

Lemma be_bytes_be_val b : wfb b -> be_bytes (length b) (be_val b) = b.
Proof.
  intros H. unfold be_bytes, be_val. rewrite <- (rev_length b).
  rewrite le_bytes_le_val by (apply Forall_rev; exact H). apply rev_involutive.
Qed.

(* a fixed-length big-endian encoding is determined by its value *)
Lemma be_val_inj a b : wfb a -> wfb b -> length a = length b -> be_val a = be_val b -> a = b.
Proof.
  intros Ha Hb Hl Hv. rewrite <- (be_bytes_be_val a Ha), <- (be_bytes_be_val b Hb). congruence.
Qed.

Lemma strip_zeros_val b : be_val (strip_zeros b) = be_val b.
Proof.
  induction b as [|x b IH]; [reflexivity|].
  cbn [strip_zeros]. destruct x; [|reflexivity].
  rewrite IH, be_val_cons. lia.
Qed.

Lemma strip_zeros_idem b : strip_zeros (strip_zeros b) = strip_zeros b.
Proof.
  induction b as [|x b IH]; [reflexivity|].
  cbn [strip_zeros]. destruct x; [exact IH | reflexivity].
Qed.

Lemma strip_zeros_wf b : wfb b -> wfb (strip_zeros b).
Proof.
  induction 1 as [|x b Hx Hb IH]; [constructor|].
  cbn [strip_zeros]. destruct x; [exact IH | constructor; assumption].
Qed.

Lemma strip_zeros_shape b : exists k, b = zeros k ++ strip_zeros b.
Proof.
  induction b as [|x b [k IH]]; [exists 0%nat; reflexivity|].
  cbn [strip_zeros]. destruct x.
  - exists (S k). change (zeros (S k)) with (0 :: zeros k). cbn [app]. f_equal. exact IH.
  - exists 0%nat. reflexivity.
Qed.

(* ------------------------------------------------------------------ *)
(* internal/ec.BigIntBytesToFixedSizeBuffer                            *)
(* ------------------------------------------------------------------ *)
Theorem fixed_size_buffer_some b size r :
  fixed_size_buffer b size = Some r ->
  length r = size /\ be_val r = be_val b /\
  (exists k, b = zeros k ++ r \/ r = zeros k ++ b).
Proof.
  unfold fixed_size_buffer.
  destruct (Nat.eqb (length b) size) eqn:E1.
  - intros H. inversion H; subst. apply Nat.eqb_eq in E1.
    repeat split; auto. exists 0%nat. left. reflexivity.
  - destruct (Nat.ltb (length b) size) eqn:E2.
    + intros H. inversion H; subst. apply Nat.ltb_lt in E2.
      repeat split.
      * rewrite app_length, zeros_length. lia.
      * apply be_val_zeros_app.
      * exists (size - length b)%nat. right. reflexivity.
    + destruct (forallb (N.eqb 0) (firstn (length b - size) b)) eqn:E3; [|discriminate].
      intros H. inversion H; subst.
      apply Nat.eqb_neq in E1. apply Nat.ltb_ge in E2.
      apply all_zero_zeros in E3. rewrite firstn_length in E3.
      replace (Nat.min (length b - size) (length b)) with (length b - size)%nat in E3 by lia.
      assert (Eb : b = zeros (length b - size) ++ skipn (length b - size) b).
      { rewrite <- E3. symmetry. apply firstn_skipn. }
      repeat split.
      * rewrite skipn_length. lia.
      * transitivity (be_val (zeros (length b - size) ++ skipn (length b - size) b));
          [symmetry; apply be_val_zeros_app | f_equal; symmetry; exact Eb].
      * exists (length b - size)%nat. left. exact Eb.
Qed.

Theorem fixed_size_buffer_none b size :
  wfb b -> (fixed_size_buffer b size = None <-> 256 ^ N.of_nat size <= be_val b).
Proof.
  intros Hb. split.
  - unfold fixed_size_buffer.
    destruct (Nat.eqb (length b) size) eqn:E1; [discriminate|].
    destruct (Nat.ltb (length b) size) eqn:E2; [discriminate|].
    destruct (forallb (N.eqb 0) (firstn (length b - size) b)) eqn:E3; [discriminate|].
    intros _. apply Nat.eqb_neq in E1. apply Nat.ltb_ge in E2.
    replace (be_val b) with (be_val (firstn (length b - size) b ++ skipn (length b - size) b))
      by (rewrite firstn_skipn; reflexivity).
    rewrite be_val_app, skipn_length.
    replace (length b - (length b - size))%nat with size by lia.
    pose proof (be_val_pos _ (not_all_zero _ E3)). nia.
  - intros H. destruct (fixed_size_buffer b size) as [r|] eqn:E; [|reflexivity].
    exfalso. destruct (fixed_size_buffer_some _ _ _ E) as (Hl & Hv & (k & Hs)).
    assert (Hr : wfb r).
    { destruct Hs as [Hs|Hs].
      - rewrite Hs in Hb. apply wfb_app in Hb. apply Hb.
      - rewrite Hs. apply wfb_app. split; [apply zeros_wf | exact Hb]. }
    pose proof (be_val_lt r Hr). rewrite Hl in H0. lia.
Qed.

(* closed form: the result is the size-byte big-endian encoding of the value *)
Corollary fixed_size_buffer_value b size r :
  wfb b -> fixed_size_buffer b size = Some r -> r = be_bytes size (be_val b).
Proof.
  intros Hb E. destruct (fixed_size_buffer_some _ _ _ E) as (Hl & Hv & (k & Hs)).
  assert (Hr : wfb r).
  { destruct Hs as [Hs|Hs].
    - rewrite Hs in Hb. apply wfb_app in Hb. apply Hb.
    - rewrite Hs. apply wfb_app. split; [apply zeros_wf | exact Hb]. }
  rewrite <- Hv, <- Hl. symmetry. apply be_bytes_be_val. exact Hr.
Qed.

Lemma fixed_size_buffer_exact b : fixed_size_buffer b (length b) = Some b.
Proof. unfold fixed_size_buffer. rewrite Nat.eqb_refl. reflexivity. Qed.

(* EC coordinates and private scalars: serialize (parse b) is the value on
   cs + 1 bytes (one leading zero byte), whatever leading zeros b had; it
   fails exactly when the value does not fit cs bytes; it is idempotent. *)
Theorem ec_coord_norm_spec cs b :
  wfb b ->
  (256 ^ N.of_nat cs <= be_val b -> ec_coord_norm cs b = None) /\
  (be_val b < 256 ^ N.of_nat cs -> ec_coord_norm cs b = Some (0 :: be_bytes cs (be_val b))).
Proof.
  intros Hb. unfold ec_coord_norm. split; intros H.
  - apply (fixed_size_buffer_none b cs Hb) in H. rewrite H. reflexivity.
  - destruct (fixed_size_buffer b cs) as [x|] eqn:E.
    + pose proof (fixed_size_buffer_value _ _ _ Hb E) as Ex.
      destruct (fixed_size_buffer_some _ _ _ E) as (Hl & _ & _).
      unfold fixed_size_buffer. rewrite Hl.
      replace (Nat.eqb cs (cs + 1)) with false by (symmetry; apply Nat.eqb_neq; lia).
      replace (Nat.ltb cs (cs + 1)) with true by (symmetry; apply Nat.ltb_lt; lia).
      replace (cs + 1 - cs)%nat with 1%nat by lia. rewrite Ex. reflexivity.
    + apply (fixed_size_buffer_none b cs Hb) in E. lia.
Qed.

Theorem ec_coord_norm_idem cs b r : wfb b -> ec_coord_norm cs b = Some r -> ec_coord_norm cs r = Some r.
Proof.
  intros Hb E.
  destruct (N.lt_ge_cases (be_val b) (256 ^ N.of_nat cs)) as [L|G].
  - rewrite (proj2 (ec_coord_norm_spec cs b Hb) L) in E. inversion E; subst r.
    assert (Hw : wfb (0 :: be_bytes cs (be_val b))) by (constructor; [lia | apply be_bytes_wf]).
    assert (Hv : be_val (0 :: be_bytes cs (be_val b)) = be_val b).
    { rewrite be_val_cons, be_val_be_bytes, N.mod_small by exact L. lia. }
    rewrite (proj2 (ec_coord_norm_spec cs _ Hw)) by (rewrite Hv; exact L).
    rewrite Hv. reflexivity.
  - rewrite (proj1 (ec_coord_norm_spec cs b Hb) G) in E. discriminate.
Qed.

(* ------------------------------------------------------------------ *)
(* enum tables (SerialTables.v): facts by computation over the finite
   tables, re-checked whenever the tables are regenerated                *)
(* ------------------------------------------------------------------ *)
Lemma lookup_in t k x : lookup t k = Some x -> In (k, x) t.
Proof.
  induction t as [|[a b] t IH]; cbn [lookup]; [discriminate|].
  destruct (a =? k) eqn:E; intros H.
  - apply N.eqb_eq in E. inversion H; subst. left. reflexivity.
  - right. apply IH. exact H.
Qed.

Lemma lookup_bytes_in {A} (t : list (bytes * A)) k x : lookup_bytes t k = Some x -> exists k', In (k', x) t.
Proof.
  induction t as [|[a b] t IH]; cbn [lookup_bytes]; [discriminate|].
  destruct (beq a k); intros H.
  - inversion H; subst. exists a. left. reflexivity.
  - destruct (IH H) as [k' Hk]. exists k'. right. exact Hk.
Qed.

(* Go enum -> proto enum -> Go enum is the identity on every listed value *)
Definition fwd_ok (to_p from_p : list (N * N)) : bool :=
  forallb (fun vp => match lookup from_p (snd vp) with Some v => v =? fst vp | None => false end) to_p.
(* ... except for the listed Go values *)
Definition fwd_ok_exc (exc : list N) (to_p from_p : list (N * N)) : bool :=
  forallb (fun vp => existsb (N.eqb (fst vp)) exc ||
                     match lookup from_p (snd vp) with Some v => v =? fst vp | None => false end) to_p.
Fixpoint table_eqb (a b : list (N * N)) : bool :=
  match a, b with
  | [], [] => true
  | (x1, y1) :: a', (x2, y2) :: b' => (x1 =? x2) && (y1 =? y2) && table_eqb a' b'
  | _, _ => false
  end.
(* The one Go-side exception in the tree: ecies.UnspecifiedPointFormat (0), legal
   only for X25519, is written as COMPRESSED; the parser restores it from the
   curve type, not from this map (hybrid/ecies/protoserialization.go). *)
Definition fwd_exceptions (to_p : list (N * N)) : list N :=
  if table_eqb to_p hybrid_ecies_protoEcPointFormatFromPointFormat then [0] else [].
(* proto enum -> Go enum -> proto enum is the identity, except that the
   OutputPrefixType maps may send LEGACY (2) to the variant that is written
   back as CRUNCHY (4) *)
Definition bwd_ok (isp : bool) (to_p from_p : list (N * N)) : bool :=
  forallb (fun pv => match lookup to_p (snd pv) with
                     | Some p => (p =? fst pv) || (isp && (fst pv =? 2) && (p =? 4))
                     | None => false
                     end) from_p.
(* what is written back parses to the same Go value again *)
Definition stable_ok (to_p from_p : list (N * N)) : bool :=
  forallb (fun pv => match lookup to_p (snd pv) with
                     | Some p => match lookup from_p p with Some v => v =? snd pv | None => false end
                     | None => false
                     end) from_p.
Definition keys_distinct (t : list (N * N)) : bool := nodupb (map fst t).

Definition pair_ok (x : bool * list (N * N) * list (N * N)) : bool :=
  let '(isp, to_p, from_p) := x in
  keys_distinct to_p && keys_distinct from_p && fwd_ok_exc (fwd_exceptions to_p) to_p from_p
  && bwd_ok isp to_p from_p && stable_ok to_p from_p.

Lemma enum_pairs_ok : forallb pair_ok enum_map_pairs = true.
Proof. vm_compute. reflexivity. Qed.

Lemma fwd_ok_spec to_p from_p : fwd_ok to_p from_p = true ->
  forall v p, lookup to_p v = Some p -> lookup from_p p = Some v.
Proof.
  intros H v p Hl. apply lookup_in in Hl. unfold fwd_ok in H. rewrite forallb_forall in H.
  specialize (H _ Hl). cbn [fst snd] in H. destruct (lookup from_p p); [|discriminate].
  apply N.eqb_eq in H. congruence.
Qed.

Lemma fwd_ok_exc_spec exc to_p from_p : fwd_ok_exc exc to_p from_p = true ->
  forall v p, lookup to_p v = Some p -> In v exc \/ lookup from_p p = Some v.
Proof.
  intros H v p Hl. apply lookup_in in Hl. unfold fwd_ok_exc in H. rewrite forallb_forall in H.
  specialize (H _ Hl). cbn [fst snd] in H. apply orb_true_iff in H. destruct H as [H|H].
  - left. apply existsb_exists in H. destruct H as (x & Hx & E). apply N.eqb_eq in E. subst x. exact Hx.
  - right. destruct (lookup from_p p); [|discriminate]. apply N.eqb_eq in H. congruence.
Qed.

Lemma bwd_ok_spec isp to_p from_p : bwd_ok isp to_p from_p = true ->
  forall p v, lookup from_p p = Some v ->
    lookup to_p v = Some p \/ (isp = true /\ p = 2 /\ lookup to_p v = Some 4).
Proof.
  intros H p v Hl. apply lookup_in in Hl. unfold bwd_ok in H. rewrite forallb_forall in H.
  specialize (H _ Hl). cbn [fst snd] in H. destruct (lookup to_p v) as [p'|]; [|discriminate].
  apply orb_true_iff in H. destruct H as [H|H].
  - apply N.eqb_eq in H. left. congruence.
  - apply andb_true_iff in H. destruct H as [H H3]. apply andb_true_iff in H. destruct H as [H1 H2].
    apply N.eqb_eq in H2, H3. right. subst. auto.
Qed.

Lemma stable_ok_spec to_p from_p : stable_ok to_p from_p = true ->
  forall p v, lookup from_p p = Some v -> exists p', lookup to_p v = Some p' /\ lookup from_p p' = Some v.
Proof.
  intros H p v Hl. apply lookup_in in Hl. unfold stable_ok in H. rewrite forallb_forall in H.
  specialize (H _ Hl). cbn [fst snd] in H. destruct (lookup to_p v) as [p'|]; [|discriminate].
  exists p'. split; [reflexivity|]. destruct (lookup from_p p'); [|discriminate].
  apply N.eqb_eq in H. congruence.
Qed.

(* every enum map pair of every protoserialization.go round-trips *)
Theorem enum_maps_roundtrip isp to_p from_p :
  In (isp, to_p, from_p) enum_map_pairs ->
  (forall v p, lookup to_p v = Some p -> In v (fwd_exceptions to_p) \/ lookup from_p p = Some v) /\
  (forall p v, lookup from_p p = Some v ->
     lookup to_p v = Some p \/ (isp = true /\ p = 2 /\ lookup to_p v = Some 4)) /\
  (forall p v, lookup from_p p = Some v -> exists p', lookup to_p v = Some p' /\ lookup from_p p' = Some v).
Proof.
  intros Hin. pose proof enum_pairs_ok as H. rewrite forallb_forall in H. specialize (H _ Hin).
  unfold pair_ok in H. rewrite !andb_true_iff in H. destruct H as ((((_ & _) & F) & B) & S).
  repeat split; [apply fwd_ok_exc_spec; exact F | eapply bwd_ok_spec; exact B | apply stable_ok_spec; exact S].
Qed.

(* the LEGACY -> CRUNCHY collapse really occurs (it is the only non-injective case) *)
Lemma legacy_collapse_example :
  lookup aead_aesgcm_variantFromProto 2 = lookup aead_aesgcm_variantFromProto 4 /\
  (exists v, lookup aead_aesgcm_variantFromProto 2 = Some v /\ lookup aead_aesgcm_protoOutputPrefixTypeFromVariant v = Some 4).
Proof. split; [reflexivity | exists 2; split; reflexivity]. Qed.

(* JWT: strategy -> prefix -> strategy, where the presence of a custom kid is
   what distinguishes CustomKID from IgnoredKID (both are written as RAW) *)
Definition jwt_ok (x : N * list (N * N) * list (N * N) * list (N * N)) : bool :=
  let '(custom, to_p, from_p, from_kid) := x in
  keys_distinct to_p && keys_distinct from_p && keys_distinct from_kid &&
  forallb (fun vp => match lookup (if fst vp =? custom then from_kid else from_p) (snd vp) with
                     | Some v => v =? fst vp | None => false end) to_p &&
  stable_ok to_p from_p && stable_ok to_p from_kid &&
  (* with a custom kid only RAW yields CustomKID *)
  forallb (fun pv => negb (snd pv =? custom) || (fst pv =? 3)) from_kid &&
  forallb (fun pv => negb (snd pv =? custom)) from_p.
Lemma jwt_maps_ok : forallb jwt_ok jwt_custom_kid_maps = true.
Proof. vm_compute. reflexivity. Qed.

(* per registered type URL *)
Definition pm_ok (e : bytes * (N * (N * (list (N * N) * (list (N * N) * list (N * N)))))) : bool :=
  let '(_, (kind, (custom, (to_p, (from_p, from_kid))))) := e in
  if kind =? 2 then
    forallb (fun vp => match lookup (if fst vp =? custom then from_kid else from_p) (snd vp) with
                       | Some v => v =? fst vp | None => false end) to_p
    && stable_ok to_p from_p && stable_ok to_p from_kid
    && forallb (fun pv => negb (snd pv =? custom)) from_p
  else if kind =? 1 then true
  else (kind =? 0) && fwd_ok to_p from_p && stable_ok to_p from_p.
Lemma prefix_maps_ok : forallb pm_ok prefix_maps = true.
Proof. vm_compute. reflexivity. Qed.

(* ------------------------------------------------------------------ *)
(* generic key <-> key serialisation                                   *)
(* ------------------------------------------------------------------ *)
(* what a key object guarantees about its variant (its constructors enforce it) *)
Definition variant_ok (T : ktype) (k : gkey) : Prop :=
  match kt_prefix T with
  | PTables to_p from_p =>
      forall p, lookup to_p (gk_variant k) = Some p -> lookup from_p p = Some (gk_variant k)
  | PJwt custom to_p from_p from_kid path =>
      (* a custom kid is present exactly for the CustomKID strategy *)
      (has_path (kt_schema T) (gk_fields k) path = true <-> gk_variant k = custom) /\
      forall p, lookup to_p (gk_variant k) = Some p ->
        lookup (if gk_variant k =? custom then from_kid else from_p) p = Some (gk_variant k)
  | PIgnored => gk_variant k = 0 /\ gk_id k = 0
  end.

Lemma new_key_serialization_some url value mat prefix id s :
  new_key_serialization url value mat prefix id = Some s ->
  s = mkKser url value mat prefix id /\ (prefix = prefix_raw -> id = 0).
Proof.
  unfold new_key_serialization.
  destruct ((prefix =? prefix_raw) && negb (id =? 0)) eqn:E; [discriminate|].
  intros H. inversion H; subst. split; [reflexivity|].
  intros Hp. subst prefix. rewrite N.eqb_refl in E. cbn [andb] in E.
  apply negb_false_iff, N.eqb_eq in E. exact E.
Qed.

Theorem parse_serialize_key T k s :
  wf_schema (kt_schema T) = true ->
  wf_msg (kt_schema T) (gk_fields k) = true ->
  N.of_nat (length (encode (kt_schema T) (gk_fields k))) < two64 ->
  normalise (kt_norm T) (kt_schema T) (gk_fields k) = Some (gk_fields k) ->
  variant_ok T k ->
  serialize_key T k = Some s ->
  parse_key T s = Some k.
Proof.
  intros Hs Hw Hl Hn Hv Hser. unfold serialize_key in Hser. unfold parse_key. unfold variant_ok in Hv.
  destruct k as [url mat v id fields]. cbn [gk_url gk_mat gk_variant gk_id gk_fields] in *.
  destruct (kt_prefix T) as [to_p from_p | custom to_p from_p from_kid path |] eqn:EP.
  - destruct (lookup to_p v) as [p|] eqn:El; [|discriminate].
    apply new_key_serialization_some in Hser. destruct Hser as [-> _].
    cbn [ks_value ks_prefix ks_url ks_mat ks_id].
    rewrite decode_encode by assumption. rewrite Hn. rewrite (Hv p eq_refl). reflexivity.
  - destruct (lookup to_p v) as [p|] eqn:El; [|discriminate].
    apply new_key_serialization_some in Hser. destruct Hser as [-> _].
    cbn [ks_value ks_prefix ks_url ks_mat ks_id].
    rewrite decode_encode by assumption. rewrite Hn.
    destruct Hv as [Hk Hv]. specialize (Hv p eq_refl).
    destruct (v =? custom) eqn:Ec.
    + apply N.eqb_eq in Ec. rewrite (proj2 Hk Ec). rewrite Hv.
      subst v. rewrite N.eqb_refl. reflexivity.
    + assert (Hp : has_path (kt_schema T) fields path = false).
      { destruct (has_path (kt_schema T) fields path) eqn:E; [|reflexivity].
        apply N.eqb_neq in Ec. exfalso. apply Ec. apply Hk. reflexivity. }
      rewrite Hp, Hv. reflexivity.
  - destruct Hv as [-> ->].
    apply new_key_serialization_some in Hser. destruct Hser as [-> _].
    cbn [ks_value ks_prefix ks_url ks_mat ks_id].
    rewrite decode_encode by assumption. rewrite Hn. reflexivity.
Qed.

(* hence the second serialization is byte-identical to the first *)
Corollary reserialize_identical T k s :
  wf_schema (kt_schema T) = true ->
  wf_msg (kt_schema T) (gk_fields k) = true ->
  N.of_nat (length (encode (kt_schema T) (gk_fields k))) < two64 ->
  normalise (kt_norm T) (kt_schema T) (gk_fields k) = Some (gk_fields k) ->
  variant_ok T k ->
  serialize_key T k = Some s ->
  exists k', parse_key T s = Some k' /\ serialize_key T k' = Some s.
Proof.
  intros. exists k. split; [eapply parse_serialize_key; eassumption | assumption].
Qed.

(* for the types of the registry (ktype_of), the table condition holds by
   computation over SerialTables.prefix_maps *)
Theorem registered_variant_ok url sch T k :
  ktype_of url sch = Some T ->
  match kt_prefix T with
  | PTables _ _ => True
  | PJwt custom _ _ _ path => has_path sch (gk_fields k) path = true <-> gk_variant k = custom
  | PIgnored => gk_variant k = 0 /\ gk_id k = 0
  end ->
  variant_ok T k.
Proof.
  unfold ktype_of, prefix_kind_of.
  destruct (lookup_bytes prefix_maps url) as [[kind [custom [to_p [from_p from_kid]]]]|] eqn:E; [|discriminate].
  destruct (lookup_bytes_in _ _ _ E) as [u Hin].
  pose proof prefix_maps_ok as H. rewrite forallb_forall in H. specialize (H _ Hin). unfold pm_ok in H.
  destruct (kind =? 1) eqn:E1.
  - intros HT. inversion HT; subst T. unfold variant_ok. cbn [kt_prefix]. auto.
  - destruct (kind =? 2) eqn:E2.
    + destruct (lookup_bytes jwt_kid_paths url) as [path|]; [|discriminate].
      intros HT. inversion HT; subst T. unfold variant_ok. cbn [kt_prefix kt_schema].
      intros Hk. split; [exact Hk|].
      intros p Hl. rewrite !andb_true_iff in H. destruct H as [[[H _] _] _].
      rewrite forallb_forall in H. specialize (H _ (lookup_in _ _ _ Hl)). cbn [fst snd] in H.
      destruct (lookup (if gk_variant k =? custom then from_kid else from_p) p); [|discriminate].
      apply N.eqb_eq in H. congruence.
    + intros HT. inversion HT; subst T. unfold variant_ok. cbn [kt_prefix]. intros _.
      rewrite !andb_true_iff in H. destruct H as [[_ H] _].
      intros p Hl. eapply fwd_ok_spec; eassumption.
Qed.

(* parameters <-> key template *)
Theorem parse_serialize_params T p t :
  wf_schema (kt_schema T) = true ->
  wf_msg (kt_schema T) (gp_fields p) = true ->
  N.of_nat (length (encode (kt_schema T) (gp_fields p))) < two64 ->
  match kt_prefix T with
  | PTables to_p from_p => forall pr, lookup to_p (gp_variant p) = Some pr -> lookup from_p pr = Some (gp_variant p)
  | PJwt custom to_p from_p _ _ =>
      (* a key template cannot express a custom kid: CustomKID parameters are excluded *)
      forall pr, lookup to_p (gp_variant p) = Some pr -> lookup from_p pr = Some (gp_variant p)
  | PIgnored => gp_variant p = 0
  end ->
  serialize_params T p = Some t ->
  parse_params T t = Some p.
Proof.
  intros Hs Hw Hl Hv Hser. unfold serialize_params in Hser. unfold parse_params.
  destruct p as [url v fields]. cbn [gp_url gp_variant gp_fields] in *.
  destruct (kt_prefix T) as [to_p from_p | custom to_p from_p from_kid path |].
  - destruct (lookup to_p v) as [pr|] eqn:El; [|discriminate]. inversion Hser; subst t.
    cbn [tp_value tp_prefix tp_url]. rewrite decode_encode by assumption. rewrite (Hv pr eq_refl). reflexivity.
  - destruct (lookup to_p v) as [pr|] eqn:El; [|discriminate]. inversion Hser; subst t.
    cbn [tp_value tp_prefix tp_url]. rewrite decode_encode by assumption. rewrite (Hv pr eq_refl). reflexivity.
  - inversion Hser; subst t. cbn [tp_value tp_prefix tp_url]. rewrite decode_encode by assumption.
    unfold prefix_raw. rewrite N.eqb_refl. subst v. reflexivity.
Qed.

(* The JWT tables make CustomKID parameters unserialisable without loss: they are
   written as RAW, and RAW parses (without a custom kid) to another strategy. *)
Theorem jwt_custom_kid_parameters_lossy :
  forall custom to_p from_p from_kid, In (custom, to_p, from_p, from_kid) jwt_custom_kid_maps ->
    exists pr v', lookup to_p custom = Some pr /\ lookup from_p pr = Some v' /\ v' <> custom.
Proof.
  intros custom to_p from_p from_kid Hin.
  assert (H : forallb (fun x => let '(c, t, f, _) := x in
              match lookup t c with
              | Some pr => match lookup f pr with Some v' => negb (v' =? c) | None => false end
              | None => false end) jwt_custom_kid_maps = true) by (vm_compute; reflexivity).
  rewrite forallb_forall in H. specialize (H _ Hin). cbn beta iota in H.
  destruct (lookup to_p custom) as [pr|] eqn:E1; [|discriminate].
  destruct (lookup from_p pr) as [v'|] eqn:E2; [|discriminate].
  exists pr, v'. apply negb_true_iff, N.eqb_neq in H. split; [reflexivity | split; [exact E2 | exact H]].
Qed.

(* ------------------------------------------------------------------ *)
(* keysets                                                             *)
(* ------------------------------------------------------------------ *)
Arguments e_key {K} e. Arguments e_primary {K} e. Arguments e_id {K} e. Arguments e_status {K} e.
Arguments mkEntry {K}.

Lemma all_some_map {A B} (g : A -> option B) (h : A -> B) l :
  (forall x, In x l -> g x = Some (h x)) -> all_some (map g l) = Some (map h l).
Proof.
  induction l as [|x l IH]; intros H; cbn [map all_some]; [reflexivity|].
  rewrite (H x) by (left; reflexivity). rewrite IH; [reflexivity|].
  intros y Hy. apply H. right. exact Hy.
Qed.

Lemma msg_keydata_inv d : msg_keydata (keydata_msg d) = Some d.
Proof. destruct d. reflexivity. Qed.
Lemma msg_pkey_inv k : msg_pkey (pkey_msg k) = Some k.
Proof.
  destruct k as [[d|] st id p]; unfold pkey_msg; cbn [pk_data pk_status pk_id pk_prefix option_map msg_pkey].
  - destruct d. reflexivity.
  - reflexivity.
Qed.
Lemma msg_keyset_inv ks : msg_keyset (keyset_msg ks) = Some ks.
Proof.
  destruct ks as [pr l]. unfold keyset_msg, msg_keyset. cbn [pks_primary pks_keys].
  rewrite map_map. rewrite (all_some_map _ (fun k => k)).
  - rewrite map_id. reflexivity.
  - intros k _. apply msg_pkey_inv.
Qed.

(* the proto keyset is a well-formed message when its numbers are in range *)
Definition wf_pkey (k : pkey) : bool :=
  match pk_data k with
  | Some d => utf8_valid (kd_url d) && scalar_ok TEnum (kd_mat d)
  | None => true
  end && scalar_ok TEnum (pk_status k) && (pk_id k <? two32) && scalar_ok TEnum (pk_prefix k).
Definition wf_pkeyset (ks : pkeyset) : bool := (pks_primary ks <? two32) && forallb wf_pkey (pks_keys ks).

Lemma wf_keyset_msg ks : wf_pkeyset ks = true -> wf_msg keyset_schema (keyset_msg ks) = true.
Proof.
  unfold wf_pkeyset. intros H. apply andb_true_iff in H. destruct H as [Hp Hk].
  unfold keyset_msg, keyset_schema. cbn [wf_msg wf_val].
  change (scalar_ok TU32 (pks_primary ks)) with (pks_primary ks <? two32). rewrite Hp. cbn [andb].
  rewrite andb_true_r. rewrite forallb_forall in *. intros m Hm. apply in_map_iff in Hm.
  destruct Hm as (k & <- & Hin). specialize (Hk k Hin). unfold wf_pkey in Hk.
  rewrite !andb_true_iff in Hk. destruct Hk as (((Hd & Hs) & Hi) & Hx).
  unfold pkey_msg, keyset_key_schema. cbn [wf_msg wf_val]. rewrite Hs, Hx.
  change (scalar_ok TU32 (pk_id k)) with (pk_id k <? two32). rewrite Hi. cbn [andb]. rewrite !andb_true_r.
  destruct (pk_data k) as [d|]; cbn [option_map]; [|reflexivity].
  apply andb_true_iff in Hd. destruct Hd as [Hu Hm]. unfold keydata_msg, keydata_schema.
  cbn [wf_msg wf_val]. rewrite Hu, Hm. reflexivity.
Qed.

Lemma keyset_schema_wf : wf_schema keyset_schema = true.
Proof. reflexivity. Qed.
Lemma encrypted_keyset_schema_wf : wf_schema encrypted_keyset_schema = true.
Proof. reflexivity. Qed.

Theorem read_write_keyset ks :
  wf_pkeyset ks = true -> N.of_nat (length (write_keyset ks)) < two64 ->
  read_keyset (write_keyset ks) = Some ks.
Proof.
  intros Hw Hl. unfold read_keyset, write_keyset in *.
  rewrite decode_encode; [apply msg_keyset_inv | apply keyset_schema_wf | apply wf_keyset_msg; exact Hw | exact Hl].
Qed.

Lemma nodupb_NoDup l : nodupb l = true <-> NoDup l.
Proof.
  induction l as [|x l IH]; cbn [nodupb].
  - split; intros _; [constructor | reflexivity].
  - split; intros H.
    + apply andb_true_iff in H. destruct H as [H1 H2]. constructor; [|apply IH; exact H2].
      intros Hin. apply negb_true_iff in H1.
      assert (existsb (N.eqb x) l = true) by (apply existsb_exists; exists x; split; [exact Hin | apply N.eqb_refl]).
      congruence.
    + inversion H as [|? ? Hn Hd]; subst. apply andb_true_iff. split; [|apply IH; exact Hd].
      apply negb_true_iff. destruct (existsb (N.eqb x) l) eqn:E; [|reflexivity].
      apply existsb_exists in E. destruct E as (y & Hy & Ey). apply N.eqb_eq in Ey. subst y. contradiction.
Qed.

Lemma existsb_map_ext {A} (f : A -> A) (g : A -> bool) l : (forall x, g (f x) = g x) -> existsb g (map f l) = existsb g l.
Proof. intros H. induction l as [|x l IH]; cbn [map existsb]; [reflexivity|]. rewrite H, IH. reflexivity. Qed.
Lemma forallb_map_ext {A} (f : A -> A) (g : A -> bool) l : (forall x, g (f x) = g x) -> forallb g (map f l) = forallb g l.
Proof. intros H. induction l as [|x l IH]; cbn [map forallb]; [reflexivity|]. rewrite H, IH. reflexivity. Qed.

Section KeysetProofs.
  Variable K : Type.
  Variable ser_k : K -> option kser.
  Variable par_k : kser -> option K.

  (* a key of the handle serialises, parses back to itself, and its id
     requirement is the entry's id (none for RAW) *)
  Definition key_ok (e : entry K) : Prop :=
    exists s, ser_k (e_key e) = Some s /\ par_k s = Some (e_key e) /\
      known_prefix (ks_prefix s) = true /\
      ks_id s = (if ks_prefix s =? prefix_raw then 0 else e_id e) /\
      utf8_valid (ks_url s) = true /\ scalar_ok TEnum (ks_mat s) = true.

  (* what keyset.Manager guarantees of a handle (C11) *)
  Record wf_handle (es : list (entry K)) : Prop := {
    wh_ids : NoDup (map e_id es);
    wh_idrange : forall e, In e es -> e_id e < two32;
    wh_primary : exists l1 p l2, es = l1 ++ p :: l2 /\ e_primary p = true /\ e_status p = Enabled /\
                   Forall (fun e => e_primary e = false) (l1 ++ l2);
    wh_status : forall e, In e es -> e_status e <> Unknown;
    wh_keys : forall e, In e es -> key_ok e
  }.

  Definition pk_of (e : entry K) : pkey :=
    match entry_to_proto_key K ser_k e with Some k => k | None => mkPkey None 0 0 0 end.

  Lemma entry_to_proto_key_ok e : e_status e <> Unknown -> key_ok e ->
    exists s st, ser_k (e_key e) = Some s /\ status_to_proto (e_status e) = Some st /\
      status_from_proto st = Some (e_status e) /\ known_status st = true /\
      entry_to_proto_key K ser_k e =
        Some (mkPkey (Some (mkKeyData (ks_url s) (ks_value s) (ks_mat s))) st (e_id e) (ks_prefix s)).
  Proof.
    intros Hst (s & Hs & _). exists s.
    unfold entry_to_proto_key. rewrite Hs.
    destruct (e_status e); try contradiction; cbn [status_to_proto];
      [exists 1 | exists 2 | exists 3]; repeat split; reflexivity.
  Qed.

  Lemma primary_of_none l acc : Forall (fun e : entry K => e_primary e = false) l -> primary_of K l acc = acc.
  Proof.
    induction 1 as [|e l He _ IH] in acc |- *; cbn [primary_of]; [reflexivity|].
    rewrite He. apply IH.
  Qed.

  Lemma primary_of_unique l1 p l2 acc :
    e_primary p = true -> Forall (fun e : entry K => e_primary e = false) (l1 ++ l2) ->
    primary_of K (l1 ++ p :: l2) acc = e_id p.
  Proof.
    intros Hp Hf. apply Forall_app in Hf. destruct Hf as [H1 H2].
    revert acc. induction H1 as [|e l He _ IH]; intros acc; cbn [app primary_of].
    - rewrite Hp. apply primary_of_none. exact H2.
    - rewrite He. apply IH.
  Qed.

  Theorem keyset_entries_roundtrip es :
    wf_handle es ->
    exists ks, entries_to_proto_keyset K ser_k es = Some ks /\
               keyset_to_entries K par_k ks = Some es /\
               wf_pkeyset ks = true /\ pks_keys ks <> [].
  Proof.
    intros [Hids Hrange (l1 & p & l2 & Hes & Hpp & Hps & Hnp) Hst Hkeys].
    assert (Hne : es <> []) by (rewrite Hes; destruct l1; discriminate).
    assert (Hpin : In p es) by (rewrite Hes; apply in_or_app; right; left; reflexivity).
    (* every entry converts *)
    assert (Hconv : forall e, In e es -> entry_to_proto_key K ser_k e = Some (pk_of e)).
    { intros e He. destruct (entry_to_proto_key_ok e (Hst e He) (Hkeys e He)) as (s & st & _ & _ & _ & _ & E).
      unfold pk_of. rewrite E. reflexivity. }
    exists (mkPkeyset (e_id p) (map pk_of es)).
    assert (Hprim : primary_of K es 0 = e_id p) by (rewrite Hes; apply primary_of_unique; assumption).
    split; [|split; [|split]].
    - unfold entries_to_proto_keyset. destruct es as [|e0 es']; [contradiction|].
      rewrite (all_some_map _ pk_of) by exact Hconv. rewrite Hprim. reflexivity.
    - (* reading back *)
      assert (Hother : forall e, In e es -> e_primary e = (e_id e =? e_id p)).
      { intros e He. rewrite Hes in He. apply in_app_or in He.
        assert (Hd : NoDup (map e_id l1 ++ e_id p :: map e_id l2)) by (rewrite Hes, map_app in Hids; exact Hids).
        apply Forall_app in Hnp. destruct Hnp as [Hn1 Hn2]. rewrite Forall_forall in Hn1, Hn2.
        destruct He as [He|[He|He]].
        - rewrite (Hn1 e He). symmetry. apply N.eqb_neq. intros E.
          apply NoDup_remove_2 in Hd. apply Hd. apply in_or_app. left. rewrite <- E. apply in_map. exact He.
        - subst e. rewrite Hpp, N.eqb_refl. reflexivity.
        - rewrite (Hn2 e He). symmetry. apply N.eqb_neq. intros E.
          apply NoDup_remove_2 in Hd. apply Hd. apply in_or_app. right. rewrite <- E. apply in_map. exact He. }
      unfold keyset_to_entries. cbn [pks_primary pks_keys].
      assert (Hval : validate (mkPkeyset (e_id p) (map pk_of es)) = true).
      { unfold validate. cbn [pks_primary pks_keys]. rewrite !andb_true_iff. repeat split.
        - destruct es; [contradiction | reflexivity].
        - apply forallb_forall. intros k Hk. apply in_map_iff in Hk. destruct Hk as (e & <- & He).
          destruct (entry_to_proto_key_ok e (Hst e He) (Hkeys e He)) as (s & st & Hs & _ & _ & Hks & E).
          unfold pk_of. rewrite E. unfold validate_key. cbn [pk_data pk_prefix pk_status].
          destruct (Hkeys e He) as (s' & Hs' & _ & Hkp & _). rewrite Hs in Hs'. inversion Hs'; subst s'.
          rewrite Hkp, Hks. reflexivity.
        - apply nodupb_NoDup. rewrite map_map.
          replace (map (fun x => pk_id (pk_of x)) es) with (map e_id es); [exact Hids|].
          apply map_ext_in. intros e He.
          destruct (entry_to_proto_key_ok e (Hst e He) (Hkeys e He)) as (s & st & _ & _ & _ & _ & E).
          unfold pk_of. rewrite E. reflexivity.
        - apply forallb_forall. intros k Hk. apply in_map_iff in Hk. destruct Hk as (e & <- & He).
          destruct (entry_to_proto_key_ok e (Hst e He) (Hkeys e He)) as (s & st & _ & Hsp & _ & _ & E).
          unfold pk_of. rewrite E. cbn [pk_status pk_id].
          destruct (e_id e =? e_id p) eqn:Eid; [|apply orb_true_r].
          (* same id as the primary: it is the primary, hence Enabled *)
          assert (e_primary e = true) by (rewrite (Hother e He); exact Eid).
          assert (e = p).
          { rewrite Hes in He. apply in_app_or in He. apply Forall_app in Hnp. destruct Hnp as [Hn1 Hn2].
            rewrite Forall_forall in Hn1, Hn2. destruct He as [He|[He|He]]; [rewrite (Hn1 e He) in H; discriminate | auto | rewrite (Hn2 e He) in H; discriminate]. }
          subst e. rewrite Hps in Hsp. cbn [status_to_proto] in Hsp. inversion Hsp. reflexivity.
        - apply existsb_exists. exists (pk_of p). split; [apply in_map; exact Hpin|].
          destruct (entry_to_proto_key_ok p (Hst p Hpin) (Hkeys p Hpin)) as (s & st & _ & Hsp & _ & _ & E).
          unfold pk_of. rewrite E. cbn [pk_status]. rewrite Hps in Hsp. inversion Hsp. reflexivity.
        - apply existsb_exists. exists (pk_of p). split; [apply in_map; exact Hpin|].
          destruct (entry_to_proto_key_ok p (Hst p Hpin) (Hkeys p Hpin)) as (s & st & _ & Hsp & _ & _ & E).
          unfold pk_of. rewrite E. cbn [pk_status pk_id]. rewrite Hps in Hsp. inversion Hsp.
          rewrite (N.eqb_refl (e_id p)). reflexivity. }
      rewrite Hval. rewrite map_map.
      rewrite (all_some_map _ (fun e => e)); [rewrite map_id; reflexivity|].
      intros e He.
      destruct (entry_to_proto_key_ok e (Hst e He) (Hkeys e He)) as (s & st & Hs & _ & Hsf & _ & E).
      unfold pk_of. rewrite E. unfold proto_key_to_entry. cbn [pk_data pk_prefix pk_id pk_status kd_url kd_value kd_mat].
      destruct (Hkeys e He) as (s' & Hs' & Hpar & _ & Hid & _). rewrite Hs in Hs'. inversion Hs'; subst s'.
      rewrite <- Hid.
      assert (Hnk : new_key_serialization (ks_url s) (ks_value s) (ks_mat s) (ks_prefix s) (ks_id s) = Some s).
      { unfold new_key_serialization. destruct (ks_prefix s =? prefix_raw) eqn:Ep.
        - assert (Hz : ks_id s = 0) by exact Hid. rewrite Hz. cbn. destruct s as [u v m pr i]. cbn in Hz. subst i. reflexivity.
        - cbn. destruct s; reflexivity. }
      rewrite Hnk, Hpar, Hsf. rewrite <- (Hother e He). destruct e; reflexivity.
    - unfold wf_pkeyset. cbn [pks_primary pks_keys]. apply andb_true_iff. split.
      + apply N.ltb_lt. apply Hrange. exact Hpin.
      + apply forallb_forall. intros k Hk. apply in_map_iff in Hk. destruct Hk as (e & <- & He).
        destruct (entry_to_proto_key_ok e (Hst e He) (Hkeys e He)) as (s & st & Hs & _ & _ & Hks & E).
        unfold pk_of. rewrite E. unfold wf_pkey. cbn [pk_data pk_status pk_id pk_prefix kd_url kd_mat].
        destruct (Hkeys e He) as (s' & Hs' & _ & Hkp & _ & Hu & Hm). rewrite Hs in Hs'. inversion Hs'; subst s'.
        rewrite Hu, Hm. cbn [andb].
        assert (E1 : scalar_ok TEnum st = true).
        { unfold known_status in Hks. unfold scalar_ok, two31. rewrite !orb_true_iff in Hks. rewrite !N.eqb_eq in Hks.
          apply orb_true_iff. left. apply N.ltb_lt. lia. }
        assert (E2 : scalar_ok TEnum (ks_prefix s) = true).
        { unfold known_prefix, legacy_prefix in Hkp. unfold scalar_ok, two31. rewrite !orb_true_iff in Hkp. rewrite !N.eqb_eq in Hkp.
          apply orb_true_iff. left. apply N.ltb_lt. lia. }
        rewrite E1, E2. cbn [andb]. rewrite andb_true_r. apply N.ltb_lt. apply Hrange. exact He.
    - cbn [pks_keys]. destruct es; [contradiction | discriminate].
  Qed.

  Lemma new_from_entries_wf es : wf_handle es -> new_from_entries K es = Some es.
  Proof.
    intros [_ _ (l1 & p & l2 & Hes & Hpp & _ & _) Hst _]. unfold new_from_entries.
    assert (E1 : existsb e_primary es = true).
    { apply existsb_exists. exists p. split; [rewrite Hes; apply in_or_app; right; left; reflexivity | exact Hpp]. }
    assert (E2 : forallb (fun e : entry K => match e_status e with Unknown => false | _ => true end) es = true).
    { apply forallb_forall. intros e He. specialize (Hst e He). destruct (e_status e); auto; contradiction. }
    change (existsb (e_primary (K:=K)) es) with (existsb e_primary es).
    rewrite E1, E2. reflexivity.
  Qed.

  (* cleartext, binary writer and reader *)
  Theorem read_write_cleartext es b :
    wf_handle es -> write_cleartext K ser_k es = Some b -> N.of_nat (length b) < two64 ->
    read_cleartext K par_k b = Some es.
  Proof.
    intros Hwf Hw Hl. destruct (keyset_entries_roundtrip es Hwf) as (ks & E1 & E2 & E3 & E4).
    unfold write_cleartext in Hw. rewrite E1 in Hw. cbn [option_map] in Hw. inversion Hw; subst b.
    unfold read_cleartext. rewrite read_write_keyset by assumption.
    destruct (pks_keys ks) eqn:Ek; [contradiction|].
    unfold handle_from_proto. rewrite E2. apply new_from_entries_wf. exact Hwf.
  Qed.

  (* encrypted with any AEAD and associated data *)
  Variable aead_enc : bytes -> bytes -> bytes.
  Variable aead_dec : bytes -> bytes -> option bytes.
  Hypothesis aead_correct : forall ad p, aead_dec ad (aead_enc ad p) = Some p.

  Theorem read_write_encrypted es ad b :
    wf_handle es -> write_encrypted K ser_k aead_enc es ad = Some b -> N.of_nat (length b) < two64 ->
    (forall ks, entries_to_proto_keyset K ser_k es = Some ks -> N.of_nat (length (write_keyset ks)) < two64) ->
    read_encrypted K par_k aead_dec b ad = Some es.
  Proof.
    intros Hwf Hw Hl Hl2. destruct (keyset_entries_roundtrip es Hwf) as (ks & E1 & E2 & E3 & E4).
    unfold write_encrypted in Hw. rewrite E1 in Hw. inversion Hw; subst b. clear Hw.
    unfold read_encrypted.
    rewrite decode_encode; [| apply encrypted_keyset_schema_wf | reflexivity | exact Hl].
    rewrite aead_correct. rewrite read_write_keyset; [| exact E3 | apply Hl2; exact E1].
    unfold handle_from_proto. rewrite E2. apply new_from_entries_wf. exact Hwf.
  Qed.

  (* Public() *)
  Variable pub_k : K -> option K.

  Theorem public_handle_preserves es es' :
    public_handle K pub_k es = Some es' ->
    map e_id es' = map e_id es /\ map e_status es' = map e_status es /\ map e_primary es' = map e_primary es /\
    Forall2 (fun e e' => pub_k (e_key e) = Some (e_key e')) es es'.
  Proof.
    unfold public_handle. destruct es as [|e0 es0]; [discriminate|].
    set (es := e0 :: es0).
    destruct (all_some (map _ es)) as [l|] eqn:E; [|discriminate].
    unfold new_from_entries. destruct (_ && _); [|discriminate]. intros H. inversion H; subst es'. clear H.
    revert l E. generalize es. clear. induction es as [|e es IH]; intros l E; cbn [map all_some] in E.
    - inversion E. repeat split; constructor.
    - destruct (pub_k (e_key e)) as [pk|] eqn:Ep; [|discriminate].
      destruct (all_some (map _ es)) as [l'|] eqn:E'; [|discriminate]. inversion E; subst l.
      destruct (IH l' eq_refl) as (A & B & C & D).
      cbn [map e_id e_status e_primary e_key]. rewrite A, B, C. repeat split. constructor; [exact Ep | exact D].
  Qed.

  Theorem public_handle_total es :
    wf_handle es -> (forall e, In e es -> pub_k (e_key e) <> None) ->
    exists es', public_handle K pub_k es = Some es'.
  Proof.
    intros Hwf Hp. pose proof (new_from_entries_wf es Hwf) as Hn.
    destruct Hwf as [_ _ (l1 & p & l2 & Hes & Hpp & _ & _) Hst _].
    set (f := fun e : entry K => match pub_k (e_key e) with
                                  | Some pk => mkEntry pk (e_primary e) (e_id e) (e_status e)
                                  | None => e end).
    exists (map f es). unfold public_handle.
    destruct es as [|e0 es0] eqn:Ees; [destruct l1; discriminate|]. rewrite <- Ees in *.
    rewrite (all_some_map _ f).
    - unfold new_from_entries in *.
      assert (E1 : existsb e_primary (map f es) = existsb e_primary es).
      { apply existsb_map_ext. intros e. unfold f. destruct (pub_k (e_key e)); reflexivity. }
      assert (E2 : forallb (fun e : entry K => match e_status e with Unknown => false | _ => true end) (map f es)
                   = forallb (fun e : entry K => match e_status e with Unknown => false | _ => true end) es).
      { apply forallb_map_ext. intros e. unfold f. destruct (pub_k (e_key e)); reflexivity. }
      change (existsb (e_primary (K:=K)) (map f es)) with (existsb e_primary (map f es)).
      rewrite E1, E2. destruct (existsb e_primary es && _); [reflexivity | discriminate].
    - intros e He. unfold f. specialize (Hp e He). destruct (pub_k (e_key e)); [reflexivity | contradiction].
  Qed.
End KeysetProofs.
