(* Proofs about model/SlhdsaHt.v: threaded = FIPS-shaped; hypertree
   completeness: htVerify accepts what htSign produces, against the root of
   the top tree, for every (idxTree, idxLeaf) in range. *)
From Coq Require Import List NArith Bool Arith Lia ZifyN ZifyNat.
From Tink Require Import Bytes SlhdsaSupport SlhdsaAddr SlhdsaBase SlhdsaWots SlhdsaXmss SlhdsaHt SlhdsaSpec
  SlhdsaListProofs SlhdsaSupportProofs SlhdsaWotsProofs SlhdsaXmssProofs.
Import ListNotations.
Open Scope N_scope.

Section HT.
  Variable P : params.
  Variable HS : hashes.
  Notation n := (p_n P).
  Notation sz := (xmssSigSize P).

  (* ---------- threaded = FIPS-shaped ---------- *)
  Lemma htSign_loop_spec : forall cnt j sk pk idxTree ad root sigHT,
    (j + cnt = p_d P)%nat ->
    htSign_loop P HS cnt j sk pk idxTree ad root sigHT = sigHT ++ htSignS_loop P HS cnt j sk pk idxTree root.
  Proof.
    induction cnt as [|cnt IH]; intros j sk pk idxTree ad root sigHT Hj.
    - simpl. rewrite app_nil_r. reflexivity.
    - cbn [htSign_loop htSignS_loop]. fold (htLeaf P idxTree). fold (htUp P idxTree).
      set (ad1 := setTreeAddress (htUp P idxTree) (setLayerAddress (N.of_nat j) ad)).
      destruct (xmssSign_spec P HS root sk (htLeaf P idxTree) pk ad1) as [A B].
      destruct (xmssSign P HS root sk (htLeaf P idxTree) pk ad1) as [sigTmp ad2]. simpl in A, B.
      destruct (xmssPkFromSig_spec P HS (htLeaf P idxTree) sigTmp root pk ad2) as [A' B'].
      destruct (xmssPkFromSig P HS (htLeaf P idxTree) sigTmp root pk ad2) as [root' ad3]. simpl in A', B'.
      destruct B as [b b']. simpl in A, b, b'. rewrite b, b' in A'.
      destruct (Nat.ltb_spec j (p_d P - 1)) as [L|L].
      + subst sigTmp root'. rewrite IH by lia. rewrite <- app_assoc. reflexivity.
      + assert (cnt = 0)%nat by lia. subst cnt sigTmp. simpl. rewrite app_nil_r. reflexivity.
  Qed.

  Lemma htSign_spec : forall msg sk pk idxTree idxLeaf,
    htSign P HS msg sk pk idxTree idxLeaf = htSignS P HS msg sk pk idxTree idxLeaf.
  Proof.
    intros. unfold htSign, htSignS.
    set (ad := setTreeAddress idxTree newAddress).
    destruct (xmssSign_spec P HS msg sk idxLeaf pk ad) as [A B].
    destruct (xmssSign P HS msg sk idxLeaf pk ad) as [sigHT ad1]. simpl in A, B.
    destruct (xmssPkFromSig_spec P HS idxLeaf sigHT msg pk ad1) as [A' B'].
    destruct (xmssPkFromSig P HS idxLeaf sigHT msg pk ad1) as [root ad2]. simpl in A', B'.
    destruct B as [b b']. simpl in A, b, b'. rewrite b, b' in A'.
    destruct (p_d P) as [|d] eqn:Ed.
    - subst sigHT. simpl. rewrite app_nil_r. reflexivity.
    - replace (S d - 1)%nat with d by lia. subst sigHT root.
      rewrite htSign_loop_spec by lia. reflexivity.
  Qed.

  Lemma htVerify_loop_spec : forall cnt j sigHT pk idxTree ad node,
    htVerify_loop P HS cnt j sigHT pk idxTree ad node = htVerifyS_loop P HS cnt j sigHT pk idxTree node.
  Proof.
    induction cnt as [|cnt IH]; intros; [reflexivity|].
    cbn [htVerify_loop htVerifyS_loop]. fold (htLeaf P idxTree). fold (htUp P idxTree). fold sz.
    set (ad1 := setTreeAddress (htUp P idxTree) (setLayerAddress (N.of_nat j) ad)).
    match goal with |- context [xmssPkFromSig P HS ?l ?s node pk ad1] =>
      destruct (xmssPkFromSig_spec P HS l s node pk ad1) as [A B];
      destruct (xmssPkFromSig P HS l s node pk ad1) as [node' ad2] end.
    simpl in A. rewrite IH, A. reflexivity.
  Qed.

  Lemma htVerify_spec : forall msg sigHT pk idxTree idxLeaf pkRoot,
    htVerify P HS msg sigHT pk idxTree idxLeaf pkRoot = htVerifyS P HS msg sigHT pk idxTree idxLeaf pkRoot.
  Proof.
    intros. unfold htVerify, htVerifyS. fold sz.
    set (ad := setTreeAddress idxTree newAddress).
    destruct (xmssPkFromSig_spec P HS idxLeaf (firstn sz sigHT) msg pk ad) as [A B].
    destruct (xmssPkFromSig P HS idxLeaf (firstn sz sigHT) msg pk ad) as [node ad1].
    simpl in A. rewrite htVerify_loop_spec, A. reflexivity.
  Qed.

  (* ---------- lengths ---------- *)
  Lemma htSignS_loop_length : hashes_ok P HS -> forall cnt j sk pk idxTree root,
    length (htSignS_loop P HS cnt j sk pk idxTree root) = (cnt * sz)%nat.
  Proof.
    intros OK. induction cnt as [|cnt IH]; intros; simpl; auto.
    rewrite app_length, IH, xmssSignS_length by auto. reflexivity.
  Qed.

  Lemma htSignS_length : hashes_ok P HS -> (1 <= p_d P)%nat -> forall msg sk pk idxTree idxLeaf,
    length (htSignS P HS msg sk pk idxTree idxLeaf) = (p_d P * sz)%nat.
  Proof.
    intros OK Hd *. unfold htSignS. rewrite app_length, htSignS_loop_length, xmssSignS_length by auto.
    unfold xmssSigSize. nia.
  Qed.

  (* ---------- completeness ---------- *)
  Lemma htLeaf_lt idxTree : htLeaf P idxTree < 2 ^ N.of_nat (p_hp P).
  Proof.
    unfold htLeaf, u32. rewrite N.land_ones.
    eapply N.le_lt_trans; [apply N.mod_le; lia|]. apply N.mod_lt. apply N.pow_nonzero. lia.
  Qed.

  Fixpoint upN (c : nat) (x : N) : N := match c with O => x | S c' => upN c' (htUp P x) end.

  Lemma upN_shiftr : forall c x, upN c x = N.shiftr x (N.of_nat (c * p_hp P)).
  Proof.
    induction c as [|c IH]; intros x; simpl.
    - reflexivity.
    - rewrite IH. unfold htUp. rewrite N.shiftr_shiftr. f_equal. lia.
  Qed.

  Lemma htVerifyS_loop_sign : hashes_ok P HS -> forall sk pk cnt j idxTree root pre,
    length pre = (j * sz)%nat -> (1 <= j)%nat ->
    root = xmssNodeS P HS (N.of_nat (j - 1)) idxTree sk pk (p_hp P) 0 ->
    htVerifyS_loop P HS cnt j (pre ++ htSignS_loop P HS cnt j sk pk idxTree root) pk idxTree root
    = xmssNodeS P HS (N.of_nat (j + cnt - 1)) (upN cnt idxTree) sk pk (p_hp P) 0.
  Proof.
    intros OK sk pk. induction cnt as [|cnt IH]; intros j idxTree root pre Hpre Hj Hroot.
    - simpl. rewrite Nat.add_0_r. exact Hroot.
    - cbn [htVerifyS_loop htSignS_loop upN].
      set (sigTmp := xmssSignS P HS (N.of_nat j) (htUp P idxTree) root sk (htLeaf P idxTree) pk).
      assert (Hl : length sigTmp = sz) by (apply xmssSignS_length; auto).
      assert (E : firstn sz (skipn (j * sz) (pre ++ sigTmp ++ htSignS_loop P HS cnt (S j) sk pk (htUp P idxTree)
                    (xmssPkFromSigS P HS (N.of_nat j) (htUp P idxTree) (htLeaf P idxTree) sigTmp root pk))) = sigTmp).
      { rewrite skipn_app_exact by lia. apply firstn_app_exact. lia. }
      rewrite E.
      assert (R' : xmssPkFromSigS P HS (N.of_nat j) (htUp P idxTree) (htLeaf P idxTree) sigTmp root pk
                   = xmssNodeS P HS (N.of_nat j) (htUp P idxTree) sk pk (p_hp P) 0).
      { unfold sigTmp. rewrite xmssS_complete by auto. rewrite shiftr_small by apply htLeaf_lt. reflexivity. }
      rewrite R'.
      specialize (IH (S j) (htUp P idxTree) (xmssNodeS P HS (N.of_nat j) (htUp P idxTree) sk pk (p_hp P) 0)
                     (pre ++ sigTmp)).
      rewrite <- app_assoc in IH. rewrite IH.
      + f_equal. f_equal. lia.
      + rewrite app_length. lia.
      + lia.
      + f_equal. f_equal. lia.
  Qed.

  Theorem htS_complete : hashes_ok P HS -> (1 <= p_d P)%nat -> forall msg sk pk idxTree idxLeaf,
    idxLeaf < 2 ^ N.of_nat (p_hp P) -> idxTree < 2 ^ N.of_nat ((p_d P - 1) * p_hp P) ->
    htVerifyS P HS msg (htSignS P HS msg sk pk idxTree idxLeaf) pk idxTree idxLeaf (pkRootS P HS sk pk) = true.
  Proof.
    intros OK Hd msg sk pk idxTree idxLeaf Hleaf Htree. unfold htVerifyS, htSignS.
    set (s0 := xmssSignS P HS 0 idxTree msg sk idxLeaf pk).
    assert (Hl : length s0 = sz) by (apply xmssSignS_length; auto).
    rewrite firstn_app_exact by lia.
    assert (R0 : xmssPkFromSigS P HS 0 idxTree idxLeaf s0 msg pk = xmssNodeS P HS (N.of_nat (1 - 1)) idxTree sk pk (p_hp P) 0).
    { unfold s0. rewrite xmssS_complete by auto. rewrite shiftr_small by exact Hleaf. reflexivity. }
    rewrite R0.
    rewrite (htVerifyS_loop_sign OK sk pk (p_d P - 1) 1 idxTree _ s0) by (try lia; reflexivity).
    rewrite upN_shiftr, shiftr_small by exact Htree.
    replace (1 + (p_d P - 1) - 1)%nat with (p_d P - 1)%nat by lia.
    apply beq_refl.
  Qed.

  (* as coded *)
  Theorem ht_complete : hashes_ok P HS -> (1 <= p_d P)%nat -> forall msg sk pk idxTree idxLeaf,
    idxLeaf < 2 ^ N.of_nat (p_hp P) -> idxTree < 2 ^ N.of_nat ((p_d P - 1) * p_hp P) ->
    htVerify P HS msg (htSign P HS msg sk pk idxTree idxLeaf) pk idxTree idxLeaf
      (fst (xmssNode P HS (p_hp P) sk 0 pk (setLayerAddress (N.of_nat (p_d P - 1)) newAddress))) = true.
  Proof.
    intros. rewrite htVerify_spec, htSign_spec, (proj1 (xmssNode_spec _ _ _ _ _ _ _)). simpl.
    apply htS_complete; auto.
  Qed.
End HT.
