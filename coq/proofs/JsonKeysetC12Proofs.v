(* C12 - handles through the JSON writer and reader (model/JsonKeysetC12.v):
   the proto keyset, and with it the handle, comes back. *)
From Coq Require Import List NArith ZArith Bool Lia ZifyN ZifyNat ZifyBool.
From Tink Require Import Bytes ProtoWire ProtoWireProofs Serial SerialProofs SerialRegistryProofs
  JsonKeyset JsonKeysetProofs JsonKeysetC12.
Import ListNotations.
Open Scope N_scope.

Ltac Zify.zify_post_hook ::= Z.div_mod_to_equations.

(* the two models state unicode/utf8.Valid with different case splits: the same predicate *)
Lemma utf8_valid_agree : forall b, ProtoWire.utf8_valid b = Jwt.utf8_valid b.
Proof.
  intros b. remember (length b) as n eqn:Hn. revert b Hn.
  induction n as [n IH] using lt_wf_ind. intros b Hn.
  destruct b as [|x t]; [reflexivity|].
  cbn [ProtoWire.utf8_valid Jwt.utf8_valid]. unfold Jwt.inr, Jwt.cont, ProtoWire.inr, Jwt.inr.
  destruct (x <? 128) eqn:A.
  { apply (IH (length t)); [cbn in Hn; lia|reflexivity]. }
  destruct (x <? 194) eqn:B.
  { replace ((194 <=? x) && (x <=? 223)) with false by lia. replace ((224 <=? x) && (x <=? 239)) with false by lia.
    replace ((240 <=? x) && (x <=? 244)) with false by lia. reflexivity. }
  destruct (x <? 224) eqn:C.
  { replace ((194 <=? x) && (x <=? 223)) with true by lia.
    destruct t as [|c1 t1]; [reflexivity|]. f_equal. apply (IH (length t1)); [cbn in Hn; lia|reflexivity]. }
  replace ((194 <=? x) && (x <=? 223)) with false by lia.
  destruct (x <? 240) eqn:D.
  { replace ((224 <=? x) && (x <=? 239)) with true by lia.
    destruct t as [|c1 [|c2 t2]]; try reflexivity.
    rewrite (IH (length t2) ltac:(cbn in Hn; lia) t2 eq_refl).
    destruct (x =? 224) eqn:E1; destruct (x =? 237) eqn:E2; try lia; reflexivity. }
  replace ((224 <=? x) && (x <=? 239)) with false by lia.
  destruct (x <? 245) eqn:E.
  { replace ((240 <=? x) && (x <=? 244)) with true by lia.
    destruct t as [|c1 [|c2 [|c3 t3]]]; try reflexivity.
    rewrite (IH (length t3) ltac:(cbn in Hn; lia) t3 eq_refl).
    destruct (x =? 240) eqn:E1; destruct (x =? 244) eqn:E2; try lia; reflexivity. }
  replace ((240 <=? x) && (x <=? 244)) with false by lia. reflexivity.
Qed.

(* every key value of the keyset is a byte string (the model's bytes are lists
   of numbers; Go's []byte cannot be anything else) *)
Definition values_are_bytes (ks : pkeyset) : bool :=
  forallb (fun k => match pk_data k with Some d => bytes_okb (kd_value d) | None => true end) (pks_keys ks).

Lemma enum_of_to_j n : scalar_ok TEnum n = true -> enum_of_j (enum_to_j n) = n.
Proof.
  unfold scalar_ok, enum_of_j, enum_to_j, ProtoWire.two31, ProtoWire.two64. intros H.
  destruct (n <? 2147483648) eqn:L.
  - rewrite N.mod_small by lia. rewrite L. reflexivity.
  - replace (n mod 4294967296 <? 2147483648) with false by lia. lia.
Qed.

Lemma enum_to_j_lt n : enum_to_j n < JsonKeyset.two32.
Proof. unfold enum_to_j, JsonKeyset.two32. apply N.mod_lt. discriminate. Qed.

Lemma key_of_to_j k : wf_pkey k = true -> key_of_j (key_to_j k) = k.
Proof.
  unfold wf_pkey. intros H. apply andb_true_iff in H. destruct H as [H P]. apply andb_true_iff in H. destruct H as [H I].
  apply andb_true_iff in H. destruct H as [D S].
  destruct k as [[d|] st id p]; cbn [pk_data pk_status pk_id pk_prefix] in *;
    unfold key_of_j, key_to_j; cbn [jk_data jk_status jk_id jk_prefix pk_data pk_status pk_id pk_prefix option_map].
  - apply andb_true_iff in D. destruct D as [U M].
    unfold keydata_of_j, keydata_to_j. cbn [jd_url jd_value jd_mat]. rewrite !enum_of_to_j by assumption.
    destruct d; reflexivity.
  - rewrite !enum_of_to_j by assumption. reflexivity.
Qed.

Lemma keyset_of_to_j ks : wf_pkeyset ks = true -> keyset_of_j (keyset_to_j ks) = ks.
Proof.
  unfold wf_pkeyset. intros H. apply andb_true_iff in H. destruct H as [_ K].
  unfold keyset_of_j, keyset_to_j. cbn [jks_primary jks_keys]. rewrite map_map.
  destruct ks as [p l]. cbn [pks_primary pks_keys] in *. f_equal.
  induction l as [|k r IH]; [reflexivity|]. cbn [forallb] in K. apply andb_true_iff in K. destruct K as [Kk Kr].
  cbn [map]. rewrite (key_of_to_j k Kk), (IH Kr). reflexivity.
Qed.

Lemma keyset_to_j_ok ks : wf_pkeyset ks = true -> values_are_bytes ks = true -> keyset_ok (keyset_to_j ks) = true.
Proof.
  unfold wf_pkeyset, values_are_bytes, keyset_ok, keyset_to_j. intros H V.
  apply andb_true_iff in H. destruct H as [P K]. cbn [jks_primary jks_keys].
  unfold ProtoWire.two32 in P. unfold JsonKeyset.two32. rewrite P. cbn [andb].
  rewrite forallb_forall in *. intros jk Hj. apply in_map_iff in Hj. destruct Hj as [k [<- Hk]].
  specialize (K k Hk). specialize (V k Hk). unfold wf_pkey in K.
  apply andb_true_iff in K. destruct K as [K Px]. apply andb_true_iff in K. destruct K as [K I].
  apply andb_true_iff in K. destruct K as [D S].
  unfold key_ok, key_to_j. cbn [jk_data jk_status jk_id jk_prefix].
  pose proof (enum_to_j_lt (pk_status k)). pose proof (enum_to_j_lt (pk_prefix k)).
  unfold ProtoWire.two32 in I. unfold JsonKeyset.two32 in *.
  replace (enum_to_j (pk_status k) <? 4294967296) with true by lia.
  replace (enum_to_j (pk_prefix k) <? 4294967296) with true by lia. rewrite I. rewrite !andb_true_r.
  destruct (pk_data k) as [d|]; [|reflexivity]. cbn [option_map].
  apply andb_true_iff in D. destruct D as [U _].
  unfold keydata_ok, keydata_to_j. cbn [jd_url jd_value jd_mat]. rewrite <- utf8_valid_agree, U, V.
  pose proof (enum_to_j_lt (kd_mat d)). unfold JsonKeyset.two32 in *.
  replace (enum_to_j (kd_mat d) <? 4294967296) with true by lia. reflexivity.
Qed.

(* tinkpb.Keyset through the JSON writer and reader *)
Theorem proto_keyset_json_roundtrip ks :
  wf_pkeyset ks = true -> values_are_bytes ks = true -> read_keyset_json (write_keyset_json ks) = Some ks.
Proof.
  intros W V. unfold read_keyset_json, write_keyset_json.
  rewrite keyset_text_roundtrip by (apply keyset_to_j_ok; assumption).
  cbn [option_map]. rewrite keyset_of_to_j by exact W. reflexivity.
Qed.

(* ... and through the protojson-style form of the text *)
Theorem proto_keyset_json_pj_roundtrip ks :
  wf_pkeyset ks = true -> values_are_bytes ks = true -> read_keyset_json (write_keyset_json_pj ks) = Some ks.
Proof.
  intros W V. unfold read_keyset_json, write_keyset_json_pj.
  rewrite keyset_pj_text_roundtrip by (apply keyset_to_j_ok; assumption).
  cbn [option_map]. rewrite keyset_of_to_j by exact W. reflexivity.
Qed.

Lemma info_of_keyset_ok ks : wf_pkeyset ks = true -> info_ok (info_of_keyset ks) = true.
Proof.
  unfold wf_pkeyset, info_ok, info_of_keyset. intros H. apply andb_true_iff in H. destruct H as [P K].
  cbn [jn_primary jn_keys]. unfold ProtoWire.two32 in P. unfold JsonKeyset.two32. rewrite P. cbn [andb].
  rewrite forallb_forall in *. intros ji Hj. apply in_map_iff in Hj. destruct Hj as [k [<- Hk]].
  specialize (K k Hk). unfold wf_pkey in K.
  apply andb_true_iff in K. destruct K as [K Px]. apply andb_true_iff in K. destruct K as [K I].
  apply andb_true_iff in K. destruct K as [D S].
  unfold keyinfo_ok, keyinfo_of_key. cbn [ji_url ji_status ji_id ji_prefix].
  pose proof (enum_to_j_lt (pk_status k)). pose proof (enum_to_j_lt (pk_prefix k)).
  unfold ProtoWire.two32 in I. unfold JsonKeyset.two32 in *.
  replace (enum_to_j (pk_status k) <? 4294967296) with true by lia.
  replace (enum_to_j (pk_prefix k) <? 4294967296) with true by lia. rewrite I. rewrite !andb_true_r.
  destruct (pk_data k) as [d|]; [|reflexivity]. apply andb_true_iff in D. rewrite <- utf8_valid_agree. apply D.
Qed.

Section Handles.
  Variable K : Type.
  Variable ser_k : K -> option kser.
  Variable par_k : kser -> option K.

  (* the reader side alone: ANY text the JSON reader reads as the message of the
     handle (whatever names, enum forms, base64 alphabet, padding, white space,
     member order, escapes it uses) gives the handle back *)
  Theorem json_cleartext_read_any_text es ks text :
    wf_handle K ser_k par_k es ->
    entries_to_proto_keyset K ser_k es = Some ks ->
    read_keyset_json text = Some ks ->
    read_cleartext_json K par_k text = Some es.
  Proof.
    intros Hwf E R. destruct (keyset_entries_roundtrip K ser_k par_k es Hwf) as (ks' & E1 & E2 & E3 & E4).
    assert (ks' = ks) by congruence. subst ks'.
    unfold read_cleartext_json. rewrite R.
    destruct (pks_keys ks) eqn:Ek; [contradiction|].
    unfold handle_from_proto. rewrite E2. apply (new_from_entries_wf K ser_k par_k). exact Hwf.
  Qed.

  (* Write then Read with the text in protojson's form *)
  Theorem json_cleartext_pj_roundtrip es text :
    wf_handle K ser_k par_k es ->
    (forall ks, entries_to_proto_keyset K ser_k es = Some ks -> values_are_bytes ks = true) ->
    write_cleartext_json_pj K ser_k es = Some text ->
    read_cleartext_json K par_k text = Some es.
  Proof.
    intros Hwf Hv Hw. destruct (keyset_entries_roundtrip K ser_k par_k es Hwf) as (ks & E1 & E2 & E3 & E4).
    unfold write_cleartext_json_pj in Hw. rewrite E1 in Hw. cbn [option_map] in Hw. inversion Hw; subst text.
    apply (json_cleartext_read_any_text es ks); [exact Hwf|exact E1|].
    apply proto_keyset_json_pj_roundtrip; [exact E3|apply Hv; exact E1].
  Qed.

  (* insecurecleartextkeyset.Write then Read, JSON *)
  Theorem json_cleartext_roundtrip es text :
    wf_handle K ser_k par_k es ->
    (forall ks, entries_to_proto_keyset K ser_k es = Some ks -> values_are_bytes ks = true) ->
    write_cleartext_json K ser_k es = Some text ->
    read_cleartext_json K par_k text = Some es.
  Proof.
    intros Hwf Hv Hw. destruct (keyset_entries_roundtrip K ser_k par_k es Hwf) as (ks & E1 & E2 & E3 & E4).
    unfold write_cleartext_json in Hw. rewrite E1 in Hw. cbn [option_map] in Hw. inversion Hw; subst text.
    unfold read_cleartext_json. rewrite proto_keyset_json_roundtrip by (try assumption; apply Hv; exact E1).
    destruct (pks_keys ks) eqn:Ek; [contradiction|].
    unfold handle_from_proto. rewrite E2. apply (new_from_entries_wf K ser_k par_k). exact Hwf.
  Qed.

  Variable aead_enc : bytes -> bytes -> bytes.
  Variable aead_dec : bytes -> bytes -> option bytes.
  Hypothesis aead_correct : forall ad p, aead_dec ad (aead_enc ad p) = Some p.

  (* WriteWithAssociatedData then ReadWithAssociatedData, JSON, for every such AEAD and every ad *)
  Theorem json_encrypted_roundtrip es ad text :
    wf_handle K ser_k par_k es ->
    write_encrypted_json K ser_k aead_enc es ad = Some text ->
    (forall ks, entries_to_proto_keyset K ser_k es = Some ks ->
       N.of_nat (length (write_keyset ks)) < two64 /\ bytes_okb (aead_enc ad (write_keyset ks)) = true) ->
    read_encrypted_json K par_k aead_dec text ad = Some es.
  Proof.
    intros Hwf Hw Hlb. assert (Hl := fun ks E => proj1 (Hlb ks E)). assert (aead_bytes := fun ks E => proj2 (Hlb ks E)). destruct (keyset_entries_roundtrip K ser_k par_k es Hwf) as (ks & E1 & E2 & E3 & E4).
    unfold write_encrypted_json in Hw. rewrite E1 in Hw. inversion Hw; subst text. clear Hw.
    unfold read_encrypted_json.
    rewrite encrypted_text_roundtrip.
    2:{ unfold encrypted_ok. cbn [je_ct je_info]. rewrite (aead_bytes ks E1), info_of_keyset_ok by exact E3. reflexivity. }
    cbn [je_ct]. rewrite aead_correct. rewrite read_write_keyset; [| exact E3 | apply Hl; exact E1].
    unfold handle_from_proto. rewrite E2. apply (new_from_entries_wf K ser_k par_k). exact Hwf.
  Qed.

  (* the reader side alone, encrypted: ANY text the reader reads as an
     EncryptedKeyset whose ciphertext is the AEAD encryption of the binary keyset *)
  Theorem json_encrypted_read_any_text es ks ad text e :
    wf_handle K ser_k par_k es ->
    entries_to_proto_keyset K ser_k es = Some ks ->
    N.of_nat (length (write_keyset ks)) < two64 ->
    encrypted_of_json_text text = Some e -> je_ct e = aead_enc ad (write_keyset ks) ->
    read_encrypted_json K par_k aead_dec text ad = Some es.
  Proof.
    intros Hwf E L R C. destruct (keyset_entries_roundtrip K ser_k par_k es Hwf) as (ks' & E1 & E2 & E3 & E4).
    assert (ks' = ks) by congruence. subst ks'.
    unfold read_encrypted_json. rewrite R, C, aead_correct. rewrite read_write_keyset; [| exact E3 | exact L].
    unfold handle_from_proto. rewrite E2. apply (new_from_entries_wf K ser_k par_k). exact Hwf.
  Qed.

  Theorem json_encrypted_pj_roundtrip es ad text :
    wf_handle K ser_k par_k es ->
    write_encrypted_json_pj K ser_k aead_enc es ad = Some text ->
    (forall ks, entries_to_proto_keyset K ser_k es = Some ks ->
       N.of_nat (length (write_keyset ks)) < two64 /\ bytes_okb (aead_enc ad (write_keyset ks)) = true) ->
    read_encrypted_json K par_k aead_dec text ad = Some es.
  Proof.
    intros Hwf Hw Hlb. destruct (keyset_entries_roundtrip K ser_k par_k es Hwf) as (ks & E1 & E2 & E3 & E4).
    destruct (Hlb ks E1) as [L B].
    unfold write_encrypted_json_pj in Hw. rewrite E1 in Hw. inversion Hw; subst text. clear Hw.
    apply (json_encrypted_read_any_text es ks ad _ (mkJE (aead_enc ad (write_keyset ks)) (Some (info_of_keyset ks))));
      [exact Hwf|exact E1|exact L| |reflexivity].
    apply encrypted_pj_text_roundtrip. unfold encrypted_ok. cbn [je_ct je_info].
    rewrite B, info_of_keyset_ok by exact E3. reflexivity.
  Qed.
End Handles.

(* at the registry: for every well-formed handle of registered keys the JSON
   writer succeeds and the JSON reader gives the handle back *)
Section Registry.
  Variable schemas : bytes -> option schema.
  Hypothesis schemas_wf : forall url sch, schemas url = Some sch -> wf_schema sch = true.
  Let reg := registry schemas.

  Theorem registry_json_cleartext_roundtrip es :
    wf_dhandle reg es ->
    (forall ks, entries_to_proto_keyset dkey dser es = Some ks -> values_are_bytes ks = true) ->
    exists text, write_cleartext_json dkey dser es = Some text
      /\ read_cleartext_json dkey (dpar reg) text = Some es.
  Proof.
    intros Hwf Hv. pose proof (wf_dhandle_wf_handle schemas schemas_wf es Hwf) as Hh.
    destruct (keyset_entries_roundtrip _ _ _ es Hh) as (ks & A & _).
    exists (write_keyset_json ks).
    assert (Hw : write_cleartext_json dkey dser es = Some (write_keyset_json ks)).
    { unfold write_cleartext_json. rewrite A. reflexivity. }
    split; [exact Hw|]. eapply json_cleartext_roundtrip; eassumption.
  Qed.

  Theorem registry_json_encrypted_roundtrip
    (aead_enc : bytes -> bytes -> bytes) (aead_dec : bytes -> bytes -> option bytes) :
    (forall ad p, aead_dec ad (aead_enc ad p) = Some p) ->
    forall es ad, wf_dhandle reg es ->
      exists text, write_encrypted_json dkey dser aead_enc es ad = Some text
        /\ ((forall ks, entries_to_proto_keyset dkey dser es = Some ks ->
               N.of_nat (length (write_keyset ks)) < two64 /\ bytes_okb (aead_enc ad (write_keyset ks)) = true) ->
            read_encrypted_json dkey (dpar reg) aead_dec text ad = Some es).
  Proof.
    intros AC es ad Hwf. pose proof (wf_dhandle_wf_handle schemas schemas_wf es Hwf) as Hh.
    destruct (keyset_entries_roundtrip _ _ _ es Hh) as (ks & A & _).
    eexists. split; [unfold write_encrypted_json; rewrite A; reflexivity|].
    intros Hl. eapply json_encrypted_roundtrip; try eassumption.
    unfold write_encrypted_json. rewrite A. reflexivity.
  Qed.
End Registry.

(* ---- a concrete registry handle (handle A of proofs/SerialRegistryProofs.v: a LEGACY
   AES-GCM key, disabled, and an enabled primary) through the JSON writer and reader ---- *)
Definition exA_json : bytes := Eval vm_compute in
  match write_cleartext_json dkey dser exA_es with Some b => b | None => [] end.
Definition exA_json_enc : bytes := Eval vm_compute in
  match write_encrypted_json dkey dser toy_enc exA_es [1; 2; 3] with Some b => b | None => [] end.

Lemma exA_json_facts :
  write_cleartext_json dkey dser exA_es = Some exA_json /\
  read_cleartext_json dkey (dpar (registry ex_schemas)) exA_json = Some exA_es /\
  (forall ks, entries_to_proto_keyset dkey dser exA_es = Some ks -> values_are_bytes ks = true) /\
  write_encrypted_json dkey dser toy_enc exA_es [1; 2; 3] = Some exA_json_enc /\
  read_encrypted_json dkey (dpar (registry ex_schemas)) toy_dec exA_json_enc [1; 2; 3] = Some exA_es /\
  read_encrypted_json dkey (dpar (registry ex_schemas)) toy_dec exA_json_enc [1; 2; 4] = None /\
  (forall ks, entries_to_proto_keyset dkey dser exA_es = Some ks ->
     N.of_nat (length (write_keyset ks)) < two64 /\ bytes_okb (toy_enc [1; 2; 3] (write_keyset ks)) = true).
Proof.
  assert (E : exists ks, entries_to_proto_keyset dkey dser exA_es = Some ks /\ values_are_bytes ks = true
                /\ N.of_nat (length (write_keyset ks)) < two64 /\ bytes_okb (toy_enc [1; 2; 3] (write_keyset ks)) = true).
  { destruct (entries_to_proto_keyset dkey dser exA_es) as [ks|] eqn:X; [|vm_compute in X; discriminate].
    exists ks. split; [reflexivity|]. vm_compute in X. inversion X; subst ks.
    split; [vm_compute; reflexivity|]. split; [vm_compute; reflexivity|vm_compute; reflexivity]. }
  destruct E as [ks [E [V [Lk B]]]].
  split; [vm_compute; reflexivity|]. split; [vm_compute; reflexivity|].
  split; [intros ks' E'; rewrite E in E'; inversion E'; subst; exact V|].
  split; [vm_compute; reflexivity|]. split; [vm_compute; reflexivity|]. split; [vm_compute; reflexivity|].
  intros ks' E'. rewrite E in E'. inversion E'; subst. split; assumption.
Qed.
